import Asn1Proofs.Lemmas.CostPerTypes
/-
  C08 for the ALIGNED PER model: the allocation bound for SEQUENCE and CHOICE, the induction over all
  types and the statements about `Per.decode`.  Linear in the bits consumed for EVERY type: the branch of
  `Choice.decode_additions` that used to move the read position backwards raises `DecodeError` since
  repair ace6523 of /repo.
-/
set_option linter.unusedSimpArgs false
set_option linter.unusedVariables false
namespace Asn1.CostP
open Asn1.Per
open Asn1.Uper (DecM Err bind_ok sizeBits utf8Dec charDecode sortByVal)
open Asn1.Cost (sumSize presenceNodes nodesFields_append sumSize_nodes)

theorem szp_decMembers (ms : Members) : ms.All SzP → ∀ (f : Nat) (flags : Bits) (s : St)
    (fs : List (String × Val)) (r : St), decMembers ms f flags s = .ok (fs, r) →
    r.bs.length ≤ s.bs.length ∧
      Val.nodesFields fs ≤ KPm ms * (s.bs.length - r.bs.length + 1) := by
  induction ms using Members.ind with
  | nil =>
    intro _ f flags s fs r h
    rw [decMembers] at h
    cases h
    simp [Val.nodesFields]
  | cons name p t rest ih =>
    intro hall f flags s fs r h
    obtain ⟨ht, hrest⟩ := hall
    have hpresent : ∀ fl, (do
          let (v, r) ← dec t f s
          let (fs, r') ← decMembers rest f fl r
          .ok ((name, v) :: fs, r') : DecM (List (String × Val) × St)) = .ok (fs, r) →
        r.bs.length ≤ s.bs.length ∧ Val.nodesFields fs ≤
          KPm (.cons name p t rest) * (s.bs.length - r.bs.length + 1) := by
      intro fl h
      obtain ⟨⟨v, r1⟩, h1, h⟩ := bind_ok h
      try dsimp only at h
      obtain ⟨hl1, hs1⟩ := ht f _ _ _ h1
      obtain ⟨⟨fs', r2⟩, h2, h⟩ := bind_ok h
      try dsimp only at h
      obtain ⟨hl2, hs2⟩ := ih hrest f fl _ _ _ h2
      cases h
      refine ⟨by omega, ?_⟩
      simp only [Val.nodesFields, KPm]
      exact Cost.mem_arith hs1 hs2 (by omega) (by omega)
    have hskip : ∀ fl, decMembers rest f fl s = .ok (fs, r) →
        r.bs.length ≤ s.bs.length ∧ Val.nodesFields fs ≤
          KPm (.cons name p t rest) * (s.bs.length - r.bs.length + 1) := by
      intro fl h
      obtain ⟨hl, hs⟩ := ih hrest f fl _ _ _ h
      refine ⟨hl, ?_⟩
      simp only [KPm]
      exact Cost.bd_mono hs (by omega) (Nat.le_refl _)
    cases p with
    | mandatory =>
      rw [decMembers] at h
      exact hpresent flags h
    | optional =>
      rw [decMembers.eq_def] at h
      try dsimp only at h
      revert h
      split
      · intro h; exact hpresent _ h
      · intro h; exact hskip _ h
      · intro h; cases h
    | default d =>
      rw [decMembers.eq_def] at h
      try dsimp only at h
      revert h
      split
      · intro h; exact hpresent _ h
      · intro h
        obtain ⟨⟨fs', r1⟩, h1, h⟩ := bind_ok h
        try dsimp only at h
        obtain ⟨hl, hs⟩ := ih hrest f _ _ _ _ h1
        cases h
        refine ⟨hl, ?_⟩
        simp only [Val.nodesFields, KPm, presenceNodes]
        exact Cost.mem_arith_default hs (Nat.le_refl _)
      · intro h; cases h

theorem szp_decAdditions (ms : Members) : ms.All SzP → ∀ (f : Nat) (bitmap : Bits) (s : St)
    (fs : List (String × Val)) (r : St), decAdditions ms f bitmap s = .ok (fs, r) →
    r.bs.length ≤ s.bs.length ∧
      Val.nodesFields fs ≤ KPm ms * (s.bs.length - r.bs.length + 1) := by
  induction ms using Members.ind with
  | nil =>
    intro _ f bitmap s fs r h
    rw [decAdditions] at h
    obtain ⟨r1, h1, h⟩ := bind_ok h
    try dsimp only at h
    have := skipUnknown_ok bitmap h1
    cases h
    simp [Val.nodesFields, this]
  | cons name p t rest ih =>
    intro hall f bitmap s fs r h
    obtain ⟨ht, hrest⟩ := hall
    cases bitmap with
    | nil => rw [decAdditions] at h; cases h; simp [Val.nodesFields]
    | cons present bitmap =>
      rw [decAdditions.eq_def] at h
      try dsimp only at h
      revert h
      split
      · intro h
        obtain ⟨⟨len, r1⟩, h1, h⟩ := bind_ok h
        try dsimp only at h
        have hl1 := (readLenDet_ok h1).1
        obtain ⟨⟨v, r2⟩, h2, h⟩ := bind_ok h
        try dsimp only at h
        obtain ⟨hl2, hs2⟩ := ht f _ _ _ h2
        obtain ⟨⟨pad, r3⟩, h3, h⟩ := bind_ok h
        try dsimp only at h
        have hl3 := (readBits_ok h3).1
        obtain ⟨⟨fs', r4⟩, h4, h⟩ := bind_ok h
        try dsimp only at h
        obtain ⟨hl4, hs4⟩ := ih hrest f _ _ _ _ h4
        cases h
        refine ⟨by omega, ?_⟩
        simp only [Val.nodesFields, KPm]
        exact Cost.mem_arith hs2 hs4 (by omega) (by omega)
      · intro h
        obtain ⟨hl, hs⟩ := ih hrest f _ _ _ _ h
        refine ⟨hl, ?_⟩
        simp only [KPm]
        exact Cost.bd_mono hs (by omega) (Nat.le_refl _)

/-- the extension bit of a type that is not extensible is never read -/
theorem optBit_true {c : Bool} {s r : St}
    (h : (if c = true then readBit s else .ok (false, s)) = .ok (true, r)) : c = true := by
  cases c with
  | true => rfl
  | false => simp at h

theorem szp_sequence (root : Members) (ext : Bool) (adds : Members)
    (ihr : root.All SzP) (iha : adds.All SzP) : SzP (.sequence root ext adds) := by
  intro f s v r h
  rw [dec] at h
  obtain ⟨⟨e, r0⟩, h0, h⟩ := bind_ok h
  try dsimp only at h
  have hl0 := optBit_ok h0
  obtain ⟨⟨flags, r1⟩, h1, h⟩ := bind_ok h
  try dsimp only at h
  have hl1 := (readBits_ok h1).1
  obtain ⟨⟨fields, r2⟩, h2, h⟩ := bind_ok h
  try dsimp only at h
  obtain ⟨hl2, hs2⟩ := szp_decMembers root ihr f _ _ _ _ h2
  revert h
  split
  · rename_i he
    subst he
    have hext := optBit_true h0
    subst hext
    intro h
    obtain ⟨⟨n, r3⟩, h3, h⟩ := bind_ok h
    try dsimp only at h
    have hl3 := decNsLength_ok h3
    obtain ⟨⟨bitmap, r4⟩, h4, h⟩ := bind_ok h
    try dsimp only at h
    have hl4 := (readBits_ok h4).1
    have ha := align_le r4
    obtain ⟨⟨more, r5⟩, h5, h⟩ := bind_ok h
    try dsimp only at h
    obtain ⟨hl5, hs5⟩ := szp_decAdditions adds iha f _ _ _ _ h5
    cases h
    refine ⟨by omega, ?_⟩
    simp only [Val.nodes, KP, nodesFields_append]
    have := Cost.mem_arith (P := 0) hs2 hs5 (c := s.bs.length - r.bs.length) (by omega) (by omega)
    simp only [Nat.add_zero] at this
    omega
  · intro h
    cases h
    refine ⟨by omega, ?_⟩
    simp only [Val.nodes, KP]
    have := Cost.mem_arith (P := 0) (b := 0) (K2 := KPm adds) (c2 := 0) hs2 (by omega)
      (c := s.bs.length - r.bs.length) (by omega) (by omega)
    simp only [Nat.add_zero] at this
    omega

theorem szp_decAlt (as : Alts) : as.All SzP → ∀ (f i : Nat) (s : St) (res : DecM (Val × St))
    (v : Val) (r : St), decAlt as f i s = some res → res = .ok (v, r) →
    r.bs.length ≤ s.bs.length ∧
      v.nodes ≤ (1 + KPa as) * (s.bs.length - r.bs.length + 1) := by
  induction as using Alts.ind with
  | nil => intro _ f i s res v r h; simp only [decAlt] at h; cases h
  | cons n t rest ih =>
    intro hall f i s res v r h hres
    obtain ⟨ht, hrest⟩ := hall
    cases i with
    | zero =>
      simp only [decAlt] at h
      cases h
      obtain ⟨⟨w, r1⟩, h1, h⟩ := bind_ok hres
      obtain ⟨hl1, hs1⟩ := ht f _ _ _ h1
      cases h
      refine ⟨hl1, ?_⟩
      simp only [Val.nodes, KPa]
      have := Cost.bd_add (Cost.bd_const 1 0) hs1
      refine Nat.le_trans this ?_
      refine Nat.mul_le_mul (by omega) (by omega)
    | succ i =>
      simp only [decAlt] at h
      obtain ⟨hl, hs⟩ := ih hrest f i s res v r h hres
      refine ⟨hl, Cost.bd_mono hs ?_ (Nat.le_refl _)⟩
      simp only [KPa]; omega

theorem szp_choice (root : Alts) (ext : Bool) (adds : Alts)
    (ihr : root.All SzP) (iha : adds.All SzP) : SzP (.choice root ext adds) := by
  intro f s v r h
  rw [dec] at h
  obtain ⟨⟨e, r0⟩, h0, h⟩ := bind_ok h
  try dsimp only at h
  have hl0 := optBit_ok h0
  revert h
  split
  · intro h
    obtain ⟨⟨idx, r1⟩, h1, h⟩ := bind_ok h
    try dsimp only at h
    have hl1 := decNsnnwn_ok h1
    have ha := align_le r1
    obtain ⟨⟨len, r2⟩, h2, h⟩ := bind_ok h
    try dsimp only at h
    have hl2 := (readLenDet_ok h2).1
    cases hd : decAlt adds f idx r2 with
    | none =>
      rw [hd] at h
      dsimp only at h
      obtain ⟨⟨body, r3⟩, h3, h⟩ := bind_ok h
      try dsimp only at h
      have hl3 := (readBits_ok h3).1
      cases h
      refine ⟨by omega, ?_⟩
      simp only [Val.nodes, KP, Nat.add_assoc]
      exact Cost.KU_pos_choice
    | some res =>
      rw [hd] at h
      dsimp only at h
      obtain ⟨⟨w, r3⟩, h3, h⟩ := bind_ok h
      try dsimp only at h
      obtain ⟨hl3, hs3⟩ := szp_decAlt adds iha f idx r2 res w r3 hd h3
      revert h
      split
      · -- the alternative read beyond its open type: a `DecodeError` (before repair ace6523 of /repo the
        -- position moved back here, and the value `w` was paid for by bits that were read again)
        intro h; cases h
      · intro h
        obtain ⟨⟨body, r4⟩, h4, h⟩ := bind_ok h
        try dsimp only at h
        have hl4 := (readBits_ok h4).1
        cases h
        refine ⟨by omega, ?_⟩
        simp only [KP]
        exact Cost.bd_mono hs3 (by omega) (by omega)
  · intro h
    obtain ⟨⟨idx, r1⟩, h1, h⟩ := bind_ok h
    try dsimp only at h
    have hl1 : r1.bs.length ≤ r0.bs.length := by
      split at h1
      · exact decConstrainedInt_ok h1
      · cases h1; exact Nat.le_refl _
    cases hd : decAlt root f idx.toNat r1 with
    | none => rw [hd] at h; cases h
    | some res =>
      rw [hd] at h
      dsimp only at h
      obtain ⟨hl3, hs3⟩ := szp_decAlt root ihr f idx.toNat r1 res v r hd h
      refine ⟨by omega, ?_⟩
      simp only [KP]
      exact Cost.bd_mono hs3 (by omega) (by omega)

/-- **aligned PER allocation bound (bit level)**, every type: a successful run of the decoder of `t`
never lengthens the input, and the value it returns has at most `KP t` nodes per bit consumed (+1) -/
theorem szp_all (t : Ty) : SzP t :=
  Ty.rec (motive_1 := SzP) (motive_2 := Members.All SzP) (motive_3 := Alts.All SzP)
    szp_boolean szp_null szp_integer szp_enumerated szp_octetString szp_bitString
    (fun k c => by
      by_cases hk : k = .utf8
      · subst hk; exact szp_utf8 c
      · exact szp_charString k hk c)
    (fun root ext adds ihr iha => szp_sequence root ext adds ihr iha)
    (fun e c ih => szp_sequenceOf e c ih)
    (fun root ext adds ihr iha => szp_choice root ext adds ihr iha)
    trivial (fun _ _ _ _ iht ihr => ⟨iht, ihr⟩)
    trivial (fun _ _ _ iht ihr => ⟨iht, ihr⟩) t

theorem per_dec_cost (t : Ty) (f : Nat) (s : St) (v : Val) (r : St) (h : dec t f s = .ok (v, r)) :
    r.bs.length ≤ s.bs.length ∧ v.nodes ≤ KP t * (s.bs.length - r.bs.length + 1) :=
  szp_all t f s v r h

/-- **aligned PER allocation bound**, every type, every octet string: a decoded value has at most
`KP t * (8 * length + 1)` nodes -/
theorem per_decode_alloc (t : Ty) (bs : Bytes) (v : Val) (h : Per.decode t bs = .ok v) :
    v.nodes ≤ KP t * (8 * bs.length + 1) := by
  unfold Per.decode at h
  cases hd : dec t (8 * bs.length + 2) ⟨0, bytesToBits bs⟩ with
  | error e => rw [hd] at h; cases h
  | ok vr =>
    obtain ⟨w, r⟩ := vr
    rw [hd] at h
    cases h
    obtain ⟨hl, hs⟩ := per_dec_cost t _ _ _ _ hd
    simp only [bytesToBits_length] at hs hl
    exact Cost.bd_mono hs (Nat.le_refl _) (by omega)

theorem per_decode_alloc' (t : Ty) (bs : Bytes) (v : Val) (h : Per.decode t bs = .ok v) :
    v.nodes ≤ 8 * KP t * (bs.length + 1) := by
  have := per_decode_alloc t bs v h
  refine Nat.le_trans this ?_
  rw [Nat.mul_comm 8 (KP t), Nat.mul_assoc]
  exact Nat.mul_le_mul_left _ (by omega)

end Asn1.CostP
