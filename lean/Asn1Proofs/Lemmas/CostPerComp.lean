import Asn1Proofs.Lemmas.CostPerTypes
/-
  C08 for the ALIGNED PER model: the allocation bound for SEQUENCE and CHOICE (with the rewinding
  branch of `Choice.decode_additions`), the induction over all types and the statements about
  `Per.decode`.
-/
set_option linter.unusedSimpArgs false
set_option linter.unusedVariables false
namespace Asn1.CostP
open Asn1.Per
open Asn1.Uper (DecM Err bind_ok sizeBits utf8Dec charDecode sortByVal)
open Asn1.Cost (sumSize presenceNodes nodesFields_append sumSize_nodes)

theorem absorb2 {Q K1 K2 P : Nat} (hP : 1 ≤ P) :
    1 + Q + K1 * P + K2 * P ≤ (1 + Q + K1 + K2) * P := by
  have e : 1 + Q + K1 + K2 = (1 + Q) + (K1 + K2) := by omega
  have := absorb (k := 1 + Q) (A := K1 + K2) hP
  rw [Nat.add_mul K1 K2 P] at this
  rw [e]
  omega

theorem mem_arithP {a K1 P1 c1 b K2 P2 c2 Q P c : Nat} (h1 : a ≤ K1 * P1 * (c1 + 1))
    (h2 : b ≤ K2 * P2 * (c2 + 1)) (hP1 : P1 ≤ P) (hP2 : P2 ≤ P) (hP : 1 ≤ P)
    (hc1 : c1 ≤ c) (hc2 : c2 ≤ c) : 1 + a + b ≤ (1 + Q + K1 + K2) * P * (c + 1) := by
  have h1' : a ≤ K1 * P * (c1 + 1) :=
    Nat.le_trans h1 (Nat.mul_le_mul_right _ (Nat.mul_le_mul_left _ hP1))
  have h2' : b ≤ K2 * P * (c2 + 1) :=
    Nat.le_trans h2 (Nat.mul_le_mul_right _ (Nat.mul_le_mul_left _ hP2))
  have a := Cost.mem_arith (P := Q) h1' h2' hc1 hc2
  refine Nat.le_trans a (Nat.mul_le_mul_right _ ?_)
  exact absorb2 hP

theorem mem_arith_defaultP {b K1 K2 P2 c2 Q P c : Nat} (h2 : b ≤ K2 * P2 * (c2 + 1))
    (hP2 : P2 ≤ P) (hP : 1 ≤ P) (hc2 : c2 ≤ c) : 1 + Q + b ≤ (1 + Q + K1 + K2) * P * (c + 1) := by
  have h2' : b ≤ K2 * P * (c2 + 1) :=
    Nat.le_trans h2 (Nat.mul_le_mul_right _ (Nat.mul_le_mul_left _ hP2))
  have a := Cost.mem_arith_default (K1 := K1 * P) (P := Q) h2' hc2
  refine Nat.le_trans a (Nat.mul_le_mul_right _ ?_)
  exact absorb2 hP

theorem szp_decMembers (ms : Members) : ms.All SzP → ∀ (f N : Nat) (flags : Bits) (s : St)
    (fs : List (String × Val)) (r : St), decMembers ms f flags s = .ok (fs, r) → s.bs.length ≤ N →
    r.bs.length ≤ s.bs.length ∧
      Val.nodesFields fs ≤ KPm ms * (N + 1) ^ rewindsM ms * (s.bs.length - r.bs.length + 1) := by
  induction ms using Members.ind with
  | nil =>
    intro _ f N flags s fs r h _
    rw [decMembers] at h
    cases h
    simp [Val.nodesFields]
  | cons name p t rest ih =>
    intro hall f N flags s fs r h hN
    obtain ⟨ht, hrest⟩ := hall
    have hPl := pw_mono N (Nat.le_max_left (rewinds t) (rewindsM rest))
    have hPr := pw_mono N (Nat.le_max_right (rewinds t) (rewindsM rest))
    have hP := pw_pos N (max (rewinds t) (rewindsM rest))
    have hpresent : ∀ fl, (do
          let (v, r) ← dec t f s
          let (fs, r') ← decMembers rest f fl r
          .ok ((name, v) :: fs, r') : DecM (List (String × Val) × St)) = .ok (fs, r) →
        r.bs.length ≤ s.bs.length ∧ Val.nodesFields fs ≤
          KPm (.cons name p t rest) * (N + 1) ^ rewindsM (.cons name p t rest)
            * (s.bs.length - r.bs.length + 1) := by
      intro fl h
      obtain ⟨⟨v, r1⟩, h1, h⟩ := bind_ok h
      try dsimp only at h
      obtain ⟨hl1, hs1⟩ := ht f N _ _ _ h1 hN
      obtain ⟨⟨fs', r2⟩, h2, h⟩ := bind_ok h
      try dsimp only at h
      obtain ⟨hl2, hs2⟩ := ih hrest f N fl _ _ _ h2 (by omega)
      cases h
      refine ⟨by omega, ?_⟩
      simp only [Val.nodesFields, KPm, rewindsM]
      exact mem_arithP hs1 hs2 hPl hPr hP (by omega) (by omega)
    have hskip : ∀ fl, decMembers rest f fl s = .ok (fs, r) →
        r.bs.length ≤ s.bs.length ∧ Val.nodesFields fs ≤
          KPm (.cons name p t rest) * (N + 1) ^ rewindsM (.cons name p t rest)
            * (s.bs.length - r.bs.length + 1) := by
      intro fl h
      obtain ⟨hl, hs⟩ := ih hrest f N fl _ _ _ h hN
      refine ⟨hl, ?_⟩
      simp only [KPm, rewindsM]
      exact bdP_mono hs (by omega) (Nat.le_max_right _ _) (Nat.le_refl _)
    cases p with
    | mandatory =>
      rw [decMembers] at h
      exact hpresent flags h
    | optional =>
      rw [decMembers.eq_def] at h
      try dsimp only at h
      revert h
      split
      · intro h; exact hpresent _ h
      · intro h; exact hskip _ h
      · intro h; cases h
    | default d =>
      rw [decMembers.eq_def] at h
      try dsimp only at h
      revert h
      split
      · intro h; exact hpresent _ h
      · intro h
        obtain ⟨⟨fs', r1⟩, h1, h⟩ := bind_ok h
        try dsimp only at h
        obtain ⟨hl, hs⟩ := ih hrest f N _ _ _ _ h1 hN
        cases h
        refine ⟨hl, ?_⟩
        simp only [Val.nodesFields, KPm, rewindsM, presenceNodes]
        exact mem_arith_defaultP hs hPr hP (Nat.le_refl _)
      · intro h; cases h

theorem szp_decAdditions (ms : Members) : ms.All SzP → ∀ (f N : Nat) (bitmap : Bits) (s : St)
    (fs : List (String × Val)) (r : St), decAdditions ms f bitmap s = .ok (fs, r) → s.bs.length ≤ N →
    r.bs.length ≤ s.bs.length ∧
      Val.nodesFields fs ≤ KPm ms * (N + 1) ^ rewindsM ms * (s.bs.length - r.bs.length + 1) := by
  induction ms using Members.ind with
  | nil =>
    intro _ f N bitmap s fs r h _
    rw [decAdditions] at h
    obtain ⟨r1, h1, h⟩ := bind_ok h
    try dsimp only at h
    have := skipUnknown_ok bitmap h1
    cases h
    simp [Val.nodesFields, this]
  | cons name p t rest ih =>
    intro hall f N bitmap s fs r h hN
    obtain ⟨ht, hrest⟩ := hall
    have hPl := pw_mono N (Nat.le_max_left (rewinds t) (rewindsM rest))
    have hPr := pw_mono N (Nat.le_max_right (rewinds t) (rewindsM rest))
    have hP := pw_pos N (max (rewinds t) (rewindsM rest))
    cases bitmap with
    | nil => rw [decAdditions] at h; cases h; simp [Val.nodesFields]
    | cons present bitmap =>
      rw [decAdditions.eq_def] at h
      try dsimp only at h
      revert h
      split
      · intro h
        obtain ⟨⟨len, r1⟩, h1, h⟩ := bind_ok h
        try dsimp only at h
        have hl1 := (readLenDet_ok h1).1
        obtain ⟨⟨v, r2⟩, h2, h⟩ := bind_ok h
        try dsimp only at h
        obtain ⟨hl2, hs2⟩ := ht f N _ _ _ h2 (by omega)
        obtain ⟨⟨pad, r3⟩, h3, h⟩ := bind_ok h
        try dsimp only at h
        have hl3 := (readBits_ok h3).1
        obtain ⟨⟨fs', r4⟩, h4, h⟩ := bind_ok h
        try dsimp only at h
        obtain ⟨hl4, hs4⟩ := ih hrest f N _ _ _ _ h4 (by omega)
        cases h
        refine ⟨by omega, ?_⟩
        simp only [Val.nodesFields, KPm, rewindsM]
        exact mem_arithP hs2 hs4 hPl hPr hP (by omega) (by omega)
      · intro h
        obtain ⟨hl, hs⟩ := ih hrest f N _ _ _ _ h hN
        refine ⟨hl, ?_⟩
        simp only [KPm, rewindsM]
        exact bdP_mono hs (by omega) (Nat.le_max_right _ _) (Nat.le_refl _)

/-- the extension bit of a type that is not extensible is never read -/
theorem optBit_true {c : Bool} {s r : St}
    (h : (if c = true then readBit s else .ok (false, s)) = .ok (true, r)) : c = true := by
  cases c with
  | true => rfl
  | false => simp at h

theorem szp_sequence (root : Members) (ext : Bool) (adds : Members)
    (ihr : root.All SzP) (iha : adds.All SzP) : SzP (.sequence root ext adds) := by
  intro f N s v r h hN
  rw [dec] at h
  obtain ⟨⟨e, r0⟩, h0, h⟩ := bind_ok h
  try dsimp only at h
  have hl0 := optBit_ok h0
  obtain ⟨⟨flags, r1⟩, h1, h⟩ := bind_ok h
  try dsimp only at h
  have hl1 := (readBits_ok h1).1
  obtain ⟨⟨fields, r2⟩, h2, h⟩ := bind_ok h
  try dsimp only at h
  obtain ⟨hl2, hs2⟩ := szp_decMembers root ihr f N _ _ _ _ h2 (by omega)
  revert h
  split
  · rename_i he
    subst he
    have hext := optBit_true h0
    subst hext
    intro h
    obtain ⟨⟨n, r3⟩, h3, h⟩ := bind_ok h
    try dsimp only at h
    have hl3 := decNsLength_ok h3
    obtain ⟨⟨bitmap, r4⟩, h4, h⟩ := bind_ok h
    try dsimp only at h
    have hl4 := (readBits_ok h4).1
    have ha := align_le r4
    obtain ⟨⟨more, r5⟩, h5, h⟩ := bind_ok h
    try dsimp only at h
    obtain ⟨hl5, hs5⟩ := szp_decAdditions adds iha f N _ _ _ _ h5 (by omega)
    cases h
    refine ⟨by omega, ?_⟩
    simp only [Val.nodes, KP, rewinds, nodesFields_append, if_true]
    have := mem_arithP (Q := 0) (P := (N + 1) ^ max (rewindsM root) (rewindsM adds)) hs2 hs5
      (pw_mono N (Nat.le_max_left _ _)) (pw_mono N (Nat.le_max_right _ _)) (pw_pos N _)
      (c := s.bs.length - r.bs.length) (by omega) (by omega)
    simp only [Nat.add_zero] at this
    omega
  · intro h
    cases h
    refine ⟨by omega, ?_⟩
    simp only [Val.nodes, KP, rewinds]
    have := mem_arithP (Q := 0) (b := 0) (K2 := KPm adds) (P2 := 1) (c2 := 0)
      (P := (N + 1) ^ max (rewindsM root) (if ext = true then rewindsM adds else 0)) hs2 (by omega)
      (pw_mono N (Nat.le_max_left _ _)) (pw_pos N _) (pw_pos N _)
      (c := s.bs.length - r.bs.length) (by omega) (by omega)
    simp only [Nat.add_zero] at this
    omega

theorem szp_decAlt (as : Alts) : as.All SzP → ∀ (f N i : Nat) (s : St) (res : DecM (Val × St))
    (v : Val) (r : St), decAlt as f i s = some res → res = .ok (v, r) → s.bs.length ≤ N →
    r.bs.length ≤ s.bs.length ∧
      v.nodes ≤ (1 + KPa as) * (N + 1) ^ rewindsA as * (s.bs.length - r.bs.length + 1) := by
  induction as using Alts.ind with
  | nil => intro _ f N i s res v r h; simp only [decAlt] at h; cases h
  | cons n t rest ih =>
    intro hall f N i s res v r h hres hN
    obtain ⟨ht, hrest⟩ := hall
    cases i with
    | zero =>
      simp only [decAlt] at h
      cases h
      obtain ⟨⟨w, r1⟩, h1, h⟩ := bind_ok hres
      obtain ⟨hl1, hs1⟩ := ht f N _ _ _ h1 hN
      cases h
      refine ⟨hl1, ?_⟩
      simp only [Val.nodes, KPa, rewindsA]
      have := mem_arithP (Q := 0) (b := 0) (K2 := KPa rest) (P2 := 1) (c2 := 0)
        (P := (N + 1) ^ max (rewinds t) (rewindsA rest)) hs1 (by omega)
        (pw_mono N (Nat.le_max_left _ _)) (pw_pos N _) (pw_pos N _)
        (c := s.bs.length - r1.bs.length) (by omega) (by omega)
      simp only [Nat.add_zero, Nat.zero_add, Nat.add_assoc] at this ⊢
      exact this
    | succ i =>
      simp only [decAlt] at h
      obtain ⟨hl, hs⟩ := ih hrest f N i s res v r h hres hN
      refine ⟨hl, ?_⟩
      simp only [KPa, rewindsA]
      exact bdP_mono hs (by omega) (Nat.le_max_right _ _) (Nat.le_refl _)

/-- the rewinding branch: the value was paid for by bits that are read again later; all that is left
is "at most all the remaining bits", one more factor `N + 1` -/
theorem rewind_arith {x K N d c' c : Nat} (h : x ≤ K * (N + 1) ^ d * (c' + 1)) (hc : c' ≤ N) :
    x ≤ K * (N + 1) ^ (d + 1) * (c + 1) := by
  refine Nat.le_trans h ?_
  rw [Nat.pow_succ, ← Nat.mul_assoc]
  refine Nat.le_trans (Nat.mul_le_mul_left _ (show c' + 1 ≤ N + 1 by omega)) ?_
  exact Nat.le_mul_of_pos_right _ (by omega)

theorem szp_choice (root : Alts) (ext : Bool) (adds : Alts)
    (ihr : root.All SzP) (iha : adds.All SzP) : SzP (.choice root ext adds) := by
  intro f N s v r h hN
  rw [dec] at h
  obtain ⟨⟨e, r0⟩, h0, h⟩ := bind_ok h
  try dsimp only at h
  have hl0 := optBit_ok h0
  revert h
  split
  · rename_i he
    subst he
    have hext := optBit_true h0
    subst hext
    intro h
    obtain ⟨⟨idx, r1⟩, h1, h⟩ := bind_ok h
    try dsimp only at h
    have hl1 := decNsnnwn_ok h1
    have ha := align_le r1
    obtain ⟨⟨len, r2⟩, h2, h⟩ := bind_ok h
    try dsimp only at h
    have hl2 := (readLenDet_ok h2).1
    cases hd : decAlt adds f idx r2 with
    | none =>
      rw [hd] at h
      dsimp only at h
      obtain ⟨⟨body, r3⟩, h3, h⟩ := bind_ok h
      try dsimp only at h
      have hl3 := (readBits_ok h3).1
      cases h
      refine ⟨by omega, ?_⟩
      simp only [Val.nodes, KP, Nat.add_assoc]
      have := absorb (k := 2) (A := KPa root + KPa adds)
        (pw_pos N (rewinds (.choice root true adds)))
      have h2 : 2 ≤ 2 + (KPa root + KPa adds) * (N + 1) ^ rewinds (.choice root true adds) := by omega
      refine Nat.le_trans (Nat.le_trans h2 this) (Nat.le_mul_of_pos_right _ (by omega))
    | some res =>
      rw [hd] at h
      dsimp only at h
      obtain ⟨⟨w, r3⟩, h3, h⟩ := bind_ok h
      try dsimp only at h
      obtain ⟨hl3, hs3⟩ := szp_decAlt adds iha f N idx r2 res w r3 hd h3 (by omega)
      have hrw : rewindsA adds + 1 ≤ rewinds (.choice root true adds) := by
        cases adds with
        | nil => simp only [decAlt] at hd; cases hd
        | cons n t rest =>
          simp only [rewinds, if_true]
          exact Nat.le_max_right _ _
      have hfin : w.nodes ≤ KP (.choice root true adds) * (N + 1) ^ rewinds (.choice root true adds)
          * (s.bs.length - r.bs.length + 1) := by
        have a := rewind_arith (c := s.bs.length - r.bs.length) hs3
          (show r2.bs.length - r3.bs.length ≤ N by omega)
        refine bdP_mono a ?_ hrw (Nat.le_refl _)
        simp only [KP]; omega
      revert h
      split
      · -- the rewind (were this branch an error, as in the repaired code, `cases h` would close it)
        intro h
        cases h <;> (refine ⟨?_, hfin⟩; simp only [List.length_drop]; omega)
      · intro h
        obtain ⟨⟨body, r4⟩, h4, h⟩ := bind_ok h
        try dsimp only at h
        have hl4 := (readBits_ok h4).1
        cases h
        exact ⟨by omega, hfin⟩
  · intro h
    obtain ⟨⟨idx, r1⟩, h1, h⟩ := bind_ok h
    try dsimp only at h
    have hl1 : r1.bs.length ≤ r0.bs.length := by
      split at h1
      · exact decConstrainedInt_ok h1
      · cases h1; exact Nat.le_refl _
    cases hd : decAlt root f idx.toNat r1 with
    | none => rw [hd] at h; cases h
    | some res =>
      rw [hd] at h
      dsimp only at h
      obtain ⟨hl3, hs3⟩ := szp_decAlt root ihr f N idx.toNat r1 res v r hd h (by omega)
      refine ⟨by omega, ?_⟩
      refine bdP_mono hs3 ?_ ?_ (by omega)
      · simp only [KP]; omega
      · simp only [rewinds]; exact Nat.le_max_left _ _

/-- **aligned PER allocation bound (bit level)**, every type: a successful run of the decoder of `t`
never lengthens the input, and the value it returns has at most `KP t * (N + 1) ^ rewinds t` nodes per
bit consumed (+1), `N` being any bound on the number of remaining bits -/
theorem szp_all (t : Ty) : SzP t :=
  Ty.rec (motive_1 := SzP) (motive_2 := Members.All SzP) (motive_3 := Alts.All SzP)
    szp_boolean szp_null szp_integer szp_enumerated szp_octetString szp_bitString
    (fun k c => by
      by_cases hk : k = .utf8
      · subst hk; exact szp_utf8 c
      · exact szp_charString k hk c)
    (fun root ext adds ihr iha => szp_sequence root ext adds ihr iha)
    (fun e c ih => szp_sequenceOf e c ih)
    (fun root ext adds ihr iha => szp_choice root ext adds ihr iha)
    trivial (fun _ _ _ _ iht ihr => ⟨iht, ihr⟩)
    trivial (fun _ _ _ iht ihr => ⟨iht, ihr⟩) t

/-- the inductive statement, with `N` = the number of bits in front of the decoder -/
theorem per_dec_cost (t : Ty) (f : Nat) (s : St) (v : Val) (r : St) (h : dec t f s = .ok (v, r)) :
    r.bs.length ≤ s.bs.length ∧
      v.nodes ≤ KP t * (s.bs.length + 1) ^ rewinds t * (s.bs.length - r.bs.length + 1) :=
  szp_all t f s.bs.length s v r h (Nat.le_refl _)

/-- without a rewinding CHOICE: linear in the bits consumed, as for UPER -/
theorem per_dec_cost_linear (t : Ty) (hrw : rewinds t = 0) (f : Nat) (s : St) (v : Val) (r : St)
    (h : dec t f s = .ok (v, r)) :
    r.bs.length ≤ s.bs.length ∧ v.nodes ≤ KP t * (s.bs.length - r.bs.length + 1) := by
  have := per_dec_cost t f s v r h
  rwa [hrw, Nat.pow_zero, Nat.mul_one] at this

/-- **aligned PER allocation bound**, every type, every octet string: polynomial of degree
`rewinds t + 1` in the length of the input -/
theorem per_decode_alloc_poly (t : Ty) (bs : Bytes) (v : Val) (h : Per.decode t bs = .ok v) :
    v.nodes ≤ KP t * (8 * bs.length + 1) ^ (rewinds t + 1) := by
  unfold Per.decode at h
  cases hd : dec t (8 * bs.length + 2) ⟨0, bytesToBits bs⟩ with
  | error e => rw [hd] at h; cases h
  | ok vr =>
    obtain ⟨w, r⟩ := vr
    rw [hd] at h
    cases h
    obtain ⟨hl, hs⟩ := per_dec_cost t _ _ _ _ hd
    simp only [bytesToBits_length] at hs hl
    refine Nat.le_trans hs ?_
    rw [Nat.pow_succ, ← Nat.mul_assoc]
    exact Nat.mul_le_mul_left _ (by omega)

/-- **aligned PER allocation bound**, types without a rewinding CHOICE: whatever the octets, a
decoded value has at most `KP t * (8 * length + 1)` nodes -/
theorem per_decode_alloc (t : Ty) (hrw : rewinds t = 0) (bs : Bytes) (v : Val)
    (h : Per.decode t bs = .ok v) : v.nodes ≤ KP t * (8 * bs.length + 1) := by
  have := per_decode_alloc_poly t bs v h
  rwa [hrw, Nat.zero_add, Nat.pow_one] at this

theorem per_decode_alloc' (t : Ty) (hrw : rewinds t = 0) (bs : Bytes) (v : Val)
    (h : Per.decode t bs = .ok v) : v.nodes ≤ 8 * KP t * (bs.length + 1) := by
  have := per_decode_alloc t hrw bs v h
  refine Nat.le_trans this ?_
  rw [Nat.mul_comm 8 (KP t), Nat.mul_assoc]
  exact Nat.mul_le_mul_left _ (by omega)

end Asn1.CostP
