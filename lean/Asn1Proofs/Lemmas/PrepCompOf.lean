import Asn1Proofs.Lemmas.PrepList
/-
  Pass 1 (`pre_process_components_of`) on one type assignment: the expanded member list contains no
  COMPONENTS OF entry, a member list without such an entry is left alone, the other passes keep the
  absence, and everything that is copied comes from the dictionary.
-/
namespace Asn1.SpecDict

/-- no `{'components-of': …}` entry in a member list -/
def noCompOf : List Item → Bool
  | [] => true
  | .compOf _ :: _ => false
  | _ :: t => noCompOf t

/-- the member list of the descriptor itself (not of nested descriptors) has no COMPONENTS OF entry -/
def Desc.topClean : Desc → Bool
  | .mk _ (.members ms) => noCompOf ms
  | _ => true

theorem noCompOf_append (l₁ l₂ : List Item) :
    noCompOf (l₁ ++ l₂) = (noCompOf l₁ && noCompOf l₂) := by
  induction l₁ with
  | nil => simp [noCompOf]
  | cons i t ih => cases i <;> simp [noCompOf, ih]

theorem noCompOf_takeRoot {l : List Item} (h : noCompOf l = true) : noCompOf (takeRoot l) = true := by
  induction l with
  | nil => rfl
  | cons i t ih =>
    cases i with
    | marker => rfl
    | compOf r => simp [noCompOf] at h
    | group g => simp only [noCompOf] at h; simp [takeRoot, noCompOf, ih h]
    | desc d => simp only [noCompOf] at h; simp [takeRoot, noCompOf, ih h]

theorem noCompOf_addMarker (l : List Item) : noCompOf (addMarker l) = noCompOf l := by
  unfold addMarker; split
  · rfl
  · simp [noCompOf_append, noCompOf]

theorem noCompOf_extItems (l : List Item) : noCompOf (extItems l) = noCompOf l := by
  induction l with
  | nil => simp [extItems]
  | cons i t ih => cases i <;> simp [extItems, extItem, noCompOf, ih]

theorem noCompOf_tagItems (sk : Skel) (mt mn : String) (k : Option Nat) (l : List Item) :
    noCompOf (tagItems sk mt mn k l) = noCompOf l := by
  induction l generalizing k with
  | nil => simp [tagItems]
  | cons i t ih => cases i <;> simp [tagItems, noCompOf, ih]

theorem noCompOf_defItems (sk : Skel) (n : Bool) (mn : String) (c : Bool) (l : List Item) :
    noCompOf (defItems sk n mn c l) = noCompOf l := by
  induction l with
  | nil => simp [defItems]
  | cons i t ih => cases i <;> simp [defItems, defItem, noCompOf, ih]

theorem topClean_extDesc (d : Desc) : (extDesc d).topClean = d.topClean := by
  cases d with
  | mk a b =>
    cases b <;> simp [extDesc, extBody, Desc.topClean, noCompOf_addMarker, noCompOf_extItems]

theorem topClean_tagDesc (sk : Skel) (mt mn : String) (k : Option Nat) (d : Desc) :
    (tagDesc sk mt mn k d).topClean = d.topClean := by
  cases d with
  | mk a b =>
    cases b <;> simp [tagDesc, tagBody, Desc.topClean, noCompOf_tagItems]

theorem topClean_defDesc (sk : Skel) (n : Bool) (mn : String) (c : Bool) (d : Desc) :
    (defDesc sk n mn c d).topClean = d.topClean := by
  cases d with
  | mk a b =>
    cases b <;> simp [defDesc, defBody, Desc.topClean, noCompOf_defItems]

/-! ### the expansion -/

theorem expandWith_of_noCompOf (rec : String → List Item → List Item) (spec : Spec) (lf : Nat)
    (mod : String) {l : List Item} (h : noCompOf l = true) : expandWith rec spec lf mod l = l := by
  induction l with
  | nil => rfl
  | cons i t ih =>
    cases i with
    | compOf r => simp [noCompOf] at h
    | marker => simp only [noCompOf] at h; simp [expandWith, ih h]
    | group g => simp only [noCompOf] at h; simp [expandWith, ih h]
    | desc d => simp only [noCompOf] at h; simp [expandWith, ih h]

theorem noCompOf_expandWith (rec : String → List Item → List Item) (spec : Spec) (lf : Nat)
    (mod : String) (hrec : ∀ mod' ms, noCompOf (rec mod' ms) = true) (l : List Item) :
    noCompOf (expandWith rec spec lf mod l) = true := by
  induction l with
  | nil => rfl
  | cons i t ih =>
    cases i with
    | compOf r =>
      simp only [expandWith, noCompOf_append, ih, Bool.and_true]
      split
      · exact noCompOf_takeRoot (hrec _ _)
      · rfl
    | marker => simp [expandWith, noCompOf, ih]
    | group g => simp [expandWith, noCompOf, ih]
    | desc d => simp [expandWith, noCompOf, ih]

theorem noCompOf_expandItems (spec : Spec) (lf : Nat) (f : Nat) (mod : String) (l : List Item) :
    noCompOf (expandItems spec lf f mod l) = true := by
  induction f generalizing mod l with
  | zero => rfl
  | succ f ih => exact noCompOf_expandWith _ spec lf mod (fun mod' ms => ih mod' ms) l

theorem topClean_compOfType (spec : Spec) (mn : String) (d : Desc) :
    (compOfType spec mn d).topClean = true := by
  cases d with
  | mk a b =>
    cases b with
    | leaf => rfl
    | element e => rfl
    | members ms => simp only [compOfType, Desc.topClean]; exact noCompOf_expandItems ..

/-- `components_of_idem` on a type assignment: nothing left to expand -/
theorem compOfType_of_topClean (spec : Spec) (mn : String) {d : Desc} (h : d.topClean = true) :
    compOfType spec mn d = d := by
  cases d with
  | mk a b =>
    cases b with
    | leaf => rfl
    | element e => rfl
    | members ms =>
      simp only [Desc.topClean] at h
      simp only [compOfType, resolveFuel, expandItems]
      rw [expandWith_of_noCompOf _ _ _ _ h]

@[simp] theorem compOfType_attrs (spec : Spec) (mn : String) (d : Desc) :
    (compOfType spec mn d).attrs = d.attrs := by
  cases d with
  | mk a b => cases b <;> rfl

/-! ### everything that is copied comes from the dictionary -/

/-- every descriptor of every type assignment of the dictionary satisfies P -/
def SpecAll (P : Attrs → Prop) (spec : Spec) : Prop :=
  ∀ mn m, (mn, m) ∈ spec → ∀ k d, (k, d) ∈ m.types → d.All P

section
variable {P : Attrs → Prop}

theorem lookupType_all {spec : Spec} (h : SpecAll P spec) {f : Nat} {name mod : String}
    {td : Desc} {mod' : String} (hl : lookupType spec f name mod = some (td, mod')) : td.All P := by
  induction f generalizing mod with
  | zero => simp [lookupType] at hl
  | succ f ih =>
    simp only [lookupType] at hl
    split at hl
    · cases hl
    · rename_i m hm
      split at hl
      · rename_i td' htd
        cases hl
        exact h _ _ (find?_mem hm) _ _ (find?_mem htd)
      · split at hl
        · cases hl
        · exact ih hl

theorem ItemsAll_expandWith {spec : Spec} (h : SpecAll P spec)
    (rec : String → List Item → List Item) (lf : Nat) (mod : String)
    (hrec : ∀ mod' ms, ItemsAll P ms → ItemsAll P (rec mod' ms))
    {l : List Item} (hl : ItemsAll P l) : ItemsAll P (expandWith rec spec lf mod l) := by
  induction l with
  | nil => simp [expandWith, ItemsAll]
  | cons i t ih =>
    simp only [ItemsAll] at hl
    cases i with
    | compOf r =>
      simp only [expandWith]
      refine ItemsAll_append.2 ⟨?_, ih hl.2⟩
      split
      · rename_i a ms mod' heq
        have := lookupType_all h heq
        simp only [Desc.All, Body.All] at this
        exact ItemsAll_takeRoot (hrec _ _ this.2)
      · simp [ItemsAll]
    | marker => simp only [expandWith, ItemsAll]; exact ⟨hl.1, ih hl.2⟩
    | group g => simp only [expandWith, ItemsAll]; exact ⟨hl.1, ih hl.2⟩
    | desc d => simp only [expandWith, ItemsAll]; exact ⟨hl.1, ih hl.2⟩

theorem ItemsAll_expandItems {spec : Spec} (h : SpecAll P spec) (lf f : Nat) (mod : String)
    {l : List Item} (hl : ItemsAll P l) : ItemsAll P (expandItems spec lf f mod l) := by
  induction f generalizing mod l with
  | zero => simp [expandItems, ItemsAll]
  | succ f ih => exact ItemsAll_expandWith h _ lf mod (fun mod' ms hms => ih mod' hms) hl

theorem Desc.All.compOfType {spec : Spec} (h : SpecAll P spec) (mn : String) {d : Desc}
    (hd : d.All P) : (compOfType spec mn d).All P := by
  cases d with
  | mk a b =>
    cases b with
    | leaf => exact hd
    | element e => exact hd
    | members ms =>
      simp only [Desc.All, Body.All, SpecDict.compOfType] at hd ⊢
      exact ⟨hd.1, ItemsAll_expandItems h _ _ _ hd.2⟩

end

end Asn1.SpecDict
