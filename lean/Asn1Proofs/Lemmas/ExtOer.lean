import Asn1Proofs.Lemmas.ExtDefs
import Asn1Proofs.Lemmas.OerRoundtrip
import Asn1Proofs.Lemmas.ExtOerSeq
/-
  C07, OER: the decoder for `tD` on an encoding under `tE` (`Compat tD tE`) returns `view false tD tE v`
  and leaves exactly the octets that follow the encoding.

  Proved by induction on the derivation of `Compat tD tE` (`Compat.rec`), one theorem per case:
  * `ExtOerBase.lean`: identical leaf types (from `Oer.rt_all`), ENUMERATED (lookup by value);
  * `ExtOerComp.lean`: DEFAULT values (`view_of_isDefault`), SEQUENCE OF, CHOICE
    (a tag beyond the decoder's alternatives is skipped by its length prefix);
  * `ExtOerSeq.lean`: SEQUENCE -- root members (`MX`), extension additions (`AX`: unknown additions are
    skipped by `skipUnknown`, `skip_ok`; a bitmap shorter than the decoder's additions just ends),
    and the complete type.
-/
set_option linter.unusedSimpArgs false
set_option linter.unusedVariables false
namespace Asn1.Ext.OerX
open Asn1 Asn1.Oer Asn1.Ext

/-- cross-version round trip of the pair decoder type `tD` / encoder type `tE` -/
def XT (tD tE : Ty) : Prop :=
  ∀ (v : Val) (bytes rest : Bytes),
    tE.wf = true → oerWf tE = true → tE.defaultsOk = true → dOk false tD tE →
    hasType tE v = true → utf8Ok tE v = true → noSwallow tE v = true →
    enc tE v = .ok bytes →
    dec tD (bytes ++ rest) = .ok (view false tD tE v, rest)

/-- `XTd` (the working copy of the statement in `ExtOerBase.lean`) for every compatible pair -/
theorem xtd_all {tD tE : Ty} (h : Compat tD tE) : XTd tD tE :=
  Compat.rec
    (motive_1 := fun tD tE _ => XTd tD tE)
    (motive_2 := fun mD mE _ => MX mD mE)
    (motive_3 := fun aD aE _ => AX aD aE)
    (motive_4 := fun rD rE _ => AltsX XTd rD rE ∧ rD.length = rE.length)
    (motive_5 := fun aD aE _ => AltsX XTd aD aE)
    xt_boolean xt_null xt_integer xt_octetString xt_bitString xt_charString
    xt_enumerated xt_enumeratedD xt_enumeratedE
    (fun x _ _ ihr iha => xt_sequence x ihr iha)
    (fun c _ ih => xt_sequenceOf c ih)
    (fun x _ _ ihr iha => xt_choice x ihr.1 ihr.2 iha)
    mx_nil
    (fun name p hc _ iht ihm => mx_cons name p hc iht ihm)
    ax_nilD
    (fun ms _ => ax_nilE ms)
    (fun name p _ _ iht iha => ax_cons name p iht iha)
    ⟨trivial, rfl⟩
    (fun name _ _ iht ihr => ⟨⟨rfl, iht, ihr.1⟩, by simp [Alts.length, ihr.2]⟩)
    (fun as => by cases as <;> trivial)
    (fun as => by cases as <;> trivial)
    (fun name _ _ iht ihr => ⟨rfl, iht, ihr⟩)
    h

theorem xt_all {tD tE : Ty} (h : Compat tD tE) : XT tD tE := xtd_all h

end Asn1.Ext.OerX

#print axioms Asn1.Ext.OerX.xt_all
