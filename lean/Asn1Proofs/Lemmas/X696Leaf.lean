import Asn1Proofs.Lemmas.X696Prim
/-
  C06, leaf types: for every well-typed value outside the deviation predicates the code model `Oer.enc`
  and the specification `X696.enc` produce the same result.
-/
set_option linter.unusedSimpArgs false
namespace Asn1.X696
open Asn1.Uper (Err utf8Enc)

/-- the statement proved by induction over `Ty` -/
def REF (t : Ty) : Prop :=
  ∀ (v : Val), t.wf = true → hasType t v = true → devs t v = [] → Oer.enc t v = enc t v

theorem ref_boolean : REF .boolean := by
  intro v _ ht _
  cases v <;> simp only [hasType] at ht <;> try cases ht
  rfl

theorem ref_null : REF .null := by
  intro v _ ht _
  cases v <;> simp only [hasType] at ht <;> try cases ht
  rfl

theorem encInteger_eq (c : IntC) (i : Int) (ht : (c.ext || intInRange c i) = true) :
    Oer.enc (.integer c) (.int i) = encInteger c i := by
  obtain ⟨lo, hi, ext⟩ := c
  rw [Oer.enc]
  unfold encInteger inVisibleRange intForm visibleLo visibleHi Oer.intFixed Oer.intSigned
  cases ext with
  | true =>
    simp only [if_true, Bool.and_self, varSigned_eq]
    cases lo <;> rfl
  | false =>
    simp only [Bool.false_or, intInRange, Bool.and_eq_true] at ht
    simp only [Bool.false_eq_true, if_false]
    cases lo with
    | none =>
      cases hi with
      | none => simp [varSigned_eq]
      | some ub =>
        have : decide (i ≤ ub) = true := ht.2
        simp [varSigned_eq, this]
    | some lb =>
      have h1 : lb ≤ i := by simpa using ht.1
      cases hi with
      | none =>
        by_cases h0 : 0 ≤ lb
        · have : ¬ lb < 0 := by omega
          have hi0 : ¬ i < 0 := by omega
          simp [h0, this, h1, hi0, varUnsigned_eq]
        · have : lb < 0 := by omega
          simp [h0, this, h1, varSigned_eq]
      | some ub =>
        have h2 : i ≤ ub := by simpa using ht.2
        by_cases h0 : 0 ≤ lb
        · have hn : ¬ lb < 0 := by omega
          have hi0 : 0 ≤ i := by omega
          have hi0' : ¬ i < 0 := by omega
          simp only [h0, ge_iff_le, if_true, h1, h2, decide_true, Bool.and_self]
          by_cases a1 : ub ≤ 255
          · have : ub < 256 := by omega
            simp [a1, this, intToBytesN_nonneg _ _ hi0]
          by_cases a2 : ub ≤ 65535
          · have b1 : ¬ ub < 256 := by omega
            have : ub < 65536 := by omega
            simp [a1, a2, b1, this, intToBytesN_nonneg _ _ hi0]
          by_cases a3 : ub ≤ 4294967295
          · have b1 : ¬ ub < 256 := by omega
            have b2 : ¬ ub < 65536 := by omega
            have : ub < 4294967296 := by omega
            simp [a1, a2, a3, b1, b2, this, intToBytesN_nonneg _ _ hi0]
          by_cases a4 : ub ≤ 18446744073709551615
          · have b1 : ¬ ub < 256 := by omega
            have b2 : ¬ ub < 65536 := by omega
            have b3 : ¬ ub < 4294967296 := by omega
            have : ub < 18446744073709551616 := by omega
            simp [a1, a2, a3, a4, b1, b2, b3, this, intToBytesN_nonneg _ _ hi0]
          · have b1 : ¬ ub < 256 := by omega
            have b2 : ¬ ub < 65536 := by omega
            have b3 : ¬ ub < 4294967296 := by omega
            have b4 : ¬ ub < 18446744073709551616 := by omega
            simp [a1, a2, a3, a4, b1, b2, b3, b4, hn, hi0', varUnsigned_eq]
        · have hn : lb < 0 := by omega
          simp only [h0, ge_iff_le, if_false, h1, h2, decide_true, Bool.and_self, if_true]
          by_cases a1 : -128 ≤ lb ∧ ub ≤ 127
          · have : -128 ≤ lb ∧ ub < 128 := by omega
            simp [a1, this]
          by_cases a2 : -32768 ≤ lb ∧ ub ≤ 32767
          · have b1 : ¬ (-128 ≤ lb ∧ ub < 128) := by omega
            have : -32768 ≤ lb ∧ ub < 32768 := by omega
            simp [a1, a2, b1, this]
          by_cases a3 : -2147483648 ≤ lb ∧ ub ≤ 2147483647
          · have b1 : ¬ (-128 ≤ lb ∧ ub < 128) := by omega
            have b2 : ¬ (-32768 ≤ lb ∧ ub < 32768) := by omega
            have : -2147483648 ≤ lb ∧ ub < 2147483648 := by omega
            simp [a1, a2, a3, b1, b2, this]
          by_cases a4 : -9223372036854775808 ≤ lb ∧ ub ≤ 9223372036854775807
          · have b1 : ¬ (-128 ≤ lb ∧ ub < 128) := by omega
            have b2 : ¬ (-32768 ≤ lb ∧ ub < 32768) := by omega
            have b3 : ¬ (-2147483648 ≤ lb ∧ ub < 2147483648) := by omega
            have : -9223372036854775808 ≤ lb ∧ ub < 9223372036854775808 := by omega
            simp [a1, a2, a3, a4, b1, b2, b3, this]
          · have b1 : ¬ (-128 ≤ lb ∧ ub < 128) := by omega
            have b2 : ¬ (-32768 ≤ lb ∧ ub < 32768) := by omega
            have b3 : ¬ (-2147483648 ≤ lb ∧ ub < 2147483648) := by omega
            have b4 : ¬ (-9223372036854775808 ≤ lb ∧ ub < 9223372036854775808) := by omega
            simp [a1, a2, a3, a4, b1, b2, b3, b4, hn, varSigned_eq]

theorem ref_integer (c : IntC) : REF (.integer c) := by
  intro v _ ht _
  cases v with
  | int i => rw [encInteger_eq c i (by simpa [hasType] using ht), enc]
  | _ => simp [hasType] at ht

/-! ### ENUMERATED -/

theorem ref_enumerated (root : List (String × Int)) (ext : Option (List (String × Int))) :
    REF (.enumerated root ext) := by
  intro v _ ht hd
  cases v with
  | enum name =>
    rw [Oer.enc, enc, encEnumerated, itemValue_eq]
    rw [devs, itemValue_eq] at hd
    cases hv : Oer.enumValue name (root ++ ext.getD []) with
    | none => rfl
    | some x =>
      simp only [hv] at hd ⊢
      by_cases h : 0 ≤ x ∧ x ≤ 127
      · simp [h]
      · simp only [h, if_false, false_or] at hd ⊢
        by_cases hk : signedOctets x ≤ 127
        · simp only [hk, if_true]
          have hl : Oer.lenDet (intByteLength x) = .ok [intByteLength x] := by
            rw [Oer.lenDet_def, if_pos (by unfold signedOctets at hk; omega)]
          simp only [Oer.encSigned, hl, bind, Except.bind, List.cons_append, List.nil_append, signedOctets]
          rw [Nat.add_comm]
        · simp [hk] at hd
  | _ => simp [hasType] at ht

/-! ### OCTET STRING, BIT STRING -/

theorem ref_octetString (c : SizeC) : REF (.octetString c) := by
  intro v _ ht _
  cases v with
  | bytes data =>
    rw [Oer.enc, enc, encOctetString, visibleFixedSize_eq, lengthDet_eq]
    cases Oer.fixedSize c with
    | some n => rfl
    | none =>
      simp only [bind, Except.bind]
      cases Oer.lenDet data.length <;> rfl
  | _ => simp [hasType] at ht

theorem ref_bitString (c : SizeC) : REF (.bitString c) := by
  intro v _ ht _
  cases v with
  | bits data n =>
    simp only [hasType, Bool.and_eq_true, decide_eq_true_eq] at ht
    obtain ⟨⟨_, hlen⟩, _⟩ := ht
    have hle : n ≤ 8 * data.length := by omega
    have hnot : ¬ 8 * data.length < n := by omega
    rw [Oer.enc, enc, encBitString, visibleFixedSize_eq]
    simp only [hnot, hle, if_true, if_false]
    have hb : bitOctets data n = cleanBits data n := rfl
    rw [hb]
    cases Oer.fixedSize c with
    | some k => rfl
    | none =>
      simp only [encBitsVar, lengthDet_eq, bind, Except.bind]
      have hl := cleanBits_length data n hle
      rw [Nat.add_comm 1]
      have hu : 8 * (cleanBits data n).length - n = (8 - n % 8) % 8 := by rw [hl]; omega
      rw [hu]
      cases Oer.lenDet ((cleanBits data n).length + 1) <;> rfl
  | _ => simp [hasType] at ht

/-! ### character strings -/

theorem ref_charString (k : StrKind) (c : SizeC) : REF (.charString k c) := by
  intro v _ ht hd
  cases v with
  | str cps =>
    rw [Oer.enc, enc, encCharString, visibleFixedSize_eq]
    rw [devs, visibleFixedSize_eq] at hd
    rcases Oer.charString_hasType ht with ⟨hk, _⟩ | ⟨hk, hall, _⟩
    · subst hk
      simp only [multiplier, Oer.encodeStr, lengthDet_eq] at hd ⊢
      cases hf : Oer.fixedSize c with
      | some n => simp [hf] at hd
      | none =>
        simp only [bind, Except.bind]
        cases Oer.lenDet (cps.flatMap utf8Enc).length <;> rfl
    · rw [Oer.encodeStr_not_utf8 hk, hall]
      have hm : ∃ m, multiplier k = some m := by cases k <;> first | exact ⟨_, rfl⟩ | exact absurd rfl hk
      obtain ⟨m, hm⟩ := hm
      simp only [hm, hall, if_true, lengthDet_eq]
      cases Oer.fixedSize c with
      | some n => rfl
      | none =>
        simp only [bind, Except.bind]
        cases Oer.lenDet cps.length <;> rfl
  | _ => simp [hasType] at ht

end Asn1.X696
