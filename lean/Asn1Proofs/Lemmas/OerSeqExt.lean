import Asn1Proofs.Lemmas.OerSeq
/-
  SEQUENCE of the OER model: extension additions and the complete type.
-/
set_option linter.unusedSimpArgs false
namespace Asn1.Oer
open Asn1.Uper (Err)

/-! ### extension additions -/

/-- the length prefix written in front of every addition encoding -/
def wrap (e : Bytes) : EncM Bytes := do let l ← lenDet e.length; .ok (l ++ e)

def addHere (p : Presence) (t : Ty) (ov : Option Val) : EncM Bytes :=
  match ov with
  | some v => enc t v
  | none =>
    match p with
    | .mandatory => .error .encodeError
    | _ => .ok []

theorem encAdditions_cons (name : String) (p : Presence) (t : Ty) (rest : Members)
    (fs : List (String × Val)) :
    encAdditions (.cons name p t rest) fs =
      (match addHere p t (lookup name fs) with
       | .error _ => ([false], [], true)
       | .ok e =>
         if e.length > 0 ∨ (lookup name fs).isSome then
           (true :: (encAdditions rest fs).1, e :: (encAdditions rest fs).2.1, (encAdditions rest fs).2.2)
         else (false :: (encAdditions rest fs).1, (encAdditions rest fs).2.1, (encAdditions rest fs).2.2)) := by
  cases p <;> rfl

theorem decAdditions_cons_true (name : String) (p : Presence) (t : Ty) (rest : Members)
    (bitmap : Bits) (bs : Bytes) :
    decAdditions (.cons name p t rest) (true :: bitmap) bs =
      (do let (_, r) ← readLenDet bs
          let (v, r') ← dec t r
          let (fs, r'') ← decAdditions rest bitmap r'
          .ok ((name, v) :: fs, r'')) := rfl

theorem decAdditions_cons_false (name : String) (p : Presence) (t : Ty) (rest : Members)
    (bitmap : Bits) (bs : Bytes) :
    decAdditions (.cons name p t rest) (false :: bitmap) bs = decAdditions rest bitmap bs := rfl

theorem wrap_total (e : Bytes) : (∃ w, wrap e = .ok w) ∨ wrap e = .error .encodeError := by
  unfold wrap
  simp only [bind, Except.bind]
  rcases lenDet_total e.length with ⟨l, hl⟩ | hl <;> rw [hl]
  · exact Or.inl ⟨_, rfl⟩
  · exact Or.inr rfl

theorem rt_additions (fs : List (String × Val)) (ms : Members) :
    ms.AllO RT → ms.wf = true → oerWfMembers ms = true → ms.defaultsOk = true →
    membersOk ms fs = true → utf8OkMembers ms fs = true → noSwallowMembers ms fs true = true →
    (encAdditions ms fs).1.length = ms.length ∧
    ((encAdditions ms fs).2.1 = [] → canonMembers ms fs false = []) ∧
    ∀ (wrapped : List Bytes) (rest : Bytes),
      (encAdditions ms fs).2.1.mapM wrap = .ok wrapped →
      decAdditions ms (encAdditions ms fs).1 (wrapped.flatten ++ rest)
        = .ok (canonMembers ms fs false, rest) := by
  induction ms using Members.ind with
  | nil =>
    intro _ _ _ _ _ _ _
    refine ⟨rfl, fun _ => rfl, ?_⟩
    intro wrapped rest hw
    simp only [encAdditions] at hw ⊢
    rw [mapM_nil'] at hw
    cases hw
    rfl
  | cons name p t ms ih =>
    intro hall hwf hwf2 hd hok hu hns
    obtain ⟨hrt, hall'⟩ := hall
    simp only [Members.wf, Bool.and_eq_true] at hwf
    simp only [oerWfMembers, Bool.and_eq_true] at hwf2
    simp only [Members.defaultsOk, Bool.and_eq_true] at hd
    simp only [membersOk, Bool.and_eq_true] at hok
    simp only [utf8OkMembers, Bool.and_eq_true] at hu
    simp only [noSwallowMembers, Bool.and_eq_true] at hns
    obtain ⟨ihl, ihe, ihd⟩ := ih hall' hwf.2 hwf2.2 hd.2 hok.2 hu.2 hns.2
    rw [encAdditions_cons, canonMembers_cons]
    cases hl : lookup name fs with
    | some v =>
      simp only [hl, Bool.not_true, Bool.false_or, Bool.and_eq_true] at hok hu hns
      cases henc : enc t v with
      | error e => rw [henc] at hns; simp at hns
      | ok e =>
        simp only [addHere, henc, Option.isSome_some, or_true, if_true]
        refine ⟨by simp [ihl, Members.length], (fun h => absurd h (List.cons_ne_nil _ _)), ?_⟩
        intro wrapped rest hw
        rw [mapM_cons'] at hw
        cases hwe : wrap e with
        | error x => rw [hwe] at hw; cases hw
        | ok we =>
          rw [hwe] at hw
          simp only at hw
          cases hwr : List.mapM wrap (encAdditions ms fs).2.1 with
          | error x => rw [hwr] at hw; cases hw
          | ok wr =>
            rw [hwr] at hw
            simp only [Except.ok.injEq] at hw
            subst hw
            unfold wrap at hwe
            simp only [bind, Except.bind] at hwe
            cases hld : lenDet e.length with
            | error x => rw [hld] at hwe; cases hwe
            | ok l =>
              rw [hld] at hwe
              simp only [Except.ok.injEq] at hwe
              subst hwe
              rw [decAdditions_cons_true]
              simp only [bind, Except.bind, List.flatten_cons, List.append_assoc]
              rw [readLenDet_lenDet hld]
              simp only
              rw [hrt v e _ hwf.1 hwf2.1 hd.1.2 hok.1 hu.1 hns.1.1 henc]
              simp only
              rw [ihd wr rest hwr]
    | none =>
      simp only [hl] at hok
      cases p with
      | mandatory => simp at hok
      | optional =>
        simp only [addHere, List.length_nil, Nat.lt_irrefl, Option.isSome_none, Bool.false_eq_true,
          or_self, if_false, gt_iff_lt]
        refine ⟨by simp [ihl, Members.length], ihe, ?_⟩
        intro wrapped rest hw
        rw [decAdditions_cons_false]
        exact ihd wrapped rest hw
      | default d =>
        simp only [addHere, List.length_nil, Nat.lt_irrefl, Option.isSome_none, Bool.false_eq_true,
          or_self, if_false, gt_iff_lt]
        refine ⟨by simp [ihl, Members.length], ihe, ?_⟩
        intro wrapped rest hw
        rw [decAdditions_cons_false]
        exact ihd wrapped rest hw

/-! ### the preamble and the extension block -/

theorem readPre (bits : Bits) (n : Nat) (h : bits.length = n) (rest : Bytes) :
    readBytes ((n + 7) / 8) (packBits bits ++ rest) = .ok (packBits bits, rest) :=
  readBytes_append _ _ (by rw [packBits_length, h])

/-- what the decoder does after the root members of an extended value -/
def decExtBlock (adds : Members) (fields : List (String × Val)) (r1 : Bytes) : DecM (Val × Bytes) := do
  let (len, r2) ← readLenDet r1
  let (unused, r3) ← readByte r2
  if len = 0 ∨ 8 * (len - 1) < unused then .error .unmodelled
  else do
    let n := 8 * (len - 1) - unused
    let (bm, r4) ← readBytes ((n + 7) / 8) r3
    let bitmap := (bytesToBits bm).take n
    let (more, r5) ← decAdditions adds bitmap r4
    .ok (.record (fields ++ more), r5)

theorem dec_sequence (root : Members) (ext : Bool) (adds : Members) (bs : Bytes) :
    dec (.sequence root ext adds) bs = (do
      let nflags := optionalCount root + (if ext then 1 else 0)
      let (pre, r0) ← readBytes ((nflags + 7) / 8) bs
      let bits := (bytesToBits pre).take nflags
      let (fields, r1) ← decMembers root (if ext then bits.drop 1 else bits) r0
      if (ext && bits.head?.getD false) then decExtBlock adds fields r1
      else .ok (.record fields, r1)) := by
  rw [dec]; rfl

theorem decExtBlock_ok (adds : Members) (fields more : List (String × Val)) (n : Nat) (l : Bytes)
    (bitmap : Bits) (tail rest : Bytes)
    (hl : lenDet ((n + 7) / 8 + 1) = .ok l) (hb : bitmap.length = n) (hn : 0 < n)
    (hd : decAdditions adds bitmap (tail ++ rest) = .ok (more, rest)) :
    decExtBlock adds fields (l ++ ([(8 - n % 8) % 8] ++ (packBits bitmap ++ (tail ++ rest))))
      = .ok (.record (fields ++ more), rest) := by
  unfold decExtBlock
  simp only [bind, Except.bind]
  rw [readLenDet_lenDet hl]
  simp only [List.cons_append, List.nil_append, readByte_cons, Nat.add_sub_cancel]
  rw [if_neg (by omega)]
  have hn' : 8 * ((n + 7) / 8) - (8 - n % 8) % 8 = n := by omega
  simp only [hn']
  rw [readPre bitmap n hb]
  simp only
  rw [take_bytesToBits_packBits' bitmap n hb, hd]

end Asn1.Oer
