import Asn1Proofs.Lemmas.ExtBerSeq
import Asn1Proofs.Lemmas.ExtBerChoice
import Asn1Proofs.Lemmas.ExtLemmas
/-
  C07, BER: the BER decoder for `tD` on an encoding under `tE` (`Compat tD tE`) returns
  `view true tD tE v`, the exact length of the encoding, and leaves exactly the octets that follow.

  Same induction on the derivation of `Compat tD tE` as `ExtDer.lean`; the cases are in
  `ExtBerBase.lean` (leaves, ENUMERATED, SEQUENCE OF), `ExtBerSeq.lean` (SEQUENCE) and
  `ExtBerChoice.lean` (CHOICE).  `forward_ber` / `backward_ber` are then derived exactly like
  `C07.forward_der` / `C07.backward_der`.  (`enc_stable` needs no BER version: `BerCodec.enc` is
  `Der.enc` by definition.)
-/
set_option linter.unusedSimpArgs false
set_option linter.unusedVariables false
namespace Asn1.Ext.BerX
open Asn1 Asn1.Der Asn1.Ext Asn1.Ext.DerX

theorem xtb_all {tD tE : Ty} (h : Compat tD tE) : XTb tD tE :=
  Compat.rec
    (motive_1 := fun tD tE _ => XTb tD tE)
    (motive_2 := fun rD rE _ => PairM (XCg BerCodec.dec) rD rE)
    (motive_3 := fun aD aE _ => PairM (XCg BerCodec.dec) aD aE)
    (motive_4 := fun rD rE _ => PairA (XCg BerCodec.dec) rD rE)
    (motive_5 := fun aD aE _ => PairA (XCg BerCodec.dec) aD aE)
    xtb_boolean xtb_null xtb_integer xtb_octetString xtb_bitString xtb_charString
    xtb_enumerated xtb_enumeratedD xtb_enumeratedE
    (fun {rD rE aD aE} x hcr _ ihr iha =>
      xt_sequenceG BerCodec.ber_isCodec rD rE aD aE x ihr (compatMembers_length hcr) iha)
    (fun {eD eE} c _ ih => xtb_sequenceOf eD eE c ih)
    (fun {rD rE aD aE} x hcr _ ihr iha =>
      xt_choiceG BerCodec.ber_isCodec rD rE aD aE x ihr (compatAlts_length hcr) iha)
    trivial
    (fun name p hc _ iht ihr => ⟨rfl, rfl, ⟨iht, hc⟩, ihr⟩)
    (fun ms => trivial)
    (fun ms ho => pairM_nilE (XCg BerCodec.dec) ms ho)
    (fun name p hc _ iht ihr => ⟨rfl, rfl, ⟨iht, hc⟩, ihr⟩)
    trivial
    (fun name hc _ iht ihr => ⟨rfl, ⟨iht, hc⟩, ihr⟩)
    (fun as => trivial)
    (fun as => by cases as <;> trivial)
    (fun name hc _ iht ihr => ⟨rfl, ⟨iht, hc⟩, ihr⟩)
    h

theorem enc_of_encode_ber {t : Ty} {v : Val} {bytes : Bytes} (he : BerCodec.encode t v = .ok bytes) :
    enc t none v = .ok bytes :=
  enc_of_encode (show Der.encode t v = .ok bytes from he)

/-- **BER forward compatibility**, recursive decoder in any tagging context -/
theorem forward_ber_dec (t1 t2 : Ty) (tg : Option Nat) (v : Val) (bytes rest : Bytes) (fuel : Nat)
    (hx : Extends t1 t2)
    (hwf : t2.wf = true) (henum : Oer.oerWf t2 = true) (hd1 : X690.defaultsOkV t1 = true)
    (hd2 : X690.defaultsOkV t2 = true) (ht : hasType t2 v = true)
    (he : BerCodec.enc t2 tg v = .ok bytes) (hf : bytes.length < fuel) :
    BerCodec.dec t1 tg fuel (bytes ++ rest) =
      .ok (some (X690.canonV t1 (project t1 t2 v), bytes.length, rest)) := by
  have h := xtb_all (compat_of_extends hx) tg v bytes rest fuel hwf henum hd2
    (dOk_fwd true hx hwf (by rw [defaultsOkG_true]; exact hd1)) ht he hf
  rw [view_project true hx (wf_of_extends hx hwf) v, canonG_true] at h
  exact h

/-- **BER backward compatibility**, recursive decoder in any tagging context -/
theorem backward_ber_dec (t1 t2 : Ty) (tg : Option Nat) (v : Val) (bytes rest : Bytes) (fuel : Nat)
    (hx : Extends t1 t2)
    (hwf : t2.wf = true) (henum : Oer.oerWf t2 = true) (hd1 : X690.defaultsOkV t1 = true)
    (hd2 : X690.defaultsOkV t2 = true) (ht : hasType t1 v = true)
    (he : BerCodec.enc t1 tg v = .ok bytes) (hf : bytes.length < fuel) :
    BerCodec.dec t2 tg fuel (bytes ++ rest) = .ok (some (X690.canonV t2 v, bytes.length, rest)) := by
  have h := xtb_all (compat_of_extends_rev hx) tg v bytes rest fuel (wf_of_extends hx hwf)
    (oerWf_of_extends hx henum) hd1
    (dOk_bwd true hx hwf (by rw [defaultsOkG_true]; exact hd1) (by rw [defaultsOkG_true]; exact hd2))
    ht he hf
  rw [(view_same true hx hwf v ht).2, canonG_true] at h
  exact h

/-- **BER forward compatibility**, `decode_with_length` of the V1 specification on a V2 encoding
followed by arbitrary octets -/
theorem forward_ber (t1 t2 : Ty) (v : Val) (bytes rest : Bytes)
    (hx : Extends t1 t2)
    (hwf : t2.wf = true) (henum : Oer.oerWf t2 = true) (hd1 : X690.defaultsOkV t1 = true)
    (hd2 : X690.defaultsOkV t2 = true) (ht : hasType t2 v = true)
    (he : BerCodec.encode t2 v = .ok bytes) :
    BerCodec.decodeWithLength t1 (bytes ++ rest) =
      .ok (X690.canonV t1 (project t1 t2 v), bytes.length) := by
  unfold BerCodec.decodeWithLength
  rw [forward_ber_dec t1 t2 none v bytes rest _ hx hwf henum hd1 hd2 ht (enc_of_encode_ber he)
    (by simp; omega)]

/-- **BER backward compatibility**, `decode_with_length` of the V2 specification on a V1 encoding -/
theorem backward_ber (t1 t2 : Ty) (v : Val) (bytes rest : Bytes)
    (hx : Extends t1 t2)
    (hwf : t2.wf = true) (henum : Oer.oerWf t2 = true) (hd1 : X690.defaultsOkV t1 = true)
    (hd2 : X690.defaultsOkV t2 = true) (ht : hasType t1 v = true)
    (he : BerCodec.encode t1 v = .ok bytes) :
    BerCodec.decodeWithLength t2 (bytes ++ rest) = .ok (X690.canonV t2 v, bytes.length) := by
  unfold BerCodec.decodeWithLength
  rw [backward_ber_dec t1 t2 none v bytes rest _ hx hwf henum hd1 hd2 ht (enc_of_encode_ber he)
    (by simp; omega)]

/-- the BER encoder is the DER encoder, so `C07.der_enc_stable` is the BER statement too -/
theorem enc_eq_der : BerCodec.enc = Der.enc := rfl

theorem ber_enc_stable {t1 t2 : Ty} (h : Extends t1 t2) (hwf : t2.wf = true) (tg : Option Nat) (v : Val)
    (ht : hasType t1 v = true) : BerCodec.enc t2 tg v = BerCodec.enc t1 tg v :=
  DerX.enc_stable h hwf tg v ht

end Asn1.Ext.BerX

#print axioms Asn1.Ext.BerX.xtb_all
#print axioms Asn1.Ext.BerX.forward_ber
#print axioms Asn1.Ext.BerX.backward_ber
#print axioms Asn1.Ext.BerX.ber_enc_stable
