import Asn1Proofs.Lemmas.ExtUper
import Asn1Proofs.Lemmas.PerRoundtrip
/-
  C07, ALIGNED PER: definitions, leaves, ENUMERATED, SEQUENCE OF.

  The decoder for `tD` on an encoding under `tE` (`Compat tD tE`) returns `view false tD tE v`, leaves
  exactly the bits that follow the encoding and stands at the position behind it.  As in the aligned
  PER round trip (`Per.RT`) the statement is about any decoder position `pos'` that agrees with the
  encoder position `pos` modulo 8 (open types are written into a fresh buffer at position 0 and read
  at an octet boundary).

  New side condition `Per.skipFree tD tE v`: the additions of a SEQUENCE that the ENCODER knows and the
  DECODER does not know are skipped by their open type length (`Per.skipUnknown`), which the encoder
  writes without fragmentation; so such an open type must be shorter than 16384 octets.
  (`Per.fragFree` does not say that: the decoder ignores the open type length of a KNOWN addition.)
  Necessity: `ExtPerCounterexample.lean`.
-/
set_option linter.unusedSimpArgs false
set_option linter.unusedVariables false
namespace Asn1.Per
open Asn1.Uper (smallLen)

/-- every present member of `ms` has an open type shorter than 16384 octets -/
def openSmall : Members → List (String × Val) → Bool
  | .nil, _ => true
  | .cons name _ t rest, fs =>
    (match lookup name fs with
     | some v =>
       (match enc t 0 v with
        | .ok e => smallLen ((e.length + 7) / 8)
        | .error _ => true)
     | none => true) && openSmall rest fs

mutual
  /-- `skipFree tD tE v`: in the value `v` of the encoder's type `tE`, every SEQUENCE addition that the
  decoder's type `tD` does not know (at any depth) has an open type shorter than 16384 octets -/
  def skipFree : Ty → Ty → Val → Bool
    | .sequence rD _ aD, .sequence rE _ aE, .record fs =>
      skipFreeMembers rD rE fs && skipFreeAdds aD aE fs
    | .sequenceOf eD _, .sequenceOf eE _, .list vs => vs.all (skipFree eD eE)
    | .choice rD _ aD, .choice rE _ aE, .choice n v => skipFreeAlt rD rE n v && skipFreeAlt aD aE n v
    | _, _, _ => true
  termination_by structural tD => tD
  def skipFreeMembers : Members → Members → List (String × Val) → Bool
    | .cons n _ tD mD, .cons _ _ tE mE, fs =>
      (match lookup n fs with
       | some v => skipFree tD tE v
       | none => true) && skipFreeMembers mD mE fs
    | _, _, _ => true
  termination_by structural mD => mD
  def skipFreeAdds : Members → Members → List (String × Val) → Bool
    | .cons n _ tD mD, .cons _ _ tE mE, fs =>
      (match lookup n fs with
       | some v => skipFree tD tE v
       | none => true) && skipFreeAdds mD mE fs
    -- additions only the encoder knows: skipped by their length
    | .nil, mE, fs => openSmall mE fs
    | .cons _ _ _ _, .nil, _ => true
  termination_by structural mD => mD
  def skipFreeAlt : Alts → Alts → String → Val → Bool
    | .cons n tD mD, .cons _ tE mE, name, v =>
      if n == name then skipFree tD tE v else skipFreeAlt mD mE name v
    | _, _, _, _ => true
  termination_by structural mD => mD
end

end Asn1.Per

namespace Asn1.Ext.PerX
open Asn1 Asn1.Per Asn1.Ext
open Asn1.Uper (smallLen inSize sizeBits lenDet EncM DecM sizeOk_eq_inSize sortByVal nameIndex
  encNsnnwn nameIndex_spec nameIndex_of_mem mem_namesOf_sortByVal canon_enumerated)

/-- cross-version round trip of the pair decoder type `tD` / encoder type `tE` -/
def XT (tD tE : Ty) : Prop :=
  ∀ (v : Val) (pos pos' : Nat) (bits rest : Bits) (fuel : Nat),
    tE.wf = true → tE.defaultsOk = true → tE.nsOk = true → dOk false tD tE →
    hasType tE v = true → fragFree tE v = true → skipFree tD tE v = true →
    pos' % 8 = pos % 8 → enc tE pos v = .ok bits → bits.length + rest.length + 2 ≤ fuel →
    dec tD fuel ⟨pos', bits ++ rest⟩ = .ok (view false tD tE v, ⟨pos' + bits.length, rest⟩)

/-! ### leaves: same type on both sides -/

theorem xt_of_rt (t : Ty) (hv : ∀ v, hasType t v = true → view false t t v = canon t v) : XT t t := by
  intro v pos pos' bits rest fuel hwf hd hns _ ht hf _ hp he hfuel
  rw [hv v ht]
  exact rt_all t v pos pos' bits rest fuel hwf hd hns ht hf hp he hfuel

theorem xt_boolean : XT .boolean .boolean :=
  xt_of_rt _ (fun v _ => by cases v <;> rfl)

theorem xt_null : XT .null .null :=
  xt_of_rt _ (fun v _ => by cases v <;> rfl)

theorem xt_integer (c : IntC) : XT (.integer c) (.integer c) :=
  xt_of_rt _ (fun v _ => by cases v <;> rfl)

theorem xt_octetString (c : SizeC) : XT (.octetString c) (.octetString c) :=
  xt_of_rt _ (fun v _ => by cases v <;> rfl)

theorem xt_bitString (c : SizeC) : XT (.bitString c) (.bitString c) :=
  xt_of_rt _ (fun v _ => by cases v <;> rfl)

theorem xt_charString (k : StrKind) (c : SizeC) : XT (.charString k c) (.charString k c) :=
  xt_of_rt _ (fun v _ => by cases v <;> rfl)

/-! ### ENUMERATED -/

theorem xt_enumerated (root : List (String × Int)) : XT (.enumerated root none) (.enumerated root none) :=
  xt_of_rt _ (fun v h => by
    cases v <;> try (simp only [hasType, Bool.false_eq_true] at h; done)
    rw [UperX.view_enum_known _ _ _ _ h, canon_enumerated])

/-- general form: decoder additions `aD`, encoder additions `aE`, related through `hrel` -/
theorem xt_enum_gen (root aD aE : List (String × Int))
    (hrel : ∀ name i, name ∉ namesOf root → nameIndex name aE = some i →
      (∃ x, aD[i]? = some (name, x)) ∨ (aD[i]? = none ∧ name ∉ namesOf aD)) :
    XT (.enumerated root (some aD)) (.enumerated root (some aE)) := by
  intro v pos pos' bits rest fuel hwf hd hns hdok ht hf hsk hp he hfuel
  cases v <;> try (simp only [hasType, Bool.false_eq_true] at ht; done)
  rename_i name
  rw [enc] at he
  rw [dec]
  simp only at he ⊢
  split at he
  · rename_i i hi
    cases he
    obtain ⟨h1, x, h2⟩ := nameIndex_spec _ _ _ hi
    have hmem : name ∈ namesOf root :=
      (mem_namesOf_sortByVal _ _).1 (UperX.mem_namesOf_of_getElem? h2)
    have hv : view false (.enumerated root (some aD)) (.enumerated root (some aE)) (.enum name) =
        .enum name := by
      simp only [view]
      rw [if_pos (by simp [hmem])]
    rw [hv]
    simp only [bind, Except.bind, List.cons_append, List.nil_append, readBit_cons,
      Bool.not_false, if_true]
    rw [readNat_natToBits _ _ (lt_two_pow_bitLength_of_le (by omega))]
    simp only [h2, List.length_cons, natToBits_length, Except.ok.injEq, Prod.mk.injEq, true_and]
    exact St.eq_of_pos _ (by omega)
  · rename_i hroot
    have hnr : name ∉ namesOf root := by
      intro hm
      obtain ⟨i, hi⟩ := nameIndex_of_mem name (sortByVal root) ((mem_namesOf_sortByVal _ _).2 hm)
      rw [hroot] at hi; cases hi
    split at he
    · rename_i i hi
      cases he
      obtain ⟨h1, x, h2⟩ := nameIndex_spec _ _ _ hi
      simp only [Ty.nsOk] at hns
      simp only [bind, Except.bind, List.cons_append, List.nil_append, readBit_cons,
        Bool.not_true, Bool.false_eq_true, if_false]
      rw [decNsnnwn_enc _ i rest (nsIndexOk_lt hns h1)]
      have hpos : ∀ (w : Val), (Except.ok (w, (⟨pos' + 1 + (encNsnnwn i).length, rest⟩ : St)) :
          DecM (Val × St)) = .ok (w, ⟨pos' + (true :: encNsnnwn i).length, rest⟩) := by
        intro w
        simp only [List.length_cons, Except.ok.injEq, Prod.mk.injEq, true_and]
        exact St.eq_of_pos _ (by omega)
      rcases hrel name i hnr hi with ⟨y, hy⟩ | ⟨hy, hnot⟩
      · simp only [hy]
        have hm := UperX.mem_namesOf_of_getElem? hy
        simp only [view]
        rw [if_pos (by simp [hm])]
        exact hpos _
      · simp only [hy]
        simp only [view]
        rw [if_neg (by simp [hnr, hnot])]
        exact hpos _
    · cases he

/-- the encoder knows more items -/
theorem xt_enumeratedD (root adds new : List (String × Int)) :
    XT (.enumerated root (some adds)) (.enumerated root (some (adds ++ new))) := by
  apply xt_enum_gen
  intro name i _ hi
  by_cases hm : name ∈ namesOf adds
  · rw [UperX.nameIndex_append_of_mem _ _ _ hm] at hi
    obtain ⟨h1, x, h2⟩ := nameIndex_spec _ _ _ hi
    exact .inl ⟨x, h2⟩
  · rw [UperX.nameIndex_append_of_not_mem _ _ _ hm] at hi
    simp only [Option.map_eq_some_iff] at hi
    obtain ⟨j, _, rfl⟩ := hi
    exact .inr ⟨by simp, hm⟩

/-- the decoder knows more items -/
theorem xt_enumeratedE (root adds new : List (String × Int)) :
    XT (.enumerated root (some (adds ++ new))) (.enumerated root (some adds)) := by
  apply xt_enum_gen
  intro name i _ hi
  obtain ⟨h1, x, h2⟩ := nameIndex_spec _ _ _ hi
  exact .inl ⟨x, by rw [List.getElem?_append_left h1]; exact h2⟩

/-! ### SEQUENCE OF -/

theorem seqOfRoot_xt (eD eE : Ty) (c : SizeC) (pos q : Nat) (vs : List Val) (pre bits rest : Bits)
    (fuel : Nat)
    (helem : ∀ v ∈ vs, ElemRT (enc eE) (dec eD fuel) (view false eD eE) (fuel - 2) v)
    (hq : q % 8 = (pos + pre.length) % 8)
    (he : encSeqOfRoot eE c pos vs pre = .ok bits) (hfuel : bits.length + rest.length + 2 ≤ fuel) :
    ∃ X, bits = pre ++ X ∧
      decSeqOfRoot eD c fuel ⟨q, X ++ rest⟩ =
        .ok (.list (vs.map (view false eD eE)), ⟨q + X.length, rest⟩) := by
  unfold encSeqOfRoot at he
  unfold decSeqOfRoot
  split at he
  · rename_i hsb
    split at he
    · cases he
    rename_i b hb
    cases he
    refine ⟨_, List.append_assoc _ _ _, ?_⟩
    simp only [List.length_append, alignBits_length] at hfuel hb
    simp only [hsb, bind, Except.bind, List.append_assoc]
    rw [align_alignBits _ _ _ hq]
    rw [decChunks_encChunksM (enc eE) (dec eD fuel) (view false eD eE) (fuel - 2)
      (vs.length / 16384 + 2) vs helem (Nat.le_refl _) _ _ _ rest
      (by have := add_padLen_mod (pos + pre.length); omega) hb (by omega) fuel (by omega)]
    simp only [List.length_append, alignBits_length, Nat.add_assoc]
  · rename_i w hsb
    split at he
    · cases he
    rename_i hin
    simp only [Decidable.not_not] at hin
    split at he
    · cases he
    rename_i b hb
    cases he
    refine ⟨_, List.append_assoc _ _ _, ?_⟩
    simp only [List.length_append] at hfuel
    simp only [hsb, bind, Except.bind, List.append_assoc]
    rw [readSize_sizePrefix c w _ _ _ _ _ _ _ hq hsb hin rfl]
    simp only
    rw [decRepeat_encSeqM (enc eE) (dec eD fuel) (view false eD eE) (fuel - 2) vs helem _ _ _ rest
      (by omega) hb (by omega)]
    simp only [List.length_append, Nat.add_assoc]

theorem xt_sequenceOf (eD eE : Ty) (c : SizeC) (ih : XT eD eE) :
    XT (.sequenceOf eD c) (.sequenceOf eE c) := by
  intro v pos pos' bits rest fuel hwf hd hns hdok ht hf hsk hp he hfuel
  cases v <;> try (simp only [hasType, Bool.false_eq_true] at ht; done)
  rename_i vs
  simp only [hasType] at ht
  simp only [view]
  rw [Ty.wf] at hwf
  rw [Ty.defaultsOk] at hd
  rw [Ty.nsOk] at hns
  rw [fragFree] at hf
  rw [skipFree] at hsk
  simp only [dOk] at hdok
  simp only [Bool.and_eq_true, List.all_eq_true, Bool.or_eq_true, sizeOk_eq_inSize] at ht hwf hf hsk
  obtain ⟨hall, hsz⟩ := ht
  obtain ⟨hewf, hcwf⟩ := hwf
  obtain ⟨hfall, hfsz⟩ := hf
  have helem : ∀ v ∈ vs, ElemRT (enc eE) (dec eD fuel) (view false eD eE) (fuel - 2) v := by
    intro v hv p p' b r hpp hb hL
    exact ih v p p' b r fuel hewf hd hns hdok (hall v hv) (hfall v hv) (hsk v hv) hpp hb (by omega)
  rw [enc_sequenceOf] at he
  rw [dec_sequenceOf]
  cases hext : c.ext with
  | false =>
    simp only [hext, Bool.false_eq_true, if_false] at he ⊢
    obtain ⟨X, hX, hdec⟩ := seqOfRoot_xt eD eE c pos pos' vs [] bits rest fuel helem
      (by simpa using hp) he hfuel
    subst hX
    simp only [bind, Except.bind, List.nil_append, Bool.false_eq_true, if_false, hdec]
  | true =>
    simp only [hext, if_true, extRange_eq hcwf hext] at he ⊢
    by_cases hin : inSize c vs.length = true
    · simp only [hin, if_true] at he
      obtain ⟨X, hX, hdec⟩ := seqOfRoot_xt eD eE c pos (pos' + 1) vs [false] bits rest fuel helem
        (by simp only [List.length_singleton]; omega) he hfuel
      subst hX
      simp only [bind, Except.bind, List.cons_append, List.nil_append, readBit_cons,
        Bool.false_eq_true, if_false, hdec, List.length_cons, Except.ok.injEq, Prod.mk.injEq,
        true_and]
      exact St.eq_of_pos _ (by omega)
    · simp only [hin, Bool.false_eq_true, if_false] at he
      split at he
      · cases he
      rename_i b hb
      cases he
      have hs : vs.length < 16384 := by
        simp only [Bool.not_eq_true', smallLen, decide_eq_true_eq] at hfsz
        rcases hfsz with (hf | hf) | hf
        · rw [hext] at hf; cases hf
        · exact absurd hf hin
        · exact hf
      have hm := lenDet_length_mod vs.length
      simp only [List.length_append, List.length_cons, List.length_nil, alignBits_length] at hb hfuel
      simp only [bind, Except.bind, List.cons_append, List.nil_append, readBit_cons, if_true,
        List.append_assoc]
      rw [align_alignBits _ _ _ (by omega), readLenDet_lenDet, Uper.lenDet_snd_of_lt hs]
      simp only
      rw [decRepeat_encSeqM (enc eE) (dec eD fuel) (view false eD eE) (fuel - 2) vs helem _ _ _ rest
        (by have := add_padLen_mod (pos + 1); have := add_padLen_mod (pos' + 1); omega) hb
        (by omega)]
      simp only [List.length_cons, List.length_append, alignBits_length, Except.ok.injEq,
        Prod.mk.injEq, true_and]
      exact St.eq_of_pos _ (by omega)

end Asn1.Ext.PerX

#print axioms Asn1.Ext.PerX.xt_sequenceOf
#print axioms Asn1.Ext.PerX.xt_enumeratedD
