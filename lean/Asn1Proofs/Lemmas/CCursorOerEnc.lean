import Asn1Proofs.Lemmas.CCursorOerBase
/-
  C10, encoder layer: every encoder helper of the OER C library model equals a sequence of
  specification-level `put`s of explicitly given bytes (`run_eq`), from which absence of faults,
  preservation of the invariant, the frozen latch and the short-buffer behaviour follow.
-/
namespace Asn1.C10
open Asn1.CCursor Asn1.CCursorOer

/-! ### the bytes the helpers append -/

def be16 (v : UInt16) : List UInt8 := [UInt8.ofNat (v.toNat >>> 8), UInt8.ofNat v.toNat]

def be32 (v : UInt32) : List UInt8 :=
  [(v >>> 24).toUInt8, (v >>> 16).toUInt8, (v >>> 8).toUInt8, v.toUInt8]

def be64 (v : UInt64) : List UInt8 :=
  [(v >>> 56).toUInt8, (v >>> 48).toUInt8, (v >>> 40).toUInt8, (v >>> 32).toUInt8,
   (v >>> 24).toUInt8, (v >>> 16).toUInt8, (v >>> 8).toUInt8, v.toUInt8]

/-- `encoder_append_long_uint`: the `n` low-order bytes of the object representation, reversed -/
def luintBytes (v : UInt64) (n : UInt8) : List UInt8 :=
  ((OEnc.u64Object v).toList.take n.toNat).reverse

/-- bytes of `encoder_append_uint` (one chunk per `encoder_append_bytes` call) -/
def uintChunks (v : UInt32) (n : UInt8) : List (List UInt8) :=
  if n = 1 then [[v.toUInt8]]
  else if n = 2 then [be16 v.toUInt16]
  else if n = 3 then [[(v >>> 16).toUInt8], be16 v.toUInt16]
  else [be32 v]

def intChunks (v : Int32) (n : UInt8) : List (List UInt8) :=
  if n = 1 then [[v.toInt8.toUInt8]]
  else if n = 2 then [be16 v.toInt16.toUInt16]
  else if n = 3 then [[(v.toUInt32 >>> 16).toUInt8], be16 v.toInt16.toUInt16]
  else [be32 v.toUInt32]

def lenDetChunks (n : UInt32) : List (List UInt8) :=
  if n.toNat < 128 then [[n.toUInt8.toInt8.toUInt8]]
  else if n.toNat < 256 then [[0x81], [n.toUInt8]]
  else if n.toNat < 65536 then [[0x82], be16 n.toUInt16]
  else if n.toNat < 16777216 then [be32 (n ||| ((0x83 : UInt32) <<< 24))]
  else [[0x84], be32 n]

/-- the chunks an encoder operation appends (one per `encoder_append_bytes` call) -/
def chunks : OEncOp → List (List UInt8)
  | .bool b => [[if b then 255 else 0]]
  | .bytes src n => [src.toList.take n.toNat]
  | .u8 v => [[v]] | .u16 v => [be16 v] | .u32 v => [be32 v] | .u64 v => [be64 v]
  | .i8 v => [[v.toUInt8]] | .i16 v => [be16 v.toUInt16] | .i32 v => [be32 v.toUInt32]
  | .i64 v => [be64 v.toUInt64]
  | .uint v n => uintChunks v n
  | .luint v n _ => [luintBytes v n]
  | .int v n => intChunks v n
  | .f32 b => [be32 b] | .f64 b => [be64 b]
  | .lendet n => lenDetChunks n
  | .abort _ => []

/-- argument preconditions of the encoder helpers -/
def _root_.Asn1.CCursorOer.OEncOp.Pre : OEncOp → Prop
  | .bytes src n => n.toNat ≤ src.size ∧ n.toNat < 4611686018427387904
  | .luint _ n junk => n.toNat ≤ 8 ∧ junk.size = 8
  | .abort err => 0 < err ∧ err ≤ 4611686018427387904
  | _ => True

def _root_.Asn1.CCursorOer.OEncOp.isAbort : OEncOp → Prop
  | .abort _ => True
  | _ => False

/-! ### the fixed-width appends -/

theorem shrU32_24 (v : UInt32) : shrU32 v 24 = .ok (v >>> 24) := by simp [shrU32]
theorem shrU32_16 (v : UInt32) : shrU32 v 16 = .ok (v >>> 16) := by simp [shrU32]
theorem shrU32_8 (v : UInt32) : shrU32 v 8 = .ok (v >>> 8) := by simp [shrU32]
theorem shlU32_24 (v : UInt32) : shlU32 v 24 = .ok (v <<< 24) := by simp [shlU32]
theorem shlU32_16 (v : UInt32) : shlU32 v 16 = .ok (v <<< 16) := by simp [shlU32]
theorem shlU32_8 (v : UInt32) : shlU32 v 8 = .ok (v <<< 8) := by simp [shlU32]
theorem shrU64_56 (v : UInt64) : shrU64 v 56 = .ok (v >>> 56) := by simp [shrU64]
theorem shrU64_48 (v : UInt64) : shrU64 v 48 = .ok (v >>> 48) := by simp [shrU64]
theorem shrU64_40 (v : UInt64) : shrU64 v 40 = .ok (v >>> 40) := by simp [shrU64]
theorem shrU64_32 (v : UInt64) : shrU64 v 32 = .ok (v >>> 32) := by simp [shrU64]
theorem shrU64_24 (v : UInt64) : shrU64 v 24 = .ok (v >>> 24) := by simp [shrU64]
theorem shrU64_16 (v : UInt64) : shrU64 v 16 = .ok (v >>> 16) := by simp [shrU64]
theorem shrU64_8 (v : UInt64) : shrU64 v 8 = .ok (v >>> 8) := by simp [shrU64]
theorem shlU64_56 (v : UInt64) : shlU64 v 56 = .ok (v <<< 56) := by simp [shlU64]
theorem shlU64_48 (v : UInt64) : shlU64 v 48 = .ok (v <<< 48) := by simp [shlU64]
theorem shlU64_40 (v : UInt64) : shlU64 v 40 = .ok (v <<< 40) := by simp [shlU64]
theorem shlU64_32 (v : UInt64) : shlU64 v 32 = .ok (v <<< 32) := by simp [shlU64]
theorem shlU64_24 (v : UInt64) : shlU64 v 24 = .ok (v <<< 24) := by simp [shlU64]
theorem shlU64_16 (v : UInt64) : shlU64 v 16 = .ok (v <<< 16) := by simp [shlU64]
theorem shlU64_8 (v : UInt64) : shlU64 v 8 = .ok (v <<< 8) := by simp [shlU64]

theorem appendU8_eq {e : OEnc} (h : EInv e) (v : UInt8) : e.appendU8 v = .ok (e.put [v]) := by
  unfold OEnc.appendU8
  rw [appendBytes_eq h _ _ (by decide) (by simp)]
  simp

theorem appendU16_eq {e : OEnc} (h : EInv e) (v : UInt16) : e.appendU16 v = .ok (e.put (be16 v)) := by
  unfold OEnc.appendU16
  simp only [shrS32, show (8 : Nat) < 32 by decide, if_true, bind, Except.bind]
  rw [appendBytes_eq h _ _ (by decide) (by simp)]
  simp [be16]

theorem appendU32_eq {e : OEnc} (h : EInv e) (v : UInt32) : e.appendU32 v = .ok (e.put (be32 v)) := by
  unfold OEnc.appendU32
  simp only [shrU32_24, shrU32_16, shrU32_8, bind, Except.bind]
  rw [appendBytes_eq h _ _ (by decide) (by simp)]
  simp [be32]

theorem appendU64_unfold (e : OEnc) (v : UInt64) :
    e.appendU64 v = e.appendBytes #[(v >>> 56).toUInt8, (v >>> 48).toUInt8, (v >>> 40).toUInt8,
      (v >>> 32).toUInt8, (v >>> 24).toUInt8, (v >>> 16).toUInt8, (v >>> 8).toUInt8, v.toUInt8] 8 := by
  unfold OEnc.appendU64
  rw [shrU64_56, shrU64_48, shrU64_40, shrU64_32, shrU64_24, shrU64_16, shrU64_8]
  rfl

theorem appendU64_eq {e : OEnc} (h : EInv e) (v : UInt64) : e.appendU64 v = .ok (e.put (be64 v)) := by
  rw [appendU64_unfold, appendBytes_eq h _ _ (by decide) (by simp)]
  simp [be64]

/-! ### `encoder_append_long_uint` -/

theorem size8 (m : Mem) (h : m.size = 8) : ∃ a b c d e f g i, m = #[a, b, c, d, e, f, g, i] := by
  obtain ⟨l⟩ := m
  match l, h with
  | [a, b, c, d, e, f, g, i], _ => exact ⟨a, b, c, d, e, f, g, i, rfl⟩

theorem uint8_cases_le8 (n : UInt8) (h : n.toNat ≤ 8) :
    n = 0 ∨ n = 1 ∨ n = 2 ∨ n = 3 ∨ n = 4 ∨ n = 5 ∨ n = 6 ∨ n = 7 ∨ n = 8 := by
  have : n.toNat = 0 ∨ n.toNat = 1 ∨ n.toNat = 2 ∨ n.toNat = 3 ∨ n.toNat = 4 ∨ n.toNat = 5 ∨
      n.toNat = 6 ∨ n.toNat = 7 ∨ n.toNat = 8 := by omega
  rcases this with h | h | h | h | h | h | h | h | h <;>
    simp only [← UInt8.toNat_inj] <;> simp [h]

/-- the loop of `encoder_append_long_uint` never faults for `number_of_bytes ≤ 8` and leaves the
reversed low-order bytes at the front of `buf` -/
theorem longUintLoop_eq (v : UInt64) (n : UInt8) (hn : n.toNat ≤ 8) (junk : Mem) (hj : junk.size = 8) :
    ∃ buf, OEnc.longUintLoop (OEnc.u64Object v) n n.toNat 0 junk = .ok buf ∧ buf.size = 8 ∧
      buf.toList.take n.toNat = luintBytes v n := by
  obtain ⟨a, b, c, d, e, f, g, i, rfl⟩ := size8 junk hj
  rcases uint8_cases_le8 n hn with h | h | h | h | h | h | h | h | h <;> subst h <;>
    simp [OEnc.longUintLoop, OEnc.u64Object, luintBytes, Mem.load, Mem.store, Mem.ptr, bind, Except.bind]

theorem appendLongUint_eq {e : OEnc} (h : EInv e) (v : UInt64) (n : UInt8) (hn : n.toNat ≤ 8)
    (junk : Mem) (hj : junk.size = 8) :
    e.appendLongUint v n junk = .ok (e.put (luintBytes v n)) := by
  obtain ⟨buf, h1, h2, h3⟩ := longUintLoop_eq v n hn junk hj
  unfold OEnc.appendLongUint
  rw [h1]
  simp only [bind, Except.bind]
  have hsz : n.toUInt64.toNat = n.toNat := by simp
  rw [appendBytes_eq h _ _ (by rw [hsz]; omega) (by rw [hsz]; omega), hsz, h3]

/-! ### every operation is a sequence of `put`s -/

theorem putAll_one (e : OEnc) (c : List UInt8) : e.putAll [c] = e.put c := rfl

theorem putAll_two (e : OEnc) (c1 c2 : List UInt8) : e.putAll [c1, c2] = (e.put c1).put c2 := rfl

theorem appendUint_eq {e : OEnc} (h : EInv e) (v : UInt32) (n : UInt8) :
    e.appendUint v n = .ok (e.putAll (uintChunks v n)) := by
  unfold OEnc.appendUint uintChunks
  split
  · rw [appendU8_eq h, putAll_one]
  split
  · rw [appendU16_eq h, putAll_one]
  split
  · simp only [shrU32_16, bind, Except.bind]
    rw [appendU8_eq h]
    simp only []
    rw [appendU16_eq (EInv_put h _), putAll_two]
  · rw [appendU32_eq h, putAll_one]

theorem appendInt_eq {e : OEnc} (h : EInv e) (v : Int32) (n : UInt8) :
    e.appendInt v n = .ok (e.putAll (intChunks v n)) := by
  unfold OEnc.appendInt intChunks OEnc.appendI8 OEnc.appendI16 OEnc.appendI32
  split
  · rw [appendU8_eq h, putAll_one]
  split
  · rw [appendU16_eq h, putAll_one]
  split
  · simp only [shrU32_16, bind, Except.bind]
    rw [appendU8_eq h]
    simp only []
    rw [appendU16_eq (EInv_put h _), putAll_two]
  · rw [appendU32_eq h, putAll_one]

theorem appendLengthDeterminant_eq {e : OEnc} (h : EInv e) (n : UInt32) :
    e.appendLengthDeterminant n = .ok (e.putAll (lenDetChunks n)) := by
  unfold OEnc.appendLengthDeterminant lenDetChunks OEnc.appendI8
  split
  · rw [appendU8_eq h, putAll_one]
  split
  · simp only [bind, Except.bind]
    rw [appendU8_eq h]
    simp only []
    rw [appendU8_eq (EInv_put h _), putAll_two]
  split
  · simp only [bind, Except.bind]
    rw [appendU8_eq h]
    simp only []
    rw [appendU16_eq (EInv_put h _), putAll_two]
  split
  · simp only [shlU32_24, bind, Except.bind]
    rw [appendU32_eq h, putAll_one]
  · simp only [bind, Except.bind]
    rw [appendU8_eq h]
    simp only []
    rw [appendU32_eq (EInv_put h _), putAll_two]

/-- COMPLETE functional characterisation of the encoder helpers: under the invariant and the
argument preconditions no helper faults and its effect is the `put` of `chunks op` -/
theorem run_eq {e : OEnc} (h : EInv e) (op : OEncOp) (hp : op.Pre) (hna : ¬ op.isAbort) :
    e.run op = .ok (e.putAll (chunks op)) := by
  cases op with
  | bool b => exact appendU8_eq h _
  | bytes src n => exact appendBytes_eq h src n hp.2 hp.1
  | u8 v => exact appendU8_eq h v
  | u16 v => exact appendU16_eq h v
  | u32 v => exact appendU32_eq h v
  | u64 v => exact appendU64_eq h v
  | i8 v => exact appendU8_eq h _
  | i16 v => exact appendU16_eq h _
  | i32 v => exact appendU32_eq h _
  | i64 v => exact appendU64_eq h _
  | uint v n => exact appendUint_eq h v n
  | luint v n junk => exact appendLongUint_eq h v n hp.1 junk hp.2
  | int v n => exact appendInt_eq h v n
  | f32 b => exact appendU32_eq h b
  | f64 b => exact appendU64_eq h b
  | lendet n => exact appendLengthDeterminant_eq h n
  | abort err => exact absurd trivial hna

/-- `encoder_abort` under its precondition -/
theorem abort_eq {e : OEnc} (err : Int) (hp : 0 < err ∧ err ≤ 4611686018427387904) :
    e.abort err = .ok (if e.size ≥ 0 then { e with size := -err, pos := -err } else e) := by
  unfold OEnc.abort
  split
  · rw [ssz_ok _ (by omega) (by omega)]; rfl
  · rfl

theorem EInv_abort {e : OEnc} (h : EInv e) (err : Int) (hp : 0 < err ∧ err ≤ 4611686018427387904) :
    EInv (if e.size ≥ 0 then { e with size := -err, pos := -err } else e) := by
  split
  · exact ⟨h.1, Or.inr ⟨by simp only; omega, rfl, by simp only; omega⟩⟩
  · exact h

/-- SAFETY, one encoder operation: no fault, invariant preserved -/
theorem run_safe {e : OEnc} (h : EInv e) (op : OEncOp) (hp : op.Pre) :
    ∃ e', e.run op = .ok e' ∧ EInv e' := by
  by_cases hna : op.isAbort
  · cases op with
    | abort err => exact ⟨_, abort_eq err hp, EInv_abort h err hp⟩
    | _ => exact absurd hna (by simp [OEncOp.isAbort])
  · exact ⟨_, run_eq h op hp hna, EInv_putAll h _⟩

/-- SAFETY, any sequence of encoder operations -/
theorem runAll_safe (ops : List OEncOp) : ∀ {e : OEnc}, EInv e → (∀ op ∈ ops, op.Pre) →
    ∃ e', e.runAll ops = .ok e' ∧ EInv e' := by
  induction ops with
  | nil => intro e h _; exact ⟨e, rfl, h⟩
  | cons op ops ih =>
    intro e h hp
    obtain ⟨e1, h1, hi1⟩ := run_safe h op (hp op (by simp))
    obtain ⟨e2, h2, hi2⟩ := ih hi1 (fun o ho => hp o (by simp [ho]))
    exact ⟨e2, by simp [OEnc.runAll, h1, bind, Except.bind, h2], hi2⟩

/-- the latch is frozen: once `size < 0`, every operation returns the very same struct
(same error code, buffer untouched) -/
theorem run_latched {e : OEnc} (h : EInv e) (hl : e.size < 0) (op : OEncOp) (hp : op.Pre) :
    e.run op = .ok e := by
  by_cases hna : op.isAbort
  · cases op with
    | abort err =>
      have : ¬ e.size ≥ 0 := by omega
      rw [show e.run (.abort err) = e.abort err from rfl, abort_eq err hp]; simp [this]
    | _ => exact absurd hna (by simp [OEncOp.isAbort])
  · rw [run_eq h op hp hna, putAll_latched hl]

theorem runAll_latched (ops : List OEncOp) {e : OEnc} (h : EInv e) (hl : e.size < 0)
    (hp : ∀ op ∈ ops, op.Pre) : e.runAll ops = .ok e := by
  induction ops with
  | nil => rfl
  | cons op ops ih =>
    simp [OEnc.runAll, run_latched h hl op (hp op (by simp)), bind, Except.bind,
      ih (fun o ho => hp o (by simp [ho]))]

/-! ### `encoder_init` -/

theorem init_eq (buf : Mem) (size : UInt64) (h : size.toNat < 4611686018427387904) :
    OEnc.init buf size = .ok { buf := buf, size := size.toNat, pos := 0 } := by
  simp [OEnc.init, toSsize_of_lt size (by omega)]

theorem EInv_init (buf : Mem) (size : UInt64) (h : size.toNat = buf.size)
    (hb : buf.size < 4611686018427387904) :
    EInv { buf := buf, size := size.toNat, pos := 0 } :=
  ⟨hb, Or.inl ⟨by simp, by simp only; omega, by simp only; omega⟩⟩

/-! ### short buffer -/

/-- number of bytes an operation appends -/
def need (op : OEncOp) : Nat := ((chunks op).map List.length).sum

theorem need_def (op : OEncOp) : ((chunks op).map List.length).sum = need op := rfl

/-- state-level effect of a sequence of `put`s: all of it fits, or the latch is `-ENOMEM` -/
theorem putAll_pos {e : OEnc} (h0 : 0 ≤ e.size) (hp : e.pos ≤ e.size) (cs : List (List UInt8)) :
    let e' := e.putAll cs
    if e.pos + ((cs.map List.length).sum : Nat) ≤ e.size
    then e'.size = e.size ∧ e'.pos = e.pos + ((cs.map List.length).sum : Nat)
    else e'.size = -12 ∧ e'.pos = -12 := by
  induction cs generalizing e with
  | nil => simp [OEnc.putAll, hp]
  | cons c cs ih =>
    simp only [OEnc.putAll, List.map_cons, List.sum_cons]
    have hs0 : ¬ e.size < 0 := by omega
    by_cases hfit : e.pos + (c.length : Int) ≤ e.size
    · have hput : e.put c = { e with buf := write e.buf e.pos.toNat c, pos := e.pos + c.length } := by
        simp [OEnc.put, hs0, hfit]
      have := ih (e := e.put c) (by rw [hput]; exact h0) (by rw [hput]; exact hfit)
      rw [hput] at this ⊢
      simp only at this ⊢
      split <;> rename_i hc
      · rw [if_pos (by omega)] at this; omega
      · rw [if_neg (by omega)] at this; exact this
    · have hput : e.put c = { e with size := -12, pos := -12 } := by simp [OEnc.put, hs0, hfit]
      rw [hput, putAll_latched (by simp)]
      rw [if_neg (by omega)]
      simp

/-- SHORT BUFFER, sequence form: starting in a non-latched state, a sequence of (non-`abort`)
operations ends with `pos` advanced by the sum of the needs if that fits, else latched on `-12` -/
theorem runAll_pos (ops : List OEncOp) : ∀ {e : OEnc}, EInv e → 0 ≤ e.size →
    (∀ op ∈ ops, op.Pre ∧ ¬ op.isAbort) →
    ∃ e', e.runAll ops = .ok e' ∧
      (if e.pos + ((ops.map need).sum : Nat) ≤ e.size
       then e'.size = e.size ∧ e'.pos = e.pos + ((ops.map need).sum : Nat)
       else e'.size = -12 ∧ e'.pos = -12) := by
  induction ops with
  | nil =>
    intro e h h0 _
    have : e.pos ≤ e.size := by rcases h.2 with h | h <;> omega
    exact ⟨e, rfl, by simp [this]⟩
  | cons op ops ih =>
    intro e h h0 hp
    have hpos : e.pos ≤ e.size := by rcases h.2 with h | h <;> omega
    have hpos0 : 0 ≤ e.pos := by rcases h.2 with h | h <;> omega
    have h1 := run_eq h op (hp op (by simp)).1 (hp op (by simp)).2
    have hi1 := EInv_putAll h (chunks op)
    have hst := putAll_pos h0 hpos (chunks op)
    simp only [OEnc.runAll, h1, bind, Except.bind, List.map_cons, List.sum_cons]
    replace hst : if e.pos + (need op : Nat) ≤ e.size
        then (e.putAll (chunks op)).size = e.size ∧ (e.putAll (chunks op)).pos = e.pos + (need op : Nat)
        else (e.putAll (chunks op)).size = -12 ∧ (e.putAll (chunks op)).pos = -12 := hst
    by_cases hfit : e.pos + (need op : Nat) ≤ e.size
    · rw [if_pos hfit] at hst
      obtain ⟨e2, h2, hst2⟩ := ih hi1 (by omega) (fun o ho => hp o (by simp [ho]))
      refine ⟨e2, h2, ?_⟩
      rw [hst.1, hst.2] at hst2
      split <;> rename_i hc
      · rw [if_pos (by omega)] at hst2; omega
      · rw [if_neg (by omega)] at hst2; exact hst2
    · rw [if_neg hfit] at hst
      have hl : (e.putAll (chunks op)).size < 0 := by omega
      refine ⟨_, runAll_latched ops hi1 hl (fun o ho => (hp o (by simp [ho])).1), ?_⟩
      rw [if_neg (by omega)]
      exact hst

end Asn1.C10
