import Asn1Proofs.Lemmas.X691PerPrim
/-
  Witnesses for the two deviations that need 16384 items: no closed term of that size can be
  evaluated by the kernel in reasonable time, so the data is a variable of the given length.
-/
set_option linter.unusedSimpArgs false
namespace Asn1.X691
open Asn1.Uper (lenDet encChunks encChunked padToByte)

/-- 16384 items behind an unconstrained length: the marker `c1`, the items, and the length
determinant of the (empty) rest -/
theorem encChunked_16384 (items : List Bits) (h : items.length = 16384) :
    encChunked items = natToBits 8 0xc1 ++ items.flatten ++ natToBits 8 0 := by
  unfold encChunked
  rw [h]
  have h1 : lenDet 16384 = (natToBits 8 0xc1, 16384) := by decide
  have h0 : lenDet 0 = (natToBits 8 0, 0) := by decide
  simp only [encChunks, h, h1, Nat.lt_irrefl, if_false]
  have ht : List.take 16384 items = items := by rw [← h, List.take_length]
  have hd : List.drop 16384 items = [] := by rw [← h, List.drop_length]
  rw [ht, hd]
  simp [h0]

theorem witness_unfragmented (data : Bytes) (hb : ∀ b ∈ data, b < 256) (hlen : data.length = 16384) :
    ∃ m, Uper.enc (.octetString ⟨0, some 10, true⟩) (.bytes data) = .ok m ∧
      enc false (.octetString ⟨0, some 10, true⟩) 0 (.bytes data) = .ok (m ++ natToBits 8 0) ∧
      "unfragmented-length" ∈ devs false (.octetString ⟨0, some 10, true⟩) (.bytes data) := by
  refine ⟨[true] ++ natToBits 8 0xc1 ++ bytesToBits data, ?_, ?_, ?_⟩
  · simp only [Uper.enc, hlen]
    have h1 : lenDet 16384 = (natToBits 8 0xc1, 16384) := by decide
    simp [Uper.inSize, h1]
  · simp only [enc, encOctetString]
    have hall : (data.all fun x => decide (x < 256)) = true := by
      simpa using hb
    rw [if_pos hall]
    unfold extSizedM
    simp only [inRoot, List.length_map, hlen, if_true]
    have : (decide (0 ≤ 16384) && decide (16384 ≤ 10)) = false := by decide
    simp only [this, Bool.false_eq_true, if_false, genLenM_leaf, genLen_false]
    rw [encChunked_16384 _ (by simp [hlen]), flatten_map_natToBits8]
    simp
  · simp [devs, devsSize, inRoot, hlen]

/-! ### fragment length determinants of the ALIGNED variant -/

theorem lenDet_c1 (n : Nat) (h1 : 16384 ≤ n) (h2 : n < 32768) : lenDet n = (natToBits 8 0xc1, 16384) := by
  unfold lenDet
  rw [if_neg (by omega), if_neg (by omega), if_pos h2]

theorem lenDet_short (n : Nat) (h : n < 128) : lenDet n = (natToBits 8 n, n) := by
  unfold lenDet
  rw [if_pos h]

/-- the code: a fragment of 16384 components and fewer than 128 further ones -/
theorem encChunksM_two {α : Type} (f : Nat → α → EncM Bits) (fuel pos : Nat) (l1 l2 : List α) (b1 b2 : Bits)
    (h1 : l1.length = 16384) (h2 : l2.length < 128)
    (e1 : Per.encSeqM f (pos + 8) l1 = .ok b1)
    (e2 : Per.encSeqM f (pos + 8 + b1.length + 8) l2 = .ok b2) :
    Per.encChunksM f (fuel + 2) pos (l1 ++ l2) =
      .ok (natToBits 8 0xc1 ++ b1 ++ natToBits 8 l2.length ++ b2) := by
  have hl : (l1 ++ l2).length = 16384 + l2.length := by rw [List.length_append, h1]
  rw [Per.encChunksM]
  simp only [hl, lenDet_c1 (16384 + l2.length) (by omega) (by omega), natToBits_length]
  have ht : List.take 16384 (l1 ++ l2) = l1 := by rw [← h1]; exact List.take_left' rfl
  have hd : List.drop 16384 (l1 ++ l2) = l2 := by rw [← h1]; exact List.drop_left' rfl
  rw [ht, hd, e1]
  simp only [Nat.lt_irrefl, if_false]
  rw [Per.encChunksM]
  simp only [lenDet_short _ h2, natToBits_length, List.take_length, e2]
  rw [if_pos (by omega)]
  simp

/-- the standard: the second length determinant is octet-aligned -/
theorem fragM_two {α : Type} (f : Nat → α → EncM Bits) (fuel pos : Nat) (l1 l2 : List α) (b1 b2 : Bits)
    (hpos : pos % 8 = 0)
    (h1 : l1.length = 16384) (h2 : l2.length < 128)
    (e1 : seqM f (pos + 8) l1 = .ok b1)
    (e2 : seqM f (pos + 8 + b1.length + (pad true (pos + 8 + b1.length)).length + 8) l2 = .ok b2) :
    fragM true f (fuel + 2) pos (l1 ++ l2) =
      .ok (natToBits 8 0xc1 ++ b1 ++ pad true (pos + 8 + b1.length) ++ natToBits 8 l2.length ++ b2) := by
  have hl : (l1 ++ l2).length = 16384 + l2.length := by rw [List.length_append, h1]
  have hp0 : pad true pos = [] := by
    unfold pad; simp [hpos]
  rw [fragM]
  simp only [hl, hp0, lengthOctets_eq, lenDet_c1 (16384 + l2.length) (by omega) (by omega),
    natToBits_length, List.length_nil, Nat.add_zero, List.nil_append]
  have ht : List.take 16384 (l1 ++ l2) = l1 := by rw [← h1]; exact List.take_left' rfl
  have hd : List.drop 16384 (l1 ++ l2) = l2 := by rw [← h1]; exact List.drop_left' rfl
  rw [ht, hd, e1]
  simp only [Nat.lt_irrefl, if_false]
  rw [fragM]
  simp only [lengthOctets_eq, lenDet_short _ h2, natToBits_length, List.take_length, e2]
  rw [if_pos (by omega)]
  simp

namespace FragWitness

def e : Ty := .choice (.cons "a" .boolean (.cons "b" .null .nil)) false .nil
def t : Ty := .sequenceOf e ⟨0, none, false⟩
def x : Val := .choice "a" (.bool true)
def y : Val := .choice "b" .null
/-- `n + 1` components (the first two bits long, the others one bit) and one more -/
def vsN (n : Nat) : List Val := (x :: List.replicate n y) ++ [y]
def bodyN (n : Nat) : Bits := [false, true] ++ List.replicate n true
/-- 16384 components and one more -/
def vs : List Val := vsN 16383
def body : Bits := bodyN 16383

theorem log2_one : Nat.log2 1 = 0 := by decide

theorem mx (p : Nat) : Per.enc e p x = .ok [false, true] := by
  simp [Per.enc, e, x, Per.nameIdx, Alts.names, Alts.length, Per.encConstrainedInt, Per.encCwn,
    Per.encAlt, bitLength, natToBits, log2_one]
theorem my (p : Nat) : Per.enc e p y = .ok [true] := by
  simp [Per.enc, e, y, Per.nameIdx, Alts.names, Alts.length, Per.encConstrainedInt, Per.encCwn,
    Per.encAlt, bitLength, natToBits, log2_one]
theorem sx (p : Nat) : enc true e p x = .ok [false, true] := by
  simp [enc, e, x, indexOfName, Alts.names, Alts.length, cwn, cwnSmall, encAlt, minBits, leastFrom,
    natToBits]
theorem sy (p : Nat) : enc true e p y = .ok [true] := by
  simp [enc, e, y, indexOfName, Alts.names, Alts.length, cwn, cwnSmall, encAlt, minBits, leastFrom,
    natToBits]

theorem encSeqM_replicate (n p : Nat) :
    Per.encSeqM (Per.enc e) p (List.replicate n y) = .ok (List.replicate n true) := by
  induction n generalizing p with
  | zero => rfl
  | succ n ih =>
    rw [List.replicate_succ, Per.encSeqM, my]
    simp only [ih, List.replicate_succ]
    rfl

theorem seqM_replicate (n p : Nat) :
    seqM (enc true e) p (List.replicate n y) = .ok (List.replicate n true) := by
  induction n generalizing p with
  | zero => rfl
  | succ n ih =>
    rw [List.replicate_succ, seqM, sy]
    simp only [ih, List.replicate_succ]
    rfl

theorem bodyN_length (n : Nat) : (bodyN n).length = n + 2 := by
  unfold bodyN
  rw [List.length_append, List.length_replicate]
  simp only [List.length_cons, List.length_nil]
  omega

theorem vsN_length (n : Nat) : (vsN n).length = n + 2 := by
  unfold vsN
  rw [List.length_append, List.length_cons, List.length_replicate]
  rfl

theorem l1_length (n : Nat) : (x :: List.replicate n y).length = n + 1 := by
  rw [List.length_cons, List.length_replicate]

theorem e1M (n p : Nat) : Per.encSeqM (Per.enc e) p (x :: List.replicate n y) = .ok (bodyN n) := by
  rw [Per.encSeqM, mx]
  simp only [encSeqM_replicate]
  rfl

theorem e2M (p : Nat) : Per.encSeqM (Per.enc e) p [y] = .ok [true] := by
  rw [Per.encSeqM, my]
  rfl

theorem e1S (n p : Nat) : seqM (enc true e) p (x :: List.replicate n y) = .ok (bodyN n) := by
  rw [seqM, sx]
  simp only [seqM_replicate]
  rfl

theorem e2S (p : Nat) : seqM (enc true e) p [y] = .ok [true] := by
  rw [seqM, sy]
  rfl

theorem codeN (n : Nat) (hn : n + 1 = 16384) : Per.enc t 0 (.list (vsN n)) =
    .ok (natToBits 8 0xc1 ++ bodyN n ++ natToBits 8 1 ++ [true]) := by
  have h := encChunksM_two (Per.enc e) 1 0 (x :: List.replicate n y) [y] (bodyN n) [true]
    (by rw [l1_length, hn]) (by decide) (e1M n _) (e2M _)
  have hlen : (vsN n).length = 16385 := by rw [vsN_length]; omega
  simp only [Per.enc, t, Uper.sizeBits, hlen]
  have hal : Per.alignBits 0 = [] := rfl
  simp only [hal, List.length_nil, Nat.add_zero, Bool.false_eq_true, if_false, List.append_nil,
    List.nil_append]
  have hf : 16385 / 16384 + 2 = 1 + 2 := by decide
  rw [hf]
  unfold vsN
  rw [h]
  rfl

theorem specN (n : Nat) (hn : n + 1 = 16384) : enc true t 0 (.list (vsN n)) =
    .ok (natToBits 8 0xc1 ++ bodyN n ++ List.replicate 7 false ++ natToBits 8 1 ++ [true]) := by
  have h := fragM_two (enc true e) 1 0 (x :: List.replicate n y) [y] (bodyN n) [true] rfl
    (by rw [l1_length, hn]) (by decide) (e1S n _) (e2S _)
  have hpad : pad true (0 + 8 + (bodyN n).length) = List.replicate 7 false := by
    rw [bodyN_length]
    have : 0 + 8 + (n + 2) = 16393 := by omega
    rw [this]; rfl
  rw [hpad] at h
  have hlen : (vsN n).length = 16385 := by rw [vsN_length]; omega
  simp only [enc, t, extSizedM, sizedM, genLenM, hlen, Bool.false_eq_true, if_false]
  have hf : 16385 / 16384 + 2 = 1 + 2 := by decide
  simp only [Nat.not_lt_zero, if_false, hf]
  unfold vsN
  rw [h]
  rfl

theorem flaggedN (n : Nat) (hn : n + 1 = 16384) :
    "aligned-fragment-length-unaligned" ∈ devs true t (.list (vsN n)) := by
  have hlen : (vsN n).length = 16385 := by rw [vsN_length]; omega
  simp [devs, t, hlen]

theorem code : Per.enc t 0 (.list vs) =
    .ok (natToBits 8 0xc1 ++ body ++ natToBits 8 1 ++ [true]) := codeN 16383 (by decide)

theorem spec : enc true t 0 (.list vs) =
    .ok (natToBits 8 0xc1 ++ body ++ List.replicate 7 false ++ natToBits 8 1 ++ [true]) :=
  specN 16383 (by decide)

theorem flagged : "aligned-fragment-length-unaligned" ∈ devs true t (.list vs) :=
  flaggedN 16383 (by decide)

end FragWitness

/-- ALIGNED, `SEQUENCE OF CHOICE { a BOOLEAN, b NULL }` with the 16385 components
`a:TRUE, b, b, ..., b`: the first fragment (16384 components) is 16385 bits long; the code writes
the next length determinant `00000001` immediately, the standard after seven padding bits. -/
theorem witness_aligned_fragment :
    Per.enc FragWitness.t 0 (.list FragWitness.vs) =
      .ok (natToBits 8 0xc1 ++ FragWitness.body ++ natToBits 8 1 ++ [true]) ∧
    enc true FragWitness.t 0 (.list FragWitness.vs) =
      .ok (natToBits 8 0xc1 ++ FragWitness.body ++ List.replicate 7 false ++ natToBits 8 1 ++ [true]) ∧
    "aligned-fragment-length-unaligned" ∈ devs true FragWitness.t (.list FragWitness.vs) :=
  ⟨FragWitness.code, FragWitness.spec, FragWitness.flagged⟩

end Asn1.X691
