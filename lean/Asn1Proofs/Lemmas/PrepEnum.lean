import Asn1Proofs.Lemmas.PrepHistory
/-
  Decidable sufficient conditions for the hypotheses on ENUMERATED value lists.
-/
namespace Asn1.SpecDict

/-- no enumeration number is a value reference -/
def enumAllInt : List EnumItem → Bool
  | [] => true
  | .marker :: t => enumAllInt t
  | .item _ (.int _) :: t => enumAllInt t
  | .item _ (.ref _) :: _ => false

def enumKeys : List EnumItem → List String
  | [] => []
  | .marker :: t => enumKeys t
  | .item k _ :: t => k :: enumKeys t

def enumInts : List EnumItem → List Int
  | [] => []
  | .marker :: t => enumInts t
  | .item _ (.int i) :: t => i :: enumInts t
  | .item _ (.ref _) :: t => enumInts t

def notIn {α : Type} [DecidableEq α] (x : α) : List α → Bool
  | [] => true
  | a :: t => if a = x then false else notIn x t

def distinct {α : Type} [DecidableEq α] : List α → Bool
  | [] => true
  | a :: t => notIn a t && distinct t

/-- numbers are integers, names are pairwise distinct, numbers are pairwise distinct
(what X.680 demands of an ENUMERATED type) -/
def enumProper (vals : List EnumItem) : Bool :=
  enumAllInt vals && distinct (enumKeys vals) && distinct (enumInts vals)

theorem noRef_of_allInt {vals : List EnumItem} (h : enumAllInt vals = true) (s t : String) :
    enumValueOf? s vals ≠ some (.ref t) := by
  induction vals with
  | nil => simp [enumValueOf?]
  | cons x r ih =>
    cases x with
    | marker => simp only [enumAllInt] at h; simpa [enumValueOf?] using ih h
    | item k v =>
      cases v with
      | ref u => simp [enumAllInt] at h
      | int i =>
        simp only [enumAllInt] at h
        simp only [enumValueOf?]
        split
        · simp
        · exact ih h

theorem RefStable_of_allInt {vals : List EnumItem} (h : enumAllInt vals = true) : RefStable vals :=
  fun s t hs => absurd hs (noRef_of_allInt h s t)

theorem mem_enumInts_of_value {vals : List EnumItem} {s : String} {i : Int}
    (h : enumValueOf? s vals = some (.int i)) : notIn i (enumInts vals) = false := by
  induction vals with
  | nil => simp [enumValueOf?] at h
  | cons x r ih =>
    cases x with
    | marker => simp only [enumValueOf?] at h; simpa [enumInts] using ih h
    | item k v =>
      simp only [enumValueOf?] at h
      split at h
      · cases h; simp [enumInts, notIn]
      · cases v with
        | int j => simp only [enumInts, notIn]; split <;> simp [ih h]
        | ref u => simpa [enumInts] using ih h

theorem mem_enumKeys_of_name {vals : List EnumItem} {i : Int} {k : String}
    (h : enumNameOf? i vals = some k) : notIn k (enumKeys vals) = false := by
  induction vals with
  | nil => simp [enumNameOf?] at h
  | cons x r ih =>
    cases x with
    | marker => simp only [enumNameOf?] at h; simpa [enumKeys] using ih h
    | item k' v =>
      cases v with
      | int j =>
        simp only [enumNameOf?] at h
        split at h
        · cases h; simp [enumKeys, notIn]
        · simp only [enumKeys, notIn]; split <;> simp [ih h]
      | ref u =>
        simp only [enumNameOf?] at h
        simp only [enumKeys, notIn]; split <;> simp [ih h]

theorem nameOfValue_of_proper (vals : List EnumItem) (h1 : enumAllInt vals = true)
    (h3 : distinct (enumInts vals) = true) (s : String) (i : Int)
    (hs : enumValueOf? s vals = some (.int i)) : enumNameOf? i vals = some s := by
  induction vals with
  | nil => simp [enumValueOf?] at hs
  | cons x r ih =>
    cases x with
    | marker =>
      simp only [enumAllInt, enumInts, enumValueOf?, enumNameOf?] at *
      exact ih h1 h3 hs
    | item k v =>
      cases v with
      | ref u => simp [enumAllInt] at h1
      | int j =>
        simp only [enumAllInt, enumInts, distinct, Bool.and_eq_true] at h1 h3
        simp only [enumValueOf?] at hs
        simp only [enumNameOf?]
        split at hs
        · rename_i hk; cases hs; subst hk; simp
        · have hmem := mem_enumInts_of_value hs
          have hne : ¬ j = i := by
            intro hji; subst hji; rw [h3.1] at hmem; cases hmem
          rw [if_neg hne]
          exact ih h1 h3.2 hs

theorem valueOfName_of_proper (vals : List EnumItem) (h1 : enumAllInt vals = true)
    (h2 : distinct (enumKeys vals) = true) (i : Int) (k : String)
    (hk : enumNameOf? i vals = some k) : enumValueOf? k vals = some (.int i) := by
  induction vals with
  | nil => simp [enumNameOf?] at hk
  | cons x r ih =>
    cases x with
    | marker =>
      simp only [enumAllInt, enumKeys, enumValueOf?, enumNameOf?] at *
      exact ih h1 h2 hk
    | item k' v =>
      cases v with
      | ref u => simp [enumAllInt] at h1
      | int j =>
        simp only [enumAllInt, enumKeys, distinct, Bool.and_eq_true] at h1 h2
        simp only [enumNameOf?] at hk
        simp only [enumValueOf?]
        split at hk
        · rename_i hj; cases hk; subst hj; simp
        · have hmem := mem_enumKeys_of_name hk
          have hne : ¬ k' = k := by
            intro hkk; subst hkk; rw [h2.1] at hmem; cases hmem
          rw [if_neg hne]
          exact ih h1 h2.2 hk

theorem GoodEnum_of_proper {vals : List EnumItem} (h : enumProper vals = true) : GoodEnum vals := by
  simp only [enumProper, Bool.and_eq_true] at h
  exact ⟨noRef_of_allInt h.1.1, nameOfValue_of_proper vals h.1.1 h.2,
    valueOfName_of_proper vals h.1.1 h.1.2⟩

end Asn1.SpecDict
