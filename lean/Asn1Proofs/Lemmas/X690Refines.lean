import Asn1Proofs.Lemmas.X690Tag
/-
  Refinement M = S for the DER encoder: on well-typed values of well-formed types, outside the
  named deviation `default-valued-component-not-elided` (`X690.elisionOk`), the code-level model
  `Der.enc` / `Der.encode` computes the X.690 distinguished encoding `X690.encV` / `X690.derEncode`.
-/
set_option linter.unusedSimpArgs false
set_option linter.unusedVariables false
namespace Asn1.X690
open Asn1.Uper (Err)

/-- statement shape of the induction over `Ty` -/
def REF (t : Ty) : Prop :=
  ∀ (tg : Option Nat) (v : Val), t.wf = true → hasType t v = true → elisionOk t v = true →
    Der.enc t tg v = encV t tg v

/-! ### leaves -/

theorem isDefaultB_eq (t : Ty) (v d : Val) : Der.isDefaultB t v d = writtenLikeDefault t v d := by
  cases t <;> rfl

theorem enumValue_eq (name : String) (l : List (String × Int)) :
    Oer.enumValue name l = enumNumber name l := by
  induction l with
  | nil => rfl
  | cons x r ih =>
    obtain ⟨n, v⟩ := x
    simp only [Oer.enumValue, enumNumber, ih]

/-- on the characters of the type, the code's `str.encode` is the contents of 8.23 -/
theorem encodeStr_eq {k : StrKind} {c : SizeC} {cps : List Nat}
    (ht : hasType (.charString k c) (.str cps) = true) :
    Oer.encodeStr k cps = charContents k cps := by
  cases k
  case utf8 =>
    simp only [hasType] at ht
    simp only [Oer.encodeStr, charContents, ht, if_true]
  all_goals
    simp only [hasType, Bool.and_eq_true] at ht
    have hlt := Oer.all_lt_of_alphabet _ _ ht.1
    simp only [Oer.encodeStr, charContents, ht.1, hlt, if_true]

theorem ref_boolean : REF .boolean := by
  intro tg v hwf ht hdev
  cases v <;> try (simp only [hasType, Bool.false_eq_true] at ht; done)
  rw [Der.enc, encV, header_eq_mkTag]
  rfl

theorem ref_null : REF .null := by
  intro tg v hwf ht hdev
  cases v <;> try (simp only [hasType, Bool.false_eq_true] at ht; done)
  rw [Der.enc, encV, header_eq_mkTag]
  simp [tlv, lengthOctets, Der.univNumber]

theorem ref_integer (c : IntC) : REF (.integer c) := by
  intro tg v hwf ht hdev
  cases v <;> try (simp only [hasType, Bool.false_eq_true] at ht; done)
  rw [Der.enc, encV, header_eq_mkTag]
  rfl

theorem ref_enumerated (root : List (String × Int)) (ext : Option (List (String × Int))) :
    REF (.enumerated root ext) := by
  intro tg v hwf ht hdev
  cases v <;> try (simp only [hasType, Bool.false_eq_true] at ht; done)
  rename_i name
  rw [Der.enc, encV, header_eq_mkTag, enumValue_eq]
  cases enumNumber name (root ++ ext.getD []) <;> rfl

theorem ref_octetString (c : SizeC) : REF (.octetString c) := by
  intro tg v hwf ht hdev
  cases v <;> try (simp only [hasType, Bool.false_eq_true] at ht; done)
  rw [Der.enc, encV, header_eq_mkTag]
  rfl

theorem ref_bitString (c : SizeC) : REF (.bitString c) := by
  intro tg v hwf ht hdev
  cases v <;> try (simp only [hasType, Bool.false_eq_true] at ht; done)
  rw [Der.enc, encV, header_eq_mkTag]
  rfl

theorem ref_charString (k : StrKind) (c : SizeC) : REF (.charString k c) := by
  intro tg v hwf ht hdev
  cases v <;> try (simp only [hasType, Bool.false_eq_true] at ht; done)
  rename_i cps
  rw [Der.enc, encV, header_eq_mkTag, encodeStr_eq ht]
  cases charContents k cps <;> rfl

/-! ### SEQUENCE -/

/-- 8.9.2 / 11.5 for one component -/
def compHere (name : String) (p : Presence) (t : Ty) (i : Nat) (fs : List (String × Val)) :
    Except Err Bytes :=
  match lookup name fs with
  | some v =>
    match p with
    | .default d => if isDefaultValue t v d then .ok [] else encV t (some i) v
    | _ => encV t (some i) v
  | none =>
    match p with
    | .mandatory => .error .encodeError
    | _ => .ok []

theorem encComponents_cons (name : String) (p : Presence) (t : Ty) (rest : Members) (i : Nat)
    (fs : List (String × Val)) :
    encComponents (.cons name p t rest) i fs =
      (match compHere name p t i fs with
       | .error err => .error err
       | .ok a =>
         match encComponents rest (i + 1) fs with
         | .error err => .error err
         | .ok b => .ok (a ++ b)) := by
  cases p <;> rw [encComponents] <;> first | rfl | (intros; contradiction)

theorem elisionOkMembers_cons (name : String) (p : Presence) (t : Ty) (rest : Members)
    (fs : List (String × Val)) :
    elisionOkMembers (.cons name p t rest) fs =
      ((match lookup name fs with
        | some v =>
          (match p with
           | .default d => writtenLikeDefault t v d == isDefaultValue t v d
           | _ => true) && elisionOk t v
        | none => true) && elisionOkMembers rest fs) := by
  cases p <;> rw [elisionOkMembers] <;> first | rfl | (intros; contradiction)

/-- one member: `encode_member` of the code = the component encoding of the standard -/
theorem encHere_refines {name : String} {p : Presence} {t : Ty} {fs : List (String × Val)}
    (href : REF t) (hwf : t.wf = true) (i : Nat) :
    (match lookup name fs with
     | some v => hasType t v
     | none => match p with | .mandatory => false | _ => true) = true →
    (match lookup name fs with
     | some v =>
       (match p with
        | .default d => writtenLikeDefault t v d == isDefaultValue t v d
        | _ => true) && elisionOk t v
     | none => true) = true →
    Der.encHere name p t i fs = compHere name p t i fs := by
  intro hok hdev
  unfold Der.encHere compHere
  cases hl : lookup name fs with
  | none => cases p <;> rfl
  | some v =>
    simp only [hl] at hok hdev
    rw [Bool.and_eq_true] at hdev
    have he := href (some i) v hwf hok hdev.2
    cases p with
    | mandatory => exact he
    | optional => exact he
    | default d =>
      have h1 := hdev.1
      simp only [beq_iff_eq] at h1
      simp only [isDefaultB_eq, h1, he]

theorem encMembers_refines (fs : List (String × Val)) (ms : Members) :
    ms.AllO REF → ms.wf = true → membersOk ms fs = true → elisionOkMembers ms fs = true →
    ∀ (i : Nat), Der.encMembers ms i fs = encComponents ms i fs := by
  induction ms using Members.ind with
  | nil => intro _ _ _ _ i; rw [Der.encMembers, encComponents]
  | cons name p t rest ih =>
    intro hall hwf hok hdev i
    rw [Members.wf, Bool.and_eq_true] at hwf
    rw [Der.membersOk_cons, Bool.and_eq_true] at hok
    rw [elisionOkMembers_cons, Bool.and_eq_true] at hdev
    rw [Der.encMembers_cons, encComponents_cons, ih hall.2 hwf.2 hok.2 hdev.2 (i + 1),
      encHere_refines hall.1 hwf.1 i hok.1 hdev.1]
    cases compHere name p t i fs <;> cases encComponents rest (i + 1) fs <;> rfl

theorem ref_sequence (root : Members) (ext : Bool) (adds : Members)
    (ihr : root.AllO REF) (iha : adds.AllO REF) : REF (.sequence root ext adds) := by
  intro tg v hwf ht hdev
  cases v <;> try (simp only [hasType, Bool.false_eq_true] at ht; done)
  rename_i fs
  simp only [Ty.wf, Bool.and_eq_true, decide_eq_true_eq] at hwf
  obtain ⟨⟨⟨⟨hwr, hwa⟩, hnd⟩, _⟩, _⟩ := hwf
  have hnd' : (root.names ++ adds.names).Nodup := by simpa using hnd
  obtain ⟨hokr, hoka⟩ := membersOk_of_hasType root adds ext fs hnd' ht
  rw [elisionOk, Bool.and_eq_true] at hdev
  rw [Der.enc, encV,
    Der.encAdditions_eq fs adds (Der.members_allO_of_forall Der.et_all adds) hwa hoka,
    encMembers_refines fs root ihr hwr hokr hdev.1, encMembers_refines fs adds iha hwa hoka hdev.2,
    header_eq_mkTag]
  cases encComponents root 0 fs with
  | error e => rfl
  | ok a => cases encComponents adds root.length fs <;> rfl

/-! ### SEQUENCE OF -/

theorem mapM_congr_enc {α β : Type} (f g : α → Except Err β) (l : List α)
    (h : ∀ a ∈ l, f a = g a) : l.mapM f = l.mapM g := by
  induction l with
  | nil => rw [Oer.mapM_nil', Oer.mapM_nil']
  | cons a r ih =>
    rw [Oer.mapM_cons', Oer.mapM_cons', h a (List.mem_cons_self ..),
      ih (fun x hx => h x (List.mem_cons_of_mem _ hx))]

theorem ref_sequenceOf (e : Ty) (c : SizeC) (ih : REF e) : REF (.sequenceOf e c) := by
  intro tg v hwf ht hdev
  cases v <;> try (simp only [hasType, Bool.false_eq_true] at ht; done)
  rename_i vs
  simp only [hasType, Bool.and_eq_true, List.all_eq_true] at ht
  simp only [Ty.wf, Bool.and_eq_true] at hwf
  rw [elisionOk, List.all_eq_true] at hdev
  have hm : vs.mapM (Der.enc e none) = vs.mapM (encV e none) :=
    mapM_congr_enc _ _ vs (fun x hx => ih none x hwf.1 (ht.1 x hx) (hdev x hx))
  rw [Der.enc, encV, hm, header_eq_mkTag]
  cases vs.mapM (encV e none) <;> rfl

/-! ### CHOICE -/

theorem encAlternative_find (as : Alts) (i : Nat) (name : String) (v : Val) :
    encAlternative as i name v = (as.findO name).map (fun x => encV x.2 (some (i + x.1)) v) := by
  induction as using Alts.ind generalizing i with
  | nil => rfl
  | cons n t rest ih =>
    simp only [encAlternative, Alts.findO]
    split
    · rfl
    · rw [ih]
      cases rest.findO name with
      | none => rfl
      | some x =>
        simp only [Option.map_some]
        rw [show i + 1 + x.1 = i + (x.1 + 1) by omega]

theorem elisionOkAlt_find (as : Alts) (name : String) (v : Val) :
    elisionOkAlt as name v = (match as.findO name with | some x => elisionOk x.2 v | none => true) := by
  induction as using Alts.ind with
  | nil => rfl
  | cons n t rest ih =>
    simp only [elisionOkAlt, Alts.findO]
    split
    · rfl
    · rw [ih]
      cases rest.findO name <;> rfl

theorem ref_choice (root : Alts) (ext : Bool) (adds : Alts)
    (ihr : root.AllO REF) (iha : adds.AllO REF) : REF (.choice root ext adds) := by
  intro tg v hwf ht hdev
  cases v <;> try (simp only [hasType, Bool.false_eq_true] at ht; done)
  rename_i name v
  simp only [hasType] at ht
  simp only [Ty.wf, Bool.and_eq_true, decide_eq_true_eq] at hwf
  obtain ⟨⟨⟨⟨hwr, hwa⟩, _⟩, hnd⟩, _⟩ := hwf
  have hnd' : (root.names ++ adds.names).Nodup := by simpa using hnd
  rw [elisionOk, Bool.and_eq_true, elisionOkAlt_find, elisionOkAlt_find] at hdev
  simp only [Der.enc, encV]
  rw [Der.encAlt_find, Der.encAlt_find, encAlternative_find, encAlternative_find]
  rcases Oer.choice_typed hnd' ht with ⟨j, t, hf, hty⟩ | ⟨hf, j, t, hfa, hty⟩
  · simp only [hf, Option.map_some, Nat.zero_add] at hdev ⊢
    have href : REF t := find_all_oer name root j t hf ihr
    have hwt := find_all_oer name root j t hf (alts_all_wf_oer root hwr)
    rw [href (some j) v hwt hty hdev.1]
    cases tg with
    | none => rfl
    | some i =>
      simp only [identifier_context 0]
      cases encV t (some j) v <;> rfl
  · simp only [hf, hfa, Option.map_some, Option.map_none] at hdev ⊢
    have href : REF t := find_all_oer name adds j t hfa iha
    have hwt := find_all_oer name adds j t hfa (alts_all_wf_oer adds hwa)
    rw [href (some (root.length + j)) v hwt hty hdev.2]
    cases tg with
    | none => rfl
    | some i =>
      simp only [identifier_context 0]
      cases encV t (some (root.length + j)) v <;> rfl

/-! ### all types -/

theorem ref_all (t : Ty) : REF t :=
  Ty.rec (motive_1 := REF) (motive_2 := Members.AllO REF) (motive_3 := Alts.AllO REF)
    ref_boolean ref_null ref_integer ref_enumerated ref_octetString ref_bitString ref_charString
    (fun root ext adds ihr iha => ref_sequence root ext adds ihr iha)
    (fun e c ih => ref_sequenceOf e c ih)
    (fun root ext adds ihr iha => ref_choice root ext adds ihr iha)
    trivial (fun _ _ _ _ iht ihr => ⟨iht, ihr⟩)
    trivial (fun _ _ _ iht ihr => ⟨iht, ihr⟩) t

/-- on values of the type, outside the named deviation, the code's DER encoder computes the X.690
distinguished encoding, in every tagging context -/
theorem enc_refines (t : Ty) (tg : Option Nat) (v : Val)
    (hwf : t.wf = true) (ht : hasType t v = true) (hdev : elisionOk t v = true) :
    Der.enc t tg v = encV t tg v :=
  ref_all t tg v hwf ht hdev

/-- `Specification.encode` (type checker, then the DER codec) = `derEncode` of X.690, on every
well-typed value of a well-formed type for which no deviation is reported -/
theorem der_refines (t : Ty) (v : Val)
    (hwf : t.wf = true) (ht : hasType t v = true) (hdev : deviations t v = []) :
    Der.encode t v = derEncode t v := by
  have hel : elisionOk t v = true := by
    unfold deviations at hdev
    cases h : elisionOk t v with
    | true => rfl
    | false => simp [h] at hdev
  unfold Der.encode derEncode
  rw [Der.checkTypes_of_hasType t v hwf ht, if_pos rfl]
  exact enc_refines t none v hwf ht hel

end Asn1.X690

#print axioms Asn1.X690.enc_refines
#print axioms Asn1.X690.der_refines
