import Asn1Proofs.Lemmas.X690CompStr
import Asn1Proofs.Lemmas.X690CompSeqOf
import Asn1Proofs.Lemmas.X690CompChoice
import Asn1Proofs.Lemmas.X690CompSeq
import Asn1Proofs.Lemmas.X690StrictSub
import Asn1Proofs.Lemmas.X690RefDec
/-
  C04 completeness of the code's BER decoder (`BerCodec.dec`) with respect to the reference BER
  decoder of X690.lean, outside the named deviation `dirtyUnusedBits` (`X690.berDeviates`).
-/
namespace Asn1.X690

theorem comp_all (t : Ty) : COMP t :=
  Ty.rec (motive_1 := COMP) (motive_2 := Members.AllO COMP) (motive_3 := Alts.AllO COMP)
    comp_boolean comp_null comp_integer comp_enumerated comp_octetString comp_bitString comp_charString
    (fun root ext adds ihr iha => comp_sequence root ext adds ihr iha)
    (fun e c ih => comp_sequenceOf e c ih)
    (fun root ext adds ihr iha => comp_choice root ext adds ihr iha)
    trivial (fun _ _ _ _ iht ihr => ⟨iht, ihr⟩)
    trivial (fun _ _ _ iht ihr => ⟨iht, ihr⟩) t

/-- what the strict reference decoder accepts (in any tagging context, whatever follows), the
code's BER decoder decodes to the same value, consuming the same octets -/
theorem dec_complete (t : Ty) (tg : Option Nat) (fuel fuelC : Nat) (bs rest extra : Bytes) (v : Val)
    (h : decVS t tg fuel bs = some (v, rest)) (hf : (bs ++ extra).length < fuelC) :
    ∃ k, BerCodec.dec t tg fuelC (bs ++ extra) = .ok (some (v, k, rest ++ extra)) ∧ bs.length = k + rest.length :=
  comp_all t tg fuel fuelC bs rest extra v h hf

theorem complete_strict_with_length (t : Ty) (bs extra : Bytes) (v : Val)
    (h : berDecodeRefStrict t bs = some v) :
    BerCodec.decodeWithLength t (bs ++ extra) = .ok (v, bs.length) := by
  unfold berDecodeRefStrict at h
  cases hd : decVS t none (bs.length + 1) bs with
  | none => simp [hd] at h
  | some x =>
    obtain ⟨v', r⟩ := x
    cases r with
    | cons _ _ => simp [hd] at h
    | nil =>
      simp only [hd, Option.some.injEq] at h
      subst h
      obtain ⟨k, hk, hlen⟩ := dec_complete t none (bs.length + 1) ((bs ++ extra).length + 1) bs [] extra v' hd (by omega)
      unfold BerCodec.decodeWithLength
      rw [hk]
      simp only [List.length_nil, Nat.add_zero] at hlen
      rw [hlen]

theorem complete_strict (t : Ty) (bs : Bytes) (v : Val)
    (h : berDecodeRefStrict t bs = some v) : BerCodec.decode t bs = .ok v := by
  have := complete_strict_with_length t bs [] v h
  rw [List.append_nil] at this
  unfold BerCodec.decode; rw [this]; rfl

/-- C04 `complete`: every valid BER serialisation (per the reference decoder) outside the named
deviations is decoded by the code with the same meaning -/
theorem complete (t : Ty) (bs : Bytes) (v : Val)
    (h : berDecodeRef t bs = some v) (hdev : berDeviates t bs = false) : BerCodec.decode t bs = .ok v :=
  complete_strict t bs v (strict_of_not_deviates t bs v h hdev)

end Asn1.X690

#print axioms Asn1.X690.complete
#print axioms Asn1.X690.complete_strict_with_length
