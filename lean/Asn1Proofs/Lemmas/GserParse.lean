import Asn1Proofs.Lemmas.GserLex
import Asn1Proofs.Lemmas.JsonRoundtrip
/-
  `Gser.parseValue true (Gser.renderV ind sep g) = some g`: every text the writer lays out -- for every
  white-space separator and indent width -- is parsed completely by the RFC 3641 reader, which gives back
  the tree.
-/
namespace Asn1.Gser
open Asn1.Json (isWs skipWs isDigit renderInt renderInt_head skipWs_of_not_ws skipWs_ws_append isWs_of_isDigit)
open Asn1.Jer (hexDigitU)

/-- the identifier of a component, when there is one, is an RFC 3641 identifier -/
def nameOk : Option (List Nat) → Bool
  | some n => isIdent n
  | none => true

mutual
  /-- well-formed trees: words are words, identifiers are identifiers, hexadecimal digits are below 16 -/
  def wfG : GVal → Bool
    | .word w => isWord w
    | .num _ => true
    | .hstr ds => ds.all (fun d => decide (d < 16))
    | .bstr _ => true
    | .str _ => true
    | .braces its => wfItems its
    | .choice id v => isIdent id && wfG v
  def wfItems : List (Option (List Nat) × GVal) → Bool
    | [] => true
    | (nm, v) :: r => nameOk nm && wfG v && wfItems r
end

/-! ### words and identifiers -/

theorem isWord_of_isIdent {w : List Nat} (h : isIdent w = true) : isWord w = true := by
  cases w with
  | nil => simp [isIdent] at h
  | cons c r =>
    simp only [isIdent, Bool.and_eq_true] at h
    simp only [isWord, Bool.and_eq_true]
    exact ⟨⟨isLetter_of_isLower h.1.1, h.1.2⟩, h.2⟩

theorem isWord_parts {w : List Nat} (h : isWord w = true) :
    ∃ c r, w = c :: r ∧ isLetter c = true ∧ (∀ x ∈ w, isWordChar x = true) ∧ hyphensOk w = true := by
  cases w with
  | nil => simp [isWord] at h
  | cons c r =>
    simp only [isWord, Bool.and_eq_true, List.all_eq_true] at h
    exact ⟨c, r, rfl, h.1.1, h.1.2, h.2⟩

theorem isIdent_parts {w : List Nat} (h : isIdent w = true) :
    ∃ c r, w = c :: r ∧ isLower c = true ∧ (∀ x ∈ w, isWordChar x = true) ∧ hyphensOk w = true := by
  cases w with
  | nil => simp [isIdent] at h
  | cons c r =>
    simp only [isIdent, Bool.and_eq_true, List.all_eq_true] at h
    exact ⟨c, r, rfl, h.1.1, h.1.2, h.2⟩

/-- a letter is none of the characters the reader dispatches on before it looks for a word -/
theorem letter_dispatch {c : Nat} (h : isLetter c = true) :
    c ≠ 123 ∧ c ≠ 34 ∧ c ≠ 39 ∧ ¬ (c = 45 ∨ isDigit c = true) ∧ isWs c = false ∧ c ≠ 125 ∧ c ≠ 44 ∧ c ≠ 58 := by
  have := isLetter_cases h
  refine ⟨by omega, by omega, by omega, ?_, ?_, by omega, by omega, by omega⟩
  · simp only [isDigit, Bool.and_eq_true, decide_eq_true_eq]; omega
  · simp only [isWs, Bool.or_eq_false_iff, beq_eq_false_iff_ne]; omega

theorem value_word (cw : Bool) (w rest : List Nat) (hw : isWord w = true) (hr : okFollow rest) (fuel : Nat) :
    value cw (fuel + 1) (w ++ rest) = some (.word w, rest) := by
  obtain ⟨c, r, rfl, hc, hall, hh⟩ := isWord_parts hw
  obtain ⟨d1, d2, d3, d4, _, _, _, _⟩ := letter_dispatch hc
  have hsp := spanWord_append (c :: r) rest hall (okFollow_notWordHead hr)
  rw [List.cons_append] at hsp ⊢
  rw [value, if_neg d1, if_neg d2, if_neg d3, if_neg d4, if_pos hc, hsp]
  simp only [hh, if_true, optWs]
  cases cw with
  | true =>
    simp only [if_true]
    have h2 := hr.2
    cases hs : skipWs rest with
    | nil => rfl
    | cons d r3 =>
      rw [hs] at h2
      simp only at h2
      have : ¬ d = 58 := by omega
      simp only [if_neg this]
  | false =>
    simp only [Bool.false_eq_true, if_false]
    have h1 := okFollow_head hr
    cases rest with
    | nil => rfl
    | cons d r3 =>
      simp only at h1
      have : ¬ d = 58 := by omega
      simp only [if_neg this]

/-! ### the other leaves -/

theorem value_num (cw : Bool) (i : Int) (rest : List Nat) (hr : okFollow rest) (fuel : Nat) :
    value cw (fuel + 1) (renderInt i ++ rest) = some (.num i, rest) := by
  obtain ⟨h, tl, e, hh⟩ := renderInt_head i
  have key := lexNumber_renderInt i rest (okFollow_notDigitHead hr)
  rw [e] at key ⊢
  rw [List.cons_append] at key ⊢
  have hdig : h = 45 ∨ (48 ≤ h ∧ h ≤ 57) := by
    rcases hh with hh | hh
    · exact Or.inl hh
    · simp only [isDigit, Bool.and_eq_true, decide_eq_true_eq] at hh; exact Or.inr hh
  rw [value, if_neg (by omega), if_neg (by omega), if_neg (by omega), if_pos hh, key]

theorem value_hstr (cw : Bool) (ds : List Nat) (hd : ∀ d ∈ ds, d < 16) (rest : List Nat) (fuel : Nat) :
    value cw (fuel + 1) ([39] ++ ds.map hexDigitU ++ [39, 72] ++ rest) = some (.hstr ds, rest) := by
  simp only [List.cons_append, List.nil_append, List.append_assoc]
  rw [value, if_neg (by decide), if_neg (by decide), if_pos rfl]
  exact lexQuoted_hstr ds hd rest

theorem value_bstr (cw : Bool) (bs : List Bool) (rest : List Nat) (fuel : Nat) :
    value cw (fuel + 1) ([39] ++ bs.map bitChar ++ [39, 66] ++ rest) = some (.bstr bs, rest) := by
  simp only [List.cons_append, List.nil_append, List.append_assoc]
  rw [value, if_neg (by decide), if_neg (by decide), if_pos rfl]
  exact lexQuoted_bstr bs rest

theorem value_str (cw : Bool) (cps rest : List Nat) (hr : okFollow rest) (fuel : Nat) :
    value cw (fuel + 1) ([34] ++ cps.flatMap quoteChar ++ [34] ++ rest) = some (.str cps, rest) := by
  simp only [List.cons_append, List.nil_append, List.append_assoc]
  rw [value, if_neg (by decide), if_pos rfl, lexStr_render cps rest (by
    have := okFollow_head hr
    cases rest with
    | nil => trivial
    | cons c r => simp only at this ⊢; omega)]

/-! ### first characters -/

/-- a rendered value is not empty and starts with a character that is neither white space nor one of
`}` `,` `:` -/
theorem renderV_head (ind : Nat) (sep : List Nat) (g : GVal) (hg : wfG g = true) :
    ∃ h tl, renderV ind sep g = h :: tl ∧ isWs h = false ∧ h ≠ 125 ∧ h ≠ 44 ∧ h ≠ 58 := by
  cases g with
  | word w =>
    rw [wfG] at hg
    obtain ⟨c, r, rfl, hc, _, _⟩ := isWord_parts hg
    obtain ⟨_, _, _, _, e1, e2, e3, e4⟩ := letter_dispatch hc
    exact ⟨c, r, by rw [renderV], e1, e2, e3, e4⟩
  | num i =>
    obtain ⟨h, tl, e, hh⟩ := renderInt_head i
    refine ⟨h, tl, by rw [renderV, e], ?_, ?_, ?_, ?_⟩
    · rcases hh with hh | hh
      · subst hh; decide
      · exact isWs_of_isDigit hh
    all_goals
      rcases hh with hh | hh
      · omega
      · simp only [isDigit, Bool.and_eq_true, decide_eq_true_eq] at hh; omega
  | hstr ds => exact ⟨39, _, by rw [renderV]; rfl, by decide, by decide, by decide, by decide⟩
  | bstr bs => exact ⟨39, _, by rw [renderV]; rfl, by decide, by decide, by decide, by decide⟩
  | str cps => exact ⟨34, _, by rw [renderV]; rfl, by decide, by decide, by decide, by decide⟩
  | braces its => exact ⟨123, _, by rw [renderV]; rfl, by decide, by decide, by decide, by decide⟩
  | choice id v =>
    rw [wfG, Bool.and_eq_true] at hg
    obtain ⟨c, r, rfl, hc, _, _⟩ := isIdent_parts hg.1
    obtain ⟨_, _, _, _, e1, e2, e3, e4⟩ := letter_dispatch (isLetter_of_isLower hc)
    exact ⟨c, _, by rw [renderV]; rfl, e1, e2, e3, e4⟩

/-! ### `identifier msp` in front of a component -/

theorem namePrefix_named (n : List Nat) (hn : isIdent n = true) (h : Nat) (tl : List Nat)
    (h1 : isWs h = false) (h2 : h ≠ 125) (h3 : h ≠ 44) (h4 : h ≠ 58) :
    namePrefix (n ++ [32] ++ h :: tl) = some (n, h :: tl) := by
  obtain ⟨c, r, rfl, hc, hall, hh⟩ := isIdent_parts hn
  have hsp := spanWord_append (c :: r) (32 :: h :: tl) hall (by simp only [notWordHead]; decide)
  simp only [List.cons_append, List.nil_append, List.append_assoc] at hsp ⊢
  rw [namePrefix]
  simp only [hc, if_true, hsp, hh]
  rw [show isWs 32 = true by decide]
  simp only [if_true]
  rw [skipWs, if_pos (by decide), skipWs_of_not_ws h tl h1]
  simp only [if_neg (show ¬ (h = 58 ∨ h = 44 ∨ h = 125) by omega)]

/-- a component written without an identifier is not mistaken for a NamedValue -/
theorem namePrefix_unnamed (ind : Nat) (sep : List Nat) (g : GVal) (hg : wfG g = true) (follow : List Nat)
    (hf : okFollow follow) (hne : follow ≠ []) :
    namePrefix (renderV ind sep g ++ follow) = none := by
  have lower_false : ∀ (c : Nat) (r : List Nat), isLower c = false → namePrefix (c :: r) = none := by
    intro c r hc
    rw [namePrefix]
    simp only [hc, Bool.false_eq_true, if_false]
  cases g with
  | word w =>
    rw [wfG] at hg
    obtain ⟨c, r, rfl, hc, hall, hh⟩ := isWord_parts hg
    rw [renderV]
    have hsp := spanWord_append (c :: r) follow hall (okFollow_notWordHead hf)
    rw [List.cons_append] at hsp ⊢
    rw [namePrefix]
    by_cases hl : isLower c = true
    · simp only [hl, if_true, hsp, hh]
      cases follow with
      | nil => exact absurd rfl hne
      | cons x fr =>
        simp only
        by_cases hx : isWs x = true
        · simp only [hx, if_true]
          have h2 := hf.2
          cases hs : skipWs (x :: fr) with
          | nil => rfl
          | cons d r2 =>
            rw [hs] at h2
            simp only at h2 ⊢
            rw [if_pos (by omega)]
        · simp only [hx, Bool.false_eq_true, if_false]
    · simp only [hl, Bool.false_eq_true, if_false]
  | num i =>
    obtain ⟨h, tl, e, hh⟩ := renderInt_head i
    rw [renderV, e, List.cons_append]
    apply lower_false
    simp only [isLower, Bool.and_eq_false_iff, decide_eq_false_iff_not]
    rcases hh with hh | hh
    · omega
    · simp only [isDigit, Bool.and_eq_true, decide_eq_true_eq] at hh; omega
  | hstr ds => rw [renderV]; exact lower_false 39 _ (by decide)
  | bstr bs => rw [renderV]; exact lower_false 39 _ (by decide)
  | str cps => rw [renderV]; exact lower_false 34 _ (by decide)
  | braces its => rw [renderV]; exact lower_false 123 _ (by decide)
  | choice id v =>
    rw [wfG, Bool.and_eq_true] at hg
    obtain ⟨c, r, rfl, hc, hall, hh⟩ := isIdent_parts hg.1
    rw [renderV]
    have hsp := spanWord_append (c :: r) (32 :: 58 :: 32 :: (renderV ind sep v ++ follow)) hall
      (by simp only [notWordHead]; decide)
    simp only [List.cons_append, List.nil_append, List.append_assoc] at hsp ⊢
    rw [namePrefix]
    simp only [hc, if_true, hsp, hh]
    rw [show isWs 32 = true by decide]
    simp only [if_true]
    rw [skipWs, if_pos (by decide), skipWs_of_not_ws 58 _ (by decide)]
    simp

/-! ### the main induction -/

theorem commaIf_nil : commaIf ([] : List (Option (List Nat) × GVal)) = [] := rfl
theorem commaIf_cons (x : Option (List Nat) × GVal) (xs : List (Option (List Nat) × GVal)) :
    commaIf (x :: xs) = [44] := rfl

/-- a component (with or without identifier) starts with a character that is not white space and not `}` -/
theorem item_head (ind : Nat) (msep : List Nat) (nm : Option (List Nat)) (v : GVal)
    (hn : nameOk nm = true) (hv : wfG v = true) :
    ∃ h tl, renderName nm ++ renderV ind msep v = h :: tl ∧ isWs h = false ∧ h ≠ 125 := by
  cases nm with
  | none =>
    obtain ⟨h, tl, e, h1, h2, _, _⟩ := renderV_head ind msep v hv
    exact ⟨h, tl, by rw [renderName, List.nil_append, e], h1, h2⟩
  | some n =>
    obtain ⟨c, r, rfl, hc, _, _⟩ := isIdent_parts hn
    obtain ⟨_, _, _, _, e1, e2, _, _⟩ := letter_dispatch (isLetter_of_isLower hc)
    exact ⟨c, _, by rw [renderName]; rfl, e1, e2⟩

theorem replicate_ws (sep : List Nat) (ind : Nat) (hs : ∀ c ∈ sep, isWs c = true) :
    ∀ c ∈ sep ++ List.replicate ind 32, isWs c = true := by
  intro c hc
  simp only [List.mem_append, List.mem_replicate] at hc
  rcases hc with hc | ⟨_, hc⟩
  · exact hs c hc
  · subst hc; decide

mutual
  /-- `cw = true`: the X.680 reading (white space around `:`); `cw = false`: the strict ABNF, which reads
  every text without a ChoiceValue -/
  theorem value_render (cw : Bool) (ind : Nat) (g : GVal) (hg : wfG g = true) (hc : cw = true ∨ hasChoiceText g = false)
      (sep rest : List Nat)
      (hs : ∀ c ∈ sep, isWs c = true) (hr : okFollow rest) (fuel : Nat)
      (hf : 2 * (renderV ind sep g ++ rest).length + 1 ≤ fuel) :
      value cw fuel (renderV ind sep g ++ rest) = some (g, rest) := by
    obtain ⟨f, rfl⟩ : ∃ f, fuel = f + 1 := ⟨fuel - 1, by omega⟩
    match g, hg, hc with
    | .word w, hg, _ => rw [renderV]; rw [wfG] at hg; exact value_word cw w rest hg hr f
    | .num i, _, _ => rw [renderV]; exact value_num cw i rest hr f
    | .hstr ds, hg, _ =>
      rw [renderV]; rw [wfG] at hg
      exact value_hstr cw ds (by simpa using hg) rest f
    | .bstr bs, _, _ => rw [renderV]; exact value_bstr cw bs rest f
    | .str cps, _, _ => rw [renderV]; exact value_str cw cps rest hr f
    | .braces [], _, _ =>
      rw [renderV, renderItems]
      simp only [List.cons_append, List.nil_append, List.append_assoc]
      rw [value, if_pos rfl, skipWs_ws_append sep _ hs, skipWs_of_not_ws 125 _ (by decide)]
      simp
    | .braces ((nm, v) :: xs), hg, hc =>
      rw [wfG] at hg
      rw [hasChoiceText] at hc
      have hl : wfItems ((nm, v) :: xs) = true := hg
      rw [wfItems, Bool.and_eq_true, Bool.and_eq_true] at hg
      have hm := replicate_ws sep ind hs
      rw [renderV] at hf ⊢
      have ih := items_render cw ind ((nm, v) :: xs) (List.cons_ne_nil _ _) hl hc (sep ++ List.replicate ind 32) sep rest
        hm hs f (by
          simp only [List.append_assoc, List.cons_append, List.nil_append, List.length_append, List.length_cons] at hf ⊢
          omega)
      simp only at ih
      rw [renderItems]
      obtain ⟨h, tl, e, h1, h2⟩ := item_head ind (sep ++ List.replicate ind 32) nm v hg.1.1 hg.1.2
      simp only [List.cons_append, List.nil_append, List.append_assoc] at ih ⊢
      rw [value, if_pos rfl, skipWs_ws_append _ _ hs, skipWs_ws_append _ _ (by
        intro c hc; simp only [List.mem_replicate] at hc; rw [hc.2]; decide)]
      rw [← List.append_assoc (renderName nm)] at ih ⊢
      rw [e] at ih ⊢
      rw [List.cons_append] at ih ⊢
      rw [skipWs_of_not_ws h _ h1]
      simp only [if_neg h2, ih]
    | .choice id v, hg, hc =>
      have hcw : cw = true := by
        rcases hc with hc | hc
        · exact hc
        · rw [hasChoiceText] at hc; cases hc
      subst hcw
      rw [wfG, Bool.and_eq_true] at hg
      obtain ⟨c, r, rfl, hc, hall, hh⟩ := isIdent_parts hg.1
      obtain ⟨d1, d2, d3, d4, _, _, _, _⟩ := letter_dispatch (isLetter_of_isLower hc)
      rw [renderV] at hf ⊢
      obtain ⟨h, tl, e, h1, _, _, _⟩ := renderV_head ind sep v hg.2
      have hsp := spanWord_append (c :: r) (32 :: 58 :: 32 :: (renderV ind sep v ++ rest)) hall
        (by simp only [notWordHead]; decide)
      have ih := value_render true ind v hg.2 (Or.inl rfl) sep rest hs hr f (by
        simp only [List.append_assoc, List.cons_append, List.nil_append, List.length_append, List.length_cons] at hf ⊢
        omega)
      simp only [List.cons_append, List.nil_append, List.append_assoc] at hsp ⊢
      rw [value, if_neg d1, if_neg d2, if_neg d3, if_neg d4, if_pos (isLetter_of_isLower hc), hsp]
      simp only [hh, if_true, optWs]
      rw [skipWs, if_pos (by decide), skipWs_of_not_ws 58 _ (by decide)]
      simp only [if_true, hg.1]
      rw [e] at ih ⊢
      rw [List.cons_append] at ih ⊢
      rw [skipWs, if_pos (by decide), skipWs_of_not_ws h _ h1, ih]
  /-- the components of a non-empty `{ … }` followed by the closing white space and brace -/
  theorem items_render (cw : Bool) (ind : Nat) (l : List (Option (List Nat) × GVal)) (hne : l ≠ []) (hl : wfItems l = true)
      (hc : cw = true ∨ hasChoiceItems l = false)
      (msep w rest : List Nat) (hm : ∀ c ∈ msep, isWs c = true) (hw : ∀ c ∈ w, isWs c = true) (fuel : Nat)
      (hf : 2 * (renderItems ind msep l ++ (w ++ 125 :: rest)).length + 2 ≤ fuel) :
      match (generalizing := false) l with
      | [] => True
      | (nm, v) :: xs =>
        items cw fuel (renderName nm ++ (renderV ind msep v ++ (commaIf xs ++ (renderItems ind msep xs ++
          (w ++ 125 :: rest))))) = some (l, rest) := by
    match l, hne, hl, hc with
    | [], hne, _, _ => exact absurd rfl hne
    | (nm, v) :: xs, _, hl, hc =>
      simp only
      have hcv : cw = true ∨ hasChoiceText v = false := by
        rcases hc with hc | hc
        · exact Or.inl hc
        · rw [hasChoiceItems, Bool.or_eq_false_iff] at hc; exact Or.inr hc.1
      have hcxs : cw = true ∨ hasChoiceItems xs = false := by
        rcases hc with hc | hc
        · exact Or.inl hc
        · rw [hasChoiceItems, Bool.or_eq_false_iff] at hc; exact Or.inr hc.2
      rw [wfItems, Bool.and_eq_true, Bool.and_eq_true] at hl
      obtain ⟨⟨hn, hv⟩, hxs⟩ := hl
      rw [renderItems] at hf
      simp only [List.append_assoc, List.length_append] at hf
      obtain ⟨f, rfl⟩ : ∃ f, fuel = f + 1 := ⟨fuel - 1, by omega⟩
      -- what follows the value of this component
      have hfollow : okFollow (commaIf xs ++ (renderItems ind msep xs ++ (w ++ 125 :: rest))) := by
        cases xs with
        | nil => rw [commaIf_nil, renderItems, List.nil_append, List.nil_append]; exact okFollow_close w rest hw
        | cons y ys => rw [commaIf_cons]; exact okFollow_comma _
      have hfne : commaIf xs ++ (renderItems ind msep xs ++ (w ++ 125 :: rest)) ≠ [] := by
        cases xs with
        | nil => rw [commaIf_nil, renderItems]; simp
        | cons y ys => rw [commaIf_cons]; simp
      have hval := value_render cw ind v hv hcv msep _ hm hfollow f (by
        simp only [List.length_append]
        omega)
      obtain ⟨h, tl, e, h1, h2, h3, h4⟩ := renderV_head ind msep v hv
      rw [items]
      have hnp : itemStart (renderName nm ++ (renderV ind msep v ++ (commaIf xs ++ (renderItems ind msep xs ++
            (w ++ 125 :: rest)))))
          = (nm, renderV ind msep v ++ (commaIf xs ++ (renderItems ind msep xs ++ (w ++ 125 :: rest)))) := by
        unfold itemStart
        cases nm with
        | none =>
          rw [renderName, List.nil_append, namePrefix_unnamed ind msep v hv _ hfollow hfne]
        | some n =>
          rw [renderName, e]
          have := namePrefix_named n hn h (tl ++ (commaIf xs ++ (renderItems ind msep xs ++ (w ++ 125 :: rest)))) h1 h2 h3 h4
          simp only [List.append_assoc, List.cons_append, List.nil_append] at this ⊢
          rw [this]
      rw [hnp]
      simp only [hval]
      match xs, hxs with
      | [], _ =>
        rw [commaIf_nil, renderItems, List.nil_append, List.nil_append, skipWs_ws_append w _ hw,
          skipWs_of_not_ws 125 _ (by decide)]
        simp
      | (nm', v') :: ys, hys =>
        have hys' := hys
        rw [wfItems, Bool.and_eq_true, Bool.and_eq_true] at hys'
        have ih := items_render cw ind ((nm', v') :: ys) (List.cons_ne_nil _ _) hys hcxs msep w rest hm hw f (by
          rw [commaIf_cons] at hf
          simp only [List.length_append, List.length_cons, List.length_nil] at hf ⊢
          have := (renderV_head ind msep v hv)
          obtain ⟨h', tl', e', _⟩ := this
          have hlen : 1 ≤ (renderV ind msep v).length := by rw [e']; simp
          omega)
        simp only at ih
        rw [commaIf_cons, renderItems]
        simp only [List.cons_append, List.nil_append, List.append_assoc]
        rw [skipWs_of_not_ws 44 _ (by decide)]
        simp only [if_true]
        rw [skipWs_ws_append msep _ hm]
        obtain ⟨h', tl', e', h1', _⟩ := item_head ind msep nm' v' hys'.1.1 hys'.1.2
        rw [← List.append_assoc (renderName nm')] at ih ⊢
        rw [e'] at ih ⊢
        rw [List.cons_append] at ih ⊢
        rw [skipWs_of_not_ws h' _ h1', ih]
end

/-! ### complete texts -/

/-- **the writer's layout of a well-formed tree is parsed completely and gives back the tree**, for every
white-space separator and indent width, also after leading white space -/
theorem parseValue_ws_renderV (cw : Bool) (ind : Nat) (sep : List Nat) (g : GVal) (hg : wfG g = true)
    (hc : cw = true ∨ hasChoiceText g = false)
    (hs : ∀ c ∈ sep, isWs c = true) (w : List Nat) (hw : ∀ c ∈ w, isWs c = true) :
    parseValue cw (w ++ renderV ind sep g) = some g := by
  obtain ⟨h, tl, e, h1, _, _, _⟩ := renderV_head ind sep g hg
  have key := value_render cw ind g hg hc sep [] hs okFollow_nil (2 * (w ++ renderV ind sep g).length + 2) (by
    simp only [List.append_nil, List.length_append]; omega)
  rw [List.append_nil] at key
  rw [parseValue, skipWs_ws_append w _ hw]
  have : skipWs (renderV ind sep g) = renderV ind sep g := by
    rw [e]; exact skipWs_of_not_ws h _ h1
  rw [this, key]
  simp [skipWs]

theorem parseValue_render_gen (cw : Bool) (indent : Option Nat) (g : GVal) (hg : wfG g = true)
    (hc : cw = true ∨ hasChoiceText g = false) :
    parseValue cw (render indent g) = some g := by
  cases indent with
  | none =>
    exact parseValue_ws_renderV cw 0 [32] g hg hc (by intro c hc; simp at hc; subst hc; decide) [] (by simp)
  | some n =>
    exact parseValue_ws_renderV cw n [10] g hg hc (by intro c hc; simp at hc; subst hc; decide) [] (by simp)

theorem parseValue_render (indent : Option Nat) (g : GVal) (hg : wfG g = true) :
    parseValue true (render indent g) = some g :=
  parseValue_render_gen true indent g hg (Or.inl rfl)

theorem render_head (indent : Option Nat) (g : GVal) (hg : wfG g = true) :
    ∃ h tl, render indent g = h :: tl ∧ isWs h = false := by
  cases indent with
  | none => obtain ⟨h, tl, e, h1, _⟩ := renderV_head 0 [32] g hg; exact ⟨h, tl, e, h1⟩
  | some n => obtain ⟨h, tl, e, h1, _⟩ := renderV_head n [10] g hg; exact ⟨h, tl, e, h1⟩

/-- `lstrip(' ')` does nothing: a rendered value never starts with a space -/
theorem lstrip_render (indent : Option Nat) (g : GVal) (hg : wfG g = true) :
    lstrip (render indent g) = render indent g := by
  obtain ⟨h, tl, e, h1⟩ := render_head indent g hg
  rw [e, lstrip, if_neg (by intro h32; subst h32; simp [isWs] at h1)]

/-! ### the value assignment around the value -/

theorem lowerAscii_wordChar {c : Nat} (h : isWordChar c = true) : isWordChar (lowerAscii c) = true := by
  have := isWordChar_cases h
  unfold lowerAscii
  split
  · simp only [isWordChar, isLetter, isLower, isUpper, isDigit, Bool.or_eq_true, Bool.and_eq_true,
      decide_eq_true_eq, beq_iff_eq]; omega
  · exact h

theorem lowerAscii_eq_45 (c : Nat) : (lowerAscii c == 45) = (c == 45) := by
  unfold lowerAscii
  split
  · rename_i h
    have h1 : (c + 32 == 45) = false := by simp; omega
    have h2 : (c == 45) = false := by simp; omega
    rw [h1, h2]
  · rfl

theorem lowerAscii_ne_45 (c : Nat) : (lowerAscii c != 45) = (c != 45) := by
  simp only [bne, lowerAscii_eq_45]

theorem hyphensOk_lower (w : List Nat) : hyphensOk (w.map lowerAscii) = hyphensOk w := by
  induction w with
  | nil => rfl
  | cons c r ih =>
    cases r with
    | nil => simp only [List.map_cons, List.map_nil, hyphensOk, lowerAscii_ne_45]
    | cons d r' =>
      simp only [List.map_cons] at ih ⊢
      rw [hyphensOk, hyphensOk, ih]
      simp only [lowerAscii_eq_45]

theorem isIdent_lower_of_isTypeRef {w : List Nat} (h : isTypeRef w = true) : isIdent (w.map lowerAscii) = true := by
  cases w with
  | nil => simp [isTypeRef] at h
  | cons c r =>
    simp only [isTypeRef, Bool.and_eq_true, List.all_eq_true] at h
    obtain ⟨⟨hu, hall⟩, hh⟩ := h
    have hl : isLower (lowerAscii c) = true := by
      simp only [isUpper, Bool.and_eq_true, decide_eq_true_eq] at hu
      simp only [lowerAscii, if_pos hu, isLower, Bool.and_eq_true, decide_eq_true_eq]
      omega
    have hhy := hyphensOk_lower (c :: r)
    rw [hh] at hhy
    have hallL : ∀ x ∈ (c :: r).map lowerAscii, isWordChar x = true := by
      intro x hx
      simp only [List.mem_map] at hx
      obtain ⟨y, hy, rfl⟩ := hx
      exact lowerAscii_wordChar (hall y hy)
    simp only [List.map_cons] at hhy hallL ⊢
    simp only [isIdent, hl, hhy, Bool.true_and, Bool.and_true, List.all_eq_true]
    exact hallL

theorem isTypeRef_parts {w : List Nat} (h : isTypeRef w = true) :
    ∃ c r, w = c :: r ∧ isUpper c = true ∧ (∀ x ∈ w, isWordChar x = true) ∧ hyphensOk w = true := by
  cases w with
  | nil => simp [isTypeRef] at h
  | cons c r =>
    simp only [isTypeRef, Bool.and_eq_true, List.all_eq_true] at h
    exact ⟨c, r, rfl, h.1.1, h.1.2, h.2⟩

/-- the whole text `valuename Typename ::= value` is read as a value assignment -/
theorem parseAssignment_render (cw : Bool) (tn : List Nat) (htn : isTypeRef tn = true) (indent : Option Nat) (g : GVal)
    (hg : wfG g = true) (hcc : cw = true ∨ hasChoiceText g = false) :
    parseAssignment cw (tn.map lowerAscii ++ [32] ++ tn ++ [32] ++ kAssign ++ [32] ++ lstrip (render indent g))
      = some (tn.map lowerAscii, tn, g) := by
  rw [lstrip_render indent g hg]
  have hvn := isIdent_lower_of_isTypeRef htn
  obtain ⟨c, r, hc, hlow, hall, _⟩ := isIdent_parts hvn
  obtain ⟨_, _, _, _, hws, _, _, _⟩ := letter_dispatch (isLetter_of_isLower hlow)
  obtain ⟨C, R, hC, hup, hAll, _⟩ := isTypeRef_parts htn
  have hCws : isWs C = false := by
    simp only [isUpper, Bool.and_eq_true, decide_eq_true_eq] at hup
    simp only [isWs, Bool.or_eq_false_iff, beq_eq_false_iff_ne]; omega
  have hval : parseValue cw ([32] ++ render indent g) = some g := by
    cases indent with
    | none =>
      exact parseValue_ws_renderV cw 0 [32] g hg hcc (by intro c hc; simp at hc; subst hc; decide) [32]
        (by intro c hc; simp at hc; subst hc; decide)
    | some n =>
      exact parseValue_ws_renderV cw n [10] g hg hcc (by intro c hc; simp at hc; subst hc; decide) [32]
        (by intro c hc; simp at hc; subst hc; decide)
  have sp1 := spanWord_append (tn.map lowerAscii) (32 :: (tn ++ 32 :: (kAssign ++ 32 :: render indent g))) hall
    (by simp only [notWordHead]; decide)
  have sp2 := spanWord_append tn (32 :: (kAssign ++ 32 :: render indent g)) hAll
    (by simp only [notWordHead]; decide)
  simp only [List.append_assoc, List.cons_append, List.nil_append] at sp1 sp2 hval ⊢
  unfold parseAssignment
  have hs0 : skipWs (tn.map lowerAscii ++ 32 :: (tn ++ 32 :: (kAssign ++ 32 :: render indent g)))
      = tn.map lowerAscii ++ 32 :: (tn ++ 32 :: (kAssign ++ 32 :: render indent g)) := by
    rw [hc, List.cons_append]; exact skipWs_of_not_ws c _ hws
  rw [hs0, sp1]
  simp only [hvn, if_true]
  have hs1 : skipWs (32 :: (tn ++ 32 :: (kAssign ++ 32 :: render indent g)))
      = tn ++ 32 :: (kAssign ++ 32 :: render indent g) := by
    rw [skipWs, if_pos (by decide), hC, List.cons_append]; exact skipWs_of_not_ws C _ hCws
  rw [hs1, sp2]
  have hne : (32 :: (tn ++ 32 :: (kAssign ++ 32 :: render indent g))) ≠ tn ++ 32 :: (kAssign ++ 32 :: render indent g) := by
    intro e
    have := congrArg List.length e
    simp only [List.length_cons, List.length_append] at this
    omega
  rw [if_pos ⟨htn, hne⟩]
  have hs2 : skipWs (32 :: (kAssign ++ 32 :: render indent g)) = 58 :: 58 :: 61 :: 32 :: render indent g := by
    rw [skipWs, if_pos (by decide)]; exact skipWs_of_not_ws 58 _ (by decide)
  simp only [hs2]
  have hp : kAssign.isPrefixOf (58 :: 58 :: 61 :: 32 :: render indent g) = true := by
    simp [kAssign, List.isPrefixOf]
  rw [if_pos hp]
  simp only [List.drop_succ_cons, List.drop_zero, hval]

end Asn1.Gser
