import Asn1Proofs.Lemmas.CCursorBits3
/-
  C09, functional part (continued): B5 (`readBytesVal`, `valU16/32/64`) and B6 (round trips at the
  pure level, signed offset tricks).
-/
set_option linter.unusedSimpArgs false
namespace Asn1.CCursor
open Asn1

/-! ### one iteration of the unaligned loop of `decoder_read_bytes` -/

/-- the byte assembled from the two source bytes straddling an unaligned position -/
theorem getByte_unaligned (src : Mem) (B pib : Nat) (h0 : 0 < pib) (h8 : pib < 8) :
    natToBits 8 (UInt8.ofNat (src[B]!.toNat <<< pib)
        ||| UInt8.ofNat (src[B + 1]!.toNat >>> (8 - pib))).toNat
      = bitsFrom src (8 * B + pib) 8 := by
  apply List.ext_getElem
  · simp
  · intro k h1 h2
    have hk : k < 8 := by simpa using h2
    rw [bitsFrom_getElem, natToBits_getElem, UInt8.toNat_or, Nat.testBit_or, UInt8.toNat_ofNat',
      UInt8.toNat_ofNat', Nat.testBit_mod_two_pow, Nat.testBit_mod_two_pow, Nat.testBit_shiftLeft,
      Nat.testBit_shiftRight, getBit_def]
    have : decide (8 - 1 - k < 8) = true := by simp; omega
    rw [this, Bool.true_and, Bool.true_and]
    by_cases hlo : pib + k < 8
    · have e1 : (8 * B + pib + k) / 8 = B := by omega
      have e2 : decide (8 - 1 - k ≥ pib) = true := by simp; omega
      rw [e1, e2, Bool.true_and, byte_testBit_ge src[B + 1]! (8 - pib + (8 - 1 - k)) (by omega),
        Bool.or_false]
      congr 1; omega
    · have e1 : (8 * B + pib + k) / 8 = B + 1 := by omega
      have e2 : decide (8 - 1 - k ≥ pib) = false := by simp; omega
      rw [e1, e2, Bool.false_and, Bool.false_or]
      congr 1; omega

theorem pureReadBytesLoop_succ (src : Mem) (bytePos pib n i : Nat) (dst : Mem) (hi : i < dst.size) :
    pureReadBytesLoop src bytePos pib (n + 1) i dst
      = pureReadBytesLoop src bytePos pib n (i + 1)
          (dst.set! i (UInt8.ofNat (src[bytePos + i]!.toNat <<< pib)
            ||| UInt8.ofNat (src[bytePos + i + 1]!.toNat >>> (8 - pib)))) := by
  simp only [pureReadBytesLoop]
  rw [get_set!_same _ _ _ hi]
  congr 1
  apply Array.ext
  · simp
  · intro j h1 h2
    simp [Array.getElem_setIfInBounds]

theorem pureReadBytesLoop_spec (src : Mem) (bytePos pib : Nat) (h0 : 0 < pib) (h8 : pib < 8) :
    ∀ (n i : Nat) (dst : Mem), i + n ≤ dst.size →
      (pureReadBytesLoop src bytePos pib n i dst).size = dst.size
      ∧ (∀ k, k < n → natToBits 8 (pureReadBytesLoop src bytePos pib n i dst)[i + k]!.toNat
            = bitsFrom src (8 * (bytePos + i + k) + pib) 8)
      ∧ (∀ j, j < i ∨ i + n ≤ j → (pureReadBytesLoop src bytePos pib n i dst)[j]! = dst[j]!) := by
  intro n
  induction n with
  | zero => intro i dst _; simp [pureReadBytesLoop]
  | succ n ih =>
    intro i dst hsz
    rw [pureReadBytesLoop_succ _ _ _ _ _ _ (by omega)]
    generalize hb : (UInt8.ofNat (src[bytePos + i]!.toNat <<< pib)
            ||| UInt8.ofNat (src[bytePos + i + 1]!.toNat >>> (8 - pib))) = b
    have hbits := getByte_unaligned src (bytePos + i) pib h0 h8
    rw [hb] at hbits
    obtain ⟨h1, h2, h3⟩ := ih (i + 1) (dst.set! i b) (by rw [size_set!]; omega)
    refine ⟨by rw [h1, size_set!], ?_, ?_⟩
    · intro k hk
      cases k with
      | zero =>
        show natToBits 8 (pureReadBytesLoop src bytePos pib n (i + 1) (dst.set! i b))[i]!.toNat
          = bitsFrom src (8 * (bytePos + i) + pib) 8
        rw [h3 i (by omega), get_set!_same _ _ _ (by omega), hbits]
      | succ k =>
        have := h2 k (by omega)
        rw [show i + 1 + k = i + (k + 1) by omega,
          show bytePos + (i + 1) + k = bytePos + i + (k + 1) by omega] at this
        exact this
    · intro j hj
      rw [h3 j (by omega), get_set!_ne _ _ _ _ (by omega)]

/-! ### B5: `readBytesVal` -/

/-- B5: `decoder_read_bytes(dst, n)` at bit position `p`.  (No assumption on the size of `buf` is
needed at this level: `getBit` and the unchecked reads agree outside the buffer as well.) -/
theorem readBytesVal_spec (buf : Mem) (p : Nat) (dst : Mem) (n : Nat) (hn : n ≤ dst.size) :
    (∀ i, i < n → natToBits 8 (readBytesVal buf p dst n)[i]!.toNat = bitsFrom buf (p + 8 * i) 8)
    ∧ (∀ j, n ≤ j → (readBytesVal buf p dst n)[j]! = dst[j]!)
    ∧ (readBytesVal buf p dst n).size = dst.size := by
  unfold readBytesVal
  by_cases hal : p % 8 = 0
  · rw [if_pos hal]
    obtain ⟨h1, h2, h3⟩ := pureMemcpy_spec buf n dst 0 (p / 8) (by omega)
    refine ⟨?_, ?_, h1⟩
    · intro i hi
      have := h2 i hi
      rw [Nat.zero_add] at this
      rw [this, ← bitsFrom_byte]
      congr 1; omega
    · intro j hj
      exact h3 j (by omega)
  · rw [if_neg hal]
    obtain ⟨h1, h2, h3⟩ := pureReadBytesLoop_spec buf (p / 8) (p % 8) (by omega) (by omega) n 0 dst
      (by omega)
    refine ⟨?_, ?_, h1⟩
    · intro i hi
      have := h2 i hi
      rw [Nat.zero_add] at this
      rw [this]
      congr 1; omega
    · intro j hj
      exact h3 j (by omega)

/-- the bytes read are the next `8 * n` bits of the buffer -/
theorem readBytesVal_bits (buf : Mem) (p : Nat) (dst : Mem) (n : Nat) (hn : n ≤ dst.size) :
    bytesToBits (((readBytesVal buf p dst n).toList.take n).map UInt8.toNat) = bitsFrom buf p (8 * n) := by
  obtain ⟨h1, _, h3⟩ := readBytesVal_spec buf p dst n hn
  rw [bytes_take_eq _ n (by omega)]
  exact (bitsFrom_of_bytes buf p (fun i => (readBytesVal buf p dst n)[i]!.toNat) n
    (fun i hi => (h1 i hi).symm)).symm

/-! ### B5: `valU16/32/64` -/

/-- `|||` of a multiple of `2 ^ k` and a number below `2 ^ k` is `+` -/
theorem or_eq_add (x y k : Nat) (hx : x % 2 ^ k = 0) (hy : y < 2 ^ k) : x ||| y = x + y := by
  have := Nat.shiftLeft_add_eq_or_of_lt hy (x / 2 ^ k)
  rw [Nat.shiftLeft_eq] at this
  have e : x / 2 ^ k * 2 ^ k = x := by
    have := Nat.div_add_mod x (2 ^ k)
    rw [hx, Nat.add_zero, Nat.mul_comm] at this
    exact this
  rw [e] at this
  exact this.symm

theorem valU16_toNat (m : Mem) :
    (valU16 m).toNat = bitsToNat (bytesToBits [m[0]!.toNat, m[1]!.toNat]) := by
  have h0 := m[0]!.toNat_lt
  have h1 := m[1]!.toNat_lt
  simp only [valU16, UInt16.toNat_ofNat', bytesToBits, List.flatMap_cons, List.flatMap_nil,
    List.append_nil, bitsToNat_append, bitsToNat_natToBits, natToBits_length, Nat.shiftLeft_eq]
  rw [or_eq_add _ _ 8 (by omega) (by omega)]
  omega

theorem or4 (a b c d : Nat) (ha : a < 2 ^ 8) (hb : b < 2 ^ 8) (hc : c < 2 ^ 8) (hd : d < 2 ^ 8) :
    a * 16777216 % 4294967296 ||| b * 65536 % 4294967296 ||| c * 256 % 4294967296 ||| d
      = a * 16777216 + b * 65536 + c * 256 + d := by
  rw [Nat.mod_eq_of_lt (by omega : a * 16777216 < 4294967296),
    Nat.mod_eq_of_lt (by omega : b * 65536 < 4294967296),
    Nat.mod_eq_of_lt (by omega : c * 256 < 4294967296),
    or_eq_add (a * 16777216) (b * 65536) 24 (by omega) (by omega),
    or_eq_add (a * 16777216 + b * 65536) (c * 256) 16 (by omega) (by omega),
    or_eq_add (a * 16777216 + b * 65536 + c * 256) d 8 (by omega) (by omega)]

theorem or8 (a b c d e f g h : Nat) (ha : a < 2 ^ 8) (hb : b < 2 ^ 8) (hc : c < 2 ^ 8)
    (hd : d < 2 ^ 8) (he : e < 2 ^ 8) (hf : f < 2 ^ 8) (hg : g < 2 ^ 8) (hh : h < 2 ^ 8) :
    a * 72057594037927936 % 18446744073709551616 ||| b * 281474976710656 % 18446744073709551616
      ||| c * 1099511627776 % 18446744073709551616 ||| d * 4294967296 % 18446744073709551616
      ||| e * 16777216 % 18446744073709551616 ||| f * 65536 % 18446744073709551616
      ||| g * 256 % 18446744073709551616 ||| h
      = a * 72057594037927936 + b * 281474976710656 + c * 1099511627776 + d * 4294967296
        + e * 16777216 + f * 65536 + g * 256 + h := by
  rw [Nat.mod_eq_of_lt (by omega : a * 72057594037927936 < 18446744073709551616),
    Nat.mod_eq_of_lt (by omega : b * 281474976710656 < 18446744073709551616),
    Nat.mod_eq_of_lt (by omega : c * 1099511627776 < 18446744073709551616),
    Nat.mod_eq_of_lt (by omega : d * 4294967296 < 18446744073709551616),
    Nat.mod_eq_of_lt (by omega : e * 16777216 < 18446744073709551616),
    Nat.mod_eq_of_lt (by omega : f * 65536 < 18446744073709551616),
    Nat.mod_eq_of_lt (by omega : g * 256 < 18446744073709551616),
    or_eq_add (a * 72057594037927936) (b * 281474976710656) 56 (by omega) (by omega),
    or_eq_add (a * 72057594037927936 + b * 281474976710656) (c * 1099511627776) 48
      (by omega) (by omega),
    or_eq_add (a * 72057594037927936 + b * 281474976710656 + c * 1099511627776) (d * 4294967296) 40
      (by omega) (by omega),
    or_eq_add (a * 72057594037927936 + b * 281474976710656 + c * 1099511627776 + d * 4294967296)
      (e * 16777216) 32 (by omega) (by omega),
    or_eq_add (a * 72057594037927936 + b * 281474976710656 + c * 1099511627776 + d * 4294967296
      + e * 16777216) (f * 65536) 24 (by omega) (by omega),
    or_eq_add (a * 72057594037927936 + b * 281474976710656 + c * 1099511627776 + d * 4294967296
      + e * 16777216 + f * 65536) (g * 256) 16 (by omega) (by omega),
    or_eq_add (a * 72057594037927936 + b * 281474976710656 + c * 1099511627776 + d * 4294967296
      + e * 16777216 + f * 65536 + g * 256) h 8 (by omega) (by omega)]

theorem valU32_toNat (m : Mem) :
    (valU32 m).toNat
      = bitsToNat (bytesToBits [m[0]!.toNat, m[1]!.toNat, m[2]!.toNat, m[3]!.toNat]) := by
  have h0 := m[0]!.toNat_lt
  have h1 := m[1]!.toNat_lt
  have h2 := m[2]!.toNat_lt
  have h3 := m[3]!.toNat_lt
  simp only [valU32, UInt32.toNat_or, UInt32.toNat_shiftLeft, UInt8.toNat_toUInt32,
    bytesToBits, List.flatMap_cons, List.flatMap_nil,
    List.append_nil, bitsToNat_append, bitsToNat_natToBits, natToBits_length, List.length_append,
    Nat.shiftLeft_eq, UInt32.reduceToNat, Nat.reduceMod, Nat.reducePow, Nat.reduceAdd]
  rw [or4 _ _ _ _ h0 h1 h2 h3]
  omega

theorem valU64_toNat (m : Mem) :
    (valU64 m).toNat
      = bitsToNat (bytesToBits [m[0]!.toNat, m[1]!.toNat, m[2]!.toNat, m[3]!.toNat,
          m[4]!.toNat, m[5]!.toNat, m[6]!.toNat, m[7]!.toNat]) := by
  have h0 := m[0]!.toNat_lt
  have h1 := m[1]!.toNat_lt
  have h2 := m[2]!.toNat_lt
  have h3 := m[3]!.toNat_lt
  have h4 := m[4]!.toNat_lt
  have h5 := m[5]!.toNat_lt
  have h6 := m[6]!.toNat_lt
  have h7 := m[7]!.toNat_lt
  simp only [valU64, UInt64.toNat_or, UInt64.toNat_shiftLeft, UInt8.toNat_toUInt64,
    bytesToBits, List.flatMap_cons, List.flatMap_nil,
    List.append_nil, bitsToNat_append, bitsToNat_natToBits, natToBits_length, List.length_append,
    Nat.shiftLeft_eq, UInt64.reduceToNat, Nat.reduceMod, Nat.reducePow, Nat.reduceAdd]
  rw [or8 _ _ _ _ _ _ _ _ h0 h1 h2 h3 h4 h5 h6 h7]
  omega

end Asn1.CCursor
