import Asn1Proofs.Lemmas.UperDefs
/-
  Machine-checked refutation of the original statement of `Asn1.Uper.roundtrip`
  (i.e. without the hypothesis `t.nsOk = true`).

  The counterexample is an extensible ENUMERATED with one root item and `2^131072 + 1` additions; the
  value is the last addition (index `2^131072`).  `encNsnnwn` needs `16385` octets for that index
  and `lenDet 16385` is the fragment marker `0xc1` standing for `16384`, so the decoder reads one
  octet too few.  The witness is far too large to `#eval`; it is handled symbolically.
-/
set_option linter.unusedSimpArgs false
namespace Asn1.Uper

def cxName (i : Nat) : String := String.ofList (List.replicate (i + 1) 'a')

theorem cxName_inj {i j : Nat} (h : cxName i = cxName j) : i = j := by
  have := congrArg (fun s => s.toList.length) h
  simpa [cxName] using this

/-- `c` additions named `cxName s`, `cxName (s+1)`, ... -/
def cxAdds : Nat → Nat → List (String × Int)
  | _, 0 => []
  | s, c + 1 => (cxName s, (s : Int)) :: cxAdds (s + 1) c

theorem cxAdds_mem (n : String) (s c : Nat) (h : n ∈ namesOf (cxAdds s c)) :
    ∃ j, s ≤ j ∧ j < s + c ∧ n = cxName j := by
  induction c generalizing s with
  | zero => simp [cxAdds, namesOf] at h
  | succ c ih =>
    simp only [cxAdds, namesOf, List.map_cons, List.mem_cons] at h
    rcases h with h | h
    · exact ⟨s, by omega, by omega, h⟩
    · obtain ⟨j, h1, h2, h3⟩ := ih (s + 1) h
      exact ⟨j, by omega, by omega, h3⟩

theorem cxAdds_nodup (s c : Nat) : (namesOf (cxAdds s c)).Nodup := by
  induction c generalizing s with
  | zero => simp [cxAdds, namesOf]
  | succ c ih =>
    simp only [cxAdds, namesOf, List.map_cons, List.nodup_cons]
    refine ⟨?_, ih (s + 1)⟩
    intro hm
    obtain ⟨j, h1, _, h3⟩ := cxAdds_mem _ _ _ hm
    have := cxName_inj h3
    omega

theorem cxAdds_nameIndex (s c i : Nat) (h1 : s ≤ i) (h2 : i < s + c) :
    nameIndex (cxName i) (cxAdds s c) = some (i - s) := by
  induction c generalizing s with
  | zero => omega
  | succ c ih =>
    simp only [cxAdds, nameIndex]
    by_cases hs : s = i
    · subst hs; simp
    · have : ¬ cxName s = cxName i := fun e => hs (cxName_inj e)
      simp only [beq_iff_eq, this, if_false]
      rw [ih (s + 1) (by omega) (by omega)]
      simp only [Option.map_some, Option.some.injEq]
      omega

theorem cxAdds_mem_name (s c i : Nat) (h1 : s ≤ i) (h2 : i < s + c) :
    cxName i ∈ namesOf (cxAdds s c) := by
  induction c generalizing s with
  | zero => omega
  | succ c ih =>
    simp only [cxAdds, namesOf, List.map_cons, List.mem_cons]
    by_cases hs : s = i
    · subst hs; exact .inl rfl
    · exact .inr (ih (s + 1) (by omega) (by omega))

def cxTy (I : Nat) : Ty := .enumerated [(cxName 0, 0)] (some (cxAdds 1 (I + 1)))
def cxVal (I : Nat) : Val := .enum (cxName (I + 1))
def cxBits (I : Nat) : Bits := [true] ++ ([true] ++ natToBits 8 0xc1 ++ natToBits (8 * 16385) I)

theorem cx_lenDet : lenDet 16385 = (natToBits 8 0xc1, 16384) := by
  simp [lenDet]

theorem cx_enc (I : Nat) (hI : bitLength I = 131073) : enc (cxTy I) (cxVal I) = .ok (cxBits I) := by
  have h64 : ¬ I < 64 := by
    intro h
    have := bitLength_le_of_lt_pow (n := I) (w := 6) (by omega)
    omega
  have hk : (bitLength I + 7) / 8 = 16385 := by rw [hI]
  unfold cxTy cxVal cxBits
  rw [enc]
  have h0 : nameIndex (cxName (I + 1)) (sortByVal [(cxName 0, 0)]) = none := by
    apply nameIndex_none
    show cxName (I + 1) ∉ namesOf [(cxName 0, 0)]
    simp only [namesOf, List.map_cons, List.map_nil, List.mem_singleton]
    intro e
    have := cxName_inj e
    omega
  have h1 := cxAdds_nameIndex 1 (I + 1) (I + 1) (by omega) (by omega)
  simp only [Nat.add_sub_cancel] at h1
  simp only [h0, h1, encNsnnwn, h64, if_false, hk, cx_lenDet]

theorem cx_wf (I : Nat) : (cxTy I).wf = true := by
  unfold cxTy
  simp only [Ty.wf, Bool.and_eq_true, decide_eq_true_eq, Bool.not_eq_true']
  refine ⟨⟨rfl, ?_⟩, by simp⟩
  show (cxName 0 :: namesOf (cxAdds 1 (I + 1))).Nodup
  rw [List.nodup_cons]
  refine ⟨?_, cxAdds_nodup _ _⟩
  intro hm
  obtain ⟨j, h1, _, h3⟩ := cxAdds_mem _ _ _ hm
  have := cxName_inj h3
  omega

theorem cx_hasType (I : Nat) : hasType (cxTy I) (cxVal I) = true := by
  unfold cxTy cxVal
  simp only [hasType, Bool.or_eq_true, List.contains_iff_mem]
  exact .inr (cxAdds_mem_name 1 (I + 1) (I + 1) (by omega) (by omega))

theorem cx_split (I : Nat) :
    natToBits (8 * 16385) I = natToBits (8 * 16384) (I / 2 ^ 8) ++ natToBits 8 I :=
  natToBits_add (8 * 16384) 8 I

theorem cx_dec_general (root adds : List (String × Int)) (Y Z : Bits) (n : Nat) (hlen : Y.length = n)
    (hn : n = 8 * 16384) (hz : Z.length = 8) (fuel : Nat) (w : Val) :
    dec (.enumerated root (some adds)) fuel ([true] ++ ([true] ++ natToBits 8 0xc1 ++ (Y ++ Z)) ++ []) ≠
      .ok (w, []) := by
  intro this
  rw [dec] at this
  simp only [List.append_nil, bind, Except.bind, List.cons_append, List.nil_append, readBit_cons,
    Bool.not_true, Bool.false_eq_true, if_false, decNsnnwn] at this
  have hr := readLenDet_lenDet 16385 (Y ++ Z)
  rw [cx_lenDet] at hr
  simp only at hr
  simp only [hr] at this
  have hrn := readNat_append Y Z hlen
  rw [hn] at hrn
  simp only [hrn] at this
  split at this
  · simp only [Except.ok.injEq, Prod.mk.injEq] at this
    have := congrArg List.length this.2
    simp [hz] at this
  · simp only [Except.ok.injEq, Prod.mk.injEq] at this
    have := congrArg List.length this.2
    simp [hz] at this

theorem cx_dec (I : Nat) (fuel : Nat) (w : Val) : dec (cxTy I) fuel (cxBits I ++ []) ≠ .ok (w, []) := by
  unfold cxTy cxBits
  rw [cx_split]
  exact cx_dec_general _ _ _ _ _ (natToBits_length _ _) rfl (natToBits_length _ _) fuel w

/-- the core of the counterexample, for any index whose octet count is 16385 -/
theorem cx_core (I : Nat) (hI : bitLength I = 131073) :
    ¬ (∀ (t : Ty) (v : Val) (bits rest : Bits) (fuel : Nat),
        t.wf = true → t.defaultsOk = true → hasType t v = true → fragFree t v = true →
        enc t v = .ok bits → bits.length + rest.length + 2 ≤ fuel →
        dec t fuel (bits ++ rest) = .ok (canon t v, rest)) := by
  intro hall
  exact cx_dec I _ _ (hall (cxTy I) (cxVal I) (cxBits I) [] ((cxBits I).length + 2)
    (cx_wf I) rfl (cx_hasType I) rfl (cx_enc I hI) (by simp))

theorem bitLength_two_pow (n : Nat) : bitLength (2 ^ n) = n + 1 := by
  unfold bitLength
  rw [if_neg (Nat.ne_of_gt (Nat.pow_pos (by omega))), Nat.log2_two_pow]

/-- **The original statement of `roundtrip` is false.** -/
theorem roundtrip_original_false :
    ¬ (∀ (t : Ty) (v : Val) (bits rest : Bits) (fuel : Nat),
        t.wf = true → t.defaultsOk = true → hasType t v = true → fragFree t v = true →
        enc t v = .ok bits → bits.length + rest.length + 2 ≤ fuel →
        dec t fuel (bits ++ rest) = .ok (canon t v, rest)) := by
  exact cx_core (2 ^ 131072) (bitLength_two_pow 131072)

end Asn1.Uper

#print axioms Asn1.Uper.roundtrip_original_false
