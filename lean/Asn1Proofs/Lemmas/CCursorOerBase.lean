import Asn1Model.CCursorOer
/-
  C10, base layer: pure specifications of the memory effects of the OER C helper library model
  (`Asn1Model/CCursorOer.lean`), the cursor invariants and the characterisation of
  `memcpy`/`memset`/`encoder_append_bytes`/`decoder_read_bytes`.
-/
namespace Asn1.C10
open Asn1.CCursor Asn1.CCursorOer

/-! ### pure memory update -/

/-- `m` with the bytes `bs` written at offset `off` -/
def write (m : Mem) (off : Nat) : List UInt8 → Mem
  | [] => m
  | b :: bs => write (m.setIfInBounds off b) (off + 1) bs

@[simp] theorem write_nil (m : Mem) (off : Nat) : write m off [] = m := rfl

@[simp] theorem write_cons (m : Mem) (off : Nat) (b : UInt8) (bs : List UInt8) :
    write m off (b :: bs) = write (m.setIfInBounds off b) (off + 1) bs := rfl

@[simp] theorem size_write (m : Mem) (off : Nat) (bs : List UInt8) : (write m off bs).size = m.size := by
  induction bs generalizing m off with
  | nil => rfl
  | cons b bs ih => simp [ih]

theorem write_append (m : Mem) (off : Nat) (a b : List UInt8) :
    write m off (a ++ b) = write (write m off a) (off + a.length) b := by
  induction a generalizing m off with
  | nil => simp
  | cons x a ih => simp [ih, Nat.add_assoc, Nat.add_comm 1]

private theorem take_succ_set {α} (l : List α) (off : Nat) (b : α) (h : off < l.length) :
    (l.set off b).take (off + 1) = l.take off ++ [b] := by
  rw [List.take_add_one]
  simp [h, List.take_set_of_le]

private theorem take_pre {α} (l bs : List α) (off : Nat) (h : off ≤ l.length) (r : List α) :
    (l.take off ++ (bs ++ r)).take off = l.take off := by
  rw [List.take_append]
  simp [Nat.min_eq_left h, List.take_take]

private theorem region_pre {α} (l bs : List α) (off : Nat) (h : off ≤ l.length) (r : List α) :
    ((l.take off ++ (bs ++ r)).drop off).take bs.length = bs := by
  rw [List.drop_append]
  simp [Nat.min_eq_left h]

private theorem drop_pre {α} (l bs : List α) (off : Nat) (h : off ≤ l.length) (r : List α) :
    ((l.take off ++ (bs ++ r)).drop (off + bs.length)) = r := by
  rw [List.drop_append, List.drop_append]
  simp [Nat.min_eq_left h]

/-- the written memory as a list: prefix, new bytes, suffix -/
theorem toList_write (m : Mem) (off : Nat) (bs : List UInt8) (h : off + bs.length ≤ m.size) :
    (write m off bs).toList = m.toList.take off ++ (bs ++ m.toList.drop (off + bs.length)) := by
  induction bs generalizing m off with
  | nil => simp
  | cons b bs ih =>
    have hlt : off < m.toList.length := by simp at h ⊢; omega
    rw [write_cons, ih _ _ (by simp at h ⊢; omega), Array.toList_setIfInBounds,
      List.drop_set_of_lt (by omega), take_succ_set _ _ _ hlt]
    simp [Nat.add_assoc, Nat.add_comm 1]

/-- bytes before the written region are unchanged -/
theorem take_write (m : Mem) (off : Nat) (bs : List UInt8) (h : off + bs.length ≤ m.size) :
    (write m off bs).toList.take off = m.toList.take off := by
  rw [toList_write m off bs h]
  exact take_pre _ _ _ (by simp; omega) _

/-- the written region holds the new bytes -/
theorem region_write (m : Mem) (off : Nat) (bs : List UInt8) (h : off + bs.length ≤ m.size) :
    ((write m off bs).toList.drop off).take bs.length = bs := by
  rw [toList_write m off bs h]
  exact region_pre _ _ _ (by simp; omega) _

/-- bytes after the written region are unchanged -/
theorem drop_write (m : Mem) (off : Nat) (bs : List UInt8) (h : off + bs.length ≤ m.size) :
    (write m off bs).toList.drop (off + bs.length) = m.toList.drop (off + bs.length) := by
  rw [toList_write m off bs h]
  exact drop_pre _ _ _ (by simp; omega) _

/-- writing a whole object -/
theorem write_full (m : Mem) (bs : List UInt8) (h : m.size = bs.length) : write m 0 bs = bs.toArray := by
  apply Array.ext'
  rw [toList_write m 0 bs (by omega)]
  have : m.toList.drop (0 + bs.length) = [] := List.drop_eq_nil_of_le (by simp; omega)
  rw [this]; simp

/-! ### `memcpy` / `memset` -/

theorem load_ok (m : Mem) (i : Nat) (h : i < m.size) : m.load i = .ok m[i] := by
  simp [Mem.load, h]

theorem store_ok (m : Mem) (i : Nat) (v : UInt8) (h : i < m.size) : m.store i v = .ok (m.setIfInBounds i v) := by
  simp [Mem.store, h, Array.setIfInBounds]

theorem memcpy_eq (src : Mem) (n : Nat) (dst : Mem) (dOff sOff : Nat)
    (hd : dOff + n ≤ dst.size) (hs : sOff + n ≤ src.size) :
    memcpy src n dst dOff sOff = .ok (write dst dOff ((src.toList.drop sOff).take n)) := by
  induction n generalizing dst dOff sOff with
  | zero => simp [memcpy]
  | succ n ih =>
    have h1 : sOff < src.size := by omega
    have h2 : dOff < dst.size := by omega
    rw [memcpy, load_ok _ _ h1]
    simp only [bind, Except.bind]
    rw [store_ok _ _ _ h2]
    simp only []
    rw [ih _ _ _ (by simp; omega) (by omega)]
    have : sOff < src.toList.length := by simpa using h1
    rw [List.drop_eq_getElem_cons this]
    simp

theorem memset_eq (v : UInt8) (n : Nat) (dst : Mem) (off : Nat) (hd : off + n ≤ dst.size) :
    memset v n dst off = .ok (write dst off (List.replicate n v)) := by
  induction n generalizing dst off with
  | zero => simp [memset]
  | succ n ih =>
    have h2 : off < dst.size := by omega
    rw [memset, store_ok _ _ _ h2]
    simp only [bind, Except.bind]
    rw [ih _ _ (by simp; omega)]
    simp [List.replicate_succ]

/-! ### arithmetic -/

theorem toSsize_of_lt (n : UInt64) (h : n.toNat < 9223372036854775808) : toSsize n = (n.toNat : Int) := by
  simp [toSsize, h]

theorem ssz_ok (x : Int) (h1 : -9223372036854775808 ≤ x) (h2 : x ≤ 9223372036854775807) : ssz x = .ok x := by
  simp [ssz, h1, h2]

/-! ### encoder invariant and specification -/

/-- the buffer object is smaller than 2^62 bytes and the cursor is either inside the object or
latched on a negative error code -/
def EInv (e : OEnc) : Prop :=
  e.buf.size < 4611686018427387904 ∧
  ((0 ≤ e.pos ∧ e.pos ≤ e.size ∧ e.size ≤ e.buf.size) ∨
   (e.size < 0 ∧ e.pos = e.size ∧ -4611686018427387904 ≤ e.pos))

/-- the error state -/
def _root_.Asn1.CCursorOer.OEnc.Latched (e : OEnc) : Prop := e.size < 0

/-- specification of `encoder_append_bytes`: append `bs` if there is room, else latch `-ENOMEM` -/
def _root_.Asn1.CCursorOer.OEnc.put (e : OEnc) (bs : List UInt8) : OEnc :=
  if e.size < 0 then e
  else if e.pos + bs.length ≤ e.size then
    { e with buf := write e.buf e.pos.toNat bs, pos := e.pos + bs.length }
  else { e with size := -12, pos := -12 }

def _root_.Asn1.CCursorOer.OEnc.putAll (e : OEnc) : List (List UInt8) → OEnc
  | [] => e
  | c :: cs => (e.put c).putAll cs

theorem EInv_put {e : OEnc} (h : EInv e) (bs : List UInt8) : EInv (e.put bs) := by
  unfold OEnc.put
  obtain ⟨hb, h⟩ := h
  split
  · exact ⟨hb, h⟩
  · split
    · refine ⟨by simpa using hb, Or.inl ?_⟩
      simp only [size_write]
      omega
    · exact ⟨hb, Or.inr (by simp)⟩

theorem EInv_putAll {e : OEnc} (h : EInv e) (cs : List (List UInt8)) : EInv (e.putAll cs) := by
  induction cs generalizing e with
  | nil => exact h
  | cons c cs ih => exact ih (EInv_put h c)

theorem put_latched {e : OEnc} (h : e.size < 0) (bs : List UInt8) : e.put bs = e := by
  simp [OEnc.put, h]

theorem putAll_latched {e : OEnc} (h : e.size < 0) (cs : List (List UInt8)) : e.putAll cs = e := by
  induction cs with
  | nil => rfl
  | cons c cs ih => simp [OEnc.putAll, put_latched h, ih]

theorem alloc_fit (e : OEnc) (n : UInt64) (hn : n.toNat < 4611686018427387904)
    (h0 : 0 ≤ e.pos) (h1 : e.pos + (n.toNat : Int) ≤ e.size) (h2 : e.size < 4611686018427387904) :
    e.alloc n = .ok (e.pos, { e with pos := e.pos + n.toNat }) := by
  unfold OEnc.alloc
  rw [toSsize_of_lt n (by omega), ssz_ok _ (by omega) (by omega)]
  simp [bind, Except.bind, h1]

theorem alloc_nofit (e : OEnc) (n : UInt64) (hn : n.toNat < 4611686018427387904)
    (h0 : 0 ≤ e.pos) (hs : e.pos ≤ e.size) (h1 : ¬ e.pos + (n.toNat : Int) ≤ e.size)
    (h2 : e.size < 4611686018427387904) :
    e.alloc n = .ok (-12, { e with size := -12, pos := -12 }) := by
  unfold OEnc.alloc OEnc.abort
  have : e.size ≥ 0 := by omega
  rw [toSsize_of_lt n (by omega), ssz_ok _ (by omega) (by omega)]
  simp [bind, Except.bind, h1, ENOMEM, ssz, this]

theorem alloc_latched (e : OEnc) (n : UInt64) (hn : n.toNat < 4611686018427387904)
    (h0 : e.size < 0) (hs : e.pos = e.size) (h2 : -4611686018427387904 ≤ e.pos) :
    ∃ p, p < 0 ∧ e.alloc n = .ok (p, e) := by
  unfold OEnc.alloc OEnc.abort
  have : ¬ e.size ≥ 0 := by omega
  rw [toSsize_of_lt n (by omega), ssz_ok _ (by omega) (by omega)]
  by_cases h1 : e.pos + (n.toNat : Int) ≤ e.size
  · have hz : (n.toNat : Int) = 0 := by omega
    have hle : e.pos ≤ e.size := by omega
    exact ⟨e.pos, by omega, by simp [bind, Except.bind, hz, hle]⟩
  · exact ⟨-12, by omega, by simp [bind, Except.bind, h1, ENOMEM, ssz, this]⟩

/-- `encoder_append_bytes` meets its specification, without any fault -/
theorem appendBytes_eq {e : OEnc} (h : EInv e) (src : Mem) (n : UInt64)
    (hn : n.toNat < 4611686018427387904) (hs : n.toNat ≤ src.size) :
    e.appendBytes src n = .ok (e.put (src.toList.take n.toNat)) := by
  obtain ⟨hb, h⟩ := h
  have hlen : (src.toList.take n.toNat).length = n.toNat := by simp; omega
  unfold OEnc.appendBytes OEnc.put
  rw [hlen]
  rcases h with ⟨h0, h1, h2⟩ | ⟨h0, h1, h2⟩
  · have hs0 : ¬ e.size < 0 := by omega
    by_cases hfit : e.pos + (n.toNat : Int) ≤ e.size
    · rw [alloc_fit e n hn h0 hfit (by omega)]
      have hp : ¬ e.pos < 0 := by omega
      have hp2 : e.pos.toNat ≤ e.buf.size := by omega
      simp only [bind, Except.bind, hp, if_false, ptrI, Mem.ptr, hp2, if_true, hs0, hfit]
      rw [memcpy_eq _ _ _ _ _ (by omega) (by omega)]
      simp
    · rw [alloc_nofit e n hn h0 h1 hfit (by omega)]
      simp [bind, Except.bind, hs0, hfit]
  · obtain ⟨p, hp, ha⟩ := alloc_latched e n hn h0 h1 h2
    rw [ha]
    simp [bind, Except.bind, hp, h0]

/-! ### decoder invariant and specification -/

def DInv (d : ODec) : Prop :=
  d.buf.size < 4611686018427387904 ∧
  ((0 ≤ d.pos ∧ d.pos ≤ d.size ∧ d.size ≤ d.buf.size) ∨
   (d.size < 0 ∧ d.pos = d.size ∧ -4611686018427387904 ≤ d.pos))

/-- `n` more bytes are available -/
def _root_.Asn1.CCursorOer.ODec.fits (d : ODec) (n : Nat) : Prop := 0 ≤ d.size ∧ d.pos + n ≤ d.size

instance (d : ODec) (n : Nat) : Decidable (d.fits n) := by unfold ODec.fits; infer_instance

/-- byte `k` of a read of `n` bytes: the input byte, or 0 when the read fails -/
def _root_.Asn1.CCursorOer.ODec.rd (d : ODec) (n k : Nat) : UInt8 :=
  if d.fits n then d.buf[d.pos.toNat + k]! else 0

/-- cursor after a read of `n` bytes: advance, or latch `-EOUTOFDATA` -/
def _root_.Asn1.CCursorOer.ODec.adv (d : ODec) (n : Nat) : ODec :=
  if d.size < 0 then d
  else if d.pos + n ≤ d.size then { d with pos := d.pos + n }
  else { d with size := -500, pos := -500 }

theorem DInv_adv {d : ODec} (h : DInv d) (n : Nat) : DInv (d.adv n) := by
  unfold ODec.adv
  obtain ⟨hb, h⟩ := h
  split
  · exact ⟨hb, h⟩
  · split
    · exact ⟨hb, Or.inl (by simp only; omega)⟩
    · exact ⟨hb, Or.inr (by simp)⟩

@[simp] theorem adv_buf (d : ODec) (n : Nat) : (d.adv n).buf = d.buf := by
  unfold ODec.adv; split
  · rfl
  · split <;> rfl

theorem adv_latched {d : ODec} (h : d.size < 0) (n : Nat) : d.adv n = d := by simp [ODec.adv, h]

theorem rd_latched {d : ODec} (h : d.size < 0) (n k : Nat) : d.rd n k = 0 := by
  have : ¬ d.fits n := by unfold ODec.fits; omega
  simp [ODec.rd, this]

theorem rd_of_fits {d : ODec} {n : Nat} (h : d.fits n) : d.rd n = fun k => d.buf[d.pos.toNat + k]! := by
  funext k; simp [ODec.rd, h]

theorem rd_of_not_fits {d : ODec} {n : Nat} (h : ¬ d.fits n) : d.rd n = fun _ => 0 := by
  funext k; simp [ODec.rd, h]

theorem map_const_range (n : Nat) (v : UInt8) : (List.range n).map (fun _ => v) = List.replicate n v := by
  apply List.ext_getElem <;> simp

theorem window_eq (m : Mem) (p n : Nat) (h : p + n ≤ m.size) :
    (m.toList.drop p).take n = (List.range n).map fun k => m[p + k]! := by
  apply List.ext_getElem
  · simp; omega
  · intro i h1 h2
    simp at h1 h2
    have : p + i < m.size := by omega
    simp [this]

theorem free_fit (d : ODec) (n : UInt64) (hn : n.toNat < 4611686018427387904)
    (h0 : 0 ≤ d.pos) (h1 : d.pos + (n.toNat : Int) ≤ d.size) (h2 : d.size < 4611686018427387904) :
    d.free n = .ok (d.pos, { d with pos := d.pos + n.toNat }) := by
  unfold ODec.free
  rw [toSsize_of_lt n (by omega), ssz_ok _ (by omega) (by omega)]
  simp [bind, Except.bind, h1]

theorem free_nofit (d : ODec) (n : UInt64) (hn : n.toNat < 4611686018427387904)
    (h0 : 0 ≤ d.pos) (hs : d.pos ≤ d.size) (h1 : ¬ d.pos + (n.toNat : Int) ≤ d.size)
    (h2 : d.size < 4611686018427387904) :
    d.free n = .ok (-500, { d with size := -500, pos := -500 }) := by
  unfold ODec.free ODec.abort
  have : d.size ≥ 0 := by omega
  rw [toSsize_of_lt n (by omega), ssz_ok _ (by omega) (by omega)]
  simp [bind, Except.bind, h1, EOUTOFDATA, ssz, this]

theorem free_latched (d : ODec) (n : UInt64) (hn : n.toNat < 4611686018427387904)
    (h0 : d.size < 0) (hs : d.pos = d.size) (h2 : -4611686018427387904 ≤ d.pos) :
    ∃ p, p < 0 ∧ d.free n = .ok (p, d) := by
  unfold ODec.free ODec.abort
  have : ¬ d.size ≥ 0 := by omega
  rw [toSsize_of_lt n (by omega), ssz_ok _ (by omega) (by omega)]
  by_cases h1 : d.pos + (n.toNat : Int) ≤ d.size
  · have hz : (n.toNat : Int) = 0 := by omega
    have hle : d.pos ≤ d.size := by omega
    exact ⟨d.pos, by omega, by simp [bind, Except.bind, hz, hle]⟩
  · exact ⟨-500, by omega, by simp [bind, Except.bind, h1, EOUTOFDATA, ssz, this]⟩

/-- `decoder_read_bytes` meets its specification, without any fault -/
theorem readBytes_eq {d : ODec} (h : DInv d) (dst : Mem) (n : UInt64)
    (hn : n.toNat < 4611686018427387904) (hs : n.toNat ≤ dst.size) :
    d.readBytes dst n = .ok (write dst 0 ((List.range n.toNat).map (d.rd n.toNat)), d.adv n.toNat) := by
  obtain ⟨hb, h⟩ := h
  unfold ODec.readBytes ODec.adv
  rcases h with ⟨h0, h1, h2⟩ | ⟨h0, h1, h2⟩
  · have hs0 : ¬ d.size < 0 := by omega
    by_cases hfit : d.pos + (n.toNat : Int) ≤ d.size
    · rw [free_fit d n hn h0 hfit (by omega)]
      have hp : d.pos ≥ 0 := h0
      have hp' : ¬ d.pos < 0 := by omega
      have hp2 : d.pos.toNat ≤ d.buf.size := by omega
      simp only [bind, Except.bind, hp, if_true, ptrI, hp', if_false, Mem.ptr, hp2, hs0, hfit]
      rw [memcpy_eq _ _ _ _ _ (by omega) (by omega), window_eq _ _ _ (by omega)]
      have hf : d.fits n.toNat := ⟨by omega, hfit⟩
      simp [rd_of_fits hf]
    · rw [free_nofit d n hn h0 h1 hfit (by omega)]
      have hf : ¬ d.fits n.toNat := by unfold ODec.fits; omega
      have hneg : ¬ ((-500 : Int) ≥ 0) := by omega
      simp only [bind, Except.bind, hneg, if_false, hs0, hfit]
      rw [memset_eq _ _ _ _ (by omega)]
      simp [rd_of_not_fits hf, map_const_range]
  · obtain ⟨p, hp, ha⟩ := free_latched d n hn h0 h1 h2
    have hf : ¬ d.fits n.toNat := by unfold ODec.fits; omega
    have hp' : ¬ p ≥ 0 := by omega
    rw [ha]
    simp only [bind, Except.bind, hp', if_false, h0, if_true]
    rw [memset_eq _ _ _ _ (by omega)]
    simp [rd_of_not_fits hf, map_const_range]

end Asn1.C10
