import Asn1Proofs.Lemmas.PrepPerm
/-
  Reordering the type assignments of one module commutes with the rewrite of the dictionary.
-/
namespace Asn1.SpecDict
open Preprocess

/-- reorder the type assignments of module `i` -/
def permTypes (π : NatPerm) (i : Nat) (s : Spec) : Spec :=
  modifyAt (fun m => { m with types := π.app m.types }) i s

/-- the type assignments of module `i` have pairwise distinct names (always true for a Python
dictionary) -/
def NodupNames (s : Spec) (i : Nat) : Prop :=
  ∀ mn ms, (skel s)[i]? = some (mn, ms) → (ms.types.map Prod.fst).Nodup

theorem NodupNames.at {s : Spec} {i : Nat} (h : NodupNames s i) {mn : String} {m : Module}
    (hi : s[i]? = some (mn, m)) : (m.types.map Prod.fst).Nodup := by
  have := h mn m.skel (by rw [skel_getElem?, hi]; rfl)
  simpa [Module.skel, typesSkel_eq_map, List.map_map, Function.comp_def] using this

theorem modifyAt_comm {α : Type} (f g : α → α) {i j : Nat} (h : i ≠ j) (l : List (String × α)) :
    modifyAt f i (modifyAt g j l) = modifyAt g j (modifyAt f i l) := by
  induction l generalizing i j with
  | nil => cases i <;> cases j <;> rfl
  | cons x t ih =>
    obtain ⟨k, v⟩ := x
    cases i with
    | zero =>
      cases j with
      | zero => exact absurd rfl h
      | succ j => rfl
    | succ i =>
      cases j with
      | zero => rfl
      | succ j => simp only [modifyAt]; rw [ih (by omega)]

theorem ModEquiv_refl (o : Option Module) : ModEquiv o o := by
  cases o with
  | none => trivial
  | some m => exact ⟨rfl, fun _ => rfl⟩

section
variable (π : NatPerm) (i : Nat)

theorem LookupEquiv_permTypes {s : Spec} (hN : NodupNames s i) :
    LookupEquiv (permTypes π i s) s := by
  intro mod
  rcases find?_modifyAt_cases (fun m : Module => { m with types := π.app m.types }) i s mod
    with h | ⟨v, h1, h2, h3⟩
  · unfold permTypes; rw [h]; exact ModEquiv_refl _
  · unfold permTypes; rw [h3, h2]
    refine ⟨rfl, fun name => ?_⟩
    exact (find?_perm name (π.perm v.types).symm (hN.at h1)).symm

theorem countTypes_skel_modifyAt {g : Module → Module}
    (hg : ∀ m, (g m).types.length = m.types.length) (s : Spec) :
    countTypes (skel (modifyAt g i s)) = countTypes (skel s) := by
  induction s generalizing i with
  | nil => cases i <;> rfl
  | cons x t ih =>
    obtain ⟨k, m⟩ := x
    cases i with
    | zero => simp [modifyAt, skel, countTypes, Module.skel, typesSkel_length, hg]
    | succ i => simp [modifyAt, skel, countTypes, ih]

theorem SkelEquiv_permTypes {s : Spec} (hN : NodupNames s i) :
    SkelEquiv (skel (permTypes π i s)) (skel s) := by
  refine ⟨?_, ?_, ?_⟩
  · intro f name mod
    rw [lookupCore_skel, lookupCore_skel, lookupType_congr (LookupEquiv_permTypes π i hN)]
  · simp [lookupFuel, permTypes]
  · unfold resolveFuel permTypes
    rw [countTypes_skel_modifyAt i (fun m => (π.perm m.types).length_eq)]

theorem compOfType_permTypes {s : Spec} (hN : NodupNames s i) (mn : String) (d : Desc) :
    compOfType (permTypes π i s) mn d = compOfType s mn d := by
  have hs := SkelEquiv_permTypes π i hN
  cases d with
  | mk a b =>
    cases b with
    | leaf => rfl
    | element e => rfl
    | members ms =>
      simp only [compOfType]
      rw [hs.lf, hs.rf, expandItems_congr (LookupEquiv_permTypes π i hN)]

theorem NodupNames_of_skel_eq {s s' : Spec} (h : skel s' = skel s) (hN : NodupNames s i) :
    NodupNames s' i := by
  intro mn ms hm; rw [h] at hm; exact hN mn ms hm

theorem compOfStep_permTypes {s : Spec} (hN : NodupNames s i) {j : Nat} (hj : j ≠ i)
    (mn : String) (k : Nat) :
    compOfStep j mn (permTypes π i s) k = permTypes π i (compOfStep j mn s k) := by
  unfold compOfStep permTypes
  rw [modifyAt_comm _ _ hj]
  congr 1
  refine modifyAt_congr ?_
  intro key m _
  have : compOfType (modifyAt (fun m : Module => { m with types := π.app m.types }) i s) mn
      = compOfType s mn := funext (compOfType_permTypes π i hN mn)
  rw [this]

theorem foldl_compOfStep_permTypes {j : Nat} (hj : j ≠ i) (mn : String) (l : List Nat) {s : Spec}
    (hN : NodupNames s i) :
    l.foldl (compOfStep j mn) (permTypes π i s) = permTypes π i (l.foldl (compOfStep j mn) s) := by
  induction l generalizing s with
  | nil => rfl
  | cons k t ih =>
    simp only [List.foldl_cons]
    rw [compOfStep_permTypes π i hN hj, ih (NodupNames_of_skel_eq i (skel_compOfStep j mn s k) hN)]

theorem ModClean_permTypes {s : Spec} (hC : ModClean s i) : ModClean (permTypes π i s) i := by
  intro mn m hm k d hd
  unfold permTypes at hm
  rw [getElem?_modifyAt_eq] at hm
  cases hs : s[i]? with
  | none => simp [hs] at hm
  | some p =>
    obtain ⟨mn0, m0⟩ := p
    simp only [hs, Option.map_some, Option.some.injEq, Prod.mk.injEq] at hm
    obtain ⟨_, rfl⟩ := hm
    exact hC mn0 m0 hs k d ((π.perm m0.types).mem_iff.1 hd)

/-- one step of the rewrite commutes with the reordering -/
theorem procModule_permTypes (n : Bool) {s : Spec} (hN : NodupNames s i) (hC : ModClean s i)
    (j : Nat) : procModule n (permTypes π i s) j = permTypes π i (procModule n s j) := by
  have hsk := SkelEquiv_permTypes π i hN
  cases hj : s[j]? with
  | none =>
    have : (permTypes π i s)[j]? = none := by
      unfold permTypes
      by_cases hji : j = i
      · subst hji; rw [getElem?_modifyAt_eq, hj]; rfl
      · rw [getElem?_modifyAt_ne _ hji, hj]
    rw [procModule_of_none n this, procModule_of_none n hj]
  | some p =>
    obtain ⟨mn, m⟩ := p
    by_cases hji : j = i
    · -- the reordered module itself: no COMPONENTS OF, the three passes are maps
      subst hji
      have hj' : (permTypes π j s)[j]? = some (mn, { m with types := π.app m.types }) := by
        unfold permTypes; rw [getElem?_modifyAt_eq, hj]; rfl
      rw [procModule_eq n hj', procModule_eq n hj,
        compOfModule_of_clean j mn (ModClean_permTypes π j hC), compOfModule_of_clean j mn hC]
      unfold permTypes
      rw [modifyAt_modifyAt, modifyAt_modifyAt]
      refine modifyAt_congr ?_
      intro key m' _
      have hl : locDesc (skel (modifyAt (fun m : Module => { m with types := π.app m.types }) j s))
          n mn (m.tags.getD "EXPLICIT") m.extImplied
          = locDesc (skel s) n mn (m.tags.getD "EXPLICIT") m.extImplied :=
        funext (locDesc_congr hsk n mn _ _)
      simp only [Module.mapTypes, hl, mapSnd_eq_map, π.map]
    · -- another module: its COMPONENTS OF entries and references see the same assignments
      have hj' : (permTypes π i s)[j]? = some (mn, m) := by
        unfold permTypes; rw [getElem?_modifyAt_ne _ hji, hj]
      rw [procModule_eq n hj', procModule_eq n hj]
      have hl : locDesc (skel (permTypes π i s)) n mn (m.tags.getD "EXPLICIT") m.extImplied
          = locDesc (skel s) n mn (m.tags.getD "EXPLICIT") m.extImplied :=
        funext (locDesc_congr hsk n mn _ _)
      rw [hl]
      unfold compOfModule
      rw [foldl_compOfStep_permTypes π i hji mn _ hN]
      unfold permTypes
      rw [modifyAt_comm _ _ hji]

theorem foldl_procModule_permTypes (n : Bool) (l : List Nat) {s : Spec} (hN : NodupNames s i)
    (hC : ModClean s i) :
    l.foldl (procModule n) (permTypes π i s) = permTypes π i (l.foldl (procModule n) s) := by
  induction l generalizing s with
  | nil => rfl
  | cons j t ih =>
    simp only [List.foldl_cons]
    rw [procModule_permTypes π i n hN hC j,
      ih (NodupNames_of_skel_eq i (skel_procModule n s j) hN) (ModClean_procModule n hC j)]

/-- **Reordering the type assignments of a module commutes with the rewrite.** -/
theorem run_permTypes (n : Bool) {s : Spec} (hN : NodupNames s i) (hC : ModClean s i) :
    run n (permTypes π i s) = permTypes π i (run n s) := by
  unfold run
  have : (permTypes π i s).length = s.length := by simp [permTypes]
  rw [this]
  exact foldl_procModule_permTypes π i n _ hN hC

end

end Asn1.SpecDict
