import Asn1Proofs.Lemmas.X690Tag
/-
  X.690 8.3.2: the minimal two's complement octets written by the encoders satisfy the
  "first nine bits not all equal" rule that the reference decoder checks.
-/
namespace Asn1.X690

/-- the two leading octets of a big-endian fixed-width rendering -/
theorem natToBytesN_head2_mi (k m : Nat) :
    natToBytesN (k + 2) m
      = (m / 256 ^ (k + 1) % 256) :: (m / 256 ^ k % 256) :: natToBytesN k m := by
  induction k generalizing m with
  | zero => simp [natToBytesN]
  | succ k ih =>
    have e : natToBytesN (k + 1 + 2) m = natToBytesN (k + 2) (m / 256) ++ [m % 256] := rfl
    have e' : natToBytesN (k + 1) m = natToBytesN k (m / 256) ++ [m % 256] := rfl
    rw [e, ih, e']
    simp only [List.cons_append]
    rw [Nat.div_div_eq_div_mul, Nat.div_div_eq_div_mul, ← Nat.pow_succ', ← Nat.pow_succ']

/-- the nine-bit test expressed on the number `q = m / 256^k` made of the two leading octets -/
theorem minimalInteger_of_top_mi (k m : Nat)
    (h : ¬ (m / 256 ^ k / 256 % 256 = 0 ∧ m / 256 ^ k % 256 < 128) ∧
         ¬ (m / 256 ^ k / 256 % 256 = 255 ∧ m / 256 ^ k % 256 ≥ 128)) :
    minimalInteger (natToBytesN (k + 2) m) = true := by
  rw [natToBytesN_head2_mi]
  have e : m / 256 ^ (k + 1) = m / 256 ^ k / 256 := by
    rw [Nat.div_div_eq_div_mul, ← Nat.pow_succ]
  rw [e]
  generalize m / 256 ^ k = q at *
  simp only [minimalInteger]
  simp only [Bool.not_eq_true', Bool.or_eq_false_iff, Bool.and_eq_false_iff, beq_eq_false_iff_ne,
    decide_eq_false_iff_not, ne_eq]
  omega

theorem minimalInteger_pos_mi (k n : Nat) (hlo : 2 ^ (8 * k + 7) ≤ n) (hhi : n < 2 ^ (8 * k + 15)) :
    minimalInteger (natToBytesN (k + 2) n) = true := by
  apply minimalInteger_of_top_mi
  have h1 : (2 : Nat) ^ (8 * k + 7) = 128 * 256 ^ k := by
    rw [pow256_oer, Nat.pow_add]; omega
  have h2 : (2 : Nat) ^ (8 * k + 15) = 32768 * 256 ^ k := by
    rw [pow256_oer, Nat.pow_add]; omega
  rw [h1] at hlo
  rw [h2] at hhi
  have hR : 0 < 256 ^ k := Nat.pow_pos (by omega)
  have hq1 : 128 ≤ n / 256 ^ k := (Nat.le_div_iff_mul_le hR).2 hlo
  have hq2 : n / 256 ^ k < 32768 := (Nat.div_lt_iff_lt_mul hR).2 hhi
  generalize n / 256 ^ k = q at *
  omega

theorem minimalInteger_neg_mi (k j : Nat) (hlo : 2 ^ (8 * k + 7) ≤ j) (hhi : j < 2 ^ (8 * k + 15)) :
    minimalInteger (natToBytesN (k + 2) (256 ^ (k + 2) - 1 - j)) = true := by
  apply minimalInteger_of_top_mi
  have h1 : (2 : Nat) ^ (8 * k + 7) = 128 * 256 ^ k := by
    rw [pow256_oer, Nat.pow_add]; omega
  have h2 : (2 : Nat) ^ (8 * k + 15) = 32768 * 256 ^ k := by
    rw [pow256_oer, Nat.pow_add]; omega
  have h3 : (256 : Nat) ^ (k + 2) = 65536 * 256 ^ k := by
    rw [Nat.pow_add]; omega
  rw [h1] at hlo
  rw [h2] at hhi
  rw [h3]
  have hR : 0 < 256 ^ k := Nat.pow_pos (by omega)
  have hq1 : 32768 ≤ (65536 * 256 ^ k - 1 - j) / 256 ^ k :=
    (Nat.le_div_iff_mul_le hR).2 (by omega)
  have hq2 : (65536 * 256 ^ k - 1 - j) / 256 ^ k < 65408 :=
    (Nat.div_lt_iff_lt_mul hR).2 (by omega)
  generalize (65536 * 256 ^ k - 1 - j) / 256 ^ k = q at *
  omega

/-- a value needing `k + 2` octets has magnitude at least `2 ^ (8 k + 7)` -/
theorem two_pow_le_of_bitLength_div_mi {n k : Nat} (h : bitLength n / 8 + 1 = k + 2) :
    2 ^ (8 * k + 7) ≤ n := by
  have hn : n ≠ 0 := by
    intro h0; subst h0; simp [bitLength] at h
  have h1 := two_pow_le_of_bitLength_oer hn
  have h2 : 2 ^ (8 * k + 7) ≤ 2 ^ (bitLength n - 1) := Nat.pow_le_pow_right (by omega) (by omega)
  omega

theorem minimalInteger_intToBytesN_mi (k : Nat) (i : Int)
    (hb : -((2 ^ (8 * k + 15) : Nat) : Int) ≤ i ∧ i < ((2 ^ (8 * k + 15) : Nat) : Int))
    (hdef : k + 2 = if i ≥ 0 then bitLength i.toNat / 8 + 1 else bitLength (-i - 1).toNat / 8 + 1) :
    minimalInteger (intToBytesN (k + 2) i) = true := by
  unfold intToBytesN
  have hP : (256 : Nat) ^ (k + 2) = 2 * 2 ^ (8 * k + 15) := by
    rw [pow256_oer, show 8 * (k + 2) = (8 * k + 15) + 1 by omega, Nat.pow_succ]; omega
  by_cases h0 : 0 ≤ i
  · rw [if_pos h0] at hdef
    have hlo := two_pow_le_of_bitLength_div_mi hdef.symm
    have hm : (i % ((256 ^ (k + 2) : Nat) : Int)).toNat = i.toNat := by
      rw [Int.emod_eq_of_lt h0 (by rw [hP]; omega)]
    rw [hm]
    exact minimalInteger_pos_mi k i.toNat hlo (by omega)
  · rw [if_neg h0] at hdef
    have hlo := two_pow_le_of_bitLength_div_mi hdef.symm
    have hm : (i % ((256 ^ (k + 2) : Nat) : Int)).toNat
        = 256 ^ (k + 2) - 1 - (-i - 1).toNat := by
      have : i % ((256 ^ (k + 2) : Nat) : Int) = i + ((256 ^ (k + 2) : Nat) : Int) := by
        rw [← Int.add_emod_right, Int.emod_eq_of_lt (by rw [hP]; omega) (by omega)]
      rw [this, hP]; omega
    rw [hm]
    exact minimalInteger_neg_mi k (-i - 1).toNat hlo (by omega)

theorem minimalInteger_intToBytesMin (i : Int) : minimalInteger (intToBytesMin i) = true := by
  have hb := intByteLength_bounds_oer i
  have hpos := intByteLength_pos_oer i
  have hdef : intByteLength i
      = if i ≥ 0 then bitLength i.toNat / 8 + 1 else bitLength (-i - 1).toNat / 8 + 1 := by
    unfold intByteLength; rfl
  unfold intToBytesMin
  generalize intByteLength i = k at *
  by_cases h1 : k = 1
  · subst h1
    simp [intToBytesN, natToBytesN, minimalInteger]
  · obtain ⟨k', rfl⟩ : ∃ k', k = k' + 2 := ⟨k - 2, by omega⟩
    have e15 : 8 * (k' + 2) - 1 = 8 * k' + 15 := by omega
    rw [e15] at hb
    exact minimalInteger_intToBytesN_mi k' i hb hdef

end Asn1.X690

#print axioms Asn1.X690.minimalInteger_intToBytesMin
