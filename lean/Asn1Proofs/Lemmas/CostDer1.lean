import Asn1Proofs.Lemmas.CostDefs
import Asn1Proofs.Lemmas.DerCodecInst
/-
  C08 for the DER / BER models, part 1: lengths consumed by the framing functions both decoders
  share (`matchTag`, `readLen`, `readPrim`, `readTag`, `skipTLV`, `isEnd`), the cost predicate, and
  the allocation bound of the shared SEQUENCE / CHOICE decoder (`gPass`, `retry`, `fill`,
  `finishMembers`, `gSeq`, `gAlt`, `gBare`, `gChoice` of `DerDefs.lean`), generic in the decoder.
-/
set_option linter.unusedSimpArgs false
set_option linter.unusedVariables false
namespace Asn1.Cost
open Asn1.Der
open Asn1.Uper (Err)
open Asn1.Oer (splitAux readBytes decodeStr)

/-- size of the DEFAULT value a member may contribute without consuming input -/
def presenceNodes : Presence → Nat
  | .default d => d.nodes
  | _ => 0

mutual
  /-- DER/BER: nodes allocated per octet consumed, a function of the type only -/
  def KD : Ty → Nat
    | .sequence root _ adds => 1 + KDm root + KDm adds
    | .sequenceOf e _ => 1 + KD e
    | .choice root _ adds => 2 + KDa root + KDa adds
    | _ => 1
  def KDm : Members → Nat
    | .nil => 0
    | .cons _ p t rest => 1 + presenceNodes p + KD t + KDm rest
  def KDa : Alts → Nat
    | .nil => 0
    | .cons _ t rest => KD t + KDa rest
end

/-! ### framing: how much input is consumed -/

theorem splitAux_len {n : Nat} {bs a r : Bytes} (h : splitAux n bs [] = some (a, r)) :
    bs.length = r.length + n ∧ a.length = n := by
  rw [Oer.splitAux_eq] at h
  split at h
  · cases h
    simp only [List.reverse_nil, List.nil_append, List.length_drop, List.length_take]
    omega
  · cases h

theorem readBytes_len {n : Nat} {bs a r : Bytes} (h : readBytes n bs = .ok (a, r)) :
    bs.length = r.length + n ∧ a.length = n := by
  unfold readBytes at h
  split at h
  · rename_i x hx
    cases h
    exact splitAux_len hx
  · cases h

theorem encTag_pos (n fl : Nat) : 1 ≤ (Ber.encTag n fl).length := by
  unfold Ber.encTag
  split <;> simp

theorem mkTag_pos (u : Nat) (c : Bool) (tg : Option Nat) : 1 ≤ (mkTag u c tg).length := by
  unfold mkTag
  cases tg <;> exact encTag_pos _ _

theorem tagOf_pos (t : Ty) (tg : Option Nat) : 1 ≤ (tagOf t tg).length := mkTag_pos _ _ _

theorem matchTag_len {tag bs r : Bytes} (h : matchTag tag bs = .ok (some r)) :
    bs.length = r.length + tag.length := by
  unfold matchTag at h
  split at h
  · cases h
  · rename_i t r' hs
    split at h
    · cases h
      exact (splitAux_len hs).1
    · cases h

/-- `readLen`: at least one octet is consumed, and (whatever `definiteOnly`) a definite length
never exceeds what is left of the input -/
theorem readLen_spec {d : Bool} {bs r : Bytes} {len : Option Nat} {h : Nat}
    (hr : readLen d bs = .ok (len, h, r)) :
    1 ≤ h ∧ bs.length = r.length + h ∧ (∀ n, len = some n → n ≤ r.length) ∧
      (d = true → len.isSome = true) := by
  unfold readLen at hr
  split at hr
  · cases hr
  · rename_i l r0
    split at hr
    · split at hr
      · rename_i hN
        cases hr
        rw [hasN_eq] at hN
        simp only [decide_eq_true_eq] at hN
        refine ⟨Nat.le_refl _, by simp, ?_, fun _ => rfl⟩
        intro n hn; cases hn; exact hN
      · cases hr
    · split at hr
      · split at hr
        · cases hr
        · rename_i hd
          cases hr
          refine ⟨Nat.le_refl _, by simp, ?_, ?_⟩
          · intro n hn; cases hn
          · intro hd'; exact absurd hd' hd
      · split at hr
        · cases hr
        · rename_i ds r' hs
          dsimp only at hr
          split at hr
          · rename_i hN
            cases hr
            rw [hasN_eq] at hN
            simp only [decide_eq_true_eq] at hN
            have := (splitAux_len hs).1
            refine ⟨by omega, by simp only [List.length_cons]; omega, ?_, fun _ => rfl⟩
            intro n hn; cases hn; exact hN
          · cases hr

theorem readPrim_spec {tag bs content r : Bytes} {k : Nat}
    (h : readPrim tag bs = .ok (some (content, k, r))) :
    bs.length = r.length + k ∧ tag.length + 1 + content.length ≤ k := by
  unfold readPrim at h
  obtain ⟨o, h1, h⟩ := Uper.bind_ok h
  cases o with
  | none => cases h
  | some r0 =>
    dsimp only at h
    obtain ⟨⟨len, hh, r1⟩, h2, h⟩ := Uper.bind_ok h
    dsimp only at h
    cases len with
    | none => cases h
    | some n =>
      dsimp only at h
      obtain ⟨⟨c, r2⟩, h3, h⟩ := Uper.bind_ok h
      cases h
      have a1 := matchTag_len h1
      obtain ⟨a2, a3, _, _⟩ := readLen_spec h2
      obtain ⟨a4, a5⟩ := readBytes_len h3
      dsimp only
      omega

theorem tagRest_spec {bs t r : Bytes} (h : tagRest bs = some (t, r)) :
    bs.length = r.length + t.length ∧ 1 ≤ t.length := by
  induction bs generalizing t r with
  | nil => simp [tagRest] at h
  | cons b bs ih =>
    simp only [tagRest] at h
    split at h
    · split at h
      · rename_i t' r' hr
        cases h
        have := ih hr
        simp only [List.length_cons]; omega
      · cases h
    · cases h; simp

theorem readTag_spec {bs t r : Bytes} (h : readTag bs = .ok (t, r)) :
    bs.length = r.length + t.length ∧ 1 ≤ t.length ∧ 1 ≤ r.length := by
  unfold readTag at h
  split at h
  · cases h
  · rename_i b r0
    dsimp only at h
    split at h
    · cases h
    · rename_i t' r' hres
      split at h
      · cases h
      · rename_i hne
        cases h
        have hr1 : 1 ≤ r.length := by
          cases r with
          | nil => simp at hne
          | cons _ _ => simp
        split at hres
        · split at hres
          · rename_i t2 r2 hr
            cases hres
            have := tagRest_spec hr
            simp only [List.length_cons]; omega
          · cases hres
        · cases hres
          exact ⟨by simp, by simp, hr1⟩

theorem skipTLV_spec {bs r : Bytes} {k : Nat} (h : skipTLV bs = .ok (k, r)) :
    r.length + 2 ≤ bs.length ∧ 2 ≤ k := by
  unfold skipTLV at h
  obtain ⟨⟨t, r0⟩, h1, h⟩ := Uper.bind_ok h
  dsimp only at h
  obtain ⟨⟨len, hh, r1⟩, h2, h⟩ := Uper.bind_ok h
  dsimp only at h
  cases len with
  | none => cases h
  | some n =>
    cases h
    obtain ⟨a1, a2, _⟩ := readTag_spec h1
    obtain ⟨a3, a4, _, _⟩ := readLen_spec h2
    simp only [List.length_drop]
    omega

theorem isEnd_spec {c c' : Cur} {b : Bool} (h : isEnd c = .ok (b, c')) :
    c'.bs.length ≤ c.bs.length ∧ c.k ≤ c'.k := by
  unfold isEnd at h
  split at h
  · cases h; exact ⟨Nat.le_refl _, Nat.le_refl _⟩
  · split at h
    · rename_i rest hbs
      cases h
      rw [hbs]
      simp only [List.length_cons]
      omega
    · cases h; exact ⟨Nat.le_refl _, Nat.le_refl _⟩
    · cases h

theorem eoc_spec {bs : Bytes} {b : Bool} (h : eoc bs = .ok b) : 2 ≤ bs.length := by
  unfold eoc at h
  split at h
  · simp
  · simp
  · cases h

theorem utf8Dec_len (fuel : Nat) (bs cps : Bytes) (h : Uper.utf8Dec fuel bs = some cps) :
    cps.length ≤ bs.length := by
  induction fuel generalizing bs cps with
  | zero => simp [Uper.utf8Dec] at h
  | succ f ih =>
    cases bs with
    | nil => simp [Uper.utf8Dec] at h; subst h; simp
    | cons b r =>
      simp only [Uper.utf8Dec] at h
      have key : ∀ (x : Nat) (r' : Bytes), (Uper.utf8Dec f r').map (x :: ·) = some cps →
          cps.length ≤ r'.length + 1 := by
        intro x r' hm
        cases hd : Uper.utf8Dec f r' with
        | none => rw [hd] at hm; cases hm
        | some l =>
          rw [hd] at hm
          cases hm
          have := ih _ _ hd
          simp only [List.length_cons]; omega
      split at h
      · have := key _ _ h; simp only [List.length_cons]; omega
      · split at h
        · cases h
        · split at h
          · split at h
            · split at h
              · have := key _ _ h; simp only [List.length_cons]; omega
              · cases h
            · cases h
          · split at h
            · split at h
              · split at h
                · have := key _ _ h; simp only [List.length_cons]; omega
                · cases h
              · cases h
            · split at h
              · split at h
                · split at h
                  · have := key _ _ h; simp only [List.length_cons]; omega
                  · cases h
                · cases h
              · cases h

theorem decodeStr_len {k : StrKind} {bs cps : Bytes} (h : decodeStr k bs = .ok cps) :
    cps.length ≤ bs.length := by
  unfold decodeStr at h
  split at h
  · split at h
    · rename_i c hc
      cases h
      exact utf8Dec_len _ _ _ hc
    · cases h
  · split at h
    · cases h; exact Nat.le_refl _
    · cases h

theorem bitsOfContent_len {content rest body : Bytes} {n : Nat}
    (h : bitsOfContent content rest = .ok (body, n)) : body.length + 1 = content.length := by
  unfold bitsOfContent at h
  split at h
  · split at h <;> cases h
  · split at h
    · cases h
    · cases h; simp

/-! ### arithmetic -/

theorem mul_split {a b K c1 c2 c : Nat} (h1 : a ≤ K * c1) (h2 : b ≤ K * c2) (hc : c1 + c2 ≤ c) :
    a + b ≤ K * c := by
  have := Nat.mul_le_mul_left K hc
  rw [Nat.mul_add] at this
  omega

theorem lin_step {a b s s' K1 K2 c1 c2 C : Nat} (h1 : a ≤ K1 * c1) (h2 : b ≤ s + K2 * c2)
    (hs : s ≤ s') (hc1 : c1 ≤ C) (hc2 : c2 ≤ C) : a + b ≤ s' + (K1 + K2) * C := by
  have a1 : K1 * c1 ≤ K1 * C := Nat.mul_le_mul_left _ hc1
  have a2 : K2 * c2 ≤ K2 * C := Nat.mul_le_mul_left _ hc2
  rw [Nat.add_mul]
  omega

theorem seq_arith {X Y A B cx cy C m1 m2 : Nat} (hX : X ≤ A * cx) (hY : Y ≤ B * cy)
    (hcx : cx ≤ C) (hcy : cy ≤ C) (hC : 1 ≤ C) :
    1 + (m1 + X + (m2 + Y)) ≤ (1 + (m1 + A) + (m2 + B)) * C := by
  have a1 : A * cx ≤ A * C := Nat.mul_le_mul_left _ hcx
  have a2 : B * cy ≤ B * C := Nat.mul_le_mul_left _ hcy
  have a3 : m1 * 1 ≤ m1 * C := Nat.mul_le_mul_left _ hC
  have a4 : m2 * 1 ≤ m2 * C := Nat.mul_le_mul_left _ hC
  simp only [Nat.add_mul, Nat.one_mul]
  omega

/-! ### the cost predicate -/

/-- a successful parse consumes input, reports a positive octet count and returns a value of at
most `K` nodes per octet consumed -/
def CP (K : Nat) (p : Bytes → DecM (Option Res)) : Prop :=
  ∀ bs v k r, p bs = .ok (some (v, k, r)) →
    r.length < bs.length ∧ 1 ≤ k ∧ v.nodes ≤ K * (bs.length - r.length)

/-- `CP` for type `t` of decoder `D`, in every tagging context and for every fuel -/
def CT (D : Decoder) (t : Ty) : Prop := ∀ tg f, CP (KD t) (D t tg f)

theorem CP.mono {K K' : Nat} {p : Bytes → DecM (Option Res)} (h : CP K p) (hK : K ≤ K') : CP K' p := by
  intro bs v k r hp
  obtain ⟨a, b, c⟩ := h bs v k r hp
  exact ⟨a, b, bm_mono c hK (Nat.le_refl _)⟩

/-- nodes a member list contributes without consuming input: one per field, plus the DEFAULTs -/
def MS : Members → Nat
  | .nil => 0
  | .cons _ p _ rest => 1 + presenceNodes p + MS rest

/-- sum of the per-octet constants of the member types -/
def KT : Members → Nat
  | .nil => 0
  | .cons _ _ t rest => KD t + KT rest

theorem KDm_eq (ms : Members) : KDm ms = MS ms + KT ms := by
  induction ms using Members.ind with
  | nil => simp [KDm, MS, KT]
  | cons name p t rest ih => simp only [KDm, MS, KT, ih]; omega

/-- size of the values decoded so far -/
def slotsNodes : List (Option Val) → Nat
  | [] => 0
  | none :: r => slotsNodes r
  | some v :: r => v.nodes + slotsNodes r

theorem slotsNodes_tail_le (slots : List (Option Val)) : slotsNodes slots.tail ≤ slotsNodes slots := by
  cases slots with
  | nil => exact Nat.le_refl _
  | cons x r => cases x <;> simp only [List.tail_cons, slotsNodes] <;> omega

theorem slotsNodes_head {slots : List (Option Val)} {v : Val} (h : slots.headD none = some v) :
    slotsNodes slots = v.nodes + slotsNodes slots.tail := by
  cases slots with
  | nil => cases h
  | cons x r =>
    simp only [List.headD_cons] at h
    subst h
    simp only [List.tail_cons, slotsNodes]

theorem slotsNodes_replicate (n : Nat) : slotsNodes (List.replicate n none) = 0 := by
  induction n with
  | zero => rfl
  | succ n ih => simp only [List.replicate_succ, slotsNodes, ih]

/-! ### SEQUENCE OF (DER loop) -/

theorem derElems_cost {K : Nat} {p : Bytes → DecM (Option Res)} (hp : CP K p) :
    ∀ (fuel toEnd : Nat) (bs : Bytes) (vs : List Val) (k : Nat) (r : Bytes),
      derElems p fuel toEnd bs = .ok (vs, k, r) →
      r.length ≤ bs.length ∧ Val.nodesList vs ≤ K * (bs.length - r.length) := by
  intro fuel
  induction fuel with
  | zero => intro toEnd bs vs k r h; simp [derElems] at h
  | succ f ih =>
    intro toEnd bs vs k r h
    simp only [derElems] at h
    split at h
    · cases h; simp [Val.nodesList]
    · split at h
      · cases h
      · cases h
      · rename_i v k1 r1 hp1
        split at h
        · cases h
        · rename_i vs' k' r' hrec
          cases h
          obtain ⟨a1, a2, a3⟩ := hp _ _ _ _ hp1
          obtain ⟨b1, b2⟩ := ih _ _ _ _ _ hrec
          refine ⟨by omega, ?_⟩
          simp only [Val.nodesList]
          exact mul_split a3 b2 (by omega)

/-! ### SEQUENCE: one pass, the retry loop, the tail -/

/-- what one pass over the members does to the cursor and the slots -/
def PassOK (K : Nat) (pass : List (Option Val) → MSt → DecM (List (Option Val) × MSt)) : Prop :=
  ∀ slots st slots' st', pass slots st = .ok (slots', st') →
    st'.cur.bs.length ≤ st.cur.bs.length ∧ st.cur.k ≤ st'.cur.k ∧
    slotsNodes slots' ≤ slotsNodes slots + K * (st.cur.bs.length - st'.cur.bs.length)

theorem gPass_cost (D : Decoder) (ms : Members) (hms : Members.All (CT D) ms) :
    ∀ (i f : Nat), PassOK (KT ms) (gPass D ms i f) := by
  induction ms using Members.ind with
  | nil =>
    intro i f slots st slots' st' h
    rw [gPass] at h
    cases h
    exact ⟨Nat.le_refl _, Nat.le_refl _, by simp [slotsNodes]⟩
  | cons name p t rest ih =>
    intro i f slots st slots' st' h
    obtain ⟨ht, hrest⟩ := hms
    have ih := ih hrest (i + 1) f
    have htl := slotsNodes_tail_le slots
    rw [gPass] at h
    split at h
    · rename_i v hv
      have hhd := slotsNodes_head hv
      split at h
      · cases h
      · rename_i r st2 hrec
        cases h
        obtain ⟨a1, a2, a3⟩ := ih _ _ _ _ hrec
        refine ⟨a1, a2, ?_⟩
        simp only [slotsNodes, KT]
        rw [hhd]
        have := lin_step (K1 := KD t) (c1 := 0) (a := 0) (Nat.zero_le _) a3 (Nat.le_refl _)
          (Nat.zero_le (st.cur.bs.length - st'.cur.bs.length)) (Nat.le_refl _)
        omega
    · split at h
      · split at h
        · cases h
        · rename_i r st2 hrec
          cases h
          obtain ⟨a1, a2, a3⟩ := ih _ _ _ _ hrec
          refine ⟨a1, a2, ?_⟩
          simp only [slotsNodes, KT]
          have := lin_step (K1 := KD t) (c1 := 0) (a := 0) (Nat.zero_le _) a3 htl
            (Nat.zero_le (st.cur.bs.length - st'.cur.bs.length)) (Nat.le_refl _)
          omega
      · split at h
        · cases h
        · split at h
          · cases h
          · rename_i r st2 hrec
            cases h
            obtain ⟨a1, a2, a3⟩ := ih _ _ _ _ hrec
            refine ⟨a1, a2, ?_⟩
            simp only [slotsNodes, KT]
            have := lin_step (K1 := KD t) (c1 := 0) (a := 0) (Nat.zero_le _) a3 htl
              (Nat.zero_le (st.cur.bs.length - st'.cur.bs.length)) (Nat.le_refl _)
            omega
        · rename_i v k r hdec
          obtain ⟨d1, d2, d3⟩ := ht (some i) f _ _ _ _ hdec
          split at h
          · cases h
          · rename_i ood c hend
            obtain ⟨e1, e2⟩ := isEnd_spec hend
            simp only [Cur.advance] at e1 e2
            split at h
            · cases h
            · rename_i r' st2 hrec
              cases h
              obtain ⟨a1, a2, a3⟩ := ih _ _ _ _ hrec
              dsimp only at a1 a2 a3
              refine ⟨by omega, by omega, ?_⟩
              simp only [slotsNodes, KT]
              exact lin_step d3 a3 htl (by omega) (by omega)

theorem retry_cost {K : Nat} {pass : List (Option Val) → MSt → DecM (List (Option Val) × MSt)}
    (hp : PassOK K pass) :
    ∀ (fuel : Nat) (slots : List (Option Val)) (c : Cur) (slots' : List (Option Val)) (c' : Cur) (ood : Bool),
      retry pass fuel slots c = .ok (slots', c', ood) →
      c'.bs.length ≤ c.bs.length ∧ c.k ≤ c'.k ∧
        slotsNodes slots' ≤ slotsNodes slots + K * (c.bs.length - c'.bs.length) := by
  intro fuel
  induction fuel with
  | zero => intro slots c slots' c' ood h; simp [retry] at h
  | succ f ih =>
    intro slots c slots' c' ood h
    simp only [retry] at h
    split at h
    · cases h
    · rename_i ood0 c0 hend
      obtain ⟨e1, e2⟩ := isEnd_spec hend
      split at h
      · cases h
      · rename_i slots1 st1 hpass
        obtain ⟨p1, p2, p3⟩ := hp _ _ _ _ hpass
        dsimp only at p1 p2 p3
        split at h
        · cases h
          refine ⟨by omega, by omega, ?_⟩
          exact Nat.le_trans p3 (Nat.add_le_add_left (Nat.mul_le_mul_left _ (by omega)) _)
        · obtain ⟨r1, r2, r3⟩ := ih _ _ _ _ _ h
          refine ⟨by omega, by omega, ?_⟩
          have := mul_split (K := K) (a := K * (c0.bs.length - st1.cur.bs.length))
            (b := K * (st1.cur.bs.length - c'.bs.length)) (c := c.bs.length - c'.bs.length)
            (Nat.le_refl _) (Nat.le_refl _) (by omega)
          omega

theorem decodedOnly_cost (ms : Members) : ∀ (slots : List (Option Val)),
    Val.nodesFields (decodedOnly ms slots) ≤ MS ms + slotsNodes slots := by
  induction ms using Members.ind with
  | nil => intro slots; simp [decodedOnly, Val.nodesFields]
  | cons name p t rest ih =>
    intro slots
    have htl := slotsNodes_tail_le slots
    have := ih slots.tail
    simp only [decodedOnly]
    split
    · rename_i v hv
      rw [slotsNodes_head hv]
      simp only [Val.nodesFields, MS]
      omega
    · simp only [MS]; omega

theorem fill_cost (ms : Members) : ∀ (slots : List (Option Val)) (ign : Bool) (fs : List (String × Val)),
    fill ms slots ign = .ok fs → Val.nodesFields fs ≤ MS ms + slotsNodes slots := by
  induction ms using Members.ind with
  | nil => intro slots ign fs h; simp only [fill] at h; cases h; simp [Val.nodesFields]
  | cons name p t rest ih =>
    intro slots ign fs h
    have htl := slotsNodes_tail_le slots
    simp only [fill] at h
    split at h
    · rename_i v hv
      rw [slotsNodes_head hv]
      split at h
      · rename_i r hr
        cases h
        have := ih _ _ _ hr
        simp only [Val.nodesFields, MS]
        omega
      · cases h
    · split at h
      · have := ih _ _ _ h
        simp only [MS, presenceNodes]; omega
      · rename_i d
        split at h
        · rename_i r hr
          cases h
          have := ih _ _ _ hr
          simp only [Val.nodesFields, MS, presenceNodes]
          omega
        · cases h
      · split at h
        · cases h
          have := decodedOnly_cost rest slots.tail
          simp only [MS]; omega
        · cases h

theorem finishMembers_spec {fs : List (String × Val)} {c : Cur} {ood : Bool} {v : Val} {k : Nat} {r : Bytes}
    (h : finishMembers fs c ood = .ok (some (v, k, r))) :
    v = .record fs ∧ r.length ≤ c.bs.length ∧ c.k ≤ k := by
  unfold finishMembers at h
  split at h
  · cases h; exact ⟨rfl, Nat.le_refl _, Nat.le_refl _⟩
  · split at h
    · cases h
    · cases h
      refine ⟨rfl, ?_, by omega⟩
      simp only [List.length_drop]; omega


/-! ### SEQUENCE -/

theorem gSeq_cost (D : Decoder) (root adds : Members) (hr : Members.All (CT D) root)
    (ha : Members.All (CT D) adds) (tg : Option Nat) (f : Nat) :
    CP (1 + KDm root + KDm adds) (gSeq D root adds tg f) := by
  intro bs v k r h
  rw [KDm_eq, KDm_eq]
  unfold gSeq at h
  split at h
  · cases h
  · cases h
  · rename_i r0 hm
    have m1 := matchTag_len hm
    have m2 := mkTag_pos 16 true tg
    split at h
    · cases h
    · rename_i len hh r1 hl
      obtain ⟨l1, l2, _, _⟩ := readLen_spec hl
      split at h
      · cases h
      · rename_i slots c1 ood1 hret
        obtain ⟨q1, q2, q3⟩ := retry_cost (gPass_cost D root hr 0 f) _ _ _ _ _ _ hret
        rw [slotsNodes_replicate] at q3
        dsimp only at q1 q2 q3
        split at h
        · cases h
        · rename_i fs hfill
          have f1 := fill_cost root _ _ _ hfill
          split at h
          · obtain ⟨rfl, g2, g3⟩ := finishMembers_spec h
            refine ⟨by omega, by omega, ?_⟩
            simp only [Val.nodes]
            have := seq_arith (X := slotsNodes slots) (Y := 0) (A := KT root) (B := KT adds)
              (cx := r1.length - c1.bs.length) (cy := 0) (C := bs.length - r.length)
              (m1 := MS root) (m2 := MS adds) (by omega) (Nat.zero_le _) (by omega) (Nat.zero_le _)
              (by omega)
            omega
          · split at h
            · cases h
            · rename_i slots2 c2 ood2 hret2
              split at h
              · cases h
              · rename_i fs2 hfill2
                have f2 := fill_cost adds _ _ _ hfill2
                obtain ⟨rfl, g2, g3⟩ := finishMembers_spec h
                have key : c2.bs.length ≤ c1.bs.length ∧ c1.k ≤ c2.k ∧
                    slotsNodes slots2 ≤ KT adds * (c1.bs.length - c2.bs.length) := by
                  split at hret2
                  · cases hret2
                    rw [slotsNodes_replicate]
                    exact ⟨Nat.le_refl _, Nat.le_refl _, Nat.zero_le _⟩
                  · obtain ⟨w1, w2, w3⟩ :=
                      retry_cost (gPass_cost D adds ha root.length f) _ _ _ _ _ _ hret2
                    rw [slotsNodes_replicate] at w3
                    exact ⟨w1, w2, by omega⟩
                obtain ⟨w1, w2, w3⟩ := key
                refine ⟨by omega, by omega, ?_⟩
                simp only [Val.nodes, nodesFields_append]
                have := seq_arith (X := slotsNodes slots) (Y := slotsNodes slots2) (A := KT root)
                  (B := KT adds) (cx := r1.length - c1.bs.length) (cy := c1.bs.length - c2.bs.length)
                  (C := bs.length - r.length) (m1 := MS root) (m2 := MS adds) (by omega) w3
                  (by omega) (by omega) (by omega)
                omega

/-! ### CHOICE -/

theorem gAlt_cost (D : Decoder) (test : Ty → Nat → Bytes → Bool) (as : Alts) (has : Alts.All (CT D) as) :
    ∀ (i : Nat) (tag : Bytes) (f : Nat) (bs : Bytes) (res : DecM (Option Res)) (v : Val) (k : Nat) (r : Bytes),
      gAlt D test as i tag f bs = some res → res = .ok (some (v, k, r)) →
      r.length < bs.length ∧ 1 ≤ k ∧ v.nodes ≤ (1 + KDa as) * (bs.length - r.length) := by
  induction as using Alts.ind with
  | nil => intro i tag f bs res v k r h; simp [gAlt] at h
  | cons n t rest ih =>
    intro i tag f bs res v k r h hres
    obtain ⟨ht, hrest⟩ := has
    rw [gAlt] at h
    split at h
    · cases h
      split at hres
      · cases hres
      · cases hres
      · rename_i v' k' r' hdec
        cases hres
        obtain ⟨d1, d2, d3⟩ := ht (some i) f _ _ _ _ hdec
        refine ⟨d1, d2, ?_⟩
        simp only [Val.nodes, KDa]
        have c1 : 1 * 1 ≤ 1 * (bs.length - r.length) := Nat.mul_le_mul_left _ (by omega)
        have := bm_add c1 d3
        have e : (1 + KD t) * (bs.length - r.length) ≤ (1 + (KD t + KDa rest)) * (bs.length - r.length) :=
          Nat.mul_le_mul_right _ (by omega)
        have c2 : (1 + KD t) * (1 + (bs.length - r.length)) = (1 + KD t) * (bs.length - r.length) + (1 + KD t) := by
          rw [Nat.mul_add]; omega
        have c3 : 1 + v'.nodes ≤ (1 + KD t) * (bs.length - r.length) := by
          have : KD t * (bs.length - r.length) + 1 * (bs.length - r.length) = (1 + KD t) * (bs.length - r.length) := by
            rw [Nat.add_mul]; omega
          omega
        omega
    · obtain ⟨a1, a2, a3⟩ := ih hrest _ _ _ _ _ _ _ _ h hres
      refine ⟨a1, a2, ?_⟩
      exact bm_mono a3 (by simp only [KDa]; omega) (Nat.le_refl _)

theorem gBare_cost (D : Decoder) (test : Ty → Nat → Bytes → Bool) (root : Alts) (e : Bool) (adds : Alts)
    (hr : Alts.All (CT D) root) (ha : Alts.All (CT D) adds) (f : Nat) :
    CP (2 + KDa root + KDa adds) (gBare D test root e adds f) := by
  intro bs v k r h
  unfold gBare at h
  split at h
  · cases h
  · rename_i tag x ht
    split at h
    · rename_i res h1
      obtain ⟨a1, a2, a3⟩ := gAlt_cost D test root hr _ _ _ _ _ _ _ _ h1 h
      exact ⟨a1, a2, bm_mono a3 (by omega) (Nat.le_refl _)⟩
    · split at h
      · rename_i res h1
        obtain ⟨a1, a2, a3⟩ := gAlt_cost D test adds ha _ _ _ _ _ _ _ _ h1 h
        exact ⟨a1, a2, bm_mono a3 (by omega) (Nat.le_refl _)⟩
      · split at h
        · split at h
          · cases h
          · rename_i k' r' hs
            cases h
            obtain ⟨s1, s2⟩ := skipTLV_spec hs
            refine ⟨by omega, by omega, ?_⟩
            simp only [Val.nodes]
            have : 2 * 1 ≤ 2 * (bs.length - r.length) := Nat.mul_le_mul_left _ (by omega)
            exact bm_mono (K := 2) (c := bs.length - r.length) (by omega) (by omega) (Nat.le_refl _)
        · cases h

theorem gChoice_cost (D : Decoder) (test : Ty → Nat → Bytes → Bool) (root : Alts) (e : Bool) (adds : Alts)
    (hr : Alts.All (CT D) root) (ha : Alts.All (CT D) adds) (tg : Option Nat) (f : Nat) :
    CP (2 + KDa root + KDa adds) (gChoice D test root e adds tg f) := by
  intro bs v k r h
  unfold gChoice at h
  split at h
  · exact gBare_cost D test root e adds hr ha f bs v k r h
  · rename_i j
    split at h
    · cases h
    · cases h
    · rename_i r0 hm
      have m1 := matchTag_len hm
      split at h
      · cases h
      · rename_i len hh r1 hl
        obtain ⟨l1, l2, _, _⟩ := readLen_spec hl
        split at h
        · cases h
        · cases h
        · rename_i v' k' r2 hb
          obtain ⟨b1, b2, b3⟩ := gBare_cost D test root e adds hr ha f _ _ _ _ hb
          split at h
          · cases h
            exact ⟨by omega, by omega, bm_mono b3 (Nat.le_refl _) (by omega)⟩
          · split at h
            · cases h
            · cases h
              simp only [List.length_drop]
              exact ⟨by omega, by omega, bm_mono b3 (Nat.le_refl _) (by omega)⟩
            · cases h


end Asn1.Cost
