import Asn1Proofs.Lemmas.ExtDefs
import Asn1Proofs.Lemmas.DerRoundtrip
/-
  C07, DER: definitions and the easy cases of the cross-version round trip
  (leaf types, ENUMERATED, SEQUENCE OF), plus the lemmas about `view`, identifier octets and
  `skipTLV` the SEQUENCE and CHOICE cases need.
-/
set_option linter.unusedSimpArgs false
set_option linter.unusedVariables false
namespace Asn1.Ext.DerX
open Asn1 Asn1.Der Asn1.Ext
open Asn1.Oer (enumValue enumName)

/-- cross-version round trip of the pair decoder type `tD` / encoder type `tE`, in any tagging context
(the same statement as `XT` of `ExtDer.lean`) -/
def XTd (tD tE : Ty) : Prop :=
  ∀ (tg : Option Nat) (v : Val) (bytes rest : Bytes) (fuel : Nat),
    tE.wf = true → Oer.oerWf tE = true → X690.defaultsOkV tE = true → dOk true tD tE →
    hasType tE v = true → enc tE tg v = .ok bytes → bytes.length < fuel →
    dec tD tg fuel (bytes ++ rest) = .ok (some (view true tD tE v, bytes.length, rest))

/-- what the induction carries for a pair of component types -/
def XC (tD tE : Ty) : Prop := XTd tD tE ∧ Compat tD tE

/-- member lists paired by position: common members have the same name and presence; the encoder's
list may go on (unknown additions), and so may the decoder's (omissible additions only it knows) -/
def PairM (P : Ty → Ty → Prop) : Members → Members → Prop
  | .nil, _ => True
  | .cons n p tD mD, .cons n' p' tE mE => n' = n ∧ p' = p ∧ P tD tE ∧ PairM P mD mE
  | .cons _ p _ mD, .nil => omissible p = true ∧ PairM P mD .nil

/-- alternative lists paired by position -/
def PairA (P : Ty → Ty → Prop) : Alts → Alts → Prop
  | .cons n tD mD, .cons n' tE mE => n' = n ∧ P tD tE ∧ PairA P mD mE
  | _, _ => True

theorem pairM_nilE (P : Ty → Ty → Prop) (ms : Members) (h : allOmissible ms = true) : PairM P ms .nil := by
  induction ms using Members.ind with
  | nil => trivial
  | cons n p t rest ih =>
    simp only [allOmissible, Bool.and_eq_true] at h
    exact ⟨h.1, ih h.2⟩

/-! ### identifier octets depend on the constructor only -/

theorem compat_tagOf {tD tE : Ty} (h : Compat tD tE) (tg : Option Nat) : tagOf tD tg = tagOf tE tg := by
  cases h <;> rfl

theorem compatMembers_length {rD rE : Members} (h : CompatMembers rD rE) : rD.length = rE.length := by
  induction rD using Members.ind generalizing rE with
  | nil => cases h; rfl
  | cons n p t rest ih =>
    cases h with
    | cons _ _ _ h2 => simp only [Members.length, ih h2]

theorem compatAlts_length {rD rE : Alts} (h : CompatAlts rD rE) : rD.length = rE.length := by
  induction rD using Alts.ind generalizing rE with
  | nil => cases h; rfl
  | cons n t rest ih =>
    cases h with
    | cons _ _ h2 => simp only [Alts.length, ih h2]

/-! ### `view` on leaves, DEFAULT handling -/

theorem view_boolean (v : Val) : view true .boolean .boolean v = v := by cases v <;> simp only [view]
theorem view_null (v : Val) : view true .null .null v = v := by cases v <;> simp only [view]
theorem view_integer (c : IntC) (v : Val) : view true (.integer c) (.integer c) v = v := by
  cases v <;> simp only [view]
theorem view_octetString (c : SizeC) (v : Val) : view true (.octetString c) (.octetString c) v = v := by
  cases v <;> simp only [view]
theorem view_charString (k : StrKind) (c : SizeC) (v : Val) :
    view true (.charString k c) (.charString k c) v = v := by
  cases v <;> simp only [view]

/-- the encoder left a DEFAULT member out: the decoder's default is what it would have seen -/
theorem view_of_isDefaultB {tD tE : Ty} (hc : Compat tD tE) (v d : Val)
    (hd : view true tD tE d = d) (h : isDefaultB tE v d = true) : view true tD tE v = d := by
  have h' : isDefault tE v d = true := by
    unfold isDefaultB at h
    split at h
    · cases h
    · exact h
  unfold isDefault at h'
  split at h'
  · rename_i c a n b m
    cases hc
    rw [view] at hd ⊢
    simp only [Bool.and_eq_true, beq_iff_eq] at h'
    have hcb := (Val.bits.inj hd).1
    obtain ⟨h1, h2⟩ := h'
    subst h1
    rw [h2, hcb]
  · have := Val.eq_of_beq _ _ h'
    subst this
    exact hd

/-! ### every encoding in a member context is one TLV; `skipTLV` steps over it -/

theorem null_tlv (tag : Bytes) : tag ++ [0] = tlv tag [] := by
  simp [tlv, Ber.encLength]

theorem enc_tlv {t : Ty} {j : Nat} {v : Val} {b : Bytes} (h : enc t (some j) v = .ok b) :
    ∃ content, b = tlv (tagOf t (some j)) content := by
  cases t <;> cases v <;> simp only [enc] at h <;> try (cases h; done)
  case boolean.bool => cases h; exact ⟨_, rfl⟩
  case null.null => cases h; exact ⟨[], null_tlv _⟩
  case integer.int => cases h; exact ⟨_, rfl⟩
  case enumerated.enum =>
    split at h
    · cases h
    · cases h; exact ⟨_, rfl⟩
  case octetString.bytes => cases h; exact ⟨_, rfl⟩
  case bitString.bits => cases h; exact ⟨_, rfl⟩
  case charString.str =>
    split at h
    · cases h
    · cases h; exact ⟨_, rfl⟩
  case sequence.record =>
    split at h
    · cases h
    · split at h
      · cases h
      · cases h; exact ⟨_, rfl⟩
  case sequenceOf.list =>
    split at h
    · cases h
    · cases h; exact ⟨_, rfl⟩
  case choice.choice =>
    split at h
    · cases h
    · cases h; exact ⟨_, rfl⟩

theorem skipTLV_tlv (u : Nat) (c : Bool) (j : Nat) (content rest : Bytes) :
    skipTLV (tlv (mkTag u c (some j)) content ++ rest)
      = .ok ((tlv (mkTag u c (some j)) content).length, rest) := by
  rw [tlv_append, skipTLV]
  simp only [bind, Except.bind]
  rw [readTag_mkTag_ctx u c j _ (by simp [encLength_ne_nil_rt])]
  simp only [readLen_encLength, tlv_length, List.drop_left]

/-! ### leaf types: decoder type = encoder type -/

theorem xt_boolean : XTd .boolean .boolean := by
  intro tg v bytes rest fuel hwf hwf2 hd _ ht he hf
  rw [view_boolean, rt_all_der .boolean tg v bytes rest fuel hwf hwf2 hd ht he hf, canonV_boolean]

theorem xt_null : XTd .null .null := by
  intro tg v bytes rest fuel hwf hwf2 hd _ ht he hf
  rw [view_null, rt_all_der .null tg v bytes rest fuel hwf hwf2 hd ht he hf, canonV_null]

theorem xt_integer (c : IntC) : XTd (.integer c) (.integer c) := by
  intro tg v bytes rest fuel hwf hwf2 hd _ ht he hf
  rw [view_integer, rt_all_der (.integer c) tg v bytes rest fuel hwf hwf2 hd ht he hf, canonV_integer]

theorem xt_octetString (c : SizeC) : XTd (.octetString c) (.octetString c) := by
  intro tg v bytes rest fuel hwf hwf2 hd _ ht he hf
  rw [view_octetString, rt_all_der (.octetString c) tg v bytes rest fuel hwf hwf2 hd ht he hf,
    canonV_octetString]

theorem xt_charString (k : StrKind) (c : SizeC) : XTd (.charString k c) (.charString k c) := by
  intro tg v bytes rest fuel hwf hwf2 hd _ ht he hf
  rw [view_charString, rt_all_der (.charString k c) tg v bytes rest fuel hwf hwf2 hd ht he hf,
    canonV_charString]

theorem xt_bitString (c : SizeC) : XTd (.bitString c) (.bitString c) := by
  intro tg v bytes rest fuel hwf hwf2 hd _ ht he hf
  rw [rt_all_der (.bitString c) tg v bytes rest fuel hwf hwf2 hd ht he hf]
  cases v <;> simp only [hasType, Bool.false_eq_true] at ht
  rw [view, X690.canonV]

/-! ### ENUMERATED -/

theorem xt_enumerated (root : List (String × Int)) : XTd (.enumerated root none) (.enumerated root none) := by
  intro tg v bytes rest fuel hwf hwf2 hd _ ht he hf
  rw [rt_all_der (.enumerated root none) tg v bytes rest fuel hwf hwf2 hd ht he hf, canonV_enumerated]
  cases v <;> simp only [hasType, Bool.false_eq_true] at ht
  rw [view, if_pos ht]

theorem mem_namesOf_append' (n : String) (a b : List (String × Int)) :
    n ∈ namesOf (a ++ b) ↔ n ∈ namesOf a ∨ n ∈ namesOf b := by
  simp [namesOf]

theorem enumValue_append_left (name : String) (l1 l2 : List (String × Int)) (h : name ∈ namesOf l1) :
    enumValue name (l1 ++ l2) = enumValue name l1 := by
  induction l1 with
  | nil => simp [namesOf] at h
  | cons x r ih =>
    obtain ⟨n, w⟩ := x
    simp only [List.cons_append, enumValue]
    by_cases hn : n = name
    · simp [hn]
    · simp only [namesOf, List.map_cons, List.mem_cons] at h
      rcases h with h | h
      · exact absurd h.symm hn
      · have hb : (n == name) = false := by simpa using hn
        simp only [hb, Bool.false_eq_true, if_false]
        exact ih h

theorem enumValue_append_right (name : String) (l1 l2 : List (String × Int)) (h : name ∉ namesOf l1) :
    enumValue name (l1 ++ l2) = enumValue name l2 := by
  induction l1 with
  | nil => rfl
  | cons x r ih =>
    obtain ⟨n, w⟩ := x
    simp only [namesOf, List.map_cons, List.mem_cons, not_or] at h
    simp only [List.cons_append, enumValue]
    have hb : (n == name) = false := by
      have : ¬ n = name := fun e => h.1 e.symm
      simpa using this
    simp only [hb, Bool.false_eq_true, if_false]
    exact ih h.2

theorem enumValue_mem_values {name : String} {l : List (String × Int)} {v : Int}
    (h : enumValue name l = some v) : v ∈ l.map (·.2) := by
  induction l with
  | nil => simp [enumValue] at h
  | cons x r ih =>
    obtain ⟨n, w⟩ := x
    simp only [enumValue] at h
    split at h
    · cases h; simp
    · simp [ih h]

theorem enumName_none_of_not_mem (v : Int) (l : List (String × Int)) (h : v ∉ l.map (·.2)) :
    enumName v l = none := by
  induction l with
  | nil => rfl
  | cons x r ih =>
    obtain ⟨n, w⟩ := x
    simp only [List.map_cons, List.mem_cons, not_or] at h
    simp only [enumName]
    rw [if_neg (fun e => h.1 e.symm)]
    exact ih h.2

theorem enumName_append_left (v : Int) (l1 l2 : List (String × Int)) (n : String)
    (h : enumName v l1 = some n) : enumName v (l1 ++ l2) = some n := by
  induction l1 with
  | nil => simp [enumName] at h
  | cons x r ih =>
    obtain ⟨m, w⟩ := x
    simp only [List.cons_append, enumName] at h ⊢
    split
    · rename_i hw; simpa [hw] using h
    · rename_i hw; simp only [hw, if_false] at h; exact ih h

/-- the encoder knows items `new` the decoder does not -/
theorem xt_enumeratedD (root adds new : List (String × Int)) :
    XTd (.enumerated root (some adds)) (.enumerated root (some (adds ++ new))) := by
  intro tg v bytes rest fuel hwf hwf2 hd _ ht he hf
  cases v <;> simp only [hasType, Bool.false_eq_true] at ht
  rename_i name
  rw [Oer.oerWf] at hwf2
  simp only [decide_eq_true_eq, Option.getD_some] at hwf2
  rw [enc] at he
  simp only [Option.getD_some] at he
  split at he
  · cases he
  · rename_i val hval
    cases he
    rw [← List.append_assoc] at hval hwf2
    rw [List.map_append, List.nodup_append] at hwf2
    obtain ⟨nd1, nd2, disj⟩ := hwf2
    rw [dec, view]
    simp only [bind, Except.bind, readPrim_tlv, enumOfContent, bytesToInt_intToBytesMin', Option.getD_some,
      Option.isSome_some, if_true]
    by_cases hmem : name ∈ namesOf (root ++ adds)
    · rw [enumValue_append_left _ _ _ hmem] at hval
      rw [Oer.enumName_of_enumValue name val _ nd1 hval]
      have hc : ((namesOf root).contains name || (namesOf adds).contains name) = true := by
        rw [mem_namesOf_append'] at hmem
        simpa using hmem
      simp only [hc, if_true]
    · rw [enumValue_append_right _ _ _ hmem] at hval
      have hv2 := enumValue_mem_values hval
      have hnot : val ∉ (root ++ adds).map (·.2) := fun h1 => disj val h1 val hv2 rfl
      rw [enumName_none_of_not_mem _ _ hnot]
      have hc : ((namesOf root).contains name || (namesOf adds).contains name) = false := by
        rw [mem_namesOf_append'] at hmem
        simpa using hmem
      simp only [hc, Bool.false_eq_true, if_false]

/-- the decoder knows items `new` the encoder does not -/
theorem xt_enumeratedE (root adds new : List (String × Int)) :
    XTd (.enumerated root (some (adds ++ new))) (.enumerated root (some adds)) := by
  intro tg v bytes rest fuel hwf hwf2 hd _ ht he hf
  cases v <;> simp only [hasType, Bool.false_eq_true] at ht
  rename_i name
  rw [Oer.oerWf] at hwf2
  simp only [decide_eq_true_eq, Option.getD_some] at hwf2
  rw [enc] at he
  simp only [Option.getD_some] at he
  split at he
  · cases he
  · rename_i val hval
    cases he
    have hname := Oer.enumName_of_enumValue name val _ hwf2 hval
    rw [dec, view]
    simp only [bind, Except.bind, readPrim_tlv, enumOfContent, bytesToInt_intToBytesMin', Option.getD_some]
    rw [← List.append_assoc, enumName_append_left _ _ _ _ hname]
    have hc : ((namesOf root).contains name || (namesOf (adds ++ new)).contains name) = true := by
      simp only [Bool.or_eq_true, List.contains_eq_mem, decide_eq_true_eq] at ht ⊢
      rcases ht with ht | ht
      · exact Or.inl ht
      · exact Or.inr ((mem_namesOf_append' _ _ _).mpr (Or.inl ht))
    simp only [hc, if_true]

/-! ### SEQUENCE OF -/

theorem xt_sequenceOf (eD eE : Ty) (c : SizeC) (ih : XTd eD eE) : XTd (.sequenceOf eD c) (.sequenceOf eE c) := by
  intro tg v bytes rest fuel hwf hwf2 hd hdk ht he hfuel
  cases v <;> try (simp only [hasType, Bool.false_eq_true] at ht; done)
  rename_i vs
  simp only [hasType, Bool.and_eq_true, List.all_eq_true] at ht
  simp only [Ty.wf, Bool.and_eq_true] at hwf
  simp only [Oer.oerWf] at hwf2
  simp only [X690.defaultsOkV] at hd
  simp only [dOk] at hdk
  rw [view]
  rw [enc] at he
  rw [dec]
  split at he
  · cases he
  · rename_i items hitems
    cases he
    rw [tlv_length] at hfuel
    rw [tlv_append]
    simp only [bind, Except.bind, matchTag_self, readLen_encLength, Option.getD_some]
    rw [derElems_mapM (enc eE none) (view true eD eE) (dec eD none fuel) items.flatten.length vs items rest
      (fun x hx b hb => enc_ne_nil hb)
      (fun x hx b r hb hl => ih none x b r fuel hwf.1 hwf2 hd hdk (ht.1 x hx) hb (by omega))
      hitems (Nat.le_refl _) fuel (by omega)]
    simp only [tlv_length]

end Asn1.Ext.DerX
