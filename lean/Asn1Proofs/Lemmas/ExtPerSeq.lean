import Asn1Proofs.Lemmas.ExtPerChoice
/-
  C07, ALIGNED PER: SEQUENCE.  Root members, extension additions (known ones are decoded at the octet
  boundary and padded, those only the encoder knows are skipped by their open type length -- FRAME),
  and the SEQUENCE type itself.
-/
set_option linter.unusedSimpArgs false
set_option linter.unusedVariables false
namespace Asn1.Ext.PerX
open Asn1 Asn1.Per Asn1.Ext
open Asn1.Uper (smallLen EncM DecM lenDet encNsLength padToByte padToByte_eq encNsLength_small)

/-! ### root members -/

/-- statement for the root members of a SEQUENCE -/
def XTM (mD mE : Members) : Prop :=
  ∀ (fs : List (String × Val)), mE.wf = true → mE.defaultsOk = true → mE.nsOk = true →
    dOkMembers false mD mE → membersOk mE fs = true → fragFreeMembers mE fs = true →
    skipFreeMembers mD mE fs = true →
    ∀ (pos pos' : Nat) (body rest : Bits) (fuel : Nat), pos' % 8 = pos % 8 →
      encMembers mE fs false pos = .ok body → body.length + rest.length + 2 ≤ fuel →
      decMembers mD fuel (encPreamble mE fs) ⟨pos', body ++ rest⟩ =
        .ok (viewMembers false mD mE fs true, ⟨pos' + body.length, rest⟩)

theorem xtm_nil : XTM .nil .nil := by
  intro fs _ _ _ _ _ _ _ pos pos' body rest fuel _ hb _
  cases hb
  rfl

theorem xtm_cons (name : String) (p : Presence) (tD tE : Ty) (mD mE : Members)
    (hc : Compat tD tE) (hx : XT tD tE) (ih : XTM mD mE) :
    XTM (.cons name p tD mD) (.cons name p tE mE) := by
  intro fs hwf hd hns hdok hok hff hsk pos pos' body rest fuel hp hb hfuel
  simp only [Members.wf, Members.defaultsOk, Members.nsOk, membersOk, fragFreeMembers,
    skipFreeMembers, Bool.and_eq_true] at hwf hd hns hok hff hsk
  simp only [dOkMembers] at hdok
  rw [encMembers_cons] at hb
  rw [encPreamble_cons]
  cases ha : encHere p tE (lookup name fs) false pos with
  | error e => rw [ha] at hb; cases hb
  | ok a =>
  rw [ha] at hb
  simp only at hb
  cases hb' : encMembers mE fs false (pos + a.length) with
  | error e => rw [hb'] at hb; cases hb
  | ok b =>
  rw [hb'] at hb
  cases hb
  simp only [List.length_append] at hfuel
  have ihd := ih fs hwf.2 hd.2 hns.2 hdok.2.2 hok.2 hff.2 hsk.2 (pos + a.length) (pos' + a.length)
    b rest fuel (by omega) hb' (by omega)
  -- a present member
  have present : ∀ v, lookup name fs = some v → enc tE pos v = .ok a →
      decHere name tD mD fuel (encPreamble mE fs) ⟨pos', a ++ b ++ rest⟩ =
        .ok (viewMembers false (.cons name p tD mD) (.cons name p tE mE) fs true,
          ⟨pos' + (a ++ b).length, rest⟩) := by
    intro v hl hav
    simp only [hl] at hok hff hsk
    have := hx v pos pos' a (b ++ rest) fuel hwf.1 hd.1.2 hns.1 hdok.2.1 hok.1 hff.1 hsk.1 hp hav
      (by simp only [List.length_append]; omega)
    simp only [decHere, bind, Except.bind, List.append_assoc, this, ihd]
    rw [UperX.viewMembers_cons, hl]
    simp only [List.length_append, Nat.add_assoc]
  cases hl : lookup name fs with
  | some v =>
    simp only [hl, encHere] at ha
    cases p with
    | mandatory =>
      simp only at ha ⊢
      rw [decMembers_mandatory, present v hl ha]
    | optional =>
      simp only [Option.isSome_some] at ha ⊢
      rw [decMembers_optional_true, present v hl ha]
    | default d =>
      simp only [Bool.or_false] at ha ⊢
      cases hdef : isDefault tE v d with
      | false =>
        simp only [hdef, Bool.not_false, if_true] at ha ⊢
        rw [decMembers_default_true, present v hl ha]
      | true =>
        simp only [hdef, Bool.not_true, Bool.false_eq_true, if_false] at ha ⊢
        cases ha
        have hcan := UperX.view_of_isDefault hc v d hdef hdok.1
        rw [decMembers_default_false, UperX.viewMembers_cons, hl]
        simp only [List.length_nil, Nat.add_zero] at ihd
        simp only [List.nil_append, bind, Except.bind, ihd, hcan]
  | none =>
    simp only [hl, encHere] at ha hok
    rw [UperX.viewMembers_cons, hl]
    cases p with
    | mandatory => simp at hok
    | optional =>
      simp only at ha ⊢
      cases ha
      simp only [List.length_nil, Nat.add_zero] at ihd
      simp only [Option.isSome_none]
      rw [decMembers_optional_false]
      simp only [List.nil_append, ihd]
    | default d =>
      simp only at ha ⊢
      cases ha
      simp only [List.length_nil, Nat.add_zero] at ihd
      rw [decMembers_default_false]
      simp only [List.nil_append, bind, Except.bind, ihd, if_true]

/-! ### extension additions -/

theorem members_all_rt (ms : Members) : ms.All RT := by
  induction ms using Members.ind with
  | nil => trivial
  | cons name p t rest ih => exact ⟨rt_all t, ih⟩

/-- statement for the extension additions of a SEQUENCE -/
def XTA (aD aE : Members) : Prop :=
  ∀ (fs : List (String × Val)), aE.wf = true → aE.defaultsOk = true → aE.nsOk = true →
    dOkMembers false aD aE → membersOk aE fs = true → fragFreeMembers aE fs = true →
    skipFreeAdds aD aE fs = true →
    ∀ (present : Bits) (encs : List Bits), encAdditions aE fs = .ok (present, encs) →
    (encs = [] → viewMembers false aD aE fs false = []) ∧
    ∀ (pos' : Nat) (rest : Bits) (fuel : Nat), pos' % 8 = 0 →
      (encs.flatMap openType).length + rest.length + 2 ≤ fuel →
      decAdditions aD fuel present ⟨pos', encs.flatMap openType ++ rest⟩ =
        .ok (viewMembers false aD aE fs false, ⟨pos' + (encs.flatMap openType).length, rest⟩)

theorem skipUnknown_cons_true (bitmap : Bits) (s : St) :
    skipUnknown (true :: bitmap) s =
      (do
        let (len, r) ← readLenDet s
        let (_, r') ← readBits (8 * len) r
        skipUnknown bitmap r') := rfl

theorem skipUnknown_cons_false (bitmap : Bits) (s : St) :
    skipUnknown (false :: bitmap) s = skipUnknown bitmap s := rfl

/-- FRAME: the open types of additions the decoder does not know are skipped by exactly their length,
provided that length is written unfragmented (`openSmall`) -/
theorem skipUnknown_enc (fs : List (String × Val)) (ms : Members) :
    ms.wf = true → membersOk ms fs = true → openSmall ms fs = true →
    ∀ (present : Bits) (encs : List Bits), encAdditions ms fs = .ok (present, encs) →
    ∀ (pos' : Nat) (rest : Bits),
      skipUnknown present ⟨pos', encs.flatMap openType ++ rest⟩ =
        .ok ⟨pos' + (encs.flatMap openType).length, rest⟩ := by
  induction ms using Members.ind with
  | nil =>
    intro _ _ _ present encs henc pos' rest
    cases henc
    rfl
  | cons name p t ms ih =>
    intro hwf hok hsm present encs henc pos' rest
    simp only [Members.wf, membersOk, openSmall, Bool.and_eq_true] at hwf hok hsm
    rw [encAdditions_cons] at henc
    cases hl : lookup name fs with
    | some v =>
      simp only [hl] at hok hsm henc
      obtain ⟨e, he⟩ := et_all t v 0 hwf.1 hok.1
      rw [he] at hsm
      simp only [smallLen, decide_eq_true_eq] at hsm
      simp only [addHere, he] at henc
      cases hr : encAdditions ms fs with
      | error err => rw [hr] at henc; cases henc
      | ok pe =>
        obtain ⟨present', encs'⟩ := pe
        rw [hr] at henc
        simp only [Option.isSome_some, or_true, if_true] at henc
        cases henc
        have ih' := ih hwf.2 hok.2 hsm.2 present' encs' hr
        rw [flatMap_openType_cons, skipUnknown_cons_true]
        simp only [openType, Uper.padToByte_length_div, bind, Except.bind, List.append_assoc]
        rw [readLenDet_lenDet, Uper.lenDet_snd_of_lt hsm.1]
        simp only
        rw [readBits_append _ _ _ (padToByte_length e)]
        simp only
        rw [ih']
        simp only [List.length_append, padToByte_length, Except.ok.injEq]
        exact St.eq_of_pos _ (by omega)
    | none =>
      simp only [hl] at hok henc
      have hah : addHere p t none = .ok [] := by
        cases p with
        | mandatory => simp at hok
        | optional => rfl
        | default d => rfl
      rw [hah] at henc
      cases hr : encAdditions ms fs with
      | error err => rw [hr] at henc; cases henc
      | ok pe =>
        obtain ⟨present', encs'⟩ := pe
        rw [hr] at henc
        simp only [List.length_nil, Nat.lt_irrefl, Option.isSome_none, Bool.false_eq_true,
          or_self, if_false, Except.ok.injEq, Prod.mk.injEq] at henc
        obtain ⟨hp1, hp2⟩ := henc
        subst hp1 hp2
        rw [skipUnknown_cons_false]
        exact ih hwf.2 hok.2 hsm.2 present' encs' hr pos' rest

/-- the decoder knows fewer additions than the encoder: the rest is skipped -/
theorem xta_nilD (ms : Members) : XTA .nil ms := by
  intro fs hwf _ _ _ hok _ hsk present encs henc
  refine ⟨fun _ => rfl, fun pos' rest fuel _ _ => ?_⟩
  have hsm : openSmall ms fs = true := by
    cases ms <;> simpa only [skipFreeAdds] using hsk
  simp only [decAdditions, bind, Except.bind,
    skipUnknown_enc fs ms hwf hok hsm present encs henc pos' rest]
  rfl

/-- the decoder knows more additions than the encoder: the presence bitmap ends before them -/
theorem xta_nilE (ms : Members) : XTA ms .nil := by
  intro fs _ _ _ _ _ _ _ present encs henc
  cases henc
  refine ⟨fun _ => UperX.viewMembers_nilE_false fs ms, fun pos' rest fuel _ _ => ?_⟩
  rw [UperX.viewMembers_nilE_false]
  cases ms <;> rfl

theorem xta_cons (name : String) (p : Presence) (tD tE : Ty) (mD mE : Members)
    (hx : XT tD tE) (ih : XTA mD mE) : XTA (.cons name p tD mD) (.cons name p tE mE) := by
  intro fs hwf hd hns hdok hok hff hsk present encs henc
  simp only [Members.wf, Members.defaultsOk, Members.nsOk, membersOk, fragFreeMembers,
    skipFreeAdds, Bool.and_eq_true] at hwf hd hns hok hff hsk
  simp only [dOkMembers] at hdok
  rw [encAdditions_cons] at henc
  rw [UperX.viewMembers_cons]
  cases hl : lookup name fs with
  | some v =>
    simp only [hl] at hok hff hsk henc
    obtain ⟨e, he⟩ := et_all tE v 0 hwf.1 hok.1
    simp only [addHere, he] at henc
    cases hr : encAdditions mE fs with
    | error err => rw [hr] at henc; cases henc
    | ok pe =>
      obtain ⟨present', encs'⟩ := pe
      rw [hr] at henc
      simp only [Option.isSome_some, or_true, if_true] at henc
      cases henc
      obtain ⟨ih2, ih3⟩ := ih fs hwf.2 hd.2 hns.2 hdok.2.2 hok.2 hff.2 hsk.2 present' encs' hr
      refine ⟨by simp, ?_⟩
      intro pos' rest fuel hp8 hfuel
      have hm := lenDet_length_mod ((e.length + 7) / 8)
      rw [flatMap_openType_cons, openType_eq] at hfuel ⊢
      simp only [List.length_append, List.length_replicate] at hfuel
      have hrt := hx v 0 (pos' + (lenDet ((e.length + 7) / 8)).1.length) e
        (List.replicate (8 * ((e.length + 7) / 8) - e.length) false ++
          (encs'.flatMap openType ++ rest)) fuel hwf.1 hd.1.2 hns.1 hdok.2.1 hok.1 hff.1 hsk.1
        (by omega) he
        (by simp only [List.length_append, List.length_replicate]; omega)
      rw [decAdditions_cons_true]
      simp only [bind, Except.bind, List.append_assoc]
      rw [readLenDet_lenDet]
      simp only
      rw [hrt]
      simp only
      have hpl : padLen (pos' + (lenDet ((e.length + 7) / 8)).1.length + e.length -
          (pos' + (lenDet ((e.length + 7) / 8)).1.length)) = 8 * ((e.length + 7) / 8) - e.length := by
        rw [Nat.add_sub_cancel_left, padLen_eq]
      rw [hpl, readBits_append _ _ _ (List.length_replicate ..)]
      simp only
      rw [ih3 _ rest fuel (by omega) (by omega)]
      simp only [List.length_append, List.length_replicate, Except.ok.injEq, Prod.mk.injEq, true_and]
      exact St.eq_of_pos _ (by omega)
  | none =>
    simp only [hl] at hok henc
    have hah : addHere p tE none = .ok [] := by
      cases p with
      | mandatory => simp at hok
      | optional => rfl
      | default d => rfl
    rw [hah] at henc
    cases hr : encAdditions mE fs with
    | error err => rw [hr] at henc; cases henc
    | ok pe =>
      obtain ⟨present', encs'⟩ := pe
      rw [hr] at henc
      simp only [List.length_nil, Nat.lt_irrefl, Option.isSome_none, Bool.false_eq_true,
        or_self, if_false, Except.ok.injEq, Prod.mk.injEq] at henc
      obtain ⟨hp1, hp2⟩ := henc
      subst hp1 hp2
      obtain ⟨ih2, ih3⟩ := ih fs hwf.2 hd.2 hns.2 hdok.2.2 hok.2 hff.2 hsk.2 present' encs' hr
      cases p <;> simp only [Bool.false_eq_true, if_false] <;>
        exact ⟨ih2, fun pos' rest fuel hp8 hfuel => by
          rw [decAdditions_cons_false]; exact ih3 pos' rest fuel hp8 hfuel⟩

/-! ### SEQUENCE -/

theorem optionalCount_compat (rD : Members) :
    ∀ rE, CompatMembers rD rE → optionalCount rD = optionalCount rE := by
  induction rD using Members.ind with
  | nil => intro rE h; cases h; rfl
  | cons name p t rest ih =>
    intro rE h
    cases h with
    | cons _ _ h1 h2 => rw [optionalCount_cons, optionalCount_cons, ih _ h2]

theorem xt_sequence (rD rE aD aE : Members) (x : Bool) (hcm : CompatMembers rD rE)
    (hm : XTM rD rE) (ha : XTA aD aE) : XT (.sequence rD x aD) (.sequence rE x aE) := by
  intro v pos pos' bits rest fuel hwf hd hns hdok ht hf hsk hp he hfuel
  cases v <;> try (simp only [hasType, Bool.false_eq_true] at ht; done)
  rename_i fs
  rw [Ty.wf] at hwf
  rw [Ty.defaultsOk] at hd
  rw [Ty.nsOk] at hns
  rw [fragFree] at hf
  rw [skipFree] at hsk
  simp only [dOk] at hdok
  simp only [Bool.and_eq_true, decide_eq_true_eq, Bool.or_eq_true, beq_iff_eq] at hwf hd hns hf hsk
  obtain ⟨⟨⟨⟨hrwf, hawf⟩, hnd⟩, hext⟩, h64⟩ := hwf
  obtain ⟨hokr, hoka⟩ := membersOk_of_hasType rE aE x fs hnd ht
  simp only [view]
  rw [enc_sequence] at he
  have hplen : (encPreamble rE fs).length = optionalCount rD := by
    rw [encPreamble_length, optionalCount_compat rD rE hcm]
  generalize hpre : encPreamble rE fs = pre at *
  cases hbody : encMembers rE fs false (pos + (if x = true then 1 else 0) + pre.length) with
  | error e => rw [hbody] at he; cases he
  | ok body =>
  rw [hbody] at he
  simp only at he
  have hm := fun q hq rest' hfu => hm fs hrwf hd.1 hns.1 hdok.1 hokr hf.1 hsk.1
    (pos + (if x = true then 1 else 0) + pre.length) q body rest' fuel hq hbody hfu
  rw [hpre] at hm
  obtain ⟨present, encs, a0, a1, _, _⟩ :=
    rt_additions fs aE (members_all_rt aE) (members_all_et aE) hawf hd.2 hns.2 hoka hf.2
  obtain ⟨a2, a3⟩ := ha fs hawf hd.2 hns.2 hdok.2 hoka hf.2 hsk.2 present encs a0
  have plain : ∀ bits : Bits, bits = (if x = true then [false] else []) ++ (pre ++ body) →
      viewMembers false aD aE fs false = [] → bits.length + rest.length + 2 ≤ fuel →
      dec (.sequence rD x aD) fuel ⟨pos', bits ++ rest⟩ =
        .ok (.record (viewMembers false rD rE fs true ++ viewMembers false aD aE fs false),
          ⟨pos' + bits.length, rest⟩) := by
    intro bits hb hc hfu
    subst hb
    rw [dec]
    cases x with
    | false =>
      simp only [Bool.false_eq_true, if_false, List.nil_append, Nat.add_zero, List.length_append]
        at hm hfu ⊢
      simp only [bind, Except.bind, List.append_assoc]
      rw [readBits_append _ _ _ hplen]
      simp only
      rw [← hplen, hm _ (by omega) rest (by omega)]
      simp only [hc, List.append_nil, Nat.add_assoc, Bool.false_eq_true, if_false]
    | true =>
      simp only [if_true, List.length_append, List.length_cons, List.length_nil] at hm hfu ⊢
      simp only [bind, Except.bind, List.append_assoc, List.cons_append, List.nil_append,
        readBit_cons]
      rw [readBits_append _ _ _ hplen]
      simp only
      rw [← hplen, hm _ (by omega) rest (by omega)]
      simp only [hc, List.append_nil, Bool.false_eq_true, if_false, Except.ok.injEq, Prod.mk.injEq,
        true_and]
      exact St.eq_of_pos _ (by omega)
  cases x with
  | false =>
    simp only [Bool.false_eq_true, if_false, false_or] at he hext
    cases he
    have : aE = .nil := by
      cases aE with
      | nil => rfl
      | cons _ _ _ _ => simp [Members.length] at hext
    subst this
    cases a0
    exact plain _ (by simp) (a2 rfl) hfuel
  | true =>
    simp only [if_true] at he
    split at he
    · cases he
      cases a0
      exact plain _ (by simp) (a2 rfl) hfuel
    · rename_i hnn
      rw [a0] at he
      simp only at he
      split at he
      · rename_i hemp
        cases he
        exact plain _ (by simp) (a2 (by simpa using hemp)) hfuel
      · rename_i hemp
        have hlen1 : 1 ≤ aE.length := by
          cases aE with
          | nil => exact absurd rfl (hnn)
          | cons _ _ _ _ => simp [Members.length]
        rw [encNsLength_small h64] at he
        simp only [a1, Nat.sub_self, List.replicate_zero, List.append_nil, natToBits_length] at he
        cases he
        simp only [List.length_append, List.length_cons, List.length_nil, natToBits_length,
          alignBits_length, if_true] at hfuel hm
        have hpad := add_padLen_mod (pos + 1 + pre.length + body.length + 7 + aE.length)
        have hdm := hm (pos' + 1 + pre.length) (by omega)
          (natToBits 7 (aE.length - 1) ++ (present ++
            (alignBits (pos + 1 + pre.length + body.length + 7 + aE.length) ++
              (encs.flatMap openType ++ rest))))
          (by simp only [List.length_append, natToBits_length, alignBits_length]; omega)
        rw [dec]
        simp only [List.append_assoc, bind, Except.bind, List.cons_append, List.nil_append,
          readBit_cons, if_true]
        rw [readBits_append _ _ _ hplen]
        simp only
        rw [← hplen, hdm]
        simp only [if_true]
        rw [decNsLength_enc _ _ hlen1 h64]
        simp only
        rw [readBits_append _ _ _ a1]
        simp only
        rw [align_alignBits _ _ _ (by omega)]
        rw [a3 _ rest fuel (by omega) (by omega)]
        simp only [List.length_cons, List.length_append, natToBits_length, alignBits_length,
          Except.ok.injEq, Prod.mk.injEq, true_and]
        exact St.eq_of_pos _ (by omega)

end Asn1.Ext.PerX

#print axioms Asn1.Ext.PerX.xt_sequence
#print axioms Asn1.Ext.PerX.skipUnknown_enc
