import Asn1Proofs.Lemmas.DerTag
import Asn1Model.BerCodec
import Asn1Model.X690Value
/-
  Framing lemmas of the BER / DER model: definite length octets, primitive TLVs.
-/
namespace Asn1.Der
open Asn1.Oer (splitAux readBytes splitAux_append readBytes_append)

theorem hasN_append (a b : Bytes) : hasN a.length (a ++ b) = true := by
  induction a with
  | nil => simp [hasN]
  | cons x r ih => simpa [hasN] using ih

theorem encLength_ne_nil_rt (n : Nat) : Ber.encLength n ≠ [] := by
  unfold Ber.encLength; split <;> simp

/-- reading back minimal definite length octets (both `enforce_definite` settings); the announced
contents must be there -/
theorem readLen_encLength (d : Bool) (content rest : Bytes) :
    readLen d (Ber.encLength content.length ++ (content ++ rest))
      = .ok (some content.length, (Ber.encLength content.length).length, content ++ rest) := by
  unfold Ber.encLength
  split
  · rename_i h
    simp only [List.cons_append, List.nil_append, readLen]
    rw [if_pos (by omega), hasN_append]
    simp
  · rename_i h
    have hlen : (natToBytesMin content.length).length = byteLength content.length :=
      Ber.natToBytesN_length _ _
    have h1 := Ber.one_le_byteLength content.length (by omega)
    simp only [List.cons_append, readLen]
    rw [if_neg (by omega), if_neg (by omega)]
    have e : 128 + (natToBytesMin content.length).length - 128 = (natToBytesMin content.length).length := by
      omega
    rw [e, splitAux_append]
    simp only [List.reverse_nil, List.nil_append, Ber.bytesToNat_natToBytesMin, hasN_append, if_true,
      List.length_cons]

theorem tlv_length (tag content : Bytes) :
    (tlv tag content).length = tag.length + (Ber.encLength content.length).length + content.length := by
  simp [tlv]; omega

theorem tlv_append (tag content rest : Bytes) :
    tlv tag content ++ rest = tag ++ (Ber.encLength content.length ++ (content ++ rest)) := by
  simp [tlv]

/-- a primitive TLV read back -/
theorem readPrim_tlv (tag content rest : Bytes) :
    readPrim tag (tlv tag content ++ rest) = .ok (some (content, (tlv tag content).length, rest)) := by
  rw [tlv_append, readPrim]
  simp only [bind, Except.bind, matchTag_self, readLen_encLength, readBytes_append _ _ rfl, tlv_length]

/-- a primitive decoder facing another tag: `TAG_MISMATCH` -/
theorem readPrim_mismatch {tag bs : Bytes} (h : matchTag tag bs = .ok none) :
    readPrim tag bs = .ok none := by
  simp [readPrim, bind, Except.bind, h]

end Asn1.Der
