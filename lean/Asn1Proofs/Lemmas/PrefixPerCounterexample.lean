import Asn1Proofs.Lemmas.PerCounterexample
/-
  The hypothesis `Per.fragFree` of `Per.truncated` is necessary: a machine-checked strict byte prefix
  of a valid aligned PER encoding that the decoder ACCEPTS (like the real codec).

  It is the input of `PerCounterexample.lean`: `OCTET STRING (SIZE(0, ...))` with 16385 zero octets
  is encoded as `80 c1` followed by all 16385 octets (`append_length_determinant(16385)` called
  without fragmentation writes the fragment marker `c1` as if it were a length).  Cut off the last
  octet: the decoder reads `c1` as "16384 octets", finds exactly that many, and returns a value --
  16384 zero octets -- instead of raising an error.  The witness is handled symbolically.
-/
set_option linter.unusedSimpArgs false
namespace Asn1.Per
open Asn1.Uper (lenDet)

def cxBytes : Bytes := [128, 0xc1] ++ cxData

theorem cxBits_eq : cxBits = bytesToBits cxBytes := by
  unfold cxBits cxBytes
  rw [bytesToBits_append]
  rfl

theorem cxBytes_lt : ∀ b ∈ cxBytes, b < 256 := by
  intro b hb
  simp only [cxBytes, cxData, List.mem_append, List.mem_cons, List.not_mem_nil, or_false] at hb
  rcases hb with (rfl | rfl) | hb
  · omega
  · omega
  · rw [List.eq_of_mem_replicate hb]; omega

theorem cx_encode : encode cxTy cxVal = .ok cxBytes := by
  unfold encode
  rw [show typeCheck cxTy cxVal = true from rfl, if_pos rfl, cx_enc 0 rfl, cxBits_eq]
  show Except.ok (packBits (bytesToBits cxBytes)) = _
  rw [packBits_bytesToBits _ cxBytes_lt]

theorem cxBytes_length : cxBytes.length = 16387 := by
  simp [cxBytes, cxData_length]

theorem cxBytes_take : cxBytes.take 16386 = [128, 0xc1] ++ List.replicate 16384 0 := by
  show List.take (16384 + 1 + 1) (128 :: 0xc1 :: List.replicate 16385 0) = _
  rw [List.take_succ_cons, List.take_succ_cons, List.take_replicate]
  rfl

theorem cx_decode_truncated :
    decode cxTy (cxBytes.take 16386) = .ok (.bytes (List.replicate 16384 0)) := by
  rw [cxBytes_take]
  unfold decode cxTy
  rw [bytesToBits_append]
  have h := dec_unfragmented ⟨0, some 0, true⟩ rfl (bytesToBits (List.replicate 16384 0)) [] []
    (by rw [bytesToBits_length, List.length_replicate])
    (8 * ([128, 0xc1] ++ List.replicate 16384 0).length + 2)
  rw [List.append_nil, List.append_nil] at h
  rw [show bytesToBits [128, 0xc1] = [true] ++ alignBits 1 ++ natToBits 8 0xc1 from rfl, h]
  show Except.ok (Val.bytes (packBits (bytesToBits (List.replicate 16384 0)))) = _
  rw [packBits_bytesToBits _ (by intro b hb; rw [List.eq_of_mem_replicate hb]; omega)]

/-- **Necessity of `fragFree` for `Per.truncated`.**  All other hypotheses hold, the encoder
succeeds with 16387 octets, and the strict prefix of 16386 octets is decoded to a value. -/
theorem truncated_fails_without_fragFree :
    cxTy.wf = true ∧ cxTy.defaultsOk = true ∧ hasType cxTy cxVal = true ∧ cxTy.nsOk = true ∧
    fragFree cxTy cxVal = false ∧ encode cxTy cxVal = .ok cxBytes ∧ 16386 < cxBytes.length ∧
    decode cxTy (cxBytes.take 16386) = .ok (.bytes (List.replicate 16384 0)) :=
  ⟨cx_wf, cx_defaultsOk, cx_hasType, cx_nsOk, cx_not_fragFree, cx_encode,
    by rw [cxBytes_length]; omega, cx_decode_truncated⟩

end Asn1.Per

#print axioms Asn1.Per.truncated_fails_without_fragFree
