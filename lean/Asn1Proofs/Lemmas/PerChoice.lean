import Asn1Proofs.Lemmas.PerSeqOf
/-
  Aligned PER: round trip and totality for CHOICE.
-/
set_option linter.unusedSimpArgs false
namespace Asn1.Per
open Asn1.Uper (smallLen lenDet encNsnnwn padToByte EncM DecM find_none_iff find_lt find_all all_wf
  all_defaultsOk all_nsOk hasAlt_find canonAlt_find padToByte_eq padToByte_length_div)

theorem nameIdx_find (name : String) (as : Alts) :
    nameIdx name as.names = (as.find name).map (·.1) := by
  induction as using Alts.ind with
  | nil => rfl
  | cons n t rest ih =>
    simp only [Alts.names, nameIdx, Alts.find]
    split
    · rfl
    · rw [ih]
      cases rest.find name <;> rfl

theorem encAlt_find (as : Alts) (name : String) (pos : Nat) (v : Val) :
    encAlt as name pos v = (as.find name).map (fun x => enc x.2 pos v) := by
  induction as using Alts.ind with
  | nil => rfl
  | cons n t rest ih =>
    simp only [encAlt, Alts.find]
    split
    · rfl
    · rw [ih]
      cases rest.find name <;> rfl

theorem fragFreeAlt_find (as : Alts) (name : String) (v : Val) (o : Bool) :
    fragFreeAlt as name v o = (match as.find name with
      | some x => fragFree x.2 v &&
          (!o || (match enc x.2 0 v with | .ok e => smallLen ((e.length + 7) / 8) | .error _ => true))
      | none => true) := by
  induction as using Alts.ind with
  | nil => rfl
  | cons n t rest ih =>
    simp only [fragFreeAlt, Alts.find]
    split
    · rfl
    · rw [ih]
      cases rest.find name <;> rfl

theorem decAlt_find (as : Alts) (name : String) (j : Nat) (t : Ty) (h : as.find name = some (j, t))
    (fuel : Nat) (s : St) :
    decAlt as fuel j s = some (do let (v, r) ← dec t fuel s; .ok (.choice name v, r)) := by
  induction as using Alts.ind generalizing j with
  | nil => simp [Alts.find] at h
  | cons n t' rest ih =>
    simp only [Alts.find] at h
    split at h
    · rename_i hn
      cases h
      have : n = name := by simpa using hn
      subst this
      rfl
    · simp only [Option.map_eq_some_iff] at h
      obtain ⟨⟨j', t''⟩, h1, h2⟩ := h
      cases h2
      simp only [decAlt]
      exact ih j' h1

theorem padToByte_length (bs : Bits) : (padToByte bs).length = 8 * ((bs.length + 7) / 8) := by
  rw [padToByte_eq, List.length_append, List.length_replicate]
  omega

theorem rt_choice (root : Alts) (ext : Bool) (adds : Alts)
    (ihr : root.All RT) (iha : adds.All RT) : RT (.choice root ext adds) := by
  intro v pos pos' bits rest fuel hwf hd hns ht hf hp he hfuel
  cases v <;> simp only [hasType, Bool.false_eq_true] at ht
  rename_i name w
  rw [canon]
  rw [Ty.wf] at hwf
  rw [Ty.defaultsOk] at hd
  rw [Ty.nsOk] at hns
  rw [fragFree] at hf
  simp only [Bool.and_eq_true, Bool.or_eq_true, decide_eq_true_eq, beq_iff_eq] at ht hwf hd hns hf
  obtain ⟨⟨⟨⟨hrwf, hawf⟩, hrpos⟩, hnd⟩, hext⟩ := hwf
  obtain ⟨⟨hrns, hans⟩, hnsi⟩ := hns
  rw [hasAlt_find, hasAlt_find] at ht
  rw [fragFreeAlt_find, fragFreeAlt_find] at hf
  rw [canonAlt_find, canonAlt_find]
  rw [enc] at he
  simp only [nameIdx_find, encAlt_find] at he
  rw [dec]
  cases hfr : root.find name with
  | some x =>
    obtain ⟨j, t⟩ := x
    have hnr : name ∈ root.names := by
      by_cases h : name ∈ root.names
      · exact h
      · have := (find_none_iff name root).2 h
        rw [this] at hfr; cases hfr
    have hfa : adds.find name = none := by
      rw [find_none_iff]
      intro hna
      exact (List.nodup_append.1 hnd).2.2 name hnr name hna rfl
    simp only [hfr, hfa, Option.map_some, Option.map_none, Bool.or_false, Bool.not_false,
      Bool.true_or, Bool.and_true, Bool.false_eq_true, or_false] at ht hf he ⊢
    have hj := find_lt name root j t hfr
    split at he
    · rename_i body hbody
      simp only [Option.some.injEq] at hbody
      cases he
      -- the extension bit
      have hpre : ∀ X : Bits, (if ext = true then readBit ⟨pos', (if ext = true then [false] else []) ++ X⟩
          else .ok (false, ⟨pos', (if ext = true then [false] else []) ++ X⟩)) =
          (.ok (false, ⟨pos' + (if ext = true then [false] else []).length, X⟩) : DecM (Bool × St)) := by
        intro X; cases ext <;> rfl
      generalize hpl : (if ext = true then [false] else ([] : Bits)) = pre at *
      have hrt := fun q hq => find_all name root j t hfr ihr w _ q body rest fuel
        (find_all name root j t hfr (all_wf root hrwf))
        (find_all name root j t hfr (all_defaultsOk root hd.1))
        (find_all name root j t hfr (all_nsOk root hrns)) ht hf.1 hq hbody
        (by simp only [List.length_append] at hfuel; omega)
      simp only [List.append_assoc, bind, Except.bind, hpre, Bool.false_eq_true, if_false]
      by_cases h1 : root.length > 1
      · simp only [h1, if_true] at hbody hrt ⊢
        rw [decConstrainedInt_enc _ _ _ _ _ _ (by omega) (by omega) (by omega)]
        simp only [Int.toNat_natCast]
        rw [decAlt_find root name j t hfr]
        simp only [bind, Except.bind]
        rw [hrt _ (by omega)]
        simp only [List.length_append, Nat.add_assoc]
      · simp only [h1, if_false, List.nil_append, List.length_nil, Nat.add_zero] at hbody hrt ⊢
        have : j = 0 := by omega
        subst this
        simp only [Int.toNat_zero]
        rw [decAlt_find root name 0 t hfr]
        simp only [bind, Except.bind]
        rw [hrt _ (by omega)]
        simp only [List.length_append, Nat.add_assoc]
    · cases he
    · rename_i hnone
      simp at hnone
  | none =>
    simp only [hfr, Option.map_none, Bool.false_eq_true, false_or] at ht hf he ⊢
    cases hfa : adds.find name with
    | none => simp [hfa] at ht
    | some x =>
      obtain ⟨j, t⟩ := x
      have hj := find_lt name adds j t hfa
      have hext' : ext = true := by
        rcases hext with h | h
        · exact h
        · omega
      simp only [hfa, hext', if_true, Option.map_some, Bool.not_true, Bool.false_or,
        Bool.and_eq_true, Bool.true_and] at ht hf he ⊢
      split at he
      · rename_i body hbody
        simp only [Option.some.injEq] at hbody
        cases he
        rw [hbody] at hf
        simp only [smallLen, decide_eq_true_eq] at hf
        have hnl := Uper.lenDet_snd_of_lt (n := (body.length + 7) / 8) hf.2.2
        have hm := lenDet_length_mod ((body.length + 7) / 8)
        have hpad := add_padLen_mod (pos + ((encNsnnwn j).length + 1))
        simp only [openType, padToByte_length_div, padToByte_length, List.length_append,
          List.length_cons, List.length_nil, alignBits_length] at hfuel
        have hrt := fun q hq => find_all name adds j t hfa iha w 0 q body
          (List.replicate (8 * ((body.length + 7) / 8) - body.length) false ++ rest) fuel
          (find_all name adds j t hfa (all_wf adds hawf))
          (find_all name adds j t hfa (all_defaultsOk adds hd.2))
          (find_all name adds j t hfa (all_nsOk adds hans)) ht hf.2.1 hq hbody
          (by simp only [List.length_append, List.length_replicate]; omega)
        simp only [openType, padToByte_length_div, List.append_assoc, bind, Except.bind,
          List.cons_append, List.nil_append, readBit_cons, if_true]
        rw [decNsnnwn_enc _ j _ (nsIndexOk_lt hnsi hj)]
        simp only
        rw [align_alignBits _ _ _ (by
          simp only [List.length_append, List.length_cons, List.length_nil]; omega)]
        rw [readLenDet_lenDet, hnl]
        simp only [List.length_cons, List.length_nil, List.length_append]
        rw [decAlt_find adds name j t hfa]
        simp only [bind, Except.bind]
        rw [padToByte_eq, List.append_assoc, hrt _ (by omega)]
        simp only
        generalize hq : pos' + 1 + (encNsnnwn j).length + padLen (pos + ((encNsnnwn j).length + 1)) +
          (lenDet ((body.length + 7) / 8)).1.length = q
        have hc : ¬ (q + body.length - q > 8 * ((body.length + 7) / 8)) := by omega
        simp only [hc, if_false]
        rw [readBits_append _ _ _ (by simp only [List.length_replicate]; omega)]
        simp only [List.length_cons, List.length_append, alignBits_length, List.length_replicate,
          Except.ok.injEq, Prod.mk.injEq, true_and]
        exact St.eq_of_pos _ (by omega)
      · cases he
      · rename_i hnone
        simp at hnone

theorem et_choice (root : Alts) (ext : Bool) (adds : Alts)
    (ihr : root.All ET) (iha : adds.All ET) : ET (.choice root ext adds) := by
  intro v pos hwf ht
  cases v <;> simp only [hasType, Bool.false_eq_true] at ht
  rename_i name w
  rw [Ty.wf] at hwf
  simp only [Bool.and_eq_true, Bool.or_eq_true, decide_eq_true_eq, beq_iff_eq] at ht hwf
  obtain ⟨⟨⟨⟨hrwf, hawf⟩, hrpos⟩, hnd⟩, hext⟩ := hwf
  rw [hasAlt_find, hasAlt_find] at ht
  rw [enc]
  simp only [nameIdx_find, encAlt_find]
  cases hfr : root.find name with
  | some x =>
    obtain ⟨j, t⟩ := x
    have hnr : name ∈ root.names := by
      by_cases h : name ∈ root.names
      · exact h
      · have := (find_none_iff name root).2 h
        rw [this] at hfr; cases hfr
    have hfa : adds.find name = none := by
      rw [find_none_iff]
      intro hna
      exact (List.nodup_append.1 hnd).2.2 name hnr name hna rfl
    simp only [hfr, hfa, Bool.false_eq_true, or_false] at ht
    simp only [Option.map_some]
    obtain ⟨body, hbody⟩ := find_all name root j t hfr ihr w
      (pos + (if ext = true then [false] else ([] : Bits)).length +
        (if root.length > 1 then
          encConstrainedInt (pos + (if ext = true then [false] else ([] : Bits)).length) 0
            ((root.length : Int) - 1) (j : Int)
         else []).length)
      (find_all name root j t hfr (all_wf root hrwf)) ht
    rw [hbody]
    exact ⟨_, rfl⟩
  | none =>
    simp only [hfr, Bool.false_eq_true, false_or] at ht
    cases hfa : adds.find name with
    | none => simp [hfa] at ht
    | some x =>
      obtain ⟨j, t⟩ := x
      have hext' : ext = true := by
        have hj := find_lt name adds j t hfa
        rcases hext with h | h
        · exact h
        · omega
      simp only [hfa] at ht
      obtain ⟨body, hbody⟩ := find_all name adds j t hfa iha w 0
        (find_all name adds j t hfa (all_wf adds hawf)) ht
      simp only [Option.map_none, hext', if_true, Option.map_some, hbody]
      exact ⟨_, rfl⟩

end Asn1.Per
