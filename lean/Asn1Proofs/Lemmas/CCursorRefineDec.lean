import Asn1Proofs.Lemmas.CCursorRefine
/-
  C09 memory safety core, decoder side: under `Dec.Inv` every decoder helper returns `.ok` for ALL
  buffer contents (arbitrary input bytes) and computes the unchecked pure function of
  `CCursorPureDefs.lean`.  Three cases per helper: enough data / out of data (latches -EOUTOFDATA) /
  already latched (no-op, returns 0 or leaves the destination untouched).
-/
namespace Asn1.CCursor

theorem Dec.inv_step {d : Dec} (hi : d.Inv) {p' : Int}
    (h0 : 0 ≤ p') (h1 : p' ≤ d.size) : ({ d with pos := p' } : Dec).Inv := by
  obtain ⟨hbs, hl | hl⟩ := hi
  · exact ⟨hbs, Or.inl ⟨h0, h1, hl.2.2⟩⟩
  · omega

theorem Dec.inv_latch {d : Dec} (hi : d.Inv) : (d.latch 500).Inv :=
  Dec.latch_inv hi.1 (by omega) (by omega)

/-! ### `decoder_read_bit` -/

theorem Dec.readBit_ok {d : Dec} (hi : d.Inv) (h0 : 0 ≤ d.size) (h : d.pos + 1 ≤ d.size) :
    d.readBit = .ok (readBitVal d.buf d.pos.toNat, { d with pos := d.pos + 1 }) := by
  have hi' := hi
  obtain ⟨hb, hl | hl⟩ := hi'
  · unfold Dec.readBit
    have h1 : (1 : UInt64).toNat = 1 := rfl
    rw [Dec.free_ok hi (by rw [h1]; omega) h0 (by rw [h1]; omega)]
    simp only [bind, Except.bind, h1]
    rw [if_pos (by omega)]
    rw [Int.tmod_eq_emod_of_nonneg (by omega), Int.tdiv_eq_ediv_of_nonneg (by omega)]
    have hd0 : 0 ≤ d.pos / 8 := by omega
    have hdn : (d.pos / 8).toNat = d.pos.toNat / 8 := by omega
    have hdlt : d.pos.toNat / 8 < d.buf.size := by omega
    rw [Mem.loadI_ok hd0 (by rw [hdn]; exact hdlt), ssz_ok (by omega) (by omega)]
    simp only []
    rw [if_neg (by omega)]
    have : (7 - d.pos % 8).toNat = 7 - d.pos.toNat % 8 := by omega
    rw [this, shrS32_ok (by omega)]
    simp only [hdn, readBitVal]
    rfl
  · omega

theorem Dec.readBit_empty {d : Dec} (hi : d.Inv) (h0 : 0 ≤ d.size) (h : d.size < d.pos + 1) :
    d.readBit = .ok (0, d.latch 500) := by
  unfold Dec.readBit
  have h1 : (1 : UInt64).toNat = 1 := rfl
  rw [Dec.free_empty hi (by rw [h1]; omega) h0 (by rw [h1]; omega)]
  simp only [bind, Except.bind]
  rw [if_neg (by omega)]

theorem Dec.readBit_latched {d : Dec} (hi : d.Inv) (h0 : d.size < 0) :
    d.readBit = .ok (0, d) := by
  unfold Dec.readBit
  have h1 : (1 : UInt64).toNat = 1 := rfl
  obtain ⟨p, hp, ha⟩ := Dec.free_latched (n := 1) hi (by rw [h1]; omega) h0
  rw [ha]
  simp only [bind, Except.bind]
  rw [if_neg (by omega)]

/-! ### `decoder_read_bytes` -/

theorem pureReadBytesLoop_size (src : Mem) (bytePos pib : Nat) :
    ∀ n i dst, (pureReadBytesLoop src bytePos pib n i dst).size = dst.size := by
  intro n
  induction n with
  | zero => intros; rfl
  | succ n ih => intro i dst; simp [pureReadBytesLoop, ih]

theorem Dec.readBytesLoop_ok (src : Mem) (bytePos pib : UInt64)
    (hp0 : 0 < pib.toNat) (hp8 : pib.toNat < 8) (hsz : src.size < 576460752303423488) :
    ∀ n (i : UInt64) (dst : Mem), i.toNat + n ≤ dst.size →
      bytePos.toNat + i.toNat + n + 1 ≤ src.size →
      Dec.readBytesLoop src bytePos pib n i dst
        = .ok (pureReadBytesLoop src bytePos.toNat pib.toNat n i.toNat dst) := by
  intro n
  induction n with
  | zero => intros; rfl
  | succ n ih =>
    intro i dst hd hs
    unfold Dec.readBytesLoop pureReadBytesLoop
    have e1 : (bytePos + i).toNat = bytePos.toNat + i.toNat := by
      rw [UInt64.toNat_add]; omega
    have e2 : (bytePos + i + 1).toNat = bytePos.toNat + i.toNat + 1 := by
      rw [UInt64.toNat_add, e1, UInt64.toNat_one]; omega
    have e3 : (i + 1).toNat = i.toNat + 1 := by
      rw [UInt64.toNat_add, UInt64.toNat_one]; omega
    have e4 : (8 - pib).toNat = 8 - pib.toNat := by
      rw [UInt64.toNat_sub]
      have : (8 : UInt64).toNat = 8 := rfl
      rw [this]; omega
    have hsl : src[bytePos.toNat + i.toNat]!.toNat < 256 := UInt8.toNat_lt _
    simp only [e1, e2, e4]
    rw [Mem.load_ok (by omega)]
    simp only [bind, Except.bind]
    rw [shlS32_ok (by omega) (shl_bound (by omega) (by omega))]
    simp only []
    rw [Mem.store_ok (by omega)]
    simp only []
    rw [Mem.load_ok (by omega)]
    simp only []
    rw [shrS32_ok (by omega)]
    simp only []
    rw [Mem.load_ok (by rw [Mem.size_set!]; omega)]
    simp only []
    rw [Mem.store_ok (by rw [Mem.size_set!]; omega)]
    simp only []
    rw [ih _ _ (by rw [e3]; simp only [Mem.size_set!]; omega) (by rw [e3]; omega), e3]

theorem readBytesVal_size (buf : Mem) (p : Nat) (dst : Mem) (n : Nat) :
    (readBytesVal buf p dst n).size = dst.size := by
  unfold readBytesVal
  split
  · exact pureMemcpy_size _ _ _ _ _
  · exact pureReadBytesLoop_size _ _ _ _ _ _

theorem Dec.readBytes_ok {d : Dec} (hi : d.Inv) (h0 : 0 ≤ d.size) {dst : Mem} {n : UInt64}
    (hn : n.toNat < 576460752303423488) (hdst : n.toNat ≤ dst.size)
    (h : d.pos + 8 * (n.toNat : Int) ≤ d.size) :
    d.readBytes dst n
      = .ok (readBytesVal d.buf d.pos.toNat dst n.toNat, { d with pos := d.pos + 8 * (n.toNat : Int) }) := by
  have hi' := hi
  obtain ⟨hb, hl | hl⟩ := hi'
  · unfold Dec.readBytes
    have h8 := eight_mul_toNat hn
    rw [Dec.free_ok hi (by rw [h8]; omega) h0 (by rw [h8]; omega)]
    simp only [bind, Except.bind, h8]
    rw [if_neg (by omega)]
    have hts : (toSize d.pos).toNat = d.pos.toNat := toSize_nonneg (by omega) (by omega)
    have c8 : (8 : UInt64).toNat = 8 := rfl
    have hbp : (toSize d.pos / 8).toNat = d.pos.toNat / 8 := by rw [UInt64.toNat_div, hts, c8]
    have hpib : (toSize d.pos % 8).toNat = d.pos.toNat % 8 := by rw [UInt64.toNat_mod, hts, c8]
    have hcast : ((8 * n.toNat : Nat) : Int) = 8 * (n.toNat : Int) := by omega
    by_cases hz : toSize d.pos % 8 = 0
    · have hz' : d.pos.toNat % 8 = 0 := by
        rw [← hpib, hz]; rfl
      rw [if_pos hz, hbp, Mem.ptr_ok (by omega)]
      simp only []
      rw [memcpy_ok _ _ _ _ _ (by omega) (by omega)]
      simp only [readBytesVal, hz', if_true, hcast]
    · have hz' : ¬ d.pos.toNat % 8 = 0 := by
        intro h'
        apply hz
        apply UInt64.toNat_inj.1
        rw [hpib, h']; rfl
      rw [if_neg hz]
      rw [Dec.readBytesLoop_ok d.buf _ _ (by rw [hpib]; omega) (by rw [hpib]; omega) hb _ _ _
        (by simp; omega) (by rw [hbp]; simp; omega)]
      simp only [readBytesVal, hz', if_false, hbp, hpib, hcast]
      rfl
  · omega

theorem Dec.readBytes_empty {d : Dec} (hi : d.Inv) (h0 : 0 ≤ d.size) (dst : Mem) {n : UInt64}
    (hn : n.toNat < 576460752303423488) (h : d.size < d.pos + 8 * (n.toNat : Int)) :
    d.readBytes dst n = .ok (dst, d.latch 500) := by
  unfold Dec.readBytes
  have h8 := eight_mul_toNat hn
  rw [Dec.free_empty hi (by rw [h8]; omega) h0 (by rw [h8]; omega)]
  simp only [bind, Except.bind]
  rw [if_pos (by omega)]

theorem Dec.readBytes_latched {d : Dec} (hi : d.Inv) (h0 : d.size < 0) (dst : Mem) {n : UInt64}
    (hn : n.toNat < 576460752303423488) :
    d.readBytes dst n = .ok (dst, d) := by
  unfold Dec.readBytes
  have h8 := eight_mul_toNat hn
  obtain ⟨p, hp, ha⟩ := Dec.free_latched (n := 8 * n) hi (by rw [h8]; omega) h0
  rw [ha]
  simp only [bind, Except.bind]
  rw [if_pos hp]


/-! ### state transition of one decoder helper call -/

/-- what one helper call that consumes `need` bits does to the cursor -/
def Dec.Trans (d : Dec) (need : Nat) (d' : Dec) : Prop :=
  (d.size < 0 → d' = d) ∧
  (0 ≤ d.size → d.pos + (need : Int) ≤ d.size → d' = { d with pos := d.pos + (need : Int) }) ∧
  (0 ≤ d.size → d.size < d.pos + (need : Int) → d' = d.latch 500)

/-- a helper call returns normally (no fault) and moves the cursor as `Trans` says -/
def Dec.Spec {α : Type} (d : Dec) (need : Nat) (r : C (α × Dec)) : Prop :=
  ∃ v d', r = .ok (v, d') ∧ d.Trans need d'

theorem Dec.Trans.inv {d d' : Dec} {need : Nat} (hi : d.Inv) (h : d.Trans need d') :
    d'.Inv ∧ d'.buf = d.buf := by
  by_cases hl : d.size < 0
  · rw [h.1 hl]; exact ⟨hi, rfl⟩
  · by_cases hr : d.pos + (need : Int) ≤ d.size
    · rw [h.2.1 (by omega) hr]
      exact ⟨Dec.inv_step hi (by obtain ⟨_, hl' | hl'⟩ := hi <;> omega) hr, rfl⟩
    · rw [h.2.2 (by omega) (by omega)]
      exact ⟨Dec.inv_latch hi, rfl⟩

theorem Dec.readBytes_spec {d : Dec} (hi : d.Inv) {dst : Mem} {n : UInt64}
    (hn : n.toNat < 576460752303423488) (hdst : n.toNat ≤ dst.size) :
    ∃ m d', d.readBytes dst n = .ok (m, d') ∧ m.size = dst.size ∧ d.Trans (8 * n.toNat) d' := by
  have hc : ((8 * n.toNat : Nat) : Int) = 8 * (n.toNat : Int) := by omega
  by_cases hl : d.size < 0
  · exact ⟨dst, d, Dec.readBytes_latched hi hl dst hn, rfl, fun _ => rfl, fun h => by omega, fun h => by omega⟩
  · by_cases hr : d.pos + 8 * (n.toNat : Int) ≤ d.size
    · refine ⟨_, _, Dec.readBytes_ok hi (by omega) hn hdst hr, readBytesVal_size _ _ _ _, fun h => by omega,
        fun _ _ => by rw [hc], fun _ h => by omega⟩
    · exact ⟨dst, _, Dec.readBytes_empty hi (by omega) dst hn (by omega), rfl, fun h => by omega,
        fun _ h => by omega, fun _ _ => rfl⟩

theorem Dec.readBit_spec {d : Dec} (hi : d.Inv) : d.Spec 1 d.readBit := by
  by_cases hl : d.size < 0
  · exact ⟨0, d, Dec.readBit_latched hi hl, fun _ => rfl, fun h => by omega, fun h => by omega⟩
  · by_cases hr : d.pos + 1 ≤ d.size
    · exact ⟨_, _, Dec.readBit_ok hi (by omega) hr, fun h => by omega, fun _ _ => rfl, fun _ h => by omega⟩
    · exact ⟨0, _, Dec.readBit_empty hi (by omega) (by omega), fun h => by omega, fun _ h => by omega, fun _ _ => rfl⟩

/-! ### fixed width reads -/

theorem Dec.readU8_spec {d : Dec} (hi : d.Inv) : d.Spec 8 d.readU8 := by
  have c1 : (1 : UInt64).toNat = 1 := rfl
  obtain ⟨m, d', hr, hm, ht⟩ := Dec.readBytes_spec (d := d) (dst := #[0]) (n := 1) hi (by rw [c1]; omega) (by rw [c1]; simp)
  unfold Dec.readU8
  rw [hr]
  simp only [bind, Except.bind]
  rw [Mem.load_ok (by rw [hm]; simp)]
  exact ⟨_, _, rfl, by rwa [c1] at ht⟩

theorem Dec.readU8_ok {d : Dec} (hi : d.Inv) (h0 : 0 ≤ d.size) (h : d.pos + 8 ≤ d.size) :
    d.readU8 = .ok ((readBytesVal d.buf d.pos.toNat #[0] 1)[0]!, { d with pos := d.pos + 8 }) := by
  have c1 : (1 : UInt64).toNat = 1 := rfl
  unfold Dec.readU8
  rw [Dec.readBytes_ok hi h0 (n := 1) (by rw [c1]; omega) (by rw [c1]; simp) (by rw [c1]; omega)]
  simp only [bind, Except.bind, c1]
  rw [Mem.load_ok (by rw [readBytesVal_size]; simp)]
  rfl

theorem Dec.readU16_core {m : Mem} (hm : m.size = 2) (d' : Dec) :
    (do
      let b0 ← m.load 0
      let b1 ← m.load 1
      let x ← shlS32 b0.toNat 8
      (.ok (UInt16.ofNat (x ||| b1.toNat), d') : C (UInt16 × Dec))) = .ok (valU16 m, d') := by
  have hb : m[0]!.toNat < 256 := UInt8.toNat_lt _
  simp only [bind, Except.bind]
  rw [Mem.load_ok (by omega)]
  simp only []
  rw [Mem.load_ok (by omega)]
  simp only []
  rw [shlS32_ok (by omega) (by rw [Nat.shiftLeft_eq]; omega)]
  rfl

theorem Dec.readU16_spec {d : Dec} (hi : d.Inv) {junk : Mem} (hj : junk.size = 2) :
    d.Spec 16 (d.readU16 junk) := by
  have c2 : (2 : UInt64).toNat = 2 := rfl
  obtain ⟨m, d', hr, hm, ht⟩ := Dec.readBytes_spec (d := d) (dst := junk) (n := 2) hi (by rw [c2]; omega) (by rw [c2]; omega)
  unfold Dec.readU16
  rw [hr]
  simp only [bind, Except.bind]
  have := Dec.readU16_core (m := m) (by omega) d'
  simp only [bind, Except.bind] at this
  rw [this]
  exact ⟨_, _, rfl, by rwa [c2] at ht⟩

theorem Dec.readU16_ok {d : Dec} (hi : d.Inv) (h0 : 0 ≤ d.size) (h : d.pos + 16 ≤ d.size)
    {junk : Mem} (hj : junk.size = 2) :
    d.readU16 junk = .ok (valU16 (readBytesVal d.buf d.pos.toNat junk 2), { d with pos := d.pos + 16 }) := by
  have c2 : (2 : UInt64).toNat = 2 := rfl
  unfold Dec.readU16
  rw [Dec.readBytes_ok hi h0 (n := 2) (by rw [c2]; omega) (by rw [c2]; omega) (by rw [c2]; omega)]
  simp only [bind, Except.bind, c2]
  have := Dec.readU16_core (m := readBytesVal d.buf d.pos.toNat junk 2) (by rw [readBytesVal_size]; omega)
    { d with pos := d.pos + 8 * ((2 : Nat) : Int) }
  simp only [bind, Except.bind] at this
  rw [this]
  rfl

theorem Dec.readU32_core {m : Mem} (hm : m.size = 4) (d' : Dec) :
    (do
      let b0 ← m.load 0
      let b1 ← m.load 1
      let b2 ← m.load 2
      let b3 ← m.load 3
      let x0 ← shlU32 b0.toUInt32 24
      let x1 ← shlU32 b1.toUInt32 16
      let x2 ← shlU32 b2.toUInt32 8
      (.ok (x0 ||| x1 ||| x2 ||| b3.toUInt32, d') : C (UInt32 × Dec))) = .ok (valU32 m, d') := by
  simp only [bind, Except.bind]
  rw [Mem.load_ok (by omega)]
  simp only []
  rw [Mem.load_ok (by omega)]
  simp only []
  rw [Mem.load_ok (by omega)]
  simp only []
  rw [Mem.load_ok (by omega)]
  simp only []
  rw [shlU32_ok (by omega)]
  simp only []
  rw [shlU32_ok (by omega)]
  simp only []
  rw [shlU32_ok (by omega)]
  rfl

theorem Dec.readU32_spec {d : Dec} (hi : d.Inv) {junk : Mem} (hj : junk.size = 4) :
    d.Spec 32 (d.readU32 junk) := by
  have c4 : (4 : UInt64).toNat = 4 := rfl
  obtain ⟨m, d', hr, hm, ht⟩ := Dec.readBytes_spec (d := d) (dst := junk) (n := 4) hi (by rw [c4]; omega) (by rw [c4]; omega)
  unfold Dec.readU32
  rw [hr]
  simp only [bind, Except.bind]
  have := Dec.readU32_core (m := m) (by omega) d'
  simp only [bind, Except.bind] at this
  rw [this]
  exact ⟨_, _, rfl, by rwa [c4] at ht⟩

theorem Dec.readU32_ok {d : Dec} (hi : d.Inv) (h0 : 0 ≤ d.size) (h : d.pos + 32 ≤ d.size)
    {junk : Mem} (hj : junk.size = 4) :
    d.readU32 junk = .ok (valU32 (readBytesVal d.buf d.pos.toNat junk 4), { d with pos := d.pos + 32 }) := by
  have c4 : (4 : UInt64).toNat = 4 := rfl
  unfold Dec.readU32
  rw [Dec.readBytes_ok hi h0 (n := 4) (by rw [c4]; omega) (by rw [c4]; omega) (by rw [c4]; omega)]
  simp only [bind, Except.bind, c4]
  have := Dec.readU32_core (m := readBytesVal d.buf d.pos.toNat junk 4) (by rw [readBytesVal_size]; omega)
    { d with pos := d.pos + 8 * ((4 : Nat) : Int) }
  simp only [bind, Except.bind] at this
  rw [this]
  rfl

theorem Dec.readU64_core {m : Mem} (hm : m.size = 8) (d' : Dec) :
    (do
      let b0 ← m.load 0
      let b1 ← m.load 1
      let b2 ← m.load 2
      let b3 ← m.load 3
      let b4 ← m.load 4
      let b5 ← m.load 5
      let b6 ← m.load 6
      let b7 ← m.load 7
      let x0 ← shlU64 b0.toUInt64 56
      let x1 ← shlU64 b1.toUInt64 48
      let x2 ← shlU64 b2.toUInt64 40
      let x3 ← shlU64 b3.toUInt64 32
      let x4 ← shlU64 b4.toUInt64 24
      let x5 ← shlU64 b5.toUInt64 16
      let x6 ← shlU64 b6.toUInt64 8
      (.ok (x0 ||| x1 ||| x2 ||| x3 ||| x4 ||| x5 ||| x6 ||| b7.toUInt64, d') : C (UInt64 × Dec)))
      = .ok (valU64 m, d') := by
  simp only [bind, Except.bind]
  rw [Mem.load_ok (by omega)]
  simp only []
  rw [Mem.load_ok (by omega)]
  simp only []
  rw [Mem.load_ok (by omega)]
  simp only []
  rw [Mem.load_ok (by omega)]
  simp only []
  rw [Mem.load_ok (by omega)]
  simp only []
  rw [Mem.load_ok (by omega)]
  simp only []
  rw [Mem.load_ok (by omega)]
  simp only []
  rw [Mem.load_ok (by omega)]
  simp only []
  rw [shlU64_ok (by omega)]
  simp only []
  rw [shlU64_ok (by omega)]
  simp only []
  rw [shlU64_ok (by omega)]
  simp only []
  rw [shlU64_ok (by omega)]
  simp only []
  rw [shlU64_ok (by omega)]
  simp only []
  rw [shlU64_ok (by omega)]
  simp only []
  rw [shlU64_ok (by omega)]
  rfl

theorem Dec.readU64_spec {d : Dec} (hi : d.Inv) {junk : Mem} (hj : junk.size = 8) :
    d.Spec 64 (d.readU64 junk) := by
  have c8 : (8 : UInt64).toNat = 8 := rfl
  obtain ⟨m, d', hr, hm, ht⟩ := Dec.readBytes_spec (d := d) (dst := junk) (n := 8) hi (by rw [c8]; omega) (by rw [c8]; omega)
  unfold Dec.readU64
  rw [hr]
  simp only [bind, Except.bind]
  have := Dec.readU64_core (m := m) (by omega) d'
  simp only [bind, Except.bind] at this
  rw [this]
  exact ⟨_, _, rfl, by rwa [c8] at ht⟩

theorem Dec.readU64_ok {d : Dec} (hi : d.Inv) (h0 : 0 ≤ d.size) (h : d.pos + 64 ≤ d.size)
    {junk : Mem} (hj : junk.size = 8) :
    d.readU64 junk = .ok (valU64 (readBytesVal d.buf d.pos.toNat junk 8), { d with pos := d.pos + 64 }) := by
  have c8 : (8 : UInt64).toNat = 8 := rfl
  unfold Dec.readU64
  rw [Dec.readBytes_ok hi h0 (n := 8) (by rw [c8]; omega) (by rw [c8]; omega) (by rw [c8]; omega)]
  simp only [bind, Except.bind, c8]
  have := Dec.readU64_core (m := readBytesVal d.buf d.pos.toNat junk 8) (by rw [readBytesVal_size]; omega)
    { d with pos := d.pos + 8 * ((8 : Nat) : Int) }
  simp only [bind, Except.bind] at this
  rw [this]
  rfl

/-- lifting a `Spec` through a pure post-processing of the value (`(int8_t)x - 128`, `!= 0` ...) -/
theorem Dec.Spec.map {α β : Type} {d : Dec} {need : Nat} {r : C (α × Dec)} (h : d.Spec need r) (f : α → β) :
    d.Spec need (do let (v, d') ← r; (.ok (f v, d') : C (β × Dec))) := by
  obtain ⟨v, d', hr, ht⟩ := h
  exact ⟨f v, d', by rw [hr]; rfl, ht⟩

/-! ### `decoder_read_non_negative_binary_integer` -/

theorem Dec.nnbiLoop_spec : ∀ n (v : UInt64) (d : Dec), d.Inv →
    (d.size < 0 → ∃ v', Dec.nnbiLoop n v d = .ok (v', d)) ∧
    (0 ≤ d.size → d.pos + (n : Int) ≤ d.size →
      Dec.nnbiLoop n v d = .ok (readNnbiVal d.buf n v d.pos.toNat, { d with pos := d.pos + (n : Int) })) ∧
    (0 ≤ d.size → d.size < d.pos + (n : Int) → ∃ v', Dec.nnbiLoop n v d = .ok (v', d.latch 500)) := by
  intro n
  induction n with
  | zero =>
    intro v d hi
    refine ⟨fun _ => ⟨v, rfl⟩, fun _ _ => ?_, fun h0 h => ?_⟩
    · simp [Dec.nnbiLoop, readNnbiVal]
    · exfalso
      have h' : d.size < d.pos := by simpa using h
      obtain ⟨_, hl | hl⟩ := hi <;> omega
  | succ n ih =>
    intro v d hi
    unfold Dec.nnbiLoop
    rw [shlU64_ok (by omega)]
    simp only [bind, Except.bind]
    refine ⟨fun hl => ?_, fun h0 h => ?_, fun h0 h => ?_⟩
    · rw [Dec.readBit_latched hi hl]
      exact (ih _ d hi).1 hl
    · rw [Dec.readBit_ok hi h0 (by omega)]
      simp only []
      have hi' : ({ d with pos := d.pos + 1 } : Dec).Inv :=
        Dec.inv_step hi (by obtain ⟨_, hl | hl⟩ := hi <;> omega) (by omega)
      rw [(ih _ _ hi').2.1 h0 (by simp only []; omega)]
      have hp : (d.pos + 1).toNat = d.pos.toNat + 1 := by
        obtain ⟨_, hl | hl⟩ := hi <;> omega
      have hq : d.pos + 1 + (n : Int) = d.pos + ((n + 1 : Nat) : Int) := by omega
      simp only [readNnbiVal, hp, hq]
      rfl
    · by_cases hroom : d.pos + 1 ≤ d.size
      · rw [Dec.readBit_ok hi h0 hroom]
        simp only []
        have hi' : ({ d with pos := d.pos + 1 } : Dec).Inv :=
          Dec.inv_step hi (by obtain ⟨_, hl | hl⟩ := hi <;> omega) hroom
        obtain ⟨v', hr⟩ := (ih (v <<< UInt64.ofNat 1 ||| UInt64.ofNat (readBitVal d.buf d.pos.toNat)) _ hi').2.2 h0
          (by simp only []; omega)
        exact ⟨v', by rw [hr]; rfl⟩
      · rw [Dec.readBit_empty hi h0 (by omega)]
        simp only []
        exact (ih _ _ (Dec.inv_latch hi)).1 (by simp [Dec.latch])

theorem Dec.readNnbi_spec {d : Dec} (hi : d.Inv) (n : UInt64) : d.Spec n.toNat (d.readNnbi n) := by
  have hs := Dec.nnbiLoop_spec n.toNat 0 d hi
  by_cases hl : d.size < 0
  · obtain ⟨v, hr⟩ := hs.1 hl
    exact ⟨v, d, hr, fun _ => rfl, fun h => by omega, fun h => by omega⟩
  · by_cases hr : d.pos + (n.toNat : Int) ≤ d.size
    · exact ⟨_, _, hs.2.1 (by omega) hr, fun h => by omega, fun _ _ => rfl, fun _ h => by omega⟩
    · obtain ⟨v, hv⟩ := hs.2.2 (by omega) (by omega)
      exact ⟨v, _, hv, fun h => by omega, fun _ h => by omega, fun _ _ => rfl⟩

theorem Dec.readNnbi_ok {d : Dec} (hi : d.Inv) (h0 : 0 ≤ d.size) {n : UInt64}
    (h : d.pos + (n.toNat : Int) ≤ d.size) :
    d.readNnbi n = .ok (readNnbiVal d.buf n.toNat 0 d.pos.toNat, { d with pos := d.pos + (n.toNat : Int) }) :=
  (Dec.nnbiLoop_spec n.toNat 0 d hi).2.1 h0 h

/-! ### one step of any decoder helper -/

/-- bits consumed by a helper call -/
def DecOp.need : DecOp → Nat
  | .bit => 1
  | .bool => 1
  | .bytes _ n => 8 * n.toNat
  | .u8 => 8 | .u16 _ => 16 | .u32 _ => 32 | .u64 _ => 64
  | .i8 => 8 | .i16 _ => 16 | .i32 _ => 32 | .i64 _ => 64
  | .nnbi n => n.toNat
  | .abort _ => 0

/-- Argument preconditions of the decoder helpers: a destination object at least as large as the
claimed size (< 2^59), automatic arrays of their declared size, a positive error code.  NO condition
on the input bytes, on the cursor position, or on the number of bits requested. -/
def DecOp.Pre : DecOp → Prop
  | .bytes dst n => n.toNat ≤ dst.size ∧ n.toNat < 576460752303423488
  | .u16 j => j.size = 2
  | .u32 j => j.size = 4
  | .u64 j => j.size = 8
  | .i16 j => j.size = 2
  | .i32 j => j.size = 4
  | .i64 j => j.size = 8
  | .abort err => 0 < err ∧ err ≤ 4611686018427387904
  | _ => True

theorem Dec.run_spec {d : Dec} (hi : d.Inv) {op : DecOp} (hpre : op.Pre)
    (hna : ∀ err, op ≠ .abort err) : d.Spec op.need (d.run op) := by
  cases op with
  | bit => exact (Dec.readBit_spec hi).map (fun v => DecVal.int v)
  | bool => exact ((Dec.readBit_spec hi).map (· != 0)).map (fun v => DecVal.int (if v then 1 else 0))
  | bytes dst n =>
    obtain ⟨m, d', hr, _, ht⟩ := Dec.readBytes_spec hi hpre.2 hpre.1
    exact ⟨.mem m, d', by show (do let (m, d) ← d.readBytes dst n; (.ok (DecVal.mem m, d) : C _)) = _; rw [hr]; rfl, ht⟩
  | u8 => exact (Dec.readU8_spec hi).map (fun v => DecVal.int v.toNat)
  | u16 j => exact (Dec.readU16_spec hi hpre).map (fun v => DecVal.int v.toNat)
  | u32 j => exact (Dec.readU32_spec hi hpre).map (fun v => DecVal.int v.toNat)
  | u64 j => exact (Dec.readU64_spec hi hpre).map (fun v => DecVal.int v.toNat)
  | i8 => exact ((Dec.readU8_spec hi).map (fun v => Int8.ofInt (v.toInt8.toInt - 128))).map (fun v => DecVal.int v.toInt)
  | i16 j => exact ((Dec.readU16_spec hi hpre).map (fun v => Int16.ofInt (v.toInt16.toInt - 32768))).map (fun v => DecVal.int v.toInt)
  | i32 j => exact ((Dec.readU32_spec hi hpre).map (fun v => Int32.ofInt (v.toInt32.toInt - 2147483648))).map (fun v => DecVal.int v.toInt)
  | i64 j => exact ((Dec.readU64_spec hi hpre).map (fun v => (v - 9223372036854775808).toInt64)).map (fun v => DecVal.int v.toInt)
  | nnbi n => exact (Dec.readNnbi_spec hi n).map (fun v => DecVal.int v.toNat)
  | abort err => exact absurd rfl (hna err)

end Asn1.CCursor
