import Asn1Model.X691
import Asn1Proofs.Lemmas.UperComp
/-
  Primitive lemmas about the X.691 specification model (`Asn1Model/X691.lean`):
  * the declarative sizes (`minBits`, `minOctets`, `minOctets2c`) are characterised as least
    solutions and related to the closed forms (`bitLength`, `intByteLength`) the code model uses;
  * the length determinant octets and the fragmentation procedure of the UNALIGNED variant coincide
    with `Uper.lenDet` / `Uper.encChunks`;
  * complete encodings: `bytesToBits (packBits e) = padToByte e`.
-/
set_option linter.unusedSimpArgs false
namespace Asn1.X691
open Asn1.Uper (lenDet encChunks encChunked padToByte)

/-! ### `leastFrom` -/

/-- if some candidate within the fuel satisfies `p`, `leastFrom` returns the least one -/
theorem leastFrom_spec (p : Nat → Bool) (fuel k : Nat) (h : ∃ j, j ≤ fuel ∧ p (k + j) = true) :
    p (leastFrom p fuel k) = true ∧ k ≤ leastFrom p fuel k ∧
      ∀ m, k ≤ m → m < leastFrom p fuel k → p m = false := by
  induction fuel generalizing k with
  | zero =>
    obtain ⟨j, hj, hp⟩ := h
    have : j = 0 := by omega
    subst this
    refine ⟨by simpa [leastFrom] using hp, by simp [leastFrom], ?_⟩
    intro m h1 h2
    simp [leastFrom] at h2
    omega
  | succ fuel ih =>
    rw [leastFrom]
    by_cases hk : p k = true
    · rw [if_pos hk]
      exact ⟨hk, Nat.le_refl _, fun m h1 h2 => by omega⟩
    · rw [if_neg hk]
      obtain ⟨j, hj, hp⟩ := h
      have hj0 : j ≠ 0 := by
        intro h0; subst h0; exact hk (by simpa using hp)
      obtain ⟨h1, h2, h3⟩ := ih (k + 1) ⟨j - 1, by omega, by
        have : k + 1 + (j - 1) = k + j := by omega
        rw [this]; exact hp⟩
      refine ⟨h1, by omega, ?_⟩
      intro m hm1 hm2
      by_cases hmk : m = k
      · subst hmk; simpa using hk
      · exact h3 m (by omega) hm2

/-- `leastFrom` is the unique least solution -/
theorem leastFrom_eq (p : Nat → Bool) (fuel k r : Nat) (hk : k ≤ r) (hr : p r = true)
    (hmin : ∀ m, k ≤ m → m < r → p m = false) (hf : r ≤ k + fuel) : leastFrom p fuel k = r := by
  induction fuel generalizing k with
  | zero =>
    have : r = k := by omega
    subst this; rfl
  | succ fuel ih =>
    rw [leastFrom]
    by_cases hpk : p k = true
    · rw [if_pos hpk]
      by_cases hkr : k = r
      · exact hkr
      · have := hmin k (Nat.le_refl _) (by omega)
        rw [hpk] at this; cases this
    · rw [if_neg hpk]
      have hkr : k ≠ r := by
        intro h; subst h; exact hpk hr
      exact ih (k + 1) (by omega) (fun m h1 h2 => hmin m (by omega) h2) (by omega)

/-! ### `minBits`: the width of a constrained whole number -/

theorem bitLength_le_self (n : Nat) : bitLength n ≤ n :=
  bitLength_le_of_lt_pow Nat.lt_two_pow_self

/-- closed form of the declarative width -/
theorem minBits_eq (range : Nat) : minBits range = bitLength (range - 1) := by
  unfold minBits
  apply leastFrom_eq
  · omega
  · simp only [decide_eq_true_eq]
    have := lt_two_pow_bitLength (range - 1)
    omega
  · intro m _ hm
    simp only [decide_eq_false_iff_not, Nat.not_le]
    by_cases h : range ≤ 2 ^ m
    · have h0 : range ≠ 0 := by
        intro h0; subst h0; simp [bitLength] at hm
      have : range - 1 < 2 ^ m := by omega
      have := bitLength_le_of_lt_pow this
      omega
    · omega
  · have := bitLength_le_self (range - 1)
    omega

/-- **declarative characterisation** (10.5.6 / 10.5.7.1): `w` bits suffice for `range` values iff
`w` is at least the bit length of `range - 1` -/
theorem cwn_width_minimal (range w : Nat) : range ≤ 2 ^ w ↔ bitLength (range - 1) ≤ w := by
  constructor
  · intro h
    by_cases h0 : range = 0
    · subst h0; simp [bitLength]
    · exact bitLength_le_of_lt_pow (by omega)
  · intro h
    have h1 := lt_two_pow_bitLength (range - 1)
    have h2 : 2 ^ bitLength (range - 1) ≤ 2 ^ w := Nat.pow_le_pow_right (by omega) h
    omega

/-- `minBits range` is the least width: it suffices, and nothing smaller does -/
theorem minBits_spec (range : Nat) :
    range ≤ 2 ^ minBits range ∧ ∀ w, range ≤ 2 ^ w → minBits range ≤ w := by
  rw [minBits_eq]
  exact ⟨(cwn_width_minimal range _).2 (Nat.le_refl _), fun w h => (cwn_width_minimal range w).1 h⟩

/-! ### `minOctets`, `minOctets2c` -/

theorem pow256' (k : Nat) : 256 ^ k = 2 ^ (8 * k) := by
  rw [show (256 : Nat) = 2 ^ 8 from rfl, ← Nat.pow_mul]

/-- closed form: the number of octets of a non-negative-binary-integer (at least one) -/
theorem minOctets_eq (n : Nat) : minOctets n = if n = 0 then 1 else (bitLength n + 7) / 8 := by
  unfold minOctets
  apply leastFrom_eq
  · split
    · omega
    · rename_i h
      have : 0 < bitLength n := by
        unfold bitLength; simp [h]
      omega
  · simp only [decide_eq_true_eq, pow256']
    split
    · subst_vars; simp
    · have h1 := lt_two_pow_bitLength n
      have h2 : 2 ^ bitLength n ≤ 2 ^ (8 * ((bitLength n + 7) / 8)) :=
        Nat.pow_le_pow_right (by omega) (by omega)
      omega
  · intro m hm1 hm2
    simp only [decide_eq_false_iff_not, Nat.not_lt, pow256']
    split at hm2
    · omega
    · by_cases h : n < 2 ^ (8 * m)
      · have := bitLength_le_of_lt_pow h
        omega
      · omega
  · have := bitLength_le_self n
    split <;> omega

/-- **minimal-octets lemma** (10.3.6, used by 10.7 and 10.5.7.4): `minOctets n` octets hold `n`,
it is at least one, and no smaller positive number of octets holds `n` -/
theorem minOctets_spec (n : Nat) :
    1 ≤ minOctets n ∧ n < 256 ^ minOctets n ∧ ∀ k, 1 ≤ k → n < 256 ^ k → minOctets n ≤ k := by
  have h := leastFrom_spec (fun k => decide (n < 256 ^ k)) n 1
    ⟨n, Nat.le_refl _, by
      simp only [decide_eq_true_eq]
      have h1 : n < 2 ^ n := Nat.lt_two_pow_self
      have h2 : 2 ^ n ≤ 256 ^ (1 + n) := by
        rw [pow256']; exact Nat.pow_le_pow_right (by omega) (by omega)
      omega⟩
  obtain ⟨h1, h2, h3⟩ := h
  unfold minOctets
  refine ⟨h2, by simpa using h1, ?_⟩
  intro k hk hn
  by_cases hlt : k < leastFrom (fun k => decide (n < 256 ^ k)) n 1
  · have := h3 k hk hlt
    simp at this
    omega
  · omega

theorem fits2c_iff (k : Nat) (i : Int) :
    fits2c k i = true ↔
      (if 0 ≤ i then i.toNat else (-i - 1).toNat) < 2 ^ (8 * k - 1) := by
  unfold fits2c
  split <;> simp

theorem fits2c_intByteLength (i : Int) : fits2c (intByteLength i) i = true := by
  rw [fits2c_iff]
  unfold intByteLength
  split
  · rename_i h
    have h' : 0 ≤ i := h
    try simp only [h', if_true]
    have h1 := lt_two_pow_bitLength i.toNat
    have h2 : 2 ^ bitLength i.toNat ≤ 2 ^ (8 * (bitLength i.toNat / 8 + 1) - 1) :=
      Nat.pow_le_pow_right (by omega) (by omega)
    omega
  · rename_i h
    have h' : ¬ 0 ≤ i := h
    try simp only [h', if_false]
    have h1 := lt_two_pow_bitLength (-i - 1).toNat
    have h2 : 2 ^ bitLength (-i - 1).toNat ≤ 2 ^ (8 * (bitLength (-i - 1).toNat / 8 + 1) - 1) :=
      Nat.pow_le_pow_right (by omega) (by omega)
    omega

theorem intByteLength_le_of_fits (i : Int) (k : Nat) (hk : 1 ≤ k) (hf : fits2c k i = true) :
    intByteLength i ≤ k := by
  rw [fits2c_iff] at hf
  unfold intByteLength
  split
  · rename_i h
    have h' : 0 ≤ i := h
    simp only [h', if_true] at hf
    have := bitLength_le_of_lt_pow hf
    omega
  · rename_i h
    have h' : ¬ 0 ≤ i := h
    simp only [h', if_false] at hf
    have := bitLength_le_of_lt_pow hf
    omega

/-- closed form: the number of octets of a 2's-complement-binary-integer -/
theorem minOctets2c_eq (i : Int) : minOctets2c i = intByteLength i := by
  unfold minOctets2c
  apply leastFrom_eq
  · exact intByteLength_pos i
  · exact fits2c_intByteLength i
  · intro m hm1 hm2
    cases hf : fits2c m i
    · rfl
    · have := intByteLength_le_of_fits i m hm1 hf
      omega
  · unfold intByteLength
    split
    · have := bitLength_le_self i.toNat
      omega
    · have := bitLength_le_self (-i - 1).toNat
      omega

/-- **minimal-octets lemma** (10.4.6, used by 10.8): `minOctets2c i` octets hold `i` in 2's
complement, and no smaller positive number of octets does -/
theorem minOctets2c_spec (i : Int) :
    1 ≤ minOctets2c i ∧ fits2c (minOctets2c i) i = true ∧
      ∀ k, 1 ≤ k → fits2c k i = true → minOctets2c i ≤ k := by
  rw [minOctets2c_eq]
  exact ⟨intByteLength_pos i, fits2c_intByteLength i, fun k hk hf => intByteLength_le_of_fits i k hk hf⟩

/-! ### length determinants -/

@[simp] theorem pad_false (pos : Nat) : pad false pos = [] := rfl

/-- **length-determinant form lemma**: the three forms of 10.9.3.6 – 10.9.3.8 are the octets
`0nnnnnnn`, `10nnnnnn nnnnnnnn`, `11000mmm` the code writes -/
theorem lengthOctets_eq (n : Nat) : lengthOctets n = lenDet n := by
  unfold lengthOctets lenDet
  by_cases h1 : n ≤ 127
  · have h1' : n < 128 := by omega
    rw [if_pos h1, if_pos h1', natToBits_succ_of_lt (w := 7) (by omega)]
  · have h1' : ¬ n < 128 := by omega
    rw [if_neg h1, if_neg h1']
    by_cases h2 : n < 16384
    · rw [if_pos h2, if_pos h2]
      rw [natToBits_succ_of_ge (w := 15) (by omega) (by omega)]
      have : 32768 + n - 2 ^ 15 = n := by omega
      rw [this, natToBits_succ_of_lt (w := 14) (by omega)]
    · rw [if_neg h2, if_neg h2]
      by_cases h3 : n < 32768
      · have : min 4 (n / 16384) = 1 := by omega
        rw [if_pos h3]; simp only [this]; rfl
      · rw [if_neg h3]
        by_cases h4 : n < 49152
        · have : min 4 (n / 16384) = 2 := by omega
          rw [if_pos h4]; simp only [this]; rfl
        · rw [if_neg h4]
          by_cases h5 : n < 65536
          · have : min 4 (n / 16384) = 3 := by omega
            rw [if_pos h5]; simp only [this]; rfl
          · have : min 4 (n / 16384) = 4 := by omega
            rw [if_neg h5]; simp only [this]; rfl

/-- declarative reading of the length determinant: what the octets say -/
theorem lengthOctets_form (n : Nat) :
    (n ≤ 127 → lengthOctets n = (false :: natToBits 7 n, n)) ∧
    (127 < n → n < 16384 → lengthOctets n = (true :: false :: natToBits 14 n, n)) ∧
    (16384 ≤ n → ∃ m, 1 ≤ m ∧ m ≤ 4 ∧ m * 16384 ≤ n ∧ (m = 4 ∨ n < (m + 1) * 16384) ∧
        lengthOctets n = (true :: true :: natToBits 6 m, m * 16384)) := by
  refine ⟨?_, ?_, ?_⟩
  · intro h; unfold lengthOctets; rw [if_pos h]
  · intro h1 h2; unfold lengthOctets; rw [if_neg (by omega), if_pos h2]
  · intro h
    refine ⟨min 4 (n / 16384), by omega, by omega, by omega, by omega, ?_⟩
    unfold lengthOctets; rw [if_neg (by omega), if_neg (by omega)]

theorem frag_false (fuel pos : Nat) (items : List Bits) :
    frag false fuel pos items = encChunks fuel items := by
  induction fuel generalizing pos items with
  | zero => rfl
  | succ fuel ih =>
    simp only [frag, encChunks, pad_false, lengthOctets_eq, List.nil_append, List.length_nil,
      Nat.add_zero]
    split <;> simp [ih]

theorem genLen_false (pos : Nat) (items : List Bits) : genLen false pos items = encChunked items := by
  unfold genLen encChunked
  exact frag_false _ _ _

theorem encChunked_small (items : List Bits) (h : items.length < 16384) :
    encChunked items = (lenDet items.length).1 ++ items.flatten := by
  unfold encChunked
  simp only [encChunks]
  have h2 : (lenDet items.length).2 = items.length := Uper.lenDet_snd_of_lt h
  rw [h2, if_pos h, List.take_length]

theorem flatten_map_natToBits8 (bs : Bytes) : (bs.map (natToBits 8)).flatten = bytesToBits bs := by
  unfold bytesToBits
  rw [List.flatMap_def]

/-- octets behind an unfragmented length determinant -/
theorem lenOctets_false_small (pos : Nat) (bs : Bytes) (h : bs.length < 16384) :
    lenOctets false pos bs = (lenDet bs.length).1 ++ bytesToBits bs := by
  unfold lenOctets
  rw [genLen_false, encChunked_small _ (by simpa using h), flatten_map_natToBits8]
  simp

/-! ### complete encodings -/

theorem natToBits_bitsToNat (bs : Bits) : natToBits bs.length (bitsToNat bs) = bs := by
  induction bs with
  | nil => rfl
  | cons b r ih =>
    have hlt := bitsToNat_lt r
    rw [List.length_cons, Nat.add_comm, natToBits_add, bitsToNat_cons]
    have h1 : ((if b then 1 else 0) * 2 ^ r.length + bitsToNat r) / 2 ^ r.length = (if b then 1 else 0) := by
      rw [Nat.mul_comm, Nat.mul_add_div (Nat.pow_pos (by omega)), Nat.div_eq_of_lt hlt]
      omega
    rw [h1, ← natToBits_mod r.length]
    have h2 : ((if b then 1 else 0) * 2 ^ r.length + bitsToNat r) % 2 ^ r.length = bitsToNat r := by
      rw [Nat.mul_comm, Nat.mul_add_mod, Nat.mod_eq_of_lt hlt]
    rw [h2, ih]
    cases b <;> rfl

theorem bytesToBits_bitsToBytes (fuel : Nat) (e : Bits) (h : e.length ≤ 8 * fuel) :
    bytesToBits (bitsToBytes fuel e) = padToByte e := by
  induction fuel generalizing e with
  | zero =>
    have : e = [] := List.eq_nil_of_length_eq_zero (by omega)
    subst this; rfl
  | succ fuel ih =>
    rw [bitsToBytes]
    cases e with
    | nil => rfl
    | cons b r =>
      simp only [List.isEmpty_cons, Bool.false_eq_true, if_false]
      generalize hE : b :: r = e at *
      have hne : 0 < e.length := by subst hE; simp
      unfold bytesToBits
      rw [List.flatMap_cons]
      have hlen : (List.take 8 e ++ List.replicate (8 - (List.take 8 e).length) false).length = 8 := by
        simp only [List.length_append, List.length_take, List.length_replicate]; omega
      have h8 := natToBits_bitsToNat (List.take 8 e ++ List.replicate (8 - (List.take 8 e).length) false)
      rw [hlen] at h8
      rw [h8]
      have ih' := ih (e.drop 8) (by simp only [List.length_drop]; omega)
      unfold bytesToBits at ih'
      rw [ih']
      unfold padToByte
      by_cases h8e : 8 ≤ e.length
      · have : (List.take 8 e).length = 8 := by simp only [List.length_take]; omega
        rw [this]
        simp only [Nat.sub_self, List.replicate_zero, List.append_nil, List.length_drop]
        have hm : (8 - (e.length - 8) % 8) % 8 = (8 - e.length % 8) % 8 := by omega
        rw [hm, ← List.append_assoc, List.take_append_drop]
      · have hd : e.drop 8 = [] := List.drop_eq_nil_of_le (by omega)
        have ht : e.take 8 = e := List.take_of_length_le (by omega)
        rw [hd, ht]
        simp only [List.length_nil, Nat.zero_mod, Nat.sub_zero, Nat.mod_self, List.replicate_zero,
          List.append_nil]
        have : (8 - e.length % 8) % 8 = 8 - e.length := by omega
        rw [this]

theorem bytesToBits_packBits (e : Bits) : bytesToBits (packBits e) = padToByte e :=
  bytesToBits_bitsToBytes _ _ (by omega)

theorem packBits_length (e : Bits) : (packBits e).length = (padToByte e).length / 8 := by
  have h := congrArg List.length (bytesToBits_packBits e)
  rw [bytesToBits_length] at h
  omega

/-- an open type of the UNALIGNED variant whose contents are not empty and shorter than 16K
octets is the octet count followed by the contents padded to whole octets -/
theorem openType_false (pos : Nat) (e : Bits) (hne : e.isEmpty = false)
    (hlen : (complete e).length < 16384) :
    openType false pos e = (lenDet ((padToByte e).length / 8)).1 ++ padToByte e := by
  unfold openType
  unfold complete at hlen ⊢
  rw [hne] at hlen ⊢
  simp only [Bool.false_eq_true, if_false] at hlen ⊢
  rw [lenOctets_false_small _ _ hlen, bytesToBits_packBits, packBits_length]

/-! ### whole numbers of the UNALIGNED variant -/

theorem cwn_false (pos v range : Nat) : cwn false pos v range = natToBits (bitLength (range - 1)) v := by
  unfold cwn cwnSmall
  simp only [Bool.not_false, Bool.true_or, if_true]
  by_cases h : range ≤ 1
  · rw [if_pos h]
    have : range - 1 = 0 := by omega
    rw [this]; rfl
  · rw [if_neg h, minBits_eq]

/-! ### position threading and fragmentation for position independent items -/

theorem mapM_append' {α β : Type} (g : α → EncM β) (l1 l2 : List α) (r1 r2 : List β)
    (h1 : l1.mapM g = .ok r1) (h2 : l2.mapM g = .ok r2) : (l1 ++ l2).mapM g = .ok (r1 ++ r2) := by
  induction l1 generalizing r1 with
  | nil =>
    rw [Uper.mapM_nil'] at h1
    cases h1; simpa using h2
  | cons a l ih =>
    rw [Uper.mapM_cons'] at h1
    rw [List.cons_append, Uper.mapM_cons']
    cases hfa : g a with
    | error e => rw [hfa] at h1; cases h1
    | ok b =>
      rw [hfa] at h1
      cases hl : l.mapM g with
      | error e => rw [hl] at h1; cases h1
      | ok bs =>
        rw [hl] at h1
        cases h1
        simp only [ih bs hl, List.cons_append]

theorem mapM_length' {α β : Type} (g : α → EncM β) (l : List α) (r : List β)
    (h : l.mapM g = .ok r) : r.length = l.length :=
  (Uper.All2.length_eq (Uper.all2_of_mapM _ _ _ h)).symm

theorem mapM_congr_ok {α β : Type} (f g : α → EncM β) (l : List α) (r : List β)
    (hfg : ∀ a ∈ l, ∀ b, f a = .ok b → g a = .ok b) (h : l.mapM f = .ok r) : l.mapM g = .ok r := by
  induction l generalizing r with
  | nil => rw [Uper.mapM_nil'] at h ⊢; exact h
  | cons a l ih =>
    rw [Uper.mapM_cons'] at h ⊢
    cases hfa : f a with
    | error e => rw [hfa] at h; cases h
    | ok b =>
      rw [hfa] at h
      rw [hfg a (by simp) b hfa]
      cases hl : l.mapM f with
      | error e => rw [hl] at h; cases h
      | ok bs =>
        rw [hl] at h
        rw [ih bs (fun x hx => hfg x (by simp [hx])) hl]
        exact h

section generic
variable {α : Type} (f : Nat → α → EncM Bits) (g : α → EncM Bits)

theorem seqM_mapM (vs : List α) (hfg : ∀ v ∈ vs, ∀ p b, f p v = .ok b → g v = .ok b)
    (pos : Nat) (bits : Bits) (h : seqM f pos vs = .ok bits) :
    ∃ items, vs.mapM g = .ok items ∧ items.flatten = bits := by
  induction vs generalizing pos bits with
  | nil =>
    rw [seqM] at h; cases h
    exact ⟨[], Uper.mapM_nil' g, rfl⟩
  | cons v r ih =>
    rw [seqM] at h
    cases hv : f pos v with
    | error e => rw [hv] at h; cases h
    | ok a =>
      rw [hv] at h
      simp only at h
      cases hr : seqM f (pos + a.length) r with
      | error e => rw [hr] at h; cases h
      | ok b =>
        rw [hr] at h
        cases h
        obtain ⟨items, hi1, hi2⟩ := ih (fun x hx => hfg x (by simp [hx])) _ _ hr
        refine ⟨a :: items, ?_, by simp [hi2]⟩
        rw [Uper.mapM_cons', hfg v (by simp) pos a hv, hi1]

theorem fragM_mapM (fuel : Nat) (vs : List α) (hfg : ∀ v ∈ vs, ∀ p b, f p v = .ok b → g v = .ok b)
    (pos : Nat) (bits : Bits) (hfuel : vs.length < fuel * 16384)
    (h : fragM false f fuel pos vs = .ok bits) :
    ∃ items, vs.mapM g = .ok items ∧ bits = encChunks fuel items := by
  induction fuel generalizing vs pos bits with
  | zero => omega
  | succ fuel ih =>
    rw [fragM] at h
    simp only [pad_false, lengthOctets_eq, List.length_nil, Nat.add_zero, List.nil_append] at h
    have hk := Uper.lenDet_snd_le vs.length
    cases hb : seqM f (pos + (lenDet vs.length).1.length) (vs.take (lenDet vs.length).2) with
    | error e => rw [hb] at h; cases h
    | ok body =>
      rw [hb] at h
      simp only at h
      obtain ⟨items1, h11, h12⟩ := seqM_mapM f g _
        (fun x hx => hfg x (List.mem_of_mem_take hx)) _ _ hb
      have hl1 : items1.length = (lenDet vs.length).2 := by
        rw [mapM_length' _ _ _ h11, List.length_take]; omega
      by_cases hlt : (lenDet vs.length).2 < 16384
      · rw [if_pos hlt] at h
        cases h
        have hkeq := Uper.lenDet_snd_eq_of_snd_lt hlt
        rw [hkeq, List.take_length] at h11
        refine ⟨items1, h11, ?_⟩
        rw [encChunks]
        have hl : items1.length = vs.length := mapM_length' _ _ _ h11
        rw [hl]
        simp only [if_pos hlt]
        rw [hkeq, ← hl, List.take_length, h12]
      · rw [if_neg hlt] at h
        cases hr : fragM false f fuel (pos + (lenDet vs.length).1.length + body.length)
            (vs.drop (lenDet vs.length).2) with
        | error e => rw [hr] at h; cases h
        | ok rest =>
          rw [hr] at h
          cases h
          obtain ⟨items2, h21, h22⟩ := ih (vs.drop (lenDet vs.length).2)
            (fun x hx => hfg x (List.mem_of_mem_drop hx)) _ _
            (by simp only [List.length_drop]; omega) hr
          have hall := mapM_append' g _ _ _ _ h11 h21
          rw [List.take_append_drop] at hall
          refine ⟨items1 ++ items2, hall, ?_⟩
          rw [encChunks]
          have hl : (items1 ++ items2).length = vs.length := mapM_length' _ _ _ hall
          rw [hl]
          simp only [if_neg hlt]
          have ht : (items1 ++ items2).take (lenDet vs.length).2 = items1 := by
            rw [← hl1]; simp
          have hd : (items1 ++ items2).drop (lenDet vs.length).2 = items2 := by
            rw [← hl1]; simp
          rw [ht, hd, h12, h22]

theorem genLenM_mapM (vs : List α) (hfg : ∀ v ∈ vs, ∀ p b, f p v = .ok b → g v = .ok b)
    (pos : Nat) (bits : Bits) (h : genLenM false f pos vs = .ok bits) :
    ∃ items, vs.mapM g = .ok items ∧ bits = encChunked items := by
  unfold genLenM at h
  obtain ⟨items, h1, h2⟩ := fragM_mapM f g _ vs hfg pos bits (by omega) h
  refine ⟨items, h1, ?_⟩
  unfold encChunked
  rw [mapM_length' _ _ _ h1]; exact h2

end generic

/-! ### size constraints -/

theorem inRoot_eq_inSize (c : SizeC) (n : Nat) : inRoot c n = Uper.inSize c n := by
  unfold inRoot Uper.inSize
  cases c.hi <;> simp

/-- what the code writes for a size inside the (root of the) size constraint, below the
extension bit -/
def mSized (c : SizeC) (items : List Bits) : Bits :=
  match Uper.sizeBits c with
  | none => encChunked items
  | some w =>
    if some c.lo ≠ c.hi then natToBits w (items.length - c.lo) ++ items.flatten
    else items.flatten

section generic
variable {α : Type} (f : Nat → α → EncM Bits) (g : α → EncM Bits)

theorem sizedM_false (c : SizeC) (af av : Bool) (vs : List α)
    (hfg : ∀ v ∈ vs, ∀ p b, f p v = .ok b → g v = .ok b) (pos : Nat) (bits : Bits)
    (h : sizedM false f c.lo c.hi af av pos vs = .ok bits) :
    ∃ items, vs.mapM g = .ok items ∧ bits = mSized c items ∧ Uper.inSize c vs.length = true := by
  unfold sizedM at h
  simp only [pad_false, ite_self, List.length_nil, Nat.add_zero, List.nil_append, List.append_nil] at h
  by_cases hlo : vs.length < c.lo
  · rw [if_pos hlo] at h; cases h
  rw [if_neg hlo] at h
  unfold mSized Uper.sizeBits Uper.inSize
  cases hhi : c.hi with
  | none =>
    rw [hhi] at h
    simp only at h
    obtain ⟨items, h1, h2⟩ := genLenM_mapM f g vs hfg pos bits h
    exact ⟨items, h1, h2, by simp; omega⟩
  | some ub =>
    rw [hhi] at h
    simp only at h
    by_cases hub : ub < vs.length
    · rw [if_pos hub] at h; cases h
    rw [if_neg hub] at h
    by_cases h64 : ub < 65536
    · rw [if_pos h64] at h
      have h64' : ¬ ub > 65535 := by omega
      simp only [h64', if_false]
      by_cases heq : c.lo = ub
      · rw [if_pos heq] at h
        cases hb : seqM f pos vs with
        | error e => rw [hb] at h; cases h
        | ok body =>
          rw [hb] at h
          cases h
          obtain ⟨items, h1, h2⟩ := seqM_mapM f g vs hfg _ _ hb
          refine ⟨items, h1, ?_, by simp; omega⟩
          simp [heq, h2]
      · rw [if_neg heq] at h
        rw [cwn_false] at h
        simp only [natToBits_length] at h
        cases hb : seqM f (pos + bitLength (ub - c.lo + 1 - 1)) vs with
        | error e => rw [hb] at h; cases h
        | ok body =>
          rw [hb] at h
          cases h
          obtain ⟨items, h1, h2⟩ := seqM_mapM f g vs hfg _ _ hb
          refine ⟨items, h1, ?_, by simp; omega⟩
          have hne : some c.lo ≠ some ub := by
            intro hh; cases hh; exact heq rfl
          rw [if_pos hne, mapM_length' _ _ _ h1, h2]
          simp
    · rw [if_neg h64] at h
      have h64' : ub > 65535 := by omega
      simp only [h64', if_true]
      obtain ⟨items, h1, h2⟩ := genLenM_mapM f g vs hfg pos bits h
      exact ⟨items, h1, h2, by simp; omega⟩

theorem extSizedM_false (c : SizeC) (af av : Bool) (vs : List α)
    (hfg : ∀ v ∈ vs, ∀ p b, f p v = .ok b → g v = .ok b) (pos : Nat) (bits : Bits)
    (h : extSizedM false f c af av pos vs = .ok bits) :
    ∃ items, vs.mapM g = .ok items ∧
      ((c.ext = true ∧ Uper.inSize c vs.length = false ∧ bits = true :: encChunked items) ∨
       (Uper.inSize c vs.length = true ∧
          bits = (if c.ext then [false] else []) ++ mSized c items)) := by
  unfold extSizedM at h
  by_cases hext : c.ext = true
  · rw [if_pos hext] at h
    rw [inRoot_eq_inSize] at h
    cases hin : Uper.inSize c vs.length with
    | false =>
      rw [hin] at h
      simp only [Bool.false_eq_true, if_false] at h
      cases hb : genLenM false f (pos + 1) vs with
      | error e => rw [hb] at h; cases h
      | ok b =>
        rw [hb] at h
        cases h
        obtain ⟨items, h1, h2⟩ := genLenM_mapM f g vs hfg _ _ hb
        exact ⟨items, h1, Or.inl ⟨hext, rfl, by rw [h2]⟩⟩
    | true =>
      rw [hin] at h
      simp only [if_true] at h
      cases hb : sizedM false f c.lo c.hi af av (pos + 1) vs with
      | error e => rw [hb] at h; cases h
      | ok b =>
        rw [hb] at h
        cases h
        obtain ⟨items, h1, h2, _⟩ := sizedM_false f g c af av vs hfg _ _ hb
        exact ⟨items, h1, Or.inr ⟨rfl, by rw [h2, if_pos hext]; rfl⟩⟩
  · rw [if_neg hext] at h
    obtain ⟨items, h1, h2, h3⟩ := sizedM_false f g c af av vs hfg _ _ h
    exact ⟨items, h1, Or.inr ⟨h3, by rw [h2, if_neg hext]; rfl⟩⟩

end generic

/-- `leaf` items: the "element encoder" is the identity -/
theorem leaf_ok (items : List Bits) : ∀ v ∈ items, ∀ p b, leaf p v = .ok b → (Except.ok v : EncM Bits) = .ok b := by
  intro v _ p b h
  exact h

theorem mapM_ok_id (items : List Bits) : items.mapM (fun b => (Except.ok b : EncM Bits)) = .ok items := by
  induction items with
  | nil => exact Uper.mapM_nil' _
  | cons a l ih => rw [Uper.mapM_cons', ih]

end Asn1.X691
