import Asn1Proofs.Lemmas.PrefixPer
/-
  Prefix determinism (at octet boundaries of the message) of `Per.dec` for every type of the universe.
-/
set_option linter.unusedSimpArgs false
set_option linter.unusedVariables false
namespace Asn1.Per
open Asn1.Uper (DecM bind_ok sizeBits sortByVal charDecode utf8Dec)

/-- prefix determinism of the decoder of `t`: the run on the prefix may use any fuel larger than
the length of the prefix -/
def PT (t : Ty) : Prop := ∀ (f f' N : Nat), N < f' → PF N (dec t f) (dec t f')

theorem pf_optBit (c : Bool) (N : Nat) :
    PF N (fun s => if c = true then readBit s else .ok (false, s))
      (fun s => if c = true then readBit s else .ok (false, s)) := by
  intro pos q x a r hN hal h
  dsimp only at h ⊢
  revert h
  split
  · intro h; exact pf_readBit N pos q x a r hN hal h
  · intro h; cases h; exact res_ok (Nat.le_refl _) rfl

theorem pt_boolean : PT .boolean := by
  intro f f' N hf pos q x a r hN hal h
  rw [dec] at h ⊢
  refine pf_bind (pf_readBit N) hN hal rfl h ?_
  intro b p1 r1 hl hT1 _
  pf_ok

theorem pt_null : PT .null := by
  intro f f' N hf pos q x a r hN hal h
  rw [dec] at h ⊢
  cases h; exact res_ok (Nat.le_refl _) rfl

theorem pt_integer (c : IntC) : PT (.integer c) := by
  intro f f' N hf pos q x a r hN hal h
  rw [dec] at h ⊢
  revert h
  split
  · dsimp only
    split
    · intro h
      refine pf_bind (pf_readBit N) hN hal rfl h ?_
      intro b p1 r1 hl hT1 _ h
      dsimp only at h ⊢
      revert h
      split
      · intro h
        refine pf_bind (pf_align (pf_decUnconstrained N)) (by omega) hal hT1 h ?_
        intro i p2 r2 hl2 hT2 _
        pf_ok
      · intro h
        refine pf_bind (pf_decConstrainedInt _ _ N) (by omega) hal hT1 h ?_
        intro i p2 r2 hl2 hT2 _
        pf_ok
    · intro h
      refine pf_bind (pf_decConstrainedInt _ _ N) hN hal rfl h ?_
      intro i p2 r2 hl2 hT2 _
      pf_ok
  · split
    · intro h
      refine pf_bind (pf_readBit N) hN hal rfl h ?_
      intro b p1 r1 hl hT1 _ h
      dsimp only at h ⊢
      refine pf_bind (pf_align (pf_decUnconstrained N)) (by omega) hal hT1 h ?_
      intro i p2 r2 hl2 hT2 _
      pf_ok
    · intro h
      refine pf_bind (pf_align (pf_decUnconstrained N)) hN hal rfl h ?_
      intro i p2 r2 hl2 hT2 _
      pf_ok

theorem pt_enumerated (root : List (String × Int)) (ext : Option (List (String × Int))) :
    PT (.enumerated root ext) := by
  intro f f' N hf pos q x a r hN hal h
  have hroot : ∀ (pos : Nat) (q : Bits) (a : Val) (r : St), q.length ≤ N → (pos + q.length) % 8 = 0 →
      (do
        let (i, r) ← readNat (bitLength ((sortByVal root).length - 1)) ⟨pos, q ++ x⟩
        match (sortByVal root)[i]? with
        | some (n, _) => .ok (.enum n, r)
        | none => .error .decodeError : DecM (Val × St)) = .ok (a, r) →
      Res x a r q.length (pos + q.length) (do
        let (i, r) ← readNat (bitLength ((sortByVal root).length - 1)) ⟨pos, q⟩
        match (sortByVal root)[i]? with
        | some (n, _) => .ok (.enum n, r)
        | none => .error .decodeError : DecM (Val × St)) := by
    intro pos q a r hN hal h
    refine pf_bind (pf_readNat _ N) hN hal rfl h ?_
    intro i p1 r1 hl hT1 _ h
    dsimp only at h ⊢
    revert h
    split
    · pf_ok
    · intro h; cases h
  cases ext with
  | none =>
    rw [dec] at h ⊢
    dsimp only at h ⊢
    exact hroot pos q a r hN hal h
  | some adds =>
    rw [dec] at h ⊢
    dsimp only at h ⊢
    refine pf_bind (pf_readBit N) hN hal rfl h ?_
    intro b p1 r1 hl hT1 _ h
    dsimp only at h ⊢
    revert h
    split
    · intro h
      have := hroot p1 r1 a r (by omega) (by omega) h
      rw [hT1] at this; exact this
    · intro h
      refine pf_bind (pf_decNsnnwn N) (by omega) hal hT1 h ?_
      intro i p2 r2 hl2 hT2 _ h
      dsimp only at h ⊢
      revert h
      split <;> pf_ok

theorem pt_octetString (c : SizeC) : PT (.octetString c) := by
  intro f f' N hf pos q x a r hN hal h
  rw [dec] at h ⊢
  refine pf_bind (pf_optBit c.ext N) hN hal rfl h ?_
  intro ext p0 r0 hl0 hT0 _ h
  dsimp only at h ⊢
  revert h
  split
  · intro h
    refine pf_bind (pf_align (pf_readLenDet N)) (by omega) hal hT0 h ?_
    intro len p1 r1 hl1 hT1 _ h
    dsimp only at h ⊢
    refine pf_bind (pf_readBits _ N) (by omega) hal hT1 h ?_
    intro body p2 r2 hl2 hT2 _
    pf_ok
  · split
    · intro h
      refine pf_bind (pf_align (pf_decChunksBits 8 f f' N hf)) (by omega) hal hT0 h ?_
      intro xs p1 r1 hl1 hT1 _
      pf_ok
    · intro h
      refine pf_bind (pf_readSize c _ _ _ N) (by omega) hal hT0 h ?_
      intro len p1 r1 hl1 hT1 _ h
      dsimp only at h ⊢
      refine pf_bind (pf_readBits _ N) (by omega) hal hT1 h ?_
      intro body p2 r2 hl2 hT2 _
      pf_ok

theorem pt_bitString (c : SizeC) : PT (.bitString c) := by
  intro f f' N hf pos q x a r hN hal h
  rw [dec] at h ⊢
  refine pf_bind (pf_optBit c.ext N) hN hal rfl h ?_
  intro ext p0 r0 hl0 hT0 _ h
  dsimp only at h ⊢
  revert h
  split
  · intro h; cases h
  · split
    · intro h
      refine pf_bind (pf_align (pf_decChunksBits 1 f f' N hf)) (by omega) hal hT0 h ?_
      intro xs p1 r1 hl1 hT1 _
      pf_ok
    · intro h
      refine pf_bind (pf_readSize c _ _ _ N) (by omega) hal hT0 h ?_
      intro len p1 r1 hl1 hT1 _ h
      dsimp only at h ⊢
      refine pf_bind (pf_readBits _ N) (by omega) hal hT1 h ?_
      intro body p2 r2 hl2 hT2 _
      pf_ok

theorem pt_utf8 (c : SizeC) : PT (.charString .utf8 c) := by
  intro f f' N hf pos q x a r hN hal h
  rw [dec] at h ⊢
  refine pf_bind (pf_align (pf_decChunksBits 8 f f' N hf)) hN hal rfl h ?_
  intro xs p1 r1 hl1 hT1 _ h
  dsimp only at h ⊢
  revert h
  split
  · pf_ok
  · intro h; cases h

theorem pf_one (k : StrKind) (N : Nat) :
    PF N (fun s => do let (v, r) ← readNat (bitsPerChar k) s; let ch ← charDecode k v; .ok (ch, r))
      (fun s => do let (v, r) ← readNat (bitsPerChar k) s; let ch ← charDecode k v; .ok (ch, r)) := by
  intro pos q x a r hN hal h
  dsimp only at h ⊢
  refine pf_bind (pf_readNat _ N) hN hal rfl h ?_
  intro v p1 r1 hl hT1 _ h
  dsimp only at h ⊢
  cases hc : charDecode k v with
  | error e => rw [hc] at h; cases h
  | ok ch =>
    rw [hc] at h
    revert h
    pf_ok

theorem pt_charString (k : StrKind) (hk : k ≠ .utf8) (c : SizeC) : PT (.charString k c) := by
  intro f f' N hf pos q x a r hN hal h
  rw [dec] at h ⊢
  · refine pf_bind (pf_optBit c.ext N) hN hal rfl h ?_
    intro ext p0 r0 hl0 hT0 _ h
    dsimp only at h ⊢
    revert h
    split
    · intro h; cases h
    · split
      · intro h
        refine pf_bind (pf_align (pf_decChunks f f' N (pf_one k N) hf)) (by omega) hal hT0 h ?_
        intro xs p1 r1 hl1 hT1 _
        pf_ok
      · intro h
        refine pf_bind (pf_readSize c _ _ _ N) (by omega) hal hT0 h ?_
        intro len p1 r1 hl1 hT1 _ h
        dsimp only at h ⊢
        refine pf_bind (pf_decRepeat (pf_one k N) len) (by omega) hal hT1 h ?_
        intro body p2 r2 hl2 hT2 _
        pf_ok
  all_goals (first | exact hk | (intro c' heq; cases heq; exact hk rfl))

/-! ### composite types -/

theorem pt_sequenceOf (e : Ty) (c : SizeC) (ih : PT e) : PT (.sequenceOf e c) := by
  intro f f' N hf pos q x a r hN hal h
  rw [dec] at h ⊢
  refine pf_bind (pf_optBit c.ext N) hN hal rfl h ?_
  intro ext p0 r0 hl0 hT0 _ h
  dsimp only at h ⊢
  revert h
  split
  · intro h
    refine pf_bind (pf_align (pf_readLenDet N)) (by omega) hal hT0 h ?_
    intro len p1 r1 hl1 hT1 _ h
    dsimp only at h ⊢
    refine pf_bind (pf_decRepeat (ih f f' N hf) len) (by omega) hal hT1 h ?_
    intro xs p2 r2 hl2 hT2 _
    pf_ok
  · split
    · intro h
      refine pf_bind (pf_align (pf_decChunks f f' N (ih f f' N hf) hf)) (by omega) hal hT0 h ?_
      intro xs p1 r1 hl1 hT1 _
      pf_ok
    · intro h
      refine pf_bind (pf_readSize c _ _ _ N) (by omega) hal hT0 h ?_
      intro len p1 r1 hl1 hT1 _ h
      dsimp only at h ⊢
      refine pf_bind (pf_decRepeat (ih f f' N hf) len) (by omega) hal hT1 h ?_
      intro xs p2 r2 hl2 hT2 _
      pf_ok

theorem pf_decMembers (ms : Members) : ms.All PT → ∀ (f f' N : Nat), N < f' → ∀ flags,
    PF N (decMembers ms f flags) (decMembers ms f' flags) := by
  induction ms using Members.ind with
  | nil =>
    intro _ f f' N hf flags pos q x a r hN hal h
    rw [decMembers] at h ⊢
    cases h; exact res_ok (Nat.le_refl _) rfl
  | cons name p t rest ih =>
    intro hall f f' N hf flags pos q x a r hN hal h
    obtain ⟨ht, hrest⟩ := hall
    have hpresent : ∀ fl, (do
          let (v, r) ← dec t f ⟨pos, q ++ x⟩
          let (fs, r') ← decMembers rest f fl r
          .ok ((name, v) :: fs, r') : DecM (List (String × Val) × St)) = .ok (a, r) →
        Res x a r q.length (pos + q.length) (do
          let (v, r) ← dec t f' ⟨pos, q⟩
          let (fs, r') ← decMembers rest f' fl r
          .ok ((name, v) :: fs, r') : DecM (List (String × Val) × St)) := by
      intro fl h
      refine pf_bind (ht f f' N hf) hN hal rfl h ?_
      intro v p1 r1 hl hT1 _ h
      dsimp only at h ⊢
      refine pf_bind (ih hrest f f' N hf fl) (by omega) hal hT1 h ?_
      intro fs p2 r2 hl2 hT2 _
      pf_ok
    cases p with
    | mandatory =>
      rw [decMembers] at h ⊢
      exact hpresent flags h
    | optional =>
      rw [decMembers.eq_def] at h ⊢
      dsimp only at h ⊢
      revert h
      split
      · intro h; exact hpresent _ h
      · intro h; exact ih hrest f f' N hf _ pos q x a r hN hal h
      · intro h; cases h
    | default d =>
      rw [decMembers.eq_def] at h ⊢
      dsimp only at h ⊢
      revert h
      split
      · intro h; exact hpresent _ h
      · intro h
        refine pf_bind (ih hrest f f' N hf _) hN hal rfl h ?_
        intro fs p1 r1 hl hT1 _
        pf_ok
      · intro h; cases h

theorem pf_decAdditions (ms : Members) : ms.All PT → ∀ (f f' N : Nat), N < f' → ∀ bitmap,
    PF N (decAdditions ms f bitmap) (decAdditions ms f' bitmap) := by
  induction ms using Members.ind with
  | nil =>
    intro _ f f' N hf bitmap pos q x a r hN hal h
    rw [decAdditions] at h ⊢
    refine res_bindU (fun s1 h1 => pf_skipUnknown N bitmap pos q x s1 hN hal h1) h ?_
    intro p1 r1 hl hT1
    pf_ok
  | cons name p t rest ih =>
    intro hall f f' N hf bitmap pos q x a r hN hal h
    obtain ⟨ht, hrest⟩ := hall
    cases bitmap with
    | nil => rw [decAdditions] at h ⊢; cases h; exact res_ok (Nat.le_refl _) rfl
    | cons present bitmap =>
      rw [decAdditions.eq_def] at h ⊢
      dsimp only at h ⊢
      revert h
      split
      · intro h
        refine pf_bind (pf_readLenDet N) hN hal rfl h ?_
        intro len p1 r1 hl1 hT1 _ h
        dsimp only at h ⊢
        refine pf_bind (ht f f' N hf) (by omega) hal hT1 h ?_
        intro v p2 r2 hl2 hT2 _ h
        dsimp only at h ⊢
        refine pf_bind (pf_readBits _ N) (by omega) hal hT2 h ?_
        intro pad p3 r3 hl3 hT3 _ h
        dsimp only at h ⊢
        refine pf_bind (ih hrest f f' N hf bitmap) (by omega) hal hT3 h ?_
        intro fs p4 r4 hl4 hT4 _
        pf_ok
      · intro h; exact ih hrest f f' N hf bitmap pos q x a r hN hal h

theorem pt_sequence (root : Members) (ext : Bool) (adds : Members)
    (ihr : root.All PT) (iha : adds.All PT) : PT (.sequence root ext adds) := by
  intro f f' N hf pos q x a r hN hal h
  rw [dec] at h ⊢
  refine pf_bind (pf_optBit ext N) hN hal rfl h ?_
  intro e p0 r0 hl0 hT0 _ h
  dsimp only at h ⊢
  refine pf_bind (pf_readBits _ N) (by omega) hal hT0 h ?_
  intro flags p1 r1 hl1 hT1 _ h
  dsimp only at h ⊢
  refine pf_bind (pf_decMembers root ihr f f' N hf flags) (by omega) hal hT1 h ?_
  intro fields p2 r2 hl2 hT2 _ h
  dsimp only at h ⊢
  revert h
  split
  · intro h
    refine pf_bind (pf_decNsLength N) (by omega) hal hT2 h ?_
    intro n p3 r3 hl3 hT3 _ h
    dsimp only at h ⊢
    refine pf_bind (pf_readBits _ N) (by omega) hal hT3 h ?_
    intro bitmap p4 r4 hl4 hT4 _ h
    dsimp only at h ⊢
    refine pf_bind (pf_align (pf_decAdditions adds iha f f' N hf bitmap)) (by omega) hal hT4 h ?_
    intro more p5 r5 hl5 hT5 _
    pf_ok
  · pf_ok

theorem pf_decAlt (as : Alts) : as.All PT → ∀ (f f' N i : Nat), N < f' →
    ∀ (pos : Nat) (q x : Bits), q.length ≤ N → (pos + q.length) % 8 = 0 →
    (decAlt as f i ⟨pos, q ++ x⟩ = none ∧ decAlt as f' i ⟨pos, q⟩ = none) ∨
    (∃ res res', decAlt as f i ⟨pos, q ++ x⟩ = some res ∧ decAlt as f' i ⟨pos, q⟩ = some res' ∧
      ∀ a r, res = .ok (a, r) → Res x a r q.length (pos + q.length) res') := by
  induction as using Alts.ind with
  | nil => intro _ f f' N i hf pos q x hN hal; exact .inl ⟨rfl, rfl⟩
  | cons n t rest ih =>
    intro hall f f' N i hf pos q x hN hal
    obtain ⟨ht, hrest⟩ := hall
    cases i with
    | zero =>
      refine .inr ⟨_, _, rfl, rfl, ?_⟩
      intro a r h
      refine pf_bind (ht f f' N hf) hN hal rfl h ?_
      intro v p1 r1 hl hT1 _
      pf_ok
    | succ i =>
      simp only [decAlt]
      exact ih hrest f f' N i hf pos q x hN hal

theorem pt_choice (root : Alts) (ext : Bool) (adds : Alts)
    (ihr : root.All PT) (iha : adds.All PT) : PT (.choice root ext adds) := by
  intro f f' N hf pos q x a r hN hal h
  rw [dec] at h ⊢
  refine pf_bind (pf_optBit ext N) hN hal rfl h ?_
  intro e p0 r0 hl0 hT0 _ h
  dsimp only at h ⊢
  revert h
  split
  · intro h
    refine pf_bind (pf_decNsnnwn N) (by omega) hal hT0 h ?_
    intro idx p1 r1 hl1 hT1 _ h
    dsimp only at h ⊢
    refine pf_bind (pf_align (pf_readLenDet N)) (by omega) hal hT1 h ?_
    intro len p2 r2 hl2 hT2 _ h
    dsimp only at h ⊢
    rcases pf_decAlt adds iha f f' N idx hf p2 r2 x (by omega) (by omega) with
      ⟨e1, e2⟩ | ⟨res, res', e1, e2, hres⟩
    · rw [e1] at h; rw [e2]
      dsimp only at h ⊢
      refine pf_bind (pf_readBits _ N) (by omega) hal hT2 h ?_
      intro body p3 r3 hl3 hT3 _
      pf_ok
    · rw [e1] at h; rw [e2]
      dsimp only at h ⊢
      rw [hT2] at hres
      refine res_bind hres h ?_
      intro v p3 r3 hl3 hT3 _ h
      dsimp only at h ⊢
      revert h
      split
      · -- the alternative read beyond the open type: rejected (on the prefix as well)
        intro h; cases h
      · intro h
        refine pf_bind (pf_readBits _ N) (by omega) hal hT3 h ?_
        intro body p4 r4 hl4 hT4 _
        pf_ok
  · intro h
    have hidx : PF N (fun s => if root.length > 1 then decConstrainedInt 0 ((root.length : Int) - 1) s
          else .ok (0, s))
        (fun s => if root.length > 1 then decConstrainedInt 0 ((root.length : Int) - 1) s
          else .ok (0, s)) := by
      intro pos q x a r hN hal h
      dsimp only at h ⊢
      revert h
      split
      · intro h; exact pf_decConstrainedInt _ _ N pos q x a r hN hal h
      · intro h; cases h; exact res_ok (Nat.le_refl _) rfl
    refine pf_bind hidx (by omega) hal hT0 h ?_
    intro idx p1 r1 hl1 hT1 _ h
    dsimp only at h ⊢
    rcases pf_decAlt root ihr f f' N idx.toNat hf p1 r1 x (by omega) (by omega) with
      ⟨e1, e2⟩ | ⟨res, res', e1, e2, hres⟩
    · rw [e1] at h; cases h
    · rw [e1] at h; rw [e2]
      dsimp only at h ⊢
      rw [hT1] at hres
      exact hres a r h

theorem pt_all (t : Ty) : PT t :=
  Ty.rec (motive_1 := PT) (motive_2 := Members.All PT) (motive_3 := Alts.All PT)
    pt_boolean pt_null pt_integer pt_enumerated pt_octetString pt_bitString
    (fun k c => by
      by_cases hk : k = .utf8
      · subst hk; exact pt_utf8 c
      · exact pt_charString k hk c)
    (fun root ext adds ihr iha => pt_sequence root ext adds ihr iha)
    (fun e c ih => pt_sequenceOf e c ih)
    (fun root ext adds ihr iha => pt_choice root ext adds ihr iha)
    trivial (fun _ _ _ _ iht ihr => ⟨iht, ihr⟩)
    trivial (fun _ _ _ iht ihr => ⟨iht, ihr⟩) t

/-- **prefix determinism of the aligned PER decoder** at octet boundaries of the message: whenever
the decoder, started at position `pos`, accepts `q ++ x` leaving the state `r`, and `q` ends at an
octet boundary, then on `q` alone it either returns the same value at the same position leaving
`r'` with `r.bs = r' ++ x`, or it fails with `decodeError` -/
theorem dec_prefix (t : Ty) (f f' pos : Nat) (q x : Bits) (a : Val) (r : St)
    (hal : (pos + q.length) % 8 = 0) (hf : q.length < f')
    (h : dec t f ⟨pos, q ++ x⟩ = .ok (a, r)) :
    (∃ r', dec t f' ⟨pos, q⟩ = .ok (a, ⟨r.pos, r'⟩) ∧ r.bs = r' ++ x ∧ r.pos + r'.length = pos + q.length) ∨
      dec t f' ⟨pos, q⟩ = .error .decodeError := by
  rcases pt_all t f f' q.length hf pos q x a r (Nat.le_refl _) hal h with ⟨p', r', h1, h2, _, h4⟩ | h1
  · subst h2
    exact .inl ⟨r', h1, rfl, h4⟩
  · exact .inr h1

end Asn1.Per
