import Asn1Proofs.Lemmas.PrepLoc
/-
  The rewrite of one module (`procModule`) and of the whole dictionary (`run`) in terms of the
  passes on single type assignments.
-/
namespace Asn1.SpecDict
open Preprocess

/-! ### generic fold over `List.range` -/

theorem foldl_range_inv {σ : Type} (step : σ → Nat → σ) (Inv : σ → Prop) (Q : σ → Nat → Prop)
    (N : Nat)
    (hInv : ∀ s k, Inv s → Inv (step s k))
    (hEst : ∀ s k, k < N → Inv s → Q (step s k) k)
    (hPres : ∀ s k j, j ≠ k → Inv s → Q s j → Q (step s k) j)
    (s : σ) (h : Inv s) (n : Nat) (hn : n ≤ N) :
    Inv ((List.range n).foldl step s) ∧ ∀ j, j < n → Q ((List.range n).foldl step s) j := by
  induction n with
  | zero => exact ⟨by simpa using h, fun j hj => absurd hj (Nat.not_lt_zero j)⟩
  | succ n ih =>
    obtain ⟨h1, h2⟩ := ih (by omega)
    rw [List.range_succ, List.foldl_append]
    simp only [List.foldl_cons, List.foldl_nil]
    refine ⟨hInv _ _ h1, fun j hj => ?_⟩
    by_cases hjn : j = n
    · subst hjn; exact hEst _ _ (by omega) h1
    · exact hPres _ _ _ hjn h1 (h2 j (by omega))

theorem foldl_fixed {σ : Type} (step : σ → Nat → σ) (s : σ) (l : List Nat)
    (h : ∀ k, k ∈ l → step s k = s) : l.foldl step s = s := by
  induction l with
  | nil => rfl
  | cons k t ih =>
    simp only [List.foldl_cons]
    rw [h k (by simp)]
    exact ih (fun k' hk' => h k' (by simp [hk']))

/-! ### skeleton and positions -/

theorem skel_getElem? (s : Spec) (i : Nat) :
    (skel s)[i]? = (s[i]?).map (fun p => (p.1, p.2.skel)) := by
  induction s generalizing i with
  | nil => simp [skel]
  | cons x t ih =>
    obtain ⟨k, m⟩ := x
    cases i with
    | zero => simp [skel]
    | succ i => simp only [skel, List.getElem?_cons_succ]; exact ih i

theorem typesSkel_length (l : List (String × Desc)) : (typesSkel l).length = l.length := by
  induction l with
  | nil => rfl
  | cons x t ih => obtain ⟨k, d⟩ := x; simp [typesSkel, ih]

/-- two dictionaries with the same skeleton have the same module header at every position -/
theorem header_of_skel_eq {s s' : Spec} (h : skel s' = skel s) {i : Nat} {mn : String} {m : Module}
    (hi : s[i]? = some (mn, m)) : ∃ m', s'[i]? = some (mn, m') ∧ m'.skel = m.skel := by
  have h1 := skel_getElem? s i
  have h2 := skel_getElem? s' i
  rw [h, h1, hi] at h2
  cases hs : s'[i]? with
  | none => simp [hs] at h2
  | some p =>
    obtain ⟨mn', m'⟩ := p
    simp only [hs, Option.map_some, Option.some.injEq, Prod.mk.injEq] at h2
    exact ⟨m', by rw [h2.1], h2.2.symm⟩

/-! ### "every descriptor of the dictionary satisfies P" under an update of one module -/

section
variable {P : Attrs → Prop}

theorem SpecAll_modifyAt {s : Spec} (h : SpecAll P s) {g : Module → Module} {i : Nat}
    (hg : ∀ mn m, s[i]? = some (mn, m) → ∀ k d, (k, d) ∈ (g m).types → d.All P) :
    SpecAll P (modifyAt g i s) := by
  intro mn m hm k d hd
  rcases mem_modifyAt hm with hm | ⟨m0, hm0, rfl⟩
  · exact h mn m hm k d hd
  · exact hg mn m0 hm0 k d hd

theorem SpecAll_mapTypes {s : Spec} (h : SpecAll P s) {f : Desc → Desc} {i : Nat}
    (hf : ∀ d, d.All P → (f d).All P) : SpecAll P (modifyAt (Module.mapTypes f) i s) := by
  refine SpecAll_modifyAt h ?_
  intro mn m hm k d hd
  obtain ⟨d0, hd0, rfl⟩ := mem_mapSnd hd
  exact hf d0 (h mn m (List.mem_of_getElem? hm) k d0 hd0)

end

/-! ### pass 1 on a module -/

/-- type assignment `j` of module `i` has no COMPONENTS OF entry in its member list -/
def TypeClean (s : Spec) (i j : Nat) : Prop :=
  ∀ mn m, s[i]? = some (mn, m) → ∀ k d, m.types[j]? = some (k, d) → d.topClean = true

/-- no type assignment of module `i` has a COMPONENTS OF entry in its member list -/
def ModClean (s : Spec) (i : Nat) : Prop :=
  ∀ mn m, s[i]? = some (mn, m) → ∀ k d, (k, d) ∈ m.types → d.topClean = true

section
variable (i : Nat) (mn : String)

theorem skel_compOfStep (s : Spec) (k : Nat) : skel (compOfStep i mn s k) = skel s :=
  skel_modifyAt (fun m => Module.skel_modifyType (fun d => by simp) k m) i s

theorem getElem?_compOfStep_ne (s : Spec) (k : Nat) {j : Nat} (h : j ≠ i) :
    (compOfStep i mn s k)[j]? = s[j]? :=
  getElem?_modifyAt_ne _ h s

theorem getElem?_compOfStep_eq (s : Spec) (k : Nat) :
    (compOfStep i mn s k)[i]? = (s[i]?).map (fun p => (p.1, p.2.modifyType k (compOfType s mn))) :=
  getElem?_modifyAt_eq _ i s

theorem SpecAll_compOfStep {P : Attrs → Prop} {s : Spec} (h : SpecAll P s) (k : Nat) :
    SpecAll P (compOfStep i mn s k) := by
  refine SpecAll_modifyAt h ?_
  intro mn' m hm key d hd
  simp only [Module.modifyType] at hd
  have hmem := h mn' m (List.mem_of_getElem? hm)
  rcases mem_modifyAt hd with hd | ⟨d0, hd0, rfl⟩
  · exact hmem key d hd
  · exact Desc.All.compOfType h mn (hmem key d0 (List.mem_of_getElem? hd0))

theorem TypeClean_compOfStep (s : Spec) (k : Nat) : TypeClean (compOfStep i mn s k) i k := by
  intro mn' m hm key d hd
  rw [getElem?_compOfStep_eq] at hm
  cases hs : s[i]? with
  | none => simp [hs] at hm
  | some p =>
    obtain ⟨mn0, m0⟩ := p
    simp only [hs, Option.map_some, Option.some.injEq, Prod.mk.injEq] at hm
    obtain ⟨_, rfl⟩ := hm
    simp only [Module.modifyType] at hd
    rw [getElem?_modifyAt_eq] at hd
    cases ht : m0.types[k]? with
    | none => simp [ht] at hd
    | some q =>
      simp only [ht, Option.map_some, Option.some.injEq, Prod.mk.injEq] at hd
      rw [← hd.2]
      exact topClean_compOfType s mn q.2

theorem TypeClean_compOfStep_ne (s : Spec) (k : Nat) {j : Nat} (hjk : j ≠ k)
    (h : TypeClean s i j) : TypeClean (compOfStep i mn s k) i j := by
  intro mn' m hm key d hd
  rw [getElem?_compOfStep_eq] at hm
  cases hs : s[i]? with
  | none => simp [hs] at hm
  | some p =>
    obtain ⟨mn0, m0⟩ := p
    simp only [hs, Option.map_some, Option.some.injEq, Prod.mk.injEq] at hm
    obtain ⟨_, rfl⟩ := hm
    simp only [Module.modifyType] at hd
    rw [getElem?_modifyAt_ne _ hjk] at hd
    exact h mn0 m0 hs key d hd

/-- `components_of_idem` on a module: once no member list of the module has a COMPONENTS OF
entry, the pass changes nothing -/
theorem compOfStep_of_clean {s : Spec} (h : ModClean s i) (k : Nat) : compOfStep i mn s k = s := by
  refine modifyAt_eq_self ?_
  intro mn' m hm
  have : modifyAt (compOfType s mn) k m.types = m.types := by
    refine modifyAt_eq_self ?_
    intro key d hd
    exact compOfType_of_topClean s mn (h mn' m hm key d (List.mem_of_getElem? hd))
  simp [Module.modifyType, this]

theorem compOfModule_of_clean {s : Spec} (h : ModClean s i) (nt : Nat) :
    compOfModule i mn nt s = s :=
  foldl_fixed _ s _ (fun k _ => compOfStep_of_clean i mn h k)

/-- what the COMPONENTS OF pass does to the dictionary -/
theorem compOfModule_spec {P : Attrs → Prop} (s : Spec) (hP : SpecAll P s) (nt : Nat) :
    let s' := compOfModule i mn nt s
    skel s' = skel s ∧ (∀ j, j ≠ i → s'[j]? = s[j]?) ∧ SpecAll P s' ∧
      ∀ j, j < nt → TypeClean s' i j := by
  have := foldl_range_inv (compOfStep i mn)
    (fun s' => skel s' = skel s ∧ (∀ j, j ≠ i → s'[j]? = s[j]?) ∧ SpecAll P s')
    (fun s' j => TypeClean s' i j) nt
    (fun s' k ⟨h1, h2, h3⟩ => ⟨by rw [skel_compOfStep, h1],
      fun j hj => by rw [getElem?_compOfStep_ne i mn s' k hj, h2 j hj],
      SpecAll_compOfStep i mn h3 k⟩)
    (fun s' k _ _ => TypeClean_compOfStep i mn s' k)
    (fun s' k j hjk _ hq => TypeClean_compOfStep_ne i mn s' k hjk hq)
    s ⟨rfl, fun _ _ => rfl, hP⟩ nt (Nat.le_refl nt)
  exact ⟨this.1.1, this.1.2.1, this.1.2.2, this.2⟩

theorem ModClean_of_TypeClean {s : Spec} {nt : Nat}
    (hlen : ∀ mn' m, s[i]? = some (mn', m) → m.types.length = nt)
    (h : ∀ j, j < nt → TypeClean s i j) : ModClean s i := by
  intro mn' m hm key d hd
  obtain ⟨j, hj, hget⟩ := List.mem_iff_getElem.1 hd
  have hj' : j < nt := by rw [← hlen mn' m hm]; exact hj
  exact h j hj' mn' m hm key d (by rw [List.getElem?_eq_getElem hj, hget])

end

/-! ### the rewrite of one module -/

theorem skel_mapTypes_at {f : Desc → Desc} (hf : ∀ d, (f d).attrs.core = d.attrs.core)
    (i : Nat) (s : Spec) : skel (modifyAt (Module.mapTypes f) i s) = skel s :=
  skel_modifyAt (fun m => Module.skel_mapTypes hf m) i s

theorem mapTypes_mapTypes (f g : Desc → Desc) (m : Module) :
    (m.mapTypes g).mapTypes f = m.mapTypes (fun d => f (g d)) := by
  simp [Module.mapTypes, mapSnd_mapSnd]

theorem SpecAll_true (s : Spec) : SpecAll (fun _ => True) s :=
  fun _ _ _ _ d _ => Desc.All.of_forall (fun _ => trivial) d

theorem skel_compOfModule (i : Nat) (mn : String) (nt : Nat) (s : Spec) :
    skel (compOfModule i mn nt s) = skel s :=
  (compOfModule_spec i mn s (SpecAll_true s) nt).1

theorem getElem?_compOfModule_ne (i : Nat) (mn : String) (nt : Nat) (s : Spec) {j : Nat}
    (h : j ≠ i) : (compOfModule i mn nt s)[j]? = s[j]? :=
  (compOfModule_spec i mn s (SpecAll_true s) nt).2.1 j h

theorem Module.skel_fields {m m' : Module} (h : m'.skel = m.skel) :
    m'.tags = m.tags ∧ m'.extImplied = m.extImplied ∧ m'.types.length = m.types.length := by
  refine ⟨congrArg ModSkel.tags h, congrArg ModSkel.extImplied h, ?_⟩
  have := congrArg (fun x => x.types.length) h
  simpa [Module.skel, typesSkel_length] using this

theorem ModClean_compOfModule (i : Nat) (mn : String) {s : Spec} {mn' : String} {m : Module}
    (hi : s[i]? = some (mn', m)) : ModClean (compOfModule i mn m.types.length s) i := by
  have hs := compOfModule_spec i mn s (SpecAll_true s) m.types.length
  refine ModClean_of_TypeClean i ?_ hs.2.2.2
  intro mn1 m1 h1
  obtain ⟨m2, h2, h3⟩ := header_of_skel_eq hs.1 hi
  rw [h1] at h2
  simp only [Option.some.injEq, Prod.mk.injEq] at h2
  rw [h2.2]
  exact (Module.skel_fields h3).2.2

/-- `procModule` = COMPONENTS OF pass on the module, then the three other passes on every type
assignment of the module, all reading the skeleton of the dictionary before the step -/
theorem procModule_eq (n : Bool) {s : Spec} {i : Nat} {mn : String} {m : Module}
    (hi : s[i]? = some (mn, m)) :
    procModule n s i = modifyAt
      (Module.mapTypes (locDesc (skel s) n mn (m.tags.getD "EXPLICIT") m.extImplied)) i
      (compOfModule i mn m.types.length s) := by
  have hsk := skel_compOfModule i mn m.types.length s
  unfold procModule
  simp only [hi]
  cases hext : m.extImplied with
  | false =>
    simp only [Bool.false_eq_true, if_false, defaultsModule, tagsModule]
    rw [skel_mapTypes_at (fun d => by simp), hsk, modifyAt_modifyAt]
    refine modifyAt_congr ?_
    intro k v _
    rw [mapTypes_mapTypes]
    rfl
  | true =>
    simp only [if_true, defaultsModule, tagsModule, extModule]
    rw [skel_mapTypes_at (fun d => by simp), skel_mapTypes_at (fun d => by simp), hsk,
      modifyAt_modifyAt, modifyAt_modifyAt]
    refine modifyAt_congr ?_
    intro k v _
    rw [mapTypes_mapTypes, mapTypes_mapTypes]
    rfl

theorem procModule_of_none (n : Bool) {s : Spec} {i : Nat} (hi : s[i]? = none) :
    procModule n s i = s := by
  unfold procModule; simp [hi]

theorem skel_procModule (n : Bool) (s : Spec) (i : Nat) : skel (procModule n s i) = skel s := by
  cases hi : s[i]? with
  | none => rw [procModule_of_none n hi]
  | some p =>
    obtain ⟨mn, m⟩ := p
    rw [procModule_eq n hi, skel_mapTypes_at (fun d => locDesc_core ..), skel_compOfModule]

theorem getElem?_procModule_ne (n : Bool) (s : Spec) {i j : Nat} (h : j ≠ i) :
    (procModule n s i)[j]? = s[j]? := by
  cases hi : s[i]? with
  | none => rw [procModule_of_none n hi]
  | some p =>
    obtain ⟨mn, m⟩ := p
    rw [procModule_eq n hi, getElem?_modifyAt_ne _ h, getElem?_compOfModule_ne _ _ _ _ h]

@[simp] theorem run_length (n : Bool) (s : Spec) : (run n s).length = s.length := by
  have : ∀ l : List Nat, ((l.foldl (procModule n) s)).length = s.length := by
    intro l
    induction l generalizing s with
    | nil => rfl
    | cons k t ih =>
      simp only [List.foldl_cons]
      rw [ih, ← skel_length, skel_procModule, skel_length]
  exact this _

theorem skel_foldl_procModule (n : Bool) (s : Spec) (l : List Nat) :
    skel (l.foldl (procModule n) s) = skel s := by
  induction l generalizing s with
  | nil => rfl
  | cons k t ih => simp only [List.foldl_cons]; rw [ih, skel_procModule]

theorem skel_run (n : Bool) (s : Spec) : skel (run n s) = skel s :=
  skel_foldl_procModule n s _

theorem ModClean_procModule {i : Nat} (n : Bool) {s : Spec} (hC : ModClean s i) (j : Nat) :
    ModClean (procModule n s j) i := by
  by_cases hji : j = i
  · subst hji
    cases hj : s[j]? with
    | none => rw [procModule_of_none n hj]; exact hC
    | some p =>
      obtain ⟨mn, m⟩ := p
      rw [procModule_eq n hj, compOfModule_of_clean j mn hC]
      intro mn' m' hm' k d hd
      rw [getElem?_modifyAt_eq, hj] at hm'
      simp only [Option.map_some, Option.some.injEq, Prod.mk.injEq] at hm'
      obtain ⟨_, rfl⟩ := hm'
      simp only [Module.mapTypes] at hd
      obtain ⟨d0, hd0, rfl⟩ := mem_mapSnd hd
      rw [topClean_locDesc]
      exact hC mn m hj k d0 hd0
  · intro mn m hm
    rw [getElem?_procModule_ne n s (fun h => hji h.symm)] at hm
    exact hC mn m hm


theorem ModClean_procModule_self (n : Bool) (s : Spec) (i : Nat) : ModClean (procModule n s i) i := by
  cases hi : s[i]? with
  | none =>
    rw [procModule_of_none n hi]
    intro mn m hm; rw [hi] at hm; cases hm
  | some p =>
    obtain ⟨mn, m⟩ := p
    have hclean := ModClean_compOfModule i mn hi
    rw [procModule_eq n hi]
    intro mn' m' hm' k d hd
    rw [getElem?_modifyAt_eq] at hm'
    cases h1 : (compOfModule i mn m.types.length s)[i]? with
    | none => simp [h1] at hm'
    | some q =>
      obtain ⟨mn1, m1⟩ := q
      simp only [h1, Option.map_some, Option.some.injEq, Prod.mk.injEq] at hm'
      obtain ⟨_, rfl⟩ := hm'
      simp only [Module.mapTypes] at hd
      obtain ⟨d0, hd0, rfl⟩ := mem_mapSnd hd
      rw [topClean_locDesc]
      exact hclean mn1 m1 h1 k d0 hd0

/-- after the rewrite no member list of a type assignment has a COMPONENTS OF entry -/
theorem ModClean_run (n : Bool) (d : Spec) (j : Nat) : ModClean (run n d) j := by
  have key := foldl_range_inv (procModule n) (fun _ => True) (fun s j => ModClean s j) d.length
    (fun _ _ _ => trivial)
    (fun s k _ _ => ModClean_procModule_self n s k)
    (fun s k j _ _ hq => ModClean_procModule n hq k)
    d trivial d.length (Nat.le_refl _)
  by_cases hj : j < d.length
  · exact key.2 j hj
  · intro mn m hm
    have : (run n d)[j]? = none := by
      rw [List.getElem?_eq_none_iff, run_length]; omega
    rw [this] at hm; cases hm

/-! ### a module that has been rewritten is a fixed point of its rewrite -/

/-- what the three attribute passes need from the invariant `P` -/
structure PassInv (P : Attrs → Prop) (sk : Skel) (m n : Bool) : Prop where
  tag : ∀ a k mt mn, P a → P (kindAttrs sk mt mn (numAttrs k a))
  conv : ∀ a mn, P a → P (convAttrs sk m mn a)
  absorb : ∀ a mn, P a → Absorbs sk n mn m a

def ModDone (sk : Skel) (n : Bool) (mn : String) (m : Module) : Prop :=
  ∀ k d, (k, d) ∈ m.types →
    d.topClean = true ∧ locDesc sk n mn (m.tags.getD "EXPLICIT") m.extImplied d = d

/-- module `i` is a fixed point of its own rewrite -/
def Done (n : Bool) (s : Spec) (i : Nat) : Prop :=
  ∀ mn m, s[i]? = some (mn, m) → ModDone (skel s) n mn m

theorem procModule_of_Done {n : Bool} {s : Spec} {i : Nat} (h : Done n s i) :
    procModule n s i = s := by
  cases hi : s[i]? with
  | none => exact procModule_of_none n hi
  | some p =>
    obtain ⟨mn, m⟩ := p
    have hc : ModClean s i := by
      intro mn' m' hm' k d hd
      exact (h mn' m' hm' k d hd).1
    rw [procModule_eq n hi, compOfModule_of_clean i mn hc]
    refine modifyAt_eq_self ?_
    intro mn' m' hm'
    rw [hi] at hm'
    simp only [Option.some.injEq, Prod.mk.injEq] at hm'
    obtain ⟨rfl, rfl⟩ := hm'
    have : mapSnd (locDesc (skel s) n mn (m.tags.getD "EXPLICIT") m.extImplied) m.types = m.types :=
      mapSnd_eq_self (fun k d hd => (h mn m hi k d hd).2)
    simp [Module.mapTypes, this]

theorem Done_procModule_ne {n : Bool} {s : Spec} {i j : Nat} (hji : i ≠ j) (h : Done n s i) :
    Done n (procModule n s j) i := by
  intro mn m hm
  rw [getElem?_procModule_ne n s hji] at hm
  rw [skel_procModule]
  exact h mn m hm

section
variable {P : Attrs → Prop}

theorem SpecAll_procModule {n : Bool} {s : Spec} (hP : SpecAll P s)
    (hyp : PassInv P (skel s) n n) (i : Nat) : SpecAll P (procModule n s i) := by
  cases hi : s[i]? with
  | none => rw [procModule_of_none n hi]; exact hP
  | some p =>
    obtain ⟨mn, m⟩ := p
    rw [procModule_eq n hi]
    refine SpecAll_mapTypes (compOfModule_spec i mn s hP m.types.length).2.2.1 ?_
    intro d hd
    exact Desc.All.loc _ _ _ _ n (fun a k => hyp.tag a k _ _) (fun a => hyp.conv a _) hd

theorem Done_procModule {n : Bool} {s : Spec} (hP : SpecAll P s)
    (hyp : PassInv P (skel s) n n) (i : Nat) : Done n (procModule n s i) i := by
  cases hi : s[i]? with
  | none =>
    rw [procModule_of_none n hi]
    intro mn m hm; rw [hi] at hm; cases hm
  | some p =>
    obtain ⟨mn, m⟩ := p
    have hs := compOfModule_spec i mn s hP m.types.length
    have hclean := ModClean_compOfModule i mn hi
    obtain ⟨m1, hm1, hskm⟩ := header_of_skel_eq hs.1 hi
    obtain ⟨ht, he, _⟩ := Module.skel_fields hskm
    intro mn' m' hm'
    rw [skel_procModule]
    rw [procModule_eq n hi, getElem?_modifyAt_eq, hm1] at hm'
    simp only [Option.map_some, Option.some.injEq, Prod.mk.injEq] at hm'
    obtain ⟨rfl, rfl⟩ := hm'
    intro k d hd
    simp only [Module.mapTypes] at hd
    obtain ⟨d0, hd0, rfl⟩ := mem_mapSnd hd
    have hc0 : d0.topClean = true := hclean mn m1 hm1 k d0 hd0
    have hall : d0.All P := hs.2.2.1 mn m1 (List.mem_of_getElem? hm1) k d0 hd0
    refine ⟨by rw [topClean_locDesc]; exact hc0, ?_⟩
    simp only [Module.mapTypes, ht, he]
    exact locDesc_absorb _ _ _ _ n n (fun a k => hyp.tag a k _ _) (fun a => hyp.absorb a _) hall

/-- Rewriting a rewritten dictionary changes nothing. -/
theorem run_run_of_inv (n : Bool) (d : Spec) (hP : SpecAll P d) (hyp : PassInv P (skel d) n n) :
    run n (run n d) = run n d := by
  have key := foldl_range_inv (procModule n)
    (fun s => skel s = skel d ∧ SpecAll P s) (fun s j => Done n s j) d.length
    (fun s k ⟨h1, h2⟩ => ⟨by rw [skel_procModule, h1], SpecAll_procModule h2 (h1 ▸ hyp) k⟩)
    (fun s k _ ⟨h1, h2⟩ => Done_procModule h2 (h1 ▸ hyp) k)
    (fun s k j hjk _ hq => Done_procModule_ne hjk hq)
    d ⟨rfl, hP⟩ d.length (Nat.le_refl _)
  have hdone : ∀ j, j < d.length → Done n (run n d) j := key.2
  show (List.range (run n d).length).foldl (procModule n) (run n d) = run n d
  refine foldl_fixed _ _ _ ?_
  intro k hk
  rw [run_length] at hk
  exact procModule_of_Done (hdone k (List.mem_range.1 hk))

end

end Asn1.SpecDict
