import Asn1Proofs.Lemmas.Bridge2Defs
/-
  BRIDGE, part 2a: the translated `oer.Encoder` refines the bit-list abstraction `oEncBits` and the byte writers of
  `Asn1Model/Oer.lean`.
-/
namespace Asn1.Bridge
open Asn1 Asn1.Translated
open Asn1.Uper (Err)

/-! ### oer.Encoder -/

structure OEncInv (s : oer_EncoderS) : Prop where
  nb : 0 ≤ s.number_of_bits
  v0 : 0 ≤ s.value
  vlt : s.value < 2 ^ s.number_of_bits.toNat

def oEncBits (s : oer_EncoderS) : Bits := natToBits s.number_of_bits.toNat s.value.toNat

theorem OEncInv.view {s : oer_EncoderS} (h : OEncInv s) :
    ∃ nb val : Nat, s.number_of_bits = (nb : Int) ∧ s.value = (val : Int) ∧ val < 2 ^ nb := by
  obtain ⟨nb, hnb⟩ := Int.eq_ofNat_of_zero_le h.nb
  obtain ⟨val, hval⟩ := Int.eq_ofNat_of_zero_le h.v0
  refine ⟨nb, val, hnb, hval, ?_⟩
  have := h.vlt
  rw [hnb, hval, Int.toNat_natCast, ← cast_two_pow] at this
  exact Int.ofNat_lt.1 this

theorem oEncBits_length (s : oer_EncoderS) : (oEncBits s).length = s.number_of_bits.toNat := by
  unfold oEncBits; rw [natToBits_length]

/-- the working integer shifted left by `n` with `v < 2^n` in the freed bits -/
theorem o_push_core (s : oer_EncoderS) (h : OEncInv s) (v n : Nat) (hv : v < 2 ^ n) (x : Int)
    (hx : x = s.value * 2 ^ n + (v : Int)) :
    OEncInv { number_of_bits := s.number_of_bits + (n : Int), value := x } ∧
    oEncBits { number_of_bits := s.number_of_bits + (n : Int), value := x } = oEncBits s ++ natToBits n v := by
  obtain ⟨nb, val, hnb, hval, hlt⟩ := h.view
  have hx' : x = ((val * 2 ^ n + v : Nat) : Int) := by
    rw [hx, hval, Int.natCast_add, Int.natCast_mul, cast_two_pow]
  have hnb' : s.number_of_bits + (n : Int) = ((nb + n : Nat) : Int) := by rw [hnb, Int.natCast_add]
  constructor
  · refine ⟨?_, ?_, ?_⟩
    · show 0 ≤ s.number_of_bits + (n : Int)
      omega
    · show 0 ≤ x
      omega
    · show x < 2 ^ (s.number_of_bits + (n : Int)).toNat
      rw [hnb', hx', Int.toNat_natCast, ← cast_two_pow]
      exact Int.ofNat_lt.2 (shift_add_lt hlt hv)
  · show natToBits (s.number_of_bits + (n : Int)).toNat x.toNat = oEncBits s ++ _
    unfold oEncBits
    rw [hnb', hx', hnb, hval, Int.toNat_natCast, Int.toNat_natCast, Int.toNat_natCast, Int.toNat_natCast,
      natToBits_shift_add _ _ _ _ hv]

theorem oer_append_non_negative_binary_integer_refines (s : oer_EncoderS) (h : OEncInv s) (v n : Nat) (hv : v < 2 ^ n) :
    OEncInv (oer_Encoder_append_non_negative_binary_integer s v n) ∧
    oEncBits (oer_Encoder_append_non_negative_binary_integer s v n) = oEncBits s ++ natToBits n v :=
  o_push_core s h v n hv _ (bor_shl _ h.v0 v n hv)

theorem oer_append_bit_refines (s : oer_EncoderS) (h : OEncInv s) (b : Bool) :
    OEncInv (oer_Encoder_append_bit s (if b then 1 else 0)) ∧
    oEncBits (oer_Encoder_append_bit s (if b then 1 else 0)) = oEncBits s ++ [b] := by
  have key : ∀ v : Nat, v < 2 ^ 1 →
      OEncInv (oer_Encoder_append_bit s (v : Int)) ∧
      oEncBits (oer_Encoder_append_bit s (v : Int)) = oEncBits s ++ natToBits 1 v := fun v hv =>
    o_push_core s h v 1 hv _ (bor_shl _ h.v0 v 1 hv)
  cases b
  · exact key 0 (by decide)
  · exact key 1 (by decide)

theorem oer_append_u8_refines (s : oer_EncoderS) (h : OEncInv s) (v : Nat) (hv : v < 256) :
    OEncInv (oer_Encoder_append_u8 s v) ∧ oEncBits (oer_Encoder_append_u8 s v) = oEncBits s ++ natToBits 8 v :=
  oer_append_non_negative_binary_integer_refines s h v 8 hv

theorem oer_append_bits_refines (s : oer_EncoderS) (h : OEncInv s) (data : Bytes) (hd : ∀ b ∈ data, b < 256)
    (n : Nat) (hn : n ≤ 8 * data.length) :
    OEncInv (oer_Encoder_append_bits s (ofNats data) n) ∧
    oEncBits (oer_Encoder_append_bits s (ofNats data) n) = oEncBits s ++ (bytesToBits data).take n := by
  unfold oer_Encoder_append_bits
  by_cases h0 : n = 0
  · subst h0; simp [h]
  · have h0' : ¬ ((n : Int) = 0) := by omega
    simp only [h0', decide_false, Bool.false_eq_true, if_false]
    have e1 : (8 : Int) * Py.len (ofNats data) - (n : Int) = ((8 * data.length - n : Nat) : Int) := by
      rw [Py.len_eq, ofNats_length]; omega
    rw [bytesToInt_ofNats, e1, Py.shr_natCast_div]
    have hB := bytesToNat_lt data hd
    have hsplit : 8 * data.length = n + (8 * data.length - n) := by omega
    have hp : 0 < 2 ^ (8 * data.length - n) := Nat.two_pow_pos _
    have hv : bytesToNat data / 2 ^ (8 * data.length - n) < 2 ^ n := by
      rw [Nat.div_lt_iff_lt_mul hp, ← Nat.pow_add, ← hsplit]; exact hB
    have := oer_append_non_negative_binary_integer_refines s h _ n hv
    rw [bytesToBits_eq data hd]
    conv => rhs; rhs; rhs; rw [hsplit, natToBits_add]
    rw [List.take_left' (natToBits_length _ _)]
    exact this

theorem oer_append_bytes_refines (s : oer_EncoderS) (h : OEncInv s) (data : Bytes) (hd : ∀ b ∈ data, b < 256) :
    OEncInv (oer_Encoder_append_bytes s (ofNats data)) ∧
    oEncBits (oer_Encoder_append_bytes s (ofNats data)) = oEncBits s ++ bytesToBits data := by
  unfold oer_Encoder_append_bytes
  have e : (8 : Int) * Py.len (ofNats data) = ((8 * data.length : Nat) : Int) := by
    rw [Py.len_eq, ofNats_length]; omega
  rw [e]
  have := oer_append_bits_refines s h data hd (8 * data.length) (Nat.le_refl _)
  rw [List.take_of_length_le (by rw [bytesToBits_length]; omega)] at this
  exact this

theorem oer_number_of_bytes_eq (s : oer_EncoderS) (h : OEncInv s) :
    oer_Encoder_number_of_bytes s = ((((oEncBits s).length + 7) / 8 : Nat) : Int) := by
  unfold oer_Encoder_number_of_bytes
  obtain ⟨nb, hnb⟩ := Int.eq_ofNat_of_zero_le h.nb
  rw [oEncBits_length, hnb, Int.toNat_natCast, show ((nb : Nat) : Int) + 7 = ((nb + 7 : Nat) : Int) by omega, Py.fdiv8]

theorem oer_align_refines (s : oer_EncoderS) (h : OEncInv s) :
    OEncInv (oer_Encoder_align s) ∧ oEncBits (oer_Encoder_align s) = oEncBits s ++ Per.alignBits (oEncBits s).length := by
  unfold oer_Encoder_align
  have hl : (((oEncBits s).length : Nat) : Int) = s.number_of_bits := by
    rw [oEncBits_length]; have := h.nb; omega
  have hw : (8 : Int) * oer_Encoder_number_of_bytes s - s.number_of_bits
      = ((Per.padLen (oEncBits s).length : Nat) : Int) := by
    rw [oer_number_of_bytes_eq s h, ← hl]
    unfold Per.padLen
    omega
  simp only [hw]
  have := o_push_core s h 0 (Per.padLen (oEncBits s).length) (Nat.two_pow_pos _)
    (Py.shl s.value (Per.padLen (oEncBits s).length : Int)) (by simp [Py.shl])
  rw [natToBits_zero] at this
  exact this

theorem oer_iadd_refines (s o : oer_EncoderS) (h : OEncInv s) (ho : OEncInv o) :
    OEncInv (oer_Encoder___iadd__ s o) ∧ oEncBits (oer_Encoder___iadd__ s o) = oEncBits s ++ oEncBits o := by
  unfold oer_Encoder___iadd__
  obtain ⟨nb, val, hnb, hval, hlt⟩ := ho.view
  have ⟨b1, b2⟩ := oer_append_non_negative_binary_integer_refines s h val nb hlt
  rw [← hnb, ← hval] at b1 b2
  refine ⟨b1, ?_⟩
  rw [b2]
  unfold oEncBits
  rw [hnb, hval, Int.toNat_natCast, Int.toNat_natCast]

/-- writer refinement: the model's octets are appended, or both fail with EncodeError -/
def OEncRefines (s : oer_EncoderS) : Except String oer_EncoderS → Except Err Bytes → Prop
  | .ok s', .ok bs => OEncInv s' ∧ oEncBits s' = oEncBits s ++ bytesToBits bs
  | .error e, .error m => errOk m e
  | _, _ => False

/-! #### length determinant -/

theorem oer_length_loop (fuel n : Nat) (s : oer_EncoderS) (acc : List Nat) (hf : n < fuel) :
    oer_Encoder_append_length_determinant_loop1 fuel s (n : Int) (ofNats acc)
      = .ok (ofNats (acc ++ (natToBytesMin n).reverse), 0) := by
  induction fuel generalizing n acc with
  | zero => omega
  | succ f ih =>
    unfold oer_Encoder_append_length_determinant_loop1
    by_cases h0 : n = 0
    · subst h0
      simp [natToBytesMin, byteLength, bitLength, natToBytesN]
      rfl
    · have hp : (n : Int) > 0 := by omega
      simp only [hp, decide_true, if_true, Py.band255, Py.shr8]
      rw [← ofNats_singleton, ← ofNats_append, ih _ _ (by omega), natToBytesMin_step n (by omega)]
      simp

/-- the translated function with the loop replaced by its closed form -/
theorem oer_length_determinant_unfold (s : oer_EncoderS) (n : Nat) :
    oer_Encoder_append_length_determinant s n =
      if n < 128 then .ok (oer_Encoder_append_non_negative_binary_integer s n 8)
      else if (natToBytesMin n).length > 127 then .error "EncodeError"
      else .ok (oer_Encoder_append_bytes
        (oer_Encoder_append_u8 s (Py.bor 128 ((natToBytesMin n).length : Int))) (ofNats (natToBytesMin n))) := by
  unfold oer_Encoder_append_length_determinant
  by_cases c1 : n < 128
  · rw [decide_lt_true (show (n : Int) < 128 by omega), if_pos c1]; rfl
  rw [decide_lt_false (show ¬ (n : Int) < 128 by omega), if_neg c1]
  have hl := oer_length_loop (1 + Py.fuelOfInt s.number_of_bits + Py.fuelOfInt s.value + Py.fuelOfInt (n : Int)
    + Py.fuelOfList ([] : List Int)) n s [] (by rw [Py.fuelOfInt_natCast]; omega)
  rw [show ofNats [] = ([] : List Int) from rfl] at hl
  simp only [Bool.false_eq_true, if_false, bind, Except.bind, hl, List.nil_append, Py.len_eq, ofNats_length,
    List.length_reverse, ofNats_reverse, List.reverse_reverse]
  by_cases c2 : (natToBytesMin n).length > 127
  · rw [decide_eq_true (show ((natToBytesMin n).length : Int) > 127 by omega), if_pos c2]; rfl
  · rw [decide_eq_false (show ¬ ((natToBytesMin n).length : Int) > 127 by omega), if_neg c2]; rfl

theorem natToBytesMin_lt (n : Nat) : ∀ b ∈ natToBytesMin n, b < 256 := by
  unfold natToBytesMin
  induction (byteLength n) generalizing n with
  | zero => intro b hb; simp [natToBytesN] at hb
  | succ k ih =>
    intro b hb
    rw [natToBytesN] at hb
    rcases List.mem_append.1 hb with hb | hb
    · exact ih _ b hb
    · simp at hb; omega

/-- `OEncRefines` spelled out (using `oer_append_length_determinant_refines` directly makes the elaborator evaluate
`decide (↑n < 128)` on the unary representation of the literal while it normalises the type) -/
theorem oer_append_length_determinant_cases (s : oer_EncoderS) (h : OEncInv s) (n : Nat) :
    (∃ s' bs, oer_Encoder_append_length_determinant s n = .ok s' ∧ Oer.lenDet n = .ok bs ∧
      OEncInv s' ∧ oEncBits s' = oEncBits s ++ bytesToBits bs) ∨
    (oer_Encoder_append_length_determinant s n = .error "EncodeError" ∧ Oer.lenDet n = .error .encodeError) := by
  rw [oer_length_determinant_unfold]
  unfold Oer.lenDet
  by_cases c1 : n < 128
  · rw [if_pos c1, if_pos c1]
    have := oer_append_non_negative_binary_integer_refines s h n 8 (by omega)
    rw [← bytesToBits_one] at this
    exact .inl ⟨_, _, rfl, rfl, this⟩
  rw [if_neg c1, if_neg c1]
  dsimp only
  by_cases c2 : (natToBytesMin n).length > 127
  · rw [if_pos c2, if_pos c2]
    exact .inr ⟨rfl, rfl⟩
  · rw [if_neg c2, if_neg c2, Py.bor128 (show (natToBytesMin n).length < 128 by omega)]
    have ⟨a1, a2⟩ := oer_append_u8_refines s h (128 + (natToBytesMin n).length) (by omega)
    have ⟨b1, b2⟩ := oer_append_bytes_refines _ a1 (natToBytesMin n) (natToBytesMin_lt n)
    refine .inl ⟨_, _, rfl, rfl, b1, ?_⟩
    rw [b2, a2, List.append_assoc, bytesToBits]
    rfl

theorem oer_append_length_determinant_refines (s : oer_EncoderS) (h : OEncInv s) (n : Nat) :
    OEncRefines s (oer_Encoder_append_length_determinant s n) (Oer.lenDet n) := by
  have hc := oer_append_length_determinant_cases s h n
  cases hc with
  | inl hx =>
    cases hx with
    | intro s' hx =>
    cases hx with
    | intro bs hx =>
    have e1 := hx.1
    have e2 := hx.2.1
    rw [e1, e2]; exact hx.2.2
  | inr hx => rw [hx.1, hx.2]; exact rfl

/-! #### integers -/
theorem oer_integer_unfold (s : oer_EncoderS) (i : Int) :
    oer_Encoder_append_integer s i =
      (oer_Encoder_append_length_determinant s (uncSel i).1).map
        (fun s' => oer_Encoder_append_non_negative_binary_integer s' (uncSel i).2 (8 * (uncSel i).1)) := by
  unfold oer_Encoder_append_integer uncSel
  dsimp only
  by_cases c1 : i < 0
  · obtain ⟨M, hM⟩ : ∃ M : Nat, i = -(M : Int) := ⟨(-i).toNat, by omega⟩
    have hbl : Py.bitLength i = ((bitLength M : Nat) : Int) := by
      rw [hM, ← Py.bitLength_natCast]; simp [Py.bitLength]
    have hM1 : 1 ≤ M := by omega
    obtain ⟨n1, _, _, _⟩ := neg_case M hM1
    generalize hnb : (bitLength M + 7) / 8 = nb at n1
    have hfd : Py.fdiv (Py.bitLength i + 7) 8 = (nb : Int) := by
      rw [hbl, show ((bitLength M : Nat) : Int) + 7 = ((bitLength M + 7 : Nat) : Int) by omega, Py.fdiv8, hnb]
    have e1 : (8 : Int) * (nb : Int) = ((8 * nb : Nat) : Int) := by omega
    have e2 : (8 : Int) * (nb : Int) - 1 = ((8 * nb - 1 : Nat) : Int) := by omega
    rw [hfd]
    have s1 : Py.shlE 1 (8 * (nb : Int)) = .ok (Py.shl 1 (8 * (nb : Int))) := by
      unfold Py.shlE; rw [if_neg (by omega)]
    have s2 : Py.shlE 1 (8 * (nb : Int) - 1) = .ok (Py.shl 1 (8 * (nb : Int) - 1)) := by
      unfold Py.shlE; rw [if_neg (by omega)]
    have s3 : Py.shlE 255 (8 * (nb : Int)) = .ok (Py.shl 255 (8 * (nb : Int))) := by
      unfold Py.shlE; rw [if_neg (by omega)]
    by_cases c2 : Py.band (Py.shl 1 (8 * (nb : Int)) + i) (Py.shl 1 (8 * (nb : Int) - 1)) = 0
    · simp only [c1, c2, s1, s2, s3, decide_true, if_true, bind, Except.bind, pure, Except.pure]
      cases oer_Encoder_append_length_determinant s ((nb : Int) + 1) <;> rfl
    · simp only [c1, c2, s1, s2, s3, decide_true, decide_false, if_true, if_false, Bool.false_eq_true, bind,
        Except.bind, pure, Except.pure]
      cases oer_Encoder_append_length_determinant s (nb : Int) <;> rfl
  · by_cases c2 : i > 0
    · by_cases c3 : Py.bitLength i = 8 * Py.fdiv (Py.bitLength i + 7) 8
      · simp only [c1, c2, decide_true, decide_false, if_true, if_false, Bool.false_eq_true]
        rw [decide_eq_true c3, if_pos c3, if_pos rfl]
        simp only [bind, Except.bind, pure, Except.pure]
        cases oer_Encoder_append_length_determinant s (Py.fdiv (Py.bitLength i + 7) 8 + 1) <;> rfl
      · simp only [c1, c2, c3, decide_true, decide_false, if_true, if_false, Bool.false_eq_true, bind,
          Except.bind, pure, Except.pure]
        cases oer_Encoder_append_length_determinant s (Py.fdiv (Py.bitLength i + 7) 8) <;> rfl
    · simp only [c1, c2, decide_false, if_false, Bool.false_eq_true, bind, Except.bind, pure, Except.pure]
      cases oer_Encoder_append_length_determinant s 1 <;> rfl

theorem oer_append_integer_refines (s : oer_EncoderS) (h : OEncInv s) (i : Int) :
    OEncRefines s (oer_Encoder_append_integer s i) (Oer.encSigned i) := by
  rw [oer_integer_unfold, uncSel_eq]
  simp only
  have hU : (i % ((256 ^ intByteLength i : Nat) : Int)).toNat < 2 ^ (8 * intByteLength i) := by
    have hp : (0 : Int) < ((256 ^ intByteLength i : Nat) : Int) := by
      have := Nat.pow_pos (n := intByteLength i) (show 0 < 256 by omega)
      omega
    have h1 := Int.emod_lt_of_pos i hp
    have h2 := Int.emod_nonneg i (Int.ne_of_gt hp)
    rw [← pow256]
    omega
  unfold Oer.encSigned
  dsimp only
  rw [show (8 : Int) * ((intByteLength i : Nat) : Int) = ((8 * intByteLength i : Nat) : Int) by omega]
  cases oer_append_length_determinant_cases s h (intByteLength i) with
  | inr hx => rw [hx.1, hx.2]; exact rfl
  | inl hx =>
    cases hx with | intro s1 hx =>
    cases hx with | intro l hx =>
    have a1 := hx.2.2.1
    have a2 := hx.2.2.2
    rw [hx.1, hx.2.1]
    have := oer_append_non_negative_binary_integer_refines s1 a1 _ (8 * intByteLength i) hU
    refine ⟨this.1, ?_⟩
    show oEncBits _ = _
    rw [this.2, a2, List.append_assoc, bytesToBits_append]
    unfold intToBytesN
    rw [bytesToBits_natToBytesN]

theorem oer_append_unsigned_integer_refines (s : oer_EncoderS) (h : OEncInv s) (n : Nat) :
    OEncRefines s (oer_Encoder_append_unsigned_integer s n) (Oer.encUnsigned n) := by
  unfold oer_Encoder_append_unsigned_integer Oer.encUnsigned
  dsimp only
  have hk : Py.fdiv (max (Py.bitLength (n : Int)) 1 + 7) 8 = (((max (bitLength n) 1 + 7) / 8 : Nat) : Int) := by
    rw [Py.bitLength_natCast,
      show max ((bitLength n : Nat) : Int) 1 + 7 = ((max (bitLength n) 1 + 7 : Nat) : Int) by omega, Py.fdiv8]
  rw [hk]
  generalize hkk : (max (bitLength n) 1 + 7) / 8 = k
  have hU : n < 2 ^ (8 * k) := by
    have h1 := lt_two_pow_bitLength n
    have h2 : 2 ^ bitLength n ≤ 2 ^ (8 * k) := Nat.pow_le_pow_right (by omega) (by omega)
    omega
  rw [show (8 : Int) * ((k : Nat) : Int) = ((8 * k : Nat) : Int) by omega]
  cases oer_append_length_determinant_cases s h k with
  | inr hx => rw [hx.1, hx.2]; exact rfl
  | inl hx =>
    cases hx with | intro s1 hx =>
    cases hx with | intro l hx =>
    have a1 := hx.2.2.1
    have a2 := hx.2.2.2
    rw [hx.1, hx.2.1]
    have := oer_append_non_negative_binary_integer_refines s1 a1 n (8 * k) hU
    refine ⟨this.1, ?_⟩
    show oEncBits _ = _
    rw [this.2, a2, List.append_assoc, bytesToBits_append, bytesToBits_natToBytesN]

end Asn1.Bridge
