import Asn1Proofs.Lemmas.CCursorPureDefs
import Asn1Proofs.Lemmas.UperPrim
/-
  C09, functional part: what the pure counterparts (`CCursorPureDefs.lean`) of the C bit cursor
  helpers do at the bit level, bridged to the Python codec primitives of `Asn1Model/Prim.lean`
  (`natToBits`, `bitsToNat`, `bytesToBits`, `packBits`).

  This file: toolkit, B1 (`writeBit`), B2 (`writeNnbi`), B4 (`packBits` bridge),
  B5 (`readBitVal`, `readNnbiVal`).
-/
set_option linter.unusedSimpArgs false
namespace Asn1.CCursor
open Asn1

/-! ### toolkit: arrays -/

@[simp] theorem size_set! (a : Mem) (i : Nat) (v : UInt8) : (a.set! i v).size = a.size := by
  simp

theorem get_set!_same (a : Mem) (i : Nat) (v : UInt8) (h : i < a.size) : (a.set! i v)[i]! = v := by
  simp [h]

theorem get_set!_ne (a : Mem) (i j : Nat) (v : UInt8) (h : i ≠ j) : (a.set! i v)[j]! = a[j]! := by
  simp [Array.getElem!_eq_getD, Array.getD_eq_getD_getElem?, h]

theorem get_set! (a : Mem) (i j : Nat) (v : UInt8) :
    (a.set! i v)[j]! = if i = j ∧ i < a.size then v else a[j]! := by
  by_cases h : i = j
  · subst h
    by_cases h2 : i < a.size
    · simp [h2]
    · simp [h2]
  · rw [get_set!_ne _ _ _ _ h]; simp [h]

theorem get!_oob (a : Mem) (i : Nat) (h : a.size ≤ i) : a[i]! = 0 := by
  simp [Array.getElem!_eq_getD, Array.getD_eq_getD_getElem?, h]
  rfl

/-! ### toolkit: bits of bytes -/

theorem byte_testBit_ge (b : UInt8) (k : Nat) (h : 8 ≤ k) : b.toNat.testBit k = false := by
  apply Nat.testBit_lt_two_pow
  have := b.toNat_lt
  have : 2 ^ 8 ≤ 2 ^ k := Nat.pow_le_pow_right (by omega) h
  omega

theorem getBit_def (m : Mem) (p : Nat) : getBit m p = m[p / 8]!.toNat.testBit (7 - p % 8) := rfl

theorem getBit_set! (m : Mem) (j : Nat) (b : UInt8) (q : Nat) :
    getBit (m.set! j b) q
      = if j = q / 8 ∧ j < m.size then b.toNat.testBit (7 - q % 8) else getBit m q := by
  unfold getBit
  rw [get_set!]
  split <;> rfl

theorem getBit_oob (m : Mem) (q : Nat) (h : m.size ≤ q / 8) : getBit m q = false := by
  unfold getBit
  rw [get!_oob m _ h]
  simp

/-- bytes agree ⇒ bits agree -/
theorem getBit_congr_byte {m m' : Mem} {q : Nat} (h : m'[q / 8]! = m[q / 8]!) :
    getBit m' q = getBit m q := by
  unfold getBit; rw [h]

/-! ### toolkit: `natToBits` via `testBit` -/

theorem natToBits_getElem (w n k : Nat) (h : k < (natToBits w n).length) :
    (natToBits w n)[k] = n.testBit (w - 1 - k) := by
  induction w generalizing n k with
  | zero => simp [natToBits] at h
  | succ w ih =>
    simp only [natToBits_length] at h
    simp only [natToBits]
    by_cases hk : k < w
    · rw [List.getElem_append_left (by simpa using hk), ih]
      rw [Nat.testBit_div_two]
      congr 1; omega
    · have hk' : k = w := by omega
      subst hk'
      rw [List.getElem_append_right (by simp)]
      simp only [natToBits_length, Nat.sub_self, List.getElem_cons_zero, Nat.add_sub_cancel]
      rw [Nat.testBit_zero]
      exact (Bool.beq_eq_decide_eq _ _).symm

theorem natToBits_eq_map (w n : Nat) :
    natToBits w n = (List.range w).map fun k => n.testBit (w - 1 - k) := by
  apply List.ext_getElem
  · simp
  · intro k h1 h2
    rw [natToBits_getElem]
    simp

/-- the top bit first -/
theorem natToBits_succ_testBit (w n : Nat) :
    natToBits (w + 1) n = n.testBit w :: natToBits w n := by
  have := natToBits_add 1 w n
  rw [Nat.add_comm 1 w] at this
  rw [this]
  simp only [natToBits, List.nil_append, List.singleton_append, List.cons.injEq, and_true]
  rw [Nat.testBit_eq_decide_div_mod_eq]
  exact (Bool.beq_eq_decide_eq _ _).symm

/-! ### toolkit: `bitsFrom` -/

@[simp] theorem bitsFrom_length (m : Mem) (p n : Nat) : (bitsFrom m p n).length = n := by
  simp [bitsFrom]

theorem bitsFrom_getElem (m : Mem) (p n k : Nat) (h : k < (bitsFrom m p n).length) :
    (bitsFrom m p n)[k] = getBit m (p + k) := by
  simp [bitsFrom]

@[simp] theorem bitsFrom_zero (m : Mem) (p : Nat) : bitsFrom m p 0 = [] := rfl

theorem bitsFrom_add (m : Mem) (p a b : Nat) :
    bitsFrom m p (a + b) = bitsFrom m p a ++ bitsFrom m (p + a) b := by
  apply List.ext_getElem
  · simp
  · intro k h1 h2
    rw [bitsFrom_getElem]
    by_cases hk : k < a
    · rw [List.getElem_append_left (by simpa using hk), bitsFrom_getElem]
    · rw [List.getElem_append_right (by simpa using hk), bitsFrom_getElem]
      simp only [bitsFrom_length]
      congr 1; omega

theorem bitsFrom_succ (m : Mem) (p n : Nat) :
    bitsFrom m p (n + 1) = bitsFrom m p n ++ [getBit m (p + n)] := by
  rw [bitsFrom_add]; rfl

theorem bitsFrom_succ' (m : Mem) (p n : Nat) :
    bitsFrom m p (n + 1) = getBit m p :: bitsFrom m (p + 1) n := by
  rw [Nat.add_comm n 1, bitsFrom_add]; rfl

/-- extensionality: equal bits on the range ⇒ equal `bitsFrom` -/
theorem bitsFrom_congr {m m' : Mem} {p p' n : Nat}
    (h : ∀ k, k < n → getBit m' (p' + k) = getBit m (p + k)) :
    bitsFrom m' p' n = bitsFrom m p n := by
  apply List.ext_getElem
  · simp
  · intro k h1 h2
    rw [bitsFrom_getElem, bitsFrom_getElem]
    exact h k (by simpa using h1)

/-- the eight bits of byte `j` -/
theorem bitsFrom_byte (m : Mem) (j : Nat) : bitsFrom m (8 * j) 8 = natToBits 8 m[j]!.toNat := by
  apply List.ext_getElem
  · simp
  · intro k h1 h2
    have hk : k < 8 := by simpa using h1
    rw [bitsFrom_getElem, natToBits_getElem, getBit_def]
    have e1 : (8 * j + k) / 8 = j := by omega
    have e2 : (8 * j + k) % 8 = k := by omega
    rw [e1, e2]

/-- extensionality for `Bits` by index -/
theorem bits_ext {a b : Bits} (hl : a.length = b.length)
    (h : ∀ k (h1 : k < a.length) (h2 : k < b.length), a[k] = b[k]) : a = b :=
  List.ext_getElem hl h

/-! ### toolkit: `Padded` -/

theorem padded_aligned (m : Mem) (p : Nat) (h : p % 8 = 0) : Padded m p := by
  intro q h1 h2; omega

/-- `Padded` only depends on the byte containing the position -/
theorem padded_congr {m m' : Mem} {p : Nat} (h : m'[p / 8]! = m[p / 8]!) (hp : Padded m p) :
    Padded m' p := by
  intro q h1 h2
  rw [← hp q h1 h2]
  apply getBit_congr_byte
  have : q / 8 = p / 8 := by omega
  rw [this, h]

/-! ### B1: `writeBit` -/

theorem writeBit_size_eq (buf : Mem) (p v : Nat) : (writeBit buf p v).size = buf.size := by
  unfold writeBit; split <;> simp

theorem writeBit_other (buf : Mem) (p v j : Nat) (h : j ≠ p / 8) :
    (writeBit buf p v)[j]! = buf[j]! := by
  unfold writeBit
  split <;> simp only [get_set!_ne _ _ _ _ (Ne.symm h)]

/-- bits of the mask `v << s` for a single bit `v` -/
theorem mask_testBit (v s k : Nat) (hv : v ≤ 1) (hs : s ≤ 7) :
    (UInt8.ofNat (v <<< s)).toNat.testBit k = (decide (k = s) && v == 1) := by
  rw [UInt8.toNat_ofNat', Nat.testBit_mod_two_pow, Nat.testBit_shiftLeft]
  have : v = 0 ∨ v = 1 := by omega
  rcases this with rfl | rfl
  · simp
  · by_cases hk : k = s
    · subst hk; simp; omega
    · simp only [hk, decide_false, Bool.false_and]
      by_cases h2 : k ≥ s
      · have : k - s ≠ 0 := by omega
        have h1 : Nat.testBit 1 (k - s) = false :=
          Bool.eq_false_iff.2 (fun h => this (Nat.testBit_one_eq_true_iff_self_eq_zero.1 h))
        simp [h1]
      · simp [h2]

/-- the byte `writeBit` stores -/
theorem writeBit_byte (buf : Mem) (p v : Nat) (hp : p / 8 < buf.size) :
    (writeBit buf p v)[p / 8]!
      = (if p % 8 = 0 then 0 else buf[p / 8]!) ||| UInt8.ofNat (v <<< (7 - p % 8)) := by
  unfold writeBit
  split
  · rw [get_set!_same _ _ _ (by simpa using hp), get_set!_same _ _ _ hp]
  · rw [get_set!_same _ _ _ hp]

/-- complete bit-level description of `writeBit` -/
theorem getBit_writeBit_eq (buf : Mem) (p v q : Nat) (hv : v ≤ 1) (hp : p / 8 < buf.size) :
    getBit (writeBit buf p v) q
      = if q / 8 = p / 8 then
          ((if p % 8 = 0 then false else getBit buf q) || (decide (q = p) && v == 1))
        else getBit buf q := by
  by_cases hq : q / 8 = p / 8
  · rw [if_pos hq, getBit_def, hq, writeBit_byte buf p v hp, UInt8.toNat_or, Nat.testBit_or,
      mask_testBit v _ _ hv (by omega)]
    have e : decide (7 - q % 8 = 7 - p % 8) = decide (q = p) := by
      apply decide_eq_decide.2; omega
    rw [e]
    congr 1
    split
    · simp
    · rw [getBit_def, hq]
  · rw [if_neg hq]
    exact getBit_congr_byte (writeBit_other buf p v _ hq)

/-- B1 -/
theorem getBit_writeBit (buf : Mem) (p v : Nat) (hv : v ≤ 1) (hp : p / 8 < buf.size)
    (hpad : Padded buf p) :
    (∀ q, q < p → getBit (writeBit buf p v) q = getBit buf q)
    ∧ getBit (writeBit buf p v) p = (v == 1)
    ∧ Padded (writeBit buf p v) (p + 1)
    ∧ (∀ j, j ≠ p / 8 → (writeBit buf p v)[j]! = buf[j]!)
    ∧ (writeBit buf p v).size = buf.size := by
  refine ⟨?_, ?_, ?_, fun j hj => writeBit_other buf p v j hj, writeBit_size_eq buf p v⟩
  · intro q hq
    rw [getBit_writeBit_eq buf p v q hv hp]
    split
    · rename_i h8
      have hne : ¬ q = p := by omega
      have hp0 : ¬ p % 8 = 0 := by omega
      simp [hne, hp0]
    · rfl
  · rw [getBit_writeBit_eq buf p v p hv hp]
    simp only [if_true, decide_true, Bool.true_and]
    split
    · simp
    · rw [hpad p (Nat.le_refl _) (by omega)]; simp
  · intro q h1 h2
    rw [getBit_writeBit_eq buf p v q hv hp]
    have h8 : q / 8 = p / 8 := by omega
    have hne : ¬ q = p := by omega
    simp only [h8, if_true, hne, decide_false, Bool.false_and, Bool.or_false]
    split
    · rfl
    · exact hpad q (by omega) (by omega)

theorem bitsFrom_writeBit (buf : Mem) (p v : Nat) (hv : v ≤ 1) (hp : p / 8 < buf.size)
    (hpad : Padded buf p) :
    bitsFrom (writeBit buf p v) 0 (p + 1) = bitsFrom buf 0 p ++ [v == 1] := by
  obtain ⟨h1, h2, _⟩ := getBit_writeBit buf p v hv hp hpad
  rw [bitsFrom_succ, Nat.zero_add, h2]
  congr 1
  apply bitsFrom_congr
  intro k hk
  simp only [Nat.zero_add]
  exact h1 k hk

/-! ### B2: `writeNnbi` -/

/-- the bit the loop of `encoder_append_non_negative_binary_integer` hands to `append_bit` -/
theorem nnbi_bit (value : UInt64) (k : Nat) (hk : k < 64) :
    ((value >>> UInt64.ofNat k) &&& 1).toNat = if value.toNat.testBit k then 1 else 0 := by
  rw [UInt64.toNat_and, UInt64.toNat_shiftRight, UInt64.toNat_ofNat']
  have e : k % 2 ^ 64 % 64 = k := by omega
  rw [e]
  show value.toNat >>> k &&& 1 = _
  rw [Nat.and_one_is_mod, Nat.testBit_eq_decide_div_mod_eq, Nat.shiftRight_eq_div_pow]
  have : value.toNat / 2 ^ k % 2 = 0 ∨ value.toNat / 2 ^ k % 2 = 1 := by omega
  rcases this with h | h <;> simp [h]

/-- B2, general form over the loop variables: `n` remaining iterations, counter `i` -/
theorem writeNnbi_loop (value : UInt64) (size : Nat) (hsize : size ≤ 64) :
    ∀ (n i : Nat) (buf : Mem) (p : Nat), i + n = size → (p + n + 7) / 8 ≤ buf.size → Padded buf p →
      bitsFrom (writeNnbi value size n i buf p) 0 (p + n)
          = bitsFrom buf 0 p ++ natToBits n value.toNat
      ∧ Padded (writeNnbi value size n i buf p) (p + n)
      ∧ (writeNnbi value size n i buf p).size = buf.size
      ∧ (∀ j, j < p / 8 ∨ (p + n + 7) / 8 ≤ j → (writeNnbi value size n i buf p)[j]! = buf[j]!) := by
  intro n
  induction n with
  | zero =>
    intro i buf p _ _ hpad
    simp [writeNnbi, natToBits, hpad]
  | succ n ih =>
    intro i buf p hin hsz hpad
    have e : size - i - 1 = n := by omega
    simp only [writeNnbi, e]
    rw [nnbi_bit value n (by omega)]
    generalize hv : (if value.toNat.testBit n = true then 1 else 0) = v
    have hv1 : v ≤ 1 := by subst hv; split <;> omega
    have hvb : (v == 1) = value.toNat.testBit n := by
      subst hv; cases value.toNat.testBit n <;> rfl
    have hp : p / 8 < buf.size := by omega
    obtain ⟨_, _, hpad', hother, hsize'⟩ := getBit_writeBit buf p v hv1 hp hpad
    have hb := bitsFrom_writeBit buf p v hv1 hp hpad
    obtain ⟨h1, h2, h3, h4⟩ := ih (i + 1) (writeBit buf p v) (p + 1) (by omega)
      (by rw [hsize']; omega) hpad'
    have e2 : p + 1 + n = p + (n + 1) := by omega
    rw [e2] at h1 h2 h4
    refine ⟨?_, h2, by rw [h3, hsize'], ?_⟩
    · rw [h1, hb, hvb, natToBits_succ_testBit, List.append_assoc]; rfl
    · intro j hj
      rw [h4 j (by omega), hother j (by omega)]

/-- B2: `encoder_append_non_negative_binary_integer(value, size)` appends `natToBits size value` -/
theorem writeNnbi_spec (value : UInt64) (size : Nat) (hsize : size ≤ 64) (buf : Mem) (p : Nat)
    (hsz : (p + size + 7) / 8 ≤ buf.size) (hpad : Padded buf p) :
    bitsFrom (writeNnbi value size size 0 buf p) 0 (p + size)
        = bitsFrom buf 0 p ++ natToBits size value.toNat
    ∧ Padded (writeNnbi value size size 0 buf p) (p + size)
    ∧ (writeNnbi value size size 0 buf p).size = buf.size := by
  obtain ⟨h1, h2, h3, _⟩ := writeNnbi_loop value size hsize size 0 buf p (by omega) hsz hpad
  exact ⟨h1, h2, h3⟩

end Asn1.CCursor
