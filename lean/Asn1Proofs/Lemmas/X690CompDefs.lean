import Asn1Proofs.Lemmas.X690Complete
import Asn1Model.X690Strict
/-
  C04 completeness of the code's BER decoder w.r.t. the strict reference decoder `decVS`
  (reference decoder minus the named deviation `dirtyUnusedBits`): statement shape and shared facts.

  `extra` is whatever follows in the input of the code's decoder: the reference decoder cuts the
  contents of a definite-length constructed encoding out of the input before it parses them, the
  code never does.
-/
set_option linter.unusedSimpArgs false
set_option linter.unusedVariables false
namespace Asn1.X690
open Asn1.Der (mkTag)

def COMP (t : Ty) : Prop :=
  ∀ (tg : Option Nat) (fuel fuelC : Nat) (bs rest extra : Bytes) (v : Val),
    decVS t tg fuel bs = some (v, rest) → (bs ++ extra).length < fuelC →
    ∃ k, BerCodec.dec t tg fuelC (bs ++ extra) = .ok (some (v, k, rest ++ extra)) ∧ bs.length = k + rest.length

/-- `bs` starts with the identifier octets of a context tag `[j]`, `j ≥ lo` -/
def TagGe (lo : Nat) (bs : Bytes) : Prop :=
  ∃ (j u : Nat) (c : Bool) (r : Bytes), lo ≤ j ∧ bs = mkTag u c (some j) ++ r

theorem TagGe.mono {i j : Nat} {bs : Bytes} (h : TagGe j bs) (hij : i ≤ j) : TagGe i bs := by
  obtain ⟨k, u, c, r, hk, e⟩ := h
  exact ⟨k, u, c, r, by omega, e⟩

theorem TagGe.append {j : Nat} {bs : Bytes} (h : TagGe j bs) (x : Bytes) : TagGe j (bs ++ x) := by
  obtain ⟨k, u, c, r, hk, e⟩ := h
  exact ⟨k, u, c, r ++ x, hk, by rw [e, List.append_assoc]⟩

/-- a component found present starts with its tag -/
theorem tagGe_of_componentPresent {t : Ty} {i : Nat} {bs : Bytes} (h : componentPresent t i bs = true) :
    TagGe i bs := by
  unfold componentPresent at h
  simp only [Bool.or_eq_true, Bool.and_eq_true, Option.isSome_iff_exists] at h
  rcases h with ⟨r, hr⟩ | ⟨_, r, hr⟩
  · have := stripPrefix_some hr
    rw [identifier_context 0] at this
    exact ⟨i, 0, _, r, Nat.le_refl _, this⟩
  · have := stripPrefix_some hr
    rw [identifier_context 0] at this
    exact ⟨i, 0, _, r, Nat.le_refl _, this⟩

end Asn1.X690
