import Asn1Proofs.Lemmas.OerLeaf
/-
  SEQUENCE OF and CHOICE of the OER model.
-/
set_option linter.unusedSimpArgs false
namespace Asn1.Oer
open Asn1.Uper (Err)

/-! ### SEQUENCE OF -/

theorem mapM_total {α β : Type} (f : α → EncM β) (l : List α)
    (h : ∀ a ∈ l, (∃ b, f a = .ok b) ∨ f a = .error .encodeError) :
    (∃ r, l.mapM f = .ok r) ∨ l.mapM f = .error .encodeError := by
  induction l with
  | nil => exact Or.inl ⟨[], mapM_nil' f⟩
  | cons a l ih =>
    rw [mapM_cons']
    rcases h a (by simp) with ⟨b, hb⟩ | hb <;> rw [hb]
    · rcases ih (fun x hx => h x (by simp [hx])) with ⟨r, hr⟩ | hr <;> rw [hr]
      · exact Or.inl ⟨_, rfl⟩
      · exact Or.inr rfl
    · exact Or.inr rfl

theorem rt_sequenceOf (e : Ty) (c : SizeC) (ih : RT e) : RT (.sequenceOf e c) := by
  intro v bytes rest hwf hwf2 hd ht hu hns he
  cases v <;> try (simp only [hasType, Bool.false_eq_true] at ht; done)
  rename_i vs
  simp only [hasType, Bool.and_eq_true, List.all_eq_true] at ht
  simp only [Ty.wf, Bool.and_eq_true] at hwf
  simp only [oerWf] at hwf2
  simp only [Ty.defaultsOk] at hd
  simp only [utf8Ok, List.all_eq_true] at hu
  simp only [noSwallow, List.all_eq_true] at hns
  simp only [canon]
  rw [enc] at he
  rw [dec]
  split at he
  · rename_i items q hitems hq
    cases he
    simp only [bind, Except.bind, List.append_assoc]
    rw [decUnsigned_encUnsigned hq]
    simp only
    rw [decRepeat_mapM (enc e) (canon e) (dec e) vs items rest ?_ hitems]
    intro x hx bs r hbs
    exact ih x bs r hwf.1 hwf2 hd (ht.1 x hx) (hu x hx) (hns x hx) hbs
  · cases he
  · cases he

theorem et_sequenceOf (e : Ty) (c : SizeC) (ih : ET e) : ET (.sequenceOf e c) := by
  intro v hwf ht
  cases v <;> try (simp only [hasType, Bool.false_eq_true] at ht; done)
  rename_i vs
  simp only [hasType, Bool.and_eq_true, List.all_eq_true] at ht
  simp only [Ty.wf, Bool.and_eq_true] at hwf
  rw [enc]
  rcases mapM_total (enc e) vs (fun x hx => ih x hwf.1 (ht.1 x hx)) with ⟨items, hi⟩ | hi <;> rw [hi]
  · rcases encUnsigned_total vs.length with ⟨q, hq⟩ | hq <;> rw [hq]
    · exact Or.inl ⟨_, rfl⟩
    · exact Or.inr rfl
  · exact Or.inr rfl

/-! ### CHOICE -/

theorem decAlt_find (as : Alts) (name : String) (j : Nat) (t : Ty) (h : as.findO name = some (j, t))
    (i : Nat) (bs : Bytes) :
    decAlt as (encTag (i + j) 0x80) i bs
      = some (do let (v, r) ← dec t bs; .ok (.choice name v, r)) := by
  induction as using Alts.ind generalizing j i with
  | nil => simp [Alts.findO] at h
  | cons n t' rest ih =>
    simp only [Alts.findO] at h
    split at h
    · rename_i hn
      cases h
      have : n = name := by simpa using hn
      subst this
      simp only [decAlt, Nat.add_zero, beq_self_eq_true, if_true]
    · simp only [Option.map_eq_some_iff] at h
      obtain ⟨⟨j', t''⟩, h1, h2⟩ := h
      cases h2
      have hne : (encTag (i + (j' + 1)) 0x80 == encTag i 0x80) = false := by
        rw [beq_eq_false_iff_ne]
        intro e
        have := encTag_inj e
        omega
      simp only [decAlt, hne, Bool.false_eq_true, if_false]
      have := ih j' h1 (i + 1) 
      rw [show i + 1 + j' = i + (j' + 1) by omega] at this
      exact this

theorem decAltAdd_find (as : Alts) (name : String) (j : Nat) (t : Ty) (h : as.findO name = some (j, t))
    (i : Nat) (bs : Bytes) :
    decAltAdd as (encTag (i + j) 0x80) i bs
      = some (do let (_, r0) ← readLenDet bs; let (v, r) ← dec t r0; .ok (.choice name v, r)) := by
  induction as using Alts.ind generalizing j i with
  | nil => simp [Alts.findO] at h
  | cons n t' rest ih =>
    simp only [Alts.findO] at h
    split at h
    · rename_i hn
      cases h
      have : n = name := by simpa using hn
      subst this
      simp only [decAltAdd, Nat.add_zero, beq_self_eq_true, if_true]
    · simp only [Option.map_eq_some_iff] at h
      obtain ⟨⟨j', t''⟩, h1, h2⟩ := h
      cases h2
      have hne : (encTag (i + (j' + 1)) 0x80 == encTag i 0x80) = false := by
        rw [beq_eq_false_iff_ne]
        intro e
        have := encTag_inj e
        omega
      simp only [decAltAdd, hne, Bool.false_eq_true, if_false]
      have := ih j' h1 (i + 1)
      rw [show i + 1 + j' = i + (j' + 1) by omega] at this
      exact this

theorem decAlt_none (as : Alts) (idx i : Nat) (bs : Bytes) (h : i + as.length ≤ idx) :
    decAlt as (encTag idx 0x80) i bs = none := by
  induction as using Alts.ind generalizing i with
  | nil => rfl
  | cons n t rest ih =>
    simp only [Alts.length] at h
    have hne : (encTag idx 0x80 == encTag i 0x80) = false := by
      rw [beq_eq_false_iff_ne]
      intro e
      have := encTag_inj e
      omega
    simp only [decAlt, hne, Bool.false_eq_true, if_false]
    exact ih (i + 1) (by omega)

/-- the alternative selected by the name, under typing and distinct names -/
theorem choice_typed {root adds : Alts} {name : String} {v : Val}
    (hnd : (root.names ++ adds.names).Nodup)
    (ht : (hasAlt root name v || hasAlt adds name v) = true) :
    (∃ j t, root.findO name = some (j, t) ∧ hasType t v = true) ∨
    (root.findO name = none ∧ ∃ j t, adds.findO name = some (j, t) ∧ hasType t v = true) := by
  rw [hasAlt_find_oer, hasAlt_find_oer] at ht
  cases hr : root.findO name with
  | some x =>
    obtain ⟨j, t⟩ := x
    left
    refine ⟨j, t, rfl, ?_⟩
    simp only [hr, Bool.or_eq_true] at ht
    rcases ht with ht | ht
    · exact ht
    · exfalso
      cases ha : adds.findO name with
      | none => simp [ha] at ht
      | some y =>
        have h1 : name ∈ root.names := Classical.byContradiction fun hc => by
          rw [← find_none_iff_oer] at hc; rw [hc] at hr; cases hr
        have h2 : name ∈ adds.names := Classical.byContradiction fun hc => by
          rw [← find_none_iff_oer] at hc; rw [hc] at ha; cases ha
        rw [List.nodup_append] at hnd
        exact hnd.2.2 name h1 name h2 rfl
  | none =>
    right
    refine ⟨rfl, ?_⟩
    simp only [hr, Bool.false_or] at ht
    cases ha : adds.findO name with
    | none => simp [ha] at ht
    | some y =>
      obtain ⟨j, t⟩ := y
      simp only [ha] at ht
      exact ⟨j, t, rfl, ht⟩

theorem rt_choice (root : Alts) (ext : Bool) (adds : Alts)
    (ihr : root.AllO RT) (iha : adds.AllO RT) : RT (.choice root ext adds) := by
  intro v bytes rest hwf hwf2 hd ht hu hns he
  cases v <;> try (simp only [hasType, Bool.false_eq_true] at ht; done)
  rename_i name v
  simp only [hasType] at ht
  simp only [Ty.wf, Bool.and_eq_true, decide_eq_true_eq] at hwf
  obtain ⟨⟨⟨⟨hwr, hwa⟩, _⟩, hnd⟩, _⟩ := hwf
  simp only [oerWf, Bool.and_eq_true] at hwf2
  simp only [Ty.defaultsOk, Bool.and_eq_true] at hd
  simp only [utf8Ok, Bool.and_eq_true] at hu
  simp only [noSwallow, Bool.and_eq_true] at hns
  rw [utf8OkAlt_find, utf8OkAlt_find] at hu
  rw [noSwallowAlt_find, noSwallowAlt_find] at hns
  simp only [canon]
  rw [canonAlt_find_oer, canonAlt_find_oer]
  rw [enc, encAlt_find, encAlt_find] at he
  rw [dec]
  rcases choice_typed hnd ht with ⟨j, t, hf, hty⟩ | ⟨hf, j, t, hfa, hty⟩
  · simp only [hf, Option.map_some, Nat.zero_add] at he hu hns ⊢
    have hrt : RT t := find_all_oer name root j t hf ihr
    have hwt := find_all_oer name root j t hf (alts_all_wf_oer root hwr)
    have hwt2 := find_all_oer name root j t hf (alts_all_oerWf root hwf2.1)
    have hdt := find_all_oer name root j t hf (alts_all_defaultsOk_oer root hd.1)
    split at he
    · cases he
    · rename_i body hbody
      cases he
      simp only [bind, Except.bind, List.append_assoc]
      rw [readTag_encTag]
      simp only
      have := decAlt_find root name j t hf 0 (body ++ rest)
      rw [Nat.zero_add] at this
      rw [this]
      simp only [bind, Except.bind]
      rw [hrt v body rest hwt hwt2 hdt hty hu.1 hns.1 hbody]
  · simp only [hf, hfa, Option.map_some, Option.map_none] at he hu hns ⊢
    have hrt : RT t := find_all_oer name adds j t hfa iha
    have hwt := find_all_oer name adds j t hfa (alts_all_wf_oer adds hwa)
    have hwt2 := find_all_oer name adds j t hfa (alts_all_oerWf adds hwf2.2)
    have hdt := find_all_oer name adds j t hfa (alts_all_defaultsOk_oer adds hd.2)
    split at he
    · cases he
    · rename_i body hbody
      simp only [bind, Except.bind] at he
      split at he
      · cases he
      · rename_i l hl
        cases he
        simp only [bind, Except.bind, List.append_assoc]
        rw [readTag_encTag]
        simp only
        rw [decAlt_none root _ 0 _ (by omega)]
        simp only
        rw [decAltAdd_find adds name j t hfa root.length]
        simp only [bind, Except.bind]
        rw [readLenDet_lenDet hl]
        simp only
        rw [hrt v body rest hwt hwt2 hdt hty hu.2 hns.2 hbody]

theorem et_choice (root : Alts) (ext : Bool) (adds : Alts)
    (ihr : root.AllO ET) (iha : adds.AllO ET) : ET (.choice root ext adds) := by
  intro v hwf ht
  cases v <;> try (simp only [hasType, Bool.false_eq_true] at ht; done)
  rename_i name v
  simp only [hasType] at ht
  simp only [Ty.wf, Bool.and_eq_true, decide_eq_true_eq] at hwf
  obtain ⟨⟨⟨⟨hwr, hwa⟩, _⟩, hnd⟩, _⟩ := hwf
  rw [enc, encAlt_find, encAlt_find]
  rcases choice_typed hnd ht with ⟨j, t, hf, hty⟩ | ⟨hf, j, t, hfa, hty⟩
  · simp only [hf, Option.map_some]
    have het : ET t := find_all_oer name root j t hf ihr
    have hwt := find_all_oer name root j t hf (alts_all_wf_oer root hwr)
    rcases het v hwt hty with ⟨body, hb⟩ | hb <;> rw [hb]
    · exact Or.inl ⟨_, rfl⟩
    · exact Or.inr rfl
  · simp only [hf, hfa, Option.map_some, Option.map_none]
    have het : ET t := find_all_oer name adds j t hfa iha
    have hwt := find_all_oer name adds j t hfa (alts_all_wf_oer adds hwa)
    rcases het v hwt hty with ⟨body, hb⟩ | hb <;> rw [hb]
    · simp only [bind, Except.bind]
      rcases lenDet_total body.length with ⟨l, hl⟩ | hl <;> rw [hl]
      · exact Or.inl ⟨_, rfl⟩
      · exact Or.inr rfl
    · exact Or.inr rfl

end Asn1.Oer
