import Asn1Model.X696
import Asn1Proofs.Lemmas.OerRoundtrip
/-
  C06, primitives: the leaf encoders of the specification `X696` coincide with those of the code
  model `Oer`, and the declarative meaning of the specification's primitives.
-/
set_option linter.unusedSimpArgs false
namespace Asn1.X696
open Asn1.Uper (Err utf8Enc)

/-! ### model primitive = specification primitive -/

theorem lengthDet_eq (n : Nat) : lengthDet n = Oer.lenDet n := by
  rw [Oer.lenDet_def, lengthDet]
  have hl : (natToBytesMin n).length = byteLength n := natToBytesN_length _ _
  rw [hl]
  by_cases h : n < 128
  · simp [h]
  · simp only [h, if_false]
    by_cases hk : byteLength n ≤ 127
    · have : ¬ byteLength n > 127 := by omega
      simp only [hk, this, if_true, if_false]
      rfl
    · have : byteLength n > 127 := by omega
      simp only [hk, this, if_true, if_false]

theorem unsignedOctets_eq (n : Nat) : unsignedOctets n = (max (bitLength n) 1 + 7) / 8 := by
  unfold unsignedOctets byteLength
  omega

theorem varUnsigned_eq (n : Nat) : varUnsigned n = Oer.encUnsigned n := by
  unfold varUnsigned Oer.encUnsigned
  rw [lengthDet_eq, unsignedOctets_eq]
  simp only [bind, Except.bind]
  cases Oer.lenDet ((max (bitLength n) 1 + 7) / 8) <;> rfl

theorem varSigned_eq (i : Int) : varSigned i = Oer.encSigned i := by
  unfold varSigned Oer.encSigned signedOctets
  rw [lengthDet_eq]
  simp only [bind, Except.bind]
  cases Oer.lenDet (intByteLength i) <;> rfl

theorem openType_eq (e : Bytes) : openType e = Oer.wrap e := by
  unfold openType Oer.wrap
  rw [lengthDet_eq]
  simp only [bind, Except.bind]
  cases Oer.lenDet e.length <;> rfl

theorem visibleFixedSize_eq (c : SizeC) : visibleFixedSize c = Oer.fixedSize c := rfl

theorem itemValue_eq (name : String) (l : List (String × Int)) : itemValue name l = Oer.enumValue name l := by
  induction l with
  | nil => rfl
  | cons x r ih =>
    obtain ⟨n, v⟩ := x
    simp only [itemValue, Oer.enumValue, ih]

theorem base128_eq (f n : Nat) : base128 f n = Oer.base128 f n := by
  induction f generalizing n with
  | zero => rfl
  | succ f ih => simp only [base128, Oer.base128, ih]

theorem tagOctets_eq (idx : Nat) : tagOctets contextClass idx = Oer.encTag idx 0x80 := by
  unfold tagOctets Oer.encTag contextClass
  simp only [base128_eq]

/-- `natToBytesN k` only looks at `n mod 256^k` -/
theorem natToBytesN_mod (k n : Nat) : natToBytesN k (n % 256 ^ k) = natToBytesN k n := by
  induction k generalizing n with
  | zero => rfl
  | succ k ih =>
    simp only [natToBytesN]
    have h1 : n % 256 ^ (k + 1) / 256 = (n / 256) % 256 ^ k := by
      rw [Nat.pow_succ, Nat.mul_comm, Nat.mod_mul_right_div_self]
    have h2 : n % 256 ^ (k + 1) % 256 = n % 256 := by
      rw [Nat.pow_succ, Nat.mul_comm]
      exact Nat.mod_mul_right_mod n 256 (256 ^ k)
    rw [h1, h2, ih]

/-- a non-negative number written in two's complement on `k` octets is its unsigned form -/
theorem intToBytesN_nonneg (k : Nat) (i : Int) (h : 0 ≤ i) : intToBytesN k i = natToBytesN k i.toNat := by
  unfold intToBytesN
  have : (i % ((256 ^ k : Nat) : Int)).toNat = i.toNat % 256 ^ k := by
    rw [Int.toNat_emod h (Int.natCast_nonneg _), Int.toNat_natCast]
  rw [this, natToBytesN_mod]

end Asn1.X696
