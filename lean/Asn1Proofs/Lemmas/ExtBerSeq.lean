import Asn1Proofs.Lemmas.ExtBerBase
/-
  C07, BER: SEQUENCE.  `ExtDerSeq.lean` with the decoder as a parameter: the SEQUENCE decoders of
  ber.py and der.py are the same code (`Der.gSeq`, `Der.IsCodec.seq`), so the proof of the DER case
  goes through word for word for every instance `D` of the shared decoder; the decoder-independent
  lemmas about slots and `fill` (`DerX.slotsX`, `DerX.fill_slotsX`, ...) are reused as they are.
-/
set_option linter.unusedSimpArgs false
set_option linter.unusedVariables false
namespace Asn1.Ext.BerX
open Asn1 Asn1.Der Asn1.Ext Asn1.Ext.DerX
open Asn1.X690 (defaultsOkV membersDefaultsOkV)
open Asn1.Oer (oerWf oerWfMembers)

/-! ### one pass over an honest encoding of the other version -/

/-- first pass of the decoder's members `msD` over the encoding `body` of the encoder's members `msE`:
the common members that were encoded are decoded (`b1`), what the members unknown to the decoder
encode to (`b2`) is left -/
theorem gPass_firstG {D : Decoder} {test : Ty → Nat → Bytes → Bool} (hD : IsCodec D test)
    (fs : List (String × Val)) (msD : Members) : ∀ (msE : Members),
    PairM (XCg D) msD msE → msE.wf = true → oerWfMembers msE = true → membersDefaultsOkV msE = true →
    dOkMembers true msD msE → membersOk msE fs = true →
    ∀ (i fuel : Nat) (body tail : Bytes) (m k0 : Nat) (succ : Bool),
      encMembers msE i fs = .ok body → body.length < fuel →
      (m ≠ 0 → StartsGe (i + msE.length) tail) →
      (msE.length < msD.length → m = 0) →
      ∃ b1 b2 : Bytes, body = b1 ++ b2 ∧
        (b2.length + m ≠ 0 → StartsGe (i + msD.length) (b2 ++ tail)) ∧
        (msE.length ≤ msD.length → b2 = []) ∧
        gPass D msD i fuel (List.replicate msD.length none)
            ⟨⟨body ++ tail, k0, some (body.length + m)⟩, (body.length + m == 0), succ⟩
          = .ok (slotsX msD msE fs,
              ⟨⟨b2 ++ tail, k0 + b1.length, some (b2.length + m)⟩, (b2.length + m == 0), succ || !b1.isEmpty⟩) := by
  induction msD using Members.ind with
  | nil =>
    intro msE _ _ _ _ _ hok i fuel body tail m k0 succ he hf ht hm0
    refine ⟨[], body, rfl, ?_, ?_, ?_⟩
    · intro hne
      rcases encMembers_starts fs msE i body he with h0 | h0
      · subst h0
        have hm : m ≠ 0 := by simpa using hne
        simpa [Members.length] using (ht hm).mono (by omega)
      · simpa [Members.length] using h0.append tail
    · intro hle
      simp only [Members.length, Nat.le_zero] at hle
      have := members_nil_of_length hle
      subst this
      rw [encMembers] at he; cases he; rfl
    · simp [gPass, slotsX, Members.length]
  | cons name p tD mD ih =>
    intro msE hp hwf howf hd hdk hok i fuel body tail m k0 succ he hf ht hm0
    cases msE with
    | nil =>
      -- only the decoder knows these members: the data has ended
      rw [encMembers] at he; cases he
      have hm : m = 0 := hm0 (by simp [Members.length])
      subst hm
      refine ⟨[], [], rfl, fun h => absurd rfl h, fun _ => rfl, ?_⟩
      rw [gPass_ood D _ i fuel _ rfl, slotsX_nilE]
      simp
    | cons name' p' tE mE =>
      obtain ⟨hn, hpp, ⟨hx, hc⟩, hp'⟩ := hp
      subst hn
      subst hpp
      rw [Members.wf, Bool.and_eq_true] at hwf
      rw [oerWfMembers, Bool.and_eq_true] at howf
      rw [membersDefaultsOkV_cons, Bool.and_eq_true, Bool.and_eq_true] at hd
      rw [dOkMembers_cons_cons] at hdk
      rw [membersOk_cons, Bool.and_eq_true] at hok
      rw [encMembers_cons] at he
      have ih' := ih mE hp' hwf.2 howf.2 hd.2 hdk.2.2 hok.2
      simp only [Members.length] at ht hm0 ⊢
      rw [gPass_cons_none _ _ _ _ _ _ _ _ _ (replicate_headD _), replicate_tail]
      simp only [slotsX]
      rcases encHere_casesX (tD := tD) (i := i) hok.1 with ⟨h1, h2⟩ | ⟨v, _, hty, h1, h2⟩
      · -- not encoded
        rw [h1] at he
        cases hr : encMembers mE (i + 1) fs with
        | error e => simp [hr] at he
        | ok b =>
          simp only [hr, List.nil_append] at he
          cases he
          obtain ⟨b1, b2, hb, hst2, hb2, hrec⟩ := ih' (i + 1) fuel body tail m k0 succ hr hf
            (fun hm => by have := ht hm; rwa [show i + (mE.length + 1) = i + 1 + mE.length by omega] at this)
            (fun hl => hm0 (by omega))
          refine ⟨b1, b2, hb, ?_, fun hl => hb2 (by omega), ?_⟩
          · intro hne
            have := hst2 hne
            rwa [show i + 1 + mD.length = i + (mD.length + 1) by omega] at this
          · rw [h2]
            simp only [hrec]
            by_cases hood : (body.length + m == 0) = true
            · simp only [hood, if_true]
            · simp only [hood, if_false, Bool.false_eq_true]
              -- the input starts with a later tag
              have hst : StartsGe (i + 1) (body ++ tail) := by
                rcases encMembers_starts fs mE (i + 1) body hr with h0 | h0
                · subst h0
                  have hm : m ≠ 0 := by
                    intro h; apply hood; simp [h]
                  simpa using (ht hm).mono (by omega)
                · exact h0.append tail
              obtain ⟨j, hj, u, c, r, hbs, hrne⟩ := hst
              have hmis := hD.mism tD i j u c r fuel (by omega) (by omega)
              rw [hbs]
              simp only [hmis]
      · -- encoded
        obtain ⟨a, ha⟩ : ∃ a, enc tE (some i) v = .ok a := by
          rw [h1] at he
          cases hx' : enc tE (some i) v with
          | ok a => exact ⟨a, rfl⟩
          | error e => simp [hx'] at he
        rw [h1, ha] at he
        cases hr : encMembers mE (i + 1) fs with
        | error e => simp [hr] at he
        | ok b =>
          simp only [hr] at he
          cases he
          have hane : a ≠ [] := (enc_Starts ha).ne_nil
          have halen : 0 < a.length := List.length_pos_iff.mpr hane
          simp only [List.length_append] at hf ⊢
          have hood : (a.length + b.length + m == 0) = false := by
            rw [beq_eq_false_iff_ne]; omega
          simp only [hood, if_false, Bool.false_eq_true, List.append_assoc]
          have hrt := hx (some i) v a (b ++ tail) fuel hwf.1 howf.1 hd.1.2 hdk.2.1 hty ha
            (show a.length < fuel by omega)
          rw [hrt]
          simp only [Cur.advance, Option.map_some, isEnd_some]
          have e1 : a.length + b.length + m - a.length = b.length + m := by omega
          rw [e1]
          obtain ⟨b1, b2, hb, hst2, hb2, hrec⟩ := ih' (i + 1) fuel b tail m (k0 + a.length) true hr (by omega)
            (fun hm => by have := ht hm; rwa [show i + (mE.length + 1) = i + 1 + mE.length by omega] at this)
            (fun hl => hm0 (by omega))
          refine ⟨a ++ b1, b2, by rw [hb, List.append_assoc], ?_, fun hl => hb2 (by omega), ?_⟩
          · intro hne
            have := hst2 hne
            rwa [show i + 1 + mD.length = i + (mD.length + 1) by omega] at this
          · rw [hrec, h2]
            have e3 : (a ++ b1).isEmpty = false := by
              cases a with
              | nil => exact absurd rfl hane
              | cons x xs => rfl
            simp [e3, Nat.add_assoc]

/-- the `while True` loop of `decode_members`: one productive pass, at most one idle pass -/
theorem retry_firstG {D : Decoder} {test : Ty → Nat → Bytes → Bool} (hD : IsCodec D test)
    (fs : List (String × Val)) (msD msE : Members)
    (hp : PairM (XCg D) msD msE) (hwf : msE.wf = true) (howf : oerWfMembers msE = true)
    (hd : membersDefaultsOkV msE = true) (hdk : dOkMembers true msD msE) (hok : membersOk msE fs = true)
    (i fuel : Nat) (body tail : Bytes) (m k0 : Nat)
    (he : encMembers msE i fs = .ok body) (hf : body.length < fuel)
    (ht : m ≠ 0 → StartsGe (i + msE.length) tail)
    (hm0 : msE.length < msD.length → m = 0) :
    ∃ b1 b2 : Bytes, body = b1 ++ b2 ∧ (msE.length ≤ msD.length → b2 = []) ∧
      retry (gPass D msD i fuel) (msD.length + 1) (List.replicate msD.length none)
          ⟨body ++ tail, k0, some (body.length + m)⟩
        = .ok (slotsX msD msE fs, ⟨b2 ++ tail, k0 + b1.length, some (b2.length + m)⟩, (b2.length + m == 0)) := by
  obtain ⟨b1, b2, hb, hst, hb2, h1⟩ :=
    gPass_firstG hD fs msD msE hp hwf howf hd hdk hok i fuel body tail m k0 false he hf ht hm0
  refine ⟨b1, b2, hb, hb2, ?_⟩
  rw [retry]
  simp only [isEnd_some, h1, Bool.false_or]
  by_cases hm : (b2.length + m == 0) = true
  · simp [hm]
  · simp only [hm, Bool.false_eq_true, Bool.false_or]
    by_cases hb1 : b1 = []
    · subst hb1; simp
    · have hbe : b1.isEmpty = false := by
        cases b1 with
        | nil => exact absurd rfl hb1
        | cons x xs => rfl
      simp only [hbe, Bool.not_false, Bool.not_true, if_false, Bool.false_eq_true]
      -- a second pass: needs one more unit of fuel, i.e. at least one member
      cases msD with
      | nil =>
        exfalso
        rw [gPass] at h1
        simp only [Except.ok.injEq, Prod.mk.injEq, MSt.mk.injEq, Cur.mk.injEq] at h1
        have := h1.2.2.2
        simp [hbe] at this
      | cons name p t rest =>
        simp only [Members.length]
        rw [retry]
        have hm' : b2.length + m ≠ 0 := by intro h; apply hm; simp [h]
        have h2 := gPass_idle hD (.cons name p t rest) i fuel (slotsX (.cons name p t rest) msE fs)
          ⟨⟨b2 ++ tail, k0 + b1.length, some (b2.length + m)⟩, false, false⟩ (slotsX_length _ _ _) rfl
          (by omega) (hst hm')
        have hm2 : (b2.length + m == 0) = false := by simpa using hm
        simp only [isEnd_some, hm2, h2]
        simp

/-! ### SEQUENCE -/

theorem xt_sequenceG {D : Decoder} {test : Ty → Nat → Bytes → Bool} (hD : IsCodec D test)
    (rD rE aD aE : Members) (x : Bool)
    (hr : PairM (XCg D) rD rE) (hrl : rD.length = rE.length) (ha : PairM (XCg D) aD aE) :
    XTg D (.sequence rD x aD) (.sequence rE x aE) := by
  intro tg v bytes rest fuel hwf howf hd hdk ht he hf
  cases v <;> simp only [hasType, Bool.false_eq_true] at ht
  rename_i fs
  simp only [Ty.wf, Bool.and_eq_true, decide_eq_true_eq] at hwf
  obtain ⟨⟨⟨⟨hwr, hwa⟩, hnd⟩, _⟩, _⟩ := hwf
  have hnd' : (rE.names ++ aE.names).Nodup := by simpa using hnd
  obtain ⟨hokr, hoka⟩ := membersOk_of_hasType rE aE x fs hnd' (by rw [hasType]; exact ht)
  rw [Oer.oerWf, Bool.and_eq_true] at howf
  rw [defaultsOkV, Bool.and_eq_true] at hd
  rw [dOk] at hdk
  rw [enc] at he
  rw [encAdditions_eq fs aE (members_allO_of_forall et_all aE) hwa hoka] at he
  cases hbr : encMembers rE 0 fs with
  | error e => simp [hbr] at he
  | ok br =>
    cases hba : encMembers aE rE.length fs with
    | error e => simp [hbr, hba] at he
    | ok ba =>
      simp only [hbr, hba] at he
      cases he
      rw [hD.seq, gSeq, tlv_append, matchTag_self]
      simp only [readLen_encLength]
      have hlen : (tlv (mkTag 16 true tg) (br ++ ba)).length
          = (mkTag 16 true tg).length + (Ber.encLength (br ++ ba).length).length + (br.length + ba.length) := by
        rw [tlv_length, List.length_append]
      rw [hlen] at hf
      -- root pass
      have hta : ba.length ≠ 0 → StartsGe (0 + rE.length) (ba ++ rest) := by
        intro hne
        rcases encMembers_starts fs aE rE.length ba hba with h0 | h0
        · subst h0; exact absurd rfl hne
        · simpa using h0.append rest
      obtain ⟨b1, b2, hb, hb2, h1⟩ := retry_firstG hD fs rD rE hr hwr howf.1 hd.1 hdk.1 hokr 0 fuel br (ba ++ rest)
        ba.length ((mkTag 16 true tg).length + (Ber.encLength (br ++ ba).length).length) hbr (by omega) hta
        (fun hl => by omega)
      have hb2' := hb2 (by omega)
      subst hb2'
      rw [List.append_nil] at hb
      subst hb
      simp only [List.length_append, List.append_assoc, List.nil_append, List.length_nil, Nat.zero_add]
        at h1 hlen hf ⊢
      rw [h1]
      simp only [fill_slotsX fs false rD rE (pairM_toDer hr) hdk.1 hokr]
      rw [view]
      by_cases hal : aD.length = 0
      · have := members_nil_of_length hal
        subst this
        simp only [Members.length, if_true]
        rw [viewMembers, List.append_nil]
        simp only [finishMembers]
        by_cases hz : (ba.length == 0) = true
        · have : ba = [] := by
            have : ba.length = 0 := by simpa using hz
            exact List.length_eq_zero_iff.mp this
          subst this
          simp [tlv_length]
        · simp only [hz, Bool.false_eq_true, if_false, List.drop_left]
          simp [tlv_length, Nat.add_assoc]
      · simp only [hal, if_false]
        rw [skip_or_retry]
        obtain ⟨c1, c2, hc, _, h2⟩ := retry_firstG hD fs aD aE ha hwa howf.2 hd.2 hdk.2 hoka rD.length fuel ba rest 0
          ((mkTag 16 true tg).length + (Ber.encLength (br.length + ba.length)).length + br.length)
          (by rw [hrl]; exact hba) (by omega) (fun h => absurd rfl h) (fun _ => rfl)
        simp only [Nat.add_zero] at h2
        rw [h2]
        simp only [fill_slotsX fs true aD aE (pairM_toDer ha) hdk.2 hoka]
        subst hc
        simp only [finishMembers]
        by_cases hz : (c2.length == 0) = true
        · have : c2 = [] := by
            have : c2.length = 0 := by simpa using hz
            exact List.length_eq_zero_iff.mp this
          subst this
          simp [tlv_length, Nat.add_assoc]
        · simp only [hz, Bool.false_eq_true, if_false, List.drop_left, List.length_append]
          simp [tlv_length, Nat.add_assoc]

end Asn1.Ext.BerX
