import Asn1Proofs.Lemmas.ExtDefs
import Asn1Proofs.Lemmas.ExtLemmasAux
/-
  C07: codec-independent facts about `Extends`, `Compat`, `project`, `view`, `canonG`, `dOk`.
  The proofs (mutual structural recursions over `Ty` / `Members` / `Alts`) are in `ExtLemmasAux.lean`.
-/
set_option linter.unusedSimpArgs false
set_option linter.unusedVariables false
namespace Asn1.Ext
open Asn1

/-! ### `canonG` / `defaultsOkG` are the two existing normal forms -/

theorem canonG_false (t : Ty) (v : Val) : canonG false t v = canon t v :=
  canonG_false' t v

theorem canonG_true (t : Ty) (v : Val) : canonG true t v = X690.canonV t v :=
  canonG_true' t v

theorem defaultsOkG_false (t : Ty) : defaultsOkG false t = t.defaultsOk :=
  defaultsOkG_false' t

theorem defaultsOkG_true (t : Ty) : defaultsOkG true t = X690.defaultsOkV t :=
  defaultsOkG_true' t

/-! ### `Extends` gives `Compat` in both directions -/

theorem compat_of_extends {t1 t2 : Ty} (h : Extends t1 t2) : Compat t1 t2 :=
  (compat_aux t1 t2 h).1

theorem compat_of_extends_rev {t1 t2 : Ty} (h : Extends t1 t2) : Compat t2 t1 :=
  (compat_aux t1 t2 h).2

/-! ### side conditions of version 2 hold for version 1 -/

theorem wf_of_extends {t1 t2 : Ty} (h : Extends t1 t2) (hwf : t2.wf = true) : t1.wf = true :=
  wf_aux t1 t2 h hwf

theorem oerWf_of_extends {t1 t2 : Ty} (h : Extends t1 t2) (hwf : Oer.oerWf t2 = true) :
    Oer.oerWf t1 = true :=
  oerWf_aux t1 t2 h hwf

/-- a version-1 value is a version-2 value -/
theorem hasType_of_extends {t1 t2 : Ty} (h : Extends t1 t2) (hwf : t2.wf = true) (v : Val)
    (ht : hasType t1 v = true) : hasType t2 v = true :=
  have _ := hwf
  hasType_aux t1 t2 h v ht

/-! ### `view` in terms of `project` and `canon` -/

/-- forward: what V1 sees of a V2 value is the canonical form of its projection -/
theorem view_project (fa : Bool) {t1 t2 : Ty} (h : Extends t1 t2) (hwf : t1.wf = true) (v : Val) :
    view fa t1 t2 v = canonG fa t1 (project t1 t2 v) :=
  view_project_aux fa t1 t2 h hwf v

/-- on version-1 values both views are the canonical form -/
theorem view_same (fa : Bool) {t1 t2 : Ty} (h : Extends t1 t2) (hwf : t2.wf = true) (v : Val)
    (ht : hasType t1 v = true) :
    view fa t1 t2 v = canonG fa t1 v ∧ view fa t2 t1 v = canonG fa t2 v :=
  view_same_aux fa t1 t2 h hwf v ht

theorem dOk_fwd (fa : Bool) {t1 t2 : Ty} (h : Extends t1 t2) (hwf : t2.wf = true)
    (hd : defaultsOkG fa t1 = true) : dOk fa t1 t2 :=
  (dOk_aux fa t1 t2 h hwf hd).1

theorem dOk_bwd (fa : Bool) {t1 t2 : Ty} (h : Extends t1 t2) (hwf : t2.wf = true)
    (hd1 : defaultsOkG fa t1 = true) (hd2 : defaultsOkG fa t2 = true) : dOk fa t2 t1 :=
  (dOk_aux fa t1 t2 h hwf hd1).2 hd2

/-! ### the checker decides the relation -/

theorem extendsB_iff (t1 t2 : Ty) : extendsB t1 t2 = true ↔ Extends t1 t2 :=
  extendsB_iff_aux t1 t2

end Asn1.Ext
