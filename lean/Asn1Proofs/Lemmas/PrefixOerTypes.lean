import Asn1Proofs.Lemmas.PrefixOer
/-
  Prefix determinism of `Oer.dec` for every type of the universe.
-/
set_option linter.unusedSimpArgs false
set_option linter.unusedVariables false
namespace Asn1.Oer
open Asn1.Uper (Err utf8Enc utf8Dec alphabetOf sortByVal)

/-- prefix determinism of the decoder of `t` -/
def PT (t : Ty) : Prop := PF (dec t) (dec t)

theorem pt_boolean : PT .boolean := by
  intro q x a r h
  rw [dec] at h ⊢
  refine pf_bind pf_readByte h ?_
  intro b r1 _
  pfo_ok

theorem pt_null : PT .null := by
  intro q x a r h
  rw [dec] at h ⊢
  revert h; pfo_ok

theorem pt_integer (c : IntC) : PT (.integer c) := by
  intro q x a r h
  rw [dec] at h ⊢
  revert h
  split
  · intro h
    refine pf_bind (pf_readBytes _) h ?_
    intro ds r1 _
    pfo_ok
  · split
    · intro h
      refine pf_bind pf_decSigned h ?_
      intro i r1 _
      pfo_ok
    · intro h
      refine pf_bind pf_decUnsigned h ?_
      intro i r1 _
      pfo_ok

theorem pt_enumerated (root : List (String × Int)) (ext : Option (List (String × Int))) :
    PT (.enumerated root ext) := by
  intro q x a r h
  rw [dec] at h ⊢
  cases q with
  | nil => exact res_err
  | cons b t =>
    simp only [List.cons_append, readByte, List.drop_succ_cons, List.drop_zero] at h ⊢
    change ((if b ≥ 128 then decSigned (((b - 128) :: t) ++ x)
        else (do let (y, r) ← readByte ((b :: t) ++ x); .ok ((y : Int), r))) >>= _) = _ at h
    change Res x a r ((if b ≥ 128 then decSigned ((b - 128) :: t)
        else (do let (y, r) ← readByte (b :: t); .ok ((y : Int), r))) >>= _)
    have hv : PF (fun bs => if b ≥ 128 then decSigned ((b - 128) :: bs)
          else (do let (y, r) ← readByte (b :: bs); .ok ((y : Int), r)))
        (fun bs => if b ≥ 128 then decSigned ((b - 128) :: bs)
          else (do let (y, r) ← readByte (b :: bs); .ok ((y : Int), r))) := by
      intro q x a r h
      dsimp only at h ⊢
      revert h
      split
      · intro h; exact pf_decSigned ((b - 128) :: q) x a r h
      · intro h
        simp only [readByte] at h ⊢
        revert h; pfo_ok
    refine pf_bind hv h ?_
    intro v r1 _ h
    dsimp only at h ⊢
    revert h
    split
    · pfo_ok
    · split
      · pfo_ok
      · intro h; cases h

theorem pf_optLen (o : Option Nat) :
    PF (fun bs => match o with | some n => .ok (n, bs) | none => readLenDet bs)
      (fun bs => match o with | some n => .ok (n, bs) | none => readLenDet bs) := by
  intro q x a r h
  cases o with
  | some n => dsimp only at h ⊢; revert h; pfo_ok
  | none => exact pf_readLenDet q x a r h

theorem pt_octetString (c : SizeC) : PT (.octetString c) := by
  intro q x a r h
  rw [dec] at h ⊢
  refine pf_bind (pf_optLen (fixedSize c)) h ?_
  intro n r1 _ h
  dsimp only at h ⊢
  refine pf_bind (pf_readBytes _) h ?_
  intro body r2 _
  pfo_ok

theorem pt_bitString (c : SizeC) : PT (.bitString c) := by
  intro q x a r h
  rw [dec] at h ⊢
  revert h
  split
  · intro h
    refine pf_bind (pf_readBytes _) h ?_
    intro body r1 _
    pfo_ok
  · intro h
    refine pf_bind pf_readLenDet h ?_
    intro len r1 _ h
    dsimp only at h ⊢
    refine pf_bind pf_readByte h ?_
    intro unused r2 _ h
    dsimp only at h ⊢
    revert h
    split
    · intro h; cases h
    · intro h
      refine pf_bind (pf_readBytes _) h ?_
      intro body r3 _
      pfo_ok

theorem pt_charString (k : StrKind) (c : SizeC) : PT (.charString k c) := by
  intro q x a r h
  rw [dec] at h ⊢
  refine pf_bind (pf_optLen (fixedSize c)) h ?_
  intro n r1 _ h
  dsimp only at h ⊢
  refine pf_bind (pf_readBytes _) h ?_
  intro body r2 _ h
  dsimp only at h ⊢
  cases hc : decodeStr k body with
  | error e => rw [hc] at h; cases h
  | ok cps =>
    rw [hc] at h
    revert h
    pfo_ok

theorem pt_sequenceOf (e : Ty) (c : SizeC) (ih : PT e) : PT (.sequenceOf e c) := by
  intro q x a r h
  rw [dec] at h ⊢
  refine pf_bind pf_decUnsigned h ?_
  intro n r1 _ h
  dsimp only at h ⊢
  refine pf_bind (pf_decRepeat ih n) h ?_
  intro xs r2 _
  pfo_ok

theorem pf_decMembers (ms : Members) : ms.All PT → ∀ flags,
    PF (decMembers ms flags) (decMembers ms flags) := by
  induction ms using Members.ind with
  | nil =>
    intro _ flags q x a r h
    rw [decMembers] at h ⊢
    revert h; pfo_ok
  | cons name p t rest ih =>
    intro hall flags q x a r h
    obtain ⟨ht, hrest⟩ := hall
    have hpresent : ∀ fl, (do
          let (v, r) ← dec t (q ++ x)
          let (fs, r') ← decMembers rest fl r
          .ok ((name, v) :: fs, r') : DecM (List (String × Val) × Bytes)) = .ok (a, r) →
        Res x a r (do
          let (v, r) ← dec t q
          let (fs, r') ← decMembers rest fl r
          .ok ((name, v) :: fs, r') : DecM (List (String × Val) × Bytes)) := by
      intro fl h
      refine pf_bind ht h ?_
      intro v r1 _ h
      dsimp only at h ⊢
      refine pf_bind (ih hrest fl) h ?_
      intro fs r2 _
      pfo_ok
    cases p with
    | mandatory =>
      rw [decMembers] at h ⊢
      exact hpresent flags h
    | optional =>
      rw [decMembers.eq_def] at h ⊢
      dsimp only at h ⊢
      revert h
      split
      · intro h; exact hpresent _ h
      · intro h; exact ih hrest _ q x a r h
      · intro h; cases h
    | default d =>
      rw [decMembers.eq_def] at h ⊢
      dsimp only at h ⊢
      revert h
      split
      · intro h; exact hpresent _ h
      · intro h
        refine pf_bind (ih hrest _) h ?_
        intro fs r1 _
        pfo_ok
      · intro h; cases h

theorem pf_decAdditions (ms : Members) : ms.All PT → ∀ bitmap,
    PF (decAdditions ms bitmap) (decAdditions ms bitmap) := by
  induction ms using Members.ind with
  | nil =>
    intro _ bitmap q x a r h
    rw [decAdditions] at h ⊢
    refine res_bindU (fun r1 h1 => pf_skipUnknown bitmap q x r1 h1) h ?_
    intro r1
    pfo_ok
  | cons name p t rest ih =>
    intro hall bitmap q x a r h
    obtain ⟨ht, hrest⟩ := hall
    cases bitmap with
    | nil => rw [decAdditions] at h ⊢; revert h; pfo_ok
    | cons present bitmap =>
      rw [decAdditions.eq_def] at h ⊢
      dsimp only at h ⊢
      revert h
      split
      · intro h
        refine pf_bind pf_readLenDet h ?_
        intro len r1 _ h
        dsimp only at h ⊢
        refine pf_bind ht h ?_
        intro v r2 _ h
        dsimp only at h ⊢
        refine pf_bind (ih hrest bitmap) h ?_
        intro fs r4 _
        pfo_ok
      · intro h; exact ih hrest bitmap q x a r h

theorem pt_sequence (root : Members) (ext : Bool) (adds : Members)
    (ihr : root.All PT) (iha : adds.All PT) : PT (.sequence root ext adds) := by
  intro q x a r h
  rw [dec] at h ⊢
  dsimp only at h ⊢
  refine pf_bind (pf_readBytes _) h ?_
  intro pre r0 _ h
  dsimp only at h ⊢
  refine pf_bind (pf_decMembers root ihr _) h ?_
  intro fields r1 _ h
  dsimp only at h ⊢
  generalize (ext && (List.take (optionalCount root + if ext = true then 1 else 0)
    (bytesToBits pre)).head?.getD false) = e at h ⊢
  cases e
  · simp only [Bool.false_eq_true, if_false] at h ⊢
    revert h; pfo_ok
  · simp only [if_true] at h ⊢
    refine pf_bind pf_readLenDet h ?_
    intro len r2 _ h
    dsimp only at h ⊢
    refine pf_bind pf_readByte h ?_
    intro unused r3 _ h
    dsimp only at h ⊢
    revert h
    split
    · intro h; cases h
    · intro h
      refine pf_bind (pf_readBytes _) h ?_
      intro bm r4 _ h
      dsimp only at h ⊢
      refine pf_bind (pf_decAdditions adds iha _) h ?_
      intro more r5 _
      pfo_ok

theorem pf_decAlt (as : Alts) : as.All PT → ∀ (tag : Bytes) (i : Nat) (q x : Bytes),
    (decAlt as tag i (q ++ x) = none ∧ decAlt as tag i q = none) ∨
    (∃ res res', decAlt as tag i (q ++ x) = some res ∧ decAlt as tag i q = some res' ∧
      ∀ a r, res = .ok (a, r) → Res x a r res') := by
  induction as using Alts.ind with
  | nil => intro _ tag i q x; exact .inl ⟨rfl, rfl⟩
  | cons n t rest ih =>
    intro hall tag i q x
    obtain ⟨ht, hrest⟩ := hall
    simp only [decAlt]
    split
    · refine .inr ⟨_, _, rfl, rfl, ?_⟩
      intro a r h
      refine pf_bind ht h ?_
      intro v r1 _
      pfo_ok
    · exact ih hrest tag (i + 1) q x

theorem pf_decAltAdd (as : Alts) : as.All PT → ∀ (tag : Bytes) (i : Nat) (q x : Bytes),
    (decAltAdd as tag i (q ++ x) = none ∧ decAltAdd as tag i q = none) ∨
    (∃ res res', decAltAdd as tag i (q ++ x) = some res ∧ decAltAdd as tag i q = some res' ∧
      ∀ a r, res = .ok (a, r) → Res x a r res') := by
  induction as using Alts.ind with
  | nil => intro _ tag i q x; exact .inl ⟨rfl, rfl⟩
  | cons n t rest ih =>
    intro hall tag i q x
    obtain ⟨ht, hrest⟩ := hall
    simp only [decAltAdd]
    split
    · refine .inr ⟨_, _, rfl, rfl, ?_⟩
      intro a r h
      refine pf_bind pf_readLenDet h ?_
      intro len r0 _ h
      dsimp only at h ⊢
      refine pf_bind ht h ?_
      intro v r1 _
      pfo_ok
    · exact ih hrest tag (i + 1) q x

theorem pt_choice (root : Alts) (ext : Bool) (adds : Alts)
    (ihr : root.All PT) (iha : adds.All PT) : PT (.choice root ext adds) := by
  intro q x a r h
  rw [dec] at h ⊢
  refine pf_bind pf_readTag h ?_
  intro tag r1 _ h
  dsimp only at h ⊢
  rcases pf_decAlt root ihr tag 0 r1 x with ⟨e1, e2⟩ | ⟨res, res', e1, e2, hres⟩
  · rw [e1] at h; rw [e2]
    dsimp only at h ⊢
    rcases pf_decAltAdd adds iha tag root.length r1 x with ⟨e3, e4⟩ | ⟨res, res', e3, e4, hres⟩
    · rw [e3] at h; rw [e4]
      dsimp only at h ⊢
      revert h
      split
      · intro h
        refine pf_bind pf_readLenDet h ?_
        intro len r2 _ h
        dsimp only at h ⊢
        refine pf_bind (pf_readBytes _) h ?_
        intro body r3 _
        pfo_ok
      · intro h; cases h
    · rw [e3] at h; rw [e4]
      dsimp only at h ⊢
      exact hres a r h
  · rw [e1] at h; rw [e2]
    dsimp only at h ⊢
    exact hres a r h

theorem pt_all (t : Ty) : PT t :=
  Ty.rec (motive_1 := PT) (motive_2 := Members.All PT) (motive_3 := Alts.All PT)
    pt_boolean pt_null pt_integer pt_enumerated pt_octetString pt_bitString pt_charString
    (fun root ext adds ihr iha => pt_sequence root ext adds ihr iha)
    (fun e c ih => pt_sequenceOf e c ih)
    (fun root ext adds ihr iha => pt_choice root ext adds ihr iha)
    trivial (fun _ _ _ _ iht ihr => ⟨iht, ihr⟩)
    trivial (fun _ _ _ iht ihr => ⟨iht, ihr⟩) t

/-- **prefix determinism of the OER decoder**: whenever the decoder accepts `q ++ x` leaving `r`,
then on `q` alone it either returns the same value leaving `r'` with `r = r' ++ x`, or it fails with
`decodeError` -/
theorem dec_prefix (t : Ty) (q x : Bytes) (a : Val) (r : Bytes) (h : dec t (q ++ x) = .ok (a, r)) :
    (∃ r', dec t q = .ok (a, r') ∧ r = r' ++ x) ∨ dec t q = .error .decodeError :=
  pt_all t q x a r h

end Asn1.Oer
