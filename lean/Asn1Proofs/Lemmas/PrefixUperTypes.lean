import Asn1Proofs.Lemmas.PrefixUper
/-
  Prefix determinism of `Uper.dec` for every type of the universe.
-/
set_option linter.unusedSimpArgs false
set_option linter.unusedVariables false
namespace Asn1.Uper

/-- prefix determinism of the decoder of `t`: the run on the prefix may use any fuel larger than
the length of the prefix -/
def PT (t : Ty) : Prop := ∀ (f f' N : Nat), N < f' → PF N (dec t f) (dec t f')

theorem pf_optBit (c : Bool) (N : Nat) :
    PF N (fun bs => if c = true then readBit bs else .ok (false, bs))
      (fun bs => if c = true then readBit bs else .ok (false, bs)) := by
  intro q x a r hN h
  dsimp only at h ⊢
  revert h
  split
  · intro h; exact pf_readBit N q x a r hN h
  · pf_ok

theorem pf_optLen (c : SizeC) (w N : Nat) :
    PF N (fun r0 => if some c.lo ≠ c.hi then do let (d, r) ← readNat w r0; .ok (c.lo + d, r) else .ok (c.lo, r0))
      (fun r0 => if some c.lo ≠ c.hi then do let (d, r) ← readNat w r0; .ok (c.lo + d, r) else .ok (c.lo, r0)) := by
  intro q x a r hN h
  dsimp only at h ⊢
  revert h
  split
  · intro h
    refine pf_bind (pf_readNat w N) hN h ?_
    intro d r1 hl _
    pf_ok
  · pf_ok

theorem pt_boolean : PT .boolean := by
  intro f f' N hf q x a r hN h
  rw [dec] at h ⊢
  refine pf_bind (pf_readBit N) hN h ?_
  intro b r1 hl _
  pf_ok

theorem pt_null : PT .null := by
  intro f f' N hf q x a r hN h
  rw [dec] at h ⊢
  revert h; pf_ok

theorem pt_integer (c : IntC) : PT (.integer c) := by
  intro f f' N hf q x a r hN h
  rw [dec] at h ⊢
  revert h
  split
  · dsimp only
    split
    · intro h
      refine pf_bind (pf_readBit N) hN h ?_
      intro b r1 hl _ h
      dsimp only at h ⊢
      revert h
      split
      · intro h
        refine pf_bind (pf_decUnconstrained N) (by omega) h ?_
        intro i r2 hl2 _
        pf_ok
      · intro h
        refine pf_bind (pf_readNat _ N) (by omega) h ?_
        intro i r2 hl2 _
        pf_ok
    · intro h
      refine pf_bind (pf_readNat _ N) hN h ?_
      intro i r2 hl2 _
      pf_ok
  · split
    · intro h
      refine pf_bind (pf_readBit N) hN h ?_
      intro b r1 hl _ h
      dsimp only at h ⊢
      refine pf_bind (pf_decUnconstrained N) (by omega) h ?_
      intro i r2 hl2 _
      pf_ok
    · intro h
      refine pf_bind (pf_decUnconstrained N) hN h ?_
      intro i r2 hl2 _
      pf_ok

theorem pt_enumerated (root : List (String × Int)) (ext : Option (List (String × Int))) :
    PT (.enumerated root ext) := by
  intro f f' N hf q x a r hN h
  have hroot : ∀ (q x : Bits) (a : Val) (r : Bits), q.length ≤ N →
      (do
        let (i, r) ← readNat (bitLength ((sortByVal root).length - 1)) (q ++ x)
        match (sortByVal root)[i]? with
        | some (n, _) => .ok (.enum n, r)
        | none => .error .decodeError : DecM (Val × Bits)) = .ok (a, r) →
      Res x a r q.length (do
        let (i, r) ← readNat (bitLength ((sortByVal root).length - 1)) q
        match (sortByVal root)[i]? with
        | some (n, _) => .ok (.enum n, r)
        | none => .error .decodeError : DecM (Val × Bits)) := by
    intro q x a r hN h
    refine pf_bind (pf_readNat _ N) hN h ?_
    intro i r1 hl _ h
    dsimp only at h ⊢
    revert h
    split
    · pf_ok
    · intro h; cases h
  cases ext with
  | none =>
    rw [dec] at h ⊢
    dsimp only at h ⊢
    exact hroot q x a r hN h
  | some adds =>
    rw [dec] at h ⊢
    dsimp only at h ⊢
    refine pf_bind (pf_readBit N) hN h ?_
    intro b r1 hl _ h
    dsimp only at h ⊢
    revert h
    split
    · intro h; exact hroot r1 x a r (by omega) h
    · intro h
      refine pf_bind (pf_decNsnnwn N) (by omega) h ?_
      intro i r2 hl2 _ h
      dsimp only at h ⊢
      revert h
      split <;> pf_ok

theorem pt_octetString (c : SizeC) : PT (.octetString c) := by
  intro f f' N hf q x a r hN h
  rw [dec] at h ⊢
  refine pf_bind (pf_optBit c.ext N) hN h ?_
  intro ext r0 hl0 _ h
  dsimp only at h ⊢
  revert h
  split
  · intro h
    refine pf_bind (pf_readLenDet N) (by omega) h ?_
    intro len r1 hl1 _ h
    dsimp only at h ⊢
    refine pf_bind (pf_readBits _ N) (by omega) h ?_
    intro body r2 hl2 _
    pf_ok
  · split
    · intro h
      refine pf_bind (pf_decChunks f f' N (pf_readNat 8 N) hf) (by omega) h ?_
      intro xs r1 hl1 _
      pf_ok
    · intro h
      refine pf_bind (pf_optLen c _ N) (by omega) h ?_
      intro len r1 hl1 _ h
      dsimp only at h ⊢
      refine pf_bind (pf_readBits _ N) (by omega) h ?_
      intro body r2 hl2 _
      pf_ok

theorem pt_bitString (c : SizeC) : PT (.bitString c) := by
  intro f f' N hf q x a r hN h
  rw [dec] at h ⊢
  refine pf_bind (pf_optBit c.ext N) hN h ?_
  intro ext r0 hl0 _ h
  dsimp only at h ⊢
  revert h
  split
  · intro h; cases h
  · split
    · intro h
      refine pf_bind (pf_decChunks f f' N (pf_readBit N) hf) (by omega) h ?_
      intro xs r1 hl1 _
      pf_ok
    · intro h
      refine pf_bind (pf_optLen c _ N) (by omega) h ?_
      intro len r1 hl1 _ h
      dsimp only at h ⊢
      refine pf_bind (pf_readBits _ N) (by omega) h ?_
      intro body r2 hl2 _
      pf_ok

theorem pt_utf8 (c : SizeC) : PT (.charString .utf8 c) := by
  intro f f' N hf q x a r hN h
  rw [dec] at h ⊢
  refine pf_bind (pf_decChunks f f' N (pf_readNat 8 N) hf) hN h ?_
  intro xs r1 hl1 _ h
  dsimp only at h ⊢
  revert h
  split
  · pf_ok
  · intro h; cases h

theorem pf_one (k : StrKind) (N : Nat) :
    PF N (fun b => do let (v, r) ← readNat (bitsPerChar k) b; let ch ← charDecode k v; .ok (ch, r))
      (fun b => do let (v, r) ← readNat (bitsPerChar k) b; let ch ← charDecode k v; .ok (ch, r)) := by
  intro q x a r hN h
  dsimp only at h ⊢
  refine pf_bind (pf_readNat _ N) hN h ?_
  intro v r1 hl _ h
  dsimp only at h ⊢
  cases hc : charDecode k v with
  | error e => rw [hc] at h; cases h
  | ok ch =>
    rw [hc] at h
    revert h
    pf_ok

theorem pt_charString (k : StrKind) (hk : k ≠ .utf8) (c : SizeC) : PT (.charString k c) := by
  intro f f' N hf q x a r hN h
  rw [dec] at h ⊢
  · refine pf_bind (pf_optBit c.ext N) hN h ?_
    intro ext r0 hl0 _ h
    dsimp only at h ⊢
    revert h
    split
    · intro h; cases h
    · split
      · intro h
        refine pf_bind (pf_decChunks f f' N (pf_one k N) hf) (by omega) h ?_
        intro xs r1 hl1 _
        pf_ok
      · intro h
        refine pf_bind (pf_optLen c _ N) (by omega) h ?_
        intro len r1 hl1 _ h
        dsimp only at h ⊢
        refine pf_bind (pf_decRepeat (pf_one k N) len) (by omega) h ?_
        intro body r2 hl2 _
        pf_ok
  all_goals (first | exact hk | (intro c' heq; cases heq; exact hk rfl))

/-! ### composite types -/

theorem pt_sequenceOf (e : Ty) (c : SizeC) (ih : PT e) : PT (.sequenceOf e c) := by
  intro f f' N hf q x a r hN h
  rw [dec] at h ⊢
  refine pf_bind (pf_optBit c.ext N) hN h ?_
  intro ext r0 hl0 _ h
  dsimp only at h ⊢
  revert h
  split
  · intro h
    refine pf_bind (pf_readLenDet N) (by omega) h ?_
    intro len r1 hl1 _ h
    dsimp only at h ⊢
    refine pf_bind (pf_decRepeat (ih f f' N hf) len) (by omega) h ?_
    intro xs r2 hl2 _
    pf_ok
  · split
    · intro h
      refine pf_bind (pf_decChunks f f' N (ih f f' N hf) hf) (by omega) h ?_
      intro xs r1 hl1 _
      pf_ok
    · intro h
      refine pf_bind (pf_optLen c _ N) (by omega) h ?_
      intro len r1 hl1 _ h
      dsimp only at h ⊢
      refine pf_bind (pf_decRepeat (ih f f' N hf) len) (by omega) h ?_
      intro xs r2 hl2 _
      pf_ok

theorem pf_decMembers (ms : Members) : ms.All PT → ∀ (f f' N : Nat), N < f' → ∀ flags,
    PF N (decMembers ms f flags) (decMembers ms f' flags) := by
  induction ms using Members.ind with
  | nil =>
    intro _ f f' N hf flags q x a r hN h
    rw [decMembers] at h ⊢
    revert h; pf_ok
  | cons name p t rest ih =>
    intro hall f f' N hf flags q x a r hN h
    obtain ⟨ht, hrest⟩ := hall
    have hpresent : ∀ fl, (do
          let (v, r) ← dec t f (q ++ x)
          let (fs, r') ← decMembers rest f fl r
          .ok ((name, v) :: fs, r') : DecM (List (String × Val) × Bits)) = .ok (a, r) →
        Res x a r q.length (do
          let (v, r) ← dec t f' q
          let (fs, r') ← decMembers rest f' fl r
          .ok ((name, v) :: fs, r') : DecM (List (String × Val) × Bits)) := by
      intro fl h
      refine pf_bind (ht f f' N hf) hN h ?_
      intro v r1 hl _ h
      dsimp only at h ⊢
      refine pf_bind (ih hrest f f' N hf fl) (by omega) h ?_
      intro fs r2 hl2 _
      pf_ok
    cases p with
    | mandatory =>
      rw [decMembers] at h ⊢
      exact hpresent flags h
    | optional =>
      rw [decMembers.eq_def] at h ⊢
      dsimp only at h ⊢
      revert h
      split
      · intro h; exact hpresent _ h
      · intro h; exact ih hrest f f' N hf _ q x a r hN h
      · intro h; cases h
    | default d =>
      rw [decMembers.eq_def] at h ⊢
      dsimp only at h ⊢
      revert h
      split
      · intro h; exact hpresent _ h
      · intro h
        refine pf_bind (ih hrest f f' N hf _) hN h ?_
        intro fs r1 hl _
        pf_ok
      · intro h; cases h

theorem pf_decAdditions (ms : Members) : ms.All PT → ∀ (f f' N : Nat), N < f' → ∀ bitmap,
    PF N (decAdditions ms f bitmap) (decAdditions ms f' bitmap) := by
  induction ms using Members.ind with
  | nil =>
    intro _ f f' N hf bitmap q x a r hN h
    rw [decAdditions] at h ⊢
    refine res_bindU (fun r1 h1 => pf_skipUnknown N bitmap q x r1 hN h1) h ?_
    intro r1 hl
    pf_ok
  | cons name p t rest ih =>
    intro hall f f' N hf bitmap q x a r hN h
    obtain ⟨ht, hrest⟩ := hall
    cases bitmap with
    | nil => rw [decAdditions] at h ⊢; revert h; pf_ok
    | cons present bitmap =>
      rw [decAdditions.eq_def] at h ⊢
      dsimp only at h ⊢
      revert h
      split
      · intro h
        refine pf_bind (pf_readLenDet N) hN h ?_
        intro len r1 hl1 _ h
        dsimp only at h ⊢
        refine pf_bind (ht f f' N hf) (by omega) h ?_
        intro v r2 hl2 _ h
        dsimp only at h ⊢
        refine res_bindU (fun r3 h3 => pf_skipPad _ _ r2 x r3
          (by simp only [List.length_append]; omega) h3) h ?_
        intro r3 hl3 h
        refine pf_bind (ih hrest f f' N hf bitmap) (by omega) h ?_
        intro fs r4 hl4 _
        pf_ok
      · intro h; exact ih hrest f f' N hf bitmap q x a r hN h

theorem pt_sequence (root : Members) (ext : Bool) (adds : Members)
    (ihr : root.All PT) (iha : adds.All PT) : PT (.sequence root ext adds) := by
  intro f f' N hf q x a r hN h
  rw [dec] at h ⊢
  refine pf_bind (pf_optBit ext N) hN h ?_
  intro e r0 hl0 _ h
  dsimp only at h ⊢
  refine pf_bind (pf_readBits _ N) (by omega) h ?_
  intro flags r1 hl1 _ h
  dsimp only at h ⊢
  refine pf_bind (pf_decMembers root ihr f f' N hf flags) (by omega) h ?_
  intro fields r2 hl2 _ h
  dsimp only at h ⊢
  revert h
  split
  · intro h
    refine pf_bind (pf_decNsLength N) (by omega) h ?_
    intro n r3 hl3 _ h
    dsimp only at h ⊢
    refine pf_bind (pf_readBits _ N) (by omega) h ?_
    intro bitmap r4 hl4 _ h
    dsimp only at h ⊢
    refine pf_bind (pf_decAdditions adds iha f f' N hf bitmap) (by omega) h ?_
    intro more r5 hl5 _
    pf_ok
  · pf_ok

theorem pf_decAlt (as : Alts) : as.All PT → ∀ (f f' N i : Nat), N < f' → ∀ (q x : Bits), q.length ≤ N →
    (decAlt as f i (q ++ x) = none ∧ decAlt as f' i q = none) ∨
    (∃ res res', decAlt as f i (q ++ x) = some res ∧ decAlt as f' i q = some res' ∧
      ∀ a r, res = .ok (a, r) → Res x a r q.length res') := by
  induction as using Alts.ind with
  | nil => intro _ f f' N i hf q x hN; exact .inl ⟨rfl, rfl⟩
  | cons n t rest ih =>
    intro hall f f' N i hf q x hN
    obtain ⟨ht, hrest⟩ := hall
    cases i with
    | zero =>
      refine .inr ⟨_, _, rfl, rfl, ?_⟩
      intro a r h
      refine pf_bind (ht f f' N hf) hN h ?_
      intro v r1 hl _
      pf_ok
    | succ i =>
      simp only [decAlt]
      exact ih hrest f f' N i hf q x hN

theorem pt_choice (root : Alts) (ext : Bool) (adds : Alts)
    (ihr : root.All PT) (iha : adds.All PT) : PT (.choice root ext adds) := by
  intro f f' N hf q x a r hN h
  rw [dec] at h ⊢
  refine pf_bind (pf_optBit ext N) hN h ?_
  intro e r0 hl0 _ h
  dsimp only at h ⊢
  revert h
  split
  · intro h
    refine pf_bind (pf_decNsnnwn N) (by omega) h ?_
    intro idx r1 hl1 _ h
    dsimp only at h ⊢
    refine pf_bind (pf_readLenDet N) (by omega) h ?_
    intro len r2 hl2 _ h
    dsimp only at h ⊢
    rcases pf_decAlt adds iha f f' N idx hf r2 x (by omega) with ⟨e1, e2⟩ | ⟨res, res', e1, e2, hres⟩
    · rw [e1] at h; rw [e2]
      dsimp only at h ⊢
      refine pf_bind (pf_readBits _ N) (by omega) h ?_
      intro body r3 hl3 _
      pf_ok
    · rw [e1] at h; rw [e2]
      dsimp only at h ⊢
      refine res_bind hres h ?_
      intro v r3 hl3 _ h
      dsimp only at h ⊢
      have hc : (r2 ++ x).length - (r3 ++ x).length = r2.length - r3.length := by
        simp only [List.length_append]; omega
      rw [hc] at h
      revert h
      split
      · intro h; cases h
      · intro h
        refine pf_bind (pf_readBits _ N) (by omega) h ?_
        intro body r4 hl4 _
        pf_ok
  · intro h
    have hidx : PF N (fun r0 => if root.length > 1 then readNat (bitLength (root.length - 1)) r0 else .ok (0, r0))
        (fun r0 => if root.length > 1 then readNat (bitLength (root.length - 1)) r0 else .ok (0, r0)) := by
      intro q x a r hN h
      dsimp only at h ⊢
      revert h
      split
      · intro h; exact pf_readNat _ N q x a r hN h
      · pf_ok
    refine pf_bind hidx (by omega) h ?_
    intro idx r1 hl1 _ h
    dsimp only at h ⊢
    rcases pf_decAlt root ihr f f' N idx hf r1 x (by omega) with ⟨e1, e2⟩ | ⟨res, res', e1, e2, hres⟩
    · rw [e1] at h; cases h
    · rw [e1] at h; rw [e2]
      dsimp only at h ⊢
      exact hres a r h

theorem pt_all (t : Ty) : PT t :=
  Ty.rec (motive_1 := PT) (motive_2 := Members.All PT) (motive_3 := Alts.All PT)
    pt_boolean pt_null pt_integer pt_enumerated pt_octetString pt_bitString
    (fun k c => by
      by_cases hk : k = .utf8
      · subst hk; exact pt_utf8 c
      · exact pt_charString k hk c)
    (fun root ext adds ihr iha => pt_sequence root ext adds ihr iha)
    (fun e c ih => pt_sequenceOf e c ih)
    (fun root ext adds ihr iha => pt_choice root ext adds ihr iha)
    trivial (fun _ _ _ _ iht ihr => ⟨iht, ihr⟩)
    trivial (fun _ _ _ iht ihr => ⟨iht, ihr⟩) t

/-- **prefix determinism of the UPER decoder**: whenever the decoder accepts `q ++ x` leaving `r`,
then on `q` alone it either returns the same value leaving `r'` with `r = r' ++ x`, or it fails with
`decodeError` -/
theorem dec_prefix (t : Ty) (f f' : Nat) (q x : Bits) (a : Val) (r : Bits) (hf : q.length < f')
    (h : dec t f (q ++ x) = .ok (a, r)) :
    (∃ r', dec t f' q = .ok (a, r') ∧ r = r' ++ x) ∨ dec t f' q = .error .decodeError := by
  rcases pt_all t f f' q.length hf q x a r (Nat.le_refl _) h with ⟨r', h1, h2, _⟩ | h1
  · exact .inl ⟨r', h1, h2⟩
  · exact .inr h1

end Asn1.Uper
