import Asn1Proofs.Lemmas.PrefixDer
set_option linter.unusedSimpArgs false
set_option linter.unusedVariables false
namespace Asn1.Der
open Asn1.Uper (Err)
open Asn1.Oer (splitAux readBytes)

/-- a decoder that starts with `matchTag tag` and then `readLen` fails on a strict prefix of a TLV -/
theorem matchTag_readLen_short (tag content q : Bytes) (h : SPre q (tlv tag content)) :
    matchTag tag q = .error .decodeError ∨
      ∃ q', matchTag tag q = .ok (some q') ∧ ∀ d, readLen d q' = .error .decodeError := by
  rw [tlv_eq] at h
  rcases matchTag_short tag _ q h with h1 | ⟨q', _, h1, h2⟩
  · exact .inl h1
  · exact .inr ⟨q', h1, fun d => readLen_short d content q' h2⟩

/-- every decoder of a tagged type rejects a strict prefix of a TLV carrying its tag -/
theorem dec_short (t : Ty) (tg : Option Nat) (fuel : Nat) (q content : Bytes)
    (hne : tg.isSome = true ∨ ∀ r e a, t ≠ .choice r e a)
    (h : SPre q (tlv (tagOf t tg) content)) : dec t tg fuel q = .error .decodeError := by
  cases t with
  | boolean =>
    have := readPrim_short (mkTag 1 false tg) content q h
    rw [dec, this]; rfl
  | null =>
    rcases matchTag_readLen_short (mkTag 5 false tg) content q h with h1 | ⟨q', h1, h2⟩
    · rw [dec]; dsimp only; rw [h1]; rfl
    · rw [dec]; dsimp only; rw [h1]; simp only [bind, Except.bind, h2]
  | integer c =>
    have := readPrim_short (mkTag 2 false tg) content q h
    rw [dec, this]; rfl
  | enumerated root ext =>
    have := readPrim_short (mkTag 10 false tg) content q h
    rw [dec, this]; rfl
  | octetString c =>
    have := readPrim_short (mkTag 4 false tg) content q h
    rw [dec, this]; rfl
  | bitString c =>
    have := readPrim_short (mkTag 3 false tg) content q h
    rw [dec, this]; rfl
  | charString k c =>
    have := readPrim_short (tagOf (.charString k c) tg) content q h
    rw [dec, this]; rfl
  | sequence root ext adds =>
    rcases matchTag_readLen_short (mkTag 16 true tg) content q h with h1 | ⟨q', h1, h2⟩
    · rw [dec]; dsimp only; rw [h1]; rfl
    · rw [dec]; dsimp only; rw [h1]; simp only [bind, Except.bind, h2]
  | sequenceOf e c =>
    rcases matchTag_readLen_short (mkTag 16 true tg) content q h with h1 | ⟨q', h1, h2⟩
    · rw [dec]; dsimp only; rw [h1]; rfl
    · rw [dec]; dsimp only; rw [h1]; simp only [bind, Except.bind, h2]
  | choice root ext adds =>
    cases tg with
    | none =>
      rcases hne with hne | hne
      · cases hne
      · exact absurd rfl (hne root ext adds)
    | some i =>
      rcases matchTag_readLen_short (mkTag 0 true (some i)) content q h with h1 | ⟨q', h1, h2⟩
      · rw [dec]; dsimp only; rw [h1]; rfl
      · rw [dec]; dsimp only; rw [h1]; simp only [bind, Except.bind, h2]

/-! ### shape of the encoder's output -/

theorem encLength_zero : Ber.encLength 0 = [0] := rfl

/-- every encoding of a tagged type is a TLV carrying the type's tag -/
theorem enc_shape (t : Ty) (tg : Option Nat) (v : Val) (bytes : Bytes)
    (hne : tg.isSome = true ∨ ∀ r e a, t ≠ .choice r e a)
    (he : enc t tg v = .ok bytes) : ∃ content, bytes = tlv (tagOf t tg) content := by
  cases t with
  | boolean =>
    cases v <;> simp only [enc] at he <;> first | cases he | skip
    exact ⟨_, rfl⟩
  | null =>
    cases v <;> simp only [enc] at he <;> first | cases he | skip
    exact ⟨[], by simp [tlv, tagOf, univNumber, isConstructed, encLength_zero]⟩
  | integer c =>
    cases v <;> simp only [enc] at he <;> first | cases he | skip
    exact ⟨_, rfl⟩
  | enumerated root ext =>
    cases v <;> simp only [enc] at he <;> first | cases he | skip
    split at he
    · cases he
    · cases he; exact ⟨_, rfl⟩
  | octetString c =>
    cases v <;> simp only [enc] at he <;> first | cases he | skip
    exact ⟨_, rfl⟩
  | bitString c =>
    cases v <;> simp only [enc] at he <;> first | cases he | skip
    exact ⟨_, rfl⟩
  | charString k c =>
    cases v <;> simp only [enc] at he <;> first | cases he | skip
    split at he
    · cases he
    · cases he; exact ⟨_, rfl⟩
  | sequence root ext adds =>
    cases v <;> simp only [enc] at he <;> first | cases he | skip
    split at he
    · cases he
    · split at he
      · cases he
      · cases he; exact ⟨_, rfl⟩
  | sequenceOf e c =>
    cases v <;> simp only [enc] at he <;> first | cases he | skip
    split at he
    · cases he
    · cases he; exact ⟨_, rfl⟩
  | choice root ext adds =>
    cases tg with
    | none =>
      rcases hne with hne | hne
      · cases hne
      · exact absurd rfl (hne root ext adds)
    | some i =>
      cases v <;> simp only [enc] at he <;> first | cases he | skip
      split at he
      · cases he
      · cases he; exact ⟨_, rfl⟩

theorem encAlt_some (as : Alts) (i : Nat) (name : String) (v : Val) (r : EncM Bytes)
    (h : encAlt as i name v = some r) : ∃ j t, r = enc t (some j) v := by
  induction as using Alts.ind generalizing i with
  | nil => simp only [encAlt] at h; cases h
  | cons n t rest ih =>
    simp only [encAlt] at h
    split at h
    · cases h; exact ⟨i, t, rfl⟩
    · exact ih (i + 1) h

end Asn1.Der
