import Asn1Proofs.Lemmas.CostDer1
/-
  C08 for the DER / BER models, part 2: fuel.  The global fuel (threaded to the SEQUENCE OF loops)
  is irrelevant as soon as it exceeds the length of the input, and the fuel of the `while True` loop
  of `decode_members` (`retry`) is irrelevant as soon as it exceeds the number of members still
  undecoded.  Everything is generic in the decoder plugged into the shared SEQUENCE / CHOICE part.
-/
set_option linter.unusedSimpArgs false
set_option linter.unusedVariables false
namespace Asn1.Cost
open Asn1.Der
open Asn1.Uper (Err)
open Asn1.Oer (splitAux readBytes decodeStr)

/-- fuel independence of decoder `D` at type `t` -/
def FI (D : Decoder) (t : Ty) : Prop :=
  ∀ (tg : Option Nat) (f f' : Nat) (bs : Bytes), bs.length < f → bs.length < f' →
    D t tg f bs = D t tg f' bs

/-! ### the DER SEQUENCE OF loop -/

/-- two runs of the element loop agree when the element parsers agree on every input no longer than
the current one and both fuels exceed the distance to the end offset (every element reports
`k ≥ 1`) -/
theorem derElems_congr {K : Nat} {p p' : Bytes → DecM (Option Res)} (hp : CP K p) :
    ∀ (f f' toEnd : Nat) (bs : Bytes), (∀ b : Bytes, b.length ≤ bs.length → p b = p' b) →
      toEnd < f → toEnd < f' → derElems p f toEnd bs = derElems p' f' toEnd bs := by
  intro f
  induction f with
  | zero => intro f' toEnd bs _ h; omega
  | succ f ih =>
    intro f' toEnd bs hag h1 h2
    cases f' with
    | zero => omega
    | succ f' =>
      simp only [derElems]
      split
      · rfl
      · rw [← hag bs (Nat.le_refl _)]
        cases hpb : p bs with
        | error e => rfl
        | ok o =>
          cases o with
          | none => rfl
          | some x =>
            obtain ⟨v, k, r⟩ := x
            dsimp only
            obtain ⟨a1, a2, _⟩ := hp _ _ _ _ hpb
            rw [ih f' (toEnd - k) r (fun b hb => hag b (by omega)) (by omega) (by omega)]

/-! ### SEQUENCE: the global fuel -/

theorem gPass_fuel (D : Decoder) (ms : Members) (hc : Members.All (CT D) ms)
    (hf : Members.All (FI D) ms) (f f' : Nat) :
    ∀ (i : Nat) (slots : List (Option Val)) (st : MSt), st.cur.bs.length < f → st.cur.bs.length < f' →
      gPass D ms i f slots st = gPass D ms i f' slots st := by
  induction ms using Members.ind with
  | nil => intro i slots st _ _; rw [gPass, gPass]
  | cons name p t rest ih =>
    intro i slots st h1 h2
    obtain ⟨hct, hcr⟩ := hc
    obtain ⟨hft, hfr⟩ := hf
    have ih := ih hcr hfr
    simp only [gPass]
    rw [ih (i + 1) slots.tail st h1 h2, hft (some i) f f' st.cur.bs h1 h2]
    cases slots.headD none with
    | some v => rfl
    | none =>
      dsimp only
      split
      · rfl
      · cases hd : D t (some i) f' st.cur.bs with
        | error e => rfl
        | ok o =>
          cases o with
          | none => rfl
          | some x =>
            obtain ⟨v, k, r⟩ := x
            dsimp only
            obtain ⟨d1, _, _⟩ := hct (some i) f' _ _ _ _ hd
            cases he : isEnd (st.cur.advance k r) with
            | error e => rfl
            | ok y =>
              obtain ⟨ood, c⟩ := y
              dsimp only
              obtain ⟨e1, _⟩ := isEnd_spec he
              simp only [Cur.advance] at e1
              rw [ih (i + 1) slots.tail ⟨c, ood, true⟩ (by dsimp only; omega) (by dsimp only; omega)]

/-- two retry loops agree when their passes agree on every state whose input is no longer than the
current one (passes never lengthen the input) -/
theorem retry_congr {K : Nat} {pass pass' : List (Option Val) → MSt → DecM (List (Option Val) × MSt)}
    (hp : PassOK K pass) (n : Nat)
    (hag : ∀ slots (st : MSt), st.cur.bs.length ≤ n → pass slots st = pass' slots st) :
    ∀ (fuel : Nat) (slots : List (Option Val)) (c : Cur), c.bs.length ≤ n →
      retry pass fuel slots c = retry pass' fuel slots c := by
  intro fuel
  induction fuel with
  | zero => intro slots c _; rfl
  | succ fuel ih =>
    intro slots c hc
    simp only [retry]
    cases he : isEnd c with
    | error e => rfl
    | ok y =>
      obtain ⟨ood, c'⟩ := y
      dsimp only
      obtain ⟨e1, _⟩ := isEnd_spec he
      rw [← hag slots ⟨c', ood, false⟩ (by dsimp only; omega)]
      cases hpass : pass slots ⟨c', ood, false⟩ with
      | error e => rfl
      | ok z =>
        obtain ⟨slots', st⟩ := z
        dsimp only
        obtain ⟨p1, _, _⟩ := hp _ _ _ _ hpass
        dsimp only at p1
        rw [ih slots' st.cur (by omega)]

theorem gSeq_fuel (D : Decoder) (root adds : Members)
    (hcr : Members.All (CT D) root) (hca : Members.All (CT D) adds)
    (hfr : Members.All (FI D) root) (hfa : Members.All (FI D) adds)
    (tg : Option Nat) (f f' : Nat) (bs : Bytes) (h1 : bs.length < f) (h2 : bs.length < f') :
    gSeq D root adds tg f bs = gSeq D root adds tg f' bs := by
  unfold gSeq
  cases hm : matchTag (mkTag 16 true tg) bs with
  | error e => rfl
  | ok o =>
    cases o with
    | none => rfl
    | some r0 =>
      dsimp only
      have m1 := matchTag_len hm
      cases hl : readLen false r0 with
      | error e => rfl
      | ok x =>
        obtain ⟨len, h, r1⟩ := x
        dsimp only
        obtain ⟨_, l2, _, _⟩ := readLen_spec hl
        rw [retry_congr (gPass_cost D root hcr 0 f) r1.length
          (fun slots st hst => gPass_fuel D root hcr hfr f f' 0 slots st (by omega) (by omega))
          _ _ _ (Nat.le_refl _)]
        cases hret : retry (gPass D root 0 f') (root.length + 1) (List.replicate root.length none)
            ⟨r1, (mkTag 16 true tg).length + h, len⟩ with
        | error e => rfl
        | ok y =>
          obtain ⟨slots, c1, ood1⟩ := y
          dsimp only
          obtain ⟨q1, _, _⟩ := retry_cost (gPass_cost D root hcr 0 f') _ _ _ _ _ _ hret
          dsimp only at q1
          cases fill root slots false with
          | error e => rfl
          | ok fs =>
            dsimp only
            split
            · rfl
            · rw [retry_congr (gPass_cost D adds hca root.length f) c1.bs.length
                (fun slots st hst => gPass_fuel D adds hca hfa f f' root.length slots st (by omega) (by omega))
                _ _ _ (Nat.le_refl _)]

/-! ### CHOICE: the global fuel -/

theorem gAlt_fuel (D : Decoder) (test : Ty → Nat → Bytes → Bool) (as : Alts) (hf : Alts.All (FI D) as)
    (f f' : Nat) (bs : Bytes) (h1 : bs.length < f) (h2 : bs.length < f') :
    ∀ (i : Nat) (tag : Bytes), gAlt D test as i tag f bs = gAlt D test as i tag f' bs := by
  induction as using Alts.ind with
  | nil => intro i tag; rw [gAlt, gAlt]
  | cons n t rest ih =>
    intro i tag
    obtain ⟨hft, hfr⟩ := hf
    simp only [gAlt]
    rw [ih hfr (i + 1) tag, hft (some i) f f' bs h1 h2]

theorem gBare_fuel (D : Decoder) (test : Ty → Nat → Bytes → Bool) (root : Alts) (e : Bool) (adds : Alts)
    (hr : Alts.All (FI D) root) (ha : Alts.All (FI D) adds)
    (f f' : Nat) (bs : Bytes) (h1 : bs.length < f) (h2 : bs.length < f') :
    gBare D test root e adds f bs = gBare D test root e adds f' bs := by
  unfold gBare
  simp only [gAlt_fuel D test root hr f f' bs h1 h2, gAlt_fuel D test adds ha f f' bs h1 h2]

theorem gChoice_fuel (D : Decoder) (test : Ty → Nat → Bytes → Bool) (root : Alts) (e : Bool) (adds : Alts)
    (hr : Alts.All (FI D) root) (ha : Alts.All (FI D) adds) (tg : Option Nat)
    (f f' : Nat) (bs : Bytes) (h1 : bs.length < f) (h2 : bs.length < f') :
    gChoice D test root e adds tg f bs = gChoice D test root e adds tg f' bs := by
  unfold gChoice
  cases tg with
  | none => exact gBare_fuel D test root e adds hr ha f f' bs h1 h2
  | some j =>
    dsimp only
    cases hm : matchTag (mkTag 0 true (some j)) bs with
    | error e => rfl
    | ok o =>
      cases o with
      | none => rfl
      | some r0 =>
        dsimp only
        have m1 := matchTag_len hm
        cases hl : readLen false r0 with
        | error e => rfl
        | ok x =>
          obtain ⟨len, h, r1⟩ := x
          dsimp only
          obtain ⟨_, l2, _, _⟩ := readLen_spec hl
          rw [gBare_fuel D test root e adds hr ha f f' r1 (by omega) (by omega)]

/-! ### SEQUENCE: the fuel of the retry loop -/

/-- members still undecoded -/
def pending : List (Option Val) → Nat
  | [] => 0
  | none :: r => 1 + pending r
  | some _ :: r => pending r

theorem pending_replicate (n : Nat) : pending (List.replicate n none) = n := by
  induction n with
  | zero => rfl
  | succ n ih => simp only [List.replicate_succ, pending, ih]; omega

/-- a pass keeps the slots parallel to the members, and a pass that decodes something (sets
`decode_success`) leaves strictly fewer members undecoded -/
def PassPend (n : Nat) (pass : List (Option Val) → MSt → DecM (List (Option Val) × MSt)) : Prop :=
  ∀ slots st slots' st', slots.length = n → pass slots st = .ok (slots', st') →
    slots'.length = n ∧ pending slots' ≤ pending slots ∧
      (st.succ = false → st'.succ = true → pending slots' < pending slots)

theorem gPass_pending (D : Decoder) (ms : Members) :
    ∀ (i f : Nat), PassPend ms.length (gPass D ms i f) := by
  induction ms using Members.ind with
  | nil =>
    intro i f slots st slots' st' hl h
    rw [gPass] at h
    cases h
    cases slots with
    | nil => exact ⟨rfl, Nat.le_refl _, fun a b => by rw [a] at b; cases b⟩
    | cons _ _ => simp [Members.length] at hl
  | cons name p t rest ih =>
    intro i f slots st slots' st' hl h
    have ih := ih (i + 1) f
    cases slots with
    | nil => simp [Members.length] at hl
    | cons x xs =>
      have hl' : xs.length = rest.length := by
        simp only [List.length_cons, Members.length] at hl; omega
      rw [gPass] at h
      simp only [List.headD_cons, List.tail_cons] at h
      cases x with
      | some v =>
        dsimp only at h
        split at h
        · cases h
        · rename_i r st2 hrec
          cases h
          obtain ⟨a1, a2, a3⟩ := ih _ _ _ _ hl' hrec
          simp only [List.length_cons, Members.length, pending]
          exact ⟨by omega, a2, a3⟩
      | none =>
        dsimp only at h
        split at h
        · split at h
          · cases h
          · rename_i r st2 hrec
            cases h
            obtain ⟨a1, a2, a3⟩ := ih _ _ _ _ hl' hrec
            simp only [List.length_cons, Members.length, pending]
            exact ⟨by omega, by omega, fun x y => by have := a3 x y; omega⟩
        · split at h
          · cases h
          · split at h
            · cases h
            · rename_i r st2 hrec
              cases h
              obtain ⟨a1, a2, a3⟩ := ih _ _ _ _ hl' hrec
              simp only [List.length_cons, Members.length, pending]
              exact ⟨by omega, by omega, fun x y => by have := a3 x y; omega⟩
          · split at h
            · cases h
            · split at h
              · cases h
              · rename_i r st2 hrec
                cases h
                obtain ⟨a1, a2, a3⟩ := ih _ _ _ _ hl' hrec
                simp only [List.length_cons, Members.length, pending]
                exact ⟨by omega, by omega, fun _ _ => by omega⟩

/-- the retry loop gives the same answer for any two fuels exceeding the number of members still
undecoded -/
theorem retry_fuel {n : Nat} {pass : List (Option Val) → MSt → DecM (List (Option Val) × MSt)}
    (hp : PassPend n pass) :
    ∀ (fuel fuel' : Nat) (slots : List (Option Val)) (c : Cur), slots.length = n →
      pending slots < fuel → pending slots < fuel' →
      retry pass fuel slots c = retry pass fuel' slots c := by
  intro fuel
  induction fuel with
  | zero => intro fuel' slots c _ h; omega
  | succ fuel ih =>
    intro fuel' slots c hl h1 h2
    cases fuel' with
    | zero => omega
    | succ fuel' =>
      simp only [retry]
      cases he : isEnd c with
      | error e => rfl
      | ok y =>
        obtain ⟨ood, c'⟩ := y
        dsimp only
        cases hpass : pass slots ⟨c', ood, false⟩ with
        | error e => rfl
        | ok z =>
          obtain ⟨slots', st⟩ := z
          dsimp only
          obtain ⟨p1, p2, p3⟩ := hp _ _ _ _ hl hpass
          by_cases hc : (st.ood || !st.succ) = true
          · rw [if_pos hc, if_pos hc]
          · rw [if_neg hc, if_neg hc]
            have hs : st.succ = true := by
              cases hsu : st.succ with
              | true => rfl
              | false => rw [hsu] at hc; simp at hc
            have := p3 rfl hs
            exact ih fuel' slots' st.cur p1 (by omega) (by omega)

/-- `retry` started on all-`none` slots never runs out of its fuel `ms.length + 1` -/
theorem gPass_retry_fuel (D : Decoder) (ms : Members) (i f extra : Nat) (c : Cur) :
    retry (gPass D ms i f) (ms.length + 1 + extra) (List.replicate ms.length none) c
      = retry (gPass D ms i f) (ms.length + 1) (List.replicate ms.length none) c := by
  apply retry_fuel (gPass_pending D ms i f)
  · simp
  · rw [pending_replicate]; omega
  · rw [pending_replicate]; omega

end Asn1.Cost
