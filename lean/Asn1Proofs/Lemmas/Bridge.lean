import Asn1Proofs.Lemmas.BridgeFun
/-
  BRIDGE: the definitions of `Asn1Model/Translated.lean` — regenerated from /repo's Python source by
  harness/py2lean.py on every run — are equal, for ALL arguments of their domain, to the hand-written
  model functions the property theorems are stated about (part 1: `Asn1Proofs/Lemmas/BridgeFun.lean`,
  imported here; Python-primitive lemmas: `Asn1Proofs/Lemmas/PyPrimLemmas.lean`), and the translated
  `per.Encoder` class refines the bit-list abstraction (`absBits`) used by the UPER / PER models (this file).
  This is the top module: `import Asn1Proofs.Lemmas.Bridge` reaches every bridge theorem.
-/
namespace Asn1.Bridge
open Asn1 Asn1.Translated

/-! ### class per.Encoder: refinement of the bit-list abstraction -/

/-- representation invariant of the big-integer bit buffer -/
structure EncInv (s : per_EncoderS) : Prop where
  nb : 0 ≤ s.number_of_bits
  v0 : 0 ≤ s.value
  vlt : s.value < 2 ^ s.number_of_bits.toNat
  ch : ∀ c ∈ s.chunks, 0 ≤ c.2 ∧ 0 ≤ c.1 ∧ c.1 < 2 ^ c.2.toNat
  cnb : s.chunks_number_of_bits = (s.chunks.map (·.2)).sum

/-- the bits the buffer stands for: the flushed chunks, then the working integer -/
def absBits (s : per_EncoderS) : Bits :=
  s.chunks.flatMap (fun c => natToBits c.2.toNat c.1.toNat) ++ natToBits s.number_of_bits.toNat s.value.toNat

/-- `Encoder()` -/
def empty : per_EncoderS := { number_of_bits := 0, value := 0, chunks_number_of_bits := 0, chunks := [] }

theorem empty_inv : EncInv empty := by
  refine ⟨by decide, by decide, by decide, ?_, rfl⟩
  intro c hc; cases hc
theorem empty_abs : absBits empty = [] := rfl

theorem cast_two_pow (n : Nat) : ((2 ^ n : Nat) : Int) = (2 : Int) ^ n := by
  rw [Int.natCast_pow]; rfl

/-- Nat view of the working integer -/
theorem EncInv.view {s : per_EncoderS} (h : EncInv s) :
    ∃ nb val : Nat, s.number_of_bits = (nb : Int) ∧ s.value = (val : Int) ∧ val < 2 ^ nb := by
  obtain ⟨nb, hnb⟩ := Int.eq_ofNat_of_zero_le h.nb
  obtain ⟨val, hval⟩ := Int.eq_ofNat_of_zero_le h.v0
  refine ⟨nb, val, hnb, hval, ?_⟩
  have := h.vlt
  rw [hnb, hval, Int.toNat_natCast, ← cast_two_pow] at this
  exact Int.ofNat_lt.1 this

theorem natToBits_shift_add (a n x v : Nat) (hv : v < 2 ^ n) :
    natToBits (a + n) (x * 2 ^ n + v) = natToBits a x ++ natToBits n v := by
  rw [natToBits_add]
  have hp : 0 < 2 ^ n := Nat.two_pow_pos n
  have h1 : (x * 2 ^ n + v) / 2 ^ n = x := by
    rw [Nat.add_comm, Nat.add_mul_div_right _ _ hp, Nat.div_eq_of_lt hv, Nat.zero_add]
  have h2 : (x * 2 ^ n + v) % 2 ^ n = v := by
    rw [Nat.add_comm, Nat.add_mul_mod_self_right, Nat.mod_eq_of_lt hv]
  rw [h1, ← natToBits_mod n, h2]

theorem shift_add_lt {x a v n : Nat} (hx : x < 2 ^ a) (hv : v < 2 ^ n) : x * 2 ^ n + v < 2 ^ (a + n) := by
  have h1 : (x + 1) * 2 ^ n ≤ 2 ^ a * 2 ^ n := Nat.mul_le_mul_right _ (by omega)
  rw [Nat.add_mul, Nat.one_mul] at h1
  rw [Nat.pow_add]; omega

/-- the working integer shifted left by `n` with `v < 2^n` in the freed bits -/
theorem push_core (s : per_EncoderS) (h : EncInv s) (v n : Nat) (hv : v < 2 ^ n) (x : Int)
    (hx : x = s.value * 2 ^ n + (v : Int)) :
    EncInv { s with number_of_bits := s.number_of_bits + (n : Int), value := x } ∧
    absBits { s with number_of_bits := s.number_of_bits + (n : Int), value := x } = absBits s ++ natToBits n v := by
  obtain ⟨nb, val, hnb, hval, hlt⟩ := h.view
  have hx' : x = ((val * 2 ^ n + v : Nat) : Int) := by
    rw [hx, hval, Int.natCast_add, Int.natCast_mul, cast_two_pow]
  have hnb' : s.number_of_bits + (n : Int) = ((nb + n : Nat) : Int) := by rw [hnb, Int.natCast_add]
  constructor
  · refine ⟨?_, ?_, ?_, h.ch, h.cnb⟩
    · show 0 ≤ s.number_of_bits + (n : Int)
      omega
    · show 0 ≤ x
      omega
    · show x < 2 ^ (s.number_of_bits + (n : Int)).toNat
      rw [hnb', hx', Int.toNat_natCast, ← cast_two_pow]
      exact Int.ofNat_lt.2 (shift_add_lt hlt hv)
  · show _ ++ natToBits (s.number_of_bits + (n : Int)).toNat x.toNat = absBits s ++ _
    unfold absBits
    rw [hnb', hx', hnb, hval, Int.toNat_natCast, Int.toNat_natCast, Int.toNat_natCast, Int.toNat_natCast,
      natToBits_shift_add _ _ _ _ hv, List.append_assoc]

theorem bor_shl (a : Int) (ha : 0 ≤ a) (v n : Nat) (hv : v < 2 ^ n) :
    Py.bor (Py.shl a (n : Int)) (v : Int) = a * 2 ^ n + (v : Int) := by
  obtain ⟨m, rfl⟩ := Int.eq_ofNat_of_zero_le ha
  rw [Py.shl_natCast, Py.bor_natCast, Py.mul_pow_or _ hv, Int.natCast_add, Int.natCast_mul, cast_two_pow]

/-- `chunks.append([value, number_of_bits])` … -/
def flush (s : per_EncoderS) : per_EncoderS :=
  { s with chunks := s.chunks ++ [(s.value, s.number_of_bits)],
           chunks_number_of_bits := s.chunks_number_of_bits + s.number_of_bits,
           number_of_bits := 0, value := 0 }

theorem flush_refines (s : per_EncoderS) (h : EncInv s) : EncInv (flush s) ∧ absBits (flush s) = absBits s := by
  constructor
  · refine ⟨Int.le_refl 0, Int.le_refl 0, by show (0 : Int) < 2 ^ (0 : Int).toNat; decide, ?_, ?_⟩
    · intro c hc
      rcases List.mem_append.1 hc with hc | hc
      · exact h.ch c hc
      · simp at hc; subst hc; exact ⟨h.nb, h.v0, h.vlt⟩
    · show s.chunks_number_of_bits + s.number_of_bits = _
      simp [flush, h.cnb]
  · simp [absBits, flush, natToBits]

theorem nnbi_eq (s : per_EncoderS) (v n : Int) :
    per_Encoder_append_non_negative_binary_integer s v n =
      (let s1 := if s.number_of_bits > 4096 then flush s else s
       { s1 with number_of_bits := s1.number_of_bits + n, value := Py.bor (Py.shl s1.value n) v }) := by
  unfold per_Encoder_append_non_negative_binary_integer flush
  by_cases h : s.number_of_bits > 4096 <;> simp [h]

theorem append_non_negative_binary_integer_refines (s : per_EncoderS) (h : EncInv s) (v n : Nat) (hv : v < 2 ^ n) :
    EncInv (per_Encoder_append_non_negative_binary_integer s v n) ∧
    absBits (per_Encoder_append_non_negative_binary_integer s v n) = absBits s ++ natToBits n v := by
  rw [nnbi_eq]
  by_cases hc : s.number_of_bits > 4096
  · simp only [hc, if_true]
    have ⟨h1, h2⟩ := flush_refines s h
    have := push_core (flush s) h1 v n hv _ (bor_shl _ h1.v0 v n hv)
    rw [h2] at this
    exact this
  · simp only [hc, if_false]
    exact push_core s h v n hv _ (bor_shl _ h.v0 v n hv)
/-! #### lengths -/

theorem chunks_length (cs : List (Int × Int)) (h : ∀ c ∈ cs, 0 ≤ c.2) :
    (((cs.flatMap (fun c => natToBits c.2.toNat c.1.toNat)).length : Nat) : Int) = (cs.map (·.2)).sum := by
  induction cs with
  | nil => rfl
  | cons c r ih =>
    have h1 := h c (by simp)
    have h2 := ih (fun x hx => h x (by simp [hx]))
    simp only [List.flatMap_cons, List.length_append, natToBits_length, List.map_cons, List.sum_cons,
      Int.natCast_add, h2]
    omega

theorem abs_length (s : per_EncoderS) (h : EncInv s) :
    (((absBits s).length : Nat) : Int) = s.chunks_number_of_bits + s.number_of_bits := by
  unfold absBits
  rw [List.length_append, Int.natCast_add, chunks_length _ (fun c hc => (h.ch c hc).1), natToBits_length, h.cnb]
  have := h.nb
  omega

theorem number_of_bytes_eq (s : per_EncoderS) (h : EncInv s) :
    per_Encoder_number_of_bytes s = (((absBits s).length + 7) / 8 : Nat) := by
  unfold per_Encoder_number_of_bytes
  rw [← abs_length s h, show (((absBits s).length : Nat) : Int) + 7 = (((absBits s).length + 7 : Nat) : Int) by omega,
    Py.fdiv8]

theorem natToBits_zero (w : Nat) : natToBits w 0 = List.replicate w false := by
  induction w with
  | zero => rfl
  | succ w ih => rw [natToBits, ih, List.replicate_succ']; rfl

theorem align_always_refines (s : per_EncoderS) (h : EncInv s) :
    EncInv (per_Encoder_align_always s) ∧
    absBits (per_Encoder_align_always s) = absBits s ++ Per.alignBits (absBits s).length := by
  unfold per_Encoder_align_always
  have hw : (8 : Int) * per_Encoder_number_of_bytes s - s.chunks_number_of_bits - s.number_of_bits
      = ((Per.padLen (absBits s).length : Nat) : Int) := by
    rw [number_of_bytes_eq s h, Int.sub_sub, ← abs_length s h]
    unfold Per.padLen
    omega
  simp only [hw]
  have := push_core s h 0 (Per.padLen (absBits s).length) (Nat.two_pow_pos _)
    (Py.shl s.value (Per.padLen (absBits s).length : Int)) (by simp [Py.shl])
  rw [natToBits_zero] at this
  exact this

theorem align_refines (s : per_EncoderS) (h : EncInv s) :
    EncInv (per_Encoder_align s) ∧
    absBits (per_Encoder_align s) = absBits s ++ Per.alignBits (absBits s).length :=
  align_always_refines s h

theorem append_bit_refines (s : per_EncoderS) (h : EncInv s) (b : Bool) :
    EncInv (per_Encoder_append_bit s (if b then 1 else 0)) ∧
    absBits (per_Encoder_append_bit s (if b then 1 else 0)) = absBits s ++ [b] := by
  have key : ∀ v : Nat, v < 2 ^ 1 →
      EncInv (per_Encoder_append_bit s (v : Int)) ∧
      absBits (per_Encoder_append_bit s (v : Int)) = absBits s ++ natToBits 1 v := fun v hv =>
    push_core s h v 1 hv _ (bor_shl _ h.v0 v 1 hv)
  cases b
  · exact key 0 (by decide)
  · exact key 1 (by decide)

/-! #### octets -/

theorem bytes_fold (ds : Bytes) : ∀ (acc a : Nat), acc < 2 ^ a → (∀ b ∈ ds, b < 256) →
    natToBits (a + 8 * ds.length) (ds.foldl (fun acc b => 256 * acc + b) acc) = natToBits a acc ++ bytesToBits ds ∧
    ds.foldl (fun acc b => 256 * acc + b) acc < 2 ^ (a + 8 * ds.length) := by
  induction ds with
  | nil => intro acc a h _; simp [bytesToBits, h]
  | cons b r ih =>
    intro acc a h hd
    have hb : b < 2 ^ 8 := hd b (by simp)
    have h1 := shift_add_lt h hb
    have ⟨i1, i2⟩ := ih (acc * 2 ^ 8 + b) (a + 8) h1 (fun x hx => hd x (by simp [hx]))
    have e : 256 * acc + b = acc * 2 ^ 8 + b := by omega
    have e2 : a + 8 * (b :: r).length = a + 8 + 8 * r.length := by simp; omega
    simp only [List.foldl_cons, e, e2]
    refine ⟨?_, i2⟩
    rw [i1, natToBits_shift_add _ _ _ _ hb, List.append_assoc]
    rfl

theorem bytesToBits_eq (ds : Bytes) (hd : ∀ b ∈ ds, b < 256) :
    bytesToBits ds = natToBits (8 * ds.length) (bytesToNat ds) := by
  have := (bytes_fold ds 0 0 (by decide) hd).1
  simpa [natToBits, bytesToNat] using this.symm

theorem bytesToNat_lt (ds : Bytes) (hd : ∀ b ∈ ds, b < 256) : bytesToNat ds < 2 ^ (8 * ds.length) := by
  have := (bytes_fold ds 0 0 (by decide) hd).2
  simpa [bytesToNat] using this

theorem bytesToInt_ofNats (ds : Bytes) : Py.bytesToInt (ofNats ds) = ((bytesToNat ds : Nat) : Int) := by
  have : ∀ acc : Nat, (ofNats ds).foldl (fun acc b => 256 * acc + b) (acc : Int)
      = ((ds.foldl (fun acc b => 256 * acc + b) acc : Nat) : Int) := by
    induction ds with
    | nil => intro acc; rfl
    | cons b r ih =>
      intro acc
      simp only [ofNats_cons, List.foldl_cons]
      rw [show (256 : Int) * (acc : Int) + (b : Int) = ((256 * acc + b : Nat) : Int) by omega, ih]
  exact this 0

theorem append_bits_refines (s : per_EncoderS) (h : EncInv s) (data : Bytes) (hd : ∀ b ∈ data, b < 256)
    (n : Nat) (hn : n ≤ 8 * data.length) :
    EncInv (per_Encoder_append_bits s (ofNats data) n) ∧
    absBits (per_Encoder_append_bits s (ofNats data) n) = absBits s ++ (bytesToBits data).take n := by
  unfold per_Encoder_append_bits
  by_cases h0 : n = 0
  · subst h0; simp [h]
  · have h0' : ¬ ((n : Int) = 0) := by omega
    simp only [h0', decide_false, Bool.false_eq_true, if_false]
    have e1 : (8 : Int) * Py.len (ofNats data) - (n : Int) = ((8 * data.length - n : Nat) : Int) := by
      rw [Py.len_eq, ofNats_length]; omega
    rw [bytesToInt_ofNats, e1, Py.shr_natCast_div]
    have hB := bytesToNat_lt data hd
    have hsplit : 8 * data.length = n + (8 * data.length - n) := by omega
    have hp : 0 < 2 ^ (8 * data.length - n) := Nat.two_pow_pos _
    have hv : bytesToNat data / 2 ^ (8 * data.length - n) < 2 ^ n := by
      rw [Nat.div_lt_iff_lt_mul hp, ← Nat.pow_add, ← hsplit]; exact hB
    have := append_non_negative_binary_integer_refines s h _ n hv
    rw [bytesToBits_eq data hd]
    conv => rhs; rhs; rhs; rw [hsplit, natToBits_add]
    rw [List.take_left' (natToBits_length _ _)]
    exact this

theorem append_bytes_refines (s : per_EncoderS) (h : EncInv s) (data : Bytes) (hd : ∀ b ∈ data, b < 256) :
    EncInv (per_Encoder_append_bytes s (ofNats data)) ∧
    absBits (per_Encoder_append_bytes s (ofNats data)) = absBits s ++ bytesToBits data := by
  unfold per_Encoder_append_bytes
  have e : (8 : Int) * Py.len (ofNats data) = ((8 * data.length : Nat) : Int) := by
    rw [Py.len_eq, ofNats_length]; omega
  rw [e]
  have := append_bits_refines s h data hd (8 * data.length) (Nat.le_refl _)
  rw [List.take_of_length_le (by rw [bytesToBits_length]; omega)] at this
  exact this
theorem bytesToBits_one (a : Nat) : bytesToBits [a] = natToBits 8 a := by
  simp only [bytesToBits, List.flatMap_cons, List.flatMap_nil, List.append_nil]

theorem lenDet_two (n : Nat) (_h : n < 16384) :
    bytesToBits [128 + n / 256, n % 256] = natToBits 16 (0x8000 + n) := by
  rw [show (16 : Nat) = 8 + 8 from rfl, natToBits_add, ← natToBits_mod 8 (0x8000 + n)]
  have e1 : (0x8000 + n) / 2 ^ 8 = 128 + n / 256 := by omega
  have e2 : (0x8000 + n) % 2 ^ 8 = n % 256 := by omega
  rw [e1, e2]
  simp only [bytesToBits, List.flatMap_cons, List.flatMap_nil, List.append_nil]

theorem decide_lt_true {a b : Int} (h : a < b) : decide (a < b) = true := by simpa using h
theorem decide_lt_false {a b : Int} (h : ¬ a < b) : decide (a < b) = false := by simpa using h

/-- the nested tuple-returning conditionals of the translation, flattened -/
theorem length_determinant_unfold (s : per_EncoderS) (n : Nat) :
    per_Encoder_append_length_determinant s n =
      if n < 128 then (per_Encoder_append_bytes s [(n : Int)], (n : Int))
      else if n < 16384 then
        (per_Encoder_append_bytes s [Py.bor 128 (Py.shr (n : Int) 8), Py.band (n : Int) 255], (n : Int))
      else if n < 32768 then (per_Encoder_append_bytes s [193], 16384)
      else if n < 49152 then (per_Encoder_append_bytes s [194], 32768)
      else if n < 65536 then (per_Encoder_append_bytes s [195], 49152)
      else (per_Encoder_append_bytes s [196], 65536) := by
  unfold per_Encoder_append_length_determinant
  by_cases c1 : n < 128
  · rw [decide_lt_true (show (n : Int) < 128 by omega), if_pos c1]; rfl
  rw [decide_lt_false (show ¬ (n : Int) < 128 by omega), if_neg c1]
  by_cases c2 : n < 16384
  · rw [decide_lt_true (show (n : Int) < 16384 by omega), if_pos c2]; rfl
  rw [decide_lt_false (show ¬ (n : Int) < 16384 by omega), if_neg c2]
  by_cases c3 : n < 32768
  · rw [decide_lt_true (show (n : Int) < 32768 by omega), if_pos c3]; rfl
  rw [decide_lt_false (show ¬ (n : Int) < 32768 by omega), if_neg c3]
  by_cases c4 : n < 49152
  · rw [decide_lt_true (show (n : Int) < 49152 by omega), if_pos c4]; rfl
  rw [decide_lt_false (show ¬ (n : Int) < 49152 by omega), if_neg c4]
  by_cases c5 : n < 65536
  · rw [decide_lt_true (show (n : Int) < 65536 by omega), if_pos c5]; rfl
  rw [decide_lt_false (show ¬ (n : Int) < 65536 by omega), if_neg c5]
  rfl

theorem append_length_determinant_refines (s : per_EncoderS) (h : EncInv s) (n : Nat) :
    EncInv (per_Encoder_append_length_determinant s n).1 ∧
    absBits (per_Encoder_append_length_determinant s n).1 = absBits s ++ (Uper.lenDet n).1 ∧
    (per_Encoder_append_length_determinant s n).2 = ((Uper.lenDet n).2 : Int) := by
  rw [length_determinant_unfold]
  unfold Uper.lenDet
  by_cases c1 : n < 128
  · rw [if_pos c1, if_pos c1]
    have := append_bytes_refines s h [n] (by simp; omega)
    rw [bytesToBits_one] at this
    exact ⟨this.1, this.2, rfl⟩
  rw [if_neg c1, if_neg c1]
  by_cases c2 : n < 16384
  · rw [if_pos c2, if_pos c2, Py.shr8, Py.band255, Py.bor128 (show n / 256 < 128 by omega)]
    have := append_bytes_refines s h [128 + n / 256, n % 256] (by simp; omega)
    rw [lenDet_two n c2] at this
    exact ⟨this.1, this.2, rfl⟩
  rw [if_neg c2, if_neg c2]
  by_cases c3 : n < 32768
  · rw [if_pos c3, if_pos c3]
    have := append_bytes_refines s h [193] (by decide)
    exact ⟨this.1, this.2, rfl⟩
  rw [if_neg c3, if_neg c3]
  by_cases c4 : n < 49152
  · rw [if_pos c4, if_pos c4]
    have := append_bytes_refines s h [194] (by decide)
    exact ⟨this.1, this.2, rfl⟩
  rw [if_neg c4, if_neg c4]
  by_cases c5 : n < 65536
  · rw [if_pos c5, if_pos c5]
    have := append_bytes_refines s h [195] (by decide)
    exact ⟨this.1, this.2, rfl⟩
  rw [if_neg c5, if_neg c5]
  have := append_bytes_refines s h [196] (by decide)
  exact ⟨this.1, this.2, rfl⟩

theorem append_normally_small_non_negative_whole_number_refines (s : per_EncoderS) (h : EncInv s) (v : Nat) :
    EncInv (per_Encoder_append_normally_small_non_negative_whole_number s v) ∧
    absBits (per_Encoder_append_normally_small_non_negative_whole_number s v) = absBits s ++ Uper.encNsnnwn v := by
  unfold per_Encoder_append_normally_small_non_negative_whole_number Uper.encNsnnwn
  by_cases c : v < 64
  · have c' : (v : Int) < 64 := by omega
    simp only [c, c', decide_true, if_true]
    exact append_non_negative_binary_integer_refines s h v 7 (by omega)
  · have c' : ¬ (v : Int) < 64 := by omega
    simp only [c, c', decide_false, Bool.false_eq_true, if_false]
    have ⟨a1, a2⟩ := append_bit_refines s h true
    simp only [if_true] at a1 a2
    rw [Py.bitLength_natCast, show ((bitLength v : Nat) : Int) + 7 = ((bitLength v + 7 : Nat) : Int) by omega, Py.fdiv8]
    have ⟨b1, b2, _⟩ := append_length_determinant_refines _ a1 ((bitLength v + 7) / 8)
    rw [show (8 : Int) * (((bitLength v + 7) / 8 : Nat) : Int) = ((8 * ((bitLength v + 7) / 8) : Nat) : Int) by omega]
    have hv : v < 2 ^ (8 * ((bitLength v + 7) / 8)) :=
      Nat.lt_of_lt_of_le (lt_two_pow_bitLength v) (Nat.pow_le_pow_right (by omega) (by omega))
    have ⟨c1, c2⟩ := append_non_negative_binary_integer_refines _ b1 v _ hv
    refine ⟨c1, ?_⟩
    rw [c2, b2, a2]
    simp

theorem append_normally_small_length_refines (s : per_EncoderS) (h : EncInv s) (v : Nat) (hv : 1 ≤ v) :
    match Uper.encNsLength v with
    | .ok bits => ∃ s', per_Encoder_append_normally_small_length s v = .ok s' ∧ EncInv s' ∧ absBits s' = absBits s ++ bits
    | .error _ => per_Encoder_append_normally_small_length s v = .error "NotImplementedError" := by
  unfold per_Encoder_append_normally_small_length Uper.encNsLength
  by_cases c : v ≤ 64
  · have c' : (v : Int) ≤ 64 := by omega
    simp only [c, c', decide_true, if_true]
    rw [show (v : Int) - 1 = ((v - 1 : Nat) : Int) by omega]
    have := append_non_negative_binary_integer_refines s h (v - 1) 7 (by omega)
    exact ⟨_, rfl, this.1, this.2⟩
  · have c' : ¬ (v : Int) ≤ 64 := by omega
    simp only [c, c', decide_false, Bool.false_eq_true, if_false]
    by_cases d : v ≤ 127
    · have d' : (v : Int) ≤ 127 := by omega
      simp only [d, d', decide_true, if_true]
      rw [Py.bor256 (show v < 256 by omega)]
      have := append_non_negative_binary_integer_refines s h (256 + v) 9 (by omega)
      exact ⟨_, rfl, this.1, this.2⟩
    · have d' : ¬ (v : Int) ≤ 127 := by omega
      simp only [d, d', decide_false, Bool.false_eq_true, if_false]
      rfl

theorem append_constrained_whole_number_refines (s : per_EncoderS) (h : EncInv s) (value lo hi : Int) (nbits : Nat)
    (h1 : lo ≤ value) (h2 : value ≤ hi) (hfit : (value - lo).toNat < 2 ^ nbits) :
    EncInv (per_Encoder_append_constrained_whole_number s value lo hi nbits) ∧
    absBits (per_Encoder_append_constrained_whole_number s value lo hi nbits) =
      absBits s ++ Per.encCwn (absBits s).length (value - lo).toNat (hi - lo + 1).toNat nbits := by
  unfold per_Encoder_append_constrained_whole_number Per.encCwn
  obtain ⟨v, hv⟩ := Int.eq_ofNat_of_zero_le (show 0 ≤ value - lo by omega)
  obtain ⟨r, hr⟩ := Int.eq_ofNat_of_zero_le (show 0 ≤ hi - lo + 1 by omega)
  have hvr : v < r := by omega
  have hfit' : v < 2 ^ nbits := by rw [hv] at hfit; simpa using hfit
  rw [hv, hr]
  simp only [Int.toNat_natCast]
  have ⟨a1, a2⟩ := align_always_refines s h
  by_cases c1 : r ≤ 255
  · have c1' : (r : Int) ≤ 255 := by omega
    simp only [c1, c1', decide_true, if_true]
    exact append_non_negative_binary_integer_refines s h v nbits hfit'
  have c1' : ¬ (r : Int) ≤ 255 := by omega
  simp only [c1, c1', decide_false, Bool.false_eq_true, if_false]
  by_cases c2 : r = 256
  · have c2' : (r : Int) = 256 := by omega
    simp only [c2', if_pos c2, decide_true, if_true]
    have := append_non_negative_binary_integer_refines _ a1 v 8 (by omega)
    refine ⟨this.1, ?_⟩
    rw [← List.append_assoc, ← a2]; exact this.2
  have c2' : ¬ (r : Int) = 256 := by omega
  simp only [c2, c2', decide_false, Bool.false_eq_true, if_false]
  by_cases c3 : r ≤ 65536
  · have c3' : (r : Int) ≤ 65536 := by omega
    simp only [c3, c3', decide_true, if_true]
    have := append_non_negative_binary_integer_refines _ a1 v 16 (by omega)
    refine ⟨this.1, ?_⟩
    rw [← List.append_assoc, ← a2]; exact this.2
  have c3' : ¬ (r : Int) ≤ 65536 := by omega
  simp only [c3, c3', decide_false, Bool.false_eq_true, if_false]
  have := append_non_negative_binary_integer_refines _ a1 v nbits hfit'
  refine ⟨this.1, ?_⟩
  rw [← List.append_assoc, ← a2]; exact this.2

theorem iadd_fold (cs : List (Int × Int)) : ∀ (s : per_EncoderS), EncInv s →
    (∀ c ∈ cs, 0 ≤ c.2 ∧ 0 ≤ c.1 ∧ c.1 < 2 ^ c.2.toNat) →
    EncInv (List.foldl (fun self it__ => per_Encoder_append_non_negative_binary_integer self it__.1 it__.2) s cs) ∧
    absBits (List.foldl (fun self it__ => per_Encoder_append_non_negative_binary_integer self it__.1 it__.2) s cs)
      = absBits s ++ cs.flatMap (fun c => natToBits c.2.toNat c.1.toNat) := by
  induction cs with
  | nil => intro s h _; simp [h]
  | cons c r ih =>
    intro s h hc
    obtain ⟨c1, c2, c3⟩ := hc c (by simp)
    obtain ⟨n, hn⟩ := Int.eq_ofNat_of_zero_le c1
    obtain ⟨v, hv⟩ := Int.eq_ofNat_of_zero_le c2
    rw [hn, hv, Int.toNat_natCast, ← cast_two_pow] at c3
    have ⟨a1, a2⟩ := append_non_negative_binary_integer_refines s h v n (Int.ofNat_lt.1 c3)
    rw [← hn, ← hv] at a1 a2
    have ⟨b1, b2⟩ := ih _ a1 (fun x hx => hc x (by simp [hx]))
    simp only [List.foldl_cons, List.flatMap_cons]
    refine ⟨b1, ?_⟩
    rw [b2, a2, hn, hv, Int.toNat_natCast, Int.toNat_natCast, List.append_assoc]

theorem iadd_refines (s o : per_EncoderS) (h : EncInv s) (ho : EncInv o) :
    EncInv (per_Encoder___iadd__ s o) ∧ absBits (per_Encoder___iadd__ s o) = absBits s ++ absBits o := by
  unfold per_Encoder___iadd__
  have ⟨a1, a2⟩ := iadd_fold o.chunks s h ho.ch
  obtain ⟨nb, val, hnb, hval, hlt⟩ := ho.view
  have ⟨b1, b2⟩ := append_non_negative_binary_integer_refines _ a1 val nb hlt
  rw [← hnb, ← hval] at b1 b2
  refine ⟨b1, ?_⟩
  rw [b2, a2, List.append_assoc]
  unfold absBits
  rw [hnb, hval, Int.toNat_natCast, Int.toNat_natCast]
/-! #### unconstrained whole numbers -/

/-- the `(number_of_bytes, value)` selection of `append_unconstrained_whole_number`, flattened -/
def uncSel (i : Int) : Int × Int :=
  if i < 0 then
    (if Py.band (Py.shl 1 (8 * Py.fdiv (Py.bitLength i + 7) 8) + i) (Py.shl 1 (8 * Py.fdiv (Py.bitLength i + 7) 8 - 1)) = 0
      then (Py.fdiv (Py.bitLength i + 7) 8 + 1,
            Py.bor (Py.shl 1 (8 * Py.fdiv (Py.bitLength i + 7) 8) + i) (Py.shl 255 (8 * Py.fdiv (Py.bitLength i + 7) 8)))
      else (Py.fdiv (Py.bitLength i + 7) 8, Py.shl 1 (8 * Py.fdiv (Py.bitLength i + 7) 8) + i))
  else if i > 0 then
    (if Py.bitLength i = 8 * Py.fdiv (Py.bitLength i + 7) 8 then (Py.fdiv (Py.bitLength i + 7) 8 + 1, i)
      else (Py.fdiv (Py.bitLength i + 7) 8, i))
  else (1, i)

theorem unconstrained_unfold (s : per_EncoderS) (i : Int) :
    per_Encoder_append_unconstrained_whole_number s i =
      per_Encoder_append_non_negative_binary_integer (per_Encoder_append_length_determinant s (uncSel i).1).1
        (uncSel i).2 (8 * (uncSel i).1) := by
  unfold per_Encoder_append_unconstrained_whole_number uncSel
  dsimp only
  by_cases c1 : i < 0
  · by_cases c2 : Py.band (Py.shl 1 (8 * Py.fdiv (Py.bitLength i + 7) 8) + i)
        (Py.shl 1 (8 * Py.fdiv (Py.bitLength i + 7) 8 - 1)) = 0
    · simp only [c1, c2, decide_true, if_true]
    · simp only [c1, c2, decide_true, decide_false, if_true, if_false, Bool.false_eq_true]
  · by_cases c2 : i > 0
    · by_cases c3 : Py.bitLength i = 8 * Py.fdiv (Py.bitLength i + 7) 8
      · simp only [c1, c2, decide_true, decide_false, if_true, if_false, Bool.false_eq_true]
        rw [decide_eq_true c3, if_pos c3, if_pos rfl]
      · simp only [c1, c2, c3, decide_true, decide_false, if_true, if_false, Bool.false_eq_true]
    · simp only [c1, c2, decide_false, if_false, Bool.false_eq_true]
theorem neg_emod (M C : Nat) (h1 : 1 ≤ M) (h2 : M ≤ C) : ((-(M : Int)) % (C : Int)).toNat = C - M := by
  have e : (-(M : Int)) % (C : Int) = ((C - M : Nat) : Int) := by
    rw [← Int.add_mul_emod_self_left (-(M : Int)) (C : Int) 1, Int.mul_one]
    rw [Int.emod_eq_of_lt (by omega) (by omega)]
    omega
  rw [e, Int.toNat_natCast]

theorem two_pow_pred {a : Nat} (h : 1 ≤ a) : 2 ^ a = 2 * 2 ^ (a - 1) := by
  obtain ⟨b, rfl⟩ : ∃ b, a = b + 1 := ⟨a - 1, by omega⟩
  rw [Nat.pow_succ]; simp; omega

theorem neg_case (M : Nat) (hM : 1 ≤ M) :
    1 ≤ (bitLength M + 7) / 8 ∧ M ≤ 2 ^ (8 * ((bitLength M + 7) / 8)) ∧
    (2 ^ (8 * ((bitLength M + 7) / 8)) - M < 2 ^ (8 * ((bitLength M + 7) / 8) - 1) →
      bitLength (M - 1) / 8 + 1 = (bitLength M + 7) / 8 + 1) ∧
    (¬ 2 ^ (8 * ((bitLength M + 7) / 8)) - M < 2 ^ (8 * ((bitLength M + 7) / 8) - 1) →
      bitLength (M - 1) / 8 + 1 = (bitLength M + 7) / 8) := by
  have hbl : 1 ≤ bitLength M := by
    have := (Ber.bitLength_le_iff M 0)
    simp at this; omega
  generalize hnb : (bitLength M + 7) / 8 = nb
  have hnb1 : 1 ≤ nb := by omega
  have hlt : M < 2 ^ (8 * nb) :=
    Nat.lt_of_lt_of_le (lt_two_pow_bitLength M) (Nat.pow_le_pow_right (by omega) (by omega))
  have hP := two_pow_pred (show 1 ≤ 8 * nb by omega)
  refine ⟨hnb1, by omega, ?_, ?_⟩
  · intro hA
    have u : bitLength (M - 1) ≤ 8 * nb := by rw [Ber.bitLength_le_iff]; omega
    have l : ¬ bitLength (M - 1) ≤ 8 * nb - 1 := by rw [Ber.bitLength_le_iff]; omega
    omega
  · intro hB
    have u : bitLength (M - 1) ≤ 8 * nb - 1 := by rw [Ber.bitLength_le_iff]; omega
    by_cases h1 : nb = 1
    · omega
    · have l : ¬ bitLength (M - 1) ≤ 8 * (nb - 1) - 1 := by
        rw [Ber.bitLength_le_iff]
        have hQ := two_pow_pred (show 1 ≤ 8 * (nb - 1) by omega)
        have h2 : 2 ^ (8 * (nb - 1)) ≤ 2 ^ (bitLength M - 1) := Nat.pow_le_pow_right (by omega) (by omega)
        have h3 := two_pow_le_of_bitLength (n := M) (by omega)
        have h4 : 0 < 2 ^ (8 * (nb - 1) - 1) := Nat.two_pow_pos _
        omega
      omega

theorem uncSel_eq (i : Int) :
    uncSel i = (((intByteLength i : Nat) : Int), (((i % ((256 ^ intByteLength i : Nat) : Int)).toNat : Nat) : Int)) := by
  unfold uncSel
  by_cases c1 : i < 0
  · obtain ⟨M, hM⟩ : ∃ M : Nat, i = -(M : Int) := ⟨(-i).toNat, by omega⟩
    have hM1 : 1 ≤ M := by omega
    subst hM
    have hbl : Py.bitLength (-(M : Int)) = ((bitLength M : Nat) : Int) := by
      rw [← Py.bitLength_natCast]; simp [Py.bitLength]
    have hk : intByteLength (-(M : Int)) = bitLength (M - 1) / 8 + 1 := by
      unfold intByteLength
      rw [if_neg (by omega)]
      congr 3; omega
    obtain ⟨n1, n2, nA, nB⟩ := neg_case M hM1
    generalize hnb : (bitLength M + 7) / 8 = nb at n1 n2 nA nB
    have hfd : Py.fdiv (((bitLength M : Nat) : Int) + 7) 8 = (nb : Int) := by
      rw [show ((bitLength M : Nat) : Int) + 7 = ((bitLength M + 7 : Nat) : Int) by omega, Py.fdiv8, hnb]
    have hs1 : Py.shl 1 (8 * (nb : Int)) = ((2 ^ (8 * nb) : Nat) : Int) := by
      have := Py.shl_natCast 1 (8 * nb)
      rw [Nat.one_mul] at this
      rw [← this]; congr 1
    have hs2 : Py.shl 1 (8 * (nb : Int) - 1) = ((2 ^ (8 * nb - 1) : Nat) : Int) := by
      have := Py.shl_natCast 1 (8 * nb - 1)
      rw [Nat.one_mul] at this
      rw [← this]; congr 1; omega
    have hs3 : Py.shl 255 (8 * (nb : Int)) = ((255 * 2 ^ (8 * nb) : Nat) : Int) := by
      rw [← Py.shl_natCast 255 (8 * nb)]; congr 1
    have hW : ((2 ^ (8 * nb) : Nat) : Int) + -(M : Int) = ((2 ^ (8 * nb) - M : Nat) : Int) := by omega
    have hP := two_pow_pred (show 1 ≤ 8 * nb by omega)
    rw [if_pos c1, hbl, hfd, hs1, hs2, hs3, hW, Py.band_natCast, hk]
    have hz : (((2 ^ (8 * nb) - M &&& 2 ^ (8 * nb - 1) : Nat) : Int) = 0) ↔ 2 ^ (8 * nb) - M < 2 ^ (8 * nb - 1) := by
      rw [← Py.and_two_pow_eq_zero_of_lt (show 2 ^ (8 * nb) - M < 2 ^ (8 * nb - 1 + 1) by
        rw [show 8 * nb - 1 + 1 = 8 * nb by omega]; omega)]
      omega
    by_cases cA : 2 ^ (8 * nb) - M < 2 ^ (8 * nb - 1)
    · rw [if_pos (hz.2 cA), nA cA, neg_emod M _ hM1 (by
        rw [pow256, show 8 * (nb + 1) = 8 * nb + 8 by omega, Nat.pow_add]; omega)]
      rw [Py.bor_natCast, Nat.or_comm, Py.mul_pow_or _ (by omega)]
      congr 2
      rw [pow256, show 8 * (nb + 1) = 8 * nb + 8 by omega, Nat.pow_add]; omega
    · rw [if_neg (fun hh => cA (hz.1 hh)), nB cA, neg_emod M _ hM1 (by rw [pow256]; omega), pow256]
  · rw [if_neg c1]
    by_cases c2 : i > 0
    · obtain ⟨n, rfl⟩ := Int.eq_ofNat_of_zero_le (show 0 ≤ i by omega)
      have hk : intByteLength (n : Int) = bitLength n / 8 + 1 := by
        unfold intByteLength
        rw [if_pos (by omega), Int.toNat_natCast]
      have hfd : Py.fdiv (((bitLength n : Nat) : Int) + 7) 8 = (((bitLength n + 7) / 8 : Nat) : Int) := by
        rw [show ((bitLength n : Nat) : Int) + 7 = ((bitLength n + 7 : Nat) : Int) by omega, Py.fdiv8]
      have hU : ((n : Int) % ((256 ^ (bitLength n / 8 + 1) : Nat) : Int)).toNat = n := by
        have : n < 256 ^ (bitLength n / 8 + 1) := by
          rw [pow256]
          exact Nat.lt_of_lt_of_le (lt_two_pow_bitLength n) (Nat.pow_le_pow_right (by omega) (by omega))
        rw [Int.emod_eq_of_lt (by omega) (by omega), Int.toNat_natCast]
      rw [if_pos c2, Py.bitLength_natCast, hfd, hk, hU]
      by_cases c3 : bitLength n = 8 * ((bitLength n + 7) / 8)
      · rw [if_pos (by omega)]
        congr 1; omega
      · rw [if_neg (by omega)]
        congr 2; omega
    · have : i = 0 := by omega
      subst this
      rw [if_neg c2]
      rfl

theorem append_unconstrained_whole_number_refines (s : per_EncoderS) (h : EncInv s) (i : Int) :
    EncInv (per_Encoder_append_unconstrained_whole_number s i) ∧
    absBits (per_Encoder_append_unconstrained_whole_number s i) = absBits s ++ Uper.encUnconstrained i := by
  rw [unconstrained_unfold, uncSel_eq]
  simp only
  have hU : (i % ((256 ^ intByteLength i : Nat) : Int)).toNat < 2 ^ (8 * intByteLength i) := by
    have hp : (0 : Int) < ((256 ^ intByteLength i : Nat) : Int) := by
      have := Nat.pow_pos (n := intByteLength i) (show 0 < 256 by omega)
      omega
    have h1 := Int.emod_lt_of_pos i hp
    have h2 := Int.emod_nonneg i (Int.ne_of_gt hp)
    rw [← pow256]
    omega
  have ⟨a1, a2, _⟩ := append_length_determinant_refines s h (intByteLength i)
  have := append_non_negative_binary_integer_refines _ a1 _ (8 * intByteLength i) hU
  rw [show (8 : Int) * ((intByteLength i : Nat) : Int) = ((8 * intByteLength i : Nat) : Int) by omega]
  refine ⟨this.1, ?_⟩
  rw [this.2, a2, List.append_assoc]
  unfold Uper.encUnconstrained intToBytesN
  dsimp only
  rw [bytesToBits_natToBytesN]
end Asn1.Bridge
