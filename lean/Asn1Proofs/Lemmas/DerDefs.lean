import Asn1Proofs.Lemmas.DerPrim
/-
  Statement shapes for the BER / DER round-trip induction.

  `canon'` -- the value the BER and DER decoders return for an encoding of `v` -- is
  `X690.canonV` (Asn1Model/X690Value.lean): like `Typing.canon`, except that an absent
  DEFAULT component is replaced by its default value in the extension additions as well
  (`Typing.canon` does that in the extension root only, which is what the PER / OER decoders do).

  The SEQUENCE and CHOICE parts of the BER decoder (ber.py) and of the DER decoder (der.py imports
  them from ber.py) are the same code; the two models differ in the leaf decoders they call.
  `gPass` / `gSeq` / `gAlt` / `gChoice` are that common part with the recursive call as a
  parameter, so that the SEQUENCE / CHOICE round trip is proved once.
-/
set_option linter.unusedSimpArgs false
set_option linter.unusedVariables false
namespace Asn1.Der
open Asn1.Uper (Err)
open Asn1.X690 (canonV canonMembersV canonAltV defaultsOkV membersDefaultsOkV altsDefaultsOkV)

/-- the canonical value of the BER / DER round trip -/
abbrev canon' : Ty → Val → Val := X690.canonV

/-- type of `Der.dec` / `BerCodec.dec` -/
abbrev Decoder := Ty → Option Nat → Nat → Bytes → DecM (Option Res)

/-! ### the shared SEQUENCE / CHOICE decoder -/

def gPass (D : Decoder) : Members → Nat → (fuel : Nat) → List (Option Val) → MSt → DecM (List (Option Val) × MSt)
  | .nil, _, _, _, st => .ok ([], st)
  | .cons _ _ t rest, i, fuel, slots, st =>
    match slots.headD none with
    | some v =>
      match gPass D rest (i + 1) fuel slots.tail st with
      | .error e => .error e
      | .ok (r, st') => .ok (some v :: r, st')
    | none =>
      if st.ood then
        match gPass D rest (i + 1) fuel slots.tail st with
        | .error e => .error e
        | .ok (r, st') => .ok (none :: r, st')
      else
        match D t (some i) fuel st.cur.bs with
        | .error e => .error e
        | .ok none =>
          match gPass D rest (i + 1) fuel slots.tail st with
          | .error e => .error e
          | .ok (r, st') => .ok (none :: r, st')
        | .ok (some (v, k, r)) =>
          match isEnd (st.cur.advance k r) with
          | .error e => .error e
          | .ok (ood, c) =>
            match gPass D rest (i + 1) fuel slots.tail ⟨c, ood, true⟩ with
            | .error e => .error e
            | .ok (r, st') => .ok (some v :: r, st')

def gSeq (D : Decoder) (root adds : Members) (tg : Option Nat) (fuel : Nat) (bs : Bytes) : DecM (Option Res) :=
  match matchTag (mkTag 16 true tg) bs with
  | .error e => .error e
  | .ok none => .ok none
  | .ok (some r0) =>
    match readLen false r0 with
    | .error e => .error e
    | .ok (len, h, r1) =>
      match retry (gPass D root 0 fuel) (root.length + 1) (List.replicate root.length none)
              ⟨r1, (mkTag 16 true tg).length + h, len⟩ with
      | .error e => .error e
      | .ok (slots, c1, ood1) =>
        match fill root slots false with
        | .error e => .error e
        | .ok fs =>
          if adds.length = 0 then finishMembers fs c1 ood1
          else
            match (if ood1 then .ok (List.replicate adds.length none, c1, true)
                   else retry (gPass D adds root.length fuel) (adds.length + 1)
                     (List.replicate adds.length none) c1) with
            | .error e => .error e
            | .ok (slots2, c2, ood2) =>
              match fill adds slots2 true with
              | .error e => .error e
              | .ok fs2 => finishMembers (fs ++ fs2) c2 ood2

/-- `test t i tag`: is `tag` a key of `tag_to_member` leading to alternative `i` of type `t` -/
def gAlt (D : Decoder) (test : Ty → Nat → Bytes → Bool) :
    Alts → Nat → Bytes → (fuel : Nat) → Bytes → Option (DecM (Option Res))
  | .nil, _, _, _, _ => none
  | .cons n t rest, i, tag, fuel, bs =>
    if test t i tag then
      some (match D t (some i) fuel bs with
        | .error e => .error e
        | .ok none => .error .unmodelled
        | .ok (some (v, k, r)) => .ok (some (.choice n v, k, r)))
    else gAlt D test rest (i + 1) tag fuel bs

def gBare (D : Decoder) (test : Ty → Nat → Bytes → Bool) (root : Alts) (extensible : Bool) (adds : Alts)
    (fuel : Nat) (b : Bytes) : DecM (Option Res) :=
  match readTag b with
  | .error e => .error e
  | .ok (tag, _) =>
    match gAlt D test root 0 tag fuel b with
    | some res => res
    | none =>
      match gAlt D test adds root.length tag fuel b with
      | some res => res
      | none =>
        if extensible then
          match skipTLV b with
          | .error e => .error e
          | .ok (k, r) => .ok (some (.choice "" .absent, k, r))
        else .ok none

def gChoice (D : Decoder) (test : Ty → Nat → Bytes → Bool) (root : Alts) (extensible : Bool) (adds : Alts)
    (tg : Option Nat) (fuel : Nat) (bs : Bytes) : DecM (Option Res) :=
  match tg with
  | none => gBare D test root extensible adds fuel bs
  | some _ =>
    match matchTag (mkTag 0 true tg) bs with
    | .error e => .error e
    | .ok none => .ok none
    | .ok (some r0) =>
      match readLen false r0 with
      | .error e => .error e
      | .ok (len, h, r1) =>
        match gBare D test root extensible adds fuel r1 with
        | .error e => .error e
        | .ok none => .error .decodeError
        | .ok (some (v, k, r2)) =>
          match len with
          | some _ => .ok (some (v, (mkTag 0 true tg).length + h + k, r2))
          | none =>
            match eoc r2 with
            | .error e => .error e
            | .ok true => .ok (some (v, (mkTag 0 true tg).length + h + k + 2, r2.drop 2))
            | .ok false => .error .decodeError

/-- what a decoder has to satisfy to be plugged into the shared part -/
structure IsCodec (D : Decoder) (test : Ty → Nat → Bytes → Bool) : Prop where
  seq : ∀ root e adds tg fuel bs, D (.sequence root e adds) tg fuel bs = gSeq D root adds tg fuel bs
  choice : ∀ root e adds tg fuel bs,
    D (.choice root e adds) tg fuel bs = gChoice D test root e adds tg fuel bs
  /-- facing the identifier octets of a later member: `TAG_MISMATCH`, no error -/
  mism : ∀ (t : Ty) (i j u : Nat) (c : Bool) (r : Bytes) (fuel : Nat), i < j → 0 < fuel →
    D t (some i) fuel (mkTag u c (some j) ++ r) = .ok none
  /-- `test` accepts the identifier octets the encoder writes, and only tags with that number -/
  test_self : ∀ (t : Ty) (i : Nat), test t i (tagOf t (some i)) = true
  test_num : ∀ (t : Ty) (i j u : Nat) (c : Bool), test t i (mkTag u c (some j)) = true → i = j

/-! ### statement shapes -/

/-- round trip of type `t` in any tagging context, for decoder `D` -/
def RT (D : Decoder) (t : Ty) : Prop :=
  ∀ (tg : Option Nat) (v : Val) (bytes rest : Bytes) (fuel : Nat),
    t.wf = true → Oer.oerWf t = true → defaultsOkV t = true → hasType t v = true →
    enc t tg v = .ok bytes → bytes.length < fuel →
    D t tg fuel (bytes ++ rest) = .ok (some (canonV t v, bytes.length, rest))

/-- well-typed values encode -/
def ET (t : Ty) : Prop :=
  ∀ (tg : Option Nat) (v : Val), t.wf = true → hasType t v = true → ∃ bytes, enc t tg v = .ok bytes

/-- `bs` starts with the identifier octets of a context tag `[j]` and goes on after them -/
def Starts (j : Nat) (bs : Bytes) : Prop :=
  ∃ (u : Nat) (c : Bool) (r : Bytes), bs = mkTag u c (some j) ++ r ∧ r ≠ []

def StartsGe (lo : Nat) (bs : Bytes) : Prop := ∃ j, lo ≤ j ∧ Starts j bs

theorem Starts.append {j : Nat} {bs : Bytes} (h : Starts j bs) (x : Bytes) : Starts j (bs ++ x) := by
  obtain ⟨u, c, r, rfl, hr⟩ := h
  exact ⟨u, c, r ++ x, by simp, by simp [hr]⟩

theorem StartsGe.append {j : Nat} {bs : Bytes} (h : StartsGe j bs) (x : Bytes) : StartsGe j (bs ++ x) := by
  obtain ⟨k, hk, hs⟩ := h
  exact ⟨k, hk, hs.append x⟩

theorem StartsGe.mono {i j : Nat} {bs : Bytes} (h : StartsGe j bs) (hij : i ≤ j) : StartsGe i bs := by
  obtain ⟨k, hk, hs⟩ := h
  exact ⟨k, by omega, hs⟩

theorem Starts.ne_nil {j : Nat} {bs : Bytes} (h : Starts j bs) : bs ≠ [] := by
  obtain ⟨u, c, r, rfl, hr⟩ := h
  simp [hr]

theorem tlv_starts (tag content : Bytes) : ∃ r, tlv tag content = tag ++ r ∧ r ≠ [] :=
  ⟨Ber.encLength content.length ++ content, by simp [tlv], by simp [encLength_ne_nil_rt]⟩

/-- every encoding in a member / alternative context `[j]` starts with the identifier octets of
`[j]` followed by at least the length octets -/
theorem enc_starts {t : Ty} {j : Nat} {v : Val} {b : Bytes} (h : enc t (some j) v = .ok b) :
    ∃ r, b = tagOf t (some j) ++ r ∧ r ≠ [] := by
  cases t <;> cases v <;> simp only [enc] at h <;> try (cases h; done)
  case boolean.bool => cases h; exact tlv_starts _ _
  case null.null => cases h; exact ⟨_, rfl, by simp⟩
  case integer.int => cases h; exact tlv_starts _ _
  case enumerated.enum =>
    split at h
    · cases h
    · cases h; exact tlv_starts _ _
  case octetString.bytes => cases h; exact tlv_starts _ _
  case bitString.bits => cases h; exact tlv_starts _ _
  case charString.str =>
    split at h
    · cases h
    · cases h; exact tlv_starts _ _
  case sequence.record =>
    split at h
    · cases h
    · split at h
      · cases h
      · cases h; exact tlv_starts _ _
  case sequenceOf.list =>
    split at h
    · cases h
    · cases h; exact tlv_starts _ _
  case choice.choice =>
    split at h
    · cases h
    · cases h; exact tlv_starts _ _

theorem enc_Starts {t : Ty} {j : Nat} {v : Val} {b : Bytes} (h : enc t (some j) v = .ok b) : Starts j b := by
  obtain ⟨r, e, hr⟩ := enc_starts h
  exact ⟨_, _, r, e, hr⟩

end Asn1.Der
