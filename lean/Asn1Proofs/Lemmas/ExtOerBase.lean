import Asn1Proofs.Lemmas.ExtDefs
import Asn1Proofs.Lemmas.OerRoundtrip
/-
  C07, OER: statement shape, leaf types, ENUMERATED, DEFAULT handling, alternatives.
-/
set_option linter.unusedSimpArgs false
set_option linter.unusedVariables false
namespace Asn1.Ext.OerX
open Asn1 Asn1.Oer Asn1.Ext

/-- the statement `XT` of `ExtOer.lean` (definitionally the same) -/
def XTd (tD tE : Ty) : Prop :=
  ∀ (v : Val) (bytes rest : Bytes),
    tE.wf = true → oerWf tE = true → tE.defaultsOk = true → dOk false tD tE →
    hasType tE v = true → utf8Ok tE v = true → noSwallow tE v = true →
    enc tE v = .ok bytes →
    dec tD (bytes ++ rest) = .ok (view false tD tE v, rest)

/-! ### identical types -/

theorem xt_same (t : Ty) (hv : ∀ v, hasType t v = true → view false t t v = canon t v) : XTd t t := by
  intro v bytes rest hwf hwf2 hd hdk ht hu hns he
  rw [hv v ht]
  exact rt_all t v bytes rest hwf hwf2 hd ht hu hns he

theorem xt_boolean : XTd .boolean .boolean := xt_same _ (fun v _ => by cases v <;> rfl)
theorem xt_null : XTd .null .null := xt_same _ (fun v _ => by cases v <;> rfl)
theorem xt_integer (c : IntC) : XTd (.integer c) (.integer c) := xt_same _ (fun v _ => by cases v <;> rfl)
theorem xt_octetString (c : SizeC) : XTd (.octetString c) (.octetString c) :=
  xt_same _ (fun v _ => by cases v <;> rfl)
theorem xt_bitString (c : SizeC) : XTd (.bitString c) (.bitString c) :=
  xt_same _ (fun v _ => by cases v <;> rfl)
theorem xt_charString (k : StrKind) (c : SizeC) : XTd (.charString k c) (.charString k c) :=
  xt_same _ (fun v _ => by cases v <;> rfl)

/-! ### ENUMERATED -/

/-- the value-reading part of the ENUMERATED decoder -/
def readEnumVal (bs : Bytes) : DecM (Int × Bytes) := do
  let (b, _) ← readByte bs
  (if b ≥ 128 then decSigned ((b - 128) :: bs.drop 1)
   else do let (x, r) ← readByte bs; .ok ((x : Int), r))

theorem dec_enum (root : List (String × Int)) (ext : Option (List (String × Int))) (bs : Bytes) :
    dec (.enumerated root ext) bs = (do
      let (v, r) ← readEnumVal bs
      match enumName v (root ++ ext.getD []) with
      | some n => .ok (.enum n, r)
      | none => if ext.isSome then .ok (.absent, r) else .error .decodeError) := by
  rw [dec]
  unfold readEnumVal
  cases h : readByte bs with
  | error e => rfl
  | ok x =>
    obtain ⟨b, r⟩ := x
    simp only [bind, Except.bind]
    rfl

theorem enumName_append (v : Int) (l1 l2 : List (String × Int)) :
    enumName v (l1 ++ l2) = (match enumName v l1 with | some n => some n | none => enumName v l2) := by
  induction l1 with
  | nil => rfl
  | cons x r ih =>
    obtain ⟨n, w⟩ := x
    simp only [List.cons_append, enumName]
    split
    · rfl
    · exact ih

theorem enumName_mem (v : Int) (l : List (String × Int)) (n : String) (h : enumName v l = some n) :
    n ∈ namesOf l := by
  induction l with
  | nil => simp [enumName] at h
  | cons x r ih =>
    obtain ⟨m, w⟩ := x
    simp only [enumName] at h
    simp only [namesOf, List.map_cons, List.mem_cons]
    split at h
    · cases h; exact Or.inl rfl
    · exact Or.inr (ih h)

/-- what the encoder's own decoder reads: the value and the name it stands for -/
theorem enum_read {root : List (String × Int)} {ext : Option (List (String × Int))} {name : String}
    {bs rest : Bytes}
    (h : dec (.enumerated root ext) bs = .ok (.enum name, rest)) :
    ∃ val, readEnumVal bs = .ok (val, rest) ∧ enumName val (root ++ ext.getD []) = some name := by
  rw [dec_enum] at h
  cases hr : readEnumVal bs with
  | error e => rw [hr] at h; cases h
  | ok x =>
    obtain ⟨val, r⟩ := x
    rw [hr] at h
    simp only [bind, Except.bind] at h
    cases hn : enumName val (root ++ ext.getD []) with
    | none =>
      rw [hn] at h
      simp only at h
      split at h <;> cases h
    | some n =>
      rw [hn] at h
      simp only [Except.ok.injEq, Prod.mk.injEq, Val.enum.injEq] at h
      obtain ⟨h1, h2⟩ := h
      subst h1; subst h2
      exact ⟨val, rfl, hn⟩

theorem xt_enumerated (root : List (String × Int)) : XTd (.enumerated root none) (.enumerated root none) := by
  apply xt_same
  intro v ht
  cases v <;> try (simp only [hasType, Bool.false_eq_true] at ht; done)
  rename_i name
  rw [canon_enumerated]
  simp only [hasType, Bool.or_false] at ht
  simp only [view, ht, Bool.or_false, if_true]

theorem xt_enumeratedD (root adds new : List (String × Int)) :
    XTd (.enumerated root (some adds)) (.enumerated root (some (adds ++ new))) := by
  intro v bytes rest hwf hwf2 hd hdk ht hu hns he
  cases v <;> try (simp only [hasType, Bool.false_eq_true] at ht; done)
  rename_i name
  have hrt := rt_all _ (.enum name) bytes rest hwf hwf2 hd ht hu hns he
  rw [canon_enumerated] at hrt
  obtain ⟨val, hread, hname⟩ := enum_read hrt
  simp only [Option.getD_some] at hname
  rw [← List.append_assoc, enumName_append] at hname
  simp only [Ty.wf, Bool.and_eq_true, decide_eq_true_eq] at hwf
  obtain ⟨⟨_, hnd⟩, _⟩ := hwf
  rw [dec_enum, hread]
  simp only [bind, Except.bind, Option.getD_some, Option.isSome_some, if_true]
  cases hD : enumName val (root ++ adds) with
  | some n =>
    rw [hD] at hname
    simp only [Option.some.injEq] at hname
    subst hname
    have hm := enumName_mem _ _ _ hD
    rw [mem_namesOf_append] at hm
    have : ((namesOf root).contains n || (namesOf adds).contains n) = true := by
      simp only [Bool.or_eq_true, List.contains_eq_mem, decide_eq_true_eq]; exact hm
    simp only [view, this, if_true]
  | none =>
    rw [hD] at hname
    simp only at hname
    have hm := enumName_mem _ _ _ hname
    have h1 : name ∉ namesOf root := by
      intro hc
      rw [List.nodup_append] at hnd
      exact hnd.2.2 name hc name (by rw [mem_namesOf_append]; exact Or.inr hm) rfl
    have h2 : name ∉ namesOf adds := by
      intro hc
      rw [List.nodup_append] at hnd
      have := hnd.2.1
      simp only [namesOf, List.map_append] at this hc hm
      rw [List.nodup_append] at this
      exact this.2.2 name hc name hm rfl
    have : ((namesOf root).contains name || (namesOf adds).contains name) = false := by
      simp only [Bool.or_eq_false_iff, List.contains_eq_mem, decide_eq_false_iff_not]; exact ⟨h1, h2⟩
    simp only [view, this, Bool.false_eq_true, if_false]

theorem xt_enumeratedE (root adds new : List (String × Int)) :
    XTd (.enumerated root (some (adds ++ new))) (.enumerated root (some adds)) := by
  intro v bytes rest hwf hwf2 hd hdk ht hu hns he
  cases v <;> try (simp only [hasType, Bool.false_eq_true] at ht; done)
  rename_i name
  have hrt := rt_all _ (.enum name) bytes rest hwf hwf2 hd ht hu hns he
  rw [canon_enumerated] at hrt
  obtain ⟨val, hread, hname⟩ := enum_read hrt
  simp only [Option.getD_some] at hname
  rw [dec_enum, hread]
  simp only [bind, Except.bind, Option.getD_some, Option.isSome_some, if_true]
  rw [← List.append_assoc, enumName_append, hname]
  simp only [hasType, Bool.or_eq_true, List.contains_eq_mem, decide_eq_true_eq] at ht
  have : ((namesOf root).contains name || (namesOf (adds ++ new)).contains name) = true := by
    simp only [Bool.or_eq_true, List.contains_eq_mem, decide_eq_true_eq]
    rcases ht with h | h
    · exact Or.inl h
    · exact Or.inr (by rw [mem_namesOf_append]; exact Or.inl h)
  simp only [view, this, if_true]

end Asn1.Ext.OerX
