import Asn1Proofs.Lemmas.DerCodecInst
/-
  Round trip (DER decoder and BER decoder) and encoder totality for the leaf types of the
  BER / DER model.
-/
set_option linter.unusedSimpArgs false
set_option linter.unusedVariables false
namespace Asn1.Der
open Asn1.X690 (canonV)
open Asn1.Oer (splitAux readBytes splitAux_append readBytes_append enumValue enumName encodeStr decodeStr)

/-! ### `canonV` on leaves -/

theorem canonV_boolean (v : Val) : canonV .boolean v = v := by cases v <;> simp only [X690.canonV]
theorem canonV_null (v : Val) : canonV .null v = v := by cases v <;> simp only [X690.canonV]
theorem canonV_integer (c : IntC) (v : Val) : canonV (.integer c) v = v := by
  cases v <;> simp only [X690.canonV]
theorem canonV_enumerated (r e) (v : Val) : canonV (.enumerated r e) v = v := by
  cases v <;> simp only [X690.canonV]
theorem canonV_octetString (c : SizeC) (v : Val) : canonV (.octetString c) v = v := by
  cases v <;> simp only [X690.canonV]
theorem canonV_charString (k : StrKind) (c : SizeC) (v : Val) : canonV (.charString k c) v = v := by
  cases v <;> simp only [X690.canonV]

/-! ### the BER primitive-or-constructed decoder on a primitive TLV -/

theorem pcDecode_tlv {α : Type} (prim : Bytes → Bytes → DecM α) (join : List α → α) (segTag segCtag : Bytes)
    (fuel : Nat) (tag ctag content rest : Bytes) (a : α) (hp : prim content rest = .ok a) :
    BerCodec.pcDecode prim join segTag segCtag (fuel + 1) tag ctag (tlv tag content ++ rest)
      = .ok (some (a, (tlv tag content).length, rest)) := by
  rw [tlv_append, BerCodec.pcDecode, splitAux_append]
  simp only [List.reverse_nil, List.nil_append, beq_self_eq_true, if_true, readLen_encLength,
    readBytes_append _ _ rfl, hp, tlv_length]

theorem decOctets_tlv (fuel : Nat) (tag ctag content rest : Bytes) :
    BerCodec.decOctets (fuel + 1) tag ctag (tlv tag content ++ rest)
      = .ok (some (content, (tlv tag content).length, rest)) := by
  unfold BerCodec.decOctets
  exact pcDecode_tlv _ _ _ _ fuel tag ctag content rest content rfl

theorem decBits_tlv (fuel : Nat) (tag ctag content rest : Bytes) (a : Bytes × Nat)
    (hp : bitsOfContent content rest = .ok a) :
    BerCodec.decBits (fuel + 1) tag ctag (tlv tag content ++ rest)
      = .ok (some (a, (tlv tag content).length, rest)) := by
  unfold BerCodec.decBits
  exact pcDecode_tlv _ _ _ _ fuel tag ctag content rest a hp

/-! ### BOOLEAN -/

theorem rt_boolean_der : RT dec .boolean := by
  intro tg v bytes rest fuel hwf hwf2 hd ht he hf
  cases v <;> simp only [hasType, Bool.false_eq_true] at ht
  rename_i b
  rw [enc] at he; cases he
  rw [dec, canonV_boolean]
  simp only [bind, Except.bind, readPrim_tlv]
  cases b <;> rfl

theorem rt_boolean_ber : RT BerCodec.dec .boolean := by
  intro tg v bytes rest fuel hwf hwf2 hd ht he hf
  cases v <;> simp only [hasType, Bool.false_eq_true] at ht
  rename_i b
  rw [enc] at he; cases he
  rw [BerCodec.dec, canonV_boolean]
  simp only [bind, Except.bind, readPrim_tlv]
  cases b <;> rfl

theorem et_boolean : ET .boolean := by
  intro tg v hwf ht
  cases v <;> simp only [hasType, Bool.false_eq_true] at ht
  exact ⟨_, by rw [enc]⟩

/-! ### NULL -/

theorem readLen_zero (d : Bool) (rest : Bytes) : readLen d (0 :: rest) = .ok (some 0, 1, rest) := by
  simp [readLen, hasN]

theorem rt_null_der : RT dec .null := by
  intro tg v bytes rest fuel hwf hwf2 hd ht he hf
  cases v <;> simp only [hasType, Bool.false_eq_true] at ht
  rw [enc] at he; cases he
  rw [dec, canonV_null, List.append_assoc]
  simp only [bind, Except.bind, matchTag_self, List.cons_append, List.nil_append, readLen_zero,
    List.length_append, List.length_cons, List.length_nil]

theorem rt_null_ber : RT BerCodec.dec .null := by
  intro tg v bytes rest fuel hwf hwf2 hd ht he hf
  cases v <;> simp only [hasType, Bool.false_eq_true] at ht
  rw [enc] at he; cases he
  rw [BerCodec.dec, canonV_null, List.append_assoc]
  simp only [bind, Except.bind, matchTag_self, List.cons_append, List.nil_append, readLen_zero,
    List.length_append, List.length_cons, List.length_nil]

theorem et_null : ET .null := by
  intro tg v hwf ht
  cases v <;> simp only [hasType, Bool.false_eq_true] at ht
  exact ⟨_, by rw [enc]⟩

/-! ### INTEGER -/

theorem bytesToInt_intToBytesMin' (i : Int) : bytesToInt (intToBytesMin i) = i :=
  bytesToInt_intToBytesMin i

theorem rt_integer_der (c : IntC) : RT dec (.integer c) := by
  intro tg v bytes rest fuel hwf hwf2 hd ht he hf
  cases v <;> simp only [hasType, Bool.false_eq_true] at ht
  rename_i i
  rw [enc] at he; cases he
  rw [dec, canonV_integer]
  simp only [bind, Except.bind, readPrim_tlv, bytesToInt_intToBytesMin']

theorem rt_integer_ber (c : IntC) : RT BerCodec.dec (.integer c) := by
  intro tg v bytes rest fuel hwf hwf2 hd ht he hf
  cases v <;> simp only [hasType, Bool.false_eq_true] at ht
  rename_i i
  rw [enc] at he; cases he
  rw [BerCodec.dec, canonV_integer]
  simp only [bind, Except.bind, readPrim_tlv, bytesToInt_intToBytesMin']

theorem et_integer (c : IntC) : ET (.integer c) := by
  intro tg v hwf ht
  cases v <;> simp only [hasType, Bool.false_eq_true] at ht
  exact ⟨_, by rw [enc]⟩

/-! ### ENUMERATED -/

theorem rt_enumerated_der (root : List (String × Int)) (ext : Option (List (String × Int))) :
    RT dec (.enumerated root ext) := by
  intro tg v bytes rest fuel hwf hwf2 hd ht he hf
  cases v <;> simp only [hasType, Bool.false_eq_true] at ht
  rename_i name
  rw [canonV_enumerated]
  rw [enc] at he
  rw [Oer.oerWf] at hwf2
  simp only [decide_eq_true_eq] at hwf2
  split at he
  · cases he
  · rename_i val hval
    have hname := Oer.enumName_of_enumValue name val _ hwf2 hval
    cases he
    rw [dec]
    simp only [bind, Except.bind, readPrim_tlv, enumOfContent, bytesToInt_intToBytesMin', hname]

theorem rt_enumerated_ber (root : List (String × Int)) (ext : Option (List (String × Int))) :
    RT BerCodec.dec (.enumerated root ext) := by
  intro tg v bytes rest fuel hwf hwf2 hd ht he hf
  cases v <;> simp only [hasType, Bool.false_eq_true] at ht
  rename_i name
  rw [canonV_enumerated]
  rw [enc] at he
  rw [Oer.oerWf] at hwf2
  simp only [decide_eq_true_eq] at hwf2
  split at he
  · cases he
  · rename_i val hval
    have hname := Oer.enumName_of_enumValue name val _ hwf2 hval
    cases he
    rw [BerCodec.dec]
    simp only [bind, Except.bind, readPrim_tlv, enumOfContent, bytesToInt_intToBytesMin', hname]

theorem et_enumerated (root : List (String × Int)) (ext : Option (List (String × Int))) :
    ET (.enumerated root ext) := by
  intro tg v hwf ht
  cases v <;> try (simp only [hasType, Bool.false_eq_true] at ht; done)
  rename_i name
  have hmem : name ∈ namesOf (root ++ ext.getD []) := Oer.enum_hasType_mem ht
  obtain ⟨val, hval⟩ := Oer.enumValue_of_mem name _ hmem
  rw [enc]
  simp only [hval]
  exact ⟨_, rfl⟩

/-! ### OCTET STRING -/

theorem rt_octetString_der (c : SizeC) : RT dec (.octetString c) := by
  intro tg v bytes rest fuel hwf hwf2 hd ht he hf
  cases v <;> simp only [hasType, Bool.false_eq_true] at ht
  rename_i data
  rw [enc] at he; cases he
  rw [dec, canonV_octetString]
  simp only [bind, Except.bind, readPrim_tlv]

theorem rt_octetString_ber (c : SizeC) : RT BerCodec.dec (.octetString c) := by
  intro tg v bytes rest fuel hwf hwf2 hd ht he hf
  cases v <;> simp only [hasType, Bool.false_eq_true] at ht
  rename_i data
  rw [enc] at he; cases he
  obtain ⟨fuel', rfl⟩ : ∃ f, fuel = f + 1 := ⟨fuel - 1, by omega⟩
  rw [BerCodec.dec, canonV_octetString]
  simp only [bind, Except.bind, decOctets_tlv]

theorem et_octetString (c : SizeC) : ET (.octetString c) := by
  intro tg v hwf ht
  cases v <;> simp only [hasType, Bool.false_eq_true] at ht
  exact ⟨_, by rw [enc]⟩

/-! ### BIT STRING -/

theorem bitsOfContent_bitContent (data : Bytes) (n : Nat) (rest : Bytes)
    (hdl : data.length = (n + 7) / 8) :
    bitsOfContent (bitContent data n) rest = .ok (cleanBits data n, n) := by
  have hle : n ≤ 8 * data.length := by omega
  have hcl := Asn1.cleanBits_length data n hle
  unfold bitContent bitsOfContent
  simp only
  rw [if_neg (by rw [hcl]; omega)]
  have : 8 * (cleanBits data n).length - (8 - n % 8) % 8 = n := by rw [hcl]; omega
  rw [this]

theorem rt_bitString_der (c : SizeC) : RT dec (.bitString c) := by
  intro tg v bytes rest fuel hwf hwf2 hd ht he hf
  cases v <;> simp only [hasType, Bool.false_eq_true] at ht
  rename_i data n
  simp only [Bool.and_eq_true, decide_eq_true_eq] at ht
  obtain ⟨⟨_, hdl⟩, hsz⟩ := ht
  rw [enc] at he; cases he
  rw [dec, X690.canonV]
  simp only [bind, Except.bind, readPrim_tlv, bitsOfContent_bitContent data n rest hdl]

theorem rt_bitString_ber (c : SizeC) : RT BerCodec.dec (.bitString c) := by
  intro tg v bytes rest fuel hwf hwf2 hd ht he hf
  cases v <;> simp only [hasType, Bool.false_eq_true] at ht
  rename_i data n
  simp only [Bool.and_eq_true, decide_eq_true_eq] at ht
  obtain ⟨⟨_, hdl⟩, hsz⟩ := ht
  rw [enc] at he; cases he
  obtain ⟨fuel', rfl⟩ : ∃ f, fuel = f + 1 := ⟨fuel - 1, by omega⟩
  rw [BerCodec.dec, X690.canonV]
  simp only [bind, Except.bind,
    decBits_tlv fuel' _ _ _ rest _ (bitsOfContent_bitContent data n rest hdl)]

theorem et_bitString (c : SizeC) : ET (.bitString c) := by
  intro tg v hwf ht
  cases v <;> simp only [hasType, Bool.false_eq_true] at ht
  exact ⟨_, by rw [enc]⟩

/-! ### character strings -/

theorem rt_charString_der (k : StrKind) (c : SizeC) : RT dec (.charString k c) := by
  intro tg v bytes rest fuel hwf hwf2 hd ht he hf
  cases v <;> try (simp only [hasType, Bool.false_eq_true] at ht; done)
  rename_i cps
  obtain ⟨bs, hbs, hdec, _⟩ := Oer.str_rt ht
  rw [canonV_charString]
  rw [enc] at he
  simp only [hbs] at he
  cases he
  rw [dec]
  simp only [bind, Except.bind, readPrim_tlv, hdec]

theorem rt_charString_ber (k : StrKind) (c : SizeC) : RT BerCodec.dec (.charString k c) := by
  intro tg v bytes rest fuel hwf hwf2 hd ht he hf
  cases v <;> try (simp only [hasType, Bool.false_eq_true] at ht; done)
  rename_i cps
  obtain ⟨bs, hbs, hdec, _⟩ := Oer.str_rt ht
  rw [canonV_charString]
  rw [enc] at he
  simp only [hbs] at he
  cases he
  obtain ⟨fuel', rfl⟩ : ∃ f, fuel = f + 1 := ⟨fuel - 1, by omega⟩
  have htag : tagOf (.charString k c) tg = mkTag (univNumber (.charString k c)) false tg := rfl
  rw [BerCodec.dec, htag]
  simp only [bind, Except.bind, decOctets_tlv, hdec]

theorem et_charString (k : StrKind) (c : SizeC) : ET (.charString k c) := by
  intro tg v hwf ht
  cases v <;> try (simp only [hasType, Bool.false_eq_true] at ht; done)
  rename_i cps
  obtain ⟨bs, hbs, _, _⟩ := Oer.str_rt ht
  rw [enc]
  simp only [hbs]
  exact ⟨_, rfl⟩

end Asn1.Der

#print axioms Asn1.Der.rt_enumerated_der
#print axioms Asn1.Der.rt_bitString_ber
#print axioms Asn1.Der.rt_charString_ber
#print axioms Asn1.Der.et_charString
