import Asn1Proofs.Lemmas.UperLeaf
/-
  Round trip and totality for the size-constrained leaf types.
-/
set_option linter.unusedSimpArgs false
namespace Asn1.Uper

theorem sizeOk_eq_inSize (c : SizeC) (n : Nat) : sizeOk c n = inSize c n := by
  unfold sizeOk inSize
  cases c.hi <;> simp

theorem sizeBits_some {c : SizeC} {w n : Nat} (hs : sizeBits c = some w) (hin : inSize c n = true) :
    c.lo ≤ n ∧ n - c.lo < 2 ^ w ∧ (some c.lo = c.hi → n = c.lo) := by
  unfold sizeBits at hs
  unfold inSize at hin
  cases hhi : c.hi with
  | none => simp [hhi] at hs
  | some hi =>
    simp only [hhi, Bool.and_eq_true, decide_eq_true_eq] at hs hin
    split at hs
    · cases hs
    · cases hs
      refine ⟨hin.1, lt_two_pow_bitLength_of_le (by omega), ?_⟩
      intro h; cases h; omega

theorem readExt_pre (e : Bool) (X : Bits) :
    (if e = true then readBit ((if e = true then [false] else []) ++ X)
     else .ok (false, (if e = true then [false] else []) ++ X)) = .ok (false, X) := by
  cases e <;> rfl

theorem ext_hi_of_wf {c : SizeC} (hwf : sizeWf c = true) : ¬ (c.ext = true ∧ c.hi.isNone = true) := by
  unfold sizeWf at hwf
  cases hhi : c.hi with
  | none => simp [hhi] at hwf; simp [hwf]
  | some hi => simp

theorem encChunked_eq (items : List Bits) : encChunked items = encChunks (items.length / 16384 + 2) items := rfl

/-- decoding a fragmented list of fixed-shape items -/
theorem decChunks_encChunked {α : Type} (p : Bits → DecM (α × Bits)) (L : Nat)
    (items : List Bits) (vals : List α) (h : All2 (ItemRT p L) items vals)
    (rest : Bits) (hL : (encChunked items).length + rest.length ≤ L)
    (fuel : Nat) (hfuel : (encChunked items).length < fuel) :
    decChunks p fuel (encChunked items ++ rest) = .ok (vals, rest) :=
  decChunks_encChunks p L _ items vals h (Nat.le_refl _) rest hL fuel hfuel

theorem all2_readNat8 (data : Bytes) (h : ∀ b ∈ data, b < 256) (L : Nat) :
    All2 (ItemRT (fun b => readNat 8 b) L) (data.map (natToBits 8)) data := by
  induction data with
  | nil => exact .nil
  | cons b r ih =>
    refine .cons ?_ (ih (fun x hx => h x (by simp [hx])))
    intro rest _
    exact readNat_natToBits rest (by have := h b (by simp); omega)

theorem all2_readBit (body : Bits) (L : Nat) :
    All2 (ItemRT readBit L) (body.map (fun b => [b])) body := by
  induction body with
  | nil => exact .nil
  | cons b r ih => exact .cons (fun rest _ => rfl) ih

theorem allBytes_iff (bs : Bytes) : allBytes bs = true ↔ ∀ b ∈ bs, b < 256 := by
  simp [allBytes]

theorem rt_octetString (c : SizeC) : RT (.octetString c) := by
  intro v bits rest fuel hwf _ _ ht hf he hfuel
  cases v <;> simp only [hasType, Bool.false_eq_true] at ht
  rename_i data
  rw [canon_octetString]
  rw [Ty.wf] at hwf
  rw [fragFree] at hf
  simp only [Bool.and_eq_true, allBytes_iff, Bool.or_eq_true, sizeOk_eq_inSize] at ht
  obtain ⟨hbytes, hsz⟩ := ht
  have hpack := packBits_bytesToBits data hbytes
  rw [enc] at he
  rw [dec]
  simp only [ext_hi_of_wf hwf, if_false] at he
  split at he
  · rename_i hout
    cases he
    have hs : data.length < 16384 := by
      simp only [Bool.or_eq_true, Bool.not_eq_true', smallLen, decide_eq_true_eq] at hf
      rcases hf with (hf | hf) | hf
      · rw [hout.1] at hf; cases hf
      · exact absurd hf hout.2
      · exact hf
    simp only [hout.1, if_true, bind, Except.bind, List.cons_append, List.nil_append, readBit_cons,
      List.append_assoc]
    rw [readLenDet_lenDet, lenDet_snd_of_lt hs]
    simp only
    rw [readBits_append _ _ (bytesToBits_length data)]
    simp only [hpack]
  · rename_i hnot
    have hin : inSize c data.length = true := by
      rcases hsz with h | h
      · cases hi : inSize c data.length
        · exact absurd ⟨h, by simp [hi]⟩ hnot
        · rfl
      · exact h
    split at he
    · rename_i hsb
      cases he
      simp only [List.append_assoc, bind, Except.bind, readExt_pre, Bool.false_eq_true, if_false]
      rw [decChunks_encChunked _ (fuel) _ _ (all2_readNat8 data hbytes _) rest
        (by simp only [List.length_append] at hfuel; omega) fuel
        (by simp only [List.length_append] at hfuel; omega)]
    · rename_i w hsb
      obtain ⟨h1, h2, h3⟩ := sizeBits_some hsb hin
      split at he
      · rename_i hne
        cases he
        simp only [List.append_assoc, bind, Except.bind, readExt_pre, Bool.false_eq_true, if_false]
        rw [if_pos hne, readNat_natToBits _ h2]
        simp only
        have : c.lo + (data.length - c.lo) = data.length := by omega
        rw [this, readBits_append _ _ (bytesToBits_length data)]
        simp only [hpack]
      · rename_i hne
        cases he
        simp only [List.append_assoc, bind, Except.bind, readExt_pre, Bool.false_eq_true, if_false]
        rw [if_neg hne]
        have : c.lo = data.length := (h3 (by simpa using hne)).symm
        simp only
        rw [this, readBits_append _ _ (bytesToBits_length data)]
        simp only [hpack]

theorem rt_bitString (c : SizeC) : RT (.bitString c) := by
  intro v bits rest fuel hwf _ _ ht hf he hfuel
  cases v <;> simp only [hasType, Bool.false_eq_true] at ht
  rename_i data n
  rw [canon]
  rw [Ty.wf] at hwf
  simp only [Bool.and_eq_true, allBytes_iff, decide_eq_true_eq, sizeOk_eq_inSize] at ht
  obtain ⟨⟨hbytes, hlen⟩, hin⟩ := ht
  have htake : takeBits data n = .ok ((bytesToBits data).take n) := by
    unfold takeBits; rw [if_pos (by omega)]
  have hblen : ((bytesToBits data).take n).length = n := by
    rw [List.length_take, bytesToBits_length]; omega
  rw [enc] at he
  rw [dec]
  simp only [ext_hi_of_wf hwf, if_false, hin, not_true_eq_false, and_false, htake] at he
  unfold cleanBits
  generalize (bytesToBits data).take n = body at *
  split at he
  · rename_i hsb
    cases he
    simp only [List.append_assoc, bind, Except.bind, readExt_pre, Bool.false_eq_true, if_false]
    rw [decChunks_encChunked _ (fuel) _ _ (all2_readBit body _) rest
      (by simp only [List.length_append] at hfuel; omega) fuel
      (by simp only [List.length_append] at hfuel; omega)]
    simp only [hblen]
  · rename_i w hsb
    obtain ⟨h1, h2, h3⟩ := sizeBits_some hsb hin
    split at he
    · rename_i hne
      cases he
      simp only [List.append_assoc, bind, Except.bind, readExt_pre, Bool.false_eq_true, if_false]
      rw [if_pos hne, readNat_natToBits _ h2]
      simp only
      have : c.lo + (n - c.lo) = n := by omega
      rw [this, readBits_append _ _ hblen]
    · rename_i hne
      cases he
      simp only [List.append_assoc, bind, Except.bind, readExt_pre, Bool.false_eq_true, if_false]
      rw [if_neg hne]
      have : c.lo = n := (h3 (by simpa using hne)).symm
      simp only
      rw [this, readBits_append _ _ hblen]

theorem rt_utf8 (c : SizeC) : RT (.charString .utf8 c) := by
  intro v bits rest fuel hwf _ _ ht hf he hfuel
  cases v <;> simp only [hasType, Bool.false_eq_true] at ht
  rename_i cps
  rw [canon_charString]
  simp only [List.all_eq_true, Bool.and_eq_true, decide_eq_true_eq, Bool.not_eq_true',
    Bool.and_eq_false_iff, decide_eq_false_iff_not] at ht
  have hvalid : ∀ cp ∈ cps, cp < 0x110000 ∧ ¬ (0xd800 ≤ cp ∧ cp < 0xe000) := by
    intro cp hcp
    obtain ⟨h1, h2⟩ := ht cp hcp
    exact ⟨h1, by omega⟩
  have hbytes : ∀ b ∈ cps.flatMap utf8Enc, b < 256 := by
    intro b hb
    obtain ⟨cp, hcp, hb'⟩ := List.mem_flatMap.1 hb
    exact utf8Enc_lt_256 cp (hvalid cp hcp).1 b hb'
  rw [enc] at he
  cases he
  rw [dec]
  simp only [bind, Except.bind]
  rw [decChunks_encChunked _ (fuel) _ _ (all2_readNat8 _ hbytes _) rest (by omega) fuel (by omega)]
  simp only
  rw [utf8Dec_flatMap_utf8Enc cps hvalid _ (Nat.le_refl _)]

/-- one character of a known-multiplier string -/
def oneChar (k : StrKind) (b : Bits) : DecM (Nat × Bits) := do
  let (v, r) ← readNat (bitsPerChar k) b
  let ch ← charDecode k v
  .ok (ch, r)

def decStr (k : StrKind) (c : SizeC) (fuel : Nat) (bs : Bits) : DecM (Val × Bits) := do
  let (ext, r0) ← (if c.ext then readBit bs else .ok (false, bs))
  if ext then .error .notImplemented
  else
    match sizeBits c with
    | none => do
      let (xs, r) ← decChunks (oneChar k) fuel r0
      .ok (.str xs, r)
    | some w => do
      let (len, r) ← (if some c.lo ≠ c.hi then do let (d, r) ← readNat w r0; .ok (c.lo + d, r) else .ok (c.lo, r0))
      let (xs, r') ← decRepeat (oneChar k) len r
      .ok (.str xs, r')

theorem dec_charString (k : StrKind) (hk : k ≠ .utf8) (c : SizeC) (fuel : Nat) (bs : Bits) :
    dec (.charString k c) fuel bs = decStr k c fuel bs := by
  cases k <;> first | exact absurd rfl hk | (rw [dec]; rfl; intro h; cases h)

theorem all2_chars (k : StrKind) (hk : k ≠ .utf8) (cps codes : List Nat)
    (h : All2 (fun cp code => charCode k cp = .ok code) cps codes)
    (hall : ∀ cp ∈ cps, (alphabetOf k).contains cp = true) (L : Nat) :
    All2 (ItemRT (oneChar k) L) (codes.map (natToBits (bitsPerChar k))) cps := by
  induction h with
  | nil => exact .nil
  | @cons cp code cps codes hc _ ih =>
    refine .cons ?_ (ih (fun x hx => hall x (by simp [hx])))
    intro rest _
    obtain ⟨code', h1, h2, h3⟩ := char_rt k hk cp (hall cp (by simp))
    rw [hc] at h1; cases h1
    simp only [oneChar, bind, Except.bind]
    rw [readNat_natToBits rest h2]
    simp only [h3]

def encStr (k : StrKind) (c : SizeC) (cps : List Nat) : EncM Bits :=
  match cps.mapM (charCode k) with
  | .error e => .error e
  | .ok codes =>
    let items := codes.map (natToBits (bitsPerChar k))
    let pre : Bits := if c.ext then [false] else []
    if ¬ inSize c cps.length then .error .unmodelled else
    match sizeBits c with
    | none => .ok (pre ++ encChunked items)
    | some w =>
      if some c.lo ≠ c.hi then .ok (pre ++ natToBits w (cps.length - c.lo) ++ items.flatten)
      else .ok (pre ++ items.flatten)

theorem enc_charString (k : StrKind) (hk : k ≠ .utf8) (c : SizeC) (cps : List Nat) :
    enc (.charString k c) (.str cps) = encStr k c cps := by
  cases k <;> first | exact absurd rfl hk | (rw [enc]; rfl; intro h; cases h)

theorem rt_charString (k : StrKind) (hk : k ≠ .utf8) (c : SizeC) : RT (.charString k c) := by
  intro v bits rest fuel hwf _ _ ht hf he hfuel
  cases v <;> simp only [hasType, Bool.false_eq_true] at ht
  rename_i cps
  rw [canon_charString]
  simp only [Bool.and_eq_true, List.all_eq_true, sizeOk_eq_inSize] at ht
  obtain ⟨hall, hin⟩ := ht
  rw [enc_charString k hk] at he
  rw [dec_charString k hk]
  unfold encStr at he
  unfold decStr
  split at he
  · cases he
  rename_i codes hcodes
  have hall2 := all2_chars k hk cps codes (all2_of_mapM _ _ _ hcodes) hall
  have hlen : (codes.map (natToBits (bitsPerChar k))).length = cps.length := by
    rw [List.length_map]; exact (All2.length_eq (all2_of_mapM _ _ _ hcodes)).symm
  simp only [hin, not_true_eq_false, if_false] at he
  generalize codes.map (natToBits (bitsPerChar k)) = items at *
  split at he
  · rename_i hsb
    cases he
    simp only [List.append_assoc, bind, Except.bind, readExt_pre, Bool.false_eq_true, if_false]
    rw [decChunks_encChunked _ (fuel) _ _ (hall2 _) rest
      (by simp only [List.length_append] at hfuel; omega) fuel
      (by simp only [List.length_append] at hfuel; omega)]
  · rename_i w hsb
    obtain ⟨h1, h2, h3⟩ := sizeBits_some hsb hin
    split at he
    · rename_i hne
      cases he
      simp only [List.append_assoc, bind, Except.bind, readExt_pre, Bool.false_eq_true, if_false]
      rw [if_pos hne, readNat_natToBits _ h2]
      simp only
      have : c.lo + (cps.length - c.lo) = items.length := by omega
      rw [this, decRepeat_flatten _ fuel _ _ (hall2 _) rest
        (by simp only [List.length_append] at hfuel; omega)]
    · rename_i hne
      cases he
      simp only [List.append_assoc, bind, Except.bind, readExt_pre, Bool.false_eq_true, if_false]
      rw [if_neg hne]
      have : c.lo = items.length := by rw [hlen]; exact (h3 (by simpa using hne)).symm
      simp only
      rw [this, decRepeat_flatten _ fuel _ _ (hall2 _) rest
        (by simp only [List.length_append] at hfuel; omega)]

/-! ### totality -/

theorem et_octetString (c : SizeC) : ET (.octetString c) := by
  intro v hwf ht
  cases v <;> simp only [hasType, Bool.false_eq_true] at ht
  rw [Ty.wf] at hwf
  rw [enc]
  simp only [ext_hi_of_wf hwf, if_false]
  split
  · exact ⟨_, rfl⟩
  · split
    · exact ⟨_, rfl⟩
    · split <;> exact ⟨_, rfl⟩

theorem et_bitString (c : SizeC) : ET (.bitString c) := by
  intro v hwf ht
  cases v <;> simp only [hasType, Bool.false_eq_true] at ht
  rename_i data n
  rw [Ty.wf] at hwf
  simp only [Bool.and_eq_true, allBytes_iff, decide_eq_true_eq, sizeOk_eq_inSize] at ht
  obtain ⟨⟨hbytes, hlen⟩, hin⟩ := ht
  have htake : takeBits data n = .ok ((bytesToBits data).take n) := by
    unfold takeBits; rw [if_pos (by omega)]
  rw [enc]
  simp only [ext_hi_of_wf hwf, if_false, hin, not_true_eq_false, and_false, htake]
  split
  · exact ⟨_, rfl⟩
  · split <;> exact ⟨_, rfl⟩

theorem et_charString (k : StrKind) (c : SizeC) : ET (.charString k c) := by
  intro v hwf ht
  by_cases hk : k = .utf8
  · subst hk
    cases v <;> simp only [hasType, Bool.false_eq_true] at ht
    exact ⟨_, by rw [enc]⟩
  · cases v <;> simp only [hasType, Bool.false_eq_true] at ht
    rename_i cps
    simp only [Bool.and_eq_true, List.all_eq_true, sizeOk_eq_inSize] at ht
    obtain ⟨hall, hin⟩ := ht
    rw [enc_charString k hk]
    unfold encStr
    obtain ⟨codes, hcodes⟩ := mapM_ok_of_forall (charCode k) cps (by
      intro cp hcp
      obtain ⟨code, h1, _, _⟩ := char_rt k hk cp (hall cp hcp)
      exact ⟨code, h1⟩)
    simp only [hcodes, hin, not_true_eq_false, if_false]
    split
    · exact ⟨_, rfl⟩
    · split <;> exact ⟨_, rfl⟩

end Asn1.Uper
