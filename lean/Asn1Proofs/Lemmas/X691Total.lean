import Asn1Proofs.Lemmas.X691Refine
/-
  The specification encoder is total on well-typed values: for a well-formed type `t` (`Ty.wf`, and
  `Ty.optOk`: fewer than 64K OPTIONAL/DEFAULT root components per SEQUENCE, the one scope limit of S)
  and a value the library's checkers accept (`hasType`), `X691.enc aligned t pos v` is defined, in
  both variants and at every position.  So the refinement theorems are not vacuous.
-/
set_option linter.unusedSimpArgs false
namespace Asn1

mutual
  /-- every SEQUENCE in the type has fewer than 64K OPTIONAL / DEFAULT root components (the
  preamble needs no length determinant, X.691 18.3) -/
  def Ty.optOk : Ty → Bool
    | .sequence root _ adds => decide ((X691.preamble root []).length < 65536) && root.optOk && adds.optOk
    | .sequenceOf e _ => e.optOk
    | .choice root _ adds => root.optOk && adds.optOk
    | _ => true
  def Members.optOk : Members → Bool
    | .nil => true
    | .cons _ _ t rest => t.optOk && rest.optOk
  def Alts.optOk : Alts → Bool
    | .nil => true
    | .cons _ t rest => t.optOk && rest.optOk
end

namespace X691
open Asn1.Uper (lenDet encChunks encChunked padToByte)

def ST (t : Ty) : Prop :=
  ∀ (aligned : Bool) (v : Val) (pos : Nat), t.wf = true → t.optOk = true → hasType t v = true →
    ∃ bits, enc aligned t pos v = .ok bits

/-! ### generic -/

section generic
variable {α : Type} (aligned : Bool) (f : Nat → α → EncM Bits)

theorem seqM_total (vs : List α) (h : ∀ v ∈ vs, ∀ p, ∃ b, f p v = .ok b) (pos : Nat) :
    ∃ b, seqM f pos vs = .ok b := by
  induction vs generalizing pos with
  | nil => exact ⟨[], rfl⟩
  | cons v r ih =>
    obtain ⟨a, ha⟩ := h v (by simp) pos
    obtain ⟨b, hb⟩ := ih (fun x hx => h x (by simp [hx])) (pos + a.length)
    exact ⟨a ++ b, by rw [seqM, ha]; simp only [hb]⟩

theorem fragM_total (fuel : Nat) (vs : List α) (h : ∀ v ∈ vs, ∀ p, ∃ b, f p v = .ok b) (pos : Nat) :
    ∃ b, fragM aligned f fuel pos vs = .ok b := by
  induction fuel generalizing vs pos with
  | zero => exact ⟨[], rfl⟩
  | succ fuel ih =>
    rw [fragM]
    simp only
    obtain ⟨body, hb⟩ := seqM_total f (vs.take (lengthOctets vs.length).2)
      (fun x hx => h x (List.mem_of_mem_take hx))
      (pos + (pad aligned pos).length + (lengthOctets vs.length).1.length)
    rw [hb]
    simp only
    split
    · exact ⟨_, rfl⟩
    · obtain ⟨rest, hr⟩ := ih (vs.drop (lengthOctets vs.length).2)
        (fun x hx => h x (List.mem_of_mem_drop hx))
        (pos + (pad aligned pos).length + (lengthOctets vs.length).1.length + body.length)
      rw [hr]
      exact ⟨_, rfl⟩

theorem sizedM_total (lo : Nat) (hi : Option Nat) (af av : Bool) (pos : Nat) (vs : List α)
    (h : ∀ v ∈ vs, ∀ p, ∃ b, f p v = .ok b)
    (hlo : lo ≤ vs.length) (hhi : ∀ ub, hi = some ub → vs.length ≤ ub) :
    ∃ b, sizedM aligned f lo hi af av pos vs = .ok b := by
  unfold sizedM
  simp only
  rw [if_neg (by omega)]
  cases hi with
  | none => exact fragM_total aligned f _ vs h pos
  | some ub =>
    simp only
    have := hhi ub rfl
    rw [if_neg (by omega)]
    split
    · split
      · obtain ⟨b, hb⟩ := seqM_total f vs h
          (pos + (if af = true then pad aligned pos else []).length)
        rw [hb]; exact ⟨_, rfl⟩
      · obtain ⟨b, hb⟩ := seqM_total f vs h
          (pos + (cwn aligned pos (vs.length - lo) (ub - lo + 1)).length +
            (if av = true then pad aligned (pos + (cwn aligned pos (vs.length - lo) (ub - lo + 1)).length)
              else []).length)
        rw [hb]; exact ⟨_, rfl⟩
    · exact fragM_total aligned f _ vs h pos

theorem inRoot_eq_sizeOk (c : SizeC) (n : Nat) : inRoot c n = sizeOk c n := rfl

theorem extSizedM_total (c : SizeC) (af av : Bool) (pos : Nat) (vs : List α)
    (h : ∀ v ∈ vs, ∀ p, ∃ b, f p v = .ok b)
    (hs : c.ext = true ∨ sizeOk c vs.length = true) :
    ∃ b, extSizedM aligned f c af av pos vs = .ok b := by
  have hsized : ∀ p, sizeOk c vs.length = true →
      ∃ b, sizedM aligned f c.lo c.hi af av p vs = .ok b := by
    intro p hok
    unfold sizeOk at hok
    simp only [Bool.and_eq_true, decide_eq_true_eq] at hok
    apply sizedM_total aligned f _ _ _ _ _ _ h hok.1
    intro ub hub
    rw [hub] at hok
    simpa using hok.2
  unfold extSizedM
  by_cases hext : c.ext = true
  · rw [if_pos hext, inRoot_eq_sizeOk]
    cases hok : sizeOk c vs.length with
    | true =>
      simp only [if_true]
      obtain ⟨b, hb⟩ := hsized (pos + 1) hok
      rw [hb]; exact ⟨_, rfl⟩
    | false =>
      simp only [Bool.false_eq_true, if_false]
      obtain ⟨b, hb⟩ := fragM_total aligned f (vs.length / 16384 + 2) vs h (pos + 1)
      unfold genLenM
      rw [hb]; exact ⟨_, rfl⟩
  · rw [if_neg hext]
    rcases hs with hs | hs
    · exact absurd hs hext
    · exact hsized pos hs

end generic

theorem leaf_total (items : List Bits) : ∀ v ∈ items, ∀ p, ∃ b, leaf p v = .ok b :=
  fun v _ _ => ⟨v, rfl⟩

/-! ### types without components -/

theorem st_boolean : ST .boolean := by
  intro aligned v pos _ _ ht
  cases v <;> simp only [hasType, Bool.false_eq_true] at ht
  simp only [enc]
  exact ⟨_, rfl⟩

theorem st_null : ST .null := by
  intro aligned v pos _ _ ht
  cases v <;> simp only [hasType, Bool.false_eq_true] at ht
  simp only [enc]
  exact ⟨_, rfl⟩

theorem st_integer (c : IntC) : ST (.integer c) := by
  intro aligned v pos hwf _ ht
  cases v <;> simp only [hasType, Bool.false_eq_true] at ht
  rename_i i
  obtain ⟨lo, hi, ext⟩ := c
  simp only [enc]
  unfold encInteger
  simp only [Ty.wf] at hwf
  simp only [intInRange, Bool.or_eq_true] at ht
  cases lo with
  | none =>
    have hext : ext = false := by
      cases hi <;> simpa using hwf
    subst hext
    simp only [Bool.false_eq_true, if_false, false_or, Bool.true_and] at ht ⊢
    cases hi with
    | none => exact ⟨_, rfl⟩
    | some ub =>
      simp only [decide_eq_true_eq] at ht
      simp only [ht, if_true]
      exact ⟨_, rfl⟩
  | some lb =>
    cases hi with
    | none =>
      have hext : ext = false := by simpa using hwf
      subst hext
      simp only [Bool.false_eq_true, if_false, false_or, Bool.and_true, decide_eq_true_eq] at ht ⊢
      simp only [ht, if_true]
      exact ⟨_, rfl⟩
    | some ub =>
      simp only [Bool.and_eq_true, decide_eq_true_eq] at ht
      cases ext with
      | false =>
        simp only [Bool.false_eq_true, if_false, false_or] at ht ⊢
        simp only [ht, and_self, if_true]
        exact ⟨_, rfl⟩
      | true =>
        simp only [if_true]
        by_cases hin : lb ≤ i ∧ i ≤ ub
        · simp only [hin, decide_true, Bool.and_self, if_true, and_self]
          exact ⟨_, rfl⟩
        · have hdec : (decide (lb ≤ i) && decide (i ≤ ub)) = false := by
            simp only [Bool.and_eq_false_iff, decide_eq_false_iff_not]
            by_cases h1 : lb ≤ i
            · right; intro h2; exact hin ⟨h1, h2⟩
            · left; exact h1
          simp only [hdec, Bool.false_eq_true, if_false]
          exact ⟨_, rfl⟩

theorem st_enumerated (root : List (String × Int)) (ext : Option (List (String × Int))) :
    ST (.enumerated root ext) := by
  intro aligned v pos _ _ ht
  cases v <;> simp only [hasType, Bool.false_eq_true] at ht
  rename_i name
  simp only [enc]
  unfold encEnumerated
  simp only [sortAsc_eq, indexOfName_map_fst]
  by_cases hr : name ∈ namesOf root
  · obtain ⟨i, hi⟩ := Uper.nameIndex_of_mem name (Uper.sortByVal root)
      ((Uper.mem_namesOf_sortByVal _ _).2 hr)
    cases ext <;> simp only [hi] <;> exact ⟨_, rfl⟩
  · have hnone := Uper.nameIndex_none name (Uper.sortByVal root)
      (fun h => hr ((Uper.mem_namesOf_sortByVal _ _).1 h))
    have hc : (namesOf root).contains name = false := by simpa using hr
    cases ext with
    | none => simp at ht; exact absurd ht hr
    | some adds =>
      simp only [hc, Bool.false_or, List.contains_iff_mem] at ht
      obtain ⟨i, hi⟩ := Uper.nameIndex_of_mem name adds (by simpa using ht)
      simp only [hnone, hi]
      exact ⟨_, rfl⟩

theorem st_octetString (c : SizeC) : ST (.octetString c) := by
  intro aligned v pos _ _ ht
  cases v <;> simp only [hasType, Bool.false_eq_true] at ht
  rename_i data
  simp only [Bool.and_eq_true, Bool.or_eq_true] at ht
  simp only [enc]
  unfold encOctetString
  have hall : (data.all fun x => decide (x < 256)) = true := ht.1
  rw [if_pos hall]
  exact extSizedM_total aligned leaf c _ _ pos _ (leaf_total _) (by simpa using ht.2)

theorem st_bitString (c : SizeC) : ST (.bitString c) := by
  intro aligned v pos _ _ ht
  cases v <;> simp only [hasType, Bool.false_eq_true] at ht
  rename_i data n
  simp only [Bool.and_eq_true, decide_eq_true_eq] at ht
  obtain ⟨⟨_, hlen⟩, hsz⟩ := ht
  simp only [enc]
  unfold encBitString
  have hn : n ≤ 8 * data.length := by omega
  rw [if_pos hn]
  apply extSizedM_total aligned leaf c _ _ pos _ (leaf_total _)
  right
  have : (List.take n (bytesToBits data)).length = n := by
    rw [List.length_take, bytesToBits_length]; omega
  rw [List.length_map, this]
  exact hsz

theorem uper_alphabet_lt (k : StrKind) : ∀ c ∈ Uper.alphabetOf k, c < 128 := by
  cases k <;> decide +kernel

theorem charValue_total (aligned : Bool) (k : StrKind) :
    ∀ cp, cp < 128 → (Uper.alphabetOf k).contains cp = true →
      ∃ v, charValue aligned k cp = .ok v := by
  have h : ∀ cp, cp < 128 → (Uper.alphabetOf k).contains cp = true →
      (charValue aligned k cp).toOption.isSome = true := by
    cases aligned <;> cases k <;> decide +kernel
  intro cp h1 h2
  have := h cp h1 h2
  cases hc : charValue aligned k cp with
  | ok v => exact ⟨v, rfl⟩
  | error e => rw [hc] at this; cases this

theorem st_charString (k : StrKind) (c : SizeC) : ST (.charString k c) := by
  intro aligned v pos _ _ ht
  cases v <;> simp only [hasType, Bool.false_eq_true] at ht
  rename_i cps
  have hkm : k ≠ .utf8 → cps.all (fun cp => (Uper.alphabetOf k).contains cp) = true →
      sizeOk c cps.length = true → ∃ b, encKnownMultiplier aligned k c pos cps = .ok b := by
    intro _ hal hsz
    unfold encKnownMultiplier
    obtain ⟨vals, hv⟩ := Uper.mapM_ok_of_forall (charValue aligned k) cps (by
      intro cp hcp
      have hc := List.all_eq_true.mp hal cp hcp
      exact charValue_total aligned k cp (uper_alphabet_lt k cp (by simpa using hc)) hc)
    rw [hv]
    simp only
    apply extSizedM_total aligned leaf c _ _ pos _ (leaf_total _)
    right
    rw [List.length_map, mapM_length' _ _ _ hv]
    exact hsz
  cases k with
  | utf8 =>
    simp only at ht
    simp only [enc]
    unfold encUtf8
    rw [if_pos ht]
    exact ⟨_, rfl⟩
  | ia5 =>
    simp only [Bool.and_eq_true] at ht
    simp only [enc]
    exact hkm (by decide) ht.1 ht.2
  | visible =>
    simp only [Bool.and_eq_true] at ht
    simp only [enc]
    exact hkm (by decide) ht.1 ht.2
  | numeric =>
    simp only [Bool.and_eq_true] at ht
    simp only [enc]
    exact hkm (by decide) ht.1 ht.2
  | printable =>
    simp only [Bool.and_eq_true] at ht
    simp only [enc]
    exact hkm (by decide) ht.1 ht.2

/-! ### SEQUENCE OF -/

theorem st_sequenceOf (e : Ty) (c : SizeC) (ih : ST e) : ST (.sequenceOf e c) := by
  intro aligned v pos hwf hopt ht
  cases v <;> simp only [hasType, Bool.false_eq_true] at ht
  rename_i vs
  rw [Ty.wf] at hwf
  rw [Ty.optOk] at hopt
  simp only [Bool.and_eq_true, List.all_eq_true, Bool.or_eq_true] at ht hwf
  simp only [enc]
  apply extSizedM_total aligned (enc aligned e) c _ _ pos vs
  · intro v hv p
    exact ih aligned v p hwf.1 hopt (ht.1 v hv)
  · exact ht.2

/-! ### SEQUENCE -/

theorem preamble_length (ms : Members) (fs : List (String × Val)) :
    (preamble ms fs).length = (preamble ms []).length := by
  induction ms using Members.ind with
  | nil => rfl
  | cons name p t rest ih =>
    rw [preamble.eq_def, preamble.eq_def]
    simp only
    cases p with
    | mandatory => exact ih
    | optional => simp [ih]
    | default d =>
      simp only [lookup]
      cases lookup name fs <;> simp [ih]

theorem all_optOk (ms : Members) (h : ms.optOk = true) : ms.All (fun t => t.optOk = true) := by
  induction ms using Members.ind with
  | nil => trivial
  | cons n p t rest ih =>
    simp only [Members.optOk, Bool.and_eq_true] at h
    exact ⟨h.1, ih h.2⟩

theorem all_wf_members (ms : Members) (h : ms.wf = true) : ms.All (fun t => t.wf = true) := by
  induction ms using Members.ind with
  | nil => trivial
  | cons n p t rest ih =>
    simp only [Members.wf, Bool.and_eq_true] at h
    exact ⟨h.1, ih h.2⟩

theorem encRoot_total (aligned : Bool) (fs : List (String × Val)) (ms : Members) :
    ms.All ST → ms.wf = true → ms.optOk = true → membersOk ms fs = true →
    ∀ pos, ∃ body, encRoot aligned ms fs pos = .ok body := by
  induction ms using Members.ind with
  | nil => intros; exact ⟨[], by rw [encRoot.eq_def]⟩
  | cons name p t rest ih =>
    intro hall hwf hopt hok pos
    obtain ⟨ht, hrest⟩ := hall
    simp only [Members.wf, Bool.and_eq_true] at hwf
    simp only [Members.optOk, Bool.and_eq_true] at hopt
    simp only [membersOk, Bool.and_eq_true] at hok
    rw [encRoot.eq_def]
    simp only
    have hhere : ∃ a, (match lookup name fs with
        | some v =>
          match p with
          | .default d => if isDefault t v d then (.ok [] : EncM Bits) else enc aligned t pos v
          | _ => enc aligned t pos v
        | none =>
          match p with
          | .mandatory => invalid
          | _ => .ok []) = .ok a := by
      cases hl : lookup name fs with
      | none =>
        rw [hl] at hok
        cases p with
        | mandatory => simp at hok
        | optional => exact ⟨[], rfl⟩
        | default d => exact ⟨[], rfl⟩
      | some v =>
        rw [hl] at hok
        simp only at hok
        obtain ⟨b, hb⟩ := ht aligned v pos hwf.1 hopt.1 hok.1
        cases p with
        | mandatory => exact ⟨b, hb⟩
        | optional => exact ⟨b, hb⟩
        | default d =>
          simp only
          split
          · exact ⟨[], rfl⟩
          · exact ⟨b, hb⟩
    obtain ⟨a, ha⟩ := hhere
    obtain ⟨b, hb⟩ := ih hrest hwf.2 hopt.2 hok.2 (pos + a.length)
    split
    · rename_i e heq
      have := heq.symm.trans ha
      cases this
    · rename_i a' heq
      have := heq.symm.trans ha
      cases this
      rw [hb]
      exact ⟨_, rfl⟩

theorem encAdds_total (aligned : Bool) (fs : List (String × Val)) (ms : Members) :
    ms.All ST → ms.wf = true → ms.optOk = true → membersOk ms fs = true →
    ∃ r, encAdds aligned ms fs = .ok r := by
  induction ms using Members.ind with
  | nil => intros; exact ⟨_, by rw [encAdds.eq_def]⟩
  | cons name p t rest ih =>
    intro hall hwf hopt hok
    obtain ⟨ht, hrest⟩ := hall
    simp only [Members.wf, Bool.and_eq_true] at hwf
    simp only [Members.optOk, Bool.and_eq_true] at hopt
    simp only [membersOk, Bool.and_eq_true] at hok
    obtain ⟨⟨bm, es⟩, hr⟩ := ih hrest hwf.2 hopt.2 hok.2
    rw [encAdds.eq_def]
    simp only [hr]
    cases hl : lookup name fs with
    | none =>
      rw [hl] at hok
      cases p with
      | mandatory => simp at hok
      | optional => exact ⟨_, rfl⟩
      | default d => exact ⟨_, rfl⟩
    | some v =>
      rw [hl] at hok
      simp only at hok ⊢
      obtain ⟨b, hb⟩ := ht aligned v 0 hwf.1 hopt.1 hok.1
      rw [hb]
      exact ⟨_, rfl⟩

theorem st_sequence (root : Members) (ext : Bool) (adds : Members)
    (ihr : root.All ST) (iha : adds.All ST) : ST (.sequence root ext adds) := by
  intro aligned v pos hwf hopt ht
  cases v <;> try (simp only [hasType, Bool.false_eq_true] at ht; done)
  rename_i fs
  rw [Ty.wf] at hwf
  rw [Ty.optOk] at hopt
  simp only [Bool.and_eq_true, decide_eq_true_eq, Bool.or_eq_true, beq_iff_eq] at hwf hopt
  obtain ⟨⟨⟨⟨hrwf, hawf⟩, hnd⟩, _⟩, _⟩ := hwf
  obtain ⟨⟨hpre, hropt⟩, haopt⟩ := hopt
  obtain ⟨hokr, hoka⟩ := membersOk_of_hasType root adds ext fs hnd ht
  simp only [enc]
  rw [if_neg (by rw [preamble_length]; omega)]
  obtain ⟨body, hbody⟩ := encRoot_total aligned fs root ihr hrwf hropt hokr
    (pos + (if ext = true then 1 else 0) + (preamble root fs).length)
  rw [hbody]
  simp only
  obtain ⟨⟨bm, es⟩, hr⟩ := encAdds_total aligned fs adds iha hawf haopt hoka
  rw [hr]
  simp only
  split
  · split <;> exact ⟨_, rfl⟩
  · exact ⟨_, rfl⟩

/-! ### CHOICE -/

theorem indexOfName_find (as : Alts) (name : String) :
    indexOfName name as.names = (as.find name).map (·.1) := by
  induction as using Alts.ind with
  | nil => rfl
  | cons n t rest ih =>
    simp only [Alts.names, indexOfName, Alts.find]
    split
    · rfl
    · rw [ih]
      cases rest.find name <;> rfl

theorem encAlt_find' (aligned : Bool) (as : Alts) (name : String) (pos : Nat) (v : Val) :
    encAlt aligned as name pos v = (as.find name).map (fun x => enc aligned x.2 pos v) := by
  induction as using Alts.ind with
  | nil => rw [encAlt.eq_def]; rfl
  | cons n t rest ih =>
    rw [encAlt.eq_def]
    simp only [Alts.find]
    split
    · rfl
    · rw [ih]
      cases rest.find name <;> rfl

theorem all_optOk_alts (as : Alts) (h : as.optOk = true) : as.All (fun t => t.optOk = true) := by
  induction as using Alts.ind with
  | nil => trivial
  | cons n t rest ih =>
    simp only [Alts.optOk, Bool.and_eq_true] at h
    exact ⟨h.1, ih h.2⟩

theorem st_choice (root : Alts) (ext : Bool) (adds : Alts)
    (ihr : root.All ST) (iha : adds.All ST) : ST (.choice root ext adds) := by
  intro aligned v pos hwf hopt ht
  cases v <;> simp only [hasType, Bool.false_eq_true] at ht
  rename_i name w
  rw [Ty.wf] at hwf
  rw [Ty.optOk] at hopt
  simp only [Bool.and_eq_true, Bool.or_eq_true, decide_eq_true_eq, beq_iff_eq] at ht hwf hopt
  obtain ⟨⟨⟨⟨hrwf, hawf⟩, hrpos⟩, hnd⟩, hext⟩ := hwf
  rw [Uper.hasAlt_find, Uper.hasAlt_find] at ht
  simp only [enc]
  rw [indexOfName_find, indexOfName_find]
  cases hfr : root.find name with
  | some x =>
    obtain ⟨j, t⟩ := x
    have hnr : name ∈ root.names := by
      by_cases h : name ∈ root.names
      · exact h
      · have := (Uper.find_none_iff name root).2 h
        rw [this] at hfr; cases hfr
    have hfa : adds.find name = none := by
      rw [Uper.find_none_iff]
      intro hna
      exact (List.nodup_append.1 hnd).2.2 name hnr name hna rfl
    simp only [hfr, hfa, Bool.false_eq_true, or_false] at ht
    simp only [Option.map_some]
    rw [encAlt_find', hfr]
    simp only [Option.map_some]
    have hst := Uper.find_all name root j t hfr ihr
    have hwt := Uper.find_all name root j t hfr (Uper.all_wf root hrwf)
    have hot := Uper.find_all name root j t hfr (all_optOk_alts root hopt.1)
    obtain ⟨body, hbody⟩ := hst aligned w
      (pos + (if ext = true then 1 else 0) + (cwn aligned (pos + if ext = true then 1 else 0) j root.length).length)
      hwt hot ht
    rw [hbody]
    exact ⟨_, rfl⟩
  | none =>
    simp only [hfr, Bool.false_eq_true, false_or] at ht
    cases hfa : adds.find name with
    | none => simp [hfa] at ht
    | some x =>
      obtain ⟨j, t⟩ := x
      have hj := Uper.find_lt name adds j t hfa
      have hext' : ext = true := by
        rcases hext with h | h
        · exact h
        · omega
      simp only [hfa] at ht
      simp only [Option.map_none, hext', if_true, Option.map_some]
      rw [encAlt_find', hfa]
      simp only [Option.map_some]
      have hst := Uper.find_all name adds j t hfa iha
      have hwt := Uper.find_all name adds j t hfa (Uper.all_wf adds hawf)
      have hot := Uper.find_all name adds j t hfa (all_optOk_alts adds hopt.2)
      obtain ⟨body, hbody⟩ := hst aligned w 0 hwt hot ht
      rw [hbody]
      exact ⟨_, rfl⟩

/-! ### all types -/

theorem st_all (t : Ty) : ST t :=
  Ty.rec (motive_1 := ST) (motive_2 := Members.All ST) (motive_3 := Alts.All ST)
    st_boolean st_null st_integer st_enumerated st_octetString st_bitString st_charString
    (fun root ext adds ihr iha => st_sequence root ext adds ihr iha)
    (fun e c ih => st_sequenceOf e c ih)
    (fun root ext adds ihr iha => st_choice root ext adds ihr iha)
    trivial (fun _ _ _ _ iht ihr => ⟨iht, ihr⟩)
    trivial (fun _ _ _ iht ihr => ⟨iht, ihr⟩) t

/-- the specification defines an encoding for every value the checkers accept -/
theorem enc_total (aligned : Bool) (t : Ty) (v : Val) (pos : Nat)
    (hwf : t.wf = true) (hopt : t.optOk = true) (ht : hasType t v = true) :
    ∃ bits, enc aligned t pos v = .ok bits :=
  st_all t aligned v pos hwf hopt ht

end X691
end Asn1

#print axioms Asn1.X691.enc_total
