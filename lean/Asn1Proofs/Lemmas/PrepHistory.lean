import Asn1Proofs.Lemmas.PrepResolve
/-
  Dictionaries without COMPONENTS OF entries in the member lists of their type assignments: the
  rewrite is a plain map over the modules, and a rewrite under one `numeric_enums` flag followed by
  a rewrite under another one is absorbed under the hypothesis `PH` on every descriptor.
-/
namespace Asn1.SpecDict
open Preprocess

/-- the three attribute passes on every type assignment of a module -/
def locModule (sk : Skel) (n : Bool) (p : String × Module) : String × Module :=
  (p.1, p.2.mapTypes (locDesc sk n p.1 (p.2.tags.getD "EXPLICIT") p.2.extImplied))

/-- no member list of a type assignment contains a COMPONENTS OF entry -/
def AllClean (s : Spec) : Prop :=
  ∀ mn m, (mn, m) ∈ s → ∀ k d, (k, d) ∈ m.types → d.topClean = true

theorem AllClean_run (n : Bool) (d : Spec) : AllClean (run n d) := by
  intro mn m hm k td htd
  obtain ⟨j, hj⟩ := List.mem_iff_getElem?.1 hm
  exact ModClean_run n d j mn m hj k td htd

theorem run_of_clean_aux (n : Bool) (sk : Skel) (post pre : Spec)
    (hsk : skel (pre ++ post) = sk)
    (hc : ∀ mn m, (mn, m) ∈ post → ∀ k d, (k, d) ∈ m.types → d.topClean = true) :
    (List.range' pre.length post.length).foldl (procModule n) (pre ++ post)
      = pre ++ post.map (locModule sk n) := by
  induction post generalizing pre with
  | nil => simp
  | cons x rest ih =>
    obtain ⟨mn, m⟩ := x
    have hi : (pre ++ (mn, m) :: rest)[pre.length]? = some (mn, m) := by simp
    have hclean : ModClean (pre ++ (mn, m) :: rest) pre.length := by
      intro mn' m' hm' k d hd
      rw [hi] at hm'
      simp only [Option.some.injEq, Prod.mk.injEq] at hm'
      obtain ⟨rfl, rfl⟩ := hm'
      exact hc mn m (by simp) k d hd
    have hstep : procModule n (pre ++ (mn, m) :: rest) pre.length
        = (pre ++ [locModule sk n (mn, m)]) ++ rest := by
      rw [procModule_eq n hi, compOfModule_of_clean _ _ hclean, modifyAt_append_cons, hsk]
      simp [locModule]
    simp only [List.length_cons, List.range'_succ, List.foldl_cons, hstep]
    have hlen : (pre ++ [locModule sk n (mn, m)]).length = pre.length + 1 := by simp
    rw [← hlen, ih (pre ++ [locModule sk n (mn, m)])
      (by rw [← hstep, skel_procModule, hsk])
      (fun mn' m' hm' => hc mn' m' (by simp [hm']))]
    simp

theorem run_of_clean (n : Bool) (s : Spec) (h : AllClean s) :
    run n s = s.map (locModule (skel s) n) := by
  have := run_of_clean_aux n (skel s) s [] rfl h
  simpa [run, List.range_eq_range'] using this

theorem AllClean_map_locModule (sk : Skel) (n : Bool) {s : Spec} (h : AllClean s) :
    AllClean (s.map (locModule sk n)) := by
  intro mn m hm k d hd
  obtain ⟨p, hp, hpe⟩ := List.mem_map.1 hm
  obtain ⟨mn0, m0⟩ := p
  simp only [locModule, Prod.mk.injEq] at hpe
  obtain ⟨rfl, rfl⟩ := hpe
  simp only [Module.mapTypes] at hd
  obtain ⟨d0, hd0, rfl⟩ := mem_mapSnd hd
  rw [topClean_locDesc]
  exact h mn0 m0 hp k d0 hd0

/-! ### the hypothesis on descriptors under which a change of `numeric_enums` is absorbed -/

/-- For a descriptor whose type resolves (from module `mn`) to ENUMERATED: names and numbers of the
enumeration determine each other and none is a value reference, and the DEFAULT is not a Python
`bool`. -/
def PH (sk : Skel) (mn : String) (a : Attrs) : Prop :=
  (resolve sk a.core mn).type = "ENUMERATED" →
    (∀ vals, (resolve sk a.core mn).values = some vals → GoodEnum vals) ∧
    (∀ v b, a.default = some v → v ≠ .bool b)

theorem PH_tag (sk : Skel) (mn mt mn' : String) (k : Option Nat) {a : Attrs} (h : PH sk mn a) :
    PH sk mn (kindAttrs sk mt mn' (numAttrs k a)) := by
  simpa [PH] using h

theorem PH_conv (sk : Skel) (mn : String) (b : Bool) {a : Attrs} (h : PH sk mn a) :
    PH sk mn (convAttrs sk b mn a) := by
  intro he
  rw [convAttrs_core] at he
  obtain ⟨h1, h2⟩ := h he
  refine ⟨by rw [convAttrs_core]; exact h1, ?_⟩
  intro v c hv
  rw [convAttrs_default] at hv
  cases hd : a.default with
  | none => simp [hd] at hv
  | some v0 =>
    simp only [hd, Option.map_some, Option.some.injEq] at hv
    rw [← hv]
    exact convDefault_not_bool b _ v0 (fun _ c' => h2 v0 c' hd) he c

theorem PH_absorb (sk : Skel) (mn : String) (m n : Bool) {a : Attrs} (h : PH sk mn a) :
    Absorbs sk n mn m a := by
  refine Absorbs_of_value _ _ _ _ _ (fun v hv => ?_)
  exact convDefault_absorb m n _ v (fun he => (h he).1) (fun he c => (h he).2 v c hv)

/-- the dictionary-level hypothesis of the history theorem -/
def HistOK (d : Spec) : Prop :=
  AllClean d ∧ ∀ mn m, (mn, m) ∈ d → ∀ k td, (k, td) ∈ m.types → td.All (PH (skel d) mn)

theorem skel_map_locModule (n : Bool) (s : Spec) (h : AllClean s) :
    skel (s.map (locModule (skel s) n)) = skel s := by
  rw [← run_of_clean n s h, skel_run]

theorem locModule_all (sk : Skel) (b : Bool) (p : String × Module)
    (h : ∀ k td, (k, td) ∈ p.2.types → td.All (PH sk p.1)) :
    ∀ k td, (k, td) ∈ (locModule sk b p).2.types → td.All (PH sk p.1) := by
  intro k td htd
  obtain ⟨mn0, m0⟩ := p
  simp only [locModule, Module.mapTypes] at htd
  obtain ⟨d0, hd0, rfl⟩ := mem_mapSnd htd
  exact Desc.All.loc (P := PH sk mn0) sk mn0 (m0.tags.getD "EXPLICIT") m0.extImplied b
    (fun a k => PH_tag sk mn0 _ mn0 k) (fun a => PH_conv sk mn0 b) (h k d0 hd0)

theorem locModule_locModule (sk : Skel) (m n : Bool) (p : String × Module)
    (h : ∀ k td, (k, td) ∈ p.2.types → td.All (PH sk p.1)) :
    locModule sk n (locModule sk m p) = locModule sk n p := by
  obtain ⟨mn0, m0⟩ := p
  have : mapSnd (locDesc sk n mn0 (m0.tags.getD "EXPLICIT") m0.extImplied)
      (mapSnd (locDesc sk m mn0 (m0.tags.getD "EXPLICIT") m0.extImplied) m0.types)
      = mapSnd (locDesc sk n mn0 (m0.tags.getD "EXPLICIT") m0.extImplied) m0.types := by
    rw [mapSnd_mapSnd]
    refine mapSnd_congr ?_
    intro k td htd
    exact locDesc_absorb (P := PH sk mn0) sk mn0 (m0.tags.getD "EXPLICIT") m0.extImplied m n
      (fun a k => PH_tag sk mn0 _ mn0 k) (fun a => PH_absorb sk mn0 m n) (h k td htd)
  simp only [locModule, Module.mapTypes]
  rw [this]

theorem HistOK_map (b : Bool) {d : Spec} (h : HistOK d) :
    HistOK (d.map (locModule (skel d) b)) := by
  obtain ⟨hc, hp⟩ := h
  refine ⟨AllClean_map_locModule _ _ hc, ?_⟩
  rw [skel_map_locModule b d hc]
  intro mn m hm k td htd
  obtain ⟨p, hp0, hpe⟩ := List.mem_map.1 hm
  have h1 := locModule_all (skel d) b p (fun k td htd => hp p.1 p.2 hp0 k td htd)
  have h2 : (locModule (skel d) b p).1 = p.1 := rfl
  rw [hpe] at h1 h2
  have h3 : mn = p.1 := h2
  rw [h3]
  exact h1 k td htd

theorem HistOK_run (b : Bool) {d : Spec} (h : HistOK d) : HistOK (run b d) := by
  rw [run_of_clean b d h.1]
  exact HistOK_map b h

/-- a rewrite under flag `m` followed by one under flag `n` is the rewrite under `n` -/
theorem run_absorb (m n : Bool) {d : Spec} (h : HistOK d) : run n (run m d) = run n d := by
  obtain ⟨hc, hp⟩ := h
  rw [run_of_clean n d hc, run_of_clean m d hc,
    run_of_clean n _ (AllClean_map_locModule _ _ hc), skel_map_locModule m d hc, List.map_map]
  refine List.map_congr_left ?_
  intro p hp0
  exact locModule_locModule (skel d) m n p (fun k td htd => hp p.1 p.2 hp0 k td htd)

theorem run_history_aux (n : Bool) (hist : List Bool) {d : Spec} (h : HistOK d) :
    run n (hist.foldl (fun d b => run b d) d) = run n d := by
  induction hist generalizing d with
  | nil => rfl
  | cons b t ih =>
    simp only [List.foldl_cons]
    rw [ih (HistOK_run b h), run_absorb b n h]

end Asn1.SpecDict
