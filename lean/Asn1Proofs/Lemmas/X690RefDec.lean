import Asn1Proofs.Lemmas.X690Int
/-
  The reference BER decoder of the S-level X.690 model (`X690.decV` / `X690.berDecodeRef`) reads
  back every encoding written by the code-level DER / BER encoder (`Der.enc`): C04
  `encoder_in_spec`.
-/
set_option linter.unusedSimpArgs false
set_option linter.unusedVariables false
namespace Asn1.X690
open Asn1.Der (enc ET Starts StartsGe)

/-- the reference decoder reads back every encoding the code writes, in every tagging context, whatever follows -/
def RTref (t : Ty) : Prop :=
  ∀ (tg : Option Nat) (v : Val) (bytes rest : Bytes) (fuel : Nat),
    t.wf = true → Oer.oerWf t = true → defaultsOkV t = true → hasType t v = true →
    Der.enc t tg v = .ok bytes → bytes.length < fuel → bytes.length < 256 ^ 126 →
    decV t tg fuel (bytes ++ rest) = some (canonV t v, rest)

/-! ### framing -/

theorem stripPrefix_nil (bs : Bytes) : stripPrefix [] bs = some bs := by
  cases bs <;> rfl

theorem stripPrefix_append (p r : Bytes) : stripPrefix p (p ++ r) = some r := by
  induction p with
  | nil => exact stripPrefix_nil r
  | cons x xs ih => simp [stripPrefix, ih]

theorem stripPrefix_some_rd {p bs r : Bytes} (h : stripPrefix p bs = some r) : bs = p ++ r := by
  induction p generalizing bs with
  | nil => rw [stripPrefix_nil] at h; cases h; rfl
  | cons x xs ih =>
    cases bs with
    | nil => simp [stripPrefix] at h
    | cons b bs =>
      simp only [stripPrefix] at h
      split at h
      · rename_i hb
        have := ih h
        simp only [beq_iff_eq] at hb
        simp [hb, this]
      · cases h

theorem takeN_append_acc (a b acc : Bytes) : takeN a.length (a ++ b) acc = some (acc.reverse ++ a, b) := by
  induction a generalizing acc with
  | nil => simp [takeN]
  | cons x xs ih => simp [takeN, ih]

theorem takeN_append' (a b : Bytes) : takeN a.length (a ++ b) [] = some (a, b) := by
  simpa using takeN_append_acc a b []

/-- 8.1.3.5: at most 126 subsequent length octets -/
theorem readLength_encLength (n : Nat) (r : Bytes) (hn : n < 256 ^ 126) :
    readLength (Ber.encLength n ++ r) = some (.definite n, r) := by
  unfold Ber.encLength
  split
  · rename_i h
    simp only [List.cons_append, List.nil_append, readLength]
    rw [if_pos (by omega)]
  · rename_i h
    have hlen : (natToBytesMin n).length = byteLength n := Ber.natToBytesN_length _ _
    have h1 := Ber.one_le_byteLength n (by omega)
    have h2 : byteLength n ≤ 126 := (Ber.byteLength_le_iff n 126).2 hn
    simp only [List.cons_append, readLength]
    rw [if_neg (by omega), if_neg (by omega), if_pos (by omega)]
    have e : 128 + (natToBytesMin n).length - 128 = (natToBytesMin n).length := by omega
    rw [e, takeN_append']
    simp only [Ber.bytesToNat_natToBytesMin]

theorem primitiveContents_enc (c r : Bytes) (hc : c.length < 256 ^ 126) :
    primitiveContents (Ber.encLength c.length ++ (c ++ r)) = some (c, r) := by
  unfold primitiveContents
  rw [readLength_encLength _ _ hc]
  simp only [takeN_append']

theorem constructedContents_enc {α : Type} (p : Bytes → Option (α × Bytes)) (c r : Bytes) (a : α)
    (hc : c.length < 256 ^ 126) (hp : p c = some (a, [])) :
    constructedContents p (Ber.encLength c.length ++ (c ++ r)) = some (a, r) := by
  unfold constructedContents
  rw [readLength_encLength _ _ hc]
  simp only [takeN_append', hp]

/-! ### identifier octets: presence tests, first octet -/

theorem identifier_ne_nil (c : Bool) (i : Nat) : identifier .context c i ≠ [] := by
  rw [identifier_context 0]; exact Der.mkTag_ne_nil _ _ _

theorem stripPrefix_ctx_nil (c : Bool) (i : Nat) : stripPrefix (identifier .context c i) [] = none := by
  cases h : identifier .context c i with
  | nil => exact absurd h (identifier_ne_nil c i)
  | cons x xs => rfl

/-- facing the identifier octets of another context tag -/
theorem stripPrefix_ctx_other (c c' : Bool) (u i j : Nat) (r : Bytes) (hij : i ≠ j) :
    stripPrefix (identifier .context c i) (Der.mkTag u c' (some j) ++ r) = none := by
  cases h : stripPrefix (identifier .context c i) (Der.mkTag u c' (some j) ++ r) with
  | none => rfl
  | some r' =>
    have := stripPrefix_some_rd h
    rw [identifier_context 0] at this
    exact absurd (Der.mkTag_ctx_prefix_free this.symm) hij

theorem componentPresent_nil (t : Ty) (i : Nat) : componentPresent t i [] = false := by
  simp [componentPresent, stripPrefix_ctx_nil]

theorem componentPresent_other (t : Ty) (u i j : Nat) (c : Bool) (r : Bytes) (hij : i ≠ j) :
    componentPresent t i (Der.mkTag u c (some j) ++ r) = false := by
  simp [componentPresent, stripPrefix_ctx_other _ _ _ _ _ _ hij]

theorem componentPresent_enc {t : Ty} {i : Nat} {v : Val} {b : Bytes} (h : enc t (some i) v = .ok b)
    (rest : Bytes) : componentPresent t i (b ++ rest) = true := by
  obtain ⟨r, hb, _⟩ := Der.enc_starts h
  have e : identifier .context (derConstructed t) i = Der.tagOf t (some i) := by
    rw [identifier_context (Der.univNumber t), derConstructed_eq]; rfl
  subst hb
  simp [componentPresent, e, List.append_assoc, stripPrefix_append]

/-- what remains after the encodings of some components: nothing, or a later component -/
theorem componentPresent_later (t : Ty) (i : Nat) (bs : Bytes) (h : bs = [] ∨ StartsGe (i + 1) bs) :
    componentPresent t i bs = false := by
  rcases h with rfl | ⟨j, hj, u, c, r, rfl, _⟩
  · exact componentPresent_nil t i
  · exact componentPresent_other t u i j c r (by omega)

/-- the first octet is not zero (so an encoding is never taken for end-of-contents octets) -/
def HeadNZ (b : Bytes) : Prop := ∃ x r, b = x :: r ∧ x ≠ 0

theorem HeadNZ.append {b : Bytes} (h : HeadNZ b) (c : Bytes) : HeadNZ (b ++ c) := by
  obtain ⟨x, r, rfl, hx⟩ := h
  exact ⟨x, r ++ c, rfl, hx⟩

theorem headNZ_tlv {tag : Bytes} (h : HeadNZ tag) (content : Bytes) : HeadNZ (Der.tlv tag content) := by
  unfold Der.tlv
  rw [List.append_assoc]
  exact h.append _

theorem headNZ_ctx (u : Nat) (c : Bool) (i : Nat) : HeadNZ (Der.mkTag u c (some i)) := by
  obtain ⟨fl, hfl, he⟩ := Der.mkTag_some_der u c i
  rw [he]
  by_cases h : i < 31
  · rw [Der.encTag_short_der _ _ h]; exact ⟨_, _, rfl, by omega⟩
  · obtain ⟨xs, y, _, _, _, _, he'⟩ := Der.encTag_long_der i fl h
    rw [he']; exact ⟨_, _, rfl, by omega⟩

theorem headNZ_univ (u : Nat) (c : Bool) (h1 : 1 ≤ u) (h2 : u < 31) : HeadNZ (Der.mkTag u c none) := by
  obtain ⟨fl, hfl, he⟩ := Der.mkTag_none_der u c
  rw [he, Der.encTag_short_der _ _ h2]
  exact ⟨_, _, rfl, by omega⟩

theorem headNZ_mkTag (u : Nat) (c : Bool) (tg : Option Nat) (h1 : 1 ≤ u) (h2 : u < 31) :
    HeadNZ (Der.mkTag u c tg) := by
  cases tg with
  | none => exact headNZ_univ u c h1 h2
  | some i => exact headNZ_ctx u c i

theorem enc_headNZ {t : Ty} {tg : Option Nat} {v : Val} {b : Bytes} (h : enc t tg v = .ok b) : HeadNZ b := by
  cases tg with
  | some j =>
    obtain ⟨r, e, hr⟩ := Der.enc_starts h
    subst e
    exact (headNZ_ctx _ _ _).append r
  | none =>
    cases t <;> cases v <;> simp only [enc] at h <;> try (cases h; done)
    case boolean.bool => cases h; exact headNZ_tlv (headNZ_mkTag _ _ _ (by omega) (by omega)) _
    case null.null => cases h; exact (headNZ_mkTag _ _ _ (by omega) (by omega)).append _
    case integer.int => cases h; exact headNZ_tlv (headNZ_mkTag _ _ _ (by omega) (by omega)) _
    case enumerated.enum =>
      split at h
      · cases h
      · cases h; exact headNZ_tlv (headNZ_mkTag _ _ _ (by omega) (by omega)) _
    case octetString.bytes => cases h; exact headNZ_tlv (headNZ_mkTag _ _ _ (by omega) (by omega)) _
    case bitString.bits => cases h; exact headNZ_tlv (headNZ_mkTag _ _ _ (by omega) (by omega)) _
    case charString.str k c cps =>
      split at h
      · cases h
      · cases h
        refine headNZ_tlv ?_ _
        unfold Der.tagOf
        cases k <;> exact headNZ_mkTag _ _ _ (by simp [Der.univNumber]) (by simp [Der.univNumber])
    case sequence.record =>
      split at h
      · cases h
      · split at h
        · cases h
        · cases h; exact headNZ_tlv (headNZ_mkTag _ _ _ (by omega) (by omega)) _
    case sequenceOf.list =>
      split at h
      · cases h
      · cases h; exact headNZ_tlv (headNZ_mkTag _ _ _ (by omega) (by omega)) _
    case choice.choice root ext adds name v =>
      have key : ∀ {r : Der.EncM Bytes} {t : Ty} {j : Nat}, r = enc t (some j) v → r = .ok b → HeadNZ b := by
        intro r t j e hr
        subst e
        obtain ⟨r', e', hr'⟩ := Der.enc_starts hr
        subst e'
        exact (headNZ_ctx _ _ _).append r'
      split at h
      · rename_i r hr
        obtain ⟨t, j, e⟩ := Der.encAlt_some_rt hr
        exact key e h
      · split at h
        · rename_i r hr
          obtain ⟨t, j, e⟩ := Der.encAlt_some_rt hr
          exact key e h
        · cases h

theorem headNZ_not_end {b : Bytes} (h : HeadNZ b) (r : Bytes) :
    ((b ++ r).isEmpty || startsEOC (b ++ r)) = false := by
  obtain ⟨x, b', rfl, hx⟩ := h
  cases x with
  | zero => exact absurd rfl hx
  | succ x => simp [startsEOC]

/-! ### leaves -/

theorem content_lt {tag content : Bytes} {N : Nat} (h : (Der.tlv tag content).length < N) :
    content.length < N := by
  rw [Der.tlv_length] at h; omega

theorem rtref_boolean : RTref .boolean := by
  intro tg v bytes rest fuel hwf hwf2 hd ht he hf hl
  cases v <;> simp only [hasType, Bool.false_eq_true] at ht
  rename_i b
  rw [enc] at he; cases he
  rw [decV, Der.canonV_boolean, header_eq_mkTag, Der.tlv_append]
  simp only [Der.univNumber, stripPrefix_append, primitiveContents_enc _ _ (content_lt hl)]
  cases b <;> rfl

theorem rtref_null : RTref .null := by
  intro tg v bytes rest fuel hwf hwf2 hd ht he hf hl
  cases v <;> simp only [hasType, Bool.false_eq_true] at ht
  rw [enc] at he; cases he
  rw [decV, Der.canonV_null, header_eq_mkTag, List.append_assoc]
  simp [Der.univNumber, stripPrefix_append, primitiveContents, readLength, takeN]

theorem rtref_integer (c : IntC) : RTref (.integer c) := by
  intro tg v bytes rest fuel hwf hwf2 hd ht he hf hl
  cases v <;> simp only [hasType, Bool.false_eq_true] at ht
  rename_i i
  rw [enc] at he; cases he
  rw [decV, Der.canonV_integer, header_eq_mkTag, Der.tlv_append]
  simp only [Der.univNumber, stripPrefix_append, primitiveContents_enc _ _ (content_lt hl),
    minimalInteger_intToBytesMin, Der.bytesToInt_intToBytesMin', if_true]

theorem enumNameOf_eq (v : Int) (l : List (String × Int)) : enumNameOf v l = Oer.enumName v l := by
  induction l with
  | nil => rfl
  | cons x r ih =>
    obtain ⟨n, w⟩ := x
    simp only [enumNameOf, Oer.enumName, ih]

theorem rtref_enumerated (root : List (String × Int)) (ext : Option (List (String × Int))) :
    RTref (.enumerated root ext) := by
  intro tg v bytes rest fuel hwf hwf2 hd ht he hf hl
  cases v <;> simp only [hasType, Bool.false_eq_true] at ht
  rename_i name
  rw [Der.canonV_enumerated]
  rw [enc] at he
  rw [Oer.oerWf] at hwf2
  simp only [decide_eq_true_eq] at hwf2
  split at he
  · cases he
  · rename_i val hval
    have hname := Oer.enumName_of_enumValue name val _ hwf2 hval
    cases he
    rw [decV, header_eq_mkTag, Der.tlv_append]
    simp only [Der.univNumber, stripPrefix_append, primitiveContents_enc _ _ (content_lt hl),
      minimalInteger_intToBytesMin, Der.bytesToInt_intToBytesMin', if_true, enumNameOf_eq, hname]

/-- a primitive string encoding: one chunk -/
theorem stringChunks_tlv (u fuel : Nat) (prim cons content rest : Bytes) (hc : content.length < 256 ^ 126) :
    stringChunks u fuel prim cons (Der.tlv prim content ++ rest) = some ([content], rest) := by
  rw [Der.tlv_append, stringChunks, stripPrefix_append]
  simp only [primitiveContents_enc _ _ hc]

theorem rtref_octetString (c : SizeC) : RTref (.octetString c) := by
  intro tg v bytes rest fuel hwf hwf2 hd ht he hf hl
  cases v <;> simp only [hasType, Bool.false_eq_true] at ht
  rename_i data
  rw [enc] at he; cases he
  rw [decV, Der.canonV_octetString, header_eq_mkTag]
  simp only [Der.univNumber, stringChunks_tlv _ _ _ _ _ _ (content_lt hl), List.flatten_cons,
    List.flatten_nil, List.append_nil]

theorem cleanBits_idem (data : Bytes) (n : Nat) (h : n ≤ 8 * data.length) :
    cleanBits (cleanBits data n) n = cleanBits data n := by
  unfold cleanBits
  rw [take_bytesToBits_packBits' _ n (by rw [List.length_take, bytesToBits_length]; omega)]

theorem rtref_bitString (c : SizeC) : RTref (.bitString c) := by
  intro tg v bytes rest fuel hwf hwf2 hd ht he hf hl
  cases v <;> simp only [hasType, Bool.false_eq_true] at ht
  rename_i data n
  simp only [Bool.and_eq_true, decide_eq_true_eq] at ht
  obtain ⟨⟨_, hdl⟩, hsz⟩ := ht
  rw [enc] at he; cases he
  have hle : n ≤ 8 * data.length := by omega
  have hcl := Asn1.cleanBits_length data n hle
  rw [decV, canonV, header_eq_mkTag]
  simp only [Der.univNumber]
  rw [stringChunks_tlv _ _ _ _ _ _ (content_lt hl)]
  simp only [Der.bitContent, bitsOfChunks]
  rw [if_pos ⟨by omega, by
    intro he
    have : (cleanBits data n).length = 0 := by
      cases hx : cleanBits data n with
      | nil => rfl
      | cons _ _ => rw [hx] at he; cases he
    omega⟩]
  have : 8 * (cleanBits data n).length - (8 - n % 8) % 8 = n := by rw [hcl]; omega
  simp only [this, cleanBits_idem data n hle]

theorem rtref_charString (k : StrKind) (c : SizeC) : RTref (.charString k c) := by
  intro tg v bytes rest fuel hwf hwf2 hd ht he hf hl
  cases v <;> try (simp only [hasType, Bool.false_eq_true] at ht; done)
  rename_i cps
  obtain ⟨bs, hbs, hdec, _⟩ := Oer.str_rt ht
  rw [Der.canonV_charString]
  rw [enc] at he
  simp only [hbs] at he
  cases he
  have htag : Der.tagOf (.charString k c) tg = Der.mkTag (Der.univNumber (.charString k c)) false tg := rfl
  rw [htag] at hl ⊢
  have hch : charsOf k bs = some cps := by
    rcases Oer.charString_hasType ht with ⟨rfl, h⟩ | ⟨hk, hall, hsz⟩
    · cases hbs
      exact Uper.utf8Dec_flatMap_utf8Enc cps h _ (Nat.le_refl _)
    · rw [Oer.encodeStr_not_utf8 hk, if_pos hall] at hbs
      cases hbs
      have hal : cps.all (fun b => (Uper.alphabetOf k).contains b) = true := by
        cases k <;> simp only [hasType, Bool.and_eq_true] at ht
        case utf8 => exact absurd rfl hk
        all_goals exact ht.1
      cases k
      case utf8 => exact absurd rfl hk
      all_goals simp only [charsOf, hal, if_true]
  rw [decV, header_eq_mkTag]
  simp only [stringChunks_tlv _ _ _ _ _ _ (content_lt hl), List.flatten_cons,
    List.flatten_nil, List.append_nil, hch]

/-! ### SEQUENCE OF -/

theorem HeadNZ.length_pos {b : Bytes} (h : HeadNZ b) : 0 < b.length := by
  obtain ⟨x, r, rfl, _⟩ := h
  simp

/-- the element loop over the concatenation of the element encodings, cut to the announced length -/
theorem elements_mapM {α : Type} (f : α → Der.EncM Bytes) (g : α → Val) (p : Bytes → Option (Val × Bytes))
    (N : Nat) (vs : List α) (items : List Bytes)
    (hnz : ∀ v ∈ vs, ∀ b, f v = .ok b → HeadNZ b)
    (hp : ∀ v ∈ vs, ∀ b r, f v = .ok b → b.length ≤ N → p (b ++ r) = some (g v, r))
    (h : vs.mapM f = .ok items) (hN : items.flatten.length ≤ N)
    (lf : Nat) (hlf : items.flatten.length < lf) :
    elements p lf items.flatten = some (vs.map g, []) := by
  induction vs generalizing items lf with
  | nil =>
    rw [Oer.mapM_nil'] at h; cases h
    cases lf with
    | zero => simp at hlf
    | succ lf => simp [elements]
  | cons v vs ih =>
    rw [Oer.mapM_cons'] at h
    split at h
    · cases h
    · rename_i b hb
      split at h
      · cases h
      · rename_i bs hbs
        cases h
        have hbz := hnz v (by simp) b hb
        have hbl := hbz.length_pos
        simp only [List.flatten_cons, List.length_append] at hN hlf ⊢
        cases lf with
        | zero => omega
        | succ lf =>
          rw [elements, headNZ_not_end hbz]
          simp only [Bool.false_eq_true, if_false]
          rw [hp v (by simp) b _ hb (by omega)]
          simp only []
          rw [ih bs (fun x hx => hnz x (by simp [hx])) (fun x hx => hp x (by simp [hx])) hbs
            (by omega) lf (by omega)]
          simp only [List.map_cons]

theorem rtref_sequenceOf (e : Ty) (c : SizeC) (ih : RTref e) : RTref (.sequenceOf e c) := by
  intro tg v bytes rest fuel hwf hwf2 hd ht he hfuel hl
  cases v <;> try (simp only [hasType, Bool.false_eq_true] at ht; done)
  rename_i vs
  simp only [hasType, Bool.and_eq_true, List.all_eq_true] at ht
  simp only [Ty.wf, Bool.and_eq_true] at hwf
  simp only [Oer.oerWf] at hwf2
  simp only [defaultsOkV] at hd
  rw [canonV]
  rw [enc] at he
  split at he
  · cases he
  · rename_i items hitems
    cases he
    rw [Der.tlv_length] at hfuel hl
    rw [decV, header_eq_mkTag, Der.tlv_append]
    simp only [Der.univNumber, stripPrefix_append]
    rw [constructedContents_enc _ _ _ (vs.map (canonV e)) (by omega)
      (elements_mapM (enc e none) (canonV e) (decV e none fuel) items.flatten.length vs items
        (fun x hx b hb => enc_headNZ hb)
        (fun x hx b r hb hbl => ih none x b r fuel hwf.1 hwf2 hd (ht.1 x hx) hb (by omega) (by omega))
        hitems (Nat.le_refl _) fuel (by omega))]

/-! ### CHOICE -/

/-- the alternative that is there -/
def chosenRef (root adds : Alts) (fuel : Nat) (b : Bytes) : Option (Val × Bytes) :=
  match decAlternatives root 0 fuel b with
  | some x => some x
  | none => decAlternatives adds root.length fuel b

theorem decV_choice (root : Alts) (e : Bool) (adds : Alts) (tg : Option Nat) (fuel : Nat) (bs : Bytes) :
    decV (.choice root e adds) tg fuel bs =
      match tg with
      | none => chosenRef root adds fuel bs
      | some i =>
        match stripPrefix (identifier .context true i) bs with
        | none => none
        | some r => constructedContents (chosenRef root adds fuel) r := by
  cases tg <;> rw [decV] <;> rfl

theorem decAlternatives_find (as : Alts) (name : String) (j : Nat) (t : Ty)
    (h : as.findO name = some (j, t)) (i fuel : Nat) (v w : Val) (body rest : Bytes)
    (hbody : enc t (some (i + j)) v = .ok body)
    (hdec : decV t (some (i + j)) fuel (body ++ rest) = some (w, rest)) :
    decAlternatives as i fuel (body ++ rest) = some (.choice name w, rest) := by
  induction as using Alts.ind generalizing j i with
  | nil => simp [Alts.findO] at h
  | cons n t' rest' ih =>
    simp only [Alts.findO] at h
    split at h
    · rename_i hn
      cases h
      have : n = name := by simpa using hn
      subst this
      rw [Nat.add_zero] at hbody hdec
      rw [decAlternatives, componentPresent_enc hbody, if_pos rfl, hdec]
    · simp only [Option.map_eq_some_iff, Prod.mk.injEq] at h
      obtain ⟨⟨j', t''⟩, h1, h2, h3⟩ := h
      dsimp only at h2 h3
      subst h2
      subst h3
      obtain ⟨r, hr, _⟩ := Der.enc_starts hbody
      have hne : componentPresent t' i (body ++ rest) = false := by
        rw [hr, List.append_assoc]
        exact componentPresent_other t' _ i _ _ _ (by omega)
      rw [decAlternatives, hne]
      simp only [Bool.false_eq_true, if_false]
      rw [show i + (j' + 1) = i + 1 + j' by omega] at hbody hdec
      exact ih j' h1 (i + 1) hbody hdec

theorem decAlternatives_none (as : Alts) (u : Nat) (c : Bool) (idx i fuel : Nat) (bs : Bytes)
    (h : i + as.length ≤ idx) :
    decAlternatives as i fuel (Der.mkTag u c (some idx) ++ bs) = none := by
  induction as using Alts.ind generalizing i with
  | nil => rw [decAlternatives]
  | cons n t rest ih =>
    simp only [Alts.length] at h
    rw [decAlternatives, componentPresent_other t u i idx c bs (by omega)]
    simp only [Bool.false_eq_true, if_false]
    exact ih (i + 1) (by omega)

theorem decV_choice_of_bare (root : Alts) (ext : Bool) (adds : Alts) (tg : Option Nat)
    (inner : Der.EncM Bytes) (bytes rest : Bytes) (fuel : Nat) (w : Val)
    (he : (match tg with
      | none => inner
      | some _ =>
        match inner with
        | .error e => .error e
        | .ok body => .ok (Der.tlv (Der.mkTag 0 true tg) body)) = .ok bytes)
    (hl : bytes.length < 256 ^ 126)
    (hb : ∀ body, inner = .ok body → body.length ≤ bytes.length → ∀ rest',
      chosenRef root adds fuel (body ++ rest') = some (w, rest')) :
    decV (.choice root ext adds) tg fuel (bytes ++ rest) = some (w, rest) := by
  rw [decV_choice]
  cases tg with
  | none => exact hb bytes he (Nat.le_refl _) rest
  | some i =>
    cases hin : inner with
    | error e => rw [hin] at he; cases he
    | ok body =>
      rw [hin] at he
      cases he
      have hlen := Der.tlv_length (Der.mkTag 0 true (some i)) body
      simp only []
      rw [identifier_context 0, Der.tlv_append, stripPrefix_append]
      simp only []
      have := hb body hin (by omega) []
      rw [List.append_nil] at this
      exact constructedContents_enc _ _ _ _ (by omega) this

theorem rtref_choice (root : Alts) (ext : Bool) (adds : Alts)
    (ihr : root.AllO RTref) (iha : adds.AllO RTref) : RTref (.choice root ext adds) := by
  intro tg v bytes rest fuel hwf hwf2 hd ht he hfuel hl
  cases v <;> try (simp only [hasType, Bool.false_eq_true] at ht; done)
  rename_i name v
  simp only [hasType] at ht
  simp only [Ty.wf, Bool.and_eq_true, decide_eq_true_eq] at hwf
  obtain ⟨⟨⟨⟨hwr, hwa⟩, _⟩, hnd⟩, _⟩ := hwf
  simp only [Oer.oerWf, Bool.and_eq_true] at hwf2
  simp only [defaultsOkV, Bool.and_eq_true] at hd
  rw [canonV, Der.canonAltV_find, Der.canonAltV_find]
  simp only [enc] at he
  rw [Der.encAlt_find, Der.encAlt_find] at he
  rcases Oer.choice_typed hnd ht with ⟨j, t, hf, hty⟩ | ⟨hf, j, t, hfa, hty⟩
  · simp only [hf, Option.map_some, Nat.zero_add] at he ⊢
    have hrt : RTref t := find_all_oer name root j t hf ihr
    have hwt := find_all_oer name root j t hf (alts_all_wf_oer root hwr)
    have hwt2 := find_all_oer name root j t hf (Oer.alts_all_oerWf root hwf2.1)
    have hdt := find_all_oer name root j t hf (Der.alts_all_defaultsOkV root hd.1)
    refine decV_choice_of_bare root ext adds tg _ bytes rest fuel _ he hl ?_
    intro body hbody hle rest'
    have hdec := hrt (some j) v body rest' fuel hwt hwt2 hdt hty hbody (by omega) (by omega)
    have hbody' : enc t (some (0 + j)) v = .ok body := by rw [Nat.zero_add]; exact hbody
    have hdec' : decV t (some (0 + j)) fuel (body ++ rest') = some (canonV t v, rest') := by
      rw [Nat.zero_add]; exact hdec
    rw [chosenRef, decAlternatives_find root name j t hf 0 fuel v _ body rest' hbody' hdec']
  · simp only [hf, hfa, Option.map_some, Option.map_none] at he ⊢
    have hrt : RTref t := find_all_oer name adds j t hfa iha
    have hwt := find_all_oer name adds j t hfa (alts_all_wf_oer adds hwa)
    have hwt2 := find_all_oer name adds j t hfa (Oer.alts_all_oerWf adds hwf2.2)
    have hdt := find_all_oer name adds j t hfa (Der.alts_all_defaultsOkV adds hd.2)
    refine decV_choice_of_bare root ext adds tg _ bytes rest fuel _ he hl ?_
    intro body hbody hle rest'
    have hdec := hrt (some (root.length + j)) v body rest' fuel hwt hwt2 hdt hty hbody (by omega) (by omega)
    obtain ⟨r, hr, _⟩ := Der.enc_starts hbody
    have hn : decAlternatives root 0 fuel (body ++ rest') = none := by
      rw [hr, List.append_assoc]
      exact decAlternatives_none root _ _ _ 0 fuel _ (by omega)
    rw [chosenRef, hn]
    exact decAlternatives_find adds name j t hfa root.length fuel v _ body rest' hbody hdec

/-! ### SEQUENCE -/

/-- the ways a well-typed member is treated by the encoder, and what it denotes -/
theorem member_cases {name : String} {p : Presence} {t : Ty} {i : Nat} {fs : List (String × Val)}
    (rest : Members)
    (hok : (match lookup name fs with
            | some v => hasType t v
            | none => match p with | .mandatory => false | _ => true) = true)
    (hd : ∀ d, p = .default d → (canonV t d == d) = true) :
    (Der.encHere name p t i fs = .ok [] ∧
      ((p = .optional ∧ canonMembersV (.cons name p t rest) fs = canonMembersV rest fs) ∨
       (∃ d, p = .default d ∧
          canonMembersV (.cons name p t rest) fs = (name, d) :: canonMembersV rest fs))) ∨
    (∃ v, lookup name fs = some v ∧ hasType t v = true ∧
      Der.encHere name p t i fs = enc t (some i) v ∧
      canonMembersV (.cons name p t rest) fs = (name, canonV t v) :: canonMembersV rest fs) := by
  rw [Der.canonMembersV_cons]
  unfold Der.encHere
  cases hl : lookup name fs with
  | none =>
    simp only [hl] at hok
    cases p with
    | mandatory => simp at hok
    | optional => exact Or.inl ⟨rfl, Or.inl ⟨rfl, rfl⟩⟩
    | default d => exact Or.inl ⟨rfl, Or.inr ⟨d, rfl, rfl⟩⟩
  | some v =>
    simp only [hl] at hok
    cases p with
    | mandatory => exact Or.inr ⟨v, rfl, hok, rfl, rfl⟩
    | optional => exact Or.inr ⟨v, rfl, hok, rfl, rfl⟩
    | default d =>
      simp only []
      by_cases hdv : Der.isDefaultB t v d = true
      · have hcd : (canonV t d == d) = true := hd d rfl
        refine Or.inl ⟨by simp [hdv], Or.inr ⟨d, rfl, ?_⟩⟩
        rw [Der.canonV_of_isDefaultB t v d hcd hdv]
      · simp only [hdv, if_false, Bool.false_eq_true]
        exact Or.inr ⟨v, rfl, hok, rfl, rfl⟩

theorem decComponents_cons (name : String) (p : Presence) (t : Ty) (rest : Members) (i fuel : Nat)
    (bs : Bytes) :
    decComponents (.cons name p t rest) i fuel bs =
      if componentPresent t i bs then
        match decV t (some i) fuel bs with
        | none => none
        | some (v, r) =>
          match decComponents rest (i + 1) fuel r with
          | none => none
          | some (fs, r') => some ((name, v) :: fs, r')
      else
        match p with
        | .mandatory => none
        | .optional => decComponents rest (i + 1) fuel bs
        | .default d =>
          match decComponents rest (i + 1) fuel bs with
          | none => none
          | some (fs, r') => some ((name, d) :: fs, r') := by
  cases p <;> rw [decComponents] <;> rfl

/-- the components written by `encMembers`, followed by nothing or by a later component, read back -/
theorem decComponents_enc (fs : List (String × Val)) (ms : Members) :
    ms.AllO RTref → ms.wf = true → Oer.oerWfMembers ms = true → membersDefaultsOkV ms = true →
    membersOk ms fs = true →
    ∀ (i fuel : Nat) (body tail : Bytes),
      Der.encMembers ms i fs = .ok body → body.length < fuel → body.length < 256 ^ 126 →
      (tail = [] ∨ StartsGe (i + ms.length) tail) →
      decComponents ms i fuel (body ++ tail) = some (canonMembersV ms fs, tail) := by
  induction ms using Members.ind with
  | nil =>
    intro _ _ _ _ _ i fuel body tail he hf hl ht
    rw [Der.encMembers] at he; cases he
    rw [decComponents, canonMembersV]; rfl
  | cons name p t rest ih =>
    intro hall hwf howf hd hok i fuel body tail he hf hl ht
    rw [Members.wf, Bool.and_eq_true] at hwf
    rw [Oer.oerWfMembers, Bool.and_eq_true] at howf
    rw [Der.membersDefaultsOkV_cons, Bool.and_eq_true, Bool.and_eq_true] at hd
    rw [Der.membersOk_cons, Bool.and_eq_true] at hok
    rw [Der.encMembers_cons] at he
    have ih' := ih hall.2 hwf.2 howf.2 hd.2 hok.2
    simp only [Members.length] at ht
    have ht' : tail = [] ∨ StartsGe (i + 1 + rest.length) tail := by
      rwa [show i + (rest.length + 1) = i + 1 + rest.length by omega] at ht
    have hdc : ∀ d, p = .default d → (canonV t d == d) = true := by
      intro d hp
      subst hp
      have := hd.1.1
      simp only [Bool.and_eq_true] at this
      exact this.2
    rcases member_cases (i := i) rest hok.1 hdc with ⟨h1, hc⟩ | ⟨v, _, hty, h1, hc⟩
    · -- not encoded
      rw [h1] at he
      cases hr : Der.encMembers rest (i + 1) fs with
      | error e => simp [hr] at he
      | ok b =>
        simp only [hr, List.nil_append] at he
        cases he
        have hrec := ih' (i + 1) fuel body tail hr hf hl ht'
        have hlater : body ++ tail = [] ∨ StartsGe (i + 1) (body ++ tail) := by
          rcases Der.encMembers_starts fs rest (i + 1) body hr with h0 | h0
          · subst h0
            rcases ht' with h | h
            · exact Or.inl (by simp [h])
            · exact Or.inr (by simpa using h.mono (by omega))
          · exact Or.inr (h0.append tail)
        have hnp := componentPresent_later t i _ hlater
        rcases hc with ⟨rfl, hc⟩ | ⟨d, rfl, hc⟩
        · rw [decComponents_cons, hnp, hc]
          simp only [Bool.false_eq_true, if_false, hrec]
        · rw [decComponents_cons, hnp, hc]
          simp only [Bool.false_eq_true, if_false, hrec]
    · -- encoded
      obtain ⟨a, ha⟩ : ∃ a, enc t (some i) v = .ok a := by
        rw [h1] at he
        cases hx : enc t (some i) v with
        | ok a => exact ⟨a, rfl⟩
        | error e => simp [hx] at he
      rw [h1, ha] at he
      cases hr : Der.encMembers rest (i + 1) fs with
      | error e => simp [hr] at he
      | ok b =>
        simp only [hr] at he
        cases he
        simp only [List.length_append] at hf hl
        have hrt := hall.1 (some i) v a (b ++ tail) fuel hwf.1 howf.1 hd.1.2 hty ha (by omega) (by omega)
        have hrec := ih' (i + 1) fuel b tail hr (by omega) (by omega) ht'
        rw [List.append_assoc, decComponents_cons, componentPresent_enc ha, if_pos rfl, hrt]
        simp only [hrec, hc]

theorem rtref_sequence (root : Members) (ext : Bool) (adds : Members)
    (ihr : root.AllO RTref) (iha : adds.AllO RTref) : RTref (.sequence root ext adds) := by
  intro tg v bytes rest fuel hwf howf hd ht he hf hl
  cases v <;> simp only [hasType, Bool.false_eq_true] at ht
  rename_i fs
  simp only [Ty.wf, Bool.and_eq_true, decide_eq_true_eq] at hwf
  obtain ⟨⟨⟨⟨hwr, hwa⟩, hnd⟩, _⟩, _⟩ := hwf
  have hnd' : (root.names ++ adds.names).Nodup := by simpa using hnd
  obtain ⟨hokr, hoka⟩ := membersOk_of_hasType root adds ext fs hnd' (by rw [hasType]; exact ht)
  rw [Oer.oerWf, Bool.and_eq_true] at howf
  rw [defaultsOkV, Bool.and_eq_true] at hd
  rw [enc] at he
  rw [Der.encAdditions_eq fs adds (Der.members_allO_of_forall Der.et_all adds) hwa hoka] at he
  cases hbr : Der.encMembers root 0 fs with
  | error e => simp [hbr] at he
  | ok br =>
    cases hba : Der.encMembers adds root.length fs with
    | error e => simp [hbr, hba] at he
    | ok ba =>
      simp only [hbr, hba] at he
      cases he
      rw [Der.tlv_length, List.length_append] at hf hl
      have hta : ba = [] ∨ StartsGe (0 + root.length) ba := by
        rcases Der.encMembers_starts fs adds root.length ba hba with h0 | h0
        · exact Or.inl h0
        · exact Or.inr (by simpa using h0)
      have h1 := decComponents_enc fs root ihr hwr howf.1 hd.1 hokr 0 fuel br ba hbr (by omega) (by omega) hta
      have h2 := decComponents_enc fs adds iha hwa howf.2 hd.2 hoka root.length fuel ba [] hba
        (by omega) (by omega) (Or.inl rfl)
      rw [List.append_nil] at h2
      rw [decV, header_eq_mkTag, Der.tlv_append, canonV]
      simp only [Der.univNumber, stripPrefix_append]
      exact constructedContents_enc _ _ _ _ (by rw [List.length_append]; omega) (by simp only [h1, h2])

/-! ### all types -/

theorem rtref_all (t : Ty) : RTref t :=
  Ty.rec (motive_1 := RTref) (motive_2 := Members.AllO RTref) (motive_3 := Alts.AllO RTref)
    rtref_boolean rtref_null rtref_integer rtref_enumerated rtref_octetString rtref_bitString
    rtref_charString
    (fun root ext adds ihr iha => rtref_sequence root ext adds ihr iha)
    (fun e c ih => rtref_sequenceOf e c ih)
    (fun root ext adds ihr iha => rtref_choice root ext adds ihr iha)
    trivial (fun _ _ _ _ iht ihr => ⟨iht, ihr⟩)
    trivial (fun _ _ _ iht ihr => ⟨iht, ihr⟩) t

/-- C04 `encoder_in_spec`: the code's encoder output is a BER encoding of the canonical value according to the reference decoder.  `hlen`: X.690 8.1.3.5 allows at most 126 subsequent length octets, the reference decoder rejects `0xff`. -/
theorem encoder_in_spec (t : Ty) (v : Val) (bytes : Bytes)
    (hwf : t.wf = true) (henum : Oer.oerWf t = true) (hd : defaultsOkV t = true)
    (ht : hasType t v = true) (he : Der.encode t v = .ok bytes) (hlen : bytes.length < 256 ^ 126) :
    berDecodeRef t bytes = some (canonV t v) := by
  have h := rtref_all t none v bytes [] (bytes.length + 1) hwf henum hd ht (Der.enc_of_encode he)
    (by omega) hlen
  rw [List.append_nil] at h
  unfold berDecodeRef
  rw [h]

end Asn1.X690

#print axioms Asn1.X690.rtref_all
#print axioms Asn1.X690.encoder_in_spec
