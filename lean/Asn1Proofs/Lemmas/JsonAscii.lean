import Asn1Proofs.Lemmas.JsonRoundtrip
/-
  `ensure_ascii`: every document the writer emits consists of ASCII characters only (so its UTF-8 form
  is the same list of numbers).
-/
namespace Asn1.Json

def Ascii (l : List Nat) : Prop := ∀ c ∈ l, c < 128

theorem Ascii.nil : Ascii [] := by intro c hc; simp at hc

theorem Ascii.cons {c : Nat} {l : List Nat} (hc : c < 128) (hl : Ascii l) : Ascii (c :: l) := by
  intro x hx
  simp only [List.mem_cons] at hx
  rcases hx with hx | hx
  · subst hx; exact hc
  · exact hl x hx

theorem Ascii.append {a b : List Nat} (ha : Ascii a) (hb : Ascii b) : Ascii (a ++ b) := by
  intro x hx
  simp only [List.mem_append] at hx
  rcases hx with hx | hx
  · exact ha x hx
  · exact hb x hx

theorem hexDigitN_lt (d : Nat) (h : d < 16) : hexDigitN d < 128 := by
  unfold hexDigitN; split <;> omega

theorem uEscape_ascii (u : Nat) : Ascii (uEscape u) := by
  rw [uEscape_eq]
  have h16 : ∀ x : Nat, x % 16 < 16 := fun x => Nat.mod_lt _ (by decide)
  exact .cons (by decide) (.cons (by decide) (.cons (hexDigitN_lt _ (h16 _)) (.cons (hexDigitN_lt _ (h16 _))
    (.cons (hexDigitN_lt _ (h16 _)) (.cons (hexDigitN_lt _ (h16 _)) .nil)))))

theorem renderChar_ascii (c : Nat) : Ascii (renderChar c) := by
  unfold renderChar
  repeat' split
  all_goals first
    | exact .cons (by decide) (.cons (by decide) .nil)
    | exact .cons (by omega) .nil
    | exact uEscape_ascii _
    | exact .append (uEscape_ascii _) (uEscape_ascii _)

theorem renderStr_ascii (cps : List Nat) : Ascii (renderStr cps) := by
  unfold renderStr
  refine .append (.append (.cons (by decide) .nil) ?_) (.cons (by decide) .nil)
  intro x hx
  simp only [List.mem_flatMap] at hx
  obtain ⟨c, _, hc⟩ := hx
  exact renderChar_ascii c x hc

theorem natDigits_ascii (n : Nat) : Ascii (natDigits n) := by
  intro c hc
  have := (natDigits_spec n).1 c hc
  simp only [isDigit, Bool.and_eq_true, decide_eq_true_eq] at this
  omega

theorem renderInt_ascii (i : Int) : Ascii (renderInt i) := by
  unfold renderInt
  split
  · exact .cons (by decide) (natDigits_ascii _)
  · exact natDigits_ascii _

theorem nl_ascii (indent : Option Nat) (level : Nat) : Ascii (nl indent level) := by
  intro c hc
  have := nl_ws indent level c hc
  simp only [isWs, Bool.or_eq_true, beq_iff_eq] at this
  omega

theorem keySep_ascii (indent : Option Nat) : Ascii (keySep indent) := by
  cases indent with
  | none => exact .cons (by decide) .nil
  | some n => exact .cons (by decide) (.cons (by decide) .nil)

mutual
  theorem renderV_ascii (indent : Option Nat) (j : JsonV) (level : Nat) : Ascii (renderV indent level j) := by
    match j with
    | .null => rw [renderV]; unfold Ascii; decide
    | .bool true => rw [renderV]; unfold Ascii; decide
    | .bool false => rw [renderV]; unfold Ascii; decide
    | .num i => rw [renderV]; exact renderInt_ascii i
    | .dec m e => rw [renderV]; exact .append (.append (renderInt_ascii m) (.cons (by decide) .nil)) (renderInt_ascii e)
    | .str cps => rw [renderV]; exact renderStr_ascii cps
    | .arr [] => rw [renderV]; unfold Ascii; decide
    | .arr (x :: xs) =>
      rw [renderV]
      exact .append (.append (.append (.append (.append (.cons (by decide) .nil) (nl_ascii _ _))
        (renderV_ascii indent x _)) (renderTail_ascii indent xs _)) (nl_ascii _ _)) (.cons (by decide) .nil)
    | .obj [] => rw [renderV]; unfold Ascii; decide
    | .obj ((k, v) :: kvs) =>
      rw [renderV]
      exact .append (.append (.append (.append (.append (.append (.append (.cons (by decide) .nil) (nl_ascii _ _))
        (renderStr_ascii k)) (keySep_ascii _)) (renderV_ascii indent v _)) (renderMembers_ascii indent kvs _))
        (nl_ascii _ _)) (.cons (by decide) .nil)
  theorem renderTail_ascii (indent : Option Nat) (xs : List JsonV) (level : Nat) :
      Ascii (renderTail indent level xs) := by
    match xs with
    | [] => rw [renderTail]; exact .nil
    | x :: xs =>
      rw [renderTail]
      exact .append (.append (.append (.cons (by decide) .nil) (nl_ascii _ _)) (renderV_ascii indent x _))
        (renderTail_ascii indent xs _)
  theorem renderMembers_ascii (indent : Option Nat) (kvs : List (List Nat × JsonV)) (level : Nat) :
      Ascii (renderMembers indent level kvs) := by
    match kvs with
    | [] => rw [renderMembers]; exact .nil
    | (k, v) :: kvs =>
      rw [renderMembers]
      exact .append (.append (.append (.append (.append (.cons (by decide) .nil) (nl_ascii _ _)) (renderStr_ascii k))
        (keySep_ascii _)) (renderV_ascii indent v _)) (renderMembers_ascii indent kvs _)
end

/-- `ensure_ascii=True`: the document is pure ASCII -/
theorem render_ascii (indent : Option Nat) (j : JsonV) : Ascii (render indent j) := renderV_ascii indent j 0

end Asn1.Json
