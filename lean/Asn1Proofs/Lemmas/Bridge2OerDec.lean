import Asn1Proofs.Lemmas.PyStrLemmas
/-
  BRIDGE, part 2b: the translated `oer.Decoder` (a big integer and a count of unread bits) refines the byte readers
  of `Asn1Model/Oer.lean`.
-/
namespace Asn1.Bridge
open Asn1 Asn1.Translated
open Asn1.Uper (Err)

/-! ### oer.Decoder -/

structure ODecInv (d : oer_DecoderS) : Prop where
  nb : 0 ≤ d.number_of_bits
  le : d.number_of_bits ≤ d.total_number_of_bits
  v0 : 0 ≤ d.value

/-- the bits not yet consumed -/
def oBits (d : oer_DecoderS) : Bits := natToBits d.number_of_bits.toNat (d.value.toNat % 2 ^ d.number_of_bits.toNat)

/-- the decoder stands at an octet boundary in front of the octets `bs` -/
def oAt (d : oer_DecoderS) (bs : Bytes) : Prop := (∀ b ∈ bs, b < 256) ∧ oBits d = bytesToBits bs

/-- refinement against a byte-level model result -/
def ORefines {α β : Type} (val : α → β → Prop) : Except String (oer_DecoderS × α) → Except Err (β × Bytes) → Prop
  | .ok (d', a), .ok (b, rest) => ODecInv d' ∧ oAt d' rest ∧ val a b
  | .error e, .error m => errOk m e
  | _, _ => False

/-- `ORefines` spelled out -/
theorem ORefines.cases {α β : Type} {val : α → β → Prop} {x : Except String (oer_DecoderS × α)}
    {y : Except Err (β × Bytes)} (h : ORefines val x y) :
    (∃ d' a b rest, x = .ok (d', a) ∧ y = .ok (b, rest) ∧ ODecInv d' ∧ oAt d' rest ∧ val a b) ∨
    (∃ e m, x = .error e ∧ y = .error m ∧ errOk m e) := by
  cases x with
  | error e =>
    cases y with
    | error m => exact .inr ⟨e, m, rfl, rfl, h⟩
    | ok q => exact h.elim
  | ok p =>
    cases y with
    | error m => exact h.elim
    | ok q =>
      obtain ⟨d', a⟩ := p
      obtain ⟨b, rest⟩ := q
      exact .inl ⟨d', a, b, rest, rfl, rfl, h⟩

theorem ODecInv.view {d : oer_DecoderS} (h : ODecInv d) :
    ∃ (N V : Nat) (T : Int), d = ⟨(N : Int), T, (V : Int)⟩ ∧ (N : Int) ≤ T := by
  obtain ⟨nb, tot, val⟩ := d
  obtain ⟨N, hN⟩ := Int.eq_ofNat_of_zero_le h.nb
  obtain ⟨V, hV⟩ := Int.eq_ofNat_of_zero_le h.v0
  have hle := h.le
  simp only at hN hV hle
  subst hN; subst hV
  exact ⟨N, V, tot, rfl, hle⟩

theorem odec_inv_mk (N V : Nat) (T : Int) (h : (N : Int) ≤ T) : ODecInv ⟨(N : Int), T, (V : Int)⟩ :=
  ⟨by show (0 : Int) ≤ (N : Int); omega, h, by show (0 : Int) ≤ (V : Int); omega⟩

theorem oBits_mk (N V : Nat) (T : Int) : oBits ⟨(N : Int), T, (V : Int)⟩ = natToBits N V := by
  unfold oBits
  simp only [Int.toNat_natCast]
  rw [natToBits_mod]

theorem oBits_length (d : oer_DecoderS) : (oBits d).length = d.number_of_bits.toNat := by
  unfold oBits; rw [natToBits_length]

/-- the next `n` of `N` unread bits -/
theorem natToBits_front (N V n : Nat) (hn : n ≤ N) :
    natToBits N V = natToBits n (V / 2 ^ (N - n) % 2 ^ n) ++ natToBits (N - n) V := by
  conv => lhs; rw [show N = n + (N - n) by omega, natToBits_add]
  rw [natToBits_mod]

theorem natToBits_take (N V n : Nat) (hn : n ≤ N) :
    bitsToNat ((natToBits N V).take n) = V / 2 ^ (N - n) % 2 ^ n ∧ (natToBits N V).drop n = natToBits (N - n) V := by
  rw [natToBits_front N V n hn]
  constructor
  · rw [List.take_left' (natToBits_length _ _), bitsToNat_natToBits_of_lt (Nat.mod_lt _ (Nat.two_pow_pos n))]
  · rw [List.drop_left' (natToBits_length _ _)]

/-! #### bit level -/

theorem oer_rnnbi_mk (N V n : Nat) (T : Int) :
    oer_Decoder_read_non_negative_binary_integer ⟨(N : Int), T, (V : Int)⟩ (n : Int) =
      if n ≤ N then .ok (⟨((N - n : Nat) : Int), T, (V : Int)⟩, ((V / 2 ^ (N - n) % 2 ^ n : Nat) : Int))
      else .error "OutOfDataError" := by
  unfold oer_Decoder_read_non_negative_binary_integer
  by_cases hn : n ≤ N
  · have c : ¬ ((n : Int) > (N : Int)) := by omega
    rw [if_pos hn, decide_eq_false c]
    simp only [Bool.false_eq_true, if_false]
    rw [show (N : Int) - (n : Int) = ((N - n : Nat) : Int) by omega]
    simp only [shlE_natCast, shrE_natCast, bind, Except.bind, pure, Except.pure, band_mask]
  · have c : ((n : Int) > (N : Int)) := by omega
    rw [if_neg hn, decide_eq_true c]
    rfl

theorem oer_read_bits_mk (N V k : Nat) (T : Int) :
    oer_Decoder_read_bits ⟨(N : Int), T, (V : Int)⟩ ((8 * k : Nat) : Int) =
      if 8 * k ≤ N then
        .ok (⟨((N - 8 * k : Nat) : Int), T, (V : Int)⟩, ofNats (natToBytesN k (V / 2 ^ (N - 8 * k) % 2 ^ (8 * k))))
      else .error "OutOfDataError" := by
  unfold oer_Decoder_read_bits
  by_cases hn : 8 * k ≤ N
  · have c : ¬ (((8 * k : Nat) : Int) > (N : Int)) := by omega
    rw [if_pos hn, decide_eq_false c]
    simp only [Bool.false_eq_true, if_false]
    rw [show (N : Int) - ((8 * k : Nat) : Int) = ((N - 8 * k : Nat) : Int) by omega]
    simp only [shlE_natCast, shrE_natCast, bind, Except.bind, pure, Except.pure, band_mask, Nat.mod_mod]
    generalize hx : V / 2 ^ (N - 8 * k) % 2 ^ (8 * k) = x
    have hxlt : x < 2 ^ (8 * k) := by rw [← hx]; exact Nat.mod_lt _ (Nat.two_pow_pos _)
    have e : Py.bor (x : Int) ((128 : Int) * 2 ^ (8 * k)) = ((128 * 256 ^ k + x : Nat) : Int) := by
      rw [show (128 : Int) * 2 ^ (8 * k) = ((128 * 2 ^ (8 * k) : Nat) : Int) by
        rw [Int.natCast_mul, cast_two_pow]; rfl]
      rw [Py.bor_natCast, Nat.or_comm, Py.mul_pow_or _ hxlt, pow256]
    rw [e, unhexAfter4_sentinel k x (by rw [pow256]; exact hxlt)]
  · have c : (((8 * k : Nat) : Int) > (N : Int)) := by omega
    rw [if_neg hn, decide_eq_true c]
    rfl

/-- reading `n` bits returns the number formed by the next `n` unread bits -/
theorem oer_rnnbi_bits (d : oer_DecoderS) (h : ODecInv d) (n : Nat) :
    if n ≤ (oBits d).length then
      ∃ d', oer_Decoder_read_non_negative_binary_integer d n = .ok (d', ((bitsToNat ((oBits d).take n) : Nat) : Int)) ∧
        ODecInv d' ∧ oBits d' = (oBits d).drop n
    else oer_Decoder_read_non_negative_binary_integer d n = .error "OutOfDataError" := by
  obtain ⟨N, V, T, rfl, hle⟩ := h.view
  rw [oBits_mk, natToBits_length, oer_rnnbi_mk]
  by_cases hn : n ≤ N
  · rw [if_pos hn, if_pos hn]
    obtain ⟨t1, t2⟩ := natToBits_take N V n hn
    exact ⟨_, by rw [t1], odec_inv_mk _ _ _ (by omega), by rw [oBits_mk, t2]⟩
  · rw [if_neg hn, if_neg hn]

/-- reading `8 k` bits as octets -/
theorem oer_read_bits_bits (d : oer_DecoderS) (h : ODecInv d) (k : Nat) :
    if 8 * k ≤ (oBits d).length then
      ∃ d', oer_Decoder_read_bits d ((8 * k : Nat) : Int)
          = .ok (d', ofNats (natToBytesN k (bitsToNat ((oBits d).take (8 * k))))) ∧
        ODecInv d' ∧ oBits d' = (oBits d).drop (8 * k)
    else oer_Decoder_read_bits d ((8 * k : Nat) : Int) = .error "OutOfDataError" := by
  obtain ⟨N, V, T, rfl, hle⟩ := h.view
  rw [oBits_mk, natToBits_length, oer_read_bits_mk]
  by_cases hn : 8 * k ≤ N
  · rw [if_pos hn, if_pos hn]
    obtain ⟨t1, t2⟩ := natToBits_take N V (8 * k) hn
    exact ⟨_, by rw [t1], odec_inv_mk _ _ _ (by omega), by rw [oBits_mk, t2]⟩
  · rw [if_neg hn, if_neg hn]

theorem bit_cast (x : Nat) : ((x % 2 : Nat) : Int) = if (x % 2 == 1) = true then 1 else 0 := by
  rcases Nat.mod_two_eq_zero_or_one x with h | h <;> simp [h]

theorem band_one (x : Nat) : Py.band (x : Int) 1 = ((x % 2 : Nat) : Int) := by
  rw [show (1 : Int) = ((1 : Nat) : Int) from rfl, Py.band_natCast, Nat.and_one_is_mod]

theorem oer_read_bit_bits (d : oer_DecoderS) (h : ODecInv d) :
    match oBits d with
    | [] => oer_Decoder_read_bit d = .error "OutOfDataError"
    | b :: r => ∃ d', oer_Decoder_read_bit d = .ok (d', if b then 1 else 0) ∧ ODecInv d' ∧ oBits d' = r := by
  obtain ⟨N, V, T, rfl, hle⟩ := h.view
  rw [oBits_mk]
  cases N with
  | zero => exact rfl
  | succ M =>
    have e : natToBits (M + 1) V = (V / 2 ^ M % 2 == 1) :: natToBits M V := by
      rw [Nat.add_comm, natToBits_add]; rfl
    rw [e]
    refine ⟨⟨(M : Int), T, (V : Int)⟩, ?_, odec_inv_mk _ _ _ (by omega), oBits_mk _ _ _⟩
    unfold oer_Decoder_read_bit
    have c : ¬ (((M + 1 : Nat) : Int) = 0) := by omega
    rw [decide_eq_false c]
    simp only [Bool.false_eq_true, if_false]
    rw [show ((M + 1 : Nat) : Int) - 1 = (M : Int) by omega]
    simp only [shrE_natCast, bind, Except.bind, pure, Except.pure, band_one, bit_cast]

theorem oer_peek_bit_bits (d : oer_DecoderS) (h : ODecInv d) :
    match oBits d with
    | [] => oer_Decoder_peek_bit d = .error "OutOfDataError"
    | b :: _ => oer_Decoder_peek_bit d = .ok (if b then 1 else 0) := by
  obtain ⟨N, V, T, rfl, hle⟩ := h.view
  rw [oBits_mk]
  cases N with
  | zero => exact rfl
  | succ M =>
    have e : natToBits (M + 1) V = (V / 2 ^ M % 2 == 1) :: natToBits M V := by
      rw [Nat.add_comm, natToBits_add]; rfl
    rw [e]
    show oer_Decoder_peek_bit _ = _
    unfold oer_Decoder_peek_bit
    have c : ¬ (((M + 1 : Nat) : Int) = 0) := by omega
    rw [decide_eq_false c]
    simp only [Bool.false_eq_true, if_false]
    rw [show ((M + 1 : Nat) : Int) - 1 = (M : Int) by omega]
    simp only [shrE_natCast, bind, Except.bind, pure, Except.pure, band_one, bit_cast]

theorem oer_skip_bits_bits (d : oer_DecoderS) (h : ODecInv d) (n : Nat) :
    if n ≤ (oBits d).length then ∃ d', oer_Decoder_skip_bits d n = .ok d' ∧ ODecInv d' ∧ oBits d' = (oBits d).drop n
    else oer_Decoder_skip_bits d n = .error "OutOfDataError" := by
  obtain ⟨N, V, T, rfl, hle⟩ := h.view
  rw [oBits_mk, natToBits_length]
  unfold oer_Decoder_skip_bits
  by_cases hn : n ≤ N
  · have c : ¬ ((n : Int) > (N : Int)) := by omega
    rw [if_pos hn, decide_eq_false c]
    simp only [Bool.false_eq_true, if_false]
    rw [show (N : Int) - (n : Int) = ((N - n : Nat) : Int) by omega]
    exact ⟨_, rfl, odec_inv_mk _ _ _ (by omega), by rw [oBits_mk, (natToBits_take N V n hn).2]⟩
  · have c : ((n : Int) > (N : Int)) := by omega
    rw [if_neg hn, decide_eq_true c]
    rfl

/-! #### octet level -/

theorem oAt_length {d : oer_DecoderS} {bs : Bytes} (ha : oAt d bs) : (oBits d).length = 8 * bs.length := by
  rw [ha.2, bytesToBits_length]

theorem mem_take_lt {bs : Bytes} (h : ∀ b ∈ bs, b < 256) (k : Nat) : ∀ b ∈ bs.take k, b < 256 :=
  fun b hb => h b (List.mem_of_mem_take hb)

theorem mem_drop_lt {bs : Bytes} (h : ∀ b ∈ bs, b < 256) (k : Nat) : ∀ b ∈ bs.drop k, b < 256 :=
  fun b hb => h b (List.mem_of_mem_drop hb)

/-- reading `k` octets as a number -/
theorem oer_rnnbi_bytes (d : oer_DecoderS) (h : ODecInv d) (bs : Bytes) (ha : oAt d bs) (k : Nat) :
    if k ≤ bs.length then
      ∃ d', oer_Decoder_read_non_negative_binary_integer d ((8 * k : Nat) : Int)
          = .ok (d', ((bytesToNat (bs.take k) : Nat) : Int)) ∧ ODecInv d' ∧ oAt d' (bs.drop k)
    else oer_Decoder_read_non_negative_binary_integer d ((8 * k : Nat) : Int) = .error "OutOfDataError" := by
  have := oer_rnnbi_bits d h (8 * k)
  rw [oAt_length ha] at this
  by_cases hk : k ≤ bs.length
  · rw [if_pos (by omega)] at this
    rw [if_pos hk]
    obtain ⟨d', e, hi, hb⟩ := this
    refine ⟨d', ?_, hi, mem_drop_lt ha.1 k, ?_⟩
    · rw [e, ha.2, bytesToBits_take, bitsToNat_bytesToBits _ (mem_take_lt ha.1 k)]
    · rw [hb, ha.2, bytesToBits_drop]
  · rw [if_neg (by omega)] at this
    rw [if_neg hk]; exact this

/-- reading `k` octets as octets -/
theorem oer_read_bits_bytes (d : oer_DecoderS) (h : ODecInv d) (bs : Bytes) (ha : oAt d bs) (k : Nat) :
    if k ≤ bs.length then
      ∃ d', oer_Decoder_read_bits d ((8 * k : Nat) : Int) = .ok (d', ofNats (bs.take k)) ∧ ODecInv d' ∧ oAt d' (bs.drop k)
    else oer_Decoder_read_bits d ((8 * k : Nat) : Int) = .error "OutOfDataError" := by
  have := oer_read_bits_bits d h k
  rw [oAt_length ha] at this
  by_cases hk : k ≤ bs.length
  · rw [if_pos (by omega)] at this
    rw [if_pos hk]
    obtain ⟨d', e, hi, hb⟩ := this
    refine ⟨d', ?_, hi, mem_drop_lt ha.1 k, ?_⟩
    · rw [e, ha.2, bytesToBits_take, bitsToNat_bytesToBits _ (mem_take_lt ha.1 k)]
      have hl : (bs.take k).length = k := by rw [List.length_take]; omega
      have := natToBytesN_bytesToNat (bs.take k) (mem_take_lt ha.1 k)
      rw [hl] at this
      rw [this]
    · rw [hb, ha.2, bytesToBits_drop]
  · rw [if_neg (by omega)] at this
    rw [if_neg hk]; exact this

/-- `read_byte` at the octets `b :: r` / at the end of the data -/
theorem oer_read_byte_cons (d : oer_DecoderS) (h : ODecInv d) (b : Nat) (r : Bytes) (ha : oAt d (b :: r)) :
    ∃ d', oer_Decoder_read_byte d = .ok (d', (b : Int)) ∧ ODecInv d' ∧ oAt d' r := by
  have := oer_rnnbi_bytes d h (b :: r) ha 1
  rw [if_pos (by simp)] at this
  obtain ⟨d', e, hi, hb⟩ := this
  refine ⟨d', ?_, hi, hb⟩
  unfold oer_Decoder_read_byte
  rw [show (8 : Int) = ((8 * 1 : Nat) : Int) from rfl, e]
  simp only [List.take_succ_cons, List.take_zero, bytesToNat_single]
  rfl

theorem oer_read_byte_nil (d : oer_DecoderS) (h : ODecInv d) (ha : oAt d []) :
    oer_Decoder_read_byte d = .error "OutOfDataError" := by
  have := oer_rnnbi_bytes d h [] ha 1
  rw [if_neg (by simp)] at this
  unfold oer_Decoder_read_byte
  rw [show (8 : Int) = ((8 * 1 : Nat) : Int) from rfl, this]
  rfl

theorem oer_read_byte_refines (d : oer_DecoderS) (h : ODecInv d) (bs : Bytes) (ha : oAt d bs) :
    ORefines natVal (oer_Decoder_read_byte d) (Oer.readByte bs) := by
  cases bs with
  | nil => rw [oer_read_byte_nil d h ha]; exact .inl rfl
  | cons b r =>
    obtain ⟨d', e, hi, hb⟩ := oer_read_byte_cons d h b r ha
    rw [e]; exact ⟨hi, hb, rfl⟩

theorem oer_read_bytes_refines (d : oer_DecoderS) (h : ODecInv d) (bs : Bytes) (ha : oAt d bs) (n : Nat) :
    ORefines bytesVal (oer_Decoder_read_bytes d n) (Oer.readBytes n bs) := by
  have := oer_read_bits_bytes d h bs ha n
  unfold oer_Decoder_read_bytes
  rw [oer_readBytes_eq, show (8 : Int) * (n : Int) = ((8 * n : Nat) : Int) by omega]
  by_cases hn : n ≤ bs.length
  · rw [if_pos hn] at this ⊢
    obtain ⟨d', e, hi, hb⟩ := this
    rw [e]; exact ⟨hi, hb, rfl⟩
  · rw [if_neg hn] at this ⊢
    rw [this]; exact .inl rfl

theorem oer_read_length_determinant_refines (d : oer_DecoderS) (h : ODecInv d) (bs : Bytes) (ha : oAt d bs) :
    ORefines natVal (oer_Decoder_read_length_determinant d) (Oer.readLenDet bs) := by
  unfold oer_Decoder_read_length_determinant Oer.readLenDet
  cases bs with
  | nil =>
    rw [oer_read_byte_nil d h ha]; exact .inl rfl
  | cons b r =>
    obtain ⟨d1, e, hi, hb⟩ := oer_read_byte_cons d h b r ha
    have hb256 : b < 256 := ha.1 b (by simp)
    rw [e]
    simp only [Oer.readByte, bind, Except.bind]
    by_cases c : b < 128
    · rw [band128_eq c, if_pos c]
      exact ⟨hi, hb, rfl⟩
    · rw [band128_ne (by omega) hb256, if_neg c, Py.band127, oer_readBytes_eq,
        show (8 : Int) * ((b % 128 : Nat) : Int) = ((8 * (b - 128) : Nat) : Int) by omega]
      generalize b - 128 = k
      have := oer_rnnbi_bytes d1 hi r hb k
      by_cases hk : k ≤ r.length
      · rw [if_pos hk] at this ⊢
        obtain ⟨d2, e2, hi2, hb2⟩ := this
        simp only [e2, if_true]
        exact ⟨hi2, hb2, rfl⟩
      · rw [if_neg hk] at this ⊢
        simp only [this, if_true]
        exact .inl rfl

theorem oer_read_unsigned_integer_refines (d : oer_DecoderS) (h : ODecInv d) (bs : Bytes) (ha : oAt d bs) :
    ORefines natVal (oer_Decoder_read_unsigned_integer d) (Oer.decUnsigned bs) := by
  unfold oer_Decoder_read_unsigned_integer Oer.decUnsigned
  rcases (oer_read_length_determinant_refines d h bs ha).cases with ⟨d1, a, k, r, e1, e2, hi, hb, hv⟩ | ⟨e, m, e1, e2, hm⟩
  · rw [e1, e2, hv]
    simp only [bind, Except.bind, oer_readBytes_eq]
    rw [show (8 : Int) * (k : Int) = ((8 * k : Nat) : Int) by omega]
    have := oer_rnnbi_bytes d1 hi r hb k
    by_cases hk : k ≤ r.length
    · rw [if_pos hk] at this ⊢
      obtain ⟨d2, e3, hi2, hb2⟩ := this
      simp only [e3]
      exact ⟨hi2, hb2, rfl⟩
    · rw [if_neg hk] at this ⊢
      simp only [this]
      exact .inl rfl
  · rw [e1, e2]; exact hm

theorem oer_read_integer_refines (d : oer_DecoderS) (h : ODecInv d) (bs : Bytes) (ha : oAt d bs) :
    ORefines (fun a (i : Int) => a = i) (oer_Decoder_read_integer d) (Oer.decSigned bs) := by
  unfold oer_Decoder_read_integer Oer.decSigned
  rcases (oer_read_length_determinant_refines d h bs ha).cases with ⟨d1, a, k, r, e1, e2, hi, hb, hv⟩ | ⟨e, m, e1, e2, hm⟩
  · rw [e1, e2, hv]
    simp only [bind, Except.bind, oer_readBytes_eq]
    rw [show (8 : Int) * (k : Int) = ((8 * k : Nat) : Int) by omega]
    have := oer_rnnbi_bytes d1 hi r hb k
    by_cases hk : k ≤ r.length
    · rw [if_pos hk] at this ⊢
      obtain ⟨d2, e3, hi2, hb2⟩ := this
      simp only [e3]
      by_cases k0 : k = 0
      · subst k0
        rw [shlE_neg _ _ (by decide)]
        exact rfl
      · rw [if_neg k0, show ((8 * k : Nat) : Int) - 1 = ((8 * k - 1 : Nat) : Int) by omega, shlE_natCast, shlE_natCast]
        simp only [pure, Except.pure]
        have hl : (r.take k).length = k := by rw [List.length_take]; omega
        have hlt := bytesToNat_lt (r.take k) (mem_take_lt hb.1 k)
        rw [hl] at hlt
        unfold bytesToInt
        simp only [hl]
        generalize bytesToNat (r.take k) = n at hlt ⊢
        have hP := two_pow_pred (show 1 ≤ 8 * k by omega)
        have hz : Py.band (n : Int) ((1 : Int) * 2 ^ (8 * k - 1)) = 0 ↔ n < 2 ^ (8 * k - 1) := by
          rw [Int.one_mul, ← cast_two_pow, Py.band_natCast,
            ← Py.and_two_pow_eq_zero_of_lt (show n < 2 ^ (8 * k - 1 + 1) by
              rw [show 8 * k - 1 + 1 = 8 * k by omega]; exact hlt)]
          omega
        by_cases cA : n < 2 ^ (8 * k - 1)
        · rw [if_neg (by omega : ¬ (8 * k ≠ 0 ∧ n ≥ 2 ^ (8 * k - 1))), hz.2 cA,
            show Py.truthyInt 0 = false from rfl]
          exact ⟨hi2, hb2, rfl⟩
        · have hne : Py.band (n : Int) ((1 : Int) * 2 ^ (8 * k - 1)) ≠ 0 := fun hh => cA (hz.1 hh)
          have t1 : Py.truthyInt (Py.band (n : Int) ((1 : Int) * 2 ^ (8 * k - 1))) = true := by
            simp only [Py.truthyInt, bne_iff_ne]; exact hne
          rw [if_pos (by omega : (8 * k ≠ 0 ∧ n ≥ 2 ^ (8 * k - 1))), t1]
          refine ⟨hi2, hb2, ?_⟩
          show (n : Int) - ((1 : Int) * 2 ^ (8 * k) - 1) - 1 = (n : Int) - ((2 ^ (8 * k) : Nat) : Int)
          rw [Int.one_mul, ← cast_two_pow]; omega
    · rw [if_neg hk] at this ⊢
      simp only [this]
      exact .inl rfl
  · rw [e1, e2]; exact hm

/-! #### tags -/

theorem band63 (a : Nat) : Py.band (a : Int) 63 = ((a % 64 : Nat) : Int) := by
  rw [show (63 : Int) = ((63 : Nat) : Int) from rfl, Py.band_natCast]
  congr 1
  exact Nat.and_two_pow_sub_one_eq_mod a 6

theorem readTagRest_cons (f b : Nat) (r : Bytes) :
    Oer.readTagRest (f + 1) (b :: r) =
      if b < 128 then .ok ([b], r)
      else match Oer.readTagRest f r with
        | .ok (t, r') => .ok (b :: t, r')
        | .error m => .error m := by
  simp only [Oer.readTagRest, Oer.readByte, bind, Except.bind]
  by_cases c : b < 128
  · rw [if_pos c, if_pos c]
  · rw [if_neg c, if_neg c]
    cases Oer.readTagRest f r with
    | error m => rfl
    | ok p => rfl

theorem oer_read_tag_loop (r : Bytes) : ∀ (fuel fuel' : Nat) (d : oer_DecoderS) (byte : Int) (tag : List Nat),
    ODecInv d → oAt d r → r.length < fuel → r.length < fuel' →
    (∃ t rest d' byte', Oer.readTagRest fuel' r = .ok (t, rest) ∧
      oer_Decoder_read_tag_loop1 fuel d byte (ofNats tag) = .ok (byte', ofNats (tag ++ t), d') ∧
      ODecInv d' ∧ oAt d' rest) ∨
    (Oer.readTagRest fuel' r = .error .decodeError ∧
      oer_Decoder_read_tag_loop1 fuel d byte (ofNats tag) = .error "OutOfDataError") := by
  induction r with
  | nil =>
    intro fuel fuel' d byte tag h ha hf hf'
    obtain ⟨f, rfl⟩ : ∃ f, fuel = f + 1 := ⟨fuel - 1, by simp at hf; omega⟩
    obtain ⟨f', rfl⟩ : ∃ f, fuel' = f + 1 := ⟨fuel' - 1, by simp at hf'; omega⟩
    refine .inr ⟨rfl, ?_⟩
    unfold oer_Decoder_read_tag_loop1
    rw [oer_read_byte_nil d h ha]
    rfl
  | cons b r ih =>
    intro fuel fuel' d byte tag h ha hf hf'
    obtain ⟨f, rfl⟩ : ∃ f, fuel = f + 1 := ⟨fuel - 1, by omega⟩
    obtain ⟨f', rfl⟩ : ∃ f, fuel' = f + 1 := ⟨fuel' - 1, by omega⟩
    obtain ⟨d1, e, hi, hb⟩ := oer_read_byte_cons d h b r ha
    have hb256 : b < 256 := ha.1 b (by simp)
    have htag : ofNats tag ++ [(b : Int)] = ofNats (tag ++ [b]) := by
      rw [ofNats_append, ofNats_singleton]
    unfold oer_Decoder_read_tag_loop1
    rw [readTagRest_cons, e]
    simp only [bind, Except.bind, htag]
    by_cases c : b < 128
    · rw [if_pos c, band128_zero c]
      exact .inl ⟨[b], r, d1, (b : Int), rfl, rfl, hi, hb⟩
    · rw [if_neg c, decide_eq_false (band128_nonzero (by omega) hb256)]
      simp only [Bool.false_eq_true, if_false]
      simp only [List.length_cons] at hf hf'
      rcases ih f f' d1 (b : Int) (tag ++ [b]) hi hb (by omega) (by omega) with
        ⟨t, rest, d', byte', q1, q2, q3, q4⟩ | ⟨q1, q2⟩
      · refine .inl ⟨b :: t, rest, d', byte', ?_, ?_, q3, q4⟩
        · rw [q1]
        · rw [q2, List.append_assoc]; rfl
      · refine .inr ⟨?_, q2⟩
        rw [q1]

theorem oer_read_tag_refines (d : oer_DecoderS) (h : ODecInv d) (bs : Bytes) (ha : oAt d bs) :
    ORefines bytesVal (oer_Decoder_read_tag d) (Oer.readTag bs) := by
  unfold oer_Decoder_read_tag Oer.readTag
  cases bs with
  | nil =>
    rw [oer_read_byte_nil d h ha]; exact .inl rfl
  | cons b r =>
    obtain ⟨d1, e, hi, hb⟩ := oer_read_byte_cons d h b r ha
    rw [e]
    simp only [Oer.readByte, bind, Except.bind, band63]
    by_cases c : b % 64 = 63
    · rw [if_pos c, decide_eq_true (show ((b % 64 : Nat) : Int) = 63 by omega)]
      simp only [if_true]
      obtain ⟨N, hN⟩ := Int.eq_ofNat_of_zero_le hi.nb
      have hlen : N = 8 * r.length := by
        have := oAt_length hb
        rw [oBits_length, hN, Int.toNat_natCast] at this
        exact this
      have hfuel : r.length < 1 + Py.fuelOfInt d1.number_of_bits + Py.fuelOfInt d1.total_number_of_bits
          + Py.fuelOfInt d1.value + Py.fuelOfInt (b : Int) + Py.fuelOfList [(b : Int)] := by
        rw [hN, Py.fuelOfInt_natCast]; omega
      rcases oer_read_tag_loop r _ (r.length + 1) d1 (b : Int) [b] hi hb hfuel (by omega) with
        ⟨t, rest, d', byte', q1, q2, q3, q4⟩ | ⟨q1, q2⟩
      · rw [show ofNats [b] = [(b : Int)] from rfl] at q2
        rw [q1, q2]
        exact ⟨q3, q4, rfl⟩
      · rw [show ofNats [b] = [(b : Int)] from rfl] at q2
        rw [q1, q2]
        exact .inl rfl
    · rw [if_neg c, decide_eq_false (show ¬ ((b % 64 : Nat) : Int) = 63 by omega)]
      exact ⟨hi, hb, rfl⟩

end Asn1.Bridge
