import Asn1Proofs.Lemmas.PerLeaf
/-
  Aligned PER: round trip and totality for OCTET STRING, BIT STRING and UTF8String.
-/
set_option linter.unusedSimpArgs false
namespace Asn1.Per
open Asn1.Uper (smallLen inSize sizeBits lenDet encChunked takeBits utf8Enc utf8Dec EncM DecM
  canon_octetString canon_charString sizeOk_eq_inSize ext_hi_of_wf allBytes_iff)

/-! ### extensible size constraints -/

theorem extRange_eq {c : SizeC} (hwf : sizeWf c = true) (hext : c.ext = true) (n : Nat) :
    extRange c n = if inSize c n = true then .inside else .outside := by
  unfold extRange inSize
  cases hhi : c.hi with
  | none => simp [sizeWf, hhi, hext] at hwf
  | some hi => simp only [Bool.and_eq_true, decide_eq_true_eq]

theorem flatten_map_natToBits8 (bs : Bytes) : (bs.map (natToBits 8)).flatten = bytesToBits bs := by
  unfold bytesToBits; rw [List.flatMap_def]

theorem uniform_map_natToBits (w : Nat) (l : List Nat) :
    ∀ x ∈ l.map (natToBits w), x.length = w := by
  intro x hx
  obtain ⟨a, _, rfl⟩ := List.mem_map.1 hx
  exact natToBits_length w a

theorem uniform_map_singleton (l : Bits) : ∀ x ∈ l.map (fun b => [b]), x.length = 1 := by
  intro x hx
  obtain ⟨a, _, rfl⟩ := List.mem_map.1 hx
  rfl

theorem flatten_map_singleton (l : Bits) : (l.map (fun b => [b])).flatten = l := by
  induction l with
  | nil => rfl
  | cons a r ih => simp only [List.map_cons, List.flatten_cons, ih, List.singleton_append]

/-! ### OCTET STRING -/

def encOctRoot (c : SizeC) (pos : Nat) (data : Bytes) (pre : Bits) : EncM Bits :=
  match sizeBits c with
  | none => .ok (pre ++ alignBits (pos + pre.length) ++ encChunked (data.map (natToBits 8)))
  | some w =>
    if ¬ inSize c data.length then .error .unmodelled
    else .ok (pre ++ sizePrefix c w (pos + pre.length) data.length true (decide (c.lo > 2))
      ++ bytesToBits data)

theorem enc_octetString (c : SizeC) (pos : Nat) (data : Bytes) :
    enc (.octetString c) pos (.bytes data) =
      if c.ext then
        match extRange c data.length with
        | .typeError => .error .foreign
        | .outside =>
          .ok ([true] ++ alignBits (pos + 1) ++ (lenDet data.length).1 ++ bytesToBits data)
        | .inside => encOctRoot c pos data [false]
      else encOctRoot c pos data [] := by
  rw [enc]; rfl

def decOctRoot (c : SizeC) (fuel : Nat) (s0 : St) : DecM (Val × St) :=
  match sizeBits c with
  | none => do
    let (body, r) ← decChunksBits 8 fuel (align s0)
    .ok (.bytes (packBits body), r)
  | some w => do
    let (len, r) ← readSize c w (fun _ => true) (decide (c.lo > 2)) s0
    let (body, r') ← readBits (8 * len) r
    .ok (.bytes (packBits body), r')

theorem dec_octetString (c : SizeC) (fuel : Nat) (s : St) :
    dec (.octetString c) fuel s = (do
      let (ext, s0) ← (if c.ext then readBit s else .ok (false, s))
      if ext then do
        let (len, r) ← readLenDet (align s0)
        let (body, r') ← readBits (8 * len) r
        .ok (.bytes (packBits body), r')
      else decOctRoot c fuel s0) := by
  rw [dec]; rfl

theorem octRoot_rt (c : SizeC) (pos q : Nat) (data : Bytes) (pre bits rest : Bits) (fuel : Nat)
    (hb : ∀ b ∈ data, b < 256) (hq : q % 8 = (pos + pre.length) % 8)
    (he : encOctRoot c pos data pre = .ok bits) (hfuel : bits.length + rest.length + 2 ≤ fuel) :
    ∃ X, bits = pre ++ X ∧
      decOctRoot c fuel ⟨q, X ++ rest⟩ = .ok (.bytes data, ⟨q + X.length, rest⟩) := by
  have hpack := packBits_bytesToBits data hb
  unfold encOctRoot at he
  unfold decOctRoot
  split at he
  · rename_i hsb
    cases he
    refine ⟨_, List.append_assoc _ _ _, ?_⟩
    simp only [List.length_append] at hfuel
    simp only [hsb, bind, Except.bind, List.append_assoc]
    rw [align_alignBits _ _ _ hq,
      decChunksBits_encChunked 8 _ (uniform_map_natToBits 8 data) _ _ fuel (by omega)]
    simp only [flatten_map_natToBits8, hpack, List.length_append, alignBits_length, Nat.add_assoc]
  · rename_i w hsb
    split at he
    · cases he
    rename_i hin
    simp only [Decidable.not_not] at hin
    cases he
    refine ⟨_, List.append_assoc _ _ _, ?_⟩
    simp only [hsb, bind, Except.bind, List.append_assoc]
    rw [readSize_sizePrefix c w _ _ _ _ _ _ _ hq hsb hin rfl]
    simp only
    rw [readBits_append _ _ _ (bytesToBits_length data)]
    simp only [hpack, List.length_append, bytesToBits_length, Nat.add_assoc]

theorem rt_octetString (c : SizeC) : RT (.octetString c) := by
  intro v pos pos' bits rest fuel hwf _ _ ht hf hp he hfuel
  cases v <;> simp only [hasType, Bool.false_eq_true] at ht
  rename_i data
  rw [canon_octetString]
  rw [Ty.wf] at hwf
  rw [fragFree] at hf
  simp only [Bool.and_eq_true, allBytes_iff, Bool.or_eq_true, sizeOk_eq_inSize] at ht
  obtain ⟨hbytes, hsz⟩ := ht
  have hpack := packBits_bytesToBits data hbytes
  rw [enc_octetString] at he
  rw [dec_octetString]
  cases hext : c.ext with
  | false =>
    simp only [hext, Bool.false_eq_true, if_false] at he ⊢
    obtain ⟨X, hX, hdec⟩ := octRoot_rt c pos pos' data [] bits rest fuel hbytes (by simpa using hp)
      he hfuel
    subst hX
    simp only [bind, Except.bind, List.nil_append, Bool.false_eq_true, if_false, hdec]
  | true =>
    simp only [hext, if_true, extRange_eq hwf hext] at he ⊢
    by_cases hin : inSize c data.length = true
    · simp only [hin, if_true] at he
      obtain ⟨X, hX, hdec⟩ := octRoot_rt c pos (pos' + 1) data [false] bits rest fuel hbytes
        (by simp only [List.length_singleton]; omega) he hfuel
      subst hX
      simp only [bind, Except.bind, List.cons_append, List.nil_append, readBit_cons,
        Bool.false_eq_true, if_false, hdec, List.length_cons, Except.ok.injEq, Prod.mk.injEq,
        true_and]
      exact St.eq_of_pos _ (by omega)
    · simp only [hin, if_false] at he
      cases he
      have hs : data.length < 16384 := by
        simp only [Bool.or_eq_true, Bool.not_eq_true', smallLen, decide_eq_true_eq] at hf
        rcases hf with (hf | hf) | hf
        · rw [hext] at hf; cases hf
        · exact absurd hf hin
        · exact hf
      simp only [bind, Except.bind, List.cons_append, List.nil_append, readBit_cons, if_true,
        List.append_assoc]
      rw [align_alignBits _ _ _ (by omega), readLenDet_lenDet, Uper.lenDet_snd_of_lt hs]
      simp only
      rw [readBits_append _ _ _ (bytesToBits_length data)]
      simp only [hpack, List.length_cons, List.length_append, alignBits_length, bytesToBits_length,
        Except.ok.injEq, Prod.mk.injEq, true_and]
      exact St.eq_of_pos _ (by omega)

theorem et_octetString (c : SizeC) : ET (.octetString c) := by
  intro v pos hwf ht
  cases v <;> simp only [hasType, Bool.false_eq_true] at ht
  rename_i data
  rw [Ty.wf] at hwf
  simp only [Bool.and_eq_true, Bool.or_eq_true, sizeOk_eq_inSize] at ht
  have hroot : ∀ pre, inSize c data.length = true → ∃ bits, encOctRoot c pos data pre = .ok bits := by
    intro pre hin
    unfold encOctRoot
    split
    · exact ⟨_, rfl⟩
    · simp only [hin, not_true_eq_false, if_false]; exact ⟨_, rfl⟩
  rw [enc_octetString]
  cases hext : c.ext with
  | false =>
    simp only [Bool.false_eq_true, if_false]
    exact hroot [] (by simpa [hext] using ht.2)
  | true =>
    simp only [if_true, extRange_eq hwf hext]
    by_cases hin : inSize c data.length = true
    · simp only [hin, if_true]; exact hroot _ hin
    · simp only [hin, if_false]; exact ⟨_, rfl⟩

/-! ### BIT STRING -/

def encBitRoot (c : SizeC) (pos : Nat) (data : Bytes) (n : Nat) (pre : Bits) : EncM Bits :=
  match takeBits data n with
  | .error e => .error e
  | .ok body =>
    match sizeBits c with
    | none => .ok (pre ++ alignBits (pos + pre.length) ++ encChunked (body.map (fun b => [b])))
    | some w =>
      if ¬ inSize c n then .error .unmodelled
      else .ok (pre ++ sizePrefix c w (pos + pre.length) n true (decide (c.lo > 16)) ++ body)

theorem enc_bitString (c : SizeC) (pos : Nat) (data : Bytes) (n : Nat) :
    enc (.bitString c) pos (.bits data n) =
      if c.ext then
        match extRange c n with
        | .typeError => .error .foreign
        | .outside => .error .notImplemented
        | .inside => encBitRoot c pos data n [false]
      else encBitRoot c pos data n [] := by
  rw [enc]; rfl

def decBitRoot (c : SizeC) (fuel : Nat) (s0 : St) : DecM (Val × St) :=
  match sizeBits c with
  | none => do
    let (xs, r) ← decChunksBits 1 fuel (align s0)
    .ok (.bits (packBits xs) xs.length, r)
  | some w => do
    let (len, r) ← readSize c w (fun _ => true) (decide (c.lo > 16)) s0
    let (body, r') ← readBits len r
    .ok (.bits (packBits body) len, r')

theorem dec_bitString (c : SizeC) (fuel : Nat) (s : St) :
    dec (.bitString c) fuel s = (do
      let (ext, s0) ← (if c.ext then readBit s else .ok (false, s))
      if ext then .error .notImplemented
      else decBitRoot c fuel s0) := by
  rw [dec]; rfl

theorem bitRoot_rt (c : SizeC) (pos q : Nat) (data : Bytes) (n : Nat) (pre bits rest : Bits)
    (fuel : Nat) (hlen : data.length = (n + 7) / 8) (hq : q % 8 = (pos + pre.length) % 8)
    (he : encBitRoot c pos data n pre = .ok bits) (hfuel : bits.length + rest.length + 2 ≤ fuel) :
    ∃ X, bits = pre ++ X ∧
      decBitRoot c fuel ⟨q, X ++ rest⟩ = .ok (.bits (cleanBits data n) n, ⟨q + X.length, rest⟩) := by
  have htake : takeBits data n = .ok ((bytesToBits data).take n) := by
    unfold takeBits; rw [if_pos (by omega)]
  have hblen : ((bytesToBits data).take n).length = n := by
    rw [List.length_take, bytesToBits_length]; omega
  unfold encBitRoot at he
  unfold decBitRoot cleanBits
  rw [htake] at he
  simp only at he
  generalize (bytesToBits data).take n = body at *
  split at he
  · rename_i hsb
    cases he
    refine ⟨_, List.append_assoc _ _ _, ?_⟩
    simp only [List.length_append] at hfuel
    simp only [hsb, bind, Except.bind, List.append_assoc]
    rw [align_alignBits _ _ _ hq,
      decChunksBits_encChunked 1 _ (uniform_map_singleton body) _ _ fuel (by omega)]
    simp only [flatten_map_singleton, hblen, List.length_append, alignBits_length, Nat.add_assoc]
  · rename_i w hsb
    split at he
    · cases he
    rename_i hin
    simp only [Decidable.not_not] at hin
    cases he
    refine ⟨_, List.append_assoc _ _ _, ?_⟩
    simp only [hsb, bind, Except.bind, List.append_assoc]
    rw [readSize_sizePrefix c w _ _ _ _ _ _ _ hq hsb hin rfl]
    simp only
    rw [readBits_append _ _ _ hblen]
    simp only [List.length_append, hblen, Nat.add_assoc]

theorem rt_bitString (c : SizeC) : RT (.bitString c) := by
  intro v pos pos' bits rest fuel hwf _ _ ht hf hp he hfuel
  cases v <;> simp only [hasType, Bool.false_eq_true] at ht
  rename_i data n
  rw [canon]
  rw [Ty.wf] at hwf
  simp only [Bool.and_eq_true, allBytes_iff, decide_eq_true_eq, sizeOk_eq_inSize] at ht
  obtain ⟨⟨hbytes, hlen⟩, hin⟩ := ht
  rw [enc_bitString] at he
  rw [dec_bitString]
  cases hext : c.ext with
  | false =>
    simp only [hext, Bool.false_eq_true, if_false] at he ⊢
    obtain ⟨X, hX, hdec⟩ := bitRoot_rt c pos pos' data n [] bits rest fuel hlen (by simpa using hp)
      he hfuel
    subst hX
    simp only [bind, Except.bind, List.nil_append, Bool.false_eq_true, if_false, hdec]
  | true =>
    simp only [hext, if_true, extRange_eq hwf hext, hin] at he ⊢
    obtain ⟨X, hX, hdec⟩ := bitRoot_rt c pos (pos' + 1) data n [false] bits rest fuel hlen
      (by simp only [List.length_singleton]; omega) he hfuel
    subst hX
    simp only [bind, Except.bind, List.cons_append, List.nil_append, readBit_cons,
      Bool.false_eq_true, if_false, hdec, List.length_cons, Except.ok.injEq, Prod.mk.injEq,
      true_and]
    exact St.eq_of_pos _ (by omega)

theorem et_bitString (c : SizeC) : ET (.bitString c) := by
  intro v pos hwf ht
  cases v <;> simp only [hasType, Bool.false_eq_true] at ht
  rename_i data n
  rw [Ty.wf] at hwf
  simp only [Bool.and_eq_true, allBytes_iff, decide_eq_true_eq, sizeOk_eq_inSize] at ht
  obtain ⟨⟨hbytes, hlen⟩, hin⟩ := ht
  have htake : takeBits data n = .ok ((bytesToBits data).take n) := by
    unfold takeBits; rw [if_pos (by omega)]
  have hroot : ∀ pre, ∃ bits, encBitRoot c pos data n pre = .ok bits := by
    intro pre
    unfold encBitRoot
    rw [htake]
    simp only
    split
    · exact ⟨_, rfl⟩
    · simp only [hin, not_true_eq_false, if_false]; exact ⟨_, rfl⟩
  rw [enc_bitString]
  cases hext : c.ext with
  | false => simp only [Bool.false_eq_true, if_false]; exact hroot []
  | true => simp only [if_true, extRange_eq hwf hext, hin]; exact hroot _

/-! ### UTF8String -/

theorem utf8Bytes_ok (cps : List Nat) (h : ∀ cp ∈ cps, ¬ (0xd800 ≤ cp ∧ cp < 0xe000)) :
    utf8Bytes cps = .ok (cps.flatMap utf8Enc) := by
  unfold utf8Bytes
  rw [if_neg]
  simp only [List.any_eq_true, Bool.and_eq_true, decide_eq_true_eq, not_exists, not_and]
  intro cp hcp h1
  have := h cp hcp
  omega

theorem utf8_valid (cps : List Nat) (ht : hasType (.charString .utf8 c) (.str cps) = true) :
    ∀ cp ∈ cps, cp < 0x110000 ∧ ¬ (0xd800 ≤ cp ∧ cp < 0xe000) := by
  simp only [hasType, List.all_eq_true, Bool.and_eq_true, decide_eq_true_eq, Bool.not_eq_true',
    Bool.and_eq_false_iff, decide_eq_false_iff_not] at ht
  intro cp hcp
  obtain ⟨h1, h2⟩ := ht cp hcp
  exact ⟨h1, by omega⟩

theorem rt_utf8 (c : SizeC) : RT (.charString .utf8 c) := by
  intro v pos pos' bits rest fuel hwf _ _ ht hf hp he hfuel
  cases v <;> try (simp only [hasType, Bool.false_eq_true] at ht; done)
  rename_i cps
  rw [canon_charString]
  have hvalid := utf8_valid cps ht
  have hbytes : ∀ b ∈ cps.flatMap utf8Enc, b < 256 := by
    intro b hb
    obtain ⟨cp, hcp, hb'⟩ := List.mem_flatMap.1 hb
    exact Uper.utf8Enc_lt_256 cp (hvalid cp hcp).1 b hb'
  rw [enc, utf8Bytes_ok cps (fun cp hcp => (hvalid cp hcp).2)] at he
  simp only at he
  cases he
  simp only [List.length_append] at hfuel
  rw [dec]
  simp only [bind, Except.bind, List.append_assoc]
  rw [align_alignBits _ _ _ hp,
    decChunksBits_encChunked 8 _ (uniform_map_natToBits 8 _) _ _ fuel (by omega)]
  simp only [flatten_map_natToBits8, packBits_bytesToBits _ hbytes]
  rw [Uper.utf8Dec_flatMap_utf8Enc cps hvalid _ (Nat.le_refl _)]
  simp only [List.length_append, alignBits_length, Nat.add_assoc]

theorem et_utf8 (c : SizeC) : ET (.charString .utf8 c) := by
  intro v pos hwf ht
  cases v <;> try (simp only [hasType, Bool.false_eq_true] at ht; done)
  rename_i cps
  have hvalid := utf8_valid cps ht
  rw [enc, utf8Bytes_ok cps (fun cp hcp => (hvalid cp hcp).2)]
  exact ⟨_, rfl⟩

end Asn1.Per
