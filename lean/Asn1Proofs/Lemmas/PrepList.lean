import Asn1Proofs.Lemmas.PrepConv
/-
  Association-list plumbing for the dictionary rewrite: `modifyAt`, `mapSnd`, `find?`, skeletons.
-/
namespace Asn1.SpecDict

section
variable {α : Type}

@[simp] theorem modifyAt_length (f : α → α) (i : Nat) (l : List (String × α)) :
    (modifyAt f i l).length = l.length := by
  induction l generalizing i with
  | nil => cases i <;> rfl
  | cons x t ih =>
    obtain ⟨k, v⟩ := x
    cases i with
    | zero => rfl
    | succ i => simp [modifyAt, ih]

theorem getElem?_modifyAt_ne (f : α → α) {i j : Nat} (h : j ≠ i) (l : List (String × α)) :
    (modifyAt f i l)[j]? = l[j]? := by
  induction l generalizing i j with
  | nil => cases i <;> rfl
  | cons x t ih =>
    obtain ⟨k, v⟩ := x
    cases i with
    | zero =>
      cases j with
      | zero => exact absurd rfl h
      | succ j => simp [modifyAt]
    | succ i =>
      cases j with
      | zero => simp [modifyAt]
      | succ j => simp only [modifyAt, List.getElem?_cons_succ]; exact ih (by omega)

theorem getElem?_modifyAt_eq (f : α → α) (i : Nat) (l : List (String × α)) :
    (modifyAt f i l)[i]? = (l[i]?).map (fun p => (p.1, f p.2)) := by
  induction l generalizing i with
  | nil => cases i <;> rfl
  | cons x t ih =>
    obtain ⟨k, v⟩ := x
    cases i with
    | zero => simp [modifyAt]
    | succ i => simp only [modifyAt, List.getElem?_cons_succ]; exact ih i

theorem modifyAt_of_none (f : α → α) {i : Nat} {l : List (String × α)} (h : l[i]? = none) :
    modifyAt f i l = l := by
  induction l generalizing i with
  | nil => cases i <;> rfl
  | cons x t ih =>
    obtain ⟨k, v⟩ := x
    cases i with
    | zero => simp at h
    | succ i => simp only [List.getElem?_cons_succ] at h; simp [modifyAt, ih h]

theorem modifyAt_congr {f g : α → α} {i : Nat} {l : List (String × α)}
    (h : ∀ k v, l[i]? = some (k, v) → f v = g v) : modifyAt f i l = modifyAt g i l := by
  induction l generalizing i with
  | nil => cases i <;> rfl
  | cons x t ih =>
    obtain ⟨k, v⟩ := x
    cases i with
    | zero => simp [modifyAt, h k v (by simp)]
    | succ i =>
      simp only [modifyAt]
      rw [ih (fun k v hk => h k v (by simpa using hk))]

theorem modifyAt_id (i : Nat) (l : List (String × α)) : modifyAt (fun x => x) i l = l := by
  induction l generalizing i with
  | nil => cases i <;> rfl
  | cons x t ih =>
    obtain ⟨k, v⟩ := x
    cases i with
    | zero => rfl
    | succ i => simp [modifyAt, ih]

theorem modifyAt_eq_self {f : α → α} {i : Nat} {l : List (String × α)}
    (h : ∀ k v, l[i]? = some (k, v) → f v = v) : modifyAt f i l = l := by
  rw [modifyAt_congr (g := fun x => x) h, modifyAt_id]

theorem modifyAt_modifyAt (f g : α → α) (i : Nat) (l : List (String × α)) :
    modifyAt f i (modifyAt g i l) = modifyAt (fun x => f (g x)) i l := by
  induction l generalizing i with
  | nil => cases i <;> rfl
  | cons x t ih =>
    obtain ⟨k, v⟩ := x
    cases i with
    | zero => rfl
    | succ i => simp [modifyAt, ih]

/-- the entry at a position, as a split of the list -/
theorem modifyAt_append_cons (f : α → α) (l₁ : List (String × α)) (k : String) (v : α)
    (l₂ : List (String × α)) :
    modifyAt f l₁.length (l₁ ++ (k, v) :: l₂) = l₁ ++ (k, f v) :: l₂ := by
  induction l₁ with
  | nil => rfl
  | cons x t ih => simp [modifyAt, ih]

@[simp] theorem mapSnd_length (f : α → α) (l : List (String × α)) :
    (mapSnd f l).length = l.length := by
  induction l with
  | nil => rfl
  | cons x t ih => obtain ⟨k, v⟩ := x; simp [mapSnd, ih]

theorem mapSnd_mapSnd (f g : α → α) (l : List (String × α)) :
    mapSnd f (mapSnd g l) = mapSnd (fun x => f (g x)) l := by
  induction l with
  | nil => rfl
  | cons x t ih => obtain ⟨k, v⟩ := x; simp [mapSnd, ih]

theorem mapSnd_congr {f g : α → α} {l : List (String × α)}
    (h : ∀ k v, (k, v) ∈ l → f v = g v) : mapSnd f l = mapSnd g l := by
  induction l with
  | nil => rfl
  | cons x t ih =>
    obtain ⟨k, v⟩ := x
    simp only [mapSnd]
    rw [h k v (by simp), ih (fun k' v' hm => h k' v' (by simp [hm]))]

theorem mapSnd_id (l : List (String × α)) : mapSnd (fun x => x) l = l := by
  induction l with
  | nil => rfl
  | cons x t ih => obtain ⟨k, v⟩ := x; simp [mapSnd, ih]

theorem mapSnd_eq_self {f : α → α} {l : List (String × α)}
    (h : ∀ k v, (k, v) ∈ l → f v = v) : mapSnd f l = l := by
  rw [mapSnd_congr (g := fun x => x) h, mapSnd_id]

theorem mem_mapSnd {f : α → α} {l : List (String × α)} {k : String} {w : α}
    (h : (k, w) ∈ mapSnd f l) : ∃ v, (k, v) ∈ l ∧ w = f v := by
  induction l with
  | nil => simp [mapSnd] at h
  | cons x t ih =>
    obtain ⟨k', v'⟩ := x
    simp only [mapSnd, List.mem_cons, Prod.mk.injEq] at h
    rcases h with ⟨rfl, rfl⟩ | h
    · exact ⟨v', by simp, rfl⟩
    · obtain ⟨v, hv, hw⟩ := ih h
      exact ⟨v, by simp [hv], hw⟩

theorem mem_modifyAt {f : α → α} {i : Nat} {l : List (String × α)} {k : String} {w : α}
    (h : (k, w) ∈ modifyAt f i l) : (k, w) ∈ l ∨ ∃ v, l[i]? = some (k, v) ∧ w = f v := by
  induction l generalizing i with
  | nil => cases i <;> simp [modifyAt] at h
  | cons x t ih =>
    obtain ⟨k', v'⟩ := x
    cases i with
    | zero =>
      simp only [modifyAt, List.mem_cons, Prod.mk.injEq] at h
      rcases h with ⟨rfl, rfl⟩ | h
      · exact .inr ⟨v', by simp, rfl⟩
      · exact .inl (by simp [h])
    | succ i =>
      simp only [modifyAt, List.mem_cons] at h
      rcases h with h | h
      · exact .inl (by simp [h])
      · rcases ih h with h | ⟨v, hv, hw⟩
        · exact .inl (by simp [h])
        · exact .inr ⟨v, by simpa using hv, hw⟩

theorem find?_mem {k : String} {l : List (String × α)} {v : α} (h : find? k l = some v) :
    (k, v) ∈ l := by
  induction l with
  | nil => simp [find?] at h
  | cons x t ih =>
    obtain ⟨a, b⟩ := x
    simp only [find?] at h
    split at h
    · rename_i hk; cases h; subst hk; simp
    · simp [ih h]

end

/-! ### skeletons -/

theorem typesSkel_mapSnd {f : Desc → Desc} (h : ∀ d, (f d).attrs.core = d.attrs.core)
    (l : List (String × Desc)) : typesSkel (mapSnd f l) = typesSkel l := by
  induction l with
  | nil => rfl
  | cons x t ih => obtain ⟨k, v⟩ := x; simp [mapSnd, typesSkel, ih, h]

theorem typesSkel_modifyAt {f : Desc → Desc} (h : ∀ d, (f d).attrs.core = d.attrs.core)
    (i : Nat) (l : List (String × Desc)) : typesSkel (modifyAt f i l) = typesSkel l := by
  induction l generalizing i with
  | nil => cases i <;> rfl
  | cons x t ih =>
    obtain ⟨k, v⟩ := x
    cases i with
    | zero => simp [modifyAt, typesSkel, h]
    | succ i => simp [modifyAt, typesSkel, ih]

theorem skel_modifyAt {g : Module → Module} (h : ∀ m, (g m).skel = m.skel)
    (i : Nat) (s : Spec) : skel (modifyAt g i s) = skel s := by
  induction s generalizing i with
  | nil => cases i <;> rfl
  | cons x t ih =>
    obtain ⟨k, v⟩ := x
    cases i with
    | zero => simp [modifyAt, skel, h]
    | succ i => simp [modifyAt, skel, ih]

theorem Module.skel_mapTypes {f : Desc → Desc} (h : ∀ d, (f d).attrs.core = d.attrs.core)
    (m : Module) : (m.mapTypes f).skel = m.skel := by
  simp [Module.skel, Module.mapTypes, typesSkel_mapSnd h]

theorem Module.skel_modifyType {f : Desc → Desc} (h : ∀ d, (f d).attrs.core = d.attrs.core)
    (k : Nat) (m : Module) : (m.modifyType k f).skel = m.skel := by
  simp [Module.skel, Module.modifyType, typesSkel_modifyAt h]

@[simp] theorem skel_length (s : Spec) : (skel s).length = s.length := by
  induction s with
  | nil => rfl
  | cons x t ih => obtain ⟨k, v⟩ := x; simp [skel, ih]

end Asn1.SpecDict
