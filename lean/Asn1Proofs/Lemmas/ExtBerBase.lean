import Asn1Model.BerCodec
import Asn1Proofs.Lemmas.ExtDer
/-
  C07 for the BER model: statement shape and the easy cases.

  `BerCodec.enc` is `Der.enc` (definitionally), `BerCodec.dec` is a different function from `Der.dec`.
  The cross-version statement is therefore stated for an arbitrary decoder `D` (`XTg D`); the
  SEQUENCE / CHOICE cases (`ExtBerSeq.lean`, `ExtBerChoice.lean`) are proved for every `D` that is an
  instance of the shared SEQUENCE / CHOICE decoder (`Der.IsCodec D test`, as in the round-trip proof),
  the remaining cases for `D = BerCodec.dec`:

  * leaf types with decoder type = encoder type: the DER statement (`DerX.XTd t t`) and the two
    round-trip theorems (`Der.rt_all_der`, `Der.rt_all_ber`) give `view = canonV` and then the BER
    statement (`xtb_same`);
  * ENUMERATED: `BerCodec.dec` and `Der.dec` are the same term on ENUMERATED (`dec_enumerated_eq`);
  * SEQUENCE OF: the BER loop `BerCodec.items` (`Der.items_mapM`) instead of `Der.derElems`.
-/
set_option linter.unusedSimpArgs false
set_option linter.unusedVariables false
namespace Asn1.Ext.BerX
open Asn1 Asn1.Der Asn1.Ext Asn1.Ext.DerX

/-- cross-version round trip of the pair decoder type `tD` / encoder type `tE`, in any tagging context,
for the decoder `D` (`DerX.XTd` is `XTg Der.dec`) -/
def XTg (D : Decoder) (tD tE : Ty) : Prop :=
  ∀ (tg : Option Nat) (v : Val) (bytes rest : Bytes) (fuel : Nat),
    tE.wf = true → Oer.oerWf tE = true → X690.defaultsOkV tE = true → dOk true tD tE →
    hasType tE v = true → enc tE tg v = .ok bytes → bytes.length < fuel →
    D tD tg fuel (bytes ++ rest) = .ok (some (view true tD tE v, bytes.length, rest))

/-- what the induction carries for a pair of component types -/
def XCg (D : Decoder) (tD tE : Ty) : Prop := XTg D tD tE ∧ Compat tD tE

/-- the BER statement -/
abbrev XTb : Ty → Ty → Prop := XTg BerCodec.dec

theorem xcg_toDer {D : Decoder} {tD tE : Ty} (h : XCg D tD tE) : XC tD tE := ⟨xtd_all h.2, h.2⟩

/-! ### paired lists: change of the carried predicate -/

theorem pairM_mono {P Q : Ty → Ty → Prop} (h : ∀ a b, P a b → Q a b) (mD : Members) :
    ∀ mE : Members, PairM P mD mE → PairM Q mD mE := by
  induction mD using Members.ind with
  | nil => intro mE _; trivial
  | cons n p t rest ih =>
    intro mE hp
    cases mE with
    | nil => exact ⟨hp.1, ih .nil hp.2⟩
    | cons n' p' t' rest' => exact ⟨hp.1, hp.2.1, h _ _ hp.2.2.1, ih rest' hp.2.2.2⟩

theorem pairA_mono {P Q : Ty → Ty → Prop} (h : ∀ a b, P a b → Q a b) (mD : Alts) :
    ∀ mE : Alts, PairA P mD mE → PairA Q mD mE := by
  induction mD using Alts.ind with
  | nil => intro mE _; cases mE <;> trivial
  | cons n t rest ih =>
    intro mE hp
    cases mE with
    | nil => trivial
    | cons n' t' rest' => exact ⟨hp.1, h _ _ hp.2.1, ih rest' hp.2.2⟩

theorem pairM_toDer {D : Decoder} {mD mE : Members} (h : PairM (XCg D) mD mE) : PairM XC mD mE :=
  pairM_mono (fun _ _ => xcg_toDer) mD mE h

theorem pairA_toDer {D : Decoder} {mD mE : Alts} (h : PairA (XCg D) mD mE) : PairA XC mD mE :=
  pairA_mono (fun _ _ => xcg_toDer) mD mE h

/-- the predicate carried for the alternative found at the same position on both sides -/
theorem pairA_get {P : Ty → Ty → Prop} (name : String) (asD : Alts) :
    ∀ (asE : Alts) (j : Nat) (tD tE : Ty), PairA P asD asE →
      asD.findO name = some (j, tD) → asE.findO name = some (j, tE) → P tD tE := by
  induction asD using Alts.ind with
  | nil => intro asE j tD tE _ hD _; simp [Alts.findO] at hD
  | cons n t rest ih =>
    intro asE j tD tE hp hD hE
    cases asE with
    | nil => simp [Alts.findO] at hE
    | cons n' t' rest' =>
      obtain ⟨hn, hx, hp'⟩ := hp
      subst hn
      simp only [Alts.findO] at hD hE
      by_cases hnn : (n' == name) = true
      · simp only [hnn, if_true, Option.some.injEq, Prod.mk.injEq] at hD hE
        obtain ⟨_, rfl⟩ := hD
        obtain ⟨_, rfl⟩ := hE
        exact hx
      · simp only [hnn, if_false, Bool.false_eq_true, Option.map_eq_some_iff, Prod.mk.injEq] at hD hE
        obtain ⟨⟨jD, tD'⟩, h1, h2, h3⟩ := hD
        obtain ⟨⟨jE, tE'⟩, g1, g2, g3⟩ := hE
        dsimp only at h2 h3 g2 g3
        subst h3
        subst g3
        have : jD = jE := by omega
        subst this
        exact ih rest' jD _ _ hp' h1 g1

/-! ### leaf types: decoder type = encoder type -/

theorem xtb_same (t : Ty) (h : XTd t t) : XTb t t := by
  intro tg v bytes rest fuel hwf hwf2 hd hdk ht he hf
  have h1 := h tg v bytes rest fuel hwf hwf2 hd hdk ht he hf
  have h2 := rt_all_der t tg v bytes rest fuel hwf hwf2 hd ht he hf
  have h3 := rt_all_ber t tg v bytes rest fuel hwf hwf2 hd ht he hf
  have e := h1.symm.trans h2
  simp only [Except.ok.injEq, Option.some.injEq, Prod.mk.injEq, and_true] at e
  rw [h3, e]

theorem xtb_boolean : XTb .boolean .boolean := xtb_same _ xt_boolean
theorem xtb_null : XTb .null .null := xtb_same _ xt_null
theorem xtb_integer (c : IntC) : XTb (.integer c) (.integer c) := xtb_same _ (xt_integer c)
theorem xtb_octetString (c : SizeC) : XTb (.octetString c) (.octetString c) := xtb_same _ (xt_octetString c)
theorem xtb_bitString (c : SizeC) : XTb (.bitString c) (.bitString c) := xtb_same _ (xt_bitString c)
theorem xtb_charString (k : StrKind) (c : SizeC) : XTb (.charString k c) (.charString k c) :=
  xtb_same _ (xt_charString k c)
theorem xtb_enumerated (root : List (String × Int)) : XTb (.enumerated root none) (.enumerated root none) :=
  xtb_same _ (xt_enumerated root)

/-! ### ENUMERATED: the BER decoder is the DER decoder -/

theorem dec_enumerated_eq (root : List (String × Int)) (ext : Option (List (String × Int)))
    (tg : Option Nat) (fuel : Nat) (bs : Bytes) :
    BerCodec.dec (.enumerated root ext) tg fuel bs = Der.dec (.enumerated root ext) tg fuel bs := by
  rw [BerCodec.dec, Der.dec]
  rfl

theorem xtb_enumeratedD (root adds new : List (String × Int)) :
    XTb (.enumerated root (some adds)) (.enumerated root (some (adds ++ new))) := by
  intro tg v bytes rest fuel hwf hwf2 hd hdk ht he hf
  rw [dec_enumerated_eq]
  exact xt_enumeratedD root adds new tg v bytes rest fuel hwf hwf2 hd hdk ht he hf

theorem xtb_enumeratedE (root adds new : List (String × Int)) :
    XTb (.enumerated root (some (adds ++ new))) (.enumerated root (some adds)) := by
  intro tg v bytes rest fuel hwf hwf2 hd hdk ht he hf
  rw [dec_enumerated_eq]
  exact xt_enumeratedE root adds new tg v bytes rest fuel hwf hwf2 hd hdk ht he hf

/-! ### SEQUENCE OF -/

theorem xtb_sequenceOf (eD eE : Ty) (c : SizeC) (ih : XTb eD eE) :
    XTb (.sequenceOf eD c) (.sequenceOf eE c) := by
  intro tg v bytes rest fuel hwf hwf2 hd hdk ht he hfuel
  cases v <;> try (simp only [hasType, Bool.false_eq_true] at ht; done)
  rename_i vs
  simp only [hasType, Bool.and_eq_true, List.all_eq_true] at ht
  simp only [Ty.wf, Bool.and_eq_true] at hwf
  simp only [Oer.oerWf] at hwf2
  simp only [X690.defaultsOkV] at hd
  simp only [dOk] at hdk
  rw [view]
  rw [enc] at he
  rw [BerCodec.dec]
  split at he
  · cases he
  · rename_i items hitems
    cases he
    rw [tlv_length] at hfuel
    rw [tlv_append]
    simp only [bind, Except.bind, matchTag_self, readLen_encLength]
    rw [items_mapM (enc eE none) (view true eD eE) (BerCodec.dec eD none fuel) items.flatten.length vs items rest
      (fun x hx b hb => enc_ne_nil hb)
      (fun x hx b r hb hl => ih none x b r fuel hwf.1 hwf2 hd hdk (ht.1 x hx) hb (by omega))
      hitems (Nat.le_refl _) fuel (by omega)]
    simp only [tlv_length]

end Asn1.Ext.BerX
