import Asn1Proofs.Lemmas.DerDefs
/-
  `Der.dec` and `BerCodec.dec` are instances of the shared SEQUENCE / CHOICE decoder.
-/
set_option linter.unusedSimpArgs false
namespace Asn1.Der
open Asn1.Uper (Err)

theorem der_decPass_eq (ms : Members) (i fuel : Nat) (slots : List (Option Val)) (st : MSt) :
    decPass ms i fuel slots st = gPass dec ms i fuel slots st := by
  induction ms using Members.ind generalizing i slots st with
  | nil => rw [decPass, gPass]
  | cons name p t rest ih =>
    rw [decPass, gPass]
    simp only [bind, Except.bind, ih]
    cases slots.headD none with
    | some v =>
      simp only []
      cases gPass dec rest (i + 1) fuel slots.tail st <;> rfl
    | none =>
      simp only []
      split
      · cases gPass dec rest (i + 1) fuel slots.tail st <;> rfl
      · cases dec t (some i) fuel st.cur.bs with
        | error e => rfl
        | ok o =>
          cases o with
          | none =>
            simp only []
            cases gPass dec rest (i + 1) fuel slots.tail st <;> rfl
          | some x =>
            obtain ⟨v, k, r⟩ := x
            simp only []
            cases isEnd (st.cur.advance k r) with
            | error e => rfl
            | ok y =>
              obtain ⟨ood, c⟩ := y
              simp only []
              cases gPass dec rest (i + 1) fuel slots.tail ⟨c, ood, true⟩ <;> rfl

end Asn1.Der

namespace Asn1.Der

theorem der_decPass_fun (ms : Members) (i fuel : Nat) : decPass ms i fuel = gPass dec ms i fuel := by
  funext slots st; exact der_decPass_eq ms i fuel slots st

theorem der_dec_seq (root : Members) (e : Bool) (adds : Members) (tg : Option Nat) (fuel : Nat) (bs : Bytes) :
    dec (.sequence root e adds) tg fuel bs = gSeq dec root adds tg fuel bs := by
  rw [dec, gSeq]
  simp only [bind, Except.bind, der_decPass_fun]
  cases matchTag (mkTag 16 true tg) bs with
  | error e => rfl
  | ok o =>
    cases o with
    | none => rfl
    | some r0 =>
      simp only []
      cases readLen false r0 with
      | error e => rfl
      | ok x =>
        obtain ⟨len, h, r1⟩ := x
        simp only []
        cases retry (gPass dec root 0 fuel) (root.length + 1) (List.replicate root.length none)
            ⟨r1, (mkTag 16 true tg).length + h, len⟩ with
        | error e => rfl
        | ok y =>
          obtain ⟨slots, c1, ood1⟩ := y
          simp only []
          cases fill root slots false with
          | error e => rfl
          | ok fs =>
            simp only []
            split
            · rfl
            · cases ood1 with
              | true =>
                simp only [if_true]
                cases fill adds (List.replicate adds.length none) true <;> rfl
              | false =>
                simp only [Bool.false_eq_true, if_false]
                cases retry (gPass dec adds root.length fuel) (adds.length + 1)
                    (List.replicate adds.length none) c1 with
                | error e => rfl
                | ok z =>
                  obtain ⟨slots2, c2, ood2⟩ := z
                  simp only []
                  cases fill adds slots2 true <;> rfl

end Asn1.Der

namespace Asn1.Der

/-- `tag_to_member` of der.py: exactly the member's tag -/
def derTest (t : Ty) (i : Nat) (tag : Bytes) : Bool := tag == tagOf t (some i)

theorem der_decAlt_eq (as : Alts) (i : Nat) (tag : Bytes) (fuel : Nat) (bs : Bytes) :
    decAlt as i tag fuel bs = gAlt dec derTest as i tag fuel bs := by
  induction as using Alts.ind generalizing i with
  | nil => rw [decAlt, gAlt]
  | cons n t rest ih =>
    rw [decAlt, gAlt]
    simp only [bind, Except.bind, ih]
    by_cases hc : derTest t i tag = true
    · have hc' : (tag == tagOf t (some i)) = true := hc
      rw [if_pos hc', if_pos hc]
      congr 1
      cases dec t (some i) fuel bs with
      | error e => rfl
      | ok o =>
        cases o with
        | none => rfl
        | some x => obtain ⟨v, k, r⟩ := x; rfl
    · have hc' : ¬ (tag == tagOf t (some i)) = true := hc
      rw [if_neg hc', if_neg hc]

theorem der_decAlt_fun (as : Alts) (i : Nat) : decAlt as i = gAlt dec derTest as i := by
  funext tag fuel bs; exact der_decAlt_eq as i tag fuel bs

/-- the bare CHOICE -/
theorem der_dec_choice_none (root : Alts) (e : Bool) (adds : Alts) (fuel : Nat) (bs : Bytes) :
    dec (.choice root e adds) none fuel bs = gBare dec derTest root e adds fuel bs := by
  rw [dec, gBare]
  simp only [bind, Except.bind, der_decAlt_fun]
  cases readTag bs with
  | error err => rfl
  | ok x =>
    obtain ⟨tag, x2⟩ := x
    simp only []
    cases gAlt dec derTest root 0 tag fuel bs with
    | some res => rfl
    | none =>
      simp only []
      cases gAlt dec derTest adds root.length tag fuel bs with
      | some res => rfl
      | none =>
        simp only []
        cases e with
        | false => rfl
        | true =>
          simp only [if_true]
          cases skipTLV bs with
          | error err => rfl
          | ok y => obtain ⟨k, r⟩ := y; rfl

theorem der_dec_choice (root : Alts) (e : Bool) (adds : Alts) (tg : Option Nat) (fuel : Nat) (bs : Bytes) :
    dec (.choice root e adds) tg fuel bs = gChoice dec derTest root e adds tg fuel bs := by
  cases tg with
  | none => exact der_dec_choice_none root e adds fuel bs
  | some j =>
    rw [dec, gChoice]
    simp only [bind, Except.bind, der_decAlt_fun]
    cases matchTag (mkTag 0 true (some j)) bs with
    | error err => rfl
    | ok o =>
      cases o with
      | none => rfl
      | some r0 =>
        simp only []
        cases readLen false r0 with
        | error err => rfl
        | ok x =>
          obtain ⟨len, h, r1⟩ := x
          simp only []
          have hb := der_dec_choice_none root e adds fuel r1
          rw [dec] at hb
          simp only [bind, Except.bind, der_decAlt_fun] at hb
          rw [hb]
          generalize gBare dec derTest root e adds fuel r1 = X
          cases X with
          | error err => rfl
          | ok o =>
            cases o with
            | none => rfl
            | some y =>
              obtain ⟨v, k, r2⟩ := y
              simp only []
              cases len with
              | some n => rfl
              | none =>
                simp only []
                cases eoc r2 with
                | error err => rfl
                | ok b => cases b <;> rfl

set_option linter.unusedVariables false in
theorem der_mism (t : Ty) (i j u : Nat) (c : Bool) (r : Bytes) (fuel : Nat) (h : i < j) (hf : 0 < fuel) :
    dec t (some i) fuel (mkTag u c (some j) ++ r) = .ok none := by
  have hm : ∀ (u' : Nat) (c' : Bool), matchTag (mkTag u' c' (some i)) (mkTag u c (some j) ++ r) = .ok none :=
    fun u' c' => matchTag_ctx_mismatch r h
  have hp : ∀ (u' : Nat) (c' : Bool), readPrim (mkTag u' c' (some i)) (mkTag u c (some j) ++ r) = .ok none :=
    fun u' c' => readPrim_mismatch (hm u' c')
  cases t with
  | boolean => rw [dec]; simp only [bind, Except.bind, hp]
  | null => rw [dec]; simp only [bind, Except.bind, hm]
  | integer _ => rw [dec]; simp only [bind, Except.bind, hp]
  | enumerated _ _ => rw [dec]; simp only [bind, Except.bind, hp]
  | octetString _ => rw [dec]; simp only [bind, Except.bind, hp]
  | bitString _ => rw [dec]; simp only [bind, Except.bind, hp]
  | charString k cc => rw [dec]; simp only [bind, Except.bind, tagOf, hp]
  | sequence _ _ _ => rw [dec]; simp only [bind, Except.bind, hm]
  | sequenceOf _ _ => rw [dec]; simp only [bind, Except.bind, hm]
  | choice _ _ _ => rw [dec]; simp only [bind, Except.bind, hm]

theorem der_isCodec : IsCodec dec derTest where
  seq := der_dec_seq
  choice := der_dec_choice
  mism := der_mism
  test_self := fun t i => by simp [derTest]
  test_num := fun t i j u c ht => by
    simp only [derTest, beq_iff_eq] at ht
    exact (mkTag_ctx_inj ht).symm

end Asn1.Der

/-! ### BER -/

namespace Asn1.BerCodec
open Asn1.Uper (Err)
open Asn1.Oer (splitAux)
open Asn1.Der (EncM DecM Res Cur MSt mkTag tagOf readLen matchTag readTag skipTLV eoc isEnd readPrim
  retry fill finishMembers gPass gSeq gAlt gBare gChoice IsCodec matchTag_ctx_mismatch split_ctx_mismatch
  readPrim_mismatch mkTag_ctx_inj)

/-- ber.py: the member's tag, and for the string types also its constructed form -/
def berTest (t : Ty) (i : Nat) (tag : Bytes) : Bool :=
  tag == Der.tagOf t (some i) || (BerCodec.isString t && tag == Der.mkTag (Der.univNumber t) true (some i))

theorem ber_decPass_eq (ms : Members) (i fuel : Nat) (slots : List (Option Val)) (st : MSt) :
    BerCodec.decPass ms i fuel slots st = Der.gPass BerCodec.dec ms i fuel slots st := by
  induction ms using Members.ind generalizing i slots st with
  | nil => rw [decPass, gPass]
  | cons name p t rest ih =>
    rw [decPass, gPass]
    simp only [bind, Except.bind, ih]
    cases slots.headD none with
    | some v =>
      simp only []
      cases gPass dec rest (i + 1) fuel slots.tail st <;> rfl
    | none =>
      simp only []
      split
      · cases gPass dec rest (i + 1) fuel slots.tail st <;> rfl
      · cases dec t (some i) fuel st.cur.bs with
        | error e => rfl
        | ok o =>
          cases o with
          | none =>
            simp only []
            cases gPass dec rest (i + 1) fuel slots.tail st <;> rfl
          | some x =>
            obtain ⟨v, k, r⟩ := x
            simp only []
            cases isEnd (st.cur.advance k r) with
            | error e => rfl
            | ok y =>
              obtain ⟨ood, c⟩ := y
              simp only []
              cases gPass dec rest (i + 1) fuel slots.tail ⟨c, ood, true⟩ <;> rfl

theorem ber_decPass_fun (ms : Members) (i fuel : Nat) :
    BerCodec.decPass ms i fuel = Der.gPass BerCodec.dec ms i fuel := by
  funext slots st; exact ber_decPass_eq ms i fuel slots st

theorem ber_dec_seq (root : Members) (e : Bool) (adds : Members) (tg : Option Nat) (fuel : Nat) (bs : Bytes) :
    BerCodec.dec (.sequence root e adds) tg fuel bs = Der.gSeq BerCodec.dec root adds tg fuel bs := by
  rw [dec, gSeq]
  simp only [bind, Except.bind, ber_decPass_fun]
  cases matchTag (mkTag 16 true tg) bs with
  | error e => rfl
  | ok o =>
    cases o with
    | none => rfl
    | some r0 =>
      simp only []
      cases readLen false r0 with
      | error e => rfl
      | ok x =>
        obtain ⟨len, h, r1⟩ := x
        simp only []
        cases retry (gPass dec root 0 fuel) (root.length + 1) (List.replicate root.length none)
            ⟨r1, (mkTag 16 true tg).length + h, len⟩ with
        | error e => rfl
        | ok y =>
          obtain ⟨slots, c1, ood1⟩ := y
          simp only []
          cases fill root slots false with
          | error e => rfl
          | ok fs =>
            simp only []
            split
            · rfl
            · cases ood1 with
              | true =>
                simp only [if_true]
                cases fill adds (List.replicate adds.length none) true <;> rfl
              | false =>
                simp only [Bool.false_eq_true, if_false]
                cases retry (gPass dec adds root.length fuel) (adds.length + 1)
                    (List.replicate adds.length none) c1 with
                | error e => rfl
                | ok z =>
                  obtain ⟨slots2, c2, ood2⟩ := z
                  simp only []
                  cases fill adds slots2 true <;> rfl

theorem ber_decAlt_eq (as : Alts) (i : Nat) (tag : Bytes) (fuel : Nat) (bs : Bytes) :
    BerCodec.decAlt as i tag fuel bs = Der.gAlt BerCodec.dec berTest as i tag fuel bs := by
  induction as using Alts.ind generalizing i with
  | nil => rw [decAlt, gAlt]
  | cons n t rest ih =>
    rw [decAlt, gAlt]
    simp only [bind, Except.bind, ih]
    by_cases hc : berTest t i tag = true
    · have hc' : (tag == tagOf t (some i) || (isString t && tag == mkTag (Der.univNumber t) true (some i))) = true := hc
      rw [if_pos hc', if_pos hc]
      congr 1
      cases dec t (some i) fuel bs with
      | error e => rfl
      | ok o =>
        cases o with
        | none => rfl
        | some x => obtain ⟨v, k, r⟩ := x; rfl
    · have hc' : ¬ (tag == tagOf t (some i) || (isString t && tag == mkTag (Der.univNumber t) true (some i))) = true := hc
      rw [if_neg hc', if_neg hc]

theorem ber_decAlt_fun (as : Alts) (i : Nat) : BerCodec.decAlt as i = Der.gAlt BerCodec.dec berTest as i := by
  funext tag fuel bs; exact ber_decAlt_eq as i tag fuel bs

/-- the bare CHOICE -/
theorem ber_dec_choice_none (root : Alts) (e : Bool) (adds : Alts) (fuel : Nat) (bs : Bytes) :
    BerCodec.dec (.choice root e adds) none fuel bs = Der.gBare BerCodec.dec berTest root e adds fuel bs := by
  rw [dec, gBare]
  simp only [bind, Except.bind, ber_decAlt_fun]
  cases readTag bs with
  | error err => rfl
  | ok x =>
    obtain ⟨tag, x2⟩ := x
    simp only []
    cases gAlt dec berTest root 0 tag fuel bs with
    | some res => rfl
    | none =>
      simp only []
      cases gAlt dec berTest adds root.length tag fuel bs with
      | some res => rfl
      | none =>
        simp only []
        cases e with
        | false => rfl
        | true =>
          simp only [if_true]
          cases skipTLV bs with
          | error err => rfl
          | ok y => obtain ⟨k, r⟩ := y; rfl

theorem ber_dec_choice (root : Alts) (e : Bool) (adds : Alts) (tg : Option Nat) (fuel : Nat) (bs : Bytes) :
    BerCodec.dec (.choice root e adds) tg fuel bs = Der.gChoice BerCodec.dec berTest root e adds tg fuel bs := by
  cases tg with
  | none => exact ber_dec_choice_none root e adds fuel bs
  | some j =>
    rw [dec, gChoice]
    simp only [bind, Except.bind, ber_decAlt_fun]
    cases matchTag (mkTag 0 true (some j)) bs with
    | error err => rfl
    | ok o =>
      cases o with
      | none => rfl
      | some r0 =>
        simp only []
        cases readLen false r0 with
        | error err => rfl
        | ok x =>
          obtain ⟨len, h, r1⟩ := x
          simp only []
          have hb := ber_dec_choice_none root e adds fuel r1
          rw [dec] at hb
          simp only [bind, Except.bind, ber_decAlt_fun] at hb
          rw [hb]
          generalize gBare dec berTest root e adds fuel r1 = X
          cases X with
          | error err => rfl
          | ok o =>
            cases o with
            | none => rfl
            | some y =>
              obtain ⟨v, k, r2⟩ := y
              simp only []
              cases len with
              | some n => rfl
              | none =>
                simp only []
                cases eoc r2 with
                | error err => rfl
                | ok b => cases b <;> rfl

/-- a primitive-or-constructed decoder facing the identifier octets of a later member -/
theorem pcDecode_mismatch {α : Type} (prim : Bytes → Bytes → DecM α) (join : List α → α) (segTag segCtag : Bytes)
    (fuel i j u u' : Nat) (c : Bool) (r : Bytes) (h : i < j) (hf : 0 < fuel) :
    pcDecode prim join segTag segCtag fuel (mkTag u' false (some i)) (mkTag u' true (some i))
      (mkTag u c (some j) ++ r) = .ok none := by
  obtain ⟨f, rfl⟩ : ∃ f, fuel = f + 1 := ⟨fuel - 1, by omega⟩
  obtain ⟨t, r', hs, hne⟩ := split_ctx_mismatch (u := u') (u' := u) (c := false) (c' := c) r h
  rw [pcDecode, hs]
  simp only []
  have h1 : (t == mkTag u' false (some i)) = false := by simpa using hne u' false
  have h2 : (t == mkTag u' true (some i)) = false := by simpa using hne u' true
  simp [h1, h2]

theorem ber_mism (t : Ty) (i j u : Nat) (c : Bool) (r : Bytes) (fuel : Nat) (h : i < j) (hf : 0 < fuel) :
    BerCodec.dec t (some i) fuel (Der.mkTag u c (some j) ++ r) = .ok none := by
  have hm : ∀ (u' : Nat) (c' : Bool), matchTag (mkTag u' c' (some i)) (mkTag u c (some j) ++ r) = .ok none :=
    fun u' c' => matchTag_ctx_mismatch r h
  have hp : ∀ (u' : Nat) (c' : Bool), readPrim (mkTag u' c' (some i)) (mkTag u c (some j) ++ r) = .ok none :=
    fun u' c' => readPrim_mismatch (hm u' c')
  cases t with
  | boolean => rw [dec]; simp only [bind, Except.bind, hp]
  | null => rw [dec]; simp only [bind, Except.bind, hm]
  | integer _ => rw [dec]; simp only [bind, Except.bind, hp]
  | enumerated _ _ => rw [dec]; simp only [bind, Except.bind, hp]
  | octetString _ =>
    rw [dec]; simp only [bind, Except.bind, decOctets, pcDecode_mismatch _ _ _ _ fuel i j u _ c r h hf]
  | bitString _ =>
    rw [dec]; simp only [bind, Except.bind, decBits, pcDecode_mismatch _ _ _ _ fuel i j u _ c r h hf]
  | charString k cc =>
    rw [dec]; simp only [bind, Except.bind, decOctets, pcDecode_mismatch _ _ _ _ fuel i j u _ c r h hf]
  | sequence _ _ _ => rw [dec]; simp only [bind, Except.bind, hm]
  | sequenceOf _ _ => rw [dec]; simp only [bind, Except.bind, hm]
  | choice _ _ _ => rw [dec]; simp only [bind, Except.bind, hm]

theorem ber_isCodec : Der.IsCodec BerCodec.dec BerCodec.berTest where
  seq := ber_dec_seq
  choice := ber_dec_choice
  mism := ber_mism
  test_self := fun t i => by simp [berTest]
  test_num := fun t i j u c ht => by
    simp only [berTest, Bool.or_eq_true, Bool.and_eq_true, beq_iff_eq] at ht
    rcases ht with ht | ⟨_, ht⟩
    · exact (mkTag_ctx_inj ht).symm
    · exact (mkTag_ctx_inj ht).symm

end Asn1.BerCodec

#print axioms Asn1.Der.der_isCodec
#print axioms Asn1.BerCodec.ber_isCodec
