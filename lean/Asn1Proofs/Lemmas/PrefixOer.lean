import Asn1Proofs.Lemmas.OerRoundtrip
import Asn1Proofs.Lemmas.PrefixUperTypes
/-
  C16 for the OER model: the decoder is *prefix deterministic*.  If `dec t (q ++ x)` succeeds with
  value `a` and remaining input `r`, then on the prefix `q` alone the decoder either succeeds with the
  same value (and `r = r' ++ x`), or fails with `decodeError`.  No hypothesis on the type is needed.
-/
set_option linter.unusedSimpArgs false
set_option linter.unusedVariables false
namespace Asn1.Oer
open Asn1.Uper (Err utf8Enc utf8Dec alphabetOf sortByVal)

/-- outcome on the prefix `q` of a parser that on `q ++ x` returned `b` with remaining input `r` -/
def Res {β : Type} (x : Bytes) (b : β) (r : Bytes) (out : DecM (β × Bytes)) : Prop :=
  (∃ r', out = .ok (b, r') ∧ r = r' ++ x) ∨ out = .error .decodeError

theorem res_ok {β : Type} {x : Bytes} {b : β} {r' : Bytes} :
    Res x b (r' ++ x) (.ok (b, r')) := .inl ⟨r', rfl, rfl⟩

theorem res_err {β : Type} {x : Bytes} {b : β} {r : Bytes} :
    Res x b r (.error .decodeError) := .inr rfl

/-- prefix determinism of a pair of parsers (the second one runs on the prefix) -/
def PF {α : Type} (p p' : Bytes → DecM (α × Bytes)) : Prop :=
  ∀ (q x : Bytes) (a : α) (r : Bytes), p (q ++ x) = .ok (a, r) → Res x a r (p' q)

theorem bind_ok {α β : Type} {m : DecM α} {g : α → DecM β} {b : β} (h : (m >>= g) = .ok b) :
    ∃ a, m = .ok a ∧ g a = .ok b := by
  cases m with
  | error e => cases h
  | ok a => exact ⟨a, rfl, h⟩

theorem res_bind {α β : Type} {m m' : DecM (α × Bytes)} {g g' : α × Bytes → DecM (β × Bytes)}
    {x : Bytes} {b : β} {r : Bytes}
    (hm : ∀ a r1, m = .ok (a, r1) → Res x a r1 m')
    (h : (m >>= g) = .ok (b, r))
    (hg : ∀ a r1, m' = .ok (a, r1) → g (a, r1 ++ x) = .ok (b, r) → Res x b r (g' (a, r1))) :
    Res x b r (m' >>= g') := by
  obtain ⟨⟨a, r1⟩, h1, h⟩ := bind_ok h
  rcases hm a r1 h1 with ⟨r1', e1, rfl⟩ | e1
  · rw [e1]; exact hg a r1' e1 h
  · rw [e1]; exact .inr rfl

theorem pf_bind {α β : Type} {p p' : Bytes → DecM (α × Bytes)} (hp : PF p p')
    {g g' : α × Bytes → DecM (β × Bytes)} {q x : Bytes} {b : β} {r : Bytes}
    (h : (p (q ++ x) >>= g) = .ok (b, r))
    (hg : ∀ a r1, p' q = .ok (a, r1) → g (a, r1 ++ x) = .ok (b, r) → Res x b r (g' (a, r1))) :
    Res x b r (p' q >>= g') :=
  res_bind (fun a r1 h1 => hp q x a r1 h1) h hg

/-- `Res` for parsers that return only the remaining input -/
def ResU (x r : Bytes) (out : DecM Bytes) : Prop :=
  (∃ r', out = .ok r' ∧ r = r' ++ x) ∨ out = .error .decodeError

theorem res_bindU {β : Type} {m m' : DecM Bytes} {g g' : Bytes → DecM (β × Bytes)}
    {x : Bytes} {b : β} {r : Bytes}
    (hm : ∀ r1, m = .ok r1 → ResU x r1 m')
    (h : (m >>= g) = .ok (b, r))
    (hg : ∀ r1, g (r1 ++ x) = .ok (b, r) → Res x b r (g' r1)) :
    Res x b r (m' >>= g') := by
  obtain ⟨r1, h1, h⟩ := bind_ok h
  rcases hm r1 h1 with ⟨r1', e1, rfl⟩ | e1
  · rw [e1]; exact hg r1' h
  · rw [e1]; exact .inr rfl

/-- closes a goal `.ok (..) = .ok (a, r) → Res x a r (.ok (..))` -/
macro "pfo_ok" : tactic => `(tactic| (intro h; cases h; exact res_ok))

/-! ### primitives -/

theorem splitAux_eq (n : Nat) (bs acc : Bytes) :
    splitAux n bs acc =
      if n ≤ bs.length then some (acc.reverse ++ bs.take n, bs.drop n) else none := by
  induction n generalizing bs acc with
  | zero => simp [splitAux]
  | succ n ih =>
    cases bs with
    | nil => simp [splitAux]
    | cons b t =>
      simp only [splitAux, ih, List.length_cons, Nat.add_le_add_iff_right, List.reverse_cons,
        List.take_succ_cons, List.drop_succ_cons, List.append_assoc, List.singleton_append]

theorem readBytes_eq (n : Nat) (bs : Bytes) :
    readBytes n bs = if n ≤ bs.length then .ok (bs.take n, bs.drop n) else .error .decodeError := by
  simp only [readBytes, splitAux_eq]
  by_cases h : n ≤ bs.length <;> simp [h]

theorem pf_readBytes (n : Nat) : PF (readBytes n) (readBytes n) := by
  intro q x a r h
  rw [readBytes_eq] at h ⊢
  by_cases hn : n ≤ q.length
  · rw [if_pos (by simp only [List.length_append]; omega), List.take_append_of_le_length hn,
      List.drop_append_of_le_length hn] at h
    rw [if_pos hn]
    cases h
    exact res_ok
  · rw [if_neg hn]; exact res_err

theorem pf_readByte : PF readByte readByte := by
  intro q x a r h
  cases q with
  | nil => exact res_err
  | cons b t =>
    simp only [List.cons_append, readByte] at h ⊢
    cases h
    exact res_ok

theorem pf_readLenDet : PF readLenDet readLenDet := by
  intro q x a r h
  unfold readLenDet at h ⊢
  refine pf_bind pf_readByte h ?_
  intro v r1 _ h
  dsimp only at h ⊢
  revert h
  split
  · pfo_ok
  · intro h
    refine pf_bind (pf_readBytes _) h ?_
    intro ds r2 _
    pfo_ok

theorem pf_decSigned : PF decSigned decSigned := by
  intro q x a r h
  unfold decSigned at h ⊢
  refine pf_bind pf_readLenDet h ?_
  intro k r1 _ h
  dsimp only at h ⊢
  refine pf_bind (pf_readBytes _) h ?_
  intro ds r2 _ h
  dsimp only at h ⊢
  revert h
  split
  · intro h; cases h
  · pfo_ok

theorem pf_decUnsigned : PF decUnsigned decUnsigned := by
  intro q x a r h
  unfold decUnsigned at h ⊢
  refine pf_bind pf_readLenDet h ?_
  intro k r1 _ h
  dsimp only at h ⊢
  refine pf_bind (pf_readBytes _) h ?_
  intro ds r2 _
  pfo_ok

theorem pf_readTagRest (f : Nat) : ∀ (f' : Nat) (q x a r : Bytes), q.length < f' →
    readTagRest f (q ++ x) = .ok (a, r) → Res x a r (readTagRest f' q) := by
  induction f with
  | zero => intro f' q x a r _ h; simp only [readTagRest] at h; cases h
  | succ f ih =>
    intro f' q x a r hf h
    obtain ⟨f'', rfl⟩ : ∃ k, f' = k + 1 := ⟨f' - 1, by omega⟩
    simp only [readTagRest] at h ⊢
    cases q with
    | nil => exact res_err
    | cons b t =>
      simp only [List.cons_append, readByte] at h ⊢
      change (if b < 128 then _ else _) = _ at h
      change Res x a r (if b < 128 then _ else _)
      revert h
      split
      · pfo_ok
      · intro h
        refine res_bind (fun a r1 h1 => ih f'' t x a r1 (by simp only [List.length_cons] at hf; omega) h1) h ?_
        intro tl r1 _
        pfo_ok

theorem pf_readTag : PF readTag readTag := by
  intro q x a r h
  unfold readTag at h ⊢
  refine pf_bind pf_readByte h ?_
  intro b r1 _ h
  dsimp only at h ⊢
  revert h
  split
  · intro h
    refine res_bind (fun a r2 h1 => pf_readTagRest _ _ r1 x a r2 (Nat.lt_succ_self _) h1) h ?_
    intro tl r2 _
    pfo_ok
  · pfo_ok

theorem pf_decRepeat {α : Type} {p p' : Bytes → DecM (α × Bytes)} (hp : PF p p') (n : Nat) :
    PF (decRepeat p n) (decRepeat p' n) := by
  induction n with
  | zero =>
    intro q x a r h
    simp only [decRepeat] at h ⊢
    revert h; pfo_ok
  | succ n ih =>
    intro q x a r h
    simp only [decRepeat] at h ⊢
    refine pf_bind hp h ?_
    intro a1 r1 _ h
    dsimp only at h ⊢
    refine pf_bind ih h ?_
    intro as r2 _
    pfo_ok

theorem pf_skipUnknown (bitmap : Bits) : ∀ (q x r : Bytes),
    skipUnknown bitmap (q ++ x) = .ok r → ResU x r (skipUnknown bitmap q) := by
  induction bitmap with
  | nil =>
    intro q x r h
    simp only [skipUnknown] at h ⊢
    cases h
    exact .inl ⟨_, rfl, rfl⟩
  | cons present bitmap ih =>
    intro q x r h
    simp only [skipUnknown] at h ⊢
    revert h
    split
    · intro h
      obtain ⟨⟨len, r1⟩, h1, h⟩ := bind_ok h
      rcases pf_readLenDet q x len r1 h1 with ⟨r1', e1, rfl⟩ | e1
      · rw [e1]
        dsimp only at h
        obtain ⟨⟨body, r2⟩, h2, h⟩ := bind_ok h
        rcases pf_readBytes _ r1' x body r2 h2 with ⟨r2', e2, rfl⟩ | e2
        · dsimp only [bind, Except.bind]
          rw [e2]
          dsimp only at h ⊢
          exact ih r2' x r h
        · dsimp only [bind, Except.bind]
          rw [e2]; exact .inr rfl
      · rw [e1]; exact .inr rfl
    · intro h; exact ih q x r h

end Asn1.Oer
