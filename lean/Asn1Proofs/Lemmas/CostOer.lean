import Asn1Proofs.Lemmas.CostUperFuel
/-
  C08 for the OER model: the recorded defect.  The quantity field of a SEQUENCE OF is a length-prefixed
  unsigned integer that the decoder uses as a loop count *without* comparing it with the data that is
  left; when the element type has an empty encoding (NULL, or a SEQUENCE of OPTIONAL members only ...)
  every iteration succeeds, so `n` elements are built from the `1 + ⌈log₂₅₆ n⌉` octets of the quantity.
-/
set_option linter.unusedSimpArgs false
set_option linter.unusedVariables false
namespace Asn1.Cost
open Asn1.Oer

/-- the `for _ in range(number_of_elements)` loop over NULL never touches the data -/
theorem oer_decRepeat_const {α : Type} (p : Bytes → DecM (α × Bytes)) (a : α)
    (hp : ∀ bs, p bs = .ok (a, bs)) (n : Nat) (bs : Bytes) :
    Oer.decRepeat p n bs = .ok (List.replicate n a, bs) := by
  induction n with
  | zero => rfl
  | succ n ih =>
    simp only [Oer.decRepeat, bind, Except.bind, hp, ih, List.replicate_succ]

theorem oer_decRepeat_null (n : Nat) (bs : Bytes) :
    Oer.decRepeat (Oer.dec .null) n bs = .ok (List.replicate n .null, bs) :=
  oer_decRepeat_const _ _ (fun bs => by rw [Oer.dec]) n bs

/-- whatever count the quantity field announces is the number of elements decoded -/
theorem oer_seqOfNull_dec (c : SizeC) (bs : Bytes) (n : Nat) (r : Bytes)
    (h : Oer.decUnsigned bs = .ok (n, r)) :
    Oer.dec (.sequenceOf .null c) bs = .ok (.list (List.replicate n .null), r) := by
  rw [Oer.dec]
  simp only [bind, Except.bind, h, oer_decRepeat_null]

theorem oer_encUnsigned_length {n : Nat} {q : Bytes} (h : Oer.encUnsigned n = .ok q)
    (hn : n < 256 ^ 127) : q.length = 1 + (max (bitLength n) 1 + 7) / 8 := by
  have hb : bitLength n ≤ 8 * 127 := by
    apply Asn1.bitLength_le_of_lt_pow
    exact Nat.lt_of_lt_of_eq hn (Nat.pow_mul 2 8 127).symm
  unfold Oer.encUnsigned at h
  simp only [bind, Except.bind] at h
  unfold Oer.lenDet at h
  rw [if_pos (by omega)] at h
  cases h
  simp only [List.length_cons, List.length_append, List.length_nil, natToBytesN_length]


theorem nodes_list_replicate_null (n : Nat) :
    (Val.list (List.replicate n Val.null)).nodes = n + 1 := by
  simp only [Val.nodes, nodesList_replicate]; omega

/-- **the defect, for every count**: if `q` is the quantity field for `n`, the decoder of
`SEQUENCE OF NULL` returns a list of exactly `n` elements and has consumed only `q` -/
theorem oer_quantity_unbounded (c : SizeC) (n : Nat) (q rest : Bytes)
    (h : Oer.encUnsigned n = .ok q) :
    Oer.dec (.sequenceOf .null c) (q ++ rest) = .ok (.list (List.replicate n .null), rest) :=
  oer_seqOfNull_dec c _ n rest (decUnsigned_encUnsigned h rest)

theorem oer_encUnsigned_ok (n : Nat) (hn : n < 256 ^ 127) :
    ∃ q, Oer.encUnsigned n = .ok q ∧ q.length = 1 + (max (bitLength n) 1 + 7) / 8 ∧
      ∀ b ∈ q, b < 256 := by
  have hb : bitLength n ≤ 8 * 127 := by
    apply Asn1.bitLength_le_of_lt_pow
    exact Nat.lt_of_lt_of_eq hn (Nat.pow_mul 2 8 127).symm
  have hq : Oer.encUnsigned n = .ok (((max (bitLength n) 1 + 7) / 8) ::
      natToBytesN ((max (bitLength n) 1 + 7) / 8) n) := by
    unfold Oer.encUnsigned
    simp only [bind, Except.bind]
    unfold Oer.lenDet
    rw [if_pos (by omega)]
    rfl
  refine ⟨_, hq, oer_encUnsigned_length hq hn, ?_⟩
  intro b hbm
  simp only [List.mem_cons] at hbm
  rcases hbm with rfl | hbm
  · omega
  · exact natToBytesN_lt _ _ b hbm

/-- every count below `256 ^ 127` is reached from an input of `2 + ⌊log₂₅₆ n⌋` genuine octets -/
theorem oer_quantity_any (c : SizeC) (n : Nat) (hn : n < 256 ^ 127) :
    ∃ bs : Bytes, bs.length = 1 + (max (bitLength n) 1 + 7) / 8 ∧ (∀ b ∈ bs, b < 256) ∧
      Oer.decode (.sequenceOf .null c) bs = .ok (.list (List.replicate n .null)) := by
  obtain ⟨q, hq, hl, hb⟩ := oer_encUnsigned_ok n hn
  refine ⟨q, hl, hb, ?_⟩
  have := oer_quantity_unbounded c n q [] hq
  rw [List.append_nil] at this
  simp only [Oer.decode, this, Except.map]

/-- five octets suffice for any count below `2 ^ 32` -/
theorem oer_quantity_32 (c : SizeC) (n : Nat) (hn : n < 2 ^ 32) :
    ∃ bs : Bytes, bs.length ≤ 5 ∧ (∀ b ∈ bs, b < 256) ∧
      ∃ vs, Oer.decode (.sequenceOf .null c) bs = .ok (.list vs) ∧ vs.length = n := by
  have hn' : n < 256 ^ 127 :=
    Nat.lt_of_lt_of_le hn (by
      rw [show (2 : Nat) ^ 32 = 256 ^ 4 from rfl]
      exact Nat.pow_le_pow_right (by omega) (by omega))
  obtain ⟨bs, hl, hb, hd⟩ := oer_quantity_any c n hn'
  have hbl : bitLength n ≤ 32 := Asn1.bitLength_le_of_lt_pow hn
  exact ⟨bs, by omega, hb, _, hd, List.length_replicate ..⟩

theorem oer_decode_of_enc (c : SizeC) (n : Nat) (q : Bytes) (h : Oer.encUnsigned n = .ok q) :
    Oer.decode (.sequenceOf .null c) q = .ok (.list (List.replicate n .null)) := by
  have := oer_quantity_unbounded c n q [] h
  rw [List.append_nil] at this
  simp only [Oer.decode, this, Except.map]

/-- the recorded input: `04 ff ff ff ff` decodes to a list of `2^32 - 1` elements -/
theorem oer_quantity_04ffffffff (c : SizeC) :
    Oer.decode (.sequenceOf .null c) [0x04, 0xff, 0xff, 0xff, 0xff]
      = .ok (.list (List.replicate 4294967295 .null)) :=
  oer_decode_of_enc c 4294967295 _ (by rfl)

theorem bytesToNat_replicate_255 (m : Nat) : bytesToNat (List.replicate m 255) = 256 ^ m - 1 := by
  induction m with
  | zero => rfl
  | succ m ih =>
    rw [List.replicate_succ', bytesToNat_append, ih, bytesToNat_single]
    simp only [List.length_cons, List.length_nil, Nat.pow_succ]
    have := Nat.pow_pos (n := m) (show 0 < 256 by omega)
    rw [Nat.sub_mul]; omega

/-- exponential blow-up with genuine octets: `m + 1` octets (`m ≤ 127`) give `256 ^ m - 1` elements -/
theorem oer_alloc_exponential (c : SizeC) (m : Nat) (hm : m < 128) :
    Oer.decode (.sequenceOf .null c) (m :: List.replicate m 255)
      = .ok (.list (List.replicate (256 ^ m - 1) .null)) := by
  have hd : Oer.decUnsigned (m :: List.replicate m 255) = .ok (256 ^ m - 1, []) := by
    simp only [Oer.decUnsigned, Oer.readLenDet, Oer.readByte, bind, Except.bind, if_pos hm]
    have := readBytes_append (List.replicate m 255) [] (List.length_replicate ..)
    rw [List.append_nil] at this
    simp only [this, bytesToNat_replicate_255]
  simp only [Oer.decode, oer_seqOfNull_dec c _ _ _ hd, Except.map]

/-- **no allocation bound for OER** (statement over the model's byte strings `List Nat`) -/
theorem oer_no_alloc_bound :
    ¬ ∃ K : Nat, ∀ (bs : Bytes) (v : Val),
      Oer.decode (.sequenceOf .null ⟨0, none, false⟩) bs = .ok v → v.nodes ≤ K * (bs.length + 1) := by
  rintro ⟨K, hK⟩
  have hd : Oer.decUnsigned [1, 3 * K + 1] = .ok (3 * K + 1, []) := by
    simp [Oer.decUnsigned, Oer.readLenDet, Oer.readByte, bind, Except.bind, Oer.readBytes,
      Oer.splitAux, bytesToNat_single]
  have hdec : Oer.decode (.sequenceOf .null ⟨0, none, false⟩) [1, 3 * K + 1]
      = .ok (.list (List.replicate (3 * K + 1) .null)) := by
    simp only [Oer.decode, oer_seqOfNull_dec _ _ _ _ hd, Except.map]
  have := hK [1, 3 * K + 1] _ hdec
  rw [nodes_list_replicate_null] at this
  simp only [List.length_cons, List.length_nil] at this
  omega

/-- the same with genuine octets only, for every constant a machine could hold: no `K < 256 ^ 126`
bounds the nodes by `K * (length + 1)`; the witness has 128 octets -/
theorem oer_no_alloc_bound_octets (K : Nat) (hK : K < 256 ^ 126) :
    ∃ (bs : Bytes) (v : Val), (∀ b ∈ bs, b < 256) ∧ bs.length = 128 ∧
      Oer.decode (.sequenceOf .null ⟨0, none, false⟩) bs = .ok v ∧ K * (bs.length + 1) < v.nodes := by
  refine ⟨127 :: List.replicate 127 255, _, ?_, by simp, oer_alloc_exponential _ 127 (by omega), ?_⟩
  · intro b hb
    simp only [List.mem_cons, List.mem_replicate] at hb
    rcases hb with rfl | ⟨_, rfl⟩ <;> omega
  · rw [nodes_list_replicate_null]
    simp only [List.length_cons, List.length_replicate]
    have h1 : (256 : Nat) ^ 127 = 256 ^ 126 * 256 := Nat.pow_succ ..
    have h2 := Nat.pow_pos (n := 126) (show 0 < 256 by omega)
    omega

/-- OER `readTagRest` (fuel = remaining octets + 1) is never out of fuel -/
theorem oer_readTagRest_fuel (f : Nat) : ∀ (f' : Nat) (bs : Bytes), bs.length < f → bs.length < f' →
    Oer.readTagRest f bs = Oer.readTagRest f' bs := by
  induction f with
  | zero => intro f' bs h; omega
  | succ f ih =>
    intro f' bs hf hf'
    obtain ⟨f'', rfl⟩ : ∃ k, f' = k + 1 := ⟨f' - 1, by omega⟩
    cases bs with
    | nil => rfl
    | cons b r =>
      simp only [Oer.readTagRest, Oer.readByte, bind, Except.bind]
      rw [ih f'' r (by simp at hf; omega) (by simp at hf'; omega)]

end Asn1.Cost
