import Asn1Proofs.Lemmas.PrepTags
/-
  "Every descriptor inside this descriptor satisfies P" and its preservation by the passes that
  rewrite attributes in place.
-/
namespace Asn1.SpecDict

mutual
  def Desc.All (P : Attrs → Prop) : Desc → Prop
    | .mk a b => P a ∧ Body.All P b
  termination_by structural d => d
  def Body.All (P : Attrs → Prop) : Body → Prop
    | .leaf => True
    | .members ms => ItemsAll P ms
    | .element e => Desc.All P e
  termination_by structural b => b
  def ItemsAll (P : Attrs → Prop) : List Item → Prop
    | [] => True
    | i :: t => Item.All P i ∧ ItemsAll P t
  termination_by structural l => l
  def Item.All (P : Attrs → Prop) : Item → Prop
    | .marker => True
    | .compOf _ => True
    | .group g => DescsAll P g
    | .desc d => Desc.All P d
  termination_by structural i => i
  def DescsAll (P : Attrs → Prop) : List Desc → Prop
    | [] => True
    | d :: t => Desc.All P d ∧ DescsAll P t
  termination_by structural l => l
end

section
variable {P Q : Attrs → Prop}

mutual
  theorem Desc.All.imp (h : ∀ a, P a → Q a) (d : Desc) (hd : d.All P) : d.All Q := by
    cases d with
    | mk a b =>
      simp only [Desc.All] at hd ⊢
      exact ⟨h a hd.1, Body.All.imp h b hd.2⟩
  theorem Body.All.imp (h : ∀ a, P a → Q a) (b : Body) (hb : b.All P) : b.All Q := by
    cases b with
    | leaf => simp [Body.All]
    | members ms => simp only [Body.All] at hb ⊢; exact ItemsAll.imp h ms hb
    | element e => simp only [Body.All] at hb ⊢; exact Desc.All.imp h e hb
  theorem ItemsAll.imp (h : ∀ a, P a → Q a) (l : List Item) (hl : ItemsAll P l) : ItemsAll Q l := by
    cases l with
    | nil => simp [ItemsAll]
    | cons i t =>
      simp only [ItemsAll] at hl ⊢
      exact ⟨Item.All.imp h i hl.1, ItemsAll.imp h t hl.2⟩
  theorem Item.All.imp (h : ∀ a, P a → Q a) (i : Item) (hi : i.All P) : i.All Q := by
    cases i with
    | marker => simp [Item.All]
    | compOf r => simp [Item.All]
    | group g => simp only [Item.All] at hi ⊢; exact DescsAll.imp h g hi
    | desc d => simp only [Item.All] at hi ⊢; exact Desc.All.imp h d hi
  theorem DescsAll.imp (h : ∀ a, P a → Q a) (l : List Desc) (hl : DescsAll P l) : DescsAll Q l := by
    cases l with
    | nil => simp [DescsAll]
    | cons d t =>
      simp only [DescsAll] at hl ⊢
      exact ⟨Desc.All.imp h d hl.1, DescsAll.imp h t hl.2⟩
end

mutual
  theorem Desc.All.of_forall (h : ∀ a, P a) (d : Desc) : d.All P := by
    cases d with
    | mk a b => simp only [Desc.All]; exact ⟨h a, Body.All.of_forall h b⟩
  theorem Body.All.of_forall (h : ∀ a, P a) (b : Body) : b.All P := by
    cases b with
    | leaf => simp [Body.All]
    | members ms => simp only [Body.All]; exact ItemsAll.of_forall h ms
    | element e => simp only [Body.All]; exact Desc.All.of_forall h e
  theorem ItemsAll.of_forall (h : ∀ a, P a) (l : List Item) : ItemsAll P l := by
    cases l with
    | nil => simp [ItemsAll]
    | cons i t => simp only [ItemsAll]; exact ⟨Item.All.of_forall h i, ItemsAll.of_forall h t⟩
  theorem Item.All.of_forall (h : ∀ a, P a) (i : Item) : i.All P := by
    cases i with
    | marker => simp [Item.All]
    | compOf r => simp [Item.All]
    | group g => simp only [Item.All]; exact DescsAll.of_forall h g
    | desc d => simp only [Item.All]; exact Desc.All.of_forall h d
  theorem DescsAll.of_forall (h : ∀ a, P a) (l : List Desc) : DescsAll P l := by
    cases l with
    | nil => simp [DescsAll]
    | cons d t => simp only [DescsAll]; exact ⟨Desc.All.of_forall h d, DescsAll.of_forall h t⟩
end

theorem ItemsAll_append {l₁ l₂ : List Item} :
    ItemsAll P (l₁ ++ l₂) ↔ ItemsAll P l₁ ∧ ItemsAll P l₂ := by
  induction l₁ with
  | nil => simp [ItemsAll]
  | cons i t ih => simp [ItemsAll, ih, and_assoc]

theorem ItemsAll_addMarker {l : List Item} (h : ItemsAll P l) : ItemsAll P (addMarker l) := by
  unfold addMarker; split
  · exact h
  · exact ItemsAll_append.2 ⟨h, by simp [ItemsAll, Item.All]⟩

theorem ItemsAll_takeRoot {l : List Item} (h : ItemsAll P l) : ItemsAll P (takeRoot l) := by
  induction l with
  | nil => simp [takeRoot, ItemsAll]
  | cons i t ih =>
    simp only [ItemsAll] at h
    cases i with
    | marker => simp [takeRoot, ItemsAll]
    | compOf r => simp only [takeRoot, ItemsAll]; exact ⟨h.1, ih h.2⟩
    | group g => simp only [takeRoot, ItemsAll]; exact ⟨h.1, ih h.2⟩
    | desc d => simp only [takeRoot, ItemsAll]; exact ⟨h.1, ih h.2⟩

/-! ### the EXTENSIBILITY IMPLIED pass keeps every descriptor -/
mutual
  theorem Desc.All.ext (d : Desc) (hd : d.All P) : (extDesc d).All P := by
    cases d with
    | mk a b => simp only [Desc.All, extDesc] at hd ⊢; exact ⟨hd.1, Body.All.ext b hd.2⟩
  theorem Body.All.ext (b : Body) (hb : b.All P) : (extBody b).All P := by
    cases b with
    | leaf => simp [Body.All, extBody]
    | members ms =>
      simp only [Body.All, extBody] at hb ⊢
      exact ItemsAll_addMarker (ItemsAll.ext ms hb)
    | element e => simp only [Body.All, extBody] at hb ⊢; exact Desc.All.ext e hb
  theorem ItemsAll.ext (l : List Item) (hl : ItemsAll P l) : ItemsAll P (extItems l) := by
    cases l with
    | nil => simp [ItemsAll, extItems]
    | cons i t =>
      simp only [ItemsAll, extItems] at hl ⊢
      exact ⟨Item.All.ext i hl.1, ItemsAll.ext t hl.2⟩
  theorem Item.All.ext (i : Item) (hi : i.All P) : (extItem i).All P := by
    cases i with
    | marker => simp [Item.All, extItem]
    | compOf r => simp [Item.All, extItem]
    | group g => simp only [Item.All, extItem] at hi ⊢; exact DescsAll.ext g hi
    | desc d => simp only [Item.All, extItem] at hi ⊢; exact Desc.All.ext d hi
  theorem DescsAll.ext (l : List Desc) (hl : DescsAll P l) : DescsAll P (extDescs l) := by
    cases l with
    | nil => simp [DescsAll, extDescs]
    | cons d t =>
      simp only [DescsAll, extDescs] at hl ⊢
      exact ⟨Desc.All.ext d hl.1, DescsAll.ext t hl.2⟩
end

/-! ### the tag pass: P must be kept by the two attribute rewrites -/
section
variable (sk : Skel) (mt mn : String)
  (hP : ∀ a k, P a → P (kindAttrs sk mt mn (numAttrs k a)))
include hP

mutual
  theorem Desc.All.tag (k : Option Nat) (d : Desc) (hd : d.All P) :
      (tagDesc sk mt mn k d).All P := by
    cases d with
    | mk a b =>
      simp only [Desc.All, tagDesc] at hd ⊢
      exact ⟨hP a k hd.1, Body.All.tag b hd.2⟩
  theorem Body.All.tag (b : Body) (hb : b.All P) : (tagBody sk mt mn b).All P := by
    cases b with
    | leaf => simp [Body.All, tagBody]
    | members ms => simp only [Body.All, tagBody] at hb ⊢; exact ItemsAll.tag _ ms hb
    | element e => simp only [Body.All, tagBody] at hb ⊢; exact Desc.All.tag none e hb
  theorem ItemsAll.tag (k : Option Nat) (l : List Item) (hl : ItemsAll P l) :
      ItemsAll P (tagItems sk mt mn k l) := by
    cases l with
    | nil => simp [ItemsAll, tagItems]
    | cons i t =>
      simp only [ItemsAll] at hl
      cases i with
      | marker => simp only [tagItems, ItemsAll, Item.All, true_and]; exact ItemsAll.tag k t hl.2
      | compOf r => simp only [tagItems, ItemsAll, Item.All, true_and]; exact ItemsAll.tag k t hl.2
      | group g =>
        simp only [tagItems, ItemsAll, Item.All] at hl ⊢
        exact ⟨DescsAll.tag k g hl.1, ItemsAll.tag _ t hl.2⟩
      | desc d =>
        simp only [tagItems, ItemsAll, Item.All] at hl ⊢
        exact ⟨Desc.All.tag k d hl.1, ItemsAll.tag _ t hl.2⟩
  theorem DescsAll.tag (k : Option Nat) (l : List Desc) (hl : DescsAll P l) :
      DescsAll P (tagDescs sk mt mn k l) := by
    cases l with
    | nil => simp [DescsAll, tagDescs]
    | cons d t =>
      simp only [DescsAll, tagDescs] at hl ⊢
      exact ⟨Desc.All.tag k d hl.1, DescsAll.tag _ t hl.2⟩
end
end

end

end Asn1.SpecDict
