import Asn1Proofs.Lemmas.UperChunks
import Asn1Proofs.Lemmas.UperNum
/-
  packBits, mapM, alphabets, ENUMERATED tables.
-/
set_option linter.unusedSimpArgs false
namespace Asn1

/-! ### packBits -/

theorem bitsToBytes_bytesToBits (bs : Bytes) (h : ∀ b ∈ bs, b < 256) (fuel : Nat)
    (hf : bs.length + 1 ≤ fuel) : bitsToBytes fuel (bytesToBits bs) = bs := by
  induction bs generalizing fuel with
  | nil => cases fuel <;> rfl
  | cons b r ih =>
    cases fuel with
    | zero => simp at hf
    | succ fuel =>
      have hb : b < 256 := h b (by simp)
      have e : bytesToBits (b :: r) = natToBits 8 b ++ bytesToBits r := rfl
      rw [e, bitsToBytes]
      have hne : (natToBits 8 b ++ bytesToBits r).isEmpty = false := by
        simp [natToBits]
      have ht : (natToBits 8 b ++ bytesToBits r).take 8 = natToBits 8 b := by
        rw [List.take_append_of_le_length (by simp)]
        exact List.take_of_length_le (by simp)
      have hd : (natToBits 8 b ++ bytesToBits r).drop 8 = bytesToBits r := by
        rw [List.drop_append_of_le_length (by simp)]
        rw [List.drop_of_length_le (by simp)]; rfl
      rw [hne, ht, hd]
      simp only [Bool.false_eq_true, if_false, natToBits_length, Nat.sub_self, List.replicate_zero,
        List.append_nil]
      rw [bitsToNat_natToBits_of_lt (by omega)]
      rw [ih (fun x hx => h x (by simp [hx])) fuel (by simp at hf; omega)]

theorem packBits_bytesToBits (bs : Bytes) (h : ∀ b ∈ bs, b < 256) : packBits (bytesToBits bs) = bs := by
  unfold packBits
  exact bitsToBytes_bytesToBits bs h _ (by rw [bytesToBits_length]; omega)

namespace Uper

/-! ### mapM in `Except` -/

theorem mapM_nil' {α β : Type} (f : α → EncM β) : ([] : List α).mapM f = .ok [] := by
  simp [pure, Except.pure]

theorem mapM_cons' {α β : Type} (f : α → EncM β) (a : α) (l : List α) :
    (a :: l).mapM f = match f a with
      | .error e => .error e
      | .ok b => match l.mapM f with
        | .error e => .error e
        | .ok bs => .ok (b :: bs) := by
  rw [List.mapM_cons]
  simp only [bind, Except.bind, pure, Except.pure]
  cases f a with
  | error e => rfl
  | ok b => cases l.mapM f <;> rfl

theorem all2_of_mapM {α β : Type} (f : α → EncM β) (l : List α) (r : List β)
    (h : l.mapM f = .ok r) : All2 (fun a b => f a = .ok b) l r := by
  induction l generalizing r with
  | nil =>
    rw [mapM_nil'] at h
    cases h; exact .nil
  | cons a l ih =>
    rw [mapM_cons'] at h
    cases hfa : f a with
    | error e => rw [hfa] at h; cases h
    | ok b =>
      rw [hfa] at h
      cases hl : l.mapM f with
      | error e => rw [hl] at h; cases h
      | ok bs =>
        rw [hl] at h
        cases h
        exact .cons hfa (ih bs hl)

theorem mapM_ok_of_forall {α β : Type} (f : α → EncM β) (l : List α)
    (h : ∀ a ∈ l, ∃ b, f a = .ok b) : ∃ r, l.mapM f = .ok r := by
  induction l with
  | nil => exact ⟨[], mapM_nil' f⟩
  | cons a l ih =>
    obtain ⟨b, hb⟩ := h a (by simp)
    obtain ⟨bs, hbs⟩ := ih (fun x hx => h x (by simp [hx]))
    exact ⟨b :: bs, by rw [mapM_cons', hb, hbs]⟩

theorem All2.length_eq {α β : Type} {R : α → β → Prop} {l1 : List α} {l2 : List β}
    (h : All2 R l1 l2) : l1.length = l2.length := forall₂_length h

/-! ### alphabets -/

theorem indexOf?_of_contains (c : Nat) (l : List Nat) (h : l.contains c = true) :
    ∃ i, indexOf? c l = some i ∧ i < l.length ∧ l[i]? = some c := by
  induction l with
  | nil => simp at h
  | cons y r ih =>
    unfold indexOf?
    by_cases hc : c = y
    · subst hc; exact ⟨0, by simp⟩
    · have : r.contains c = true := by
        simp only [List.contains_cons, Bool.or_eq_true, beq_iff_eq] at h
        rcases h with h | h
        · exact absurd h hc
        · exact h
      obtain ⟨i, h1, h2, h3⟩ := ih this
      exact ⟨i + 1, by simp [hc, h1], by simp; omega, by simpa using h3⟩

theorem bitsPerChar_numeric : bitsPerChar .numeric = 4 := by decide
set_option maxRecDepth 10000 in
theorem bitsPerChar_ia5 : bitsPerChar .ia5 = 7 := by decide
set_option maxRecDepth 10000 in
theorem bitsPerChar_visible : bitsPerChar .visible = 7 := by decide
set_option maxRecDepth 10000 in
theorem bitsPerChar_printable : bitsPerChar .printable = 7 := by decide

set_option maxRecDepth 10000 in
theorem ia5_lt : ∀ c ∈ Extracted.ia5Alphabet, c < 128 := by decide
set_option maxRecDepth 10000 in
theorem visible_lt : ∀ c ∈ Extracted.visibleAlphabet, c < 128 := by decide
set_option maxRecDepth 10000 in
theorem printable_lt : ∀ c ∈ Extracted.printableAlphabet, c < 128 := by decide

theorem char_rt (k : StrKind) (hk : k ≠ .utf8) (c : Nat) (hc : (alphabetOf k).contains c = true) :
    ∃ code, charCode k c = .ok code ∧ code < 2 ^ bitsPerChar k ∧ charDecode k code = .ok c := by
  have hmem : c ∈ alphabetOf k := by simpa using hc
  cases k with
  | utf8 => exact absurd rfl hk
  | numeric =>
    obtain ⟨i, h1, h2, h3⟩ := indexOf?_of_contains c _ hc
    refine ⟨i, ?_, ?_, ?_⟩
    · simp only [charCode, h1]
    · rw [bitsPerChar_numeric]
      have : (alphabetOf .numeric).length = 11 := rfl
      omega
    · simp only [charDecode, h3]
  | ia5 =>
    refine ⟨c, ?_, ?_, ?_⟩
    · simp only [charCode, hc, if_true]
    · rw [bitsPerChar_ia5]; have := ia5_lt c hmem; omega
    · simp only [charDecode, hc, if_true]
  | visible =>
    refine ⟨c, ?_, ?_, ?_⟩
    · simp only [charCode, hc, if_true]
    · rw [bitsPerChar_visible]; have := visible_lt c hmem; omega
    · simp only [charDecode, hc, if_true]
  | printable =>
    refine ⟨c, ?_, ?_, ?_⟩
    · simp only [charCode, hc, if_true]
    · rw [bitsPerChar_printable]; have := printable_lt c hmem; omega
    · simp only [charDecode, hc, if_true]

/-! ### ENUMERATED -/

theorem nameIndex_of_mem (name : String) (xs : List (String × Int)) (h : name ∈ namesOf xs) :
    ∃ i, nameIndex name xs = some i := by
  induction xs with
  | nil => simp [namesOf] at h
  | cons x r ih =>
    obtain ⟨n, v⟩ := x
    unfold nameIndex
    by_cases hn : n = name
    · exact ⟨0, by simp [hn]⟩
    · have : name ∈ namesOf r := by
        simp only [namesOf, List.map_cons, List.mem_cons] at h
        rcases h with h | h
        · exact absurd h.symm hn
        · exact h
      obtain ⟨i, hi⟩ := ih this
      exact ⟨i + 1, by simp [hn, hi]⟩

theorem nameIndex_none (name : String) (xs : List (String × Int)) (h : name ∉ namesOf xs) :
    nameIndex name xs = none := by
  induction xs with
  | nil => rfl
  | cons x r ih =>
    obtain ⟨n, v⟩ := x
    simp only [namesOf, List.map_cons, List.mem_cons, not_or] at h
    unfold nameIndex
    have hn : ¬ n = name := fun e => h.1 e.symm
    simp [hn, ih h.2]

theorem nameIndex_spec (name : String) (xs : List (String × Int)) (i : Nat)
    (h : nameIndex name xs = some i) : i < xs.length ∧ ∃ x, xs[i]? = some (name, x) := by
  induction xs generalizing i with
  | nil => simp [nameIndex] at h
  | cons x r ih =>
    obtain ⟨n, v⟩ := x
    unfold nameIndex at h
    by_cases hn : n = name
    · simp [hn] at h; subst h; subst hn; exact ⟨by simp, v, by simp⟩
    · simp only [beq_iff_eq, hn, if_false, Option.map_eq_some_iff] at h
      obtain ⟨j, hj, rfl⟩ := h
      obtain ⟨h1, x, h2⟩ := ih j hj
      exact ⟨by simp; omega, x, by simpa using h2⟩

theorem insertByVal_perm (x : String × Int) (xs : List (String × Int)) :
    (insertByVal x xs).Perm (x :: xs) := by
  induction xs with
  | nil => exact List.Perm.refl _
  | cons y r ih =>
    unfold insertByVal
    split
    · exact List.Perm.refl _
    · exact (List.Perm.cons y ih).trans (List.Perm.swap x y r)

theorem sortByVal_perm (xs : List (String × Int)) : (sortByVal xs).Perm xs := by
  induction xs with
  | nil => exact List.Perm.refl _
  | cons x r ih =>
    show (insertByVal x (sortByVal r)).Perm (x :: r)
    exact (insertByVal_perm x _).trans (List.Perm.cons x ih)

theorem sortByVal_length (xs : List (String × Int)) : (sortByVal xs).length = xs.length :=
  (sortByVal_perm xs).length_eq

theorem mem_namesOf_sortByVal (name : String) (xs : List (String × Int)) :
    name ∈ namesOf (sortByVal xs) ↔ name ∈ namesOf xs := by
  unfold namesOf
  exact ((sortByVal_perm xs).map _).mem_iff

end Uper
end Asn1
