import Asn1Proofs.Lemmas.ExtPerBase
/-
  C07, ALIGNED PER: CHOICE.  An alternative the decoder does not know is skipped by the open type
  length behind the octet alignment (`Per.fragFree` bounds that length); a known addition is decoded at
  the octet boundary and the rest of the open type is skipped.
-/
set_option linter.unusedSimpArgs false
set_option linter.unusedVariables false
namespace Asn1.Ext.PerX
open Asn1 Asn1.Per Asn1.Ext
open Asn1.Uper (smallLen lenDet encNsnnwn padToByte EncM DecM find_none_iff find_lt find_all all_wf
  all_defaultsOk all_nsOk hasAlt_find padToByte_eq padToByte_length_div)

/-- the alternative the encoder chose, seen from the decoder's list -/
theorem alt_cross (aD : Alts) : ∀ (aE : Alts), CompatAltAdds aD aE → UperX.AltsAllX XT aD aE →
    dOkAlts false aD aE → ∀ (name : String) (j : Nat) (tE' : Ty), aE.find name = some (j, tE') →
    (∃ tD', XT tD' tE' ∧ dOk false tD' tE' ∧
      (∀ fuel s, decAlt aD fuel j s =
        some (do let (v, r) ← dec tD' fuel s; .ok (.choice name v, r))) ∧
      (∀ v, viewAlt false aD aE name v = some (view false tD' tE' v)) ∧
      (∀ v, skipFreeAlt aD aE name v = skipFree tD' tE' v)) ∨
    ((∀ fuel s, decAlt aD fuel j s = none) ∧ (∀ v, viewAlt false aD aE name v = none) ∧
      aD.length ≤ j) := by
  induction aD using Alts.ind with
  | nil =>
    intro aE _ _ _ name j tE' _
    refine .inr ⟨fun _ _ => rfl, fun _ => ?_, by simp [Alts.length]⟩
    cases aE <;> rfl
  | cons n tD mD ih =>
    intro aE h hall hdok name j tE' hfind
    cases h with
    | nilE => simp [Alts.find] at hfind
    | @cons _ tE _ mE _ h1 h2 =>
      simp only [UperX.AltsAllX] at hall
      simp only [dOkAlts] at hdok
      simp only [Alts.find] at hfind
      split at hfind
      · rename_i hn
        cases hfind
        have : n = name := by simpa using hn
        subst this
        refine .inl ⟨tD, hall.1, hdok.1, fun _ _ => rfl, fun v => ?_, fun v => ?_⟩
        · simp only [viewAlt, beq_self_eq_true, if_true]
        · simp only [skipFreeAlt, beq_self_eq_true, if_true]
      · rename_i hn
        simp only [Option.map_eq_some_iff] at hfind
        obtain ⟨⟨j', t''⟩, hf1, hf2⟩ := hfind
        cases hf2
        rcases ih mE h2 hall.2 hdok.2 name j' t'' hf1 with ⟨tD', a, b, c, d, e⟩ | ⟨a, b, c⟩
        · refine .inl ⟨tD', a, b, fun fuel bs => ?_, fun v => ?_, fun v => ?_⟩
          · simp only [decAlt]; exact c fuel bs
          · simp only [viewAlt, hn, if_false, Bool.false_eq_true]; exact d v
          · simp only [skipFreeAlt, hn, if_false, Bool.false_eq_true]; exact e v
        · refine .inr ⟨fun fuel bs => ?_, fun v => ?_, by simp [Alts.length]; omega⟩
          · simp only [decAlt]; exact a fuel bs
          · simp only [viewAlt, hn, if_false, Bool.false_eq_true]; exact b v

theorem xt_choice (rD rE aD aE : Alts) (x : Bool) (hcr : CompatAlts rD rE) (hca : CompatAltAdds aD aE)
    (ihr : UperX.AltsAllX XT rD rE) (iha : UperX.AltsAllX XT aD aE) :
    XT (.choice rD x aD) (.choice rE x aE) := by
  intro v pos pos' bits rest fuel hwf hd hns hdok ht hf hsk hp he hfuel
  cases v <;> try (simp only [hasType, Bool.false_eq_true] at ht; done)
  rename_i name w
  simp only [hasType] at ht
  simp only [view]
  rw [Ty.wf] at hwf
  rw [Ty.defaultsOk] at hd
  rw [Ty.nsOk] at hns
  rw [fragFree] at hf
  rw [skipFree] at hsk
  simp only [dOk] at hdok
  simp only [Bool.and_eq_true, Bool.or_eq_true, decide_eq_true_eq, beq_iff_eq] at ht hwf hd hns hf hsk
  obtain ⟨⟨⟨⟨hrwf, hawf⟩, hrpos⟩, hnd⟩, hext⟩ := hwf
  obtain ⟨⟨hrns, hans⟩, hnsi⟩ := hns
  have hlenr := UperX.compatAlts_length rD rE hcr
  rw [hasAlt_find, hasAlt_find] at ht
  rw [fragFreeAlt_find, fragFreeAlt_find] at hf
  rw [enc] at he
  simp only [nameIdx_find, encAlt_find] at he
  rw [dec]
  cases hfr : rE.find name with
  | some y =>
    obtain ⟨j, t⟩ := y
    have hnr : name ∈ rE.names := by
      by_cases h : name ∈ rE.names
      · exact h
      · have := (find_none_iff name rE).2 h
        rw [this] at hfr; cases hfr
    have hfa : aE.find name = none := by
      rw [find_none_iff]
      intro hna
      exact (List.nodup_append.1 hnd).2.2 name hnr name hna rfl
    simp only [hfr, hfa, Option.map_some, Option.map_none, Bool.or_false, Bool.not_false,
      Bool.true_or, Bool.and_true, Bool.false_eq_true, or_false] at ht hf he
    have hj := find_lt name rE j t hfr
    split at he
    · rename_i body hbody
      simp only [Option.some.injEq] at hbody
      cases he
      rcases alt_cross rD rE (UperX.compatAlts_toAdds rD rE hcr) ihr hdok.1 name j t hfr with
        ⟨tD', hx, hdk, hdec, hview, hskip⟩ | ⟨_, _, hle⟩
      · -- the extension bit
        have hpre : ∀ X : Bits, (if x = true then readBit ⟨pos', (if x = true then [false] else []) ++ X⟩
            else .ok (false, ⟨pos', (if x = true then [false] else []) ++ X⟩)) =
            (.ok (false, ⟨pos' + (if x = true then [false] else []).length, X⟩) : DecM (Bool × St)) := by
          intro X; cases x <;> rfl
        generalize hpl : (if x = true then [false] else ([] : Bits)) = pre at *
        have hrt := fun q hq => hx w _ q body rest fuel
          (find_all name rE j t hfr (all_wf rE hrwf))
          (find_all name rE j t hfr (all_defaultsOk rE hd.1))
          (find_all name rE j t hfr (all_nsOk rE hrns)) hdk ht hf.1
          (by rw [← hskip]; exact hsk.1) hq hbody
          (by simp only [List.length_append] at hfuel; omega)
        simp only [hview, List.append_assoc, bind, Except.bind, hpre, Bool.false_eq_true, if_false]
        by_cases h1 : rE.length > 1
        · simp only [hlenr, h1, if_true] at hbody hrt ⊢
          rw [decConstrainedInt_enc _ _ _ _ _ _ (by omega) (by omega) (by omega)]
          simp only [Int.toNat_natCast]
          rw [hdec]
          simp only [bind, Except.bind]
          rw [hrt _ (by omega)]
          simp only [List.length_append, Nat.add_assoc]
        · simp only [hlenr, h1, if_false, List.nil_append, List.length_nil, Nat.add_zero] at hbody hrt ⊢
          have : j = 0 := by omega
          subst this
          simp only [Int.toNat_zero]
          rw [hdec]
          simp only [bind, Except.bind]
          rw [hrt _ (by omega)]
          simp only [List.length_append, Nat.add_assoc]
      · omega
    · cases he
    · rename_i hnone
      simp at hnone
  | none =>
    simp only [hfr, Option.map_none, Bool.false_eq_true, false_or] at ht hf he
    rw [UperX.viewAlt_none_of_find_none rD rE (UperX.compatAlts_toAdds rD rE hcr) name w hfr]
    cases hfa : aE.find name with
    | none => simp [hfa] at ht
    | some y =>
      obtain ⟨j, t⟩ := y
      have hj := find_lt name aE j t hfa
      have hext' : x = true := by
        rcases hext with h | h
        · exact h
        · omega
      simp only [hfa, hext', if_true, Option.map_some, Bool.not_true, Bool.false_or,
        Bool.and_eq_true, Bool.true_and] at ht hf he ⊢
      split at he
      · rename_i body hbody
        simp only [Option.some.injEq] at hbody
        cases he
        rw [hbody] at hf
        simp only [smallLen, decide_eq_true_eq] at hf
        have hnl := Uper.lenDet_snd_of_lt (n := (body.length + 7) / 8) hf.2.2
        have hm := lenDet_length_mod ((body.length + 7) / 8)
        have hpad := add_padLen_mod (pos + ((encNsnnwn j).length + 1))
        simp only [openType, padToByte_length_div, padToByte_length, List.length_append,
          List.length_cons, List.length_nil, alignBits_length] at hfuel
        simp only [openType, padToByte_length_div, List.append_assoc, bind, Except.bind,
          List.cons_append, List.nil_append, readBit_cons, if_true]
        rw [decNsnnwn_enc _ j _ (nsIndexOk_lt hnsi hj)]
        simp only
        rw [align_alignBits _ _ _ (by
          simp only [List.length_append, List.length_cons, List.length_nil]; omega)]
        rw [readLenDet_lenDet, hnl]
        simp only [List.length_cons, List.length_nil, List.length_append]
        rcases alt_cross aD aE hca iha hdok.2 name j t hfa with
          ⟨tD', hx, hdk, hdec, hview, hskip⟩ | ⟨hdec, hview, _⟩
        · have hrt := fun q hq => hx w 0 q body
            (List.replicate (8 * ((body.length + 7) / 8) - body.length) false ++ rest) fuel
            (find_all name aE j t hfa (all_wf aE hawf))
            (find_all name aE j t hfa (all_defaultsOk aE hd.2))
            (find_all name aE j t hfa (all_nsOk aE hans)) hdk ht hf.2.1
            (by rw [← hskip]; exact hsk.2) hq hbody
            (by simp only [List.length_append, List.length_replicate]; omega)
          rw [hdec, hview]
          simp only [bind, Except.bind]
          rw [padToByte_eq, List.append_assoc, hrt _ (by omega)]
          simp only
          generalize hq : pos' + 1 + (encNsnnwn j).length + padLen (pos + ((encNsnnwn j).length + 1)) +
            (lenDet ((body.length + 7) / 8)).1.length = q
          have hc : ¬ (q + body.length - q > 8 * ((body.length + 7) / 8)) := by omega
          simp only [hc, if_false]
          rw [readBits_append _ _ _ (by simp only [List.length_replicate]; omega)]
          simp only [List.length_cons, List.length_append, alignBits_length, List.length_replicate,
            Except.ok.injEq, Prod.mk.injEq, true_and]
          exact St.eq_of_pos _ (by omega)
        · rw [hdec, hview]
          simp only [bind, Except.bind]
          rw [readBits_append _ _ _ (padToByte_length body)]
          simp only [List.length_cons, List.length_append, alignBits_length, padToByte_length,
            Except.ok.injEq, Prod.mk.injEq, true_and]
          exact St.eq_of_pos _ (by omega)
      · cases he
      · rename_i hnone
        simp at hnone

end Asn1.Ext.PerX

#print axioms Asn1.Ext.PerX.xt_choice
