import Asn1Proofs.Lemmas.X690Tag
set_option linter.unusedSimpArgs false
set_option linter.unusedVariables false
namespace Asn1.X690
open Asn1.Uper (Err)

/-- the induction predicate -/
def CAN (t : Ty) : Prop :=
  ∀ (tg : Option Nat) (v₁ v₂ : Val), t.wf = true → defaultsOkV t = true →
    canonV t v₁ = canonV t v₂ → encV t tg v₁ = encV t tg v₂

theorem can_of_id (t : Ty) (hid : ∀ v, canonV t v = v) : CAN t := by
  intro tg v₁ v₂ _ _ h
  rw [hid, hid] at h; rw [h]

theorem can_boolean : CAN .boolean := can_of_id _ (fun v => by cases v <;> rfl)
theorem can_null : CAN .null := can_of_id _ (fun v => by cases v <;> rfl)
theorem can_integer (c : IntC) : CAN (.integer c) := can_of_id _ (fun v => by cases v <;> rfl)
theorem can_enumerated (r : List (String × Int)) (e : Option (List (String × Int))) :
    CAN (.enumerated r e) := can_of_id _ (fun v => by cases v <;> rfl)
theorem can_octetString (c : SizeC) : CAN (.octetString c) := can_of_id _ (fun v => by cases v <;> rfl)
theorem can_charString (k : StrKind) (c : SizeC) : CAN (.charString k c) :=
  can_of_id _ (fun v => by cases v <;> rfl)

theorem can_bitString (c : SizeC) : CAN (.bitString c) := by
  intro tg v₁ v₂ _ _ h
  cases v₁ <;> cases v₂ <;> simp only [canonV] at h <;>
    first
    | (cases h <;> rfl)
    | skip
  case bits.bits d₁ n₁ d₂ n₂ =>
    injection h with h1 h2
    subst h2
    simp only [encV, bitStringContents, h1]

/-! ### SEQUENCE OF -/

theorem can_mapM (e : Ty) (he : CAN e) (hwf : e.wf = true) (hd : defaultsOkV e = true) :
    ∀ (vs₁ vs₂ : List Val), vs₁.map (canonV e) = vs₂.map (canonV e) →
      vs₁.mapM (encV e none) = vs₂.mapM (encV e none)
  | [], [], _ => rfl
  | [], _ :: _, h => by simp at h
  | _ :: _, [], h => by simp at h
  | a :: r, b :: s, h => by
    simp only [List.map_cons, List.cons.injEq] at h
    rw [List.mapM_cons, List.mapM_cons, he none a b hwf hd h.1, can_mapM e he hwf hd r s h.2]

theorem can_sequenceOf (e : Ty) (c : SizeC) (ih : CAN e) : CAN (.sequenceOf e c) := by
  intro tg v₁ v₂ hwf hd h
  simp only [Ty.wf, Bool.and_eq_true] at hwf
  simp only [defaultsOkV] at hd
  cases v₁ <;> cases v₂ <;> simp only [canonV] at h <;>
    first
    | (cases h <;> rfl)
    | skip
  case list.list vs₁ vs₂ =>
    injection h with h
    simp only [encV, can_mapM e ih hwf.1 hd vs₁ vs₂ h]

/-! ### CHOICE -/

def choiceName : Val → Option String
  | .choice n _ => some n
  | _ => none

theorem canonV_choiceName (root : Alts) (ext : Bool) (adds : Alts) (x : Val) :
    choiceName (canonV (.choice root ext adds) x) = choiceName x := by
  cases x <;> try rfl
  case choice n v =>
    rw [canonV]
    split
    · rfl
    · split <;> rfl

theorem canonV_choice_other (root : Alts) (ext : Bool) (adds : Alts) (x : Val)
    (h : choiceName x = none) : canonV (.choice root ext adds) x = x := by
  cases x <;> first | rfl | (simp [choiceName] at h)

theorem choiceName_some (x : Val) (n : String) (h : choiceName x = some n) : ∃ v, x = .choice n v := by
  cases x <;> simp [choiceName] at h
  case choice m v => subst h; exact ⟨v, rfl⟩

theorem can_encAlternative_find (as : Alts) (i : Nat) (name : String) (v : Val) :
    encAlternative as i name v = (as.findO name).map (fun x => encV x.2 (some (i + x.1)) v) := by
  induction as using Alts.ind generalizing i with
  | nil => rfl
  | cons n t rest ih =>
    simp only [encAlternative, Alts.findO]
    split
    · rfl
    · rw [ih]
      cases rest.findO name with
      | none => rfl
      | some x =>
        simp only [Option.map_some]
        rw [show i + 1 + x.1 = i + (x.1 + 1) by omega]

def canChosen (root adds : Alts) (name : String) (v : Val) : Except Err Bytes :=
  match encAlternative root 0 name v with
  | some r => r
  | none =>
    match encAlternative adds root.length name v with
    | some r => r
    | none => .error .encodeError

def canWrap (tg : Option Nat) (chosen : Except Err Bytes) : Except Err Bytes :=
  match tg with
  | none => chosen
  | some i =>
    match chosen with
    | .error err => .error err
    | .ok body => .ok (tlv (identifier .context true i) body)

theorem can_encV_choice (root : Alts) (ext : Bool) (adds : Alts) (tg : Option Nat) (name : String) (v : Val) :
    encV (.choice root ext adds) tg (.choice name v) = canWrap tg (canChosen root adds name v) := by
  simp only [encV]; rfl

theorem can_choice (root : Alts) (ext : Bool) (adds : Alts) (ihr : root.AllO CAN) (iha : adds.AllO CAN) :
    CAN (.choice root ext adds) := by
  intro tg v₁ v₂ hwf hd h
  have hn : choiceName v₁ = choiceName v₂ := by
    rw [← canonV_choiceName root ext adds v₁, h, canonV_choiceName]
  cases hc : choiceName v₁ with
  | none =>
    rw [canonV_choice_other _ _ _ _ hc, canonV_choice_other _ _ _ _ (hn ▸ hc)] at h
    rw [h]
  | some n =>
    obtain ⟨x₁, rfl⟩ := choiceName_some v₁ n hc
    obtain ⟨x₂, rfl⟩ := choiceName_some v₂ n (hn ▸ hc)
    simp only [Ty.wf, Bool.and_eq_true] at hwf
    simp only [defaultsOkV, Bool.and_eq_true] at hd
    have wr := alts_all_wf_oer root hwf.1.1.1.1
    have wa := alts_all_wf_oer adds hwf.1.1.1.2
    have dr := Der.alts_all_defaultsOkV root hd.1
    have da := Der.alts_all_defaultsOkV adds hd.2
    rw [can_encV_choice, can_encV_choice]
    congr 1
    unfold canChosen
    rw [canonV, canonV, Der.canonAltV_find, Der.canonAltV_find, Der.canonAltV_find, Der.canonAltV_find] at h
    simp only [can_encAlternative_find]
    cases hr : root.findO n with
    | some x =>
      simp only [hr, Option.map_some, Val.choice.injEq, true_and] at h ⊢
      rw [find_all_oer n root x.1 x.2 hr ihr _ x₁ x₂ (find_all_oer n root x.1 x.2 hr wr)
        (find_all_oer n root x.1 x.2 hr dr) h]
    | none =>
      simp only [hr, Option.map_none] at h ⊢
      cases ha : adds.findO n with
      | some x =>
        simp only [ha, Option.map_some, Val.choice.injEq, true_and] at h ⊢
        rw [find_all_oer n adds x.1 x.2 ha iha _ x₁ x₂ (find_all_oer n adds x.1 x.2 ha wa)
          (find_all_oer n adds x.1 x.2 ha da) h]
      | none =>
        simp only [ha, Option.map_none, Val.choice.injEq, true_and] at h ⊢

/-! ### SEQUENCE -/

def canHere (name : String) (p : Presence) (t : Ty) (i : Nat) (fs : List (String × Val)) : Except Err Bytes :=
  match lookup name fs with
  | some v =>
    match p with
    | .default d => if isDefaultValue t v d then .ok [] else encV t (some i) v
    | _ => encV t (some i) v
  | none =>
    match p with
    | .mandatory => .error .encodeError
    | _ => .ok []

theorem can_encComponents_cons (name : String) (p : Presence) (t : Ty) (rest : Members) (i : Nat)
    (fs : List (String × Val)) :
    encComponents (.cons name p t rest) i fs =
      (match canHere name p t i fs with
       | .error err => .error err
       | .ok a =>
         match encComponents rest (i + 1) fs with
         | .error err => .error err
         | .ok b => .ok (a ++ b)) := by
  cases p <;> rw [encComponents] <;> first | rfl | (intros; contradiction)

theorem can_names (ms : Members) (fs : List (String × Val)) :
    ∀ x ∈ canonMembersV ms fs, x.1 ∈ ms.names := by
  induction ms using Members.ind with
  | nil => intro x hx; simp [canonMembersV] at hx
  | cons name p t rest ih =>
    intro x hx
    rw [Der.canonMembersV_cons] at hx
    simp only [Members.names, List.mem_cons]
    cases h1 : lookup name fs with
    | some w =>
      simp only [h1, List.mem_cons] at hx
      rcases hx with hx | hx
      · left; rw [hx]
      · right; exact ih x hx
    | none =>
      simp only [h1] at hx
      cases p with
      | default d =>
        simp only [List.mem_cons] at hx
        rcases hx with hx | hx
        · left; rw [hx]
        · right; exact ih x hx
      | mandatory => right; exact ih x hx
      | optional => right; exact ih x hx

theorem can_components (ms : Members) :
    ms.AllO CAN → ms.wf = true → membersDefaultsOkV ms = true → ms.names.Nodup →
    ∀ (fs₁ fs₂ T₁ T₂ : List (String × Val)) (i : Nat),
      (∀ x ∈ T₁, x.1 ∉ ms.names) → (∀ x ∈ T₂, x.1 ∉ ms.names) →
      canonMembersV ms fs₁ ++ T₁ = canonMembersV ms fs₂ ++ T₂ →
      encComponents ms i fs₁ = encComponents ms i fs₂ ∧ T₁ = T₂ := by
  induction ms using Members.ind with
  | nil =>
    intro _ _ _ _ fs₁ fs₂ T₁ T₂ i _ _ h
    simp only [canonMembersV, List.nil_append] at h
    exact ⟨by simp only [encComponents], h⟩
  | cons name p t rest ih =>
    intro hall hwf hd hnd fs₁ fs₂ T₁ T₂ i hT₁ hT₂ h
    simp only [Members.wf, Bool.and_eq_true] at hwf
    rw [Der.membersDefaultsOkV_cons] at hd
    simp only [Bool.and_eq_true] at hd
    simp only [Members.names, List.nodup_cons] at hnd
    obtain ⟨hcan, hallr⟩ := hall
    have hT₁' : ∀ x ∈ T₁, x.1 ∉ rest.names :=
      fun x hx hm => hT₁ x hx (by simp [Members.names, hm])
    have hT₂' : ∀ x ∈ T₂, x.1 ∉ rest.names :=
      fun x hx hm => hT₂ x hx (by simp [Members.names, hm])
    have noname : ∀ (fs T : List (String × Val)),
        (∀ x ∈ T, x.1 ∉ (Members.cons name p t rest).names) →
        ∀ x ∈ canonMembersV rest fs ++ T, x.1 ≠ name := by
      intro fs T hT x hx e
      rcases List.mem_append.1 hx with hx | hx
      · exact hnd.1 (e ▸ can_names rest fs x hx)
      · exact hT x hx (by simp [Members.names, e])
    rw [Der.canonMembersV_cons, Der.canonMembersV_cons] at h
    rw [can_encComponents_cons, can_encComponents_cons]
    suffices hs : canHere name p t i fs₁ = canHere name p t i fs₂ ∧
        canonMembersV rest fs₁ ++ T₁ = canonMembersV rest fs₂ ++ T₂ by
      obtain ⟨r1, r2⟩ := ih hallr hwf.2 hd.2 hnd.2 fs₁ fs₂ T₁ T₂ (i + 1) hT₁' hT₂' hs.2
      rw [hs.1, r1]; exact ⟨rfl, r2⟩
    unfold canHere
    cases h1 : lookup name fs₁ with
    | some w₁ =>
      cases h2 : lookup name fs₂ with
      | some w₂ =>
        simp only [h1, h2, List.cons_append, List.cons.injEq, Prod.mk.injEq, true_and] at h
        have he := hcan (some i) w₁ w₂ hwf.1 hd.1.2 h.1
        refine ⟨?_, h.2⟩
        cases p with
        | default d =>
          have hdv : isDefaultValue t w₁ d = isDefaultValue t w₂ d := by
            simp only [isDefaultValue, sameValue, h.1]
          simp only [hdv, he]
        | mandatory => exact he
        | optional => exact he
      | none =>
        simp only [h1, h2] at h
        cases p with
        | default d =>
          simp only [List.cons_append, List.cons.injEq, Prod.mk.injEq, true_and] at h
          simp only [Bool.and_eq_true] at hd
          have hcd := Val.eq_of_beq _ _ hd.1.1.2
          refine ⟨?_, h.2⟩
          have hdv : isDefaultValue t w₁ d = true := by
            simp only [isDefaultValue, sameValue, h.1, hcd, Val.beq_self]
          simp only [hdv, if_true]
        | mandatory =>
          exact absurd rfl (noname fs₂ T₂ hT₂ (name, canonV t w₁) (by rw [← h]; simp))
        | optional =>
          exact absurd rfl (noname fs₂ T₂ hT₂ (name, canonV t w₁) (by rw [← h]; simp))
    | none =>
      cases h2 : lookup name fs₂ with
      | some w₂ =>
        simp only [h1, h2] at h
        cases p with
        | default d =>
          simp only [List.cons_append, List.cons.injEq, Prod.mk.injEq, true_and] at h
          simp only [Bool.and_eq_true] at hd
          have hcd := Val.eq_of_beq _ _ hd.1.1.2
          refine ⟨?_, h.2⟩
          have hdv : isDefaultValue t w₂ d = true := by
            simp only [isDefaultValue, sameValue, ← h.1, hcd, Val.beq_self]
          simp only [hdv, if_true]
        | mandatory =>
          exact absurd rfl (noname fs₁ T₁ hT₁ (name, canonV t w₂) (by rw [h]; simp))
        | optional =>
          exact absurd rfl (noname fs₁ T₁ hT₁ (name, canonV t w₂) (by rw [h]; simp))
      | none =>
        simp only [h1, h2] at h
        refine ⟨rfl, ?_⟩
        cases p with
        | default d =>
          simp only [List.cons_append, List.cons.injEq, true_and] at h
          exact h
        | mandatory => exact h
        | optional => exact h

theorem can_sequence (root : Members) (ext : Bool) (adds : Members)
    (ihr : root.AllO CAN) (iha : adds.AllO CAN) : CAN (.sequence root ext adds) := by
  intro tg v₁ v₂ hwf hd h
  cases v₁ <;> cases v₂ <;> simp only [canonV] at h <;>
    first
    | (cases h <;> rfl)
    | skip
  case record.record fs₁ fs₂ =>
    injection h with h
    simp only [Ty.wf, Bool.and_eq_true] at hwf
    simp only [defaultsOkV, Bool.and_eq_true] at hd
    have hnd := of_decide_eq_true hwf.1.1.2
    rw [List.nodup_append] at hnd
    obtain ⟨nd1, nd2, disj⟩ := hnd
    obtain ⟨r1, r2⟩ := can_components root ihr hwf.1.1.1.1 hd.1 nd1 fs₁ fs₂
      (canonMembersV adds fs₁) (canonMembersV adds fs₂) 0
      (fun x hx hm => disj _ hm _ (can_names adds fs₁ x hx) rfl)
      (fun x hx hm => disj _ hm _ (can_names adds fs₂ x hx) rfl) h
    obtain ⟨r3, _⟩ := can_components adds iha hwf.1.1.1.2 hd.2 nd2 fs₁ fs₂ [] [] root.length
      (fun x hx => by simp at hx) (fun x hx => by simp at hx) (by simpa using r2)
    simp only [encV, r1, r3]

/-! ### all types -/

theorem can_all (t : Ty) : CAN t :=
  Ty.rec (motive_1 := CAN) (motive_2 := Members.AllO CAN) (motive_3 := Alts.AllO CAN)
    can_boolean can_null can_integer can_enumerated can_octetString can_bitString can_charString
    (fun root ext adds ihr iha => can_sequence root ext adds ihr iha)
    (fun e c ih => can_sequenceOf e c ih)
    (fun root ext adds ihr iha => can_choice root ext adds ihr iha)
    trivial (fun _ _ _ _ iht ihr => ⟨iht, ihr⟩)
    trivial (fun _ _ _ iht ihr => ⟨iht, ihr⟩) t

/-- equal abstract values have identical distinguished encodings (values need not even be well typed) -/
theorem encV_canonical (t : Ty) (tg : Option Nat) (v₁ v₂ : Val)
    (hwf : t.wf = true) (hd : defaultsOkV t = true) (h : canonV t v₁ = canonV t v₂) :
    encV t tg v₁ = encV t tg v₂ :=
  can_all t tg v₁ v₂ hwf hd h

theorem der_canonical (t : Ty) (v₁ v₂ : Val)
    (hwf : t.wf = true) (hd : defaultsOkV t = true) (h : canonV t v₁ = canonV t v₂) :
    derEncode t v₁ = derEncode t v₂ :=
  encV_canonical t none v₁ v₂ hwf hd h

end Asn1.X690

#print axioms Asn1.X690.encV_canonical
#print axioms Asn1.X690.der_canonical
