import Asn1Proofs.Lemmas.GserParse
import Asn1Proofs.Lemmas.JerRoundtrip
/-
  Tree-level round trip of the GSER model: `toVal t (toG t v) = canonG t v`, the tree the writer builds
  is well formed (`wfG`: what `parseValue_render` needs), and the writer is total on typed values.
-/
namespace Asn1.Gser
open Asn1.Uper (Err)
open Asn1.Jer (strCps enumNames findName strCps_inj strCps_beq findName_of_mem MembersAll AltsAll
  hasAlt_mem hasAlt_false_of_not_mem)
open Asn1.Oer (mapM_nil' mapM_cons')

/-- the statement proved by induction on the type -/
def RT (t : Ty) : Prop :=
  ∀ (v : Val) (g : GVal), t.wf = true → idsOk t = true → hasType t v = true → toG t v = .ok g →
    toVal t g = some (canonG t v) ∧ wfG g = true

/-! ### leaf types -/

theorem rt_boolean : RT .boolean := by
  intro v g _ _ ht he
  cases v <;> simp [hasType] at ht
  rename_i b
  simp only [toG, Except.ok.injEq] at he
  subst he
  cases b
  · exact ⟨by rfl, by decide⟩
  · exact ⟨by rfl, by decide⟩

theorem rt_null : RT .null := by
  intro v g _ _ ht he
  cases v <;> simp [hasType] at ht
  simp only [toG, Except.ok.injEq] at he
  subst he
  exact ⟨by rfl, by decide⟩

theorem rt_integer (c : IntC) : RT (.integer c) := by
  intro v g _ _ ht he
  cases v <;> simp [hasType] at ht
  simp only [toG, Except.ok.injEq] at he
  subst he
  exact ⟨by simp [toVal, canonG], by simp [wfG]⟩

theorem rt_enumerated (root : List (String × Int)) (ext : Option (List (String × Int))) :
    RT (.enumerated root ext) := by
  intro v g _ hid ht he
  cases v <;> simp [hasType] at ht
  rename_i n
  simp only [toG] at he
  split at he
  · rename_i hc
    simp only [Except.ok.injEq] at he
    subst he
    have hm : n ∈ enumNames root ext := by simpa using hc
    simp only [idsOk, List.all_eq_true] at hid
    exact ⟨by simp [toVal, findName_of_mem n _ hm, canonG], by rw [wfG]; exact isWord_of_isIdent (hid n hm)⟩
  · cases he

theorem pairBytes_nibbles (bs : Bytes) (h : allBytes bs = true) : pairBytes (nibbles bs) = some bs := by
  induction bs with
  | nil => rfl
  | cons b r ih =>
    simp only [allBytes, List.all_cons, Bool.and_eq_true, decide_eq_true_eq] at h
    have hr : allBytes r = true := by unfold allBytes; exact h.2
    simp only [nibbles, List.flatMap_cons, List.cons_append, List.nil_append] at ih ⊢
    rw [pairBytes, ih hr]
    simp only [Option.some.injEq, List.cons.injEq, and_true]
    omega

theorem nibbles_lt (bs : Bytes) : ∀ d ∈ nibbles bs, d < 16 := by
  intro d hd
  simp only [nibbles, List.mem_flatMap, List.mem_cons, List.not_mem_nil, or_false] at hd
  obtain ⟨b, _, hb⟩ := hd
  rcases hb with hb | hb <;> subst hb <;> omega

theorem rt_octetString (c : SizeC) : RT (.octetString c) := by
  intro v g _ _ ht he
  cases v <;> simp [hasType] at ht
  rename_i bs
  simp only [toG, Except.ok.injEq] at he
  subst he
  refine ⟨by simp [toVal, pairBytes_nibbles bs ht.1, canonG], ?_⟩
  simp only [wfG, List.all_eq_true, decide_eq_true_eq]
  exact nibbles_lt bs

theorem rt_bitString (c : SizeC) : RT (.bitString c) := by
  intro v g _ _ ht he
  cases v <;> simp [hasType] at ht
  rename_i data n
  obtain ⟨⟨_, hlen⟩, _⟩ := ht
  simp only [toG, Except.ok.injEq] at he
  subst he
  refine ⟨?_, by simp [wfG]⟩
  have hl : ((bytesToBits data).take n).length = n := by
    rw [List.length_take, Asn1.bytesToBits_length, hlen]
    omega
  simp only [toVal, canonG, cleanBits, hl]

theorem rt_charString (k : StrKind) (c : SizeC) : RT (.charString k c) := by
  intro v g _ _ ht he
  cases v <;> simp only [hasType, Bool.false_eq_true] at ht
  simp only [toG, Except.ok.injEq] at he
  subst he
  exact ⟨by simp [toVal, canonG], by simp [wfG]⟩

/-! ### SEQUENCE OF -/

theorem unnamed_map (gs : List GVal) : unnamed (gs.map fun g => (none, g)) = some gs := by
  induction gs with
  | nil => rfl
  | cons g gs ih => simp only [List.map_cons, unnamed, ih]

theorem wfItems_map (gs : List GVal) (h : ∀ g ∈ gs, wfG g = true) :
    wfItems (gs.map fun g => (none, g)) = true := by
  induction gs with
  | nil => rfl
  | cons g gs ih =>
    simp only [List.map_cons, wfItems, nameOk, Bool.true_and, Bool.and_eq_true]
    exact ⟨h g (List.mem_cons_self ..), ih (fun x hx => h x (List.mem_cons_of_mem _ hx))⟩

theorem seqOf_items (e : Ty) (ih : RT e) (hwf : e.wf = true) (hid : idsOk e = true) :
    ∀ (vs : List Val) (gs : List GVal), (∀ v ∈ vs, hasType e v = true) → vs.mapM (toG e) = .ok gs →
      mapOpt (toVal e) gs = some (vs.map (canonG e)) ∧ ∀ g ∈ gs, wfG g = true := by
  intro vs
  induction vs with
  | nil =>
    intro gs _ h
    rw [mapM_nil'] at h
    cases h
    exact ⟨rfl, by simp⟩
  | cons v vs ihl =>
    intro gs hall h
    rw [mapM_cons'] at h
    cases hv : toG e v with
    | error err => rw [hv] at h; cases h
    | ok g =>
      rw [hv] at h
      cases hr : vs.mapM (toG e) with
      | error err => rw [hr] at h; cases h
      | ok gs' =>
        rw [hr] at h
        cases h
        obtain ⟨h1, h2⟩ := ih v g hwf hid (hall v (List.mem_cons_self ..)) hv
        obtain ⟨h3, h4⟩ := ihl gs' (fun x hx => hall x (List.mem_cons_of_mem _ hx)) hr
        refine ⟨by simp only [mapOpt, h1, h3, List.map_cons], ?_⟩
        intro x hx
        simp only [List.mem_cons] at hx
        rcases hx with hx | hx
        · subst hx; exact h2
        · exact h4 x hx

theorem rt_sequenceOf (e : Ty) (c : SizeC) (ih : RT e) : RT (.sequenceOf e c) := by
  intro v g hwf hid ht he
  cases v <;> simp only [hasType, Bool.false_eq_true] at ht
  rename_i vs
  simp only [Ty.wf, Bool.and_eq_true] at hwf
  simp only [idsOk] at hid
  simp only [Bool.and_eq_true, List.all_eq_true] at ht
  simp only [toG] at he
  cases hm : vs.mapM (toG e) with
  | error err => rw [hm] at he; cases he
  | ok gs =>
    rw [hm] at he
    cases he
    obtain ⟨h1, h2⟩ := seqOf_items e ih hwf.1 hid vs gs ht.1 hm
    exact ⟨by simp [toVal, unnamed_map, h1, canonG], by rw [wfG]; exact wfItems_map gs h2⟩

/-! ### SEQUENCE -/

/-- the first component does not carry the identifier `k` -/
def headNot (k : List Nat) : List (Option (List Nat) × GVal) → Prop
  | (some k', _) :: _ => k' ≠ k
  | _ => True

/-- every component `membersToG` writes carries the name of a declared member -/
theorem membersToG_names (fs : List (String × Val)) :
    ∀ (ms : Members) (a : List (Option (List Nat) × GVal)), membersToG ms fs = .ok a →
      ∀ it ∈ a, ∃ n ∈ ms.names, it.1 = some (strCps n) := by
  intro ms
  induction ms using Members.ind with
  | nil =>
    intro a h it hit
    simp only [membersToG, Except.ok.injEq] at h
    subst h
    simp at hit
  | cons name p t rest ih =>
    intro a h it hit
    simp only [membersToG] at h
    cases hl : lookup name fs with
    | some v =>
      simp only [hl] at h
      cases hj : toG t v with
      | error e => simp [hj] at h
      | ok g =>
        simp only [hj] at h
        cases hr : membersToG rest fs with
        | error e => simp [hr] at h
        | ok gs =>
          simp only [hr, Except.ok.injEq] at h
          subst h
          simp only [List.mem_cons] at hit
          rcases hit with hit | hit
          · subst hit; exact ⟨name, by simp [Members.names], rfl⟩
          · obtain ⟨n, hn, e⟩ := ih gs hr it hit
            exact ⟨n, by simp [Members.names, hn], e⟩
    | none =>
      simp only [hl] at h
      have hrest : membersToG rest fs = .ok a := by cases p <;> simp_all
      obtain ⟨n, hn, e⟩ := ih a hrest it hit
      exact ⟨n, by simp [Members.names, hn], e⟩

theorem headNot_append (k : List Nat) (a tail : List (Option (List Nat) × GVal))
    (ha : ∀ it ∈ a, it.1 ≠ some k) (ht : headNot k tail) : headNot k (a ++ tail) := by
  cases a with
  | nil => exact ht
  | cons it a' =>
    obtain ⟨nm, g⟩ := it
    have := ha (nm, g) (List.mem_cons_self ..)
    cases nm with
    | none => trivial
    | some k' =>
      simp only [List.cons_append, headNot]
      intro e
      exact this (by rw [e])

/-- the selection of the next component in `membersOfG` fails when the head does not carry the name -/
theorem select_none (k : List Nat) (its : List (Option (List Nat) × GVal)) (h : headNot k its) :
    selectNamed k its = none := by
  unfold selectNamed
  cases its with
  | nil => rfl
  | cons it r =>
    obtain ⟨nm, g⟩ := it
    cases nm with
    | none => rfl
    | some k' =>
      simp only [headNot] at h
      have : (k' == k) = false := beq_eq_false_iff_ne.mpr h
      simp only [this, Bool.false_eq_true, if_false]

theorem wfItems_append (a b : List (Option (List Nat) × GVal)) (ha : wfItems a = true) (hb : wfItems b = true) :
    wfItems (a ++ b) = true := by
  induction a with
  | nil => exact hb
  | cons x r ih =>
    obtain ⟨nm, v⟩ := x
    simp only [wfItems, Bool.and_eq_true] at ha
    simp only [List.cons_append, wfItems, ha.1.1, ha.1.2, ih ha.2, Bool.and_self]

theorem membersOfG_walk (fs : List (String × Val)) :
    ∀ ms : Members, MembersAll RT ms → ms.wf = true → membersIdsOk ms = true → membersOk ms fs = true →
      ms.names.Nodup →
      ∀ (a tail : List (Option (List Nat) × GVal)), membersToG ms fs = .ok a →
        (∀ n ∈ ms.names, headNot (strCps n) tail) →
        membersOfG ms (a ++ tail) = some (canonGMembers ms fs, tail) ∧ wfItems a = true := by
  intro ms
  induction ms using Members.ind with
  | nil =>
    intro _ _ _ _ _ a tail h _
    simp only [membersToG, Except.ok.injEq] at h
    subst h
    exact ⟨rfl, rfl⟩
  | cons name p t rest ih =>
    intro hall hwf hid hok hnd a tail h htail
    obtain ⟨hrt, hall'⟩ := hall
    simp only [Members.wf, Bool.and_eq_true] at hwf
    simp only [membersIdsOk, Bool.and_eq_true] at hid
    simp only [membersOk, Bool.and_eq_true] at hok
    simp only [Members.names, List.nodup_cons] at hnd
    have htail' : ∀ n ∈ rest.names, headNot (strCps n) tail :=
      fun n hn => htail n (by simp [Members.names, hn])
    simp only [membersToG] at h
    cases hl : lookup name fs with
    | some v =>
      simp only [hl] at h hok
      cases hj : toG t v with
      | error e => simp [hj] at h
      | ok g =>
        simp only [hj] at h
        cases hr : membersToG rest fs with
        | error e => simp [hr] at h
        | ok gs =>
          simp only [hr, Except.ok.injEq] at h
          subst h
          obtain ⟨h1, h2⟩ := hrt v g hwf.1 hid.1.2 hok.1 hj
          obtain ⟨h3, h4⟩ := ih hall' hwf.2 hid.2 hok.2 hnd.2 gs tail hr htail'
          refine ⟨?_, by simp only [wfItems, nameOk, hid.1.1, h2, h4, Bool.and_self]⟩
          simp only [List.cons_append, membersOfG, selectNamed, beq_self_eq_true, if_true, h1, h3, canonGMembers, hl]
    | none =>
      simp only [hl] at h hok
      have hrest : membersToG rest fs = .ok a := by cases p <;> simp_all
      obtain ⟨h3, h4⟩ := ih hall' hwf.2 hid.2 hok.2 hnd.2 a tail hrest htail'
      refine ⟨?_, h4⟩
      have hhead : headNot (strCps name) (a ++ tail) := by
        apply headNot_append _ _ _ _ (htail name (by simp [Members.names]))
        intro it hit e
        obtain ⟨n, hn, e'⟩ := membersToG_names fs rest a hrest it hit
        rw [e'] at e
        simp only [Option.some.injEq] at e
        exact hnd.1 (strCps_inj e ▸ hn)
      have hsel := select_none (strCps name) (a ++ tail) hhead
      simp only [membersOfG, canonGMembers, hl]
      rw [hsel]
      cases p with
      | mandatory => simp at hok
      | optional => simp only [h3]
      | default d => simp only [h3]

theorem rt_sequence (root : Members) (ext : Bool) (adds : Members)
    (ihr : MembersAll RT root) (iha : MembersAll RT adds) : RT (.sequence root ext adds) := by
  intro v g hwf hid ht he
  cases v <;> try (simp only [hasType, Bool.false_eq_true] at ht)
  rename_i fs
  simp only [Ty.wf, Bool.and_eq_true, List.nodup_append, decide_eq_true_eq] at hwf
  obtain ⟨⟨⟨⟨hwr, hwa⟩, hnd⟩, _⟩, _⟩ := hwf
  simp only [idsOk, Bool.and_eq_true] at hid
  have hnd' : (root.names ++ adds.names).Nodup := by
    rw [List.nodup_append]; exact hnd
  obtain ⟨hok1, hok2⟩ := membersOk_of_hasType root adds ext fs hnd' ht
  obtain ⟨nd1, nd2, disj⟩ := hnd
  simp only [toG] at he
  cases h1 : membersToG root fs with
  | error e => simp [h1] at he
  | ok a =>
    simp only [h1] at he
    cases h2 : membersToG adds fs with
    | error e => simp [h2] at he
    | ok b =>
      simp only [h2, Except.ok.injEq] at he
      subst he
      have tailb : ∀ n ∈ root.names, headNot (strCps n) b := by
        intro n hn
        have := headNot_append (strCps n) b [] (by
          intro it hit e
          obtain ⟨m, hm, e'⟩ := membersToG_names fs adds b h2 it hit
          rw [e'] at e
          simp only [Option.some.injEq] at e
          exact disj n hn m hm (strCps_inj e).symm) trivial
        rwa [List.append_nil] at this
      obtain ⟨r1, w1⟩ := membersOfG_walk fs root ihr hwr hid.1 hok1 nd1 a b h1 tailb
      obtain ⟨r2, w2⟩ := membersOfG_walk fs adds iha hwa hid.2 hok2 nd2 b [] h2 (fun _ _ => trivial)
      rw [List.append_nil] at r2
      refine ⟨?_, by rw [wfG]; exact wfItems_append a b w1 w2⟩
      simp only [toVal, r1, r2, List.isEmpty_nil, if_true, canonG]

/-! ### CHOICE -/

theorem altToG_mem (n : String) (v : Val) : ∀ as : Alts, (altToG as n v).isSome = true → n ∈ as.names := by
  intro as
  induction as using Alts.ind with
  | nil => intro h; simp [altToG] at h
  | cons m t rest ih =>
    intro h
    simp only [altToG] at h
    by_cases hm : m = n
    · simp [Alts.names, hm]
    · have : (m == n) = false := beq_eq_false_iff_ne.mpr hm
      simp only [this, Bool.false_eq_true, if_false] at h
      simp [Alts.names, ih h]

theorem alts_none (n : String) (v : Val) : ∀ as : Alts, altToG as n v = none →
    (∀ x, altOfG as (strCps n) x = none) ∧ canonGAlt as n v = none ∧ hasAlt as n v = false := by
  intro as
  induction as using Alts.ind with
  | nil => intro _; exact ⟨fun _ => rfl, rfl, rfl⟩
  | cons m t rest ih =>
    intro h
    simp only [altToG] at h
    by_cases hm : m = n
    · subst hm; simp at h
    · have hb : (m == n) = false := beq_eq_false_iff_ne.mpr hm
      simp only [hb, Bool.false_eq_true, if_false] at h
      obtain ⟨h1, h2, h3⟩ := ih h
      refine ⟨fun x => ?_, ?_, ?_⟩
      · simp only [altOfG, strCps_beq, hb, Bool.false_eq_true, if_false]; exact h1 x
      · simp only [canonGAlt, hb, Bool.false_eq_true, if_false]; exact h2
      · simp only [hasAlt, hb, Bool.false_eq_true, if_false]; exact h3

theorem alts_some (n : String) (v : Val) : ∀ as : Alts, AltsAll RT as → as.wf = true → altsIdsOk as = true →
    ∀ G, altToG as n v = some (.ok G) → hasAlt as n v = true →
      ∃ g w, G = .choice (strCps n) g ∧ wfG g = true ∧ isIdent (strCps n) = true ∧ canonGAlt as n v = some w ∧
        altOfG as (strCps n) g = some (some (.choice n w)) := by
  intro as
  induction as using Alts.ind with
  | nil => intro _ _ _ G h; simp [altToG] at h
  | cons m t rest ih =>
    intro hall hwf hid G h ht
    obtain ⟨hrt, hall'⟩ := hall
    simp only [Alts.wf, Bool.and_eq_true] at hwf
    simp only [altsIdsOk, Bool.and_eq_true] at hid
    simp only [altToG] at h
    simp only [hasAlt] at ht
    by_cases hm : m = n
    · subst hm
      simp only [beq_self_eq_true, if_true, Option.some.injEq] at h ht
      cases hj : toG t v with
      | error e => simp [hj] at h
      | ok g =>
        simp only [hj, Except.ok.injEq] at h
        subst h
        obtain ⟨h1, h2⟩ := hrt v g hwf.1 hid.1.2 ht hj
        refine ⟨g, canonG t v, rfl, h2, hid.1.1, by simp [canonGAlt], ?_⟩
        simp [altOfG, h1]
    · have hb : (m == n) = false := beq_eq_false_iff_ne.mpr hm
      simp only [hb, Bool.false_eq_true, if_false] at h ht
      obtain ⟨g, w, e1, e2, e3, e4, e5⟩ := ih hall' hwf.2 hid.2 G h ht
      refine ⟨g, w, e1, e2, e3, ?_, ?_⟩
      · simp only [canonGAlt, hb, Bool.false_eq_true, if_false]; exact e4
      · simp only [altOfG, strCps_beq, hb, Bool.false_eq_true, if_false]; exact e5

theorem rt_choice (root : Alts) (ext : Bool) (adds : Alts)
    (ihr : AltsAll RT root) (iha : AltsAll RT adds) : RT (.choice root ext adds) := by
  intro v G hwf hid ht he
  cases v <;> try (simp only [hasType, Bool.false_eq_true] at ht)
  rename_i n v
  simp only [Ty.wf, Bool.and_eq_true, List.nodup_append, decide_eq_true_eq] at hwf
  obtain ⟨⟨⟨⟨hwr, hwa⟩, _⟩, ⟨_, _, disj⟩⟩, _⟩ := hwf
  simp only [idsOk, Bool.and_eq_true] at hid
  simp only [Bool.or_eq_true] at ht
  simp only [toG] at he
  cases h1 : altToG root n v with
  | some r =>
    simp only [h1] at he
    subst he
    have hmem : n ∈ root.names := altToG_mem n v root (by simp [h1])
    have hta : hasAlt adds n v = false :=
      hasAlt_false_of_not_mem n v adds (fun hm => disj n hmem n hm rfl)
    have htr : hasAlt root n v = true := by
      rcases ht with ht | ht
      · exact ht
      · rw [hta] at ht; cases ht
    obtain ⟨g, w, e1, e2, e3, e4, e5⟩ := alts_some n v root ihr hwr hid.1 G h1 htr
    subst e1
    refine ⟨?_, by simp [wfG, e2, e3]⟩
    simp [toVal, e5, canonG, e4]
  | none =>
    simp only [h1] at he
    obtain ⟨n1, n2, n3⟩ := alts_none n v root h1
    cases h2 : altToG adds n v with
    | none => simp [h2] at he
    | some r =>
      simp only [h2] at he
      subst he
      have hta : hasAlt adds n v = true := by
        rcases ht with ht | ht
        · rw [n3] at ht; cases ht
        · exact ht
      obtain ⟨g, w, e1, e2, e3, e4, e5⟩ := alts_some n v adds iha hwa hid.2 G h2 hta
      subst e1
      refine ⟨?_, by simp [wfG, e2, e3]⟩
      simp [toVal, n1, e5, canonG, n2, e4]

/-! ### all types -/

theorem rt_all (t : Ty) : RT t :=
  Ty.rec (motive_1 := RT) (motive_2 := MembersAll RT) (motive_3 := AltsAll RT)
    rt_boolean rt_null rt_integer rt_enumerated rt_octetString rt_bitString rt_charString
    (fun root ext adds ihr iha => rt_sequence root ext adds ihr iha)
    (fun e c ih => rt_sequenceOf e c ih)
    (fun root ext adds ihr iha => rt_choice root ext adds ihr iha)
    trivial (fun _ _ _ _ iht ihr => ⟨iht, ihr⟩)
    trivial (fun _ _ _ iht ihr => ⟨iht, ihr⟩) t

/-! ### the writer is total on well-typed values -/

def ET (t : Ty) : Prop := ∀ v : Val, t.wf = true → hasType t v = true → ∃ g, toG t v = .ok g

theorem et_boolean : ET .boolean := by
  intro v _ ht; cases v <;> simp [hasType] at ht; exact ⟨_, rfl⟩
theorem et_null : ET .null := by
  intro v _ ht; cases v <;> simp [hasType] at ht; exact ⟨_, rfl⟩
theorem et_integer (c : IntC) : ET (.integer c) := by
  intro v _ ht; cases v <;> simp [hasType] at ht; exact ⟨_, rfl⟩
theorem et_octetString (c : SizeC) : ET (.octetString c) := by
  intro v _ ht; cases v <;> simp [hasType] at ht; exact ⟨_, rfl⟩
theorem et_charString (k : StrKind) (c : SizeC) : ET (.charString k c) := by
  intro v _ ht; cases v <;> simp only [hasType, Bool.false_eq_true] at ht; exact ⟨_, rfl⟩
theorem et_bitString (c : SizeC) : ET (.bitString c) := by
  intro v _ ht; cases v <;> simp [hasType] at ht; exact ⟨_, rfl⟩
theorem et_enumerated (root : List (String × Int)) (ext : Option (List (String × Int))) :
    ET (.enumerated root ext) := by
  intro v _ ht; cases v <;> simp only [hasType, Bool.false_eq_true] at ht
  rename_i n
  have : (enumNames root ext).contains n = true := by
    simp only [Bool.or_eq_true, List.contains_iff_mem, namesOf] at ht
    simp only [enumNames, List.contains_iff_mem, List.mem_append]
    rcases ht with ht | ht
    · exact Or.inl ht
    · cases ext with
      | none => simp at ht
      | some a => exact Or.inr (by simpa using ht)
  simp only [toG, this, if_true]
  exact ⟨_, rfl⟩

theorem et_sequenceOf (e : Ty) (c : SizeC) (ih : ET e) : ET (.sequenceOf e c) := by
  intro v hwf ht
  cases v <;> simp only [hasType, Bool.false_eq_true] at ht
  rename_i vs
  simp only [Ty.wf, Bool.and_eq_true] at hwf
  simp only [Bool.and_eq_true, List.all_eq_true] at ht
  have : ∃ gs, vs.mapM (toG e) = .ok gs := by
    have hall := ht.1
    clear ht
    induction vs with
    | nil => exact ⟨[], mapM_nil' _⟩
    | cons v vs ihl =>
      obtain ⟨j, hj⟩ := ih v hwf.1 (hall v (List.mem_cons_self ..))
      obtain ⟨js, hjs⟩ := ihl (fun x hx => hall x (List.mem_cons_of_mem _ hx))
      exact ⟨j :: js, by rw [mapM_cons', hj, hjs]⟩
  obtain ⟨gs, hgs⟩ := this
  exact ⟨.braces (gs.map fun g => (none, g)), by simp only [toG, hgs]⟩

theorem membersToG_total (fs : List (String × Val)) :
    ∀ ms : Members, MembersAll ET ms → ms.wf = true → membersOk ms fs = true →
      ∃ a, membersToG ms fs = .ok a := by
  intro ms
  induction ms using Members.ind with
  | nil => intro _ _ _; exact ⟨[], rfl⟩
  | cons name p t rest ih =>
    intro hall hwf hok
    obtain ⟨het, hall'⟩ := hall
    simp only [Members.wf, Bool.and_eq_true] at hwf
    simp only [membersOk, Bool.and_eq_true] at hok
    obtain ⟨a, ha⟩ := ih hall' hwf.2 hok.2
    simp only [membersToG]
    cases hl : lookup name fs with
    | some v =>
      simp only [hl] at hok
      obtain ⟨j, hj⟩ := het v hwf.1 hok.1
      exact ⟨(some (strCps name), j) :: a, by simp only [hj, ha]⟩
    | none =>
      simp only [hl] at hok
      cases p with
      | mandatory => simp at hok
      | optional => exact ⟨a, ha⟩
      | default d => exact ⟨a, ha⟩

theorem et_sequence (root : Members) (ext : Bool) (adds : Members)
    (ihr : MembersAll ET root) (iha : MembersAll ET adds) : ET (.sequence root ext adds) := by
  intro v hwf ht
  cases v <;> try (simp only [hasType, Bool.false_eq_true] at ht)
  rename_i fs
  simp only [Ty.wf, Bool.and_eq_true, decide_eq_true_eq] at hwf
  obtain ⟨⟨⟨⟨hwr, hwa⟩, hnd⟩, _⟩, _⟩ := hwf
  obtain ⟨hok1, hok2⟩ := membersOk_of_hasType root adds ext fs hnd ht
  obtain ⟨a, ha⟩ := membersToG_total fs root ihr hwr hok1
  obtain ⟨b, hb⟩ := membersToG_total fs adds iha hwa hok2
  exact ⟨.braces (a ++ b), by simp only [toG, ha, hb]⟩

theorem altToG_total (n : String) (v : Val) : ∀ as : Alts, AltsAll ET as → as.wf = true →
    hasAlt as n v = true → ∃ G, altToG as n v = some (.ok G) := by
  intro as
  induction as using Alts.ind with
  | nil => intro _ _ h; simp [hasAlt] at h
  | cons m t rest ih =>
    intro hall hwf h
    obtain ⟨het, hall'⟩ := hall
    simp only [Alts.wf, Bool.and_eq_true] at hwf
    simp only [hasAlt] at h
    simp only [altToG]
    by_cases hm : m = n
    · subst hm
      simp only [beq_self_eq_true, if_true] at h ⊢
      obtain ⟨j, hj⟩ := het v hwf.1 h
      exact ⟨.choice (strCps m) j, by simp only [hj]⟩
    · have hb : (m == n) = false := beq_eq_false_iff_ne.mpr hm
      simp only [hb, Bool.false_eq_true, if_false] at h ⊢
      exact ih hall' hwf.2 h

theorem et_choice (root : Alts) (ext : Bool) (adds : Alts)
    (ihr : AltsAll ET root) (iha : AltsAll ET adds) : ET (.choice root ext adds) := by
  intro v hwf ht
  cases v <;> try (simp only [hasType, Bool.false_eq_true] at ht)
  rename_i n v
  simp only [Ty.wf, Bool.and_eq_true, List.nodup_append, decide_eq_true_eq] at hwf
  obtain ⟨⟨⟨⟨hwr, hwa⟩, _⟩, ⟨_, _, disj⟩⟩, _⟩ := hwf
  simp only [Bool.or_eq_true] at ht
  simp only [toG]
  cases h1 : altToG root n v with
  | some r =>
    have hmem : n ∈ root.names := altToG_mem n v root (by simp [h1])
    have hta : hasAlt adds n v = false :=
      hasAlt_false_of_not_mem n v adds (fun hm => disj n hmem n hm rfl)
    have htr : hasAlt root n v = true := by
      rcases ht with ht | ht
      · exact ht
      · rw [hta] at ht; cases ht
    obtain ⟨J, hJ⟩ := altToG_total n v root ihr hwr htr
    rw [h1] at hJ
    cases hJ
    exact ⟨J, rfl⟩
  | none =>
    obtain ⟨_, _, n3⟩ := alts_none n v root h1
    have hta : hasAlt adds n v = true := by
      rcases ht with ht | ht
      · rw [n3] at ht; cases ht
      · exact ht
    obtain ⟨J, hJ⟩ := altToG_total n v adds iha hwa hta
    exact ⟨J, by simp only [hJ]⟩

theorem et_all (t : Ty) : ET t :=
  Ty.rec (motive_1 := ET) (motive_2 := MembersAll ET) (motive_3 := AltsAll ET)
    et_boolean et_null et_integer et_enumerated et_octetString et_bitString et_charString
    (fun root ext adds ihr iha => et_sequence root ext adds ihr iha)
    (fun e c ih => et_sequenceOf e c ih)
    (fun root ext adds ihr iha => et_choice root ext adds ihr iha)
    trivial (fun _ _ _ _ iht ihr => ⟨iht, ihr⟩)
    trivial (fun _ _ _ iht ihr => ⟨iht, ihr⟩) t

end Asn1.Gser
