import Asn1Proofs.Lemmas.PrepExt
/-
  Lemmas about pass 3 of the dictionary rewrite (`pre_process_tags`): the pass is idempotent
  (automatic tagging is skipped as soon as one member carries a tag, and after the first run every
  member carries one), and it commutes with the EXTENSIBILITY IMPLIED pass.
-/
namespace Asn1.SpecDict

/-! ### attrs level -/

@[simp] theorem numAttrs_none (a : Attrs) : numAttrs none a = a := rfl

@[simp] theorem numAttrs_core (k : Option Nat) (a : Attrs) : (numAttrs k a).core = a.core := by
  obtain ⟨ty, nm, tg, op, df, vs, nb, ex⟩ := a
  cases k with
  | none => rfl
  | some n => cases tg <;> rfl

@[simp] theorem kindAttrs_core (sk : Skel) (mt mn : String) (a : Attrs) :
    (kindAttrs sk mt mn a).core = a.core := by
  obtain ⟨ty, nm, tg, op, df, vs, nb, ex⟩ := a
  cases tg with
  | none => rfl
  | some t => obtain ⟨num, c, k⟩ := t; cases k <;> rfl

@[simp] theorem numAttrs_default (k : Option Nat) (a : Attrs) : (numAttrs k a).default = a.default := by
  obtain ⟨ty, nm, tg, op, df, vs, nb, ex⟩ := a
  cases k with
  | none => rfl
  | some n => cases tg <;> rfl

@[simp] theorem kindAttrs_default (sk : Skel) (mt mn : String) (a : Attrs) :
    (kindAttrs sk mt mn a).default = a.default := by
  obtain ⟨ty, nm, tg, op, df, vs, nb, ex⟩ := a
  cases tg with
  | none => rfl
  | some t => obtain ⟨num, c, k⟩ := t; cases k <;> rfl

@[simp] theorem numAttrs_type (k : Option Nat) (a : Attrs) : (numAttrs k a).type = a.type :=
  congrArg Core.type (numAttrs_core k a)

@[simp] theorem kindAttrs_type (sk : Skel) (mt mn : String) (a : Attrs) :
    (kindAttrs sk mt mn a).type = a.type :=
  congrArg Core.type (kindAttrs_core sk mt mn a)

theorem kindAttrs_idem (sk : Skel) (mt mn : String) (a : Attrs) :
    kindAttrs sk mt mn (kindAttrs sk mt mn a) = kindAttrs sk mt mn a := by
  obtain ⟨ty, nm, tg, op, df, vs, nb, ex⟩ := a
  cases tg with
  | none => rfl
  | some t => obtain ⟨num, c, k⟩ := t; cases k <;> rfl

theorem numAttrs_tag_isSome (n : Nat) (a : Attrs) : (numAttrs (some n) a).tag.isSome = true := by
  obtain ⟨ty, nm, tg, op, df, vs, nb, ex⟩ := a
  cases tg <;> rfl

@[simp] theorem kindAttrs_tag_isSome (sk : Skel) (mt mn : String) (a : Attrs) :
    (kindAttrs sk mt mn a).tag.isSome = a.tag.isSome := by
  obtain ⟨ty, nm, tg, op, df, vs, nb, ex⟩ := a
  cases tg with
  | none => rfl
  | some t => obtain ⟨num, c, k⟩ := t; cases k <;> rfl

@[simp] theorem bumpBy_none (n : Nat) : bumpBy none n = none := rfl
@[simp] theorem bumpBy_zero (k : Option Nat) : bumpBy k 0 = k := by cases k <;> rfl

/-! ### the pass on descriptors -/

section
variable (sk : Skel) (mt mn : String)

@[simp] theorem tagDesc_attrs (k : Option Nat) (d : Desc) :
    (tagDesc sk mt mn k d).attrs = kindAttrs sk mt mn (numAttrs k d.attrs) := by
  cases d; simp [tagDesc, Desc.attrs]

@[simp] theorem tagDescs_length (k : Option Nat) (g : List Desc) :
    (tagDescs sk mt mn k g).length = g.length := by
  induction g generalizing k with
  | nil => simp [tagDescs]
  | cons d t ih => simp [tagDescs, ih]

theorem anyTaggedDescs_tagDescs_none (g : List Desc) :
    anyTaggedDescs (tagDescs sk mt mn none g) = anyTaggedDescs g := by
  induction g with
  | nil => simp [tagDescs]
  | cons d t ih => simp [tagDescs, anyTaggedDescs, ih]

theorem anyTagged_tagItems_none (l : List Item) :
    anyTagged (tagItems sk mt mn none l) = anyTagged l := by
  induction l with
  | nil => simp [tagItems]
  | cons i t ih =>
    cases i <;> simp [tagItems, anyTagged, ih, anyTaggedDescs_tagDescs_none]

theorem tagDescs_some_untagged (k : Nat) (g : List Desc)
    (h : anyTaggedDescs (tagDescs sk mt mn (some k) g) = false) : g = [] := by
  cases g with
  | nil => rfl
  | cons d t => simp [tagDescs, anyTaggedDescs, numAttrs_tag_isSome] at h

/-- After automatic tagging every member carries a tag; if none does, there was no member, and
tagging again changes nothing. -/
theorem tagItems_some_fix (j k : Nat) (l : List Item)
    (h : anyTagged (tagItems sk mt mn (some k) l) = false) :
    tagItems sk mt mn (some j) (tagItems sk mt mn (some k) l) = tagItems sk mt mn (some k) l := by
  induction l generalizing j k with
  | nil => simp [tagItems]
  | cons i t ih =>
    cases i with
    | marker =>
      simp only [tagItems, anyTagged] at h ⊢
      rw [ih j k h]
    | compOf r =>
      simp only [tagItems, anyTagged] at h ⊢
      rw [ih j k h]
    | group g =>
      simp only [tagItems, anyTagged, Bool.or_eq_false_iff] at h
      have hg := tagDescs_some_untagged sk mt mn k g h.1
      subst hg
      have h2 := h.2
      simp only [List.length_nil, bumpBy_zero] at h2
      simp only [tagItems, tagDescs, List.length_nil, bumpBy_zero]
      rw [ih j k h2]
    | desc d =>
      simp [tagItems, anyTagged, numAttrs_tag_isSome] at h

mutual
  theorem tagDesc_none_tagDesc (k : Option Nat) (d : Desc) :
      tagDesc sk mt mn none (tagDesc sk mt mn k d) = tagDesc sk mt mn k d := by
    cases d with
    | mk a b =>
      simp only [tagDesc, numAttrs_none]
      rw [tagBody_idem b, kindAttrs_idem]
  theorem tagBody_idem (b : Body) :
      tagBody sk mt mn (tagBody sk mt mn b) = tagBody sk mt mn b := by
    cases b with
    | leaf => simp [tagBody]
    | element e => simp only [tagBody]; rw [tagDesc_none_tagDesc none e]
    | members ms =>
      simp only [tagBody]
      congr 1
      by_cases hc : mt = "AUTOMATIC" ∧ anyTagged ms = false
      · rw [if_pos hc]
        by_cases h2 : anyTagged (tagItems sk mt mn (some 0) ms) = false
        · rw [if_pos ⟨hc.1, h2⟩]
          exact tagItems_some_fix sk mt mn 0 0 ms h2
        · rw [if_neg (fun h => h2 h.2)]
          exact tagItems_none_tagItems (some 0) ms
      · rw [if_neg hc, anyTagged_tagItems_none, if_neg hc]
        exact tagItems_none_tagItems none ms
  theorem tagItems_none_tagItems (k : Option Nat) (l : List Item) :
      tagItems sk mt mn none (tagItems sk mt mn k l) = tagItems sk mt mn k l := by
    cases l with
    | nil => simp [tagItems]
    | cons i t =>
      cases i with
      | marker => simp only [tagItems]; rw [tagItems_none_tagItems k t]
      | compOf r => simp only [tagItems]; rw [tagItems_none_tagItems k t]
      | group g =>
        simp only [tagItems, bumpBy_none]
        rw [tagDescs_none_tagDescs k g, tagItems_none_tagItems _ t]
      | desc d =>
        simp only [tagItems, bumpBy_none]
        rw [tagDesc_none_tagDesc k d, tagItems_none_tagItems _ t]
  theorem tagDescs_none_tagDescs (k : Option Nat) (g : List Desc) :
      tagDescs sk mt mn none (tagDescs sk mt mn k g) = tagDescs sk mt mn k g := by
    cases g with
    | nil => simp [tagDescs]
    | cons d t =>
      simp only [tagDescs, bumpBy_none]
      rw [tagDesc_none_tagDesc k d, tagDescs_none_tagDescs _ t]
end

/-- `tags_idem` on a type assignment -/
theorem tagDesc_idem (d : Desc) :
    tagDesc sk mt mn none (tagDesc sk mt mn none d) = tagDesc sk mt mn none d :=
  tagDesc_none_tagDesc sk mt mn none d

/-! ### commutation with the EXTENSIBILITY IMPLIED pass -/

theorem anyTaggedDescs_extDescs (g : List Desc) : anyTaggedDescs (extDescs g) = anyTaggedDescs g := by
  induction g with
  | nil => simp [extDescs]
  | cons d t ih => simp [extDescs, anyTaggedDescs, ih]

theorem anyTagged_extItems (l : List Item) : anyTagged (extItems l) = anyTagged l := by
  induction l with
  | nil => simp [extItems]
  | cons i t ih => cases i <;> simp [extItems, extItem, anyTagged, ih, anyTaggedDescs_extDescs]

theorem anyTagged_append_marker (l : List Item) : anyTagged (l ++ [.marker]) = anyTagged l := by
  induction l with
  | nil => simp [anyTagged]
  | cons i t ih => cases i <;> simp [anyTagged, ih]

theorem anyTagged_addMarker (l : List Item) : anyTagged (addMarker l) = anyTagged l := by
  unfold addMarker; split
  · rfl
  · exact anyTagged_append_marker l

theorem hasMarker_tagItems (k : Option Nat) (l : List Item) :
    hasMarker (tagItems sk mt mn k l) = hasMarker l := by
  induction l generalizing k with
  | nil => simp [tagItems]
  | cons i t ih => cases i <;> simp [tagItems, hasMarker, ih]

theorem tagItems_append_marker (k : Option Nat) (l : List Item) :
    tagItems sk mt mn k (l ++ [.marker]) = tagItems sk mt mn k l ++ [.marker] := by
  induction l generalizing k with
  | nil => simp [tagItems]
  | cons i t ih => cases i <;> simp [tagItems, ih]

theorem tagItems_addMarker (k : Option Nat) (l : List Item) :
    tagItems sk mt mn k (addMarker l) = addMarker (tagItems sk mt mn k l) := by
  unfold addMarker
  rw [hasMarker_tagItems]
  split
  · rfl
  · exact tagItems_append_marker sk mt mn k l

@[simp] theorem extDescs_length (g : List Desc) : (extDescs g).length = g.length := by
  induction g with
  | nil => simp [extDescs]
  | cons d t ih => simp [extDescs, ih]

mutual
  theorem extDesc_tagDesc (k : Option Nat) (d : Desc) :
      extDesc (tagDesc sk mt mn k d) = tagDesc sk mt mn k (extDesc d) := by
    cases d with
    | mk a b => simp only [tagDesc, extDesc]; rw [extBody_tagBody b]
  theorem extBody_tagBody (b : Body) :
      extBody (tagBody sk mt mn b) = tagBody sk mt mn (extBody b) := by
    cases b with
    | leaf => simp [tagBody, extBody]
    | element e => simp only [tagBody, extBody]; rw [extDesc_tagDesc none e]
    | members ms =>
      simp only [tagBody, extBody]
      rw [extItems_tagItems _ ms, anyTagged_addMarker, anyTagged_extItems, tagItems_addMarker]
  theorem extItems_tagItems (k : Option Nat) (l : List Item) :
      extItems (tagItems sk mt mn k l) = tagItems sk mt mn k (extItems l) := by
    cases l with
    | nil => simp [tagItems, extItems]
    | cons i t =>
      cases i with
      | marker => simp only [tagItems, extItems, extItem]; rw [extItems_tagItems k t]
      | compOf r => simp only [tagItems, extItems, extItem]; rw [extItems_tagItems k t]
      | group g =>
        simp only [tagItems, extItems, extItem, extDescs_length]
        rw [extDescs_tagDescs k g, extItems_tagItems _ t]
      | desc d =>
        simp only [tagItems, extItems, extItem]
        rw [extDesc_tagDesc k d, extItems_tagItems _ t]
  theorem extDescs_tagDescs (k : Option Nat) (g : List Desc) :
      extDescs (tagDescs sk mt mn k g) = tagDescs sk mt mn k (extDescs g) := by
    cases g with
    | nil => simp [tagDescs, extDescs]
    | cons d t =>
      simp only [tagDescs, extDescs]
      rw [extDesc_tagDesc k d, extDescs_tagDescs _ t]
end

end

end Asn1.SpecDict
