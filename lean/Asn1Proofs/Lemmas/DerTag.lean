import Asn1Proofs.Lemmas.OerRoundtrip
import Asn1Proofs.Lemmas.BerFramingLemmas
import Asn1Model.Der
/-
  Identifier octets of the BER/DER model: `mkTag` (= `Ber.encTag`, long form from tag number 31 up),
  `matchTag`, `readTag`.  Injectivity / prefix-freeness of context tags, monotone length,
  `TAG_MISMATCH` on a later context tag, `read_tag` on complete identifier octets, byte range and
  `Ber.validTag`.
-/
namespace Asn1.Der
open Asn1.Oer (splitAux)

/-! ### `Ber.encTag` -/

theorem base128_eq_oer (f n : Nat) : Ber.base128 f n = Oer.base128 f n := by
  induction f generalizing n with
  | zero => rfl
  | succ f ih => simp only [Ber.base128, Oer.base128, ih]

theorem encTag_short_der (n flags : Nat) (h : n < 31) : Ber.encTag n flags = [flags + n] := by
  unfold Ber.encTag; rw [if_pos h]

/-- the long form of `Ber.encTag`, with the digit string split into leading digits and last digit -/
theorem encTag_long_der (n flags : Nat) (h : ¬ n < 31) :
    ∃ xs y, Ber.base128 (bitLength n + 1) n = xs ++ [y] ∧ (∀ x ∈ xs, x < 128) ∧ y < 128 ∧
      (xs ++ [y]).foldl (fun a d => a * 128 + d) 0 = n ∧
      Ber.encTag n flags = (flags + 31) :: (xs.map (· + 128) ++ [y]) := by
  obtain ⟨xs, y, hxy⟩ := Oer.base128_succ (bitLength n) n
  rw [← base128_eq_oer] at hxy
  have hlt := Ber.base128_lt (bitLength n + 1) n
  rw [hxy] at hlt
  have hval := Oer.base128_val (bitLength n + 1) n (Oer.lt_pow128 n)
  rw [← base128_eq_oer, hxy] at hval
  refine ⟨xs, y, hxy, fun x hx => hlt x (by simp [hx]), hlt y (by simp), hval, ?_⟩
  unfold Ber.encTag
  rw [if_neg h]
  simp only [hxy, List.dropLast_concat, List.getLast?_concat, Option.getD_some]

theorem encTag_length_der (n flags : Nat) :
    (Ber.encTag n flags).length =
      if n < 31 then 1 else 1 + (Ber.base128 (bitLength n + 1) n).length := by
  by_cases h : n < 31
  · rw [encTag_short_der n flags h, if_pos h]; rfl
  · obtain ⟨xs, y, hxy, _, _, _, he⟩ := encTag_long_der n flags h
    rw [he, if_neg h, hxy]
    simp only [List.length_cons, List.length_append, List.length_map, List.length_nil]
    omega

theorem encTag_ne_nil_der (n flags : Nat) : Ber.encTag n flags ≠ [] := by
  intro h
  have := encTag_length_der n flags
  rw [h] at this
  simp only [List.length_nil] at this
  split at this <;> omega

/-- number of base-128 digits is monotone (with sufficient fuel on both sides) -/
theorem base128_length_mono (f : Nat) : ∀ (f' n m : Nat), n ≤ m → n < 128 ^ f → m < 128 ^ f' →
    0 < f' → (Ber.base128 f n).length ≤ (Ber.base128 f' m).length := by
  induction f with
  | zero => intro f' n m _ _ _ _; simp [Ber.base128]
  | succ f ih =>
    intro f' n m hnm hn hm hf'
    cases f' with
    | zero => omega
    | succ f' =>
      unfold Ber.base128
      by_cases h1 : n < 128
      · rw [if_pos h1]
        by_cases h2 : m < 128
        · rw [if_pos h2]; exact Nat.le_refl _
        · rw [if_neg h2]; simp
      · have h2 : ¬ m < 128 := by omega
        rw [if_neg h1, if_neg h2]
        simp only [List.length_append, List.length_cons, List.length_nil]
        have hm' : m / 128 < 128 ^ f' := by rw [Nat.pow_succ] at hm; omega
        have hpos : 0 < f' := by
          cases f' with
          | zero => simp at hm'; omega
          | succ _ => omega
        have := ih f' (n / 128) (m / 128) (Nat.div_le_div_right hnm)
          (by rw [Nat.pow_succ] at hn; omega) hm' hpos
        omega

/-! ### reading continuation octets -/

/-- tag number carried by the continuation octets of a high-tag-number form: consumes octets up to
and including the first one below 128 -/
def tagRestVal : Bytes → Nat → Option (Nat × Bytes)
  | [], _ => none
  | b :: r, acc =>
    if b ≥ 128 then tagRestVal r (acc * 128 + b % 128) else some (acc * 128 + b, r)

theorem tagRestVal_body (xs : Bytes) (y : Nat) (rest : Bytes) (acc : Nat)
    (hxs : ∀ x ∈ xs, x < 128) (hy : y < 128) :
    tagRestVal (xs.map (· + 128) ++ [y] ++ rest) acc
      = some ((xs ++ [y]).foldl (fun a d => a * 128 + d) acc, rest) := by
  induction xs generalizing acc with
  | nil =>
    simp only [List.map_nil, List.nil_append, List.cons_append, tagRestVal, List.foldl_cons,
      List.foldl_nil]
    rw [if_neg (by omega)]
  | cons x r ih =>
    have hx := hxs x (by simp)
    simp only [List.map_cons, List.cons_append, tagRestVal, List.foldl_cons]
    rw [if_pos (by omega)]
    have : (x + 128) % 128 = x := by omega
    rw [this]
    exact ih _ (fun z hz => hxs z (by simp [hz]))

theorem tagRest_body (mid : Bytes) (last : Nat) (rest : Bytes)
    (hm : ∀ m ∈ mid, 128 ≤ m) (hl : last < 128) :
    tagRest (mid ++ [last] ++ rest) = some (mid ++ [last], rest) := by
  induction mid with
  | nil =>
    simp only [List.nil_append, List.cons_append, tagRest]
    rw [if_neg (by omega)]
  | cons m r ih =>
    have := hm m (by simp)
    have ih' := ih (fun z hz => hm z (by simp [hz]))
    simp only [List.cons_append, tagRest]
    rw [if_pos (by omega), ih']

/-- prefix-freeness of `Ber.encTag` for flags that leave the five tag-number bits alone -/
theorem encTag_prefix_free_der {fl fl' i j : Nat} {x y : Bytes}
    (hfl : fl % 32 = 0) (hfl' : fl' % 32 = 0)
    (h : Ber.encTag i fl ++ x = Ber.encTag j fl' ++ y) : i = j := by
  by_cases hi : i < 31
  · rw [encTag_short_der i fl hi] at h
    by_cases hj : j < 31
    · rw [encTag_short_der j fl' hj] at h
      simp only [List.cons_append, List.nil_append, List.cons.injEq] at h
      omega
    · obtain ⟨xs, y0, _, _, _, _, he⟩ := encTag_long_der j fl' hj
      rw [he] at h
      simp only [List.cons_append, List.nil_append, List.cons.injEq] at h
      omega
  · obtain ⟨xs, y0, _, hxs, hy0, hv, he⟩ := encTag_long_der i fl hi
    rw [he] at h
    by_cases hj : j < 31
    · rw [encTag_short_der j fl' hj] at h
      simp only [List.cons_append, List.nil_append, List.cons.injEq] at h
      omega
    · obtain ⟨xs', y0', _, hxs', hy0', hv', he'⟩ := encTag_long_der j fl' hj
      rw [he'] at h
      simp only [List.cons_append, List.cons.injEq] at h
      have h2 := congrArg (fun l => tagRestVal l 0) h.2
      simp only [tagRestVal_body xs y0 x 0 hxs hy0, tagRestVal_body xs' y0' y 0 hxs' hy0', hv, hv',
        Option.some.injEq, Prod.mk.injEq] at h2
      exact h2.1

/-! ### `mkTag` -/

theorem mkTag_some_der (u : Nat) (c : Bool) (i : Nat) :
    ∃ fl, (fl = 128 ∨ fl = 160) ∧ mkTag u c (some i) = Ber.encTag i fl := by
  cases c
  · exact ⟨128, Or.inl rfl, rfl⟩
  · exact ⟨160, Or.inr rfl, rfl⟩

theorem mkTag_none_der (u : Nat) (c : Bool) :
    ∃ fl, (fl = 0 ∨ fl = 32) ∧ mkTag u c none = Ber.encTag u fl := by
  cases c
  · exact ⟨0, Or.inl rfl, rfl⟩
  · exact ⟨32, Or.inr rfl, rfl⟩

theorem mkTag_ne_nil (u : Nat) (c : Bool) (tg : Option Nat) : mkTag u c tg ≠ [] := by
  cases tg with
  | none =>
    obtain ⟨fl, _, he⟩ := mkTag_none_der u c
    rw [he]; exact encTag_ne_nil_der _ _
  | some i =>
    obtain ⟨fl, _, he⟩ := mkTag_some_der u c i
    rw [he]; exact encTag_ne_nil_der _ _

/-- matching a tag against itself -/
theorem matchTag_self (tag r : Bytes) : matchTag tag (tag ++ r) = .ok (some r) := by
  unfold matchTag
  rw [Oer.splitAux_append]
  simp

/-- prefix-freeness: the identifier octets of `[i]` are not a prefix of anything starting with the
identifier octets of `[j]`, j ≠ i -/
theorem mkTag_ctx_prefix_free {u u' : Nat} {c c' : Bool} {i j : Nat} {x y : Bytes}
    (h : mkTag u c (some i) ++ x = mkTag u' c' (some j) ++ y) : i = j := by
  obtain ⟨fl, hfl, he⟩ := mkTag_some_der u c i
  obtain ⟨fl', hfl', he'⟩ := mkTag_some_der u' c' j
  rw [he, he'] at h
  exact encTag_prefix_free_der (by omega) (by omega) h

/-- context tags with different numbers are different, whatever the constructed bit -/
theorem mkTag_ctx_inj {u u' : Nat} {c c' : Bool} {i j : Nat}
    (h : mkTag u c (some i) = mkTag u' c' (some j)) : i = j :=
  mkTag_ctx_prefix_free (x := []) (y := []) (by rw [h])

/-- length of identifier octets is monotone in the tag number -/
theorem mkTag_ctx_length_mono {u u' : Nat} {c c' : Bool} {i j : Nat} (h : i ≤ j) :
    (mkTag u c (some i)).length ≤ (mkTag u' c' (some j)).length := by
  obtain ⟨fl, _, he⟩ := mkTag_some_der u c i
  obtain ⟨fl', _, he'⟩ := mkTag_some_der u' c' j
  rw [he, he', encTag_length_der, encTag_length_der]
  by_cases hj : j < 31
  · have hi : i < 31 := by omega
    rw [if_pos hi, if_pos hj]; exact Nat.le_refl _
  · rw [if_neg hj]
    by_cases hi : i < 31
    · rw [if_pos hi]; omega
    · rw [if_neg hi]
      have := base128_length_mono (bitLength i + 1) (bitLength j + 1) i j h
        (Oer.lt_pow128 i) (Oer.lt_pow128 j) (by omega)
      omega

/-- the shape used by the BER string decoder: cutting `tag.length` octets off an encoding that starts
with a later tag gives something that is not tag `[i]` in any form -/
theorem split_ctx_mismatch {u u' : Nat} {c c' : Bool} {i j : Nat} (r : Bytes) (h : i < j) :
    ∃ t r', splitAux (mkTag u c (some i)).length (mkTag u' c' (some j) ++ r) [] = some (t, r') ∧
      ∀ (u'' : Nat) (c'' : Bool), t ≠ mkTag u'' c'' (some i) := by
  have hlen := mkTag_ctx_length_mono (u := u) (u' := u') (c := c) (c' := c') (Nat.le_of_lt h)
  generalize mkTag u c (some i) = A at hlen
  generalize hB : mkTag u' c' (some j) = B at hlen
  have hk : (B.take A.length).length = A.length := by rw [List.length_take]; omega
  refine ⟨B.take A.length, B.drop A.length ++ r, ?_, ?_⟩
  · have := Oer.splitAux_append (B.take A.length) (B.drop A.length ++ r) []
    rw [hk, ← List.append_assoc, List.take_append_drop] at this
    simpa using this
  · intro u'' c'' ht
    have : mkTag u'' c'' (some i) ++ B.drop A.length = mkTag u' c' (some j) ++ [] := by
      rw [← ht, hB]; simp
    have := mkTag_ctx_prefix_free this
    omega

/-- `TAG_MISMATCH` (not an error) when the input starts with a later context tag -/
theorem matchTag_ctx_mismatch {u u' : Nat} {c c' : Bool} {i j : Nat} (r : Bytes) (h : i < j) :
    matchTag (mkTag u c (some i)) (mkTag u' c' (some j) ++ r) = .ok none := by
  obtain ⟨t, r', hs, hne⟩ := split_ctx_mismatch (u := u) (u' := u') (c := c) (c' := c') r h
  unfold matchTag
  rw [hs]
  have : (t == mkTag u c (some i)) = false := beq_eq_false_iff_ne.mpr (hne u c)
  simp [this]

/-! ### `readTag` -/

theorem readTag_encTag_der (n fl : Nat) (r : Bytes) (hfl : fl % 32 = 0) (hr : r ≠ []) :
    readTag (Ber.encTag n fl ++ r) = .ok (Ber.encTag n fl, r) := by
  have hre : r.isEmpty = false := by cases r with
    | nil => exact absurd rfl hr
    | cons _ _ => rfl
  by_cases h : n < 31
  · rw [encTag_short_der n fl h]
    simp only [readTag, List.cons_append, List.nil_append]
    rw [if_neg (by omega)]
    simp [hre]
  · obtain ⟨xs, y, _, hxs, hy, _, he⟩ := encTag_long_der n fl h
    rw [he]
    simp only [readTag, List.cons_append]
    rw [if_pos (by omega)]
    rw [tagRest_body (xs.map (· + 128)) y r (by
      intro m hm
      obtain ⟨a, _, rfl⟩ := List.mem_map.mp hm
      omega) hy]
    simp [hre]

/-- `read_tag` on complete identifier octets followed by at least one octet -/
theorem readTag_mkTag_ctx (u : Nat) (c : Bool) (i : Nat) (r : Bytes) (hr : r ≠ []) :
    readTag (mkTag u c (some i) ++ r) = .ok (mkTag u c (some i), r) := by
  obtain ⟨fl, hfl, he⟩ := mkTag_some_der u c i
  rw [he]
  exact readTag_encTag_der i fl r (by omega) hr

set_option linter.unusedVariables false in
theorem readTag_mkTag_univ (u : Nat) (c : Bool) (r : Bytes) (hu : u < 31) (hr : r ≠ []) :
    readTag (mkTag u c none ++ r) = .ok (mkTag u c none, r) := by
  obtain ⟨fl, hfl, he⟩ := mkTag_none_der u c
  rw [he]
  exact readTag_encTag_der u fl r (by omega) hr

/-! ### byte range, `Ber.validTag` -/

theorem encTag_validTag_der (n fl : Nat) (hfl : fl % 32 = 0) (hb : fl + 31 < 256) :
    Ber.validTag (Ber.encTag n fl) := by
  by_cases h : n < 31
  · rw [encTag_short_der n fl h]
    exact Or.inl ⟨fl + n, rfl, by omega, by omega⟩
  · obtain ⟨xs, y, _, hxs, hy, _, he⟩ := encTag_long_der n fl h
    rw [he]
    refine Or.inr ⟨fl + 31, xs.map (· + 128), y, rfl, hb, by omega, ?_, hy⟩
    intro m hm
    obtain ⟨a, ha, rfl⟩ := List.mem_map.mp hm
    have := hxs a ha
    omega

theorem validTag_lt_256_der {t : Bytes} (ht : Ber.validTag t) : ∀ b ∈ t, b < 256 := by
  rcases ht with ⟨b, rfl, hb, _⟩ | ⟨b, mid, last, rfl, hb, _, hm, hl⟩
  · intro x hx
    simp only [List.mem_singleton] at hx
    omega
  · intro x hx
    simp only [List.mem_cons, List.mem_append, List.not_mem_nil, or_false] at hx
    rcases hx with rfl | hx | rfl
    · exact hb
    · exact (hm x hx).2
    · omega

/-- the produced identifier octets are valid identifier octets in the sense of `Ber.validTag` -/
theorem mkTag_ctx_validTag (u : Nat) (c : Bool) (i : Nat) : Ber.validTag (mkTag u c (some i)) := by
  obtain ⟨fl, hfl, he⟩ := mkTag_some_der u c i
  rw [he]
  exact encTag_validTag_der i fl (by omega) (by omega)

set_option linter.unusedVariables false in
theorem mkTag_univ_validTag (u : Nat) (c : Bool) (hu : u < 31) : Ber.validTag (mkTag u c none) := by
  obtain ⟨fl, hfl, he⟩ := mkTag_none_der u c
  rw [he]
  exact encTag_validTag_der u fl (by omega) (by omega)

/-- every identifier octet produced is a byte -/
theorem mkTag_ctx_lt_256 (u : Nat) (c : Bool) (i : Nat) : ∀ b ∈ mkTag u c (some i), b < 256 :=
  validTag_lt_256_der (mkTag_ctx_validTag u c i)

theorem mkTag_univ_lt_256 (u : Nat) (c : Bool) (hu : u < 31) : ∀ b ∈ mkTag u c none, b < 256 :=
  validTag_lt_256_der (mkTag_univ_validTag u c hu)

end Asn1.Der

#print axioms Asn1.Der.mkTag_ctx_prefix_free
#print axioms Asn1.Der.split_ctx_mismatch
#print axioms Asn1.Der.readTag_mkTag_ctx
