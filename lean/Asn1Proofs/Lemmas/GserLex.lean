import Asn1Model.Gser
import Asn1Proofs.Lemmas.JsonLex
/-
  Lexical lemmas for the GSER writer / reader of Asn1Model/Gser.lean: words, strings, hstrings /
  bstrings, numbers, and what may follow a value.
-/
namespace Asn1.Gser
open Asn1.Json (isWs skipWs isDigit spanDigits digitsVal renderInt natDigits natDigits_spec spanDigits_append
  notDigitHead skipWs_of_not_ws skipWs_ws_append)
open Asn1.Jer (hexDigitU)

/-! ### what may follow a value -/

/-- what may follow a value in a text: nothing, or `,` / `}` possibly after white space -/
def okFollow (rest : List Nat) : Prop :=
  (match rest with
   | [] => True
   | c :: _ => c = 44 ∨ c = 125 ∨ isWs c = true) ∧
  (match skipWs rest with
   | [] => True
   | c :: _ => c = 44 ∨ c = 125)

theorem okFollow_nil : okFollow [] := ⟨trivial, trivial⟩

theorem okFollow_comma (r : List Nat) : okFollow (44 :: r) := by
  refine ⟨Or.inl rfl, ?_⟩
  rw [skipWs_of_not_ws 44 r (by decide)]
  exact Or.inl rfl

theorem okFollow_close (w r : List Nat) (hw : ∀ c ∈ w, isWs c = true) : okFollow (w ++ 125 :: r) := by
  refine ⟨?_, ?_⟩
  · cases w with
    | nil => exact Or.inr (Or.inl rfl)
    | cons x w => exact Or.inr (Or.inr (hw x (List.mem_cons_self ..)))
  · rw [skipWs_ws_append w _ hw, skipWs_of_not_ws 125 r (by decide)]
    exact Or.inr rfl

/-- the first character after a value is none of the given "token" characters -/
theorem okFollow_head {rest : List Nat} (h : okFollow rest) :
    match rest with
    | [] => True
    | c :: _ => c = 44 ∨ c = 125 ∨ c = 32 ∨ c = 9 ∨ c = 10 ∨ c = 13 := by
  cases rest with
  | nil => trivial
  | cons c r =>
    have := h.1
    simp only [isWs, Bool.or_eq_true, beq_iff_eq] at this
    simp only
    omega

/-! ### character classes -/

theorem isWordChar_cases {c : Nat} (h : isWordChar c = true) :
    (97 ≤ c ∧ c ≤ 122) ∨ (65 ≤ c ∧ c ≤ 90) ∨ (48 ≤ c ∧ c ≤ 57) ∨ c = 45 := by
  simp only [isWordChar, isLetter, isLower, isUpper, isDigit, Bool.or_eq_true, Bool.and_eq_true,
    decide_eq_true_eq, beq_iff_eq] at h
  omega

theorem isLetter_cases {c : Nat} (h : isLetter c = true) : (97 ≤ c ∧ c ≤ 122) ∨ (65 ≤ c ∧ c ≤ 90) := by
  simp only [isLetter, isLower, isUpper, Bool.or_eq_true, Bool.and_eq_true, decide_eq_true_eq] at h
  omega

theorem isLower_cases {c : Nat} (h : isLower c = true) : 97 ≤ c ∧ c ≤ 122 := by
  simp only [isLower, Bool.and_eq_true, decide_eq_true_eq] at h
  exact h

theorem isLetter_of_isLower {c : Nat} (h : isLower c = true) : isLetter c = true := by
  simp [isLetter, h]

theorem not_isWordChar_of (c : Nat) (h : c = 44 ∨ c = 125 ∨ c = 32 ∨ c = 9 ∨ c = 10 ∨ c = 13 ∨ c = 58) :
    isWordChar c = false := by
  rcases h with h | h | h | h | h | h | h <;> subst h <;> decide

/-- the list does not start with a letter, digit or hyphen -/
def notWordHead : List Nat → Prop
  | [] => True
  | c :: _ => isWordChar c = false

theorem okFollow_notWordHead {rest : List Nat} (h : okFollow rest) : notWordHead rest := by
  have := okFollow_head h
  cases rest with
  | nil => trivial
  | cons c r =>
    simp only at this
    exact not_isWordChar_of c (by omega)

theorem okFollow_notDigitHead {rest : List Nat} (h : okFollow rest) : notDigitHead rest := by
  have := okFollow_head h
  cases rest with
  | nil => trivial
  | cons c r =>
    simp only at this
    simp only [notDigitHead, isDigit]
    rcases this with h | h | h | h | h | h <;> subst h <;> decide

/-! ### words -/

theorem spanWord_append (w rest : List Nat) (hw : ∀ c ∈ w, isWordChar c = true) (hr : notWordHead rest) :
    spanWord (w ++ rest) = (w, rest) := by
  induction w with
  | nil =>
    cases rest with
    | nil => rfl
    | cons c r =>
      simp only [notWordHead] at hr
      simp only [List.nil_append, spanWord, hr]
      rfl
  | cons d w ih =>
    have hdd := hw d (List.mem_cons_self ..)
    simp only [List.cons_append, spanWord, hdd, if_true]
    rw [ih (fun c hc => hw c (List.mem_cons_of_mem _ hc))]

/-! ### character strings -/

theorem lexStrAux_render (cps rest : List Nat) (hr : match rest with | [] => True | c :: _ => c ≠ 34) :
    lexStrAux false (cps.flatMap quoteChar ++ 34 :: rest) = some (cps, rest) := by
  induction cps with
  | nil =>
    simp only [List.flatMap_nil, List.nil_append, lexStrAux, if_true]
    cases rest with
    | nil => rfl
    | cons d r =>
      simp only at hr
      simp only [lexStrAux, if_neg hr]
  | cons c cps ih =>
    by_cases hc : c = 34
    · subst hc
      have : ([34] : List Nat).flatMap quoteChar = [34, 34] := rfl
      rw [List.flatMap_cons]
      simp only [quoteChar, if_true, List.cons_append, List.nil_append, lexStrAux]
      rw [ih]
    · rw [List.flatMap_cons]
      simp only [quoteChar, if_neg hc, List.cons_append, List.nil_append]
      rw [lexStrAux, if_neg hc, ih]

theorem lexStr_render (cps rest : List Nat) (hr : match rest with | [] => True | c :: _ => c ≠ 34) :
    lexStr (cps.flatMap quoteChar ++ 34 :: rest) = some (cps, rest) :=
  lexStrAux_render cps rest hr

/-! ### hstrings and bstrings -/

theorem spanQuote_append (body r : List Nat) (hb : ∀ c ∈ body, c ≠ 39) :
    spanQuote (body ++ 39 :: r) = some (body, r) := by
  induction body with
  | nil => simp [spanQuote]
  | cons c body ih =>
    have hc := hb c (List.mem_cons_self ..)
    rw [List.cons_append, spanQuote, if_neg hc, ih (fun x hx => hb x (List.mem_cons_of_mem _ hx))]

theorem hexUp_hexDigitU (d : Nat) (h : d < 16) : hexUp (hexDigitU d) = some d := by
  unfold hexDigitU hexUp
  by_cases h10 : d < 10
  · rw [if_pos h10, if_pos (by omega)]; congr 1; omega
  · rw [if_neg h10, if_neg (by omega), if_pos (by omega)]; congr 1; omega

theorem hexDigitU_ne_39 (d : Nat) : hexDigitU d ≠ 39 := by
  unfold hexDigitU; split <;> omega

theorem mapOpt_hexUp (ds : List Nat) (h : ∀ d ∈ ds, d < 16) : mapOpt hexUp (ds.map hexDigitU) = some ds := by
  induction ds with
  | nil => rfl
  | cons d ds ih =>
    simp only [List.map_cons, mapOpt, hexUp_hexDigitU d (h d (List.mem_cons_self ..)),
      ih (fun x hx => h x (List.mem_cons_of_mem _ hx))]

theorem binDigit_bitChar (b : Bool) : binDigit (bitChar b) = some b := by
  cases b <;> rfl

theorem mapOpt_binDigit (bs : List Bool) : mapOpt binDigit (bs.map bitChar) = some bs := by
  induction bs with
  | nil => rfl
  | cons b bs ih => simp only [List.map_cons, mapOpt, binDigit_bitChar, ih]

theorem lexQuoted_hstr (ds : List Nat) (h : ∀ d ∈ ds, d < 16) (rest : List Nat) :
    lexQuoted (ds.map hexDigitU ++ 39 :: 72 :: rest) = some (.hstr ds, rest) := by
  unfold lexQuoted
  rw [spanQuote_append _ _ (by
    intro c hc
    simp only [List.mem_map] at hc
    obtain ⟨d, _, rfl⟩ := hc
    exact hexDigitU_ne_39 d)]
  simp only [if_true, mapOpt_hexUp ds h]

theorem lexQuoted_bstr (bs : List Bool) (rest : List Nat) :
    lexQuoted (bs.map bitChar ++ 39 :: 66 :: rest) = some (.bstr bs, rest) := by
  unfold lexQuoted
  rw [spanQuote_append _ _ (by
    intro c hc
    simp only [List.mem_map] at hc
    obtain ⟨b, _, rfl⟩ := hc
    cases b <;> decide)]
  simp only [show ¬ ((66 : Nat) = 72) by decide, if_false, if_true, mapOpt_binDigit bs]

/-! ### numbers -/

theorem lexNat_digits (neg : Bool) (ds rest : List Nat) (hd : ∀ c ∈ ds, isDigit c = true) (hne : ds ≠ [])
    (hz : ds.head? = some 48 → ds = [48]) (hneg : neg = true → digitsVal ds ≠ 0) (hr : notDigitHead rest) :
    lexNat neg (ds ++ rest) = some (Json.signed neg (digitsVal ds), rest) := by
  have hsp := spanDigits_append ds rest hd hr
  unfold lexNat
  rw [hsp]
  cases ds with
  | nil => exact absurd rfl hne
  | cons d ds' =>
    simp only
    by_cases h48 : d = 48
    · subst h48
      have := hz rfl
      simp only [List.cons.injEq, true_and] at this
      subst this
      have hv : digitsVal [48] = 0 := by simp [digitsVal]
      cases neg with
      | true => exact absurd hv (hneg rfl)
      | false => simp [hv, Json.signed]
    · rw [if_neg h48]

theorem lexNumber_renderInt (i : Int) (rest : List Nat) (hr : notDigitHead rest) :
    lexNumber (renderInt i ++ rest) = some (i, rest) := by
  unfold renderInt
  by_cases hneg : i < 0
  · rw [if_pos hneg]
    obtain ⟨h1, h2, h3, h4⟩ := natDigits_spec (-i).toNat
    rw [List.cons_append, lexNumber, if_pos rfl,
      lexNat_digits true _ rest h1 h2 h4 (by intro _; rw [h3]; omega) hr, h3]
    simp only [Json.signed, if_true]
    congr 2
    omega
  · rw [if_neg hneg]
    obtain ⟨h1, h2, h3, h4⟩ := natDigits_spec i.toNat
    have key := lexNat_digits false _ rest h1 h2 h4 (by intro h; cases h) hr
    cases hd : natDigits i.toNat with
    | nil => exact absurd hd h2
    | cons d ds' =>
      have hd45 : ¬ d = 45 := by
        have := h1 d (by rw [hd]; exact List.mem_cons_self ..)
        simp only [isDigit, Bool.and_eq_true, decide_eq_true_eq] at this
        omega
      rw [hd] at key h3
      rw [List.cons_append] at key ⊢
      rw [lexNumber, if_neg hd45, key, h3]
      simp only [Json.signed, Bool.false_eq_true, if_false]
      congr 2
      omega

end Asn1.Gser
