import Asn1Proofs.Lemmas.X696Seq
/-
  C06: the complete SEQUENCE and the induction over `Ty`:
  outside the deviation predicates the code model computes the specification.
-/
set_option linter.unusedSimpArgs false
namespace Asn1.X696
open Asn1.Uper (Err utf8Enc)

theorem all_isNone_iff (slots : List (Option Bytes)) :
    slots.all Option.isNone = (slots.filterMap id).isEmpty := by
  induction slots with
  | nil => rfl
  | cons a r ih => cases a <;> simp [ih]

theorem ref_sequence (root : Members) (ext : Bool) (adds : Members)
    (ihr : root.AllO REF) (iha : adds.AllO REF) : REF (.sequence root ext adds) := by
  intro v hwf ht hd
  cases v with
  | record fs =>
    simp only [Ty.wf, Bool.and_eq_true, decide_eq_true_eq] at hwf
    obtain ⟨⟨⟨⟨hwr, hwa⟩, hnd⟩, _⟩, _⟩ := hwf
    obtain ⟨hokr, hoka⟩ := membersOk_of_hasType root adds ext fs hnd ht
    rw [devs] at hd
    simp only [List.append_eq_nil_iff] at hd
    obtain ⟨⟨⟨⟨hdr, hda⟩, hdef⟩, _⟩, hsw⟩ := hd
    have hdef' : additionIsDefault adds fs = false := by
      cases h : additionIsDefault adds fs with
      | false => rfl
      | true => simp [h] at hdef
    have hfail : additionFails adds fs = false := by
      cases h : additionFails adds fs with
      | false => rfl
      | true =>
        have := anyPresent_of_fails fs adds hoka h
        simp [h, this] at hsw
    rw [Oer.enc, enc, preamble_eq, encRoot_eq fs root ihr hwr hokr hdr]
    cases hroot : encRoot root fs with
    | error e => rfl
    | ok body =>
      simp only
      cases ext with
      | false => rfl
      | true =>
        simp only [if_true]
        obtain ⟨slots, hs, ha, hlen⟩ := slots_eq fs adds iha hwa hoka hda hdef' hfail
        rw [hs]
        simp only
        cases adds with
        | nil =>
          simp only [Members.length, List.length_eq_zero_iff] at hlen
          subst hlen
          rfl
        | cons name p t rest =>
          simp only
          rw [ha]
          simp only [all_isNone_iff]
          cases hemp : (slots.filterMap id).isEmpty with
          | true => simp
          | false =>
            simp only [Bool.false_eq_true, if_false, List.length_map, hlen, Nat.sub_self,
              List.replicate_zero, List.nil_append]
            have hmap : (slots.filterMap id).mapM (fun e => do let l ← Oer.lenDet e.length; Except.ok (l ++ e))
                = (slots.filterMap id).mapM openType :=
              mapM_congr _ _ _ (fun x _ => by rw [openType_eq]; rfl)
            rw [hmap]
            have hpl : (packBits (slots.map Option.isSome)).length = ((Members.cons name p t rest).length + 7) / 8 := by
              rw [Asn1.packBits_length, List.length_map, hlen]
            simp only [encBitsVar, lengthDet_eq, hpl]
            rw [Nat.add_comm 1]
            have hu : 8 * (((Members.cons name p t rest).length + 7) / 8) - (Members.cons name p t rest).length
                = (8 - (Members.cons name p t rest).length % 8) % 8 := by omega
            rw [hu]
            cases Oer.lenDet (((Members.cons name p t rest).length + 7) / 8 + 1) <;>
              cases List.mapM openType (slots.filterMap id) <;> simp
  | _ => simp [hasType] at ht

theorem ref_all (t : Ty) : REF t :=
  Ty.rec (motive_1 := REF) (motive_2 := Members.AllO REF) (motive_3 := Alts.AllO REF)
    ref_boolean ref_null ref_integer ref_enumerated ref_octetString ref_bitString ref_charString
    (fun root ext adds ihr iha => ref_sequence root ext adds ihr iha)
    (fun e c ih => ref_sequenceOf e c ih)
    (fun root ext adds ihr iha => ref_choice root ext adds ihr iha)
    trivial (fun _ _ _ _ iht ihr => ⟨iht, ihr⟩)
    trivial (fun _ _ _ iht ihr => ⟨iht, ihr⟩) t

theorem eraseDups_eq_nil {α : Type} [BEq α] (l : List α) (h : l.eraseDups = []) : l = [] := by
  cases l with
  | nil => rfl
  | cons a r => rw [List.eraseDups_cons] at h; cases h

end Asn1.X696
