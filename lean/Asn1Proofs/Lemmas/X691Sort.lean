import Asn1Proofs.Lemmas.X691Leaf
/-
  13.1 "sorted into ascending order by their enumeration value": the declarative reading of
  `sortAsc` — the result is a permutation of the items and ascending by value.
-/
namespace Asn1.X691

theorem mem_insertAsc (x y : String × Int) (xs : List (String × Int)) :
    y ∈ insertAsc x xs ↔ y = x ∨ y ∈ xs := by
  induction xs with
  | nil => simp [insertAsc]
  | cons z r ih =>
    rw [insertAsc]
    split
    · simp
    · simp only [List.mem_cons, ih]
      constructor
      · rintro (h | h | h)
        · exact Or.inr (Or.inl h)
        · exact Or.inl h
        · exact Or.inr (Or.inr h)
      · rintro (h | h | h)
        · exact Or.inr (Or.inl h)
        · exact Or.inl h
        · exact Or.inr (Or.inr h)

theorem insertAsc_sorted (x : String × Int) (xs : List (String × Int))
    (h : xs.Pairwise (fun a b => a.2 ≤ b.2)) : (insertAsc x xs).Pairwise (fun a b => a.2 ≤ b.2) := by
  induction xs with
  | nil => simp [insertAsc]
  | cons z r ih =>
    rw [insertAsc]
    obtain ⟨hz, hr⟩ := List.pairwise_cons.mp h
    split
    · rename_i hlt
      refine List.pairwise_cons.mpr ⟨?_, h⟩
      intro a ha
      rcases List.mem_cons.mp ha with ha | ha
      · subst ha; omega
      · have := hz a ha; omega
    · rename_i hge
      refine List.pairwise_cons.mpr ⟨?_, ih hr⟩
      intro a ha
      rcases (mem_insertAsc x a r).mp ha with ha | ha
      · subst ha; omega
      · exact hz a ha

/-- the sorted root is ascending by enumeration value ... -/
theorem sortAsc_sorted (xs : List (String × Int)) : (sortAsc xs).Pairwise (fun a b => a.2 ≤ b.2) := by
  unfold sortAsc
  induction xs with
  | nil => simp
  | cons x r ih => rw [List.foldr_cons]; exact insertAsc_sorted x _ ih

/-- ... and a permutation of the declared items -/
theorem sortAsc_perm (xs : List (String × Int)) : (sortAsc xs).Perm xs := by
  rw [sortAsc_eq]; exact Uper.sortByVal_perm xs

end Asn1.X691
