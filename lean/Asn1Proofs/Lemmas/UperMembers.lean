import Asn1Model.Typing
/-
  Records: from the "fields in declaration order" typing (`hasMembers`) to per-member lookups.
-/
namespace Asn1

theorem Members.ind {motive : Members → Prop} (nil : motive .nil)
    (cons : ∀ name p t rest, motive rest → motive (.cons name p t rest)) : ∀ ms, motive ms
  | .nil => nil
  | .cons name p t rest => cons name p t rest (Members.ind nil cons rest)

theorem Alts.ind {motive : Alts → Prop} (nil : motive .nil)
    (cons : ∀ name t rest, motive rest → motive (.cons name t rest)) : ∀ ms, motive ms
  | .nil => nil
  | .cons name t rest => cons name t rest (Alts.ind nil cons rest)

theorem lookup_nil {α : Type} (name : String) : lookup name ([] : List (String × α)) = none := rfl

theorem lookup_cons {α : Type} (name n : String) (v : α) (r : List (String × α)) :
    lookup name ((n, v) :: r) = if n == name then some v else lookup name r := rfl

theorem lookup_none_of_not_mem (name : String) (fs : List (String × Val))
    (h : name ∉ fieldNames fs) : lookup name fs = none := by
  induction fs with
  | nil => rfl
  | cons x r ih =>
    obtain ⟨n, v⟩ := x
    simp only [fieldNames, List.map_cons, List.mem_cons, not_or] at h
    rw [lookup_cons]
    have : ¬ n = name := fun e => h.1 e.symm
    simp only [beq_iff_eq, this, if_false]
    exact ih h.2

theorem lookup_append_of_not_mem (name : String) (pre fs : List (String × Val))
    (h : name ∉ fieldNames pre) : lookup name (pre ++ fs) = lookup name fs := by
  induction pre with
  | nil => rfl
  | cons x r ih =>
    obtain ⟨n, v⟩ := x
    simp only [fieldNames, List.map_cons, List.mem_cons, not_or] at h
    rw [List.cons_append, lookup_cons]
    have : ¬ n = name := fun e => h.1 e.symm
    simp only [beq_iff_eq, this, if_false]
    exact ih h.2

/-- per-member typing against the whole field list -/
def membersOk : Members → List (String × Val) → Bool
  | .nil, _ => true
  | .cons name p t rest, fs =>
    (match lookup name fs with
     | some v => hasType t v
     | none => match p with
       | .mandatory => false
       | _ => true) && membersOk rest fs

theorem hasMembers_cons_nil (name : String) (p : Presence) (t : Ty) (rest : Members) :
    hasMembers (.cons name p t rest) [] =
      (match p with | .mandatory => none | _ => hasMembers rest []) := by
  cases p <;> rfl

theorem hasMembers_cons_cons (name : String) (p : Presence) (t : Ty) (rest : Members)
    (n : String) (v : Val) (fs' : List (String × Val)) :
    hasMembers (.cons name p t rest) ((n, v) :: fs') =
      if n == name then (if hasType t v then hasMembers rest fs' else none)
      else (match p with | .mandatory => none | _ => hasMembers rest ((n, v) :: fs')) := by
  cases p <;> rfl

theorem hasMembers_split (ms : Members) (fs rest : List (String × Val))
    (h : hasMembers ms fs = some rest) :
    ∃ pre, fs = pre ++ rest ∧ ∀ n ∈ fieldNames pre, n ∈ ms.names := by
  induction ms using Members.ind generalizing fs with
  | nil =>
    simp only [hasMembers, Option.some.injEq] at h
    exact ⟨[], by simp [h], by simp [fieldNames]⟩
  | cons name p t ms ih =>
    cases fs with
    | nil =>
      rw [hasMembers_cons_nil] at h
      have h' : hasMembers ms [] = some rest := by
        cases p <;> simp_all
      obtain ⟨pre, h1, h2⟩ := ih [] h'
      exact ⟨pre, h1, fun n hn => by simp [Members.names, h2 n hn]⟩
    | cons x fs' =>
      obtain ⟨n, v⟩ := x
      rw [hasMembers_cons_cons] at h
      by_cases hn : n = name
      · subst hn
        simp only [beq_self_eq_true, if_true] at h
        by_cases ht : hasType t v = true
        · simp only [ht, if_true] at h
          obtain ⟨pre, h1, h2⟩ := ih fs' h
          refine ⟨(n, v) :: pre, by simp [h1], ?_⟩
          intro m hm
          simp only [fieldNames, List.map_cons, List.mem_cons] at hm
          rcases hm with hm | hm
          · simp [Members.names, hm]
          · simp [Members.names, h2 m hm]
        · simp [ht] at h
      · have hb : (n == name) = false := by simpa using hn
        simp only [hb, Bool.false_eq_true, if_false] at h
        have h' : hasMembers ms ((n, v) :: fs') = some rest := by
          cases p <;> simp_all
        obtain ⟨pre, h1, h2⟩ := ih _ h'
        exact ⟨pre, h1, fun m hm => by simp [Members.names, h2 m hm]⟩

theorem membersOk_of_hasMembers (ms : Members) (fs rest : List (String × Val))
    (h : hasMembers ms fs = some rest) (hnd : ms.names.Nodup)
    (hrest : ∀ n ∈ ms.names, n ∉ fieldNames rest)
    (pre0 : List (String × Val)) (hpre : ∀ n ∈ ms.names, n ∉ fieldNames pre0) :
    membersOk ms (pre0 ++ fs) = true := by
  induction ms using Members.ind generalizing fs pre0 with
  | nil => rfl
  | cons name p t ms ih =>
    simp only [Members.names, List.nodup_cons] at hnd
    have hname_pre : name ∉ fieldNames pre0 := hpre name (by simp [Members.names])
    have hrest' : ∀ n ∈ ms.names, n ∉ fieldNames rest :=
      fun n hn => hrest n (by simp [Members.names, hn])
    have hpre' : ∀ n ∈ ms.names, n ∉ fieldNames pre0 :=
      fun n hn => hpre n (by simp [Members.names, hn])
    -- the "member absent" situation
    have absent : hasMembers ms fs = some rest → p ≠ .mandatory →
        membersOk (.cons name p t ms) (pre0 ++ fs) = true := by
      intro h' hp
      obtain ⟨pre, h1, h2⟩ := hasMembers_split ms fs rest h'
      have hl : lookup name (pre0 ++ fs) = none := by
        rw [lookup_append_of_not_mem _ _ _ hname_pre]
        apply lookup_none_of_not_mem
        rw [h1]
        simp only [fieldNames, List.map_append, List.mem_append, not_or]
        refine ⟨fun hm => hnd.1 (h2 name hm), hrest name (by simp [Members.names])⟩
      simp only [membersOk, hl, Bool.and_eq_true]
      refine ⟨?_, ih fs h' hnd.2 hrest' pre0 hpre'⟩
      cases p <;> simp_all
    cases fs with
    | nil =>
      rw [hasMembers_cons_nil] at h
      apply absent
      · cases p <;> simp_all
      · cases p <;> simp_all
    | cons x fs' =>
      obtain ⟨n, v⟩ := x
      rw [hasMembers_cons_cons] at h
      by_cases hn : n = name
      · subst hn
        simp only [beq_self_eq_true, if_true] at h
        by_cases ht : hasType t v = true
        · simp only [ht, if_true] at h
          have hl : lookup n (pre0 ++ (n, v) :: fs') = some v := by
            rw [lookup_append_of_not_mem _ _ _ hname_pre, lookup_cons]; simp
          simp only [membersOk, hl, ht, Bool.true_and]
          have := ih fs' h hnd.2 hrest' (pre0 ++ [(n, v)]) (by
            intro m hm
            simp only [fieldNames, List.map_append, List.map_cons, List.map_nil, List.mem_append,
              List.mem_singleton, not_or]
            exact ⟨hpre' m hm, fun e => hnd.1 (e ▸ hm)⟩)
          simpa using this
        · simp [ht] at h
      · have hb : (n == name) = false := by simpa using hn
        simp only [hb, Bool.false_eq_true, if_false] at h
        apply absent
        · cases p <;> simp_all
        · cases p <;> simp_all

/-- what `hasType` of a record gives, in lookup form -/
theorem membersOk_of_hasType (root adds : Members) (ext : Bool) (fs : List (String × Val))
    (hnd : (root.names ++ adds.names).Nodup)
    (h : hasType (.sequence root ext adds) (.record fs) = true) :
    membersOk root fs = true ∧ membersOk adds fs = true := by
  rw [hasType] at h
  cases h1 : hasMembers root fs with
  | none => simp [h1] at h
  | some rest =>
    simp only [h1] at h
    cases h2 : hasMembers adds rest with
    | none => simp [h2] at h
    | some rest' =>
      simp only [h2, List.isEmpty_iff] at h
      subst h
      obtain ⟨pre1, e1, m1⟩ := hasMembers_split root fs rest h1
      obtain ⟨pre2, e2, m2⟩ := hasMembers_split adds rest [] h2
      rw [List.nodup_append] at hnd
      obtain ⟨nd1, nd2, disj⟩ := hnd
      constructor
      · have := membersOk_of_hasMembers root fs rest h1 nd1 (by
          intro n hn hm
          rw [e2, List.append_nil] at hm
          exact disj n hn n (m2 n hm) rfl) [] (by simp [fieldNames])
        simpa using this
      · have := membersOk_of_hasMembers adds rest [] h2 nd2 (by simp [fieldNames]) pre1 (by
          intro n hn hm
          exact disj n (m1 n hm) n hn rfl)
        rw [e1]; exact this

end Asn1
