import Asn1Model.SpecDict
/-
  Lemmas about pass 2 of the dictionary rewrite (`pre_process_extensibility_implied`):
  the pass is idempotent.
-/
namespace Asn1.SpecDict

theorem hasMarker_append_marker (l : List Item) : hasMarker (l ++ [.marker]) = true := by
  induction l with
  | nil => rfl
  | cons x t ih => cases x <;> simp [hasMarker, ih]

theorem hasMarker_addMarker (l : List Item) : hasMarker (addMarker l) = true := by
  unfold addMarker
  split
  · assumption
  · exact hasMarker_append_marker l

theorem addMarker_of_hasMarker {l : List Item} (h : hasMarker l = true) : addMarker l = l := by
  simp [addMarker, h]

theorem addMarker_addMarker (l : List Item) : addMarker (addMarker l) = addMarker l :=
  addMarker_of_hasMarker (hasMarker_addMarker l)

theorem hasMarker_extItems (l : List Item) : hasMarker (extItems l) = hasMarker l := by
  induction l with
  | nil => simp [extItems]
  | cons x t ih => cases x <;> simp [extItems, extItem, hasMarker, ih]

theorem extItems_append_marker (l : List Item) :
    extItems (l ++ [.marker]) = extItems l ++ [.marker] := by
  induction l with
  | nil => simp [extItems, extItem]
  | cons x t ih => simp [extItems, ih]

theorem extItems_addMarker (l : List Item) : extItems (addMarker l) = addMarker (extItems l) := by
  unfold addMarker
  rw [hasMarker_extItems]
  split
  · rfl
  · exact extItems_append_marker l

mutual
  theorem extDesc_idem (d : Desc) : extDesc (extDesc d) = extDesc d := by
    cases d with
    | mk a b => simp only [extDesc]; rw [extBody_idem b]
  theorem extBody_idem (b : Body) : extBody (extBody b) = extBody b := by
    cases b with
    | leaf => simp [extBody]
    | element e => simp only [extBody]; rw [extDesc_idem e]
    | members ms =>
      simp only [extBody]
      rw [extItems_addMarker, extItems_idem ms, addMarker_addMarker]
  theorem extItems_idem (l : List Item) : extItems (extItems l) = extItems l := by
    cases l with
    | nil => simp [extItems]
    | cons i t => simp only [extItems]; rw [extItem_idem i, extItems_idem t]
  theorem extItem_idem (i : Item) : extItem (extItem i) = extItem i := by
    cases i with
    | marker => simp [extItem]
    | compOf r => simp [extItem]
    | group g => simp only [extItem]; rw [extDescs_idem g]
    | desc d => simp only [extItem]; rw [extDesc_idem d]
  theorem extDescs_idem (l : List Desc) : extDescs (extDescs l) = extDescs l := by
    cases l with
    | nil => simp [extDescs]
    | cons d t => simp only [extDescs]; rw [extDesc_idem d, extDescs_idem t]
end

@[simp] theorem extDesc_attrs (d : Desc) : (extDesc d).attrs = d.attrs := by
  cases d; simp [extDesc, Desc.attrs]

end Asn1.SpecDict
