import Asn1Model.Typing

/-! UTF-8 encoder/decoder lemmas for the UPER model. -/

namespace Asn1.Uper

theorem utf8Enc_lt_256 (cp : Nat) (h : cp < 0x110000) : ∀ b ∈ utf8Enc cp, b < 256 := by
  intro b hb
  unfold utf8Enc at hb
  split at hb
  · simp only [List.mem_cons, List.not_mem_nil, or_false] at hb
    omega
  · split at hb
    · simp only [List.mem_cons, List.not_mem_nil, or_false] at hb
      omega
    · split at hb
      · simp only [List.mem_cons, List.not_mem_nil, or_false] at hb
        omega
      · simp only [List.mem_cons, List.not_mem_nil, or_false] at hb
        omega

private theorem utf8Dec_step1 (fuel b : Nat) (r : Bytes) (h : b < 0x80) :
    utf8Dec (fuel + 1) (b :: r) = (utf8Dec fuel r).map (b :: ·) := by
  conv => lhs; unfold utf8Dec
  rw [if_pos h]

private theorem utf8Dec_step2 (fuel b c : Nat) (r : Bytes)
    (h1 : 0xc2 ≤ b) (h2 : b < 0xe0) (hc : 0x80 ≤ c ∧ c < 0xc0) :
    utf8Dec (fuel + 1) (b :: c :: r)
      = (utf8Dec fuel r).map (((b - 0xc0) * 64 + (c - 0x80)) :: ·) := by
  conv => lhs; unfold utf8Dec
  rw [if_neg (by omega), if_neg (by omega), if_pos h2]
  simp only []
  rw [if_pos hc]

private theorem utf8Dec_step3 (fuel b c d : Nat) (r : Bytes)
    (h1 : 0xe0 ≤ b) (h2 : b < 0xf0)
    (hc : 0x80 ≤ c ∧ c < 0xc0 ∧ 0x80 ≤ d ∧ d < 0xc0 ∧
      (b - 0xe0) * 4096 + (c - 0x80) * 64 + (d - 0x80) ≥ 0x800 ∧
      ¬ (0xd800 ≤ (b - 0xe0) * 4096 + (c - 0x80) * 64 + (d - 0x80) ∧
          (b - 0xe0) * 4096 + (c - 0x80) * 64 + (d - 0x80) < 0xe000)) :
    utf8Dec (fuel + 1) (b :: c :: d :: r)
      = (utf8Dec fuel r).map (((b - 0xe0) * 4096 + (c - 0x80) * 64 + (d - 0x80)) :: ·) := by
  conv => lhs; unfold utf8Dec
  rw [if_neg (by omega), if_neg (by omega), if_neg (by omega), if_pos h2]
  simp only []
  rw [if_pos hc]

private theorem utf8Dec_step4 (fuel b c d e : Nat) (r : Bytes)
    (h1 : 0xf0 ≤ b) (h2 : b < 0xf5)
    (hc : 0x80 ≤ c ∧ c < 0xc0 ∧ 0x80 ≤ d ∧ d < 0xc0 ∧ 0x80 ≤ e ∧ e < 0xc0 ∧
      (b - 0xf0) * 262144 + (c - 0x80) * 4096 + (d - 0x80) * 64 + (e - 0x80) ≥ 0x10000 ∧
      (b - 0xf0) * 262144 + (c - 0x80) * 4096 + (d - 0x80) * 64 + (e - 0x80) < 0x110000) :
    utf8Dec (fuel + 1) (b :: c :: d :: e :: r)
      = (utf8Dec fuel r).map
          (((b - 0xf0) * 262144 + (c - 0x80) * 4096 + (d - 0x80) * 64 + (e - 0x80)) :: ·) := by
  conv => lhs; unfold utf8Dec
  rw [if_neg (by omega), if_neg (by omega), if_neg (by omega), if_neg (by omega), if_pos h2]
  simp only []
  rw [if_pos hc]

theorem utf8Dec_flatMap_utf8Enc (cps : List Nat)
    (h : ∀ cp ∈ cps, cp < 0x110000 ∧ ¬ (0xd800 ≤ cp ∧ cp < 0xe000))
    (fuel : Nat) (hf : (cps.flatMap utf8Enc).length + 1 ≤ fuel) :
    utf8Dec fuel (cps.flatMap utf8Enc) = some cps := by
  induction cps generalizing fuel with
  | nil =>
    match fuel, hf with
    | fuel + 1, _ => simp only [List.flatMap_nil, utf8Dec]
  | cons cp rest ih =>
    have hcp := h cp (List.mem_cons_self ..)
    have hrest : ∀ x ∈ rest, x < 0x110000 ∧ ¬ (0xd800 ≤ x ∧ x < 0xe000) :=
      fun x hx => h x (List.mem_cons_of_mem _ hx)
    match fuel, hf with
    | fuel + 1, hf =>
      rw [List.flatMap_cons] at hf ⊢
      rw [List.length_append] at hf
      by_cases c1 : cp < 0x80
      · have he : utf8Enc cp = [cp] := by unfold utf8Enc; rw [if_pos c1]
        rw [he] at hf ⊢
        simp only [List.length_cons, List.length_nil] at hf
        simp only [List.cons_append, List.nil_append]
        rw [utf8Dec_step1 _ _ _ c1, ih hrest fuel (by omega)]
        rfl
      · by_cases c2 : cp < 0x800
        · have he : utf8Enc cp = [0xc0 + cp / 64, 0x80 + cp % 64] := by
            unfold utf8Enc; rw [if_neg c1, if_pos c2]
          rw [he] at hf ⊢
          simp only [List.length_cons, List.length_nil] at hf
          simp only [List.cons_append, List.nil_append]
          rw [utf8Dec_step2 _ _ _ _ (by omega) (by omega) (by omega),
            ih hrest fuel (by omega)]
          have : (0xc0 + cp / 64 - 0xc0) * 64 + (0x80 + cp % 64 - 0x80) = cp := by omega
          rw [this]
          rfl
        · by_cases c3 : cp < 0x10000
          · have he : utf8Enc cp
                = [0xe0 + cp / 4096, 0x80 + cp / 64 % 64, 0x80 + cp % 64] := by
              unfold utf8Enc; rw [if_neg c1, if_neg c2, if_pos c3]
            rw [he] at hf ⊢
            simp only [List.length_cons, List.length_nil] at hf
            simp only [List.cons_append, List.nil_append]
            have e : (0xe0 + cp / 4096 - 0xe0) * 4096 + (0x80 + cp / 64 % 64 - 0x80) * 64
                + (0x80 + cp % 64 - 0x80) = cp := by omega
            rw [utf8Dec_step3 _ _ _ _ _ (by omega) (by omega)
                (by rw [e]; omega),
              ih hrest fuel (by omega), e]
            rfl
          · have he : utf8Enc cp
                = [0xf0 + cp / 262144, 0x80 + cp / 4096 % 64, 0x80 + cp / 64 % 64,
                    0x80 + cp % 64] := by
              unfold utf8Enc; rw [if_neg c1, if_neg c2, if_neg c3]
            rw [he] at hf ⊢
            simp only [List.length_cons, List.length_nil] at hf
            simp only [List.cons_append, List.nil_append]
            have e : (0xf0 + cp / 262144 - 0xf0) * 262144 + (0x80 + cp / 4096 % 64 - 0x80) * 4096
                + (0x80 + cp / 64 % 64 - 0x80) * 64 + (0x80 + cp % 64 - 0x80) = cp := by omega
            rw [utf8Dec_step4 _ _ _ _ _ _ (by omega) (by omega)
                (by rw [e]; omega),
              ih hrest fuel (by omega), e]
            rfl

end Asn1.Uper

