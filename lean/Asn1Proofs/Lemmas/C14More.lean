import Asn1Model.Comments
-- imported so that the on-demand auxiliary declarations of `go` (match congruence equations,
-- `go.induct`, …) are generated once and shared; generating them independently in two modules
-- makes importing both fail with `environment already contains …`
import Asn1Proofs.Properties.C14
/-
  Further C14 theorems about the comment pre-pass: `str_verbatim`, `strip_idem`,
  `strip_no_comment` (at the end of the file), preceded by their auxiliary lemmas.
-/
namespace Asn1.C14
open Asn1.Comments

/-! ### auxiliary lemmas -/

theorem map_map_except {ε α β γ : Type} (f : β → γ) (g : α → β) (x : Except ε α) :
    f <$> (g <$> x) = (fun o => f (g o)) <$> x := by
  cases x <;> rfl

theorem go_str_cons (a : Nat) : ∀ n c r, List.length r < n → c ≠ '"' →
    go .str a (c :: r) = (fun o => c :: o) <$> go .str a r := by
  intro n
  induction n with
  | zero =>
    intro c r hl; omega
  | succ n ih =>
    intro c r hl hc
    by_cases h1 : ∃ r', c = '/' ∧ r = '*' :: r'
    · obtain ⟨r', rfl, rfl⟩ := h1
      rw [go.eq_6, ih '*' r' (by simp at hl; omega) (by decide), map_map_except]
    by_cases h2 : ∃ r', c = '*' ∧ r = '/' :: r'
    · obtain ⟨r', rfl, rfl⟩ := h2
      rw [go.eq_10, ih '/' r' (by simp at hl; omega) (by decide), map_map_except]
    by_cases h3 : ∃ r', c = '-' ∧ r = '-' :: r'
    · obtain ⟨r', rfl, rfl⟩ := h3
      rw [go.eq_15, ih '-' r' (by simp at hl; omega) (by decide), map_map_except]
    by_cases h4 : c = '\n'
    · subst h4; rw [go.eq_19]
    rw [go.eq_27] <;> simp_all

theorem go_str_cons' (a : Nat) (c : Char) (r : List Char) (hc : c ≠ '"') :
    go .str a (c :: r) = (fun o => c :: o) <$> go .str a r :=
  go_str_cons a _ c r (Nat.lt_succ_self _) hc

theorem go_head (st : St) (a : Nat) (r : List Char) (x : Char) (o : List Char)
    (h : go st a r = .ok (x :: o)) (hx : x ≠ ' ') : ∃ r', r = x :: r' := by
  fun_induction go st a r <;>
    simp_all [Functor.map, Except.map] <;>
    (try (split at h <;> simp_all))
  all_goals grind

theorem map_eq_ok {ε α β : Type} (f : α → β) (x : Except ε α) (o : β) :
    f <$> x = .ok o ↔ ∃ o', x = .ok o' ∧ f o' = o := by
  cases x <;> simp [Functor.map, Except.map]

theorem go_normal_blank (a : Nat) (r : List Char) :
    go .normal a (' ' :: r) = (fun o => ' ' :: o) <$> go .normal a r := by
  rw [go.eq_26] <;> simp

/-- the state in which the second pass is when it reaches the same offset -/
def reSt : St → St
  | .str => .str
  | _ => .normal

theorem go_idem (st : St) (a : Nat) (s o : List Char) (h : go st a s = .ok o) :
    ∀ a', go (reSt st) a' o = .ok o := by
  fun_induction go st a s generalizing o
  all_goals try simp only [map_eq_ok] at h
  all_goals try obtain ⟨o', h', rfl⟩ := h
  all_goals intro a'
  all_goals try rename_i ih
  all_goals try simp [reSt, go_normal_blank, go.eq_9, go.eq_18, go.eq_19, go.eq_22, go.eq_23,
    go_str_cons', map_eq_ok]
  all_goals try exact ih _ h' a'
  · rfl
  · rfl
  · rename_i x4 x3 x2 x1 x0
    have side : ∀ d, d ≠ ' ' → ∀ r, o' = d :: r → ∃ r', _ = d :: r' :=
      fun d hd r ho => go_head _ _ _ d r (ho ▸ h') hd
    rw [go.eq_26 a' _ o' ?_ ?_ ?_ x1 x0, show go .normal a' o' = .ok o' from ih _ h' a']
    · rfl
    · intro r hc ho
      obtain ⟨r', hr⟩ := side '*' (by decide) r ho
      exact x4 r' hc hr
    · intro r hc ho
      obtain ⟨r', hr⟩ := side '/' (by decide) r ho
      exact x3 r' hc hr
    · intro r hc ho
      obtain ⟨r', hr⟩ := side '-' (by decide) r ho
      exact x2 r' hc hr
  · rename_i x4 x3 x2 x1 x0
    rw [go_str_cons' a' _ o' (fun h => x0 h), show go .str a' o' = .ok o' from ih _ h' a']
    rfl

theorem go_str_append (a : Nat) (body rest : List Char) (hb : '"' ∉ body) :
    go .str a (body ++ rest) = (fun o => body ++ o) <$> go .str a rest := by
  induction body with
  | nil => simp only [List.nil_append]; cases go St.str a rest <;> rfl
  | cons c body ih =>
    have hc : c ≠ '"' := by intro h; simp [h] at hb
    have hb' : '"' ∉ body := by intro h; simp [h] at hb
    rw [List.cons_append, go_str_cons a _ c _ (Nat.lt_succ_self _) hc, ih hb', map_map_except]
    rfl


theorem no_infix_tail {x y c : Char} {r : List Char}
    (h : ∀ pre post, c :: r ≠ pre ++ x :: y :: post) : ∀ pre post, r ≠ pre ++ x :: y :: post :=
  fun pre post e => h (c :: pre) post (by simp [e])

/-- `strip_no_comment` for an arbitrary start offset -/
theorem go_no_comment (st : St) (a : Nat) (s : List Char) (hst : st = .normal)
    (h1 : ∀ pre post, s ≠ pre ++ '-' :: '-' :: post)
    (h2 : ∀ pre post, s ≠ pre ++ '/' :: '*' :: post)
    (h3 : '"' ∉ s) : go st a s = .ok s := by
  fun_induction go st a s <;> (try contradiction)
  · rfl
  · exact absurd rfl (h2 [] _)
  · rename_i ih
    rw [ih rfl (no_infix_tail (no_infix_tail h1)) (no_infix_tail (no_infix_tail h2))
      (by simp_all)]; rfl
  · exact absurd rfl (h1 [] _)
  · rename_i ih
    rw [ih rfl (no_infix_tail h1) (no_infix_tail h2) (by simp_all)]; rfl
  · simp at h3
  · rename_i ih
    rw [ih rfl (no_infix_tail h1) (no_infix_tail h2) (by simp_all)]; rfl


/-! ### the theorems -/

/-- Text inside a character string literal is copied verbatim and never opens a comment:
from just after the opening quote, everything up to and including the closing quote is output unchanged
and the scanner is back in the normal state. -/
theorem str_verbatim (a : Nat) (rest : List Char) (body : List Char) (hb : '"' ∉ body) :
    go .str a (body ++ '"' :: rest) = (fun o => body ++ '"' :: o) <$> go .normal a rest := by
  rw [go_str_append a body _ hb, go.eq_23, map_map_except]

/-- The pre-pass is idempotent: blanked text contains no comment any more. -/
theorem strip_idem (s o : List Char) (h : strip s = .ok o) : strip o = .ok o :=
  (strip_ok_iff o o).2 (go_idem _ _ _ _ ((strip_ok_iff s o).1 h) 0)

/-- A text without any comment opener (`--`, `/*`) and without quotes is returned unchanged. -/
theorem strip_no_comment (s : List Char)
    (h1 : ∀ pre post, s ≠ pre ++ '-' :: '-' :: post)
    (h2 : ∀ pre post, s ≠ pre ++ '/' :: '*' :: post)
    (h3 : '"' ∉ s) : strip s = .ok s :=
  (strip_ok_iff s s).2 (go_no_comment _ 0 s rfl h1 h2 h3)

end Asn1.C14
