import Asn1Proofs.Lemmas.Bridge
/-
  BRIDGE, part 2, shared definitions: outcome classes and the result-refinement relation used for the translated
  decoder classes (`Bridge2PerDec.lean`, `Bridge2OerDec.lean`) and the translated `oer.Encoder` (`Bridge2OerEnc.lean`).
-/
namespace Asn1.Bridge
open Asn1 Asn1.Translated
open Asn1.Uper (Err)

/-- which Python exception class a model error stands for -/
def errOk : Err → String → Prop
  | .decodeError, s => s = "OutOfDataError" ∨ s = "DecodeError"
  | .notImplemented, s => s = "NotImplementedError"
  | .foreign, s => s = "ValueError"
  | .encodeError, s => s = "EncodeError"
  | .unmodelled, _ => False

/-- result refinement: same outcome class; on success the new concrete state satisfies the invariant and abstracts to
the model's new state, and the returned values correspond -/
def Refines {σ τ α β : Type} (inv : σ → Prop) (abs : σ → τ) (val : α → β → Prop) :
    Except String (σ × α) → Except Err (β × τ) → Prop
  | .ok (s', a), .ok (b, t) => inv s' ∧ abs s' = t ∧ val a b
  | .error e, .error m => errOk m e
  | _, _ => False

def bitVal (a : Int) (b : Bool) : Prop := a = if b then 1 else 0
def natVal (a : Int) (n : Nat) : Prop := a = (n : Int)
def bytesVal (a : List Int) (bs : Bytes) : Prop := a = ofNats bs

theorem shlE_natCast (a : Int) (n : Nat) : Py.shlE a (n : Int) = .ok (a * 2 ^ n) := by
  unfold Py.shlE Py.shl
  rw [if_neg (by omega), Int.toNat_natCast]

theorem shrE_natCast (a n : Nat) : Py.shrE (a : Int) (n : Int) = .ok (((a / 2 ^ n : Nat) : Int)) := by
  unfold Py.shrE
  rw [if_neg (by omega), Py.shr_natCast_div]

theorem shlE_neg (a n : Int) (h : n < 0) : Py.shlE a n = .error "ValueError" := by
  unfold Py.shlE; rw [if_pos h]

/-- `x & ((1 << n) - 1)` -/
theorem band_mask (x n : Nat) : Py.band (x : Int) ((1 : Int) * 2 ^ n - 1) = ((x % 2 ^ n : Nat) : Int) := by
  have hp : 0 < 2 ^ n := Nat.two_pow_pos n
  have : (1 : Int) * 2 ^ n - 1 = ((2 ^ n - 1 : Nat) : Int) := by
    rw [Int.one_mul, ← cast_two_pow]; omega
  rw [this, Py.band_natCast, Nat.and_two_pow_sub_one_eq_mod]

end Asn1.Bridge
