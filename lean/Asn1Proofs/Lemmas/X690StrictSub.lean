import Asn1Proofs.Lemmas.X690CompDefs
/-
  The strict reference decoder `decVS` (reference decoder minus the named deviation `dirtyUnusedBits`) is a
  restriction of the reference decoder `decV`: whatever it accepts, `decV` accepts with the same
  value; outside `berDeviates` the two agree.
-/
set_option linter.unusedSimpArgs false
set_option linter.unusedVariables false
namespace Asn1.X690

def ss_SUB (t : Ty) : Prop :=
  ∀ (tg : Option Nat) (fuel : Nat) (bs rest : Bytes) (v : Val),
    decVS t tg fuel bs = some (v, rest) → decV t tg fuel bs = some (v, rest)

theorem ss_constructedContents_mono {α : Type} (p p' : Bytes → Option (α × Bytes))
    (hp : ∀ c y, p c = some y → p' c = some y) (bs : Bytes) (x : α × Bytes)
    (h : constructedContents p bs = some x) : constructedContents p' bs = some x := by
  unfold constructedContents at h ⊢
  cases hr : readLength bs with
  | none => rw [hr] at h; cases h
  | some lr =>
    obtain ⟨l, r⟩ := lr
    rw [hr] at h
    cases l with
    | definite n =>
      simp only at h ⊢
      cases ht : takeN n r [] with
      | none => rw [ht] at h; cases h
      | some cr =>
        obtain ⟨c, rest⟩ := cr
        rw [ht] at h
        simp only at h ⊢
        cases hpc : p c with
        | none => rw [hpc] at h; cases h
        | some y => rw [hpc] at h; rw [hp c y hpc]; exact h
    | indefinite =>
      simp only at h ⊢
      cases hpc : p r with
      | none => rw [hpc] at h; cases h
      | some y => rw [hpc] at h; rw [hp r y hpc]; exact h

theorem ss_constructedContentsI_mono {α : Type} (p : Bool → Bytes → Option (α × Bytes))
    (p' : Bytes → Option (α × Bytes))
    (hp : ∀ b c y, p b c = some y → p' c = some y) (bs : Bytes) (x : α × Bytes)
    (h : constructedContentsI p bs = some x) : constructedContents p' bs = some x := by
  unfold constructedContentsI at h
  unfold constructedContents
  cases hr : readLength bs with
  | none => rw [hr] at h; cases h
  | some lr =>
    obtain ⟨l, r⟩ := lr
    rw [hr] at h
    cases l with
    | definite n =>
      simp only at h ⊢
      cases ht : takeN n r [] with
      | none => rw [ht] at h; cases h
      | some cr =>
        obtain ⟨c, rest⟩ := cr
        rw [ht] at h
        simp only at h ⊢
        cases hpc : p false c with
        | none => rw [hpc] at h; cases h
        | some y => rw [hpc] at h; rw [hp false c y hpc]; exact h
    | indefinite =>
      simp only at h ⊢
      cases hpc : p true r with
      | none => rw [hpc] at h; cases h
      | some y => rw [hpc] at h; rw [hp true r y hpc]; exact h

theorem ss_elements_mono (p p' : Bytes → Option (Val × Bytes))
    (hp : ∀ c y, p c = some y → p' c = some y) (fuel : Nat) :
    ∀ (bs : Bytes) (x : List Val × Bytes), elements p fuel bs = some x → elements p' fuel bs = some x := by
  induction fuel with
  | zero => intro bs x h; rw [elements] at h; cases h
  | succ fuel ih =>
    intro bs x h
    rw [elements] at h ⊢
    split
    · next hc => rw [if_pos hc] at h; exact h
    · next hc =>
      rw [if_neg hc] at h
      cases hpc : p bs with
      | none => rw [hpc] at h; cases h
      | some y =>
        obtain ⟨v, r⟩ := y
        rw [hpc] at h
        rw [hp bs _ hpc]
        simp only at h ⊢
        cases he : elements p fuel r with
        | none => rw [he] at h; cases h
        | some z => rw [he] at h; rw [ih r z he]; exact h

theorem ss_components (ms : Members) (hall : Members.AllO ss_SUB ms) :
    ∀ (i fuel : Nat) (bs : Bytes) (x : List (String × Val) × Bytes),
      decComponentsS ms i fuel bs = some x → decComponents ms i fuel bs = some x := by
  induction ms using Members.ind with
  | nil => intro i fuel bs x h; rw [decComponentsS] at h; rw [decComponents]; exact h
  | cons name p t rest ih =>
    intro i fuel bs x h
    have iht := hall.1
    have ihr := ih hall.2
    cases p with
    | mandatory =>
      rw [decComponentsS] at h; rw [decComponents]
      split
      · next hc =>
        rw [if_pos hc] at h
        cases hd : decVS t (some i) fuel bs with
        | none => rw [hd] at h; cases h
        | some y =>
          obtain ⟨v, r⟩ := y
          rw [hd] at h; rw [iht _ _ _ _ _ hd]
          simp only at h ⊢
          cases hr : decComponentsS rest (i + 1) fuel r with
          | none => rw [hr] at h; cases h
          | some z => rw [hr] at h; rw [ihr _ _ _ _ hr]; exact h
      · next hc => rw [if_neg hc] at h; cases h
    | optional =>
      rw [decComponentsS] at h; rw [decComponents]
      split
      · next hc =>
        rw [if_pos hc] at h
        cases hd : decVS t (some i) fuel bs with
        | none => rw [hd] at h; cases h
        | some y =>
          obtain ⟨v, r⟩ := y
          rw [hd] at h; rw [iht _ _ _ _ _ hd]
          simp only at h ⊢
          cases hr : decComponentsS rest (i + 1) fuel r with
          | none => rw [hr] at h; cases h
          | some z => rw [hr] at h; rw [ihr _ _ _ _ hr]; exact h
      · next hc => rw [if_neg hc] at h; exact ihr _ _ _ _ h
    | default d =>
      rw [decComponentsS] at h; rw [decComponents]
      split
      · next hc =>
        rw [if_pos hc] at h
        cases hd : decVS t (some i) fuel bs with
        | none => rw [hd] at h; cases h
        | some y =>
          obtain ⟨v, r⟩ := y
          rw [hd] at h; rw [iht _ _ _ _ _ hd]
          simp only at h ⊢
          cases hr : decComponentsS rest (i + 1) fuel r with
          | none => rw [hr] at h; cases h
          | some z => rw [hr] at h; rw [ihr _ _ _ _ hr]; exact h
      · next hc =>
        rw [if_neg hc] at h
        try simp only at h ⊢
        cases hr : decComponentsS rest (i + 1) fuel bs with
        | none => rw [hr] at h; cases h
        | some z => rw [hr] at h; rw [ihr _ _ _ _ hr]; exact h

theorem ss_alternatives (as : Alts) (hall : Alts.AllO ss_SUB as) :
    ∀ (i fuel : Nat) (bs : Bytes) (x : Val × Bytes),
      decAlternativesS as i fuel bs = some x → decAlternatives as i fuel bs = some x := by
  induction as using Alts.ind with
  | nil => intro i fuel bs x h; rw [decAlternativesS] at h; cases h
  | cons n t rest ih =>
    intro i fuel bs x h
    have iht := hall.1
    have ihr := ih hall.2
    rw [decAlternativesS] at h; rw [decAlternatives]
    split
    · next hc =>
      rw [if_pos hc] at h
      cases hd : decVS t (some i) fuel bs with
      | none => rw [hd] at h; cases h
      | some y =>
        obtain ⟨v, r⟩ := y
        rw [hd] at h; rw [iht _ _ _ _ _ hd]; exact h
    · next hc => rw [if_neg hc] at h; exact ihr _ _ _ _ h

theorem ss_boolean : ss_SUB .boolean := by
  intro tg fuel bs rest v h; rw [decVS] at h; exact h
theorem ss_null : ss_SUB .null := by
  intro tg fuel bs rest v h; rw [decVS] at h; exact h
theorem ss_integer (c : IntC) : ss_SUB (.integer c) := by
  intro tg fuel bs rest v h; rw [decVS] at h; exact h
theorem ss_enumerated (r : List (String × Int)) (x : Option (List (String × Int))) :
    ss_SUB (.enumerated r x) := by
  intro tg fuel bs rest v h; rw [decVS] at h; exact h
theorem ss_octetString (c : SizeC) : ss_SUB (.octetString c) := by
  intro tg fuel bs rest v h; rw [decVS] at h; exact h
theorem ss_charString (k : StrKind) (c : SizeC) : ss_SUB (.charString k c) := by
  intro tg fuel bs rest v h; rw [decVS] at h; exact h

theorem ss_bitString (c : SizeC) : ss_SUB (.bitString c) := by
  intro tg fuel bs rest v h
  rw [decVS] at h; rw [decV]
  cases hs : stringChunks 3 fuel (header (.bitString c) tg false) (header (.bitString c) tg true) bs with
  | none => rw [hs] at h; cases h
  | some y =>
    obtain ⟨cs, r⟩ := y
    rw [hs] at h
    simp only at h ⊢
    cases hb : bitsOfChunks cs with
    | none => rw [hb] at h; cases h
    | some z =>
      obtain ⟨data, n⟩ := z
      rw [hb] at h
      simp only at h ⊢
      split at h
      · next hc =>
        have e : cleanBits data n = data := eq_of_beq hc
        rw [e]; exact h
      · cases h

theorem ss_sequence (root : Members) (e : Bool) (adds : Members)
    (ihr : Members.AllO ss_SUB root) (iha : Members.AllO ss_SUB adds) :
    ss_SUB (.sequence root e adds) := by
  intro tg fuel bs rest v h
  rw [decVS] at h; rw [decV]
  cases hs : stripPrefix (header (.sequence root e adds) tg true) bs with
  | none => rw [hs] at h; cases h
  | some r =>
    rw [hs] at h
    simp only at h ⊢
    refine ss_constructedContentsI_mono _ _ ?_ r (v, rest) h
    intro b c y hy
    try simp only at hy ⊢
    cases h1 : decComponentsS root 0 fuel c with
    | none => rw [h1] at hy; cases hy
    | some z =>
      obtain ⟨fs1, c1⟩ := z
      rw [h1] at hy; rw [ss_components root ihr _ _ _ _ h1]
      simp only at hy ⊢
      cases h2 : decComponentsS adds root.length fuel c1 with
      | none => rw [h2] at hy; cases hy
      | some w => rw [h2] at hy; rw [ss_components adds iha _ _ _ _ h2]; exact hy

theorem ss_sequenceOf (e : Ty) (c : SizeC) (ih : ss_SUB e) : ss_SUB (.sequenceOf e c) := by
  intro tg fuel bs rest v h
  rw [decVS] at h; rw [decV]
  cases hs : stripPrefix (header (.sequenceOf e c) tg true) bs with
  | none => rw [hs] at h; cases h
  | some r =>
    rw [hs] at h
    simp only at h ⊢
    cases hc : constructedContents (elements (decVS e none fuel) fuel) r with
    | none => rw [hc] at h; cases h
    | some y =>
      rw [hc] at h
      rw [ss_constructedContents_mono _ (elements (decV e none fuel) fuel)
        (fun c y hy => ss_elements_mono _ _ (fun c y hy => by
          obtain ⟨v, r⟩ := y; exact ih _ _ _ _ _ hy) fuel c y hy) r y hc]
      exact h

theorem ss_stripPrefix_ctx_other (c c' : Bool) (u i j : Nat) (r : Bytes) (hij : i ≠ j) :
    stripPrefix (identifier .context c i) (Der.mkTag u c' (some j) ++ r) = none := by
  cases h : stripPrefix (identifier .context c i) (Der.mkTag u c' (some j) ++ r) with
  | none => rfl
  | some r' =>
    have := stripPrefix_some h
    rw [identifier_context 0] at this
    exact absurd (Der.mkTag_ctx_prefix_free this.symm) hij

theorem ss_componentPresent_other (t : Ty) (u i j : Nat) (c : Bool) (r : Bytes) (hij : i ≠ j) :
    componentPresent t i (Der.mkTag u c (some j) ++ r) = false := by
  simp [componentPresent, ss_stripPrefix_ctx_other _ _ _ _ _ _ hij]

theorem ss_decAlternatives_none (as : Alts) (u : Nat) (c : Bool) (idx i fuel : Nat) (bs : Bytes)
    (h : i + as.length ≤ idx) :
    decAlternatives as i fuel (Der.mkTag u c (some idx) ++ bs) = none := by
  induction as using Alts.ind generalizing i with
  | nil => rw [decAlternatives]
  | cons n t rest ih =>
    simp only [Alts.length] at h
    rw [decAlternatives, ss_componentPresent_other t u i idx c bs (by omega)]
    simp only [Bool.false_eq_true, if_false]
    exact ih (i + 1) (by omega)

theorem ss_alts_tagGe (as : Alts) :
    ∀ (i fuel : Nat) (bs : Bytes) (x : Val × Bytes), decAlternativesS as i fuel bs = some x → TagGe i bs := by
  induction as using Alts.ind with
  | nil => intro i fuel bs x h; rw [decAlternativesS] at h; cases h
  | cons n t rest ih =>
    intro i fuel bs x h
    rw [decAlternativesS] at h
    split at h
    · next hc => exact tagGe_of_componentPresent hc
    · exact (ih _ _ _ _ h).mono (by omega)

theorem ss_chosen (root adds : Alts) (ihr : Alts.AllO ss_SUB root) (iha : Alts.AllO ss_SUB adds)
    (fuel : Nat) (b : Bytes) (y : Val × Bytes)
    (h : (match decAlternativesS root 0 fuel b with
          | some x => some x
          | none => decAlternativesS adds root.length fuel b) = some y) :
    (match decAlternatives root 0 fuel b with
          | some x => some x
          | none => decAlternatives adds root.length fuel b) = some y := by
  cases h1 : decAlternativesS root 0 fuel b with
  | some x =>
    rw [h1] at h; rw [ss_alternatives root ihr _ _ _ _ h1]; exact h
  | none =>
    rw [h1] at h
    simp only at h
    obtain ⟨j, u, c, r, hj, hb⟩ := ss_alts_tagGe adds _ _ _ _ h
    have h2 : decAlternatives root 0 fuel b = none := by
      rw [hb]; exact ss_decAlternatives_none root u c j 0 fuel r (by omega)
    rw [h2]
    exact ss_alternatives adds iha _ _ _ _ h

theorem ss_choice (root : Alts) (e : Bool) (adds : Alts)
    (ihr : Alts.AllO ss_SUB root) (iha : Alts.AllO ss_SUB adds) : ss_SUB (.choice root e adds) := by
  intro tg fuel bs rest v h
  cases tg with
  | none =>
    rw [decVS] at h; rw [decV]
    exact ss_chosen root adds ihr iha fuel bs _ h
  | some i =>
    rw [decVS] at h; rw [decV]
    try simp only at h ⊢
    cases hs : stripPrefix (identifier .context true i) bs with
    | none => rw [hs] at h; cases h
    | some r =>
      rw [hs] at h
      simp only at h ⊢
      exact ss_constructedContents_mono _ _ (fun c y hy => ss_chosen root adds ihr iha fuel c y hy) r _ h

theorem ss_all (t : Ty) : ss_SUB t :=
  Ty.rec (motive_1 := ss_SUB) (motive_2 := Members.AllO ss_SUB) (motive_3 := Alts.AllO ss_SUB)
    ss_boolean ss_null ss_integer ss_enumerated ss_octetString ss_bitString ss_charString
    (fun root ext adds ihr iha => ss_sequence root ext adds ihr iha)
    (fun e c ih => ss_sequenceOf e c ih)
    (fun root ext adds ihr iha => ss_choice root ext adds ihr iha)
    trivial (fun _ _ _ _ iht ihr => ⟨iht, ihr⟩)
    trivial (fun _ _ _ iht ihr => ⟨iht, ihr⟩) t

/-- whatever the strict reference decoder accepts, the reference decoder accepts with the same value -/
theorem decVS_sub (t : Ty) (tg : Option Nat) (fuel : Nat) (bs rest : Bytes) (v : Val)
    (h : decVS t tg fuel bs = some (v, rest)) : decV t tg fuel bs = some (v, rest) :=
  ss_all t tg fuel bs rest v h

theorem berDecodeRefStrict_sub (t : Ty) (bs : Bytes) (v : Val)
    (h : berDecodeRefStrict t bs = some v) : berDecodeRef t bs = some v := by
  unfold berDecodeRefStrict at h
  unfold berDecodeRef
  cases hd : decVS t none (bs.length + 1) bs with
  | none => rw [hd] at h; cases h
  | some y =>
    obtain ⟨w, r⟩ := y
    rw [hd] at h; rw [decVS_sub _ _ _ _ _ _ hd]; exact h

/-- outside the deviation predicate the two agree -/
theorem strict_of_not_deviates (t : Ty) (bs : Bytes) (v : Val)
    (h : berDecodeRef t bs = some v) (hd : berDeviates t bs = false) : berDecodeRefStrict t bs = some v := by
  unfold berDeviates at hd
  rw [h] at hd
  cases hs : berDecodeRefStrict t bs with
  | none => rw [hs] at hd; simp at hd
  | some v' =>
    have := berDecodeRefStrict_sub t bs v' hs
    rw [h] at this
    rw [this]

end Asn1.X690

#print axioms Asn1.X690.decVS_sub
#print axioms Asn1.X690.berDecodeRefStrict_sub
#print axioms Asn1.X690.strict_of_not_deviates
