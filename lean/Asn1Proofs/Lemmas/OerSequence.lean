import Asn1Proofs.Lemmas.OerSeqExt
/-
  SEQUENCE of the OER model: the complete type.
-/
set_option linter.unusedSimpArgs false
namespace Asn1.Oer
open Asn1.Uper (Err)

/-- decoding up to and including the root members -/
theorem dec_sequence_ok (root : Members) (ext : Bool) (adds : Members) (pre : Bits) (b : Bool)
    (body tail : Bytes) (fields : List (String × Val))
    (hlen : pre.length = optionalCount root)
    (hdec : decMembers root pre (body ++ tail) = .ok (fields, tail)) :
    dec (.sequence root ext adds) (packBits (if ext then b :: pre else pre) ++ (body ++ tail))
      = if (ext && b) then decExtBlock adds fields tail else .ok (.record fields, tail) := by
  rw [dec_sequence]
  cases ext with
  | false =>
    simp only [Bool.false_eq_true, if_false, Nat.add_zero, Bool.false_and, bind, Except.bind]
    rw [readPre pre _ hlen]
    simp only
    rw [take_bytesToBits_packBits' pre _ hlen, hdec]
  | true =>
    simp only [if_true, Bool.true_and, bind, Except.bind]
    have hl : (b :: pre).length = optionalCount root + 1 := by simp [hlen]
    rw [readPre (b :: pre) _ hl]
    simp only
    rw [take_bytesToBits_packBits' (b :: pre) _ hl]
    simp only [List.drop_succ_cons, List.drop_zero, List.head?_cons, Option.getD_some]
    rw [hdec]
    rfl

theorem members_length_zero {ms : Members} (h : ms.length = 0) : ms = .nil := by
  cases ms with
  | nil => rfl
  | cons n p t r => simp [Members.length] at h

theorem rt_sequence (root : Members) (ext : Bool) (adds : Members)
    (ihr : root.AllO RT) (iha : adds.AllO RT) : RT (.sequence root ext adds) := by
  intro v bytes rest hwf hwf2 hd ht hu hns he
  cases v <;> try (simp only [hasType, Bool.false_eq_true] at ht; done)
  rename_i fs
  simp only [Ty.wf, Bool.and_eq_true, decide_eq_true_eq, Bool.or_eq_true, beq_iff_eq] at hwf
  obtain ⟨⟨⟨⟨hwr, hwa⟩, hnd⟩, hext⟩, _⟩ := hwf
  simp only [oerWf, Bool.and_eq_true] at hwf2
  simp only [Ty.defaultsOk, Bool.and_eq_true] at hd
  simp only [utf8Ok, Bool.and_eq_true] at hu
  simp only [noSwallow, Bool.and_eq_true] at hns
  obtain ⟨hokr, hoka⟩ := membersOk_of_hasType root adds ext fs hnd ht
  simp only [canon]
  rw [enc] at he
  obtain ⟨pre, hpre⟩ := encPreamble_ok fs root
  cases hbody : encMembers root fs false with
  | error e => rw [hpre, hbody] at he; cases he
  | ok body =>
  rw [hpre, hbody] at he
  simp only at he
  have hm := fun tail => rt_members fs root ihr hwr hwf2.1 hd.1 hokr hu.1 hns.1 pre body tail hpre hbody
  have hlen := (hm []).1
  obtain ⟨hal, hae, had⟩ := rt_additions fs adds iha hwa hwf2.2 hd.2 hoka hu.2 hns.2
  cases ext with
  | false =>
    simp only [Bool.false_eq_true, if_false, Except.ok.injEq, false_or] at he hext
    subst he
    have := members_length_zero hext
    subst this
    have := dec_sequence_ok root false .nil pre false body rest _ hlen (hm rest).2
    simp only [Bool.false_eq_true, if_false, Bool.false_and] at this
    rw [List.append_assoc, this]
    simp [canonMembers]
  | true =>
    simp only [if_true] at he
    have hshort : dec (.sequence root true adds) ((packBits (false :: pre) ++ body) ++ rest)
        = .ok (.record (canonMembers root fs true), rest) := by
      have := dec_sequence_ok root true adds pre false body rest _ hlen (hm rest).2
      simp only [if_true, Bool.and_false, Bool.false_eq_true, if_false] at this
      rw [List.append_assoc, this]
    cases adds with
    | nil =>
      simp only [Except.ok.injEq] at he
      subst he
      rw [hshort]
      simp [canonMembers]
    | cons an ap at' ar =>
      simp only at he
      rcases hea : encAdditions (Members.cons an ap at' ar) fs with ⟨present, encs, stopped⟩
      rw [hea] at he hal hae had
      simp only at he hal hae had
      cases encs with
      | nil =>
        simp only [List.isEmpty_nil, if_true, Except.ok.injEq] at he
        subst he
        rw [hshort, hae rfl, List.append_nil]
      | cons e0 encs' =>
        simp only [List.isEmpty_cons, Bool.false_eq_true, if_false] at he
        rw [hal, Nat.sub_self, List.replicate_zero, List.nil_append] at he
        have hwrap : (fun e => do let l ← lenDet (List.length e); Except.ok (l ++ e)) = wrap := rfl
        rw [hwrap] at he
        cases hl : lenDet (((Members.cons an ap at' ar).length + 7) / 8 + 1) with
        | error x => rw [hl] at he; cases he
        | ok l =>
          rw [hl] at he
          cases hw : List.mapM wrap (e0 :: encs') with
          | error x => rw [hw] at he; cases he
          | ok wrapped =>
            rw [hw] at he
            simp only [Except.ok.injEq] at he
            subst he
            have hn : 0 < (Members.cons an ap at' ar).length := by simp [Members.length]
            have hd1 := had wrapped rest hw
            have hd2 := decExtBlock_ok (Members.cons an ap at' ar) (canonMembers root fs true) _ _ l
              present wrapped.flatten rest hl hal hn hd1
            have hd3 := dec_sequence_ok root true (Members.cons an ap at' ar) pre true body _ _ hlen
              (hm (l ++ ([(8 - (Members.cons an ap at' ar).length % 8) % 8] ++
                (packBits present ++ (wrapped.flatten ++ rest))))).2
            simp only [if_true, Bool.and_true] at hd3
            simp only [List.append_assoc]
            try simp only [List.append_assoc] at hd3
            rw [hd3, hd2]

theorem et_sequence (root : Members) (ext : Bool) (adds : Members)
    (ihr : root.AllO ET) : ET (.sequence root ext adds) := by
  intro v hwf ht
  cases v <;> try (simp only [hasType, Bool.false_eq_true] at ht; done)
  rename_i fs
  simp only [Ty.wf, Bool.and_eq_true, decide_eq_true_eq, Bool.or_eq_true, beq_iff_eq] at hwf
  obtain ⟨⟨⟨⟨hwr, hwa⟩, hnd⟩, hext⟩, _⟩ := hwf
  obtain ⟨hokr, hoka⟩ := membersOk_of_hasType root adds ext fs hnd ht
  rw [enc]
  obtain ⟨pre, hpre⟩ := encPreamble_ok fs root
  rw [hpre]
  rcases et_members fs false root ihr hwr hokr with ⟨body, hb⟩ | hb <;> rw [hb]
  · simp only
    cases ext with
    | false => exact Or.inl ⟨_, rfl⟩
    | true =>
      simp only [if_true]
      cases adds with
      | nil => exact Or.inl ⟨_, rfl⟩
      | cons an ap at' ar =>
        simp only
        rcases hea : encAdditions (Members.cons an ap at' ar) fs with ⟨present, encs, stopped⟩
        simp only
        split
        · exact Or.inl ⟨_, rfl⟩
        · have hwrap : (fun e => do let l ← lenDet (List.length e); Except.ok (l ++ e)) = wrap := rfl
          rw [hwrap]
          rcases lenDet_total (((Members.cons an ap at' ar).length + 7) / 8 + 1) with ⟨l, hl⟩ | hl <;>
            rw [hl]
          · rcases mapM_total wrap encs (fun e _ => wrap_total e) with ⟨w, hw⟩ | hw <;> rw [hw]
            · exact Or.inl ⟨_, rfl⟩
            · exact Or.inr rfl
          · exact Or.inr rfl
  · exact Or.inr rfl

end Asn1.Oer
