import Asn1Proofs.Lemmas.ExtPer
/-
  C07, ALIGNED PER: the hypothesis `Per.skipFree` of the forward theorem is necessary -- a
  machine-checked pair of versions on which the aligned PER code model (like the real codec, probed
  with /venv/bin/python on /repo) is NOT forward compatible although every hypothesis of the
  aligned PER round-trip theorem (`Per.fragFree` included) holds and V2 decodes its own encoding.

      V1:  O ::= SEQUENCE { i SEQUENCE { a BOOLEAN, ... },                          z BOOLEAN }
      V2:  O ::= SEQUENCE { i SEQUENCE { a BOOLEAN, ..., b OCTET STRING OPTIONAL }, z BOOLEAN }
      value  { i { a TRUE, b '00'H * 16384 }, z TRUE }

  The encoding of `b` (fragmented correctly: `c1`, 16384 octets, `00`) has 16386 octets.  The encoder
  writes the open type length with `append_length_determinant(16386)`, i.e. the single fragment marker
  `c1` followed by ALL 16386 octets.  The V2 decoder ignores the open type length of an addition it
  knows, so V2 -> V2 works.  The V1 decoder skips the unknown addition by that length: it takes `c1`
  for 16384 octets, stops two octets early, and reads `z` from the left-over octet `00`:
  V1 sees `z = FALSE`.  The witness is handled symbolically (no 131 000-bit list is ever evaluated).
-/
set_option linter.unusedSimpArgs false
namespace Asn1.Ext.PerCx
open Asn1 Asn1.Per Asn1.Ext
open Asn1.Uper (lenDet encChunked encChunks padToByte)

def cxOct : Ty := .octetString ⟨0, none, false⟩
/-- V1 / V2 of the inner SEQUENCE -/
def cxI1 : Ty := .sequence (.cons "a" .mandatory .boolean .nil) true .nil
def cxI2 : Ty := .sequence (.cons "a" .mandatory .boolean .nil) true (.cons "b" .optional cxOct .nil)
/-- V1 / V2 of the outer SEQUENCE -/
def cxT1 : Ty := .sequence (.cons "i" .mandatory cxI1 (.cons "z" .mandatory .boolean .nil)) false .nil
def cxT2 : Ty := .sequence (.cons "i" .mandatory cxI2 (.cons "z" .mandatory .boolean .nil)) false .nil

def cxData : Bytes := List.replicate 16384 0
def cxVI (d : Bytes) : Val := .record [("a", .bool true), ("b", .bytes d)]
def cxVof (d : Bytes) : Val := .record [("i", cxVI d), ("z", .bool true)]
/-- the V2 value -/
def cxV : Val := cxVof cxData
/-- what V1 should see -/
def cxExpected : Val := .record [("i", .record [("a", .bool true)]), ("z", .bool true)]
/-- what V1 does see -/
def cxSeen : Val := .record [("i", .record [("a", .bool true)]), ("z", .bool false)]

/-- extension bit, `a`, number of additions (1), presence bitmap, 6 padding bits -/
def cxHdr : Bits := [true, true, false, false, false, false, false, false, false, true,
  false, false, false, false, false, false]
/-- the octet `c1`: "16384 items follow, then more fragments" -/
def c1 : Bits := [true, true, false, false, false, false, false, true]
def z8 : Bits := [false, false, false, false, false, false, false, false]
def z15 : Bits := [false, false, false, false, false, false, false, false, false, false, false, false,
  false, false, false]

/-- the encoding of the addition `b` in its own buffer -/
def cxE : Bits := c1 ++ bytesToBits cxData ++ z8
/-- the V2 encoding of the value -/
def cxBits : Bits := cxHdr ++ (c1 ++ cxE) ++ [true]

/-! ### the encoder -/

theorem encChunked_16384 (items : List Bits) (h : items.length = 16384) :
    encChunked items = c1 ++ items.flatten ++ z8 := by
  unfold encChunked
  rw [h]
  show encChunks 3 items = _
  have hl : lenDet 16384 = (c1, 16384) := by simp [lenDet, c1]; rfl
  have hl0 : lenDet 0 = (z8, 0) := by simp [lenDet, z8]; rfl
  simp only [encChunks, h, hl, Nat.lt_irrefl, if_false, List.drop_of_length_le (Nat.le_of_eq h),
    List.take_of_length_le (Nat.le_of_eq h), List.length_nil, hl0, List.take_nil, List.flatten_nil,
    List.append_nil, Nat.zero_lt_succ, if_true]

theorem cxData_length : cxData.length = 16384 := List.length_replicate ..

theorem cx_enc_oct : enc cxOct 0 (.bytes cxData) = .ok cxE := by
  unfold cxOct
  rw [enc_octetString]
  simp only [Bool.false_eq_true, if_false, encOctRoot, Uper.sizeBits]
  rw [encChunked_16384 _ (by rw [List.length_map, cxData_length]), flatten_map_natToBits8]
  have ha : alignBits (0 + ([] : Bits).length) = [] := rfl
  simp only [ha, List.nil_append, cxE]

theorem cxE_length : cxE.length = 8 * 16386 := by
  unfold cxE
  rw [List.length_append, List.length_append, bytesToBits_length, cxData_length]
  rfl

theorem cxBits_length : cxBits.length = 131113 := by
  unfold cxBits
  rw [List.length_append, List.length_append, List.length_append, cxE_length]
  rfl

theorem cx_openType : openType cxE = c1 ++ cxE := by
  have hl : lenDet 16386 = (c1, 16384) := by simp [lenDet, c1]; rfl
  rw [openType_eq, cxE_length]
  simp [hl]

theorem enc_inner (d : Bytes) (e : Bits) (he : enc cxOct 0 (.bytes d) = .ok e) :
    enc cxI2 0 (cxVI d) = .ok (cxHdr ++ openType e) := by
  simp only [cxI2, cxVI, enc_sequence, encMembers_cons, encPreamble_cons, encAdditions_cons, encHere,
    addHere, lookup, encMembers, encPreamble, encAdditions]
  simp [he, enc, Members.length, Uper.encNsLength]
  rfl

theorem enc_outer (d : Bytes) (e : Bits) (he : enc cxOct 0 (.bytes d) = .ok e) :
    enc cxT2 0 (cxVof d) = .ok (cxHdr ++ openType e ++ [true]) := by
  have hi := enc_inner d e he
  simp only [cxT2, cxVof, enc_sequence, encMembers_cons, encPreamble_cons, encHere, lookup,
    encMembers, encPreamble]
  simp [hi, enc]

theorem cx_enc : enc cxT2 0 cxV = .ok cxBits := by
  unfold cxV cxBits
  rw [enc_outer cxData cxE cx_enc_oct, cx_openType]

/-! ### the V1 decoder -/

/-- the V1 decoder of the inner SEQUENCE takes the fragment marker `c1` for an open type length of
16384 octets (stated for arbitrary contents) -/
theorem dec_inner (D1 D2 : Bits) (hD : D1.length = 8 * 16384) (fuel : Nat) :
    dec cxI1 fuel ⟨0, cxHdr ++ (c1 ++ (D1 ++ D2))⟩ =
      .ok (.record [("a", .bool true)], ⟨131096, D2⟩) := by
  have h1 := readLenDet_lenDet 16 16386 (D1 ++ D2)
  have hl : lenDet 16386 = (c1, 16384) := by simp [lenDet, c1]; rfl
  rw [hl] at h1
  simp only at h1
  have e1 : ∀ X : Bits, decNsLength ⟨0 + 1 + 1,
      false :: false :: false :: false :: false :: false :: false :: X⟩ = .ok (1, ⟨9, X⟩) :=
    fun X => rfl
  have e2 : ∀ X : Bits, readBits 1 ⟨9, true :: X⟩ = .ok ([true], ⟨10, X⟩) := fun X => rfl
  have e3 : ∀ X : Bits,
      align ⟨10, false :: false :: false :: false :: false :: false :: X⟩ = ⟨16, X⟩ := by
    intro X; simp [align, padLen]
  simp only [cxI1, cxHdr, dec, decMembers, decAdditions, skipUnknown, optionalCount, bind,
    Except.bind, List.cons_append, List.nil_append, readBit_cons, if_true, readBits_zero, e1, e2, e3,
    h1]
  rw [readBits_append _ _ _ hD]
  rfl

theorem dec_outer (D1 D2 : Bits) (hD : D1.length = 8 * 16384) (fuel : Nat) :
    dec cxT1 fuel ⟨0, cxHdr ++ (c1 ++ (D1 ++ false :: D2))⟩ = .ok (cxSeen, ⟨131097, D2⟩) := by
  have hi := dec_inner D1 (false :: D2) hD fuel
  simp only [cxT1, dec, decMembers, optionalCount, bind, Except.bind, readBits_zero, if_false,
    Bool.false_eq_true]
  rw [hi]
  rfl

theorem cxData_split : bytesToBits cxData = bytesToBits (List.replicate 16383 0) ++ z8 := by
  have : cxData = List.replicate 16383 0 ++ [0] := by
    unfold cxData
    rw [show (16384 : Nat) = 16383 + 1 from rfl, List.replicate_succ']
  rw [this, bytesToBits_append]
  rfl

/-- the V1 decoder stops 15 bits before the end of the addition, having read `z` from its last but
one octet -/
theorem cx_dec (rest : Bits) (fuel : Nat) :
    dec cxT1 fuel ⟨0, cxBits ++ rest⟩ =
      .ok (cxSeen, ⟨131097, z15 ++ true :: rest⟩) := by
  have h := dec_outer (c1 ++ bytesToBits (List.replicate 16383 0))
    (z15 ++ true :: rest)
    (by rw [List.length_append, bytesToBits_length, List.length_replicate]; rfl) fuel
  have hb : cxBits ++ rest = cxHdr ++ (c1 ++ ((c1 ++ bytesToBits (List.replicate 16383 0)) ++
      false :: (z15 ++ true :: rest))) := by
    unfold cxBits cxE
    rw [cxData_split]
    simp only [List.append_assoc, z8, z15, List.cons_append, List.nil_append]
  rw [hb]
  exact h

/-! ### the side conditions -/

theorem cx_extends : Extends cxT1 cxT2 := (extendsB_iff _ _).1 (by rfl)
theorem cx_wf : cxT2.wf = true := by decide
theorem cx_defaultsOk1 : cxT1.defaultsOk = true := by decide
theorem cx_defaultsOk2 : cxT2.defaultsOk = true := by decide
theorem cx_nsOk : cxT2.nsOk = true := by decide
theorem cx_hasType : hasType cxT2 cxV = true := by decide +kernel
theorem cx_fragFree : fragFree cxT2 cxV = true := by decide +kernel
theorem cx_expected : canon cxT1 (project cxT1 cxT2 cxV) = cxExpected := by rfl

theorem cx_not_skipFree : skipFree cxT1 cxT2 cxV = false := by
  have hs : Uper.smallLen ((cxE.length + 7) / 8) = false := by
    rw [cxE_length]; decide
  simp [cxT1, cxT2, cxI1, cxI2, cxV, cxVof, cxVI, skipFree, skipFreeMembers, skipFreeAdds, openSmall,
    lookup, cx_enc_oct, hs]

theorem cx_seen_ne : cxSeen ≠ cxExpected := by
  intro h
  simp [cxSeen, cxExpected] at h

/-- the V1 decoder does not return the V1 projection and what follows the encoding -/
theorem cx_forward_fails (rest : Bits) (fuel : Nat) :
    dec cxT1 fuel ⟨0, cxBits ++ rest⟩ ≠
      .ok (canon cxT1 (project cxT1 cxT2 cxV), ⟨0 + cxBits.length, rest⟩) := by
  intro h
  rw [cx_dec, cx_expected] at h
  simp only [Except.ok.injEq, Prod.mk.injEq] at h
  exact cx_seen_ne h.1

/-! ### `Specification.encode` / `Specification.decode` -/

theorem cx_encode : encode cxT2 cxV = .ok (packBits cxBits) := by
  obtain ⟨bits, hb, hE⟩ := encode_total cxT2 cxV cx_wf cx_hasType
  rw [cx_enc] at hb
  cases hb
  exact hE

/-- V2 decodes its own encoding -/
theorem cx_decode_v2 : decode cxT2 (packBits cxBits) = .ok cxV :=
  decode_encode cxT2 cxV _ cx_wf cx_defaultsOk2 cx_hasType cx_fragFree cx_nsOk cx_encode

/-- V1 decodes it to a wrong value -/
theorem cx_decode_v1 : decode cxT1 (packBits cxBits) = .ok cxSeen :=
  PerX.decode_packBits cxT1 cxBits cxSeen (fun rest fuel _ => ⟨_, cx_dec rest fuel⟩)

end Asn1.Ext.PerCx

#print axioms Asn1.Ext.PerCx.cx_forward_fails
#print axioms Asn1.Ext.PerCx.cx_decode_v1
#print axioms Asn1.Ext.PerCx.cx_decode_v2
