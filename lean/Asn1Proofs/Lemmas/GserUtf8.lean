import Asn1Proofs.Lemmas.GserTree
import Asn1Proofs.Lemmas.JsonAscii
import Asn1Proofs.Lemmas.UperUtf8
/-
  The octet level of the GSER model: every code point of a text the writer emits for a typed value is a
  Unicode scalar value, so the strict UTF-8 decoder gives the text back from its octets.
-/
namespace Asn1.Gser
open Asn1.Uper (Err)
open Asn1.Json (isWs renderInt Ascii renderInt_ascii)
open Asn1.Jer (strCps hexDigitU hexDigitU_lt MembersAll AltsAll)
open Asn1.Oer (mapM_nil' mapM_cons' alphabet_lt)

/-- Unicode scalar values (what UTF-8 can carry) -/
def Scalar (l : List Nat) : Prop := ∀ c ∈ l, c < 0x110000 ∧ ¬ (0xd800 ≤ c ∧ c < 0xe000)

theorem Scalar.nil : Scalar [] := by intro c hc; simp at hc

theorem Scalar.append {a b : List Nat} (ha : Scalar a) (hb : Scalar b) : Scalar (a ++ b) := by
  intro x hx
  simp only [List.mem_append] at hx
  rcases hx with hx | hx
  · exact ha x hx
  · exact hb x hx

theorem Scalar.of_ascii {l : List Nat} (h : Ascii l) : Scalar l := by
  intro c hc
  have := h c hc
  omega

theorem Scalar.cons {c : Nat} {l : List Nat} (hc : c < 128) (hl : Scalar l) : Scalar (c :: l) := by
  intro x hx
  simp only [List.mem_cons] at hx
  rcases hx with hx | hx
  · subst hx; omega
  · exact hl x hx

theorem ascii_of_ws {l : List Nat} (h : ∀ c ∈ l, isWs c = true) : Ascii l := by
  intro c hc
  have := h c hc
  simp only [isWs, Bool.or_eq_true, beq_iff_eq] at this
  omega

theorem ascii_of_wordChars {l : List Nat} (h : ∀ c ∈ l, isWordChar c = true) : Ascii l := by
  intro c hc
  have := isWordChar_cases (h c hc)
  omega

mutual
  /-- every character string in the tree consists of Unicode scalar values -/
  def strsScalar : GVal → Prop
    | .str cps => Scalar cps
    | .braces its => itemsScalar its
    | .choice _ v => strsScalar v
    | _ => True
  def itemsScalar : List (Option (List Nat) × GVal) → Prop
    | [] => True
    | (_, v) :: r => strsScalar v ∧ itemsScalar r
end

theorem quoteChar_scalar (cps : List Nat) (h : Scalar cps) : Scalar (cps.flatMap quoteChar) := by
  intro x hx
  simp only [List.mem_flatMap] at hx
  obtain ⟨c, hc, hx⟩ := hx
  unfold quoteChar at hx
  split at hx
  · simp only [List.mem_cons, List.not_mem_nil, or_false, or_self] at hx; subst hx; omega
  · simp only [List.mem_cons, List.not_mem_nil, or_false] at hx; rw [hx]; exact h c hc

theorem renderName_scalar (nm : Option (List Nat)) (h : nameOk nm = true) : Scalar (renderName nm) := by
  cases nm with
  | none => exact .nil
  | some n =>
    obtain ⟨_, _, _, _, hall, _⟩ := isIdent_parts h
    exact .append (.of_ascii (ascii_of_wordChars hall)) (.cons (by decide) .nil)

theorem commaIf_scalar {α : Type} (l : List α) : Scalar (commaIf l) := by
  unfold commaIf
  split
  · exact .nil
  · exact .cons (by decide) .nil

mutual
  theorem renderV_scalar (ind : Nat) (g : GVal) (hg : wfG g = true) (hs : strsScalar g) (sep : List Nat)
      (hsep : ∀ c ∈ sep, isWs c = true) : Scalar (renderV ind sep g) := by
    match g, hg, hs with
    | .word w, hg, _ =>
      rw [renderV]; rw [wfG] at hg
      obtain ⟨_, _, _, _, hall, _⟩ := isWord_parts hg
      exact .of_ascii (ascii_of_wordChars hall)
    | .num i, _, _ => rw [renderV]; exact .of_ascii (renderInt_ascii i)
    | .hstr ds, hg, _ =>
      rw [renderV]; rw [wfG] at hg
      simp only [List.all_eq_true, decide_eq_true_eq] at hg
      refine .append (.append (.cons (by decide) .nil) ?_) (.cons (by decide) (.cons (by decide) .nil))
      intro x hx
      simp only [List.mem_map] at hx
      obtain ⟨d, hd, rfl⟩ := hx
      have := hexDigitU_lt d (hg d hd)
      omega
    | .bstr bs, _, _ =>
      rw [renderV]
      refine .append (.append (.cons (by decide) .nil) ?_) (.cons (by decide) (.cons (by decide) .nil))
      intro x hx
      simp only [List.mem_map] at hx
      obtain ⟨b, _, rfl⟩ := hx
      cases b <;> simp [bitChar]
    | .str cps, _, hs =>
      rw [renderV]; rw [strsScalar] at hs
      exact .append (.append (.cons (by decide) .nil) (quoteChar_scalar cps hs)) (.cons (by decide) .nil)
    | .braces its, hg, hs =>
      rw [renderV]; rw [wfG] at hg; rw [strsScalar] at hs
      have hm := replicate_ws sep ind hsep
      exact .append (.append (.append (.cons (by decide) .nil) (renderItems_scalar ind its hg hs _ hm))
        (.of_ascii (ascii_of_ws hsep))) (.cons (by decide) .nil)
    | .choice id v, hg, hs =>
      rw [renderV]; rw [wfG, Bool.and_eq_true] at hg; rw [strsScalar] at hs
      obtain ⟨_, _, _, _, hall, _⟩ := isIdent_parts hg.1
      exact .append (.append (.of_ascii (ascii_of_wordChars hall))
        (.cons (by decide) (.cons (by decide) (.cons (by decide) .nil)))) (renderV_scalar ind v hg.2 hs sep hsep)
  theorem renderItems_scalar (ind : Nat) (l : List (Option (List Nat) × GVal)) (hl : wfItems l = true)
      (hs : itemsScalar l) (msep : List Nat) (hm : ∀ c ∈ msep, isWs c = true) :
      Scalar (renderItems ind msep l) := by
    match l, hl, hs with
    | [], _, _ => rw [renderItems]; exact .nil
    | (nm, v) :: xs, hl, hs =>
      rw [wfItems, Bool.and_eq_true, Bool.and_eq_true] at hl
      rw [itemsScalar] at hs
      rw [renderItems]
      exact .append (.append (.append (.append (.of_ascii (ascii_of_ws hm)) (renderName_scalar nm hl.1.1))
        (renderV_scalar ind v hl.1.2 hs.1 msep hm)) (commaIf_scalar xs)) (renderItems_scalar ind xs hl.2 hs.2 msep hm)
end

theorem render_scalar (indent : Option Nat) (g : GVal) (hg : wfG g = true) (hs : strsScalar g) :
    Scalar (render indent g) := by
  cases indent with
  | none => exact renderV_scalar 0 g hg hs [32] (by intro c hc; simp at hc; subst hc; decide)
  | some n => exact renderV_scalar n g hg hs [10] (by intro c hc; simp at hc; subst hc; decide)

/-! ### the trees of typed values have scalar strings -/

def SS (t : Ty) : Prop := ∀ (v : Val) (g : GVal), t.wf = true → hasType t v = true → toG t v = .ok g → strsScalar g

theorem ss_boolean : SS .boolean := by
  intro v g hwf ht he
  cases v <;> simp [hasType] at ht
  simp only [toG, Except.ok.injEq] at he
  subst he; trivial

theorem ss_null : SS .null := by
  intro v g hwf ht he
  cases v <;> simp [hasType] at ht
  simp only [toG, Except.ok.injEq] at he
  subst he; trivial

theorem ss_integer (c : IntC) : SS (.integer c) := by
  intro v g hwf ht he
  cases v <;> simp [hasType] at ht
  simp only [toG, Except.ok.injEq] at he
  subst he; trivial

theorem ss_enumerated (root : List (String × Int)) (ext : Option (List (String × Int))) :
    SS (.enumerated root ext) := by
  intro v g hwf ht he
  cases v <;> simp [hasType] at ht
  simp only [toG] at he
  split at he
  · simp only [Except.ok.injEq] at he; subst he; trivial
  · cases he

theorem ss_octetString (c : SizeC) : SS (.octetString c) := by
  intro v g hwf ht he
  cases v <;> simp [hasType] at ht
  simp only [toG, Except.ok.injEq] at he
  subst he; trivial

theorem ss_bitString (c : SizeC) : SS (.bitString c) := by
  intro v g hwf ht he
  cases v <;> simp [hasType] at ht
  simp only [toG, Except.ok.injEq] at he
  subst he; trivial

theorem ss_charString (k : StrKind) (c : SizeC) : SS (.charString k c) := by
  intro v g hwf ht he
  cases v <;> simp only [hasType, Bool.false_eq_true] at ht
  rename_i cps
  simp only [toG, Except.ok.injEq] at he
  subst he
  rw [strsScalar]
  intro cp hcp
  cases k
  case utf8 =>
    simp only [List.all_eq_true, Bool.and_eq_true, decide_eq_true_eq, Bool.not_eq_true',
      Bool.and_eq_false_iff, decide_eq_false_iff_not] at ht
    have := ht cp hcp
    omega
  all_goals
    simp only [Bool.and_eq_true, List.all_eq_true, List.contains_iff_mem] at ht
    have := alphabet_lt _ cp (ht.1 cp hcp)
    omega

theorem itemsScalar_map (gs : List GVal) (h : ∀ g ∈ gs, strsScalar g) :
    itemsScalar (gs.map fun g => (none, g)) := by
  induction gs with
  | nil => trivial
  | cons g gs ih =>
    simp only [List.map_cons, itemsScalar]
    exact ⟨h g (List.mem_cons_self ..), ih (fun x hx => h x (List.mem_cons_of_mem _ hx))⟩

theorem ss_sequenceOf (e : Ty) (c : SizeC) (ih : SS e) : SS (.sequenceOf e c) := by
  intro v g hwf ht he
  cases v <;> simp only [hasType, Bool.false_eq_true] at ht
  rename_i vs
  simp only [Ty.wf, Bool.and_eq_true] at hwf
  simp only [Bool.and_eq_true, List.all_eq_true] at ht
  simp only [toG] at he
  cases hm : vs.mapM (toG e) with
  | error err => rw [hm] at he; cases he
  | ok gs =>
    rw [hm] at he
    cases he
    rw [strsScalar]
    apply itemsScalar_map
    have hall := ht.1
    clear ht
    induction vs generalizing gs with
    | nil => rw [mapM_nil'] at hm; cases hm; intro g hg; simp at hg
    | cons v vs ihl =>
      rw [mapM_cons'] at hm
      cases hv : toG e v with
      | error err => rw [hv] at hm; cases hm
      | ok g0 =>
        rw [hv] at hm
        cases hr : vs.mapM (toG e) with
        | error err => rw [hr] at hm; cases hm
        | ok gs' =>
          rw [hr] at hm
          cases hm
          intro g hg
          simp only [List.mem_cons] at hg
          rcases hg with hg | hg
          · subst hg; exact ih v _ hwf.1 (hall v (List.mem_cons_self ..)) hv
          · exact ihl gs' hr (fun x hx => hall x (List.mem_cons_of_mem _ hx)) g hg

theorem itemsScalar_append (a b : List (Option (List Nat) × GVal)) (ha : itemsScalar a) (hb : itemsScalar b) :
    itemsScalar (a ++ b) := by
  induction a with
  | nil => exact hb
  | cons x r ih =>
    obtain ⟨nm, v⟩ := x
    rw [itemsScalar] at ha
    rw [List.cons_append, itemsScalar]
    exact ⟨ha.1, ih ha.2⟩

theorem membersToG_scalar (fs : List (String × Val)) :
    ∀ (ms : Members) (a : List (Option (List Nat) × GVal)), MembersAll SS ms → ms.wf = true → membersOk ms fs = true →
      membersToG ms fs = .ok a → itemsScalar a := by
  intro ms
  induction ms using Members.ind with
  | nil => intro a _ _ _ h; simp only [membersToG, Except.ok.injEq] at h; subst h; trivial
  | cons name p t rest ih =>
    intro a hall hwf hok h
    obtain ⟨hss, hall'⟩ := hall
    simp only [Members.wf, Bool.and_eq_true] at hwf
    simp only [membersOk, Bool.and_eq_true] at hok
    simp only [membersToG] at h
    cases hl : lookup name fs with
    | some v =>
      simp only [hl] at h hok
      cases hj : toG t v with
      | error e => simp [hj] at h
      | ok g =>
        simp only [hj] at h
        cases hr : membersToG rest fs with
        | error e => simp [hr] at h
        | ok gs =>
          simp only [hr, Except.ok.injEq] at h
          subst h
          rw [itemsScalar]
          exact ⟨hss v g hwf.1 hok.1 hj, ih gs hall' hwf.2 hok.2 hr⟩
    | none =>
      simp only [hl] at h
      have hrest : membersToG rest fs = .ok a := by cases p <;> simp_all
      exact ih a hall' hwf.2 hok.2 hrest

theorem altToG_scalar (n : String) (v : Val) : ∀ as : Alts, AltsAll SS as → as.wf = true → hasAlt as n v = true →
    ∀ G, altToG as n v = some (.ok G) → strsScalar G := by
  intro as
  induction as using Alts.ind with
  | nil => intro _ _ _ G h; simp [altToG] at h
  | cons m t rest ih =>
    intro hall hwf ht G h
    obtain ⟨hss, hall'⟩ := hall
    simp only [Alts.wf, Bool.and_eq_true] at hwf
    simp only [altToG] at h
    simp only [hasAlt] at ht
    by_cases hm : m = n
    · subst hm
      simp only [beq_self_eq_true, if_true, Option.some.injEq] at h ht
      cases hj : toG t v with
      | error e => simp [hj] at h
      | ok g =>
        simp only [hj, Except.ok.injEq] at h
        subst h
        rw [strsScalar]
        exact hss v g hwf.1 ht hj
    · have hb : (m == n) = false := beq_eq_false_iff_ne.mpr hm
      simp only [hb, Bool.false_eq_true, if_false] at h ht
      exact ih hall' hwf.2 ht G h

theorem ss_sequence (root : Members) (ext : Bool) (adds : Members)
    (ihr : MembersAll SS root) (iha : MembersAll SS adds) : SS (.sequence root ext adds) := by
  intro v g hwf ht he
  cases v <;> try (simp only [hasType, Bool.false_eq_true] at ht)
  rename_i fs
  simp only [Ty.wf, Bool.and_eq_true, decide_eq_true_eq] at hwf
  obtain ⟨⟨⟨⟨hwr, hwa⟩, hnd⟩, _⟩, _⟩ := hwf
  obtain ⟨hok1, hok2⟩ := membersOk_of_hasType root adds ext fs hnd ht
  simp only [toG] at he
  cases h1 : membersToG root fs with
  | error e => simp [h1] at he
  | ok a =>
    simp only [h1] at he
    cases h2 : membersToG adds fs with
    | error e => simp [h2] at he
    | ok b =>
      simp only [h2, Except.ok.injEq] at he
      subst he
      rw [strsScalar]
      exact itemsScalar_append a b (membersToG_scalar fs root a ihr hwr hok1 h1)
        (membersToG_scalar fs adds b iha hwa hok2 h2)

theorem ss_choice (root : Alts) (ext : Bool) (adds : Alts)
    (ihr : AltsAll SS root) (iha : AltsAll SS adds) : SS (.choice root ext adds) := by
  intro v G hwf ht he
  cases v <;> try (simp only [hasType, Bool.false_eq_true] at ht)
  rename_i n v
  simp only [Ty.wf, Bool.and_eq_true, List.nodup_append, decide_eq_true_eq] at hwf
  obtain ⟨⟨⟨⟨hwr, hwa⟩, _⟩, ⟨_, _, disj⟩⟩, _⟩ := hwf
  simp only [Bool.or_eq_true] at ht
  simp only [toG] at he
  cases h1 : altToG root n v with
  | some r =>
    simp only [h1] at he
    subst he
    have hmem : n ∈ root.names := altToG_mem n v root (by simp [h1])
    have hta : hasAlt adds n v = false :=
      Jer.hasAlt_false_of_not_mem n v adds (fun hm => disj n hmem n hm rfl)
    have htr : hasAlt root n v = true := by
      rcases ht with ht | ht
      · exact ht
      · rw [hta] at ht; cases ht
    exact altToG_scalar n v root ihr hwr htr G h1
  | none =>
    simp only [h1] at he
    obtain ⟨_, _, n3⟩ := alts_none n v root h1
    cases h2 : altToG adds n v with
    | none => simp [h2] at he
    | some r =>
      simp only [h2] at he
      subst he
      have hta : hasAlt adds n v = true := by
        rcases ht with ht | ht
        · rw [n3] at ht; cases ht
        · exact ht
      exact altToG_scalar n v adds iha hwa hta G h2

theorem ss_all (t : Ty) : SS t :=
  Ty.rec (motive_1 := SS) (motive_2 := MembersAll SS) (motive_3 := AltsAll SS)
    ss_boolean ss_null ss_integer ss_enumerated ss_octetString ss_bitString ss_charString
    (fun root ext adds ihr iha => ss_sequence root ext adds ihr iha)
    (fun e c ih => ss_sequenceOf e c ih)
    (fun root ext adds ihr iha => ss_choice root ext adds ihr iha)
    trivial (fun _ _ _ _ iht ihr => ⟨iht, ihr⟩)
    trivial (fun _ _ _ iht ihr => ⟨iht, ihr⟩) t

end Asn1.Gser
