import Asn1Model.Sched
/-
  Auxiliary lemmas for C18 (micro-step interleaving model): the per-thread invariant relating a call
  to its thread, and its preservation by `stepAt` / `runSched` under the `ReadOnly` frame hypothesis.
-/
namespace Asn1.Sched

/-- the micro-step fold used by `solo` -/
abbrev stepFn {σ ℓ : Type} : σ × ℓ → (σ → ℓ → σ × ℓ) → σ × ℓ :=
  fun acc f => f acc.1 acc.2

/-- thread `t` is a partial execution of call `c` that has only ever seen shared state `s` -/
def Rel {σ ℓ : Type} (s : σ) (c : Call σ ℓ) (t : Thread σ ℓ) : Prop :=
  ∃ done, c.steps = done ++ t.rest ∧ done.foldl stepFn (s, c.init) = (s, t.loc)

/-- pointwise invariant over the call list and the thread list -/
inductive AllRel {σ ℓ : Type} (s : σ) : List (Call σ ℓ) → List (Thread σ ℓ) → Prop
  | nil : AllRel s [] []
  | cons {c t cs ts} : Rel s c t → AllRel s cs ts → AllRel s (c :: cs) (t :: ts)

theorem rel_start {σ ℓ : Type} (s : σ) (c : Call σ ℓ) : Rel s c (start c) :=
  ⟨[], rfl, rfl⟩

theorem allRel_start {σ ℓ : Type} (s : σ) (calls : List (Call σ ℓ)) :
    AllRel s calls (calls.map start) := by
  induction calls with
  | nil => exact .nil
  | cons c cs ih => exact .cons (rel_start s c) ih

/-- one micro-step of a read-only call preserves the invariant and the shared state -/
theorem rel_step {σ ℓ : Type} {s : σ} {c : Call σ ℓ} {f : σ → ℓ → σ × ℓ}
    {r : List (σ → ℓ → σ × ℓ)} {l : ℓ}
    (hro : ReadOnly c) (h : Rel s c ⟨f :: r, l⟩) :
    (f s l).1 = s ∧ Rel s c ⟨r, (f s l).2⟩ := by
  obtain ⟨done, hsteps, hfold⟩ := h
  have hmem : f ∈ c.steps := by
    rw [hsteps]; exact List.mem_append_right _ (List.mem_cons_self ..)
  have hs : (f s l).1 = s := hro f hmem s l
  refine ⟨hs, done ++ [f], ?_, ?_⟩
  · simp [hsteps]
  · rw [List.foldl_append, hfold]
    show f s l = (s, (f s l).2)
    exact Prod.ext hs rfl

theorem stepAt_preserves {σ ℓ : Type} {s : σ} {cs : List (Call σ ℓ)} {ts : List (Thread σ ℓ)}
    (hrel : AllRel s cs ts) (hro : ∀ c ∈ cs, ReadOnly c) (i : Nat) :
    (stepAt s ts i).1 = s ∧ AllRel s cs (stepAt s ts i).2 := by
  induction hrel generalizing i with
  | nil => exact ⟨rfl, .nil⟩
  | @cons c t cs ts hct htl ih =>
    cases i with
    | zero =>
      obtain ⟨rest, loc⟩ := t
      cases rest with
      | nil => exact ⟨rfl, .cons hct htl⟩
      | cons f r =>
        obtain ⟨hs, hr⟩ := rel_step (hro c (List.mem_cons_self ..)) hct
        exact ⟨hs, .cons hr htl⟩
    | succ i =>
      obtain ⟨hs, hr⟩ := ih (fun c hc => hro c (List.mem_cons_of_mem _ hc)) i
      exact ⟨hs, .cons hct hr⟩

theorem runSched_preserves {σ ℓ : Type} {s : σ} {cs : List (Call σ ℓ)} (hro : ∀ c ∈ cs, ReadOnly c)
    (sched : List Nat) {ts : List (Thread σ ℓ)} (hrel : AllRel s cs ts) :
    (runSched s ts sched).1 = s ∧ AllRel s cs (runSched s ts sched).2 := by
  induction sched generalizing ts with
  | nil => exact ⟨rfl, hrel⟩
  | cons i sched ih =>
    obtain ⟨hs, hr⟩ := stepAt_preserves hrel hro i
    have := ih hr
    show (runSched (stepAt s ts i).1 (stepAt s ts i).2 sched).1 = s ∧
      AllRel s cs (runSched (stepAt s ts i).1 (stepAt s ts i).2 sched).2
    rw [hs]; exact this

/-- a finished thread related to its call holds the solo result -/
theorem rel_done {σ ℓ : Type} {s : σ} {c : Call σ ℓ} {t : Thread σ ℓ}
    (h : Rel s c t) (hd : t.rest = []) : t.loc = (solo s c).2 := by
  obtain ⟨done, hsteps, hfold⟩ := h
  rw [hd, List.append_nil] at hsteps
  unfold solo
  rw [hsteps]
  show t.loc = (done.foldl stepFn (s, c.init)).2
  rw [hfold]

theorem allRel_done {σ ℓ : Type} {s : σ} {cs : List (Call σ ℓ)} {ts : List (Thread σ ℓ)}
    (hrel : AllRel s cs ts) (hd : Done ts) :
    ts.map (·.loc) = cs.map (fun c => (solo s c).2) := by
  induction hrel with
  | nil => rfl
  | @cons c t cs ts hct _ ih =>
    have h1 := rel_done hct (hd t (List.mem_cons_self ..))
    have h2 := ih (fun t' ht' => hd t' (List.mem_cons_of_mem _ ht'))
    simp only [List.map_cons, h1, h2]

end Asn1.Sched
