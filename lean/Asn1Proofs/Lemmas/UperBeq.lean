import Asn1Model.Schema
/-
  Soundness and reflexivity of the hand-written boolean equality on `Asn1.Val`.
-/
namespace Asn1

mutual
  theorem Val.eq_of_beq_true (a b : Val) (h : Val.beq a b = true) : a = b := by
    cases a <;> cases b <;> simp only [Val.beq, Bool.and_eq_true, beq_iff_eq] at h <;>
      first
      | rfl
      | (exact absurd h (by decide))
      | (cases h; rfl)
      | skip
    case record.record fa fb => rw [Val.eqFields_of_beqFields fa fb h]
    case list.list la lb => rw [Val.eqList_of_beqList la lb h]
    case bits.bits d n e m => obtain ⟨h1, h2⟩ := h; subst h1; subst h2; rfl
    case choice.choice s v t w =>
      obtain ⟨h1, h2⟩ := h
      subst h1
      rw [Val.eq_of_beq_true v w h2]
  theorem Val.eqFields_of_beqFields (a b : List (String × Val))
      (h : Val.beqFields a b = true) : a = b := by
    match a, b with
    | [], [] => rfl
    | [], _ :: _ => simp [Val.beqFields] at h
    | _ :: _, [] => simp [Val.beqFields] at h
    | (n, v) :: r, (m, w) :: s =>
      simp only [Val.beqFields, Bool.and_eq_true, beq_iff_eq] at h
      obtain ⟨⟨h1, h2⟩, h3⟩ := h
      subst h1
      rw [Val.eq_of_beq_true v w h2, Val.eqFields_of_beqFields r s h3]
  theorem Val.eqList_of_beqList (a b : List Val)
      (h : Val.beqList a b = true) : a = b := by
    match a, b with
    | [], [] => rfl
    | [], _ :: _ => simp [Val.beqList] at h
    | _ :: _, [] => simp [Val.beqList] at h
    | v :: r, w :: s =>
      simp only [Val.beqList, Bool.and_eq_true] at h
      obtain ⟨h1, h2⟩ := h
      rw [Val.eq_of_beq_true v w h1, Val.eqList_of_beqList r s h2]
end

theorem Val.eq_of_beq (a b : Val) (h : (a == b) = true) : a = b :=
  Val.eq_of_beq_true a b h

mutual
  theorem Val.beq_self_true (a : Val) : Val.beq a a = true := by
    cases a <;> simp only [Val.beq, Bool.and_eq_true, beq_self_eq_true, and_self, true_and]
    case record fa => exact Val.beqFields_self fa
    case list la => exact Val.beqList_self la
    case choice s v => exact Val.beq_self_true v
  theorem Val.beqFields_self (a : List (String × Val)) : Val.beqFields a a = true := by
    match a with
    | [] => rfl
    | (n, v) :: r =>
      simp only [Val.beqFields, Bool.and_eq_true, beq_self_eq_true, true_and]
      exact ⟨Val.beq_self_true v, Val.beqFields_self r⟩
  theorem Val.beqList_self (a : List Val) : Val.beqList a a = true := by
    match a with
    | [] => rfl
    | v :: r =>
      simp only [Val.beqList, Bool.and_eq_true]
      exact ⟨Val.beq_self_true v, Val.beqList_self r⟩
end

theorem Val.beq_self (a : Val) : (a == a) = true :=
  Val.beq_self_true a

end Asn1

