import Asn1Proofs.Lemmas.UperMisc
import Asn1Proofs.Lemmas.UperMembers
import Asn1Proofs.Lemmas.UperBeq
import Asn1Proofs.Lemmas.UperUtf8
/-
  Statement shapes for the mutual induction and the extra side condition `nsOk`.
-/
namespace Asn1

/-- an index `< n` written as a normally small non-negative whole number needs a length
determinant `< 16384` (always true for types that fit in memory: `n ≤ 2^131064`) -/
def nsIndexOk (n : Nat) : Bool := decide ((bitLength (n - 1) + 7) / 8 < 16384)

mutual
  /-- side condition missing from `Ty.wf`: the number of ENUMERATED additions / CHOICE additions is
  small enough that `encNsnnwn` of an index never needs a fragmented length determinant -/
  def Ty.nsOk : Ty → Bool
    | .enumerated _ (some adds) => nsIndexOk adds.length
    | .sequence root _ adds => root.nsOk && adds.nsOk
    | .sequenceOf e _ => e.nsOk
    | .choice root _ adds => root.nsOk && adds.nsOk && nsIndexOk adds.length
    | _ => true
  def Members.nsOk : Members → Bool
    | .nil => true
    | .cons _ _ t rest => t.nsOk && rest.nsOk
  def Alts.nsOk : Alts → Bool
    | .nil => true
    | .cons _ t rest => t.nsOk && rest.nsOk
end

theorem bitLength_mono {m n : Nat} (h : m ≤ n) : bitLength m ≤ bitLength n :=
  bitLength_le_of_lt_pow (Nat.lt_of_le_of_lt h (lt_two_pow_bitLength n))

theorem nsIndexOk_lt {n i : Nat} (h : nsIndexOk n = true) (hi : i < n) :
    (bitLength i + 7) / 8 < 16384 := by
  simp only [nsIndexOk, decide_eq_true_eq] at h
  have := bitLength_mono (m := i) (n := n - 1) (by omega)
  omega

/-- e.g. `w = 131064`: at most `2^131064` additions -/
theorem nsIndexOk_of_le_pow {n w : Nat} (hw : (w + 7) / 8 < 16384) (h : n ≤ 2 ^ w) :
    nsIndexOk n = true := by
  have h1 : n - 1 < 2 ^ w := by
    have : 0 < 2 ^ w := Nat.pow_pos (by omega)
    omega
  have := bitLength_le_of_lt_pow h1
  simp only [nsIndexOk, decide_eq_true_eq]
  omega

namespace Uper

def RT (t : Ty) : Prop :=
  ∀ (v : Val) (bits rest : Bits) (fuel : Nat),
    t.wf = true → t.defaultsOk = true → t.nsOk = true → hasType t v = true → fragFree t v = true →
    enc t v = .ok bits → bits.length + rest.length + 2 ≤ fuel →
    dec t fuel (bits ++ rest) = .ok (canon t v, rest)

def ET (t : Ty) : Prop :=
  ∀ (v : Val), t.wf = true → hasType t v = true → ∃ bits, enc t v = .ok bits

end Uper
end Asn1
