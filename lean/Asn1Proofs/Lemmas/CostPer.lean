import Asn1Proofs.Lemmas.CostUperFuel
import Asn1Proofs.Lemmas.PerStr
/-
  C08 for the ALIGNED PER model (`Asn1Model/Per.lean`): the constants of the allocation bound, the step
  lemmas of the position tracking readers ("every read advances the offset or raises"; alignment only
  drops bits) and the loops.

  The measure is the number of REMAINING bits `St.bs.length`; it never grows: every reader only moves
  forward, `align_always` only drops bits.  (Before repair ace6523 of /repo there was one place where the
  code moved the read position BACKWARDS -- `Choice.decode` of an extension addition that read past the
  end of its open type -- and the allocation bound needed a factor `(N + 1) ^ rewinds t`; that branch is
  a `DecodeError` now, and the bound is `KP t * (consumed + 1)` for every type, as for UPER.)
-/
set_option linter.unusedSimpArgs false
set_option linter.unusedVariables false
namespace Asn1.CostP
open Asn1.Per
open Asn1.Uper (DecM Err bind_ok sizeBits utf8Dec charDecode sortByVal)
open Asn1.Cost (sumSize presenceNodes)

/-- elements a SEQUENCE OF may hold per bit consumed (+1): `65536` per length octet, or the largest
count its length field can announce.  (The aligned variant reads a length field of a range of 256 ..
65536 values as one or two whole octets, whatever the range: up to `lo + 65535`.) -/
def seqOfMaxP (c : SizeC) : Nat :=
  match sizeBits c with
  | none => 8192
  | some w => max 8192 (c.lo + 2 ^ w + 65536)

mutual
  /-- aligned PER: nodes allocated per bit consumed (+1), a function of the type only -/
  def KP : Ty → Nat
    | .sequence root _ adds => 1 + KPm root + KPm adds
    | .sequenceOf e c => 1 + KP e * (1 + seqOfMaxP c)
    | .choice root _ adds => 2 + KPa root + KPa adds
    | _ => 1
  def KPm : Members → Nat
    | .nil => 0
    | .cons _ p t rest => 1 + presenceNodes p + KP t + KPm rest
  def KPa : Alts → Nat
    | .nil => 0
    | .cons _ t rest => KP t + KPa rest
end

/-! ### primitives: what a successful read consumed -/

theorem readBits_eq (n : Nat) (s : St) :
    Per.readBits n s =
      if n ≤ s.bs.length then .ok (s.bs.take n, ⟨s.pos + n, s.bs.drop n⟩) else .error .decodeError := by
  simp only [Per.readBits, Uper.splitExact, Uper.splitAux_eq]
  by_cases h : n ≤ s.bs.length <;> simp [h]

theorem readNat_eq (n : Nat) (s : St) :
    Per.readNat n s =
      if n ≤ s.bs.length then .ok (bitsToNat (s.bs.take n), ⟨s.pos + n, s.bs.drop n⟩)
      else .error .decodeError := by
  simp only [Per.readNat, Uper.splitExact, Uper.splitAux_eq]
  by_cases h : n ≤ s.bs.length <;> simp [h]

theorem readBit_ok {s r : St} {b : Bool} (h : readBit s = .ok (b, r)) :
    s.bs.length = r.bs.length + 1 := by
  obtain ⟨pos, bs⟩ := s
  cases bs with
  | nil => cases h
  | cons x t => simp only [readBit] at h; cases h; simp

theorem readBits_ok {n : Nat} {s r : St} {a : Bits} (h : readBits n s = .ok (a, r)) :
    s.bs.length = r.bs.length + n ∧ a.length = n := by
  rw [readBits_eq] at h
  split at h
  · cases h; simp only [List.length_drop, List.length_take]; omega
  · cases h

theorem readNat_ok {n : Nat} {s r : St} {a : Nat} (h : readNat n s = .ok (a, r)) :
    s.bs.length = r.bs.length + n ∧ a < 2 ^ n := by
  rw [readNat_eq] at h
  split at h
  · cases h
    refine ⟨by simp only [List.length_drop]; omega, ?_⟩
    have := bitsToNat_lt (s.bs.take n)
    rwa [List.length_take, Nat.min_eq_left (by assumption)] at this
  · cases h

/-- `align_always` only drops bits -/
theorem align_le (s : St) : (align s).bs.length ≤ s.bs.length := by
  unfold align; simp only [List.length_drop]; omega

/-- a length determinant costs at least 8 bits and announces at most 8192 items per bit it costs -/
theorem readLenDet_ok {s r : St} {n : Nat} (h : readLenDet s = .ok (n, r)) :
    r.bs.length + 8 ≤ s.bs.length ∧ n ≤ 8192 * (s.bs.length - r.bs.length) := by
  unfold readLenDet at h
  obtain ⟨⟨v, r1⟩, h1, h⟩ := bind_ok h
  try dsimp only at h
  obtain ⟨hl1, hv⟩ := readNat_ok h1
  try dsimp only at h
  revert h
  split
  · intro h; cases h; omega
  split
  · intro h
    obtain ⟨⟨w, r2⟩, h2, h⟩ := bind_ok h
    try dsimp only at h
    obtain ⟨hl2, hw⟩ := readNat_ok h2
    cases h; omega
  split
  · intro h; cases h; omega
  split
  · intro h; cases h; omega
  split
  · intro h; cases h; omega
  split
  · intro h; cases h; omega
  · intro h; cases h

theorem decUnconstrained_ok {s r : St} {i : Int} (h : decUnconstrained s = .ok (i, r)) :
    r.bs.length + 8 ≤ s.bs.length := by
  unfold decUnconstrained at h
  obtain ⟨⟨len, r1⟩, h1, h⟩ := bind_ok h
  try dsimp only at h
  obtain ⟨hl1, _⟩ := readLenDet_ok h1
  obtain ⟨⟨body, r2⟩, h2, h⟩ := bind_ok h
  try dsimp only at h
  obtain ⟨hl2, _⟩ := readBits_ok h2
  try dsimp only at h
  revert h
  split
  · intro h; cases h
  · split <;> (intro h; cases h; omega)

theorem decNsnnwn_ok {s r : St} {n : Nat} (h : decNsnnwn s = .ok (n, r)) :
    r.bs.length < s.bs.length := by
  unfold decNsnnwn at h
  obtain ⟨⟨b, r1⟩, h1, h⟩ := bind_ok h
  try dsimp only at h
  have hl1 := readBit_ok h1
  try dsimp only at h
  revert h
  split
  · intro h; have := (readNat_ok h).1; omega
  · intro h
    obtain ⟨⟨len, r2⟩, h2, h⟩ := bind_ok h
    try dsimp only at h
    have := (readLenDet_ok h2).1
    have := (readNat_ok h).1
    omega

theorem decNsLength_ok {s r : St} {n : Nat} (h : decNsLength s = .ok (n, r)) :
    r.bs.length < s.bs.length := by
  unfold decNsLength at h
  obtain ⟨⟨b, r1⟩, h1, h⟩ := bind_ok h
  try dsimp only at h
  have hl1 := readBit_ok h1
  try dsimp only at h
  revert h
  split
  · intro h
    obtain ⟨⟨v, r2⟩, h2, h⟩ := bind_ok h
    try dsimp only at h
    have := (readNat_ok h2).1
    cases h; omega
  · intro h
    obtain ⟨⟨b2, r2⟩, h2, h⟩ := bind_ok h
    try dsimp only at h
    have := readBit_ok h2
    try dsimp only at h
    revert h
    split
    · intro h; have := (readNat_ok h).1; omega
    · intro h; cases h

/-- `read_constrained_whole_number`: aligned or not, it only moves forward; the number read has at most
`max nbits 16` bits -/
theorem decCwn_ok {range nbits : Nat} {s r : St} {v : Nat} (h : decCwn range nbits s = .ok (v, r)) :
    r.bs.length ≤ s.bs.length ∧ v < 2 ^ nbits + 65536 := by
  have hp := Nat.two_pow_pos nbits
  have ha := align_le s
  unfold decCwn at h
  split at h
  · obtain ⟨h1, h2⟩ := readNat_ok h; omega
  split at h
  · obtain ⟨h1, h2⟩ := readNat_ok h; omega
  split at h
  · obtain ⟨h1, h2⟩ := readNat_ok h; omega
  · obtain ⟨h1, h2⟩ := readNat_ok h; omega

theorem decConstrainedInt_ok {lo hi : Int} {s r : St} {i : Int}
    (h : decConstrainedInt lo hi s = .ok (i, r)) : r.bs.length ≤ s.bs.length := by
  unfold decConstrainedInt at h
  try dsimp only at h
  split at h
  · obtain ⟨⟨v, r1⟩, h1, h⟩ := bind_ok h
    try dsimp only at h
    have := (decCwn_ok h1).1
    cases h; omega
  · obtain ⟨⟨k, r1⟩, h1, h⟩ := bind_ok h
    try dsimp only at h
    have := (decCwn_ok h1).1
    obtain ⟨⟨v, r2⟩, h2, h⟩ := bind_ok h
    try dsimp only at h
    have := (decCwn_ok h2).1
    have := align_le r1
    cases h; omega

theorem readSize_ok {c : SizeC} {w : Nat} {av : Nat → Bool} {af : Bool} {s r : St} {n : Nat}
    (h : readSize c w av af s = .ok (n, r)) :
    r.bs.length ≤ s.bs.length ∧ n < c.lo + 2 ^ w + 65536 := by
  unfold readSize at h
  split at h
  · obtain ⟨⟨d, r1⟩, h1, h⟩ := bind_ok h
    try dsimp only at h
    obtain ⟨hl, hd⟩ := decCwn_ok h1
    have := align_le r1
    cases h
    refine ⟨?_, by omega⟩
    split <;> omega
  · cases h
    have := align_le s
    have := Nat.two_pow_pos w
    refine ⟨?_, by omega⟩
    split <;> omega

theorem skipUnknown_ok (bitmap : Bits) : ∀ {s r : St}, skipUnknown bitmap s = .ok r →
    r.bs.length ≤ s.bs.length := by
  induction bitmap with
  | nil => intro s r h; simp only [skipUnknown] at h; cases h; exact Nat.le_refl _
  | cons p bm ih =>
    intro s r h
    rw [skipUnknown] at h
    split at h
    · obtain ⟨⟨len, r1⟩, h1, h⟩ := bind_ok h
      obtain ⟨⟨x, r2⟩, h2, h⟩ := bind_ok h
      try dsimp only at h
      have := (readLenDet_ok h1).1
      have := (readBits_ok h2).1
      have := ih h
      omega
    · exact ih h

theorem optBit_ok {c : Bool} {s r : St} {b : Bool}
    (h : (if c = true then readBit s else .ok (false, s)) = .ok (b, r)) :
    r.bs.length ≤ s.bs.length := by
  split at h
  · have := readBit_ok h; omega
  · cases h; exact Nat.le_refl _

/-! ### loops -/

/-- cost predicate of an item decoder: it never lengthens the input and the item's size is at most `K`
per bit consumed (+1) -/
def BdP {α : Type} (size : α → Nat) (K : Nat) (p : St → DecM (α × St)) : Prop :=
  ∀ s a r, p s = .ok (a, r) →
    r.bs.length ≤ s.bs.length ∧ size a ≤ K * (s.bs.length - r.bs.length + 1)

theorem decRepeat_ok {α : Type} {size : α → Nat} {K : Nat} {p : St → DecM (α × St)}
    (hp : BdP size K p) (n : Nat) : ∀ {s r : St} {xs : List α}, decRepeat p n s = .ok (xs, r) →
    r.bs.length ≤ s.bs.length ∧ xs.length = n ∧
      sumSize size xs ≤ K * (s.bs.length - r.bs.length + n) := by
  induction n with
  | zero =>
    intro s r xs h
    simp only [decRepeat] at h; cases h
    simp [sumSize]
  | succ n ih =>
    intro s r xs h
    simp only [decRepeat] at h
    obtain ⟨⟨a, r1⟩, h1, h⟩ := bind_ok h
    try dsimp only at h
    obtain ⟨⟨as, r2⟩, h2, h⟩ := bind_ok h
    try dsimp only at h
    cases h
    obtain ⟨hl1, hs1⟩ := hp _ _ _ h1
    obtain ⟨hl2, hn, hs2⟩ := ih h2
    refine ⟨by omega, by simp [hn], ?_⟩
    simp only [sumSize]
    have e : K * (s.bs.length - r.bs.length + (n + 1))
        = K * (s.bs.length - r1.bs.length + 1) + K * (r1.bs.length - r.bs.length + n) := by
      rw [← Nat.mul_add]; congr 1; omega
    omega

/-- items that cost at least one bit each: there are at most as many as bits consumed -/
theorem decRepeat_len {α : Type} {p : St → DecM (α × St)}
    (hp : ∀ s a r, p s = .ok (a, r) → r.bs.length < s.bs.length) (n : Nat) :
    ∀ {s r : St} {xs : List α}, decRepeat p n s = .ok (xs, r) →
      r.bs.length + n ≤ s.bs.length ∧ xs.length = n := by
  induction n with
  | zero => intro s r xs h; simp only [decRepeat] at h; cases h; simp
  | succ n ih =>
    intro s r xs h
    simp only [decRepeat] at h
    obtain ⟨⟨a, r1⟩, h1, h⟩ := bind_ok h
    try dsimp only at h
    obtain ⟨⟨as, r2⟩, h2, h⟩ := bind_ok h
    try dsimp only at h
    cases h
    have := hp _ _ _ h1
    have := ih h2
    simp only [List.length_cons]
    omega

theorem decChunks_ok {α : Type} {size : α → Nat} {K : Nat} {p : St → DecM (α × St)}
    (hp : BdP size K p) (f : Nat) : ∀ {s r : St} {xs : List α}, decChunks p f s = .ok (xs, r) →
    r.bs.length ≤ s.bs.length ∧ xs.length ≤ 8192 * (s.bs.length - r.bs.length)
      ∧ sumSize size xs ≤ K * (s.bs.length - r.bs.length + xs.length) := by
  induction f with
  | zero => intro s r xs h; simp only [decChunks] at h; cases h
  | succ f ih =>
    intro s r xs h
    simp only [decChunks] at h
    obtain ⟨⟨len, r1⟩, h1, h⟩ := bind_ok h
    try dsimp only at h
    obtain ⟨hl1, hlen⟩ := readLenDet_ok h1
    obtain ⟨⟨ys, r2⟩, h2, h⟩ := bind_ok h
    try dsimp only at h
    obtain ⟨hl2, hn, hs2⟩ := decRepeat_ok hp len h2
    try dsimp only at h
    revert h
    split
    · intro h; cases h
      refine ⟨by omega, by omega, ?_⟩
      refine Nat.le_trans hs2 (Nat.mul_le_mul_left _ (by omega))
    · intro h
      obtain ⟨⟨zs, r3⟩, h3, h⟩ := bind_ok h
      try dsimp only at h
      cases h
      obtain ⟨hl3, hz, hs3⟩ := ih h3
      refine ⟨by omega, by simp only [List.length_append]; omega, ?_⟩
      rw [Cost.sumSize_append, List.length_append]
      have e : K * (r1.bs.length - r2.bs.length + len) + K * (r2.bs.length - r.bs.length + zs.length)
          ≤ K * (s.bs.length - r.bs.length + (ys.length + zs.length)) := by
        rw [← Nat.mul_add]; exact Nat.mul_le_mul_left _ (by omega)
      omega

theorem decChunks_len {α : Type} {p : St → DecM (α × St)}
    (hp : ∀ s a r, p s = .ok (a, r) → r.bs.length < s.bs.length) (f : Nat) :
    ∀ {s r : St} {xs : List α}, decChunks p f s = .ok (xs, r) →
    r.bs.length + xs.length + 8 ≤ s.bs.length := by
  induction f with
  | zero => intro s r xs h; simp only [decChunks] at h; cases h
  | succ f ih =>
    intro s r xs h
    simp only [decChunks] at h
    obtain ⟨⟨len, r1⟩, h1, h⟩ := bind_ok h
    try dsimp only at h
    obtain ⟨hl1, hlen⟩ := readLenDet_ok h1
    obtain ⟨⟨ys, r2⟩, h2, h⟩ := bind_ok h
    try dsimp only at h
    obtain ⟨hn, hys⟩ := decRepeat_len hp len h2
    try dsimp only at h
    revert h
    split
    · intro h; cases h; omega
    · intro h
      obtain ⟨⟨zs, r3⟩, h3, h⟩ := bind_ok h
      try dsimp only at h
      cases h
      have := ih h3
      simp only [List.length_append]; omega

/-- the block-wise chunk reader (OCTET STRING, BIT STRING, UTF8String): every bit of the result and
every length octet was consumed from the input -/
theorem decChunksBits_ok (u : Nat) (f : Nat) : ∀ {s r : St} {xs : Bits},
    decChunksBits u f s = .ok (xs, r) → r.bs.length + xs.length + 8 ≤ s.bs.length := by
  induction f with
  | zero => intro s r xs h; simp only [decChunksBits] at h; cases h
  | succ f ih =>
    intro s r xs h
    simp only [decChunksBits] at h
    obtain ⟨⟨len, r1⟩, h1, h⟩ := bind_ok h
    try dsimp only at h
    obtain ⟨hl1, hlen⟩ := readLenDet_ok h1
    obtain ⟨⟨ys, r2⟩, h2, h⟩ := bind_ok h
    try dsimp only at h
    obtain ⟨hl2, hys⟩ := readBits_ok h2
    try dsimp only at h
    revert h
    split
    · intro h; cases h; omega
    · intro h
      obtain ⟨⟨zs, r3⟩, h3, h⟩ := bind_ok h
      try dsimp only at h
      cases h
      have := ih h3
      simp only [List.length_append]; omega

end Asn1.CostP
