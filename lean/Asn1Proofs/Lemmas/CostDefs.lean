import Asn1Proofs.Lemmas.PrefixDerTop
import Asn1Proofs.Lemmas.DerCheckTypes
/-
  C08 — decoders do a bounded amount of work and allocate a bounded amount of memory.
  Definitions shared by the cost lemmas: the size measure on values and a little arithmetic.
-/
namespace Asn1

mutual
  /-- Size of a decoded value: one unit per constructor, per record field, per octet of an
  OCTET STRING / BIT STRING and per character of a character string. -/
  def Val.nodes : Val → Nat
    | .bool _ => 1
    | .null => 1
    | .int _ => 1
    | .enum _ => 1
    | .bytes bs => 1 + bs.length
    | .bits data _ => 1 + data.length
    | .str cps => 1 + cps.length
    | .record fs => 1 + Val.nodesFields fs
    | .list vs => 1 + Val.nodesList vs
    | .choice _ v => 1 + Val.nodes v
    | .absent => 1
  def Val.nodesFields : List (String × Val) → Nat
    | [] => 0
    | (_, v) :: r => 1 + Val.nodes v + Val.nodesFields r
  def Val.nodesList : List Val → Nat
    | [] => 0
    | v :: r => Val.nodes v + Val.nodesList r
end

namespace Cost

theorem nodes_pos (v : Val) : 1 ≤ v.nodes := by
  cases v <;> simp only [Val.nodes] <;> omega

theorem nodesFields_append (a b : List (String × Val)) :
    Val.nodesFields (a ++ b) = Val.nodesFields a + Val.nodesFields b := by
  induction a with
  | nil => simp [Val.nodesFields]
  | cons x r ih =>
    obtain ⟨n, v⟩ := x
    simp only [List.cons_append, Val.nodesFields, ih]; omega

theorem nodesList_append (a b : List Val) :
    Val.nodesList (a ++ b) = Val.nodesList a + Val.nodesList b := by
  induction a with
  | nil => simp [Val.nodesList]
  | cons x r ih => simp only [List.cons_append, Val.nodesList, ih]; omega

theorem length_le_nodesList (vs : List Val) : vs.length ≤ Val.nodesList vs := by
  induction vs with
  | nil => simp [Val.nodesList]
  | cons x r ih =>
    have := nodes_pos x
    simp only [List.length_cons, Val.nodesList]; omega

theorem nodesList_replicate (n : Nat) (v : Val) :
    Val.nodesList (List.replicate n v) = n * v.nodes := by
  induction n with
  | zero => simp [Val.nodesList]
  | succ n ih => simp only [List.replicate_succ, Val.nodesList, ih, Nat.succ_mul]; omega

/-! ### arithmetic: bounds of the shape `n ≤ K * (c + 1)` -/

theorem bd_mono {n K c K' c' : Nat} (h : n ≤ K * (c + 1)) (hK : K ≤ K') (hc : c ≤ c') :
    n ≤ K' * (c' + 1) :=
  Nat.le_trans h (Nat.mul_le_mul hK (by omega))

theorem bd_add {n1 K1 c1 n2 K2 c2 : Nat} (h1 : n1 ≤ K1 * (c1 + 1)) (h2 : n2 ≤ K2 * (c2 + 1)) :
    n1 + n2 ≤ (K1 + K2) * (c1 + c2 + 1) := by
  have a1 : K1 * (c1 + 1) ≤ K1 * (c1 + c2 + 1) := Nat.mul_le_mul_left _ (by omega)
  have a2 : K2 * (c2 + 1) ≤ K2 * (c1 + c2 + 1) := Nat.mul_le_mul_left _ (by omega)
  rw [Nat.add_mul]; omega

theorem bd_const (k c : Nat) : k ≤ k * (c + 1) := by
  have : k * 1 ≤ k * (c + 1) := Nat.mul_le_mul_left _ (by omega)
  omega

/-- bounds of the shape `n ≤ K * c` (DER/BER: every value consumes at least one octet) -/
theorem bm_mono {n K c K' c' : Nat} (h : n ≤ K * c) (hK : K ≤ K') (hc : c ≤ c') : n ≤ K' * c' :=
  Nat.le_trans h (Nat.mul_le_mul hK hc)

theorem bm_add {n1 K1 c1 n2 K2 c2 : Nat} (h1 : n1 ≤ K1 * c1) (h2 : n2 ≤ K2 * c2) :
    n1 + n2 ≤ (K1 + K2) * (c1 + c2) := by
  have a1 : K1 * c1 ≤ K1 * (c1 + c2) := Nat.mul_le_mul_left _ (by omega)
  have a2 : K2 * c2 ≤ K2 * (c1 + c2) := Nat.mul_le_mul_left _ (by omega)
  rw [Nat.add_mul]; omega

theorem bm_const {k c : Nat} (hc : 1 ≤ c) : k ≤ k * c := by
  have : k * 1 ≤ k * c := Nat.mul_le_mul_left _ hc
  omega

end Cost
end Asn1
