import Asn1Proofs.Lemmas.ExtDefs
/-
  C07: auxiliary lemmas for `ExtLemmas.lean` (mutual structural recursions over `Ty` / `Members` / `Alts`).
-/
set_option linter.unusedSimpArgs false
set_option linter.unusedVariables false
namespace Asn1.Ext
open Asn1

/-! ### `canonG` / `defaultsOkG` -/

mutual
theorem canonG_false' : ∀ (t : Ty) (v : Val), canonG false t v = canon t v
  | .sequence r x a, v => by
    cases v <;> simp only [canonG, canon]
    rw [canonMembersG_false' r, canonMembersG_false' a]
  | .sequenceOf e c, v => by
    cases v <;> simp only [canonG, canon]
    have : canonG false e = canon e := funext (canonG_false' e)
    rw [this]
  | .choice r x a, v => by
    cases v <;> simp only [canonG, canon]
    rw [canonAltG_false' r, canonAltG_false' a]
    rename_i n v
    cases canonAlt r n v <;> cases canonAlt a n v <;> rfl
  | .boolean, v | .null, v | .integer _, v | .enumerated _ _, v | .octetString _, v
  | .charString _ _, v => by simp only [canonG, canon]
  | .bitString _, v => by cases v <;> simp only [canonG, canon]
theorem canonMembersG_false' : ∀ (ms : Members) (fs : List (String × Val)) (fill : Bool),
    canonMembersG false ms fs fill = canonMembers ms fs fill
  | .nil, fs, fill => by simp only [canonMembersG, canonMembers]
  | .cons n p t rest, fs, fill => by
    simp only [canonMembersG, canonMembers, canonG_false' t, canonMembersG_false' rest]
    cases lookup n fs <;> cases p <;> rfl
theorem canonAltG_false' : ∀ (as : Alts) (n : String) (v : Val), canonAltG false as n v = canonAlt as n v
  | .nil, n, v => by simp only [canonAltG, canonAlt]
  | .cons m t rest, n, v => by
    simp only [canonAltG, canonAlt, canonG_false' t, canonAltG_false' rest]
end

mutual
theorem canonG_true' : ∀ (t : Ty) (v : Val), canonG true t v = X690.canonV t v
  | .sequence r x a, v => by
    cases v <;> simp only [canonG, X690.canonV]
    rw [canonMembersG_true' r, canonMembersG_true' a]
  | .sequenceOf e c, v => by
    cases v <;> simp only [canonG, X690.canonV]
    have : canonG true e = X690.canonV e := funext (canonG_true' e)
    rw [this]
  | .choice r x a, v => by
    cases v <;> simp only [canonG, X690.canonV]
    rw [canonAltG_true' r, canonAltG_true' a]
    rename_i n v
    cases X690.canonAltV r n v <;> cases X690.canonAltV a n v <;> rfl
  | .boolean, v | .null, v | .integer _, v | .enumerated _ _, v | .octetString _, v
  | .charString _ _, v => by simp only [canonG, X690.canonV]
  | .bitString _, v => by cases v <;> simp only [canonG, X690.canonV]
theorem canonMembersG_true' : ∀ (ms : Members) (fs : List (String × Val)),
    canonMembersG true ms fs true = X690.canonMembersV ms fs
  | .nil, fs => by simp only [canonMembersG, X690.canonMembersV]
  | .cons n p t rest, fs => by
    simp only [canonMembersG, X690.canonMembersV, canonG_true' t, canonMembersG_true' rest]
    cases lookup n fs <;> cases p <;> rfl
theorem canonAltG_true' : ∀ (as : Alts) (n : String) (v : Val), canonAltG true as n v = X690.canonAltV as n v
  | .nil, n, v => by simp only [canonAltG, X690.canonAltV]
  | .cons m t rest, n, v => by
    simp only [canonAltG, X690.canonAltV, canonG_true' t, canonAltG_true' rest]
end

mutual
theorem defaultsOkG_false' : ∀ (t : Ty), defaultsOkG false t = t.defaultsOk
  | .sequence r x a => by
    simp only [defaultsOkG, Ty.defaultsOk, membersDefaultsOkG_false' r, membersDefaultsOkG_false' a]
  | .sequenceOf e c => by simp only [defaultsOkG, Ty.defaultsOk, defaultsOkG_false' e]
  | .choice r x a => by
    simp only [defaultsOkG, Ty.defaultsOk, altsDefaultsOkG_false' r, altsDefaultsOkG_false' a]
  | .boolean | .null | .integer _ | .enumerated _ _ | .octetString _
  | .charString _ _ | .bitString _ => by simp only [defaultsOkG, Ty.defaultsOk]
theorem membersDefaultsOkG_false' : ∀ (ms : Members), membersDefaultsOkG false ms = ms.defaultsOk
  | .nil => by simp only [membersDefaultsOkG, Members.defaultsOk]
  | .cons n p t rest => by
    simp only [membersDefaultsOkG, Members.defaultsOk, defaultsOkG_false' t, membersDefaultsOkG_false' rest,
      canonG_false']
    cases p <;> rfl
theorem altsDefaultsOkG_false' : ∀ (as : Alts), altsDefaultsOkG false as = as.defaultsOk
  | .nil => by simp only [altsDefaultsOkG, Alts.defaultsOk]
  | .cons m t rest => by
    simp only [altsDefaultsOkG, Alts.defaultsOk, defaultsOkG_false' t, altsDefaultsOkG_false' rest]
end

mutual
theorem defaultsOkG_true' : ∀ (t : Ty), defaultsOkG true t = X690.defaultsOkV t
  | .sequence r x a => by
    simp only [defaultsOkG, X690.defaultsOkV, membersDefaultsOkG_true' r, membersDefaultsOkG_true' a]
  | .sequenceOf e c => by simp only [defaultsOkG, X690.defaultsOkV, defaultsOkG_true' e]
  | .choice r x a => by
    simp only [defaultsOkG, X690.defaultsOkV, altsDefaultsOkG_true' r, altsDefaultsOkG_true' a]
  | .boolean | .null | .integer _ | .enumerated _ _ | .octetString _
  | .charString _ _ | .bitString _ => by simp only [defaultsOkG, X690.defaultsOkV]
theorem membersDefaultsOkG_true' : ∀ (ms : Members), membersDefaultsOkG true ms = X690.membersDefaultsOkV ms
  | .nil => by simp only [membersDefaultsOkG, X690.membersDefaultsOkV]
  | .cons n p t rest => by
    simp only [membersDefaultsOkG, X690.membersDefaultsOkV, defaultsOkG_true' t, membersDefaultsOkG_true' rest,
      canonG_true']
    cases p <;> rfl
theorem altsDefaultsOkG_true' : ∀ (as : Alts), altsDefaultsOkG true as = X690.altsDefaultsOkV as
  | .nil => by simp only [altsDefaultsOkG, X690.altsDefaultsOkV]
  | .cons m t rest => by
    simp only [altsDefaultsOkG, X690.altsDefaultsOkV, defaultsOkG_true' t, altsDefaultsOkG_true' rest]
end

/-! ### `Compat` -/

mutual
theorem compat_aux : ∀ (t1 t2 : Ty), Extends t1 t2 → Compat t1 t2 ∧ Compat t2 t1
  | .boolean, _, h => by cases h; exact ⟨.boolean, .boolean⟩
  | .null, _, h => by cases h; exact ⟨.null, .null⟩
  | .integer _, _, h => by cases h; exact ⟨.integer _, .integer _⟩
  | .octetString _, _, h => by cases h; exact ⟨.octetString _, .octetString _⟩
  | .bitString _, _, h => by cases h; exact ⟨.bitString _, .bitString _⟩
  | .charString _ _, _, h => by cases h; exact ⟨.charString _ _, .charString _ _⟩
  | .enumerated _ _, _, h => by
    cases h
    · exact ⟨.enumerated _, .enumerated _⟩
    · exact ⟨.enumeratedD _ _ _, .enumeratedE _ _ _⟩
  | .sequence r x a, _, h => by
    cases h with
    | sequence _ hr ha =>
      have h1 := compat_members r _ hr
      have h2 := compat_adds x a _ ha
      exact ⟨.sequence x h1.1 h2.1, .sequence x h1.2 h2.2⟩
  | .sequenceOf e c, _, h => by
    cases h with
    | sequenceOf _ he =>
      have h1 := compat_aux e _ he
      exact ⟨.sequenceOf c h1.1, .sequenceOf c h1.2⟩
  | .choice r x a, _, h => by
    cases h with
    | choice _ hr ha =>
      have h1 := compat_alts r _ hr
      have h2 := compat_altAdds x a _ ha
      exact ⟨.choice x h1.1 h2.1, .choice x h1.2 h2.2⟩
theorem compat_members : ∀ (m1 m2 : Members), ExtendsMembers m1 m2 → CompatMembers m1 m2 ∧ CompatMembers m2 m1
  | .nil, _, h => by cases h; exact ⟨.nil, .nil⟩
  | .cons n p t rest, _, h => by
    cases h with
    | cons _ _ ht hr =>
      have h1 := compat_aux t _ ht
      have h2 := compat_members rest _ hr
      exact ⟨.cons n p h1.1 h2.1, .cons n p h1.2 h2.2⟩
theorem compat_adds : ∀ (x : Bool) (m1 m2 : Members), ExtendsAdds x m1 m2 → CompatAdds m1 m2 ∧ CompatAdds m2 m1
  | x, .nil, _, h => by
    cases h
    exact ⟨.nilD _, .nilE _ (by assumption)⟩
  | x, .cons n p t rest, _, h => by
    cases h with
    | cons _ _ ht hr =>
      have h1 := compat_aux t _ ht
      have h2 := compat_adds x rest _ hr
      exact ⟨.cons n p h1.1 h2.1, .cons n p h1.2 h2.2⟩
theorem compat_alts : ∀ (m1 m2 : Alts), ExtendsAlts m1 m2 → CompatAlts m1 m2 ∧ CompatAlts m2 m1
  | .nil, _, h => by cases h; exact ⟨.nil, .nil⟩
  | .cons n t rest, _, h => by
    cases h with
    | cons _ ht hr =>
      have h1 := compat_aux t _ ht
      have h2 := compat_alts rest _ hr
      exact ⟨.cons n h1.1 h2.1, .cons n h1.2 h2.2⟩
theorem compat_altAdds : ∀ (x : Bool) (m1 m2 : Alts), ExtendsAltAdds x m1 m2 → CompatAltAdds m1 m2 ∧ CompatAltAdds m2 m1
  | x, .nil, _, h => by
    cases h
    exact ⟨.nilD _, .nilE _⟩
  | x, .cons n t rest, _, h => by
    cases h with
    | cons _ ht hr =>
      have h1 := compat_aux t _ ht
      have h2 := compat_altAdds x rest _ hr
      exact ⟨.cons n h1.1 h2.1, .cons n h1.2 h2.2⟩
end

/-! ### names / lengths -/

theorem names_of_extendsMembers (m1 m2 : Members) (h : ExtendsMembers m1 m2) :
    m1.names = m2.names ∧ m1.length = m2.length := by
  induction m1 using Members.ind generalizing m2 with
  | nil => cases h; exact ⟨rfl, rfl⟩
  | cons n p t rest ih =>
    cases h with
    | cons _ _ ht hr =>
      have := ih _ hr
      simp only [Members.names, Members.length, this.1, this.2, and_self]

theorem names_of_extendsAdds (x : Bool) (m1 m2 : Members) (h : ExtendsAdds x m1 m2) :
    (∃ s, m2.names = m1.names ++ s) ∧ m1.length ≤ m2.length := by
  induction m1 using Members.ind generalizing m2 with
  | nil => cases h; exact ⟨⟨_, rfl⟩, Nat.zero_le _⟩
  | cons n p t rest ih =>
    cases h with
    | cons _ _ ht hr =>
      obtain ⟨⟨s, hs⟩, hl⟩ := ih _ hr
      refine ⟨⟨s, ?_⟩, ?_⟩
      · simp only [Members.names, hs, List.cons_append]
      · simp only [Members.length]; omega

theorem names_of_extendsAlts (m1 m2 : Alts) (h : ExtendsAlts m1 m2) :
    m1.names = m2.names ∧ m1.length = m2.length := by
  induction m1 using Alts.ind generalizing m2 with
  | nil => cases h; exact ⟨rfl, rfl⟩
  | cons n t rest ih =>
    cases h with
    | cons _ ht hr =>
      have := ih _ hr
      simp only [Alts.names, Alts.length, this.1, this.2, and_self]

theorem names_of_extendsAltAdds (x : Bool) (m1 m2 : Alts) (h : ExtendsAltAdds x m1 m2) :
    (∃ s, m2.names = m1.names ++ s) ∧ m1.length ≤ m2.length := by
  induction m1 using Alts.ind generalizing m2 with
  | nil => cases h; exact ⟨⟨_, rfl⟩, Nat.zero_le _⟩
  | cons n t rest ih =>
    cases h with
    | cons _ ht hr =>
      obtain ⟨⟨s, hs⟩, hl⟩ := ih _ hr
      refine ⟨⟨s, ?_⟩, ?_⟩
      · simp only [Alts.names, hs, List.cons_append]
      · simp only [Alts.length]; omega

theorem nodup_prefix {α : Type} (r a s : List α) (h : (r ++ (a ++ s)).Nodup) : (r ++ a).Nodup := by
  rw [← List.append_assoc] at h
  exact (List.nodup_append.mp h).1

theorem seq_wf_iff (r : Members) (x : Bool) (a : Members) :
    (Ty.sequence r x a).wf = true ↔
      r.wf = true ∧ a.wf = true ∧ (r.names ++ a.names).Nodup ∧ (x = true ∨ a.length = 0) ∧ a.length ≤ 64 := by
  simp only [Ty.wf, Bool.and_eq_true, decide_eq_true_eq, Bool.or_eq_true, beq_iff_eq, and_assoc]

theorem choice_wf_iff (r : Alts) (x : Bool) (a : Alts) :
    (Ty.choice r x a).wf = true ↔
      r.wf = true ∧ a.wf = true ∧ 0 < r.length ∧ (r.names ++ a.names).Nodup ∧ (x = true ∨ a.length = 0) := by
  simp only [Ty.wf, Bool.and_eq_true, decide_eq_true_eq, Bool.or_eq_true, beq_iff_eq, and_assoc]

mutual
theorem wf_aux : ∀ (t1 t2 : Ty), Extends t1 t2 → t2.wf = true → t1.wf = true
  | .boolean, _, h, hw | .null, _, h, hw | .integer _, _, h, hw | .octetString _, _, h, hw
  | .bitString _, _, h, hw | .charString _ _, _, h, hw => by cases h; exact hw
  | .enumerated _ _, _, h, hw => by
    cases h
    · exact hw
    · rename_i root adds new
      simp only [Ty.wf, Bool.and_eq_true, decide_eq_true_eq, namesOf, List.map_append] at hw ⊢
      exact ⟨⟨hw.1.1, decide_eq_true (nodup_prefix _ _ _ hw.1.2)⟩, hw.2⟩
  | .sequence r x a, _, h, hw => by
    cases h with
    | sequence _ hr ha =>
      rw [seq_wf_iff] at hw ⊢
      obtain ⟨h1, h2, h3, h4, h5⟩ := hw
      have n1 := names_of_extendsMembers _ _ hr
      obtain ⟨⟨s, hs⟩, hl⟩ := names_of_extendsAdds _ _ _ ha
      refine ⟨wf_members r _ hr h1, wf_adds x a _ ha h2, ?_, ?_, by omega⟩
      · rw [n1.1]; rw [hs] at h3; exact nodup_prefix _ _ _ h3
      · rcases h4 with h4 | h4
        · exact Or.inl h4
        · exact Or.inr (by omega)
  | .sequenceOf e c, _, h, hw => by
    cases h with
    | sequenceOf _ he =>
      simp only [Ty.wf, Bool.and_eq_true] at hw ⊢
      exact ⟨wf_aux e _ he hw.1, hw.2⟩
  | .choice r x a, _, h, hw => by
    cases h with
    | choice _ hr ha =>
      rw [choice_wf_iff] at hw ⊢
      obtain ⟨h1, h2, h3, h4, h5⟩ := hw
      have n1 := names_of_extendsAlts _ _ hr
      obtain ⟨⟨s, hs⟩, hl⟩ := names_of_extendsAltAdds _ _ _ ha
      refine ⟨wf_alts r _ hr h1, wf_altAdds x a _ ha h2, by omega, ?_, ?_⟩
      · rw [n1.1]; rw [hs] at h4; exact nodup_prefix _ _ _ h4
      · rcases h5 with h5 | h5
        · exact Or.inl h5
        · exact Or.inr (by omega)
theorem wf_members : ∀ (m1 m2 : Members), ExtendsMembers m1 m2 → m2.wf = true → m1.wf = true
  | .nil, _, h, hw => by cases h; exact hw
  | .cons n p t rest, _, h, hw => by
    cases h with
    | cons _ _ ht hr =>
      simp only [Members.wf, Bool.and_eq_true] at hw ⊢
      exact ⟨wf_aux t _ ht hw.1, wf_members rest _ hr hw.2⟩
theorem wf_adds : ∀ (x : Bool) (m1 m2 : Members), ExtendsAdds x m1 m2 → m2.wf = true → m1.wf = true
  | x, .nil, _, h, hw => rfl
  | x, .cons n p t rest, _, h, hw => by
    cases h with
    | cons _ _ ht hr =>
      simp only [Members.wf, Bool.and_eq_true] at hw ⊢
      exact ⟨wf_aux t _ ht hw.1, wf_adds x rest _ hr hw.2⟩
theorem wf_alts : ∀ (m1 m2 : Alts), ExtendsAlts m1 m2 → m2.wf = true → m1.wf = true
  | .nil, _, h, hw => by cases h; exact hw
  | .cons n t rest, _, h, hw => by
    cases h with
    | cons _ ht hr =>
      simp only [Alts.wf, Bool.and_eq_true] at hw ⊢
      exact ⟨wf_aux t _ ht hw.1, wf_alts rest _ hr hw.2⟩
theorem wf_altAdds : ∀ (x : Bool) (m1 m2 : Alts), ExtendsAltAdds x m1 m2 → m2.wf = true → m1.wf = true
  | x, .nil, _, h, hw => rfl
  | x, .cons n t rest, _, h, hw => by
    cases h with
    | cons _ ht hr =>
      simp only [Alts.wf, Bool.and_eq_true] at hw ⊢
      exact ⟨wf_aux t _ ht hw.1, wf_altAdds x rest _ hr hw.2⟩
end

/-! ### `oerWf` -/

mutual
theorem oerWf_aux : ∀ (t1 t2 : Ty), Extends t1 t2 → Oer.oerWf t2 = true → Oer.oerWf t1 = true
  | .boolean, _, h, hw | .null, _, h, hw | .integer _, _, h, hw | .octetString _, _, h, hw
  | .bitString _, _, h, hw | .charString _ _, _, h, hw => by cases h; exact hw
  | .enumerated _ _, _, h, hw => by
    cases h
    · exact hw
    · rename_i root adds new
      simp only [Oer.oerWf, Option.getD_some, List.map_append, decide_eq_true_eq] at hw ⊢
      exact nodup_prefix _ _ _ hw
  | .sequence r x a, _, h, hw => by
    cases h with
    | sequence _ hr ha =>
      simp only [Oer.oerWf, Bool.and_eq_true] at hw ⊢
      exact ⟨oerWf_members r _ hr hw.1, oerWf_adds x a _ ha hw.2⟩
  | .sequenceOf e c, _, h, hw => by
    cases h with
    | sequenceOf _ he =>
      simp only [Oer.oerWf] at hw ⊢
      exact oerWf_aux e _ he hw
  | .choice r x a, _, h, hw => by
    cases h with
    | choice _ hr ha =>
      simp only [Oer.oerWf, Bool.and_eq_true] at hw ⊢
      exact ⟨oerWf_alts r _ hr hw.1, oerWf_altAdds x a _ ha hw.2⟩
theorem oerWf_members : ∀ (m1 m2 : Members), ExtendsMembers m1 m2 → Oer.oerWfMembers m2 = true → Oer.oerWfMembers m1 = true
  | .nil, _, h, hw => by cases h; exact hw
  | .cons n p t rest, _, h, hw => by
    cases h with
    | cons _ _ ht hr =>
      simp only [Oer.oerWfMembers, Bool.and_eq_true] at hw ⊢
      exact ⟨oerWf_aux t _ ht hw.1, oerWf_members rest _ hr hw.2⟩
theorem oerWf_adds : ∀ (x : Bool) (m1 m2 : Members), ExtendsAdds x m1 m2 → Oer.oerWfMembers m2 = true → Oer.oerWfMembers m1 = true
  | x, .nil, _, h, hw => rfl
  | x, .cons n p t rest, _, h, hw => by
    cases h with
    | cons _ _ ht hr =>
      simp only [Oer.oerWfMembers, Bool.and_eq_true] at hw ⊢
      exact ⟨oerWf_aux t _ ht hw.1, oerWf_adds x rest _ hr hw.2⟩
theorem oerWf_alts : ∀ (m1 m2 : Alts), ExtendsAlts m1 m2 → Oer.oerWfAlts m2 = true → Oer.oerWfAlts m1 = true
  | .nil, _, h, hw => by cases h; exact hw
  | .cons n t rest, _, h, hw => by
    cases h with
    | cons _ ht hr =>
      simp only [Oer.oerWfAlts, Bool.and_eq_true] at hw ⊢
      exact ⟨oerWf_aux t _ ht hw.1, oerWf_alts rest _ hr hw.2⟩
theorem oerWf_altAdds : ∀ (x : Bool) (m1 m2 : Alts), ExtendsAltAdds x m1 m2 → Oer.oerWfAlts m2 = true → Oer.oerWfAlts m1 = true
  | x, .nil, _, h, hw => rfl
  | x, .cons n t rest, _, h, hw => by
    cases h with
    | cons _ ht hr =>
      simp only [Oer.oerWfAlts, Bool.and_eq_true] at hw ⊢
      exact ⟨oerWf_aux t _ ht hw.1, oerWf_altAdds x rest _ hr hw.2⟩
end

/-! ### typing -/

theorem hasMembers_omissible (ms : Members) (h : allOmissible ms = true) : hasMembers ms [] = some [] := by
  induction ms using Members.ind with
  | nil => rfl
  | cons n p t rest ih =>
    simp only [allOmissible, Bool.and_eq_true] at h
    rw [hasMembers_cons_nil]
    cases p
    · simp [omissible] at h
    · exact ih h.2
    · exact ih h.2

mutual
theorem hasType_aux : ∀ (t1 t2 : Ty), Extends t1 t2 → ∀ v, hasType t1 v = true → hasType t2 v = true
  | .boolean, _, h, v, hv | .null, _, h, v, hv | .integer _, _, h, v, hv | .octetString _, _, h, v, hv
  | .bitString _, _, h, v, hv | .charString _ _, _, h, v, hv => by cases h; exact hv
  | .enumerated _ _, _, h, v, hv => by
    cases h
    · exact hv
    · rename_i root adds new
      cases v <;> simp only [hasType, Bool.false_eq_true] at hv ⊢
      simp only [namesOf, List.map_append, Bool.or_eq_true, List.contains_eq_mem, List.mem_append,
        decide_eq_true_eq] at hv ⊢
      rcases hv with hv | hv
      · exact Or.inl hv
      · exact Or.inr (Or.inl hv)
  | .sequence r x a, _, h, v, hv => by
    cases h with
    | sequence _ hr ha =>
      cases v <;> simp only [hasType, Bool.false_eq_true] at hv ⊢
      rename_i fs
      cases h1 : hasMembers r fs with
      | none => simp [h1] at hv
      | some rest =>
        simp only [h1] at hv
        rw [hasMembers_ext r _ hr fs rest h1]
        cases h2 : hasMembers a rest with
        | none => simp [h2] at hv
        | some rest' =>
          simp only [h2, List.isEmpty_iff] at hv
          subst hv
          simp only [hasMembers_adds x a _ ha rest h2, List.isEmpty_nil]
  | .sequenceOf e c, _, h, v, hv => by
    cases h with
    | sequenceOf _ he =>
      cases v <;> simp only [hasType, Bool.false_eq_true] at hv ⊢
      simp only [Bool.and_eq_true, List.all_eq_true] at hv ⊢
      exact ⟨fun w hw => hasType_aux e _ he w (hv.1 w hw), hv.2⟩
  | .choice r x a, _, h, v, hv => by
    cases h with
    | choice _ hr ha =>
      cases v <;> simp only [hasType, Bool.false_eq_true] at hv ⊢
      simp only [Bool.or_eq_true] at hv ⊢
      rcases hv with hv | hv
      · exact Or.inl (hasAlt_ext r _ hr _ _ hv)
      · exact Or.inr (hasAlt_adds x a _ ha _ _ hv)
  termination_by structural t1 => t1
theorem hasMembers_ext : ∀ (m1 m2 : Members), ExtendsMembers m1 m2 → ∀ fs rest,
    hasMembers m1 fs = some rest → hasMembers m2 fs = some rest
  | .nil, _, h, fs, rest, hm => by cases h; exact hm
  | .cons n p t ms, _, h, fs, rest, hm => by
    cases h with
    | cons _ _ ht hr =>
      cases fs with
      | nil =>
        rw [hasMembers_cons_nil] at hm ⊢
        cases p
        · simp at hm
        · exact hasMembers_ext ms _ hr _ _ hm
        · exact hasMembers_ext ms _ hr _ _ hm
      | cons f fs' =>
        obtain ⟨m, v⟩ := f
        rw [hasMembers_cons_cons] at hm ⊢
        by_cases hn : (m == n) = true
        · simp only [hn, if_true] at hm ⊢
          by_cases hv : hasType t v = true
          · simp only [hv, if_true] at hm
            simp only [hasType_aux t _ ht v hv, if_true]
            exact hasMembers_ext ms _ hr _ _ hm
          · simp [hv] at hm
        · simp only [hn, if_false] at hm ⊢
          cases p
          · simp at hm
          · exact hasMembers_ext ms _ hr _ _ hm
          · exact hasMembers_ext ms _ hr _ _ hm
  termination_by structural m1 => m1
theorem hasMembers_adds : ∀ (x : Bool) (m1 m2 : Members), ExtendsAdds x m1 m2 → ∀ fs,
    hasMembers m1 fs = some [] → hasMembers m2 fs = some []
  | x, .nil, _, h, fs, hm => by
    cases h
    simp only [hasMembers, Option.some.injEq] at hm
    subst hm
    exact hasMembers_omissible _ (by assumption)
  | x, .cons n p t ms, _, h, fs, hm => by
    cases h with
    | cons _ _ ht hr =>
      cases fs with
      | nil =>
        rw [hasMembers_cons_nil] at hm ⊢
        cases p
        · simp at hm
        · exact hasMembers_adds x ms _ hr _ hm
        · exact hasMembers_adds x ms _ hr _ hm
      | cons f fs' =>
        obtain ⟨m, v⟩ := f
        rw [hasMembers_cons_cons] at hm ⊢
        by_cases hn : (m == n) = true
        · simp only [hn, if_true] at hm ⊢
          by_cases hv : hasType t v = true
          · simp only [hv, if_true] at hm
            simp only [hasType_aux t _ ht v hv, if_true]
            exact hasMembers_adds x ms _ hr _ hm
          · simp [hv] at hm
        · simp only [hn, if_false] at hm ⊢
          cases p
          · simp at hm
          · exact hasMembers_adds x ms _ hr _ hm
          · exact hasMembers_adds x ms _ hr _ hm
  termination_by structural _ m1 => m1
theorem hasAlt_ext : ∀ (m1 m2 : Alts), ExtendsAlts m1 m2 → ∀ n v, hasAlt m1 n v = true → hasAlt m2 n v = true
  | .nil, _, h, n, v, hv => by cases h; exact hv
  | .cons m t rest, _, h, n, v, hv => by
    cases h with
    | cons _ ht hr =>
      simp only [hasAlt] at hv ⊢
      by_cases hn : (m == n) = true
      · simp only [hn, if_true] at hv ⊢
        exact hasType_aux t _ ht v hv
      · simp only [hn, if_false] at hv ⊢
        exact hasAlt_ext rest _ hr n v hv
  termination_by structural m1 => m1
theorem hasAlt_adds : ∀ (x : Bool) (m1 m2 : Alts), ExtendsAltAdds x m1 m2 → ∀ n v, hasAlt m1 n v = true → hasAlt m2 n v = true
  | x, .nil, _, h, n, v, hv => by simp [hasAlt] at hv
  | x, .cons m t rest, _, h, n, v, hv => by
    cases h with
    | cons _ ht hr =>
      simp only [hasAlt] at hv ⊢
      by_cases hn : (m == n) = true
      · simp only [hn, if_true] at hv ⊢
        exact hasType_aux t _ ht v hv
      · simp only [hn, if_false] at hv ⊢
        exact hasAlt_adds x rest _ hr n v hv
  termination_by structural _ m1 => m1
end

/-! ### `view` on version-1 values -/

/-- the names of the additions only the second list has -/
def newNames : Members → Members → List String
  | .nil, ms => ms.names
  | .cons _ _ _ m1, .cons _ _ _ m2 => newNames m1 m2
  | .cons _ _ _ _, .nil => []

theorem names_newNames (x : Bool) (m1 m2 : Members) (h : ExtendsAdds x m1 m2) :
    m2.names = m1.names ++ newNames m1 m2 := by
  induction m1 using Members.ind generalizing m2 with
  | nil => cases h; rfl
  | cons n p t rest ih =>
    cases h with
    | cons _ _ ht hr =>
      simp only [Members.names, newNames, List.cons_append, ← ih _ hr]

theorem viewMembers_nil_left (fa : Bool) (ms : Members) (fs : List (String × Val)) (fill : Bool) :
    viewMembers fa .nil ms fs fill = [] := by
  cases ms <;> rfl

theorem viewMembers_nil_right (fa : Bool) (ms : Members) (fs : List (String × Val)) (fill : Bool)
    (h : ∀ n ∈ ms.names, lookup n fs = none) :
    viewMembers fa ms .nil fs fill = canonMembersG fa ms fs fill := by
  induction ms using Members.ind with
  | nil => rfl
  | cons n p t rest ih =>
    have hl : lookup n fs = none := h n (by simp [Members.names])
    have ih' := ih (fun k hk => h k (by simp [Members.names, hk]))
    simp only [viewMembers, canonMembersG, hl, ih']

theorem viewAlt_none_of_not_mem (fa : Bool) (m1 m2 : Alts) (n : String) (v : Val) (h : n ∉ m1.names) :
    viewAlt fa m1 m2 n v = none := by
  induction m1 using Alts.ind generalizing m2 with
  | nil => cases m2 <;> rfl
  | cons k t rest ih =>
    cases m2 with
    | nil => rfl
    | cons k' t' rest' =>
      simp only [Alts.names, List.mem_cons, not_or] at h
      have hk : (k == n) = false := by simpa using fun e => h.1 (e.symm)
      simp only [viewAlt, hk, Bool.false_eq_true, if_false]
      exact ih _ h.2

theorem canonAltG_none_of_not_mem (fa : Bool) (m : Alts) (n : String) (v : Val) (h : n ∉ m.names) :
    canonAltG fa m n v = none := by
  induction m using Alts.ind with
  | nil => rfl
  | cons k t rest ih =>
    simp only [Alts.names, List.mem_cons, not_or] at h
    have hk : (k == n) = false := by simpa using fun e => h.1 (e.symm)
    simp only [canonAltG, hk, Bool.false_eq_true, if_false]
    exact ih h.2

theorem canonAltG_some_of_mem (fa : Bool) (m : Alts) (n : String) (v : Val) (h : n ∈ m.names) :
    ∃ w, canonAltG fa m n v = some w := by
  induction m using Alts.ind with
  | nil => simp [Alts.names] at h
  | cons k t rest ih =>
    simp only [canonAltG]
    by_cases hk : (k == n) = true
    · simp only [hk, if_true]; exact ⟨_, rfl⟩
    · simp only [hk, if_false]
      simp only [Alts.names, List.mem_cons] at h
      rcases h with h | h
      · exact absurd (show (k == n) = true by simp [h]) hk
      · exact ih h

theorem hasAlt_mem (m : Alts) (n : String) (v : Val) (h : hasAlt m n v = true) : n ∈ m.names := by
  induction m using Alts.ind with
  | nil => simp [hasAlt] at h
  | cons k t rest ih =>
    simp only [hasAlt] at h
    by_cases hk : (k == n) = true
    · simp only [Alts.names, List.mem_cons]; exact Or.inl (show n = k from (by simpa using hk : k = n).symm)
    · simp only [hk, Bool.false_eq_true, if_false] at h
      simp only [Alts.names, List.mem_cons]; exact Or.inr (ih h)

theorem fieldNames_of_hasType (r : Members) (x : Bool) (a : Members) (fs : List (String × Val))
    (h : hasType (.sequence r x a) (.record fs) = true) :
    ∀ n ∈ fieldNames fs, n ∈ r.names ++ a.names := by
  rw [hasType] at h
  cases h1 : hasMembers r fs with
  | none => simp [h1] at h
  | some rest =>
    simp only [h1] at h
    cases h2 : hasMembers a rest with
    | none => simp [h2] at h
    | some rest' =>
      simp only [h2, List.isEmpty_iff] at h
      subst h
      obtain ⟨pre1, e1, m1⟩ := hasMembers_split r fs rest h1
      obtain ⟨pre2, e2, m2⟩ := hasMembers_split a rest [] h2
      intro n hn
      rw [e1, e2] at hn
      simp only [fieldNames, List.map_append, List.mem_append, List.map_nil, List.not_mem_nil, or_false] at hn
      rcases hn with hn | hn
      · exact List.mem_append.mpr (Or.inl (m1 n hn))
      · exact List.mem_append.mpr (Or.inr (m2 n hn))

theorem membersOk_cons (n : String) (p : Presence) (t : Ty) (rest : Members) (fs : List (String × Val))
    (h : membersOk (.cons n p t rest) fs = true) :
    (∀ v, lookup n fs = some v → hasType t v = true) ∧ membersOk rest fs = true := by
  simp only [membersOk, Bool.and_eq_true] at h
  refine ⟨fun v hv => ?_, h.2⟩
  have := h.1
  rw [hv] at this
  exact this

mutual
theorem view_same_aux (fa : Bool) : ∀ (t1 t2 : Ty), Extends t1 t2 → t2.wf = true → ∀ v, hasType t1 v = true →
    view fa t1 t2 v = canonG fa t1 v ∧ view fa t2 t1 v = canonG fa t2 v
  | .boolean, _, h, hw, v, hv | .null, _, h, hw, v, hv | .integer _, _, h, hw, v, hv
  | .octetString _, _, h, hw, v, hv | .charString _ _, _, h, hw, v, hv => by
    cases h; cases v <;> simp only [view, canonG, and_self]
  | .bitString _, _, h, hw, v, hv => by
    cases h; cases v <;> simp only [view, canonG, and_self]
  | .enumerated _ _, _, h, hw, v, hv => by
    have hv2 := hasType_aux _ _ h v hv
    cases h
    · cases v <;> simp only [view, canonG, and_self]
      simp only [hasType] at hv
      simp only [hv, if_true]
    · cases v <;> simp only [view, canonG, and_self]
      simp only [hasType] at hv hv2
      simp only [hv, hv2, if_true, and_self]
  | .sequence r x a, _, h, hw, v, hv => by
    have hw1 := wf_aux _ _ h hw
    have hv2 := hasType_aux _ _ h v hv
    cases h with
    | sequence _ hr ha =>
      rename_i r2 a2
      cases v <;> simp only [hasType, Bool.false_eq_true] at hv
      rename_i fs
      have hnd1 := ((seq_wf_iff _ _ _).mp hw1).2.2.1
      obtain ⟨hwr, hwa, hnd2, _, _⟩ := (seq_wf_iff _ _ _).mp hw
      have hv' : hasType (.sequence r x a) (.record fs) = true := by simp only [hasType]; exact hv
      obtain ⟨ok1, ok2⟩ := membersOk_of_hasType r a x fs hnd1 hv'
      have hnew : ∀ n ∈ newNames a a2, lookup n fs = none := by
        intro n hn
        apply lookup_none_of_not_mem
        intro hmem
        have := fieldNames_of_hasType r x a fs hv' n hmem
        rw [names_newNames _ _ _ ha, ← (names_of_extendsMembers _ _ hr).1, ← List.append_assoc] at hnd2
        exact (List.nodup_append.mp hnd2).2.2 n this n hn rfl
      have e1 := viewMembers_same fa r _ hr hwr fs true ok1
      have e2 := viewAdds_same fa x a _ ha hwa fs fa ok2 hnew
      simp only [view, canonG, e1.1, e1.2, e2.1, e2.2, and_self]
  | .sequenceOf e c, _, h, hw, v, hv => by
    cases h with
    | sequenceOf _ he =>
      cases v <;> simp only [hasType, Bool.false_eq_true] at hv
      rename_i vs
      simp only [Ty.wf, Bool.and_eq_true, List.all_eq_true] at hw hv
      simp only [view, canonG, Val.list.injEq]
      exact ⟨List.map_congr_left (fun w hw' => (view_same_aux fa e _ he hw.1 w (hv.1 w hw')).1),
        List.map_congr_left (fun w hw' => (view_same_aux fa e _ he hw.1 w (hv.1 w hw')).2)⟩
  | .choice r x a, _, h, hw, v, hv => by
    have hw1 := wf_aux _ _ h hw
    cases h with
    | choice _ hr ha =>
      rename_i r2 a2
      cases v <;> simp only [hasType, Bool.false_eq_true] at hv
      rename_i n v
      have hnd1 := ((choice_wf_iff _ _ _).mp hw1).2.2.2.1
      obtain ⟨hwr, hwa, _, hnd2, _⟩ := (choice_wf_iff _ _ _).mp hw
      simp only [Bool.or_eq_true] at hv
      simp only [view, canonG]
      rcases hv with hv | hv
      · have e := viewAlt_same fa r _ hr hwr n v hv
        have hm := hasAlt_mem _ _ _ hv
        obtain ⟨w1, hw1⟩ := canonAltG_some_of_mem fa r n v hm
        obtain ⟨w2, hw2⟩ := canonAltG_some_of_mem fa r2 n v ((names_of_extendsAlts _ _ hr).1 ▸ hm)
        simp only [e.1, e.2, hw1, hw2, and_self]
      · have hm := hasAlt_mem _ _ _ hv
        have hnm : n ∉ r.names := fun hc => (List.nodup_append.mp hnd1).2.2 n hc n hm rfl
        have hnm2 : n ∉ r2.names := (names_of_extendsAlts _ _ hr).1 ▸ hnm
        have e := viewAltAdds_same fa x a _ ha hwa n v hv
        obtain ⟨w1, hw1⟩ := canonAltG_some_of_mem fa a n v hm
        obtain ⟨s, hs⟩ := (names_of_extendsAltAdds _ _ _ ha).1
        obtain ⟨w2, hw2⟩ := canonAltG_some_of_mem fa a2 n v (by rw [hs]; exact List.mem_append.mpr (Or.inl hm))
        simp only [viewAlt_none_of_not_mem fa r r2 n v hnm, viewAlt_none_of_not_mem fa r2 r n v hnm2,
          canonAltG_none_of_not_mem fa r n v hnm, canonAltG_none_of_not_mem fa r2 n v hnm2,
          e.1, e.2, hw1, hw2, and_self]
  termination_by structural t1 => t1
theorem viewMembers_same (fa : Bool) : ∀ (m1 m2 : Members), ExtendsMembers m1 m2 → m2.wf = true → ∀ fs fill,
    membersOk m1 fs = true →
    viewMembers fa m1 m2 fs fill = canonMembersG fa m1 fs fill ∧
    viewMembers fa m2 m1 fs fill = canonMembersG fa m2 fs fill
  | .nil, _, h, hw, fs, fill, hm => by cases h; exact ⟨rfl, rfl⟩
  | .cons n p t ms, _, h, hw, fs, fill, hm => by
    cases h with
    | cons _ _ ht hr =>
      simp only [Members.wf, Bool.and_eq_true] at hw
      obtain ⟨hm1, hm2⟩ := membersOk_cons _ _ _ _ _ hm
      have ih := viewMembers_same fa ms _ hr hw.2 fs fill hm2
      cases hl : lookup n fs with
      | none => simp only [viewMembers, canonMembersG, hl, ih.1, ih.2, and_self]
      | some v =>
        have e := view_same_aux fa t _ ht hw.1 v (hm1 v hl)
        simp only [viewMembers, canonMembersG, hl, ih.1, ih.2, e.1, e.2, and_self]
  termination_by structural m1 => m1
theorem viewAdds_same (fa : Bool) : ∀ (x : Bool) (m1 m2 : Members), ExtendsAdds x m1 m2 → m2.wf = true → ∀ fs fill,
    membersOk m1 fs = true → (∀ n ∈ newNames m1 m2, lookup n fs = none) →
    viewMembers fa m1 m2 fs fill = canonMembersG fa m1 fs fill ∧
    viewMembers fa m2 m1 fs fill = canonMembersG fa m2 fs fill
  | x, .nil, m2, h, hw, fs, fill, hm, hnew => by
    refine ⟨viewMembers_nil_left _ _ _ _, viewMembers_nil_right _ _ _ _ ?_⟩
    exact hnew
  | x, .cons n p t ms, _, h, hw, fs, fill, hm, hnew => by
    cases h with
    | cons _ _ ht hr =>
      simp only [Members.wf, Bool.and_eq_true] at hw
      obtain ⟨hm1, hm2⟩ := membersOk_cons _ _ _ _ _ hm
      have ih := viewAdds_same fa x ms _ hr hw.2 fs fill hm2 hnew
      cases hl : lookup n fs with
      | none => simp only [viewMembers, canonMembersG, hl, ih.1, ih.2, and_self]
      | some v =>
        have e := view_same_aux fa t _ ht hw.1 v (hm1 v hl)
        simp only [viewMembers, canonMembersG, hl, ih.1, ih.2, e.1, e.2, and_self]
  termination_by structural _ m1 => m1
theorem viewAlt_same (fa : Bool) : ∀ (m1 m2 : Alts), ExtendsAlts m1 m2 → m2.wf = true → ∀ n v,
    hasAlt m1 n v = true →
    viewAlt fa m1 m2 n v = canonAltG fa m1 n v ∧ viewAlt fa m2 m1 n v = canonAltG fa m2 n v
  | .nil, _, h, hw, n, v, hv => by simp [hasAlt] at hv
  | .cons k t rest, _, h, hw, n, v, hv => by
    cases h with
    | cons _ ht hr =>
      simp only [Alts.wf, Bool.and_eq_true] at hw
      simp only [hasAlt] at hv
      by_cases hk : (k == n) = true
      · simp only [hk, if_true] at hv
        have e := view_same_aux fa t _ ht hw.1 v hv
        simp only [viewAlt, canonAltG, hk, if_true, e.1, e.2, and_self]
      · simp only [hk, Bool.false_eq_true, if_false] at hv
        have ih := viewAlt_same fa rest _ hr hw.2 n v hv
        simp only [viewAlt, canonAltG, hk, Bool.false_eq_true, if_false, ih.1, ih.2, and_self]
  termination_by structural m1 => m1
theorem viewAltAdds_same (fa : Bool) : ∀ (x : Bool) (m1 m2 : Alts), ExtendsAltAdds x m1 m2 → m2.wf = true → ∀ n v,
    hasAlt m1 n v = true →
    viewAlt fa m1 m2 n v = canonAltG fa m1 n v ∧ viewAlt fa m2 m1 n v = canonAltG fa m2 n v
  | x, .nil, _, h, hw, n, v, hv => by simp [hasAlt] at hv
  | x, .cons k t rest, _, h, hw, n, v, hv => by
    cases h with
    | cons _ ht hr =>
      simp only [Alts.wf, Bool.and_eq_true] at hw
      simp only [hasAlt] at hv
      by_cases hk : (k == n) = true
      · simp only [hk, if_true] at hv
        have e := view_same_aux fa t _ ht hw.1 v hv
        simp only [viewAlt, canonAltG, hk, if_true, e.1, e.2, and_self]
      · simp only [hk, Bool.false_eq_true, if_false] at hv
        have ih := viewAltAdds_same fa x rest _ hr hw.2 n v hv
        simp only [viewAlt, canonAltG, hk, Bool.false_eq_true, if_false, ih.1, ih.2, and_self]
  termination_by structural _ m1 => m1
end

/-! ### `dOk` -/

theorem dOkMembers_nil_right (fa : Bool) (ms : Members) : dOkMembers fa ms .nil := by
  cases ms <;> simp only [dOkMembers]

theorem dOkMembers_nil_left (fa : Bool) (ms : Members) : dOkMembers fa .nil ms := by
  cases ms <;> simp only [dOkMembers]

theorem dOkAlts_nil_right (fa : Bool) (ms : Alts) : dOkAlts fa ms .nil := by
  cases ms <;> simp only [dOkAlts]

theorem dOkAlts_nil_left (fa : Bool) (ms : Alts) : dOkAlts fa .nil ms := by
  cases ms <;> simp only [dOkAlts]

theorem membersDefaultsOkG_cons (fa : Bool) (n : String) (p : Presence) (t : Ty) (rest : Members)
    (h : membersDefaultsOkG fa (.cons n p t rest) = true) :
    (∀ d, p = .default d → hasType t d = true ∧ canonG fa t d = d) ∧ defaultsOkG fa t = true ∧
      membersDefaultsOkG fa rest = true := by
  simp only [membersDefaultsOkG, Bool.and_eq_true] at h
  refine ⟨?_, h.1.2, h.2⟩
  intro d hp
  subst hp
  have := h.1.1
  simp only [Bool.and_eq_true] at this
  exact ⟨this.1, Val.eq_of_beq _ _ this.2⟩

theorem dOkMembers_cons (fa : Bool) (n n' : String) (p p' : Presence) (tD tE : Ty) (mD mE : Members)
    (h1 : ∀ d, p = .default d → view fa tD tE d = d) (h2 : dOk fa tD tE) (h3 : dOkMembers fa mD mE) :
    dOkMembers fa (.cons n p tD mD) (.cons n' p' tE mE) := by
  simp only [dOkMembers]
  refine ⟨?_, h2, h3⟩
  cases p
  · trivial
  · trivial
  · exact h1 _ rfl

mutual
theorem dOk_aux (fa : Bool) : ∀ (t1 t2 : Ty), Extends t1 t2 → t2.wf = true → defaultsOkG fa t1 = true →
    dOk fa t1 t2 ∧ (defaultsOkG fa t2 = true → dOk fa t2 t1)
  | .boolean, _, h, hw, hd | .null, _, h, hw, hd | .integer _, _, h, hw, hd
  | .octetString _, _, h, hw, hd | .charString _ _, _, h, hw, hd | .bitString _, _, h, hw, hd => by
    cases h; simp only [dOk, and_self, implies_true]
  | .enumerated _ _, _, h, hw, hd => by
    cases h <;> simp only [dOk, and_self, implies_true]
  | .sequence r x a, _, h, hw, hd => by
    cases h with
    | sequence _ hr ha =>
      obtain ⟨hwr, hwa, _, _, _⟩ := (seq_wf_iff _ _ _).mp hw
      simp only [defaultsOkG, Bool.and_eq_true] at hd
      have e1 := dOk_members fa r _ hr hwr hd.1
      have e2 := dOk_adds fa x a _ ha hwa hd.2
      simp only [dOk, defaultsOkG, Bool.and_eq_true]
      exact ⟨⟨e1.1, e2.1⟩, fun h2 => ⟨e1.2 h2.1, e2.2 h2.2⟩⟩
  | .sequenceOf e c, _, h, hw, hd => by
    cases h with
    | sequenceOf _ he =>
      simp only [Ty.wf, Bool.and_eq_true] at hw
      simp only [defaultsOkG] at hd
      have e1 := dOk_aux fa e _ he hw.1 hd
      simp only [dOk, defaultsOkG]
      exact e1
  | .choice r x a, _, h, hw, hd => by
    cases h with
    | choice _ hr ha =>
      obtain ⟨hwr, hwa, _, _, _⟩ := (choice_wf_iff _ _ _).mp hw
      simp only [defaultsOkG, Bool.and_eq_true] at hd
      have e1 := dOk_alts fa r _ hr hwr hd.1
      have e2 := dOk_altAdds fa x a _ ha hwa hd.2
      simp only [dOk, defaultsOkG, Bool.and_eq_true]
      exact ⟨⟨e1.1, e2.1⟩, fun h2 => ⟨e1.2 h2.1, e2.2 h2.2⟩⟩
  termination_by structural t1 => t1
theorem dOk_members (fa : Bool) : ∀ (m1 m2 : Members), ExtendsMembers m1 m2 → m2.wf = true →
    membersDefaultsOkG fa m1 = true →
    dOkMembers fa m1 m2 ∧ (membersDefaultsOkG fa m2 = true → dOkMembers fa m2 m1)
  | .nil, _, h, hw, hd => by cases h; simp only [dOkMembers, and_self, implies_true]
  | .cons n p t ms, _, h, hw, hd => by
    cases h with
    | cons _ _ ht hr =>
      simp only [Members.wf, Bool.and_eq_true] at hw
      obtain ⟨hd1, hd2, hd3⟩ := membersDefaultsOkG_cons _ _ _ _ _ hd
      have e1 := dOk_aux fa t _ ht hw.1 hd2
      have e2 := dOk_members fa ms _ hr hw.2 hd3
      refine ⟨dOkMembers_cons _ _ _ _ _ _ _ _ _ ?_ e1.1 e2.1, fun h2 => ?_⟩
      · intro d hp
        obtain ⟨hty, hc⟩ := hd1 d hp
        rw [(view_same_aux fa t _ ht hw.1 d hty).1, hc]
      · obtain ⟨hd1', hd2', hd3'⟩ := membersDefaultsOkG_cons _ _ _ _ _ h2
        refine dOkMembers_cons _ _ _ _ _ _ _ _ _ ?_ (e1.2 hd2') (e2.2 hd3')
        intro d hp
        obtain ⟨hty, _⟩ := hd1 d hp
        rw [(view_same_aux fa t _ ht hw.1 d hty).2, (hd1' d hp).2]
  termination_by structural m1 => m1
theorem dOk_adds (fa : Bool) : ∀ (x : Bool) (m1 m2 : Members), ExtendsAdds x m1 m2 → m2.wf = true →
    membersDefaultsOkG fa m1 = true →
    dOkMembers fa m1 m2 ∧ (membersDefaultsOkG fa m2 = true → dOkMembers fa m2 m1)
  | x, .nil, m2, h, hw, hd => ⟨dOkMembers_nil_left _ _, fun _ => dOkMembers_nil_right _ _⟩
  | x, .cons n p t ms, _, h, hw, hd => by
    cases h with
    | cons _ _ ht hr =>
      simp only [Members.wf, Bool.and_eq_true] at hw
      obtain ⟨hd1, hd2, hd3⟩ := membersDefaultsOkG_cons _ _ _ _ _ hd
      have e1 := dOk_aux fa t _ ht hw.1 hd2
      have e2 := dOk_adds fa x ms _ hr hw.2 hd3
      refine ⟨dOkMembers_cons _ _ _ _ _ _ _ _ _ ?_ e1.1 e2.1, fun h2 => ?_⟩
      · intro d hp
        obtain ⟨hty, hc⟩ := hd1 d hp
        rw [(view_same_aux fa t _ ht hw.1 d hty).1, hc]
      · obtain ⟨hd1', hd2', hd3'⟩ := membersDefaultsOkG_cons _ _ _ _ _ h2
        refine dOkMembers_cons _ _ _ _ _ _ _ _ _ ?_ (e1.2 hd2') (e2.2 hd3')
        intro d hp
        obtain ⟨hty, _⟩ := hd1 d hp
        rw [(view_same_aux fa t _ ht hw.1 d hty).2, (hd1' d hp).2]
  termination_by structural _ m1 => m1
theorem dOk_alts (fa : Bool) : ∀ (m1 m2 : Alts), ExtendsAlts m1 m2 → m2.wf = true →
    altsDefaultsOkG fa m1 = true →
    dOkAlts fa m1 m2 ∧ (altsDefaultsOkG fa m2 = true → dOkAlts fa m2 m1)
  | .nil, _, h, hw, hd => by cases h; simp only [dOkAlts, and_self, implies_true]
  | .cons n t ms, _, h, hw, hd => by
    cases h with
    | cons _ ht hr =>
      simp only [Alts.wf, Bool.and_eq_true] at hw
      simp only [altsDefaultsOkG, Bool.and_eq_true] at hd
      have e1 := dOk_aux fa t _ ht hw.1 hd.1
      have e2 := dOk_alts fa ms _ hr hw.2 hd.2
      simp only [dOkAlts, altsDefaultsOkG, Bool.and_eq_true]
      exact ⟨⟨e1.1, e2.1⟩, fun h2 => ⟨e1.2 h2.1, e2.2 h2.2⟩⟩
  termination_by structural m1 => m1
theorem dOk_altAdds (fa : Bool) : ∀ (x : Bool) (m1 m2 : Alts), ExtendsAltAdds x m1 m2 → m2.wf = true →
    altsDefaultsOkG fa m1 = true →
    dOkAlts fa m1 m2 ∧ (altsDefaultsOkG fa m2 = true → dOkAlts fa m2 m1)
  | x, .nil, m2, h, hw, hd => ⟨dOkAlts_nil_left _ _, fun _ => dOkAlts_nil_right _ _⟩
  | x, .cons n t ms, _, h, hw, hd => by
    cases h with
    | cons _ ht hr =>
      simp only [Alts.wf, Bool.and_eq_true] at hw
      simp only [altsDefaultsOkG, Bool.and_eq_true] at hd
      have e1 := dOk_aux fa t _ ht hw.1 hd.1
      have e2 := dOk_altAdds fa x ms _ hr hw.2 hd.2
      simp only [dOkAlts, altsDefaultsOkG, Bool.and_eq_true]
      exact ⟨⟨e1.1, e2.1⟩, fun h2 => ⟨e1.2 h2.1, e2.2 h2.2⟩⟩
  termination_by structural _ m1 => m1
end

/-! ### `view` = `canonG ∘ project` -/

/-- every member both lists know is found in `fs'` as the projection of what is found in `fs` -/
def LookupOK : Members → Members → List (String × Val) → List (String × Val) → Prop
  | .cons n _ t1 m1, .cons _ _ t2 m2, fs, fs' =>
    lookup n fs' = (lookup n fs).map (project t1 t2) ∧ LookupOK m1 m2 fs fs'
  | .nil, _, _, _ => True
  | .cons _ _ _ _, .nil, _, _ => True

theorem fieldNames_projectMembers (m1 m2 : Members) (fs : List (String × Val)) :
    ∀ n ∈ fieldNames (projectMembers m1 m2 fs), n ∈ m1.names := by
  induction m1 using Members.ind generalizing m2 with
  | nil => intro n hn; cases m2 <;> simp [projectMembers, fieldNames] at hn
  | cons k p t rest ih =>
    cases m2 with
    | nil => intro n hn; simp [projectMembers, fieldNames] at hn
    | cons k' p' t' rest' =>
      intro n hn
      simp only [projectMembers] at hn
      cases hl : lookup k fs with
      | none =>
        simp only [hl] at hn
        simp only [Members.names, List.mem_cons]; exact Or.inr (ih _ n hn)
      | some v =>
        simp only [hl, fieldNames, List.map_cons, List.mem_cons] at hn
        simp only [Members.names, List.mem_cons]
        rcases hn with hn | hn
        · exact Or.inl hn
        · exact Or.inr (ih _ n hn)

theorem lookOK_proj (m1 m2 : Members) (fs pre post : List (String × Val))
    (hnd : m1.names.Nodup) (hpre : ∀ n ∈ m1.names, n ∉ fieldNames pre)
    (hpost : ∀ n ∈ m1.names, n ∉ fieldNames post) :
    LookupOK m1 m2 fs (pre ++ (projectMembers m1 m2 fs ++ post)) := by
  induction m1 using Members.ind generalizing m2 pre with
  | nil => simp only [LookupOK]
  | cons k p t rest ih =>
    cases m2 with
    | nil => simp only [LookupOK]
    | cons k' p' t' rest' =>
      simp only [Members.names, List.nodup_cons] at hnd
      have hk_pre : k ∉ fieldNames pre := hpre k (by simp [Members.names])
      have hk_post : k ∉ fieldNames post := hpost k (by simp [Members.names])
      have hk_rest : k ∉ fieldNames (projectMembers rest rest' fs) :=
        fun hc => hnd.1 (fieldNames_projectMembers _ _ _ k hc)
      have hpre' : ∀ n ∈ rest.names, n ∉ fieldNames pre := fun n hn => hpre n (by simp [Members.names, hn])
      have hpost' : ∀ n ∈ rest.names, n ∉ fieldNames post := fun n hn => hpost n (by simp [Members.names, hn])
      simp only [LookupOK, projectMembers]
      cases hl : lookup k fs with
      | none =>
        simp only [Option.map_none]
        refine ⟨?_, ih _ pre hnd.2 hpre' hpost'⟩
        apply lookup_none_of_not_mem
        simp only [fieldNames, List.map_append, List.mem_append, not_or]
        exact ⟨hk_pre, hk_rest, hk_post⟩
      | some v =>
        simp only [Option.map_some]
        constructor
        · rw [lookup_append_of_not_mem _ _ _ hk_pre, List.cons_append, lookup_cons]
          simp only [beq_self_eq_true, if_true]
        · have := ih rest' (pre ++ [(k, project t t' v)]) hnd.2 (by
            intro n hn
            simp only [fieldNames, List.map_append, List.map_cons, List.map_nil, List.mem_append,
              List.mem_singleton, not_or]
            exact ⟨hpre' n hn, fun e => hnd.1 (e ▸ hn)⟩) hpost'
          simpa only [List.append_assoc, List.singleton_append, List.cons_append, List.nil_append] using this

theorem canonG_absent (fa : Bool) (t : Ty) : canonG fa t .absent = .absent := by
  cases t <;> simp only [canonG]

theorem canonAltG_absent (fa : Bool) (m : Alts) (n : String) (w : Val)
    (h : canonAltG fa m n .absent = some w) : w = .absent := by
  induction m using Alts.ind with
  | nil => simp [canonAltG] at h
  | cons k t rest ih =>
    simp only [canonAltG] at h
    by_cases hk : (k == n) = true
    · simp only [hk, if_true, canonG_absent, Option.some.injEq] at h
      exact h.symm
    · simp only [hk, Bool.false_eq_true, if_false] at h
      exact ih h

theorem canonG_choice_absent (fa : Bool) (r : Alts) (x : Bool) (a : Alts) :
    canonG fa (.choice r x a) (.choice "" .absent) = .choice "" .absent := by
  simp only [canonG]
  cases h1 : canonAltG fa r "" .absent with
  | some w => simp only [canonAltG_absent _ _ _ _ h1]
  | none =>
    simp only
    cases h2 : canonAltG fa a "" .absent with
    | some w => simp only [canonAltG_absent _ _ _ _ h2]
    | none => rfl

theorem projectAlt_none_of_not_mem (m1 m2 : Alts) (n : String) (v : Val) (h : n ∉ m1.names) :
    projectAlt m1 m2 n v = none := by
  induction m1 using Alts.ind generalizing m2 with
  | nil => cases m2 <;> rfl
  | cons k t rest ih =>
    cases m2 with
    | nil => rfl
    | cons k' t' rest' =>
      simp only [Alts.names, List.mem_cons, not_or] at h
      have hk : (k == n) = false := by simpa using fun e => h.1 (e.symm)
      simp only [projectAlt, hk, Bool.false_eq_true, if_false]
      exact ih _ h.2

mutual
theorem view_project_aux (fa : Bool) : ∀ (t1 t2 : Ty), Extends t1 t2 → t1.wf = true → ∀ v,
    view fa t1 t2 v = canonG fa t1 (project t1 t2 v)
  | .boolean, _, h, hw, v | .null, _, h, hw, v | .integer _, _, h, hw, v
  | .octetString _, _, h, hw, v | .charString _ _, _, h, hw, v => by
    cases h; cases v <;> simp only [view, canonG, project]
  | .bitString _, _, h, hw, v => by
    cases h; cases v <;> simp only [view, canonG, project]
  | .enumerated _ _, _, h, hw, v => by
    cases h <;> cases v <;> simp only [view, canonG, project]
  | .sequence r x a, _, h, hw, v => by
    cases h with
    | sequence _ hr ha =>
      rename_i r2 a2
      cases v <;> simp only [view, canonG, project]
      rename_i fs
      obtain ⟨hwr, hwa, hnd, _, _⟩ := (seq_wf_iff _ _ _).mp hw
      obtain ⟨nd1, nd2, disj⟩ := List.nodup_append.mp hnd
      have l1 : LookupOK r r2 fs (projectMembers r r2 fs ++ projectMembers a a2 fs) := by
        have := lookOK_proj r r2 fs [] (projectMembers a a2 fs) nd1 (by simp [fieldNames])
          (fun n hn hc => disj n hn n (fieldNames_projectMembers _ _ _ n hc) rfl)
        simpa only [List.nil_append] using this
      have l2 : LookupOK a a2 fs (projectMembers r r2 fs ++ projectMembers a a2 fs) := by
        have := lookOK_proj a a2 fs (projectMembers r r2 fs) [] nd2
          (fun n hn hc => disj n (fieldNames_projectMembers _ _ _ n hc) n hn rfl) (by simp [fieldNames])
        simpa only [List.append_nil] using this
      rw [viewMembers_project fa r _ hr hwr fs _ true l1, viewAdds_project fa x a _ ha hwa fs _ fa l2]
  | .sequenceOf e c, _, h, hw, v => by
    cases h with
    | sequenceOf _ he =>
      simp only [Ty.wf, Bool.and_eq_true] at hw
      cases v <;> simp only [view, canonG, project]
      simp only [List.map_map, Val.list.injEq]
      exact List.map_congr_left (fun w _ => view_project_aux fa e _ he hw.1 w)
  | .choice r x a, _, h, hw, v => by
    cases h with
    | choice _ hr ha =>
      rename_i r2 a2
      obtain ⟨hwr, hwa, _, _, _⟩ := (choice_wf_iff _ _ _).mp hw
      cases v <;> simp only [view, project]
      · simp only [canonG]
      · simp only [canonG]
      · simp only [canonG]
      · simp only [canonG]
      · simp only [canonG]
      · simp only [canonG]
      · simp only [canonG]
      · simp only [canonG]
      · simp only [canonG]
      · rename_i n v
        by_cases hr1 : n ∈ r.names
        · obtain ⟨w, hp, hv⟩ := viewAlt_project fa r _ hr hwr n v hr1
          obtain ⟨w', hw'⟩ := canonAltG_some_of_mem fa r n w hr1
          simp only [hp, hv, hw', canonG]
        · simp only [viewAlt_none_of_not_mem fa r r2 n v hr1, projectAlt_none_of_not_mem r r2 n v hr1]
          by_cases ha1 : n ∈ a.names
          · obtain ⟨w, hp, hv⟩ := viewAltAdds_project fa x a _ ha hwa n v ha1
            obtain ⟨w', hw'⟩ := canonAltG_some_of_mem fa a n w ha1
            simp only [hp, hv, hw', canonG, canonAltG_none_of_not_mem fa r n w hr1]
          · simp only [viewAlt_none_of_not_mem fa a a2 n v ha1, projectAlt_none_of_not_mem a a2 n v ha1,
              canonG_choice_absent]
      · simp only [canonG]
  termination_by structural t1 => t1
theorem viewMembers_project (fa : Bool) : ∀ (m1 m2 : Members), ExtendsMembers m1 m2 → m1.wf = true →
    ∀ fs fs' fill, LookupOK m1 m2 fs fs' → viewMembers fa m1 m2 fs fill = canonMembersG fa m1 fs' fill
  | .nil, _, h, hw, fs, fs', fill, hl => by cases h; rfl
  | .cons n p t ms, _, h, hw, fs, fs', fill, hl => by
    cases h with
    | cons _ _ ht hr =>
      simp only [Members.wf, Bool.and_eq_true] at hw
      simp only [LookupOK] at hl
      have ih := viewMembers_project fa ms _ hr hw.2 fs fs' fill hl.2
      cases hf : lookup n fs with
      | none =>
        have hf' := hl.1
        simp only [hf, Option.map_none] at hf'
        simp only [viewMembers, canonMembersG, hf, hf', ih]
      | some v =>
        have hf' := hl.1
        simp only [hf, Option.map_some] at hf'
        simp only [viewMembers, canonMembersG, hf, hf', ih, view_project_aux fa t _ ht hw.1 v]
  termination_by structural m1 => m1
theorem viewAdds_project (fa : Bool) : ∀ (x : Bool) (m1 m2 : Members), ExtendsAdds x m1 m2 → m1.wf = true →
    ∀ fs fs' fill, LookupOK m1 m2 fs fs' → viewMembers fa m1 m2 fs fill = canonMembersG fa m1 fs' fill
  | x, .nil, m2, h, hw, fs, fs', fill, hl => viewMembers_nil_left _ _ _ _
  | x, .cons n p t ms, _, h, hw, fs, fs', fill, hl => by
    cases h with
    | cons _ _ ht hr =>
      simp only [Members.wf, Bool.and_eq_true] at hw
      simp only [LookupOK] at hl
      have ih := viewAdds_project fa x ms _ hr hw.2 fs fs' fill hl.2
      cases hf : lookup n fs with
      | none =>
        have hf' := hl.1
        simp only [hf, Option.map_none] at hf'
        simp only [viewMembers, canonMembersG, hf, hf', ih]
      | some v =>
        have hf' := hl.1
        simp only [hf, Option.map_some] at hf'
        simp only [viewMembers, canonMembersG, hf, hf', ih, view_project_aux fa t _ ht hw.1 v]
  termination_by structural _ m1 => m1
theorem viewAlt_project (fa : Bool) : ∀ (m1 m2 : Alts), ExtendsAlts m1 m2 → m1.wf = true → ∀ n v,
    n ∈ m1.names → ∃ w, projectAlt m1 m2 n v = some w ∧ viewAlt fa m1 m2 n v = canonAltG fa m1 n w
  | .nil, _, h, hw, n, v, hn => by simp [Alts.names] at hn
  | .cons k t rest, _, h, hw, n, v, hn => by
    cases h with
    | cons _ ht hr =>
      simp only [Alts.wf, Bool.and_eq_true] at hw
      by_cases hk : (k == n) = true
      · rename_i t2 m2
        refine ⟨project t t2 v, by simp only [projectAlt, hk, if_true], ?_⟩
        simp only [viewAlt, canonAltG, hk, if_true, view_project_aux fa t _ ht hw.1 v]
      · have hn' : n ∈ rest.names := by
          simp only [Alts.names, List.mem_cons] at hn
          rcases hn with hn | hn
          · exact absurd (show (k == n) = true by simp [hn]) hk
          · exact hn
        obtain ⟨w, h1, h2⟩ := viewAlt_project fa rest _ hr hw.2 n v hn'
        refine ⟨w, by simp only [projectAlt, hk, Bool.false_eq_true, if_false, h1], ?_⟩
        simp only [viewAlt, canonAltG, hk, Bool.false_eq_true, if_false, h2]
  termination_by structural m1 => m1
theorem viewAltAdds_project (fa : Bool) : ∀ (x : Bool) (m1 m2 : Alts), ExtendsAltAdds x m1 m2 → m1.wf = true →
    ∀ n v, n ∈ m1.names → ∃ w, projectAlt m1 m2 n v = some w ∧ viewAlt fa m1 m2 n v = canonAltG fa m1 n w
  | x, .nil, _, h, hw, n, v, hn => by simp [Alts.names] at hn
  | x, .cons k t rest, _, h, hw, n, v, hn => by
    cases h with
    | cons _ ht hr =>
      simp only [Alts.wf, Bool.and_eq_true] at hw
      by_cases hk : (k == n) = true
      · rename_i t2 m2
        refine ⟨project t t2 v, by simp only [projectAlt, hk, if_true], ?_⟩
        simp only [viewAlt, canonAltG, hk, if_true, view_project_aux fa t _ ht hw.1 v]
      · have hn' : n ∈ rest.names := by
          simp only [Alts.names, List.mem_cons] at hn
          rcases hn with hn | hn
          · exact absurd (show (k == n) = true by simp [hn]) hk
          · exact hn
        obtain ⟨w, h1, h2⟩ := viewAltAdds_project fa x rest _ hr hw.2 n v hn'
        refine ⟨w, by simp only [projectAlt, hk, Bool.false_eq_true, if_false, h1], ?_⟩
        simp only [viewAlt, canonAltG, hk, Bool.false_eq_true, if_false, h2]
  termination_by structural _ m1 => m1
end

/-! ### the checker -/

theorem presenceEq_iff (p p' : Presence) : presenceEq p p' = true ↔ p = p' := by
  cases p <;> cases p' <;> simp only [presenceEq, Bool.false_eq_true, reduceCtorEq, Presence.default.injEq]
  rename_i a b
  exact ⟨Val.eq_of_beq a b, fun h => h ▸ Val.beq_self a⟩

theorem isPrefix_iff (a b : List (String × Int)) : isPrefix a b = true ↔ ∃ new, b = a ++ new := by
  induction a generalizing b with
  | nil => simp [isPrefix]
  | cons x r ih =>
    cases b with
    | nil => simp [isPrefix]
    | cons y s =>
      simp only [isPrefix, Bool.and_eq_true, decide_eq_true_eq, ih, List.cons_append, List.cons.injEq]
      constructor
      · rintro ⟨rfl, new, rfl⟩; exact ⟨new, rfl, rfl⟩
      · rintro ⟨new, rfl, rfl⟩; exact ⟨rfl, new, rfl⟩

mutual
theorem extendsB_iff_aux : ∀ (t1 t2 : Ty), extendsB t1 t2 = true ↔ Extends t1 t2
  | .boolean, t2 => by
    cases t2 <;> simp only [extendsB, Bool.false_eq_true, false_iff, true_iff] <;>
      first | exact .boolean | (intro h; cases h)
  | .null, t2 => by
    cases t2 <;> simp only [extendsB, Bool.false_eq_true, false_iff, true_iff] <;>
      first | exact .null | (intro h; cases h)
  | .integer c, t2 => by
    cases t2 <;> simp only [extendsB, Bool.false_eq_true, false_iff, decide_eq_true_eq] <;>
      first | (intro h; cases h) | skip
    exact ⟨fun h => h ▸ .integer c, fun h => by cases h; rfl⟩
  | .octetString c, t2 => by
    cases t2 <;> simp only [extendsB, Bool.false_eq_true, false_iff, decide_eq_true_eq] <;>
      first | (intro h; cases h) | skip
    exact ⟨fun h => h ▸ .octetString c, fun h => by cases h; rfl⟩
  | .bitString c, t2 => by
    cases t2 <;> simp only [extendsB, Bool.false_eq_true, false_iff, decide_eq_true_eq] <;>
      first | (intro h; cases h) | skip
    exact ⟨fun h => h ▸ .bitString c, fun h => by cases h; rfl⟩
  | .charString k c, t2 => by
    cases t2 <;> simp only [extendsB, Bool.false_eq_true, false_iff, decide_eq_true_eq, Bool.and_eq_true] <;>
      first | (intro h; cases h) | skip
    exact ⟨fun h => h.1 ▸ h.2 ▸ .charString k c, fun h => by cases h; exact ⟨rfl, rfl⟩⟩
  | .enumerated root ext, t2 => by
    cases t2 with
    | enumerated root' ext' =>
      cases ext <;> cases ext' <;>
        simp only [extendsB, Bool.false_eq_true, false_iff, decide_eq_true_eq, Bool.and_eq_true]
      · exact ⟨fun h => h ▸ .enumerated root, fun h => by cases h; rfl⟩
      · intro h; cases h
      · intro h; cases h
      · rw [isPrefix_iff]
        constructor
        · rintro ⟨rfl, new, rfl⟩; exact .enumeratedExt _ _ _
        · intro h; cases h; exact ⟨rfl, _, rfl⟩
    | _ =>
      cases ext <;> simp only [extendsB, Bool.false_eq_true, false_iff] <;> (intro h; cases h)
  | .sequence r x a, t2 => by
    cases t2 <;> simp only [extendsB, Bool.false_eq_true, false_iff, Bool.and_eq_true, beq_iff_eq] <;>
      first | (intro h; cases h) | skip
    rw [extendsMembersB_iff r, extendsAddsB_iff x a]
    constructor
    · rintro ⟨⟨rfl, h1⟩, h2⟩; exact .sequence x h1 h2
    · intro h; cases h with | sequence _ h1 h2 => exact ⟨⟨rfl, h1⟩, h2⟩
  | .sequenceOf e c, t2 => by
    cases t2 <;> simp only [extendsB, Bool.false_eq_true, false_iff, Bool.and_eq_true, decide_eq_true_eq] <;>
      first | (intro h; cases h) | skip
    rw [extendsB_iff_aux e]
    constructor
    · rintro ⟨rfl, h1⟩; exact .sequenceOf c h1
    · intro h; cases h with | sequenceOf _ h1 => exact ⟨rfl, h1⟩
  | .choice r x a, t2 => by
    cases t2 <;> simp only [extendsB, Bool.false_eq_true, false_iff, Bool.and_eq_true, beq_iff_eq] <;>
      first | (intro h; cases h) | skip
    rw [extendsAltsB_iff r, extendsAltAddsB_iff x a]
    constructor
    · rintro ⟨⟨rfl, h1⟩, h2⟩; exact .choice x h1 h2
    · intro h; cases h with | choice _ h1 h2 => exact ⟨⟨rfl, h1⟩, h2⟩
  termination_by structural t1 => t1
theorem extendsMembersB_iff : ∀ (m1 m2 : Members), extendsMembersB m1 m2 = true ↔ ExtendsMembers m1 m2
  | .nil, m2 => by
    cases m2 <;> simp only [extendsMembersB, Bool.false_eq_true, false_iff, true_iff]
    · exact .nil
    · intro h; cases h
  | .cons n p t rest, m2 => by
    cases m2 <;> simp only [extendsMembersB, Bool.false_eq_true, false_iff, Bool.and_eq_true, beq_iff_eq]
    · intro h; cases h
    · rw [presenceEq_iff, extendsB_iff_aux t, extendsMembersB_iff rest]
      constructor
      · rintro ⟨⟨⟨rfl, rfl⟩, h1⟩, h2⟩; exact .cons n p h1 h2
      · intro h; cases h with | cons _ _ h1 h2 => exact ⟨⟨⟨rfl, rfl⟩, h1⟩, h2⟩
  termination_by structural m1 => m1
theorem extendsAddsB_iff : ∀ (x : Bool) (m1 m2 : Members), extendsAddsB x m1 m2 = true ↔ ExtendsAdds x m1 m2
  | x, .nil, m2 => by
    simp only [extendsAddsB, Bool.and_eq_true, Bool.or_eq_true]
    constructor
    · rintro ⟨h1, h2⟩
      refine .new x m2 ?_ h2
      rcases h1 with h1 | h1
      · exact Or.inl h1
      · cases m2
        · exact Or.inr rfl
        · simp at h1
    · intro h
      cases h
      rename_i h2 h1
      refine ⟨?_, h2⟩
      rcases h1 with h1 | h1
      · exact Or.inl h1
      · subst h1; exact Or.inr rfl
  | x, .cons n p t rest, m2 => by
    cases m2 <;> simp only [extendsAddsB, Bool.false_eq_true, false_iff, Bool.and_eq_true, beq_iff_eq]
    · intro h; cases h
    · rw [presenceEq_iff, extendsB_iff_aux t, extendsAddsB_iff x rest]
      constructor
      · rintro ⟨⟨⟨rfl, rfl⟩, h1⟩, h2⟩; exact .cons n p h1 h2
      · intro h; cases h with | cons _ _ h1 h2 => exact ⟨⟨⟨rfl, rfl⟩, h1⟩, h2⟩
  termination_by structural _ m1 => m1
theorem extendsAltsB_iff : ∀ (m1 m2 : Alts), extendsAltsB m1 m2 = true ↔ ExtendsAlts m1 m2
  | .nil, m2 => by
    cases m2 <;> simp only [extendsAltsB, Bool.false_eq_true, false_iff, true_iff]
    · exact .nil
    · intro h; cases h
  | .cons n t rest, m2 => by
    cases m2 <;> simp only [extendsAltsB, Bool.false_eq_true, false_iff, Bool.and_eq_true, beq_iff_eq]
    · intro h; cases h
    · rw [extendsB_iff_aux t, extendsAltsB_iff rest]
      constructor
      · rintro ⟨⟨rfl, h1⟩, h2⟩; exact .cons n h1 h2
      · intro h; cases h with | cons _ h1 h2 => exact ⟨⟨rfl, h1⟩, h2⟩
  termination_by structural m1 => m1
theorem extendsAltAddsB_iff : ∀ (x : Bool) (m1 m2 : Alts), extendsAltAddsB x m1 m2 = true ↔ ExtendsAltAdds x m1 m2
  | x, .nil, m2 => by
    simp only [extendsAltAddsB, Bool.or_eq_true]
    constructor
    · intro h1
      refine .new x m2 ?_
      rcases h1 with h1 | h1
      · exact Or.inl h1
      · cases m2
        · exact Or.inr rfl
        · simp at h1
    · intro h
      cases h
      rename_i h1
      rcases h1 with h1 | h1
      · exact Or.inl h1
      · subst h1; exact Or.inr rfl
  | x, .cons n t rest, m2 => by
    cases m2 <;> simp only [extendsAltAddsB, Bool.false_eq_true, false_iff, Bool.and_eq_true, beq_iff_eq]
    · intro h; cases h
    · rw [extendsB_iff_aux t, extendsAltAddsB_iff x rest]
      constructor
      · rintro ⟨⟨rfl, h1⟩, h2⟩; exact .cons n h1 h2
      · intro h; cases h with | cons _ h1 h2 => exact ⟨⟨rfl, h1⟩, h2⟩
  termination_by structural _ m1 => m1
end

end Asn1.Ext
