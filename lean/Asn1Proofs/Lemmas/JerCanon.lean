import Asn1Proofs.Lemmas.JerRoundtrip
/-
  When is the JER canonical form the value itself?  Exactly when no DEFAULT member is left out
  (`explicitDefaults`): then `decode (encode v) = v` literally.
-/
namespace Asn1.Jer

mutual
  /-- every DEFAULT member of every SEQUENCE value inside `v` is present -/
  def explicitDefaults : Ty → Val → Bool
    | .sequence root _ adds, .record fs => explicitMembers root fs && explicitMembers adds fs
    | .sequenceOf e _, .list vs => vs.all (explicitDefaults e)
    | .choice root _ adds, .choice n v => explicitAlt root n v && explicitAlt adds n v
    | _, _ => true
  def explicitMembers : Members → List (String × Val) → Bool
    | .nil, _ => true
    | .cons name p t rest, fs =>
      (match lookup name fs with
       | some v => explicitDefaults t v
       | none => match p with
         | .default _ => false
         | _ => true) && explicitMembers rest fs
  def explicitAlt : Alts → String → Val → Bool
    | .nil, _, _ => true
    | .cons n t rest, name, v => if n == name then explicitDefaults t v else explicitAlt rest name v
end

def ID (t : Ty) : Prop :=
  ∀ v : Val, t.wf = true → hasType t v = true → explicitDefaults t v = true → canonJ t v = v

theorem id_leaf (t : Ty) (h : ∀ v, canonJ t v = v) : ID t := fun v _ _ _ => h v

theorem id_sequenceOf (e : Ty) (c : SizeC) (ih : ID e) : ID (.sequenceOf e c) := by
  intro v hwf ht hx
  cases v <;> simp only [hasType, Bool.false_eq_true] at ht
  rename_i vs
  simp only [Ty.wf, Bool.and_eq_true] at hwf
  simp only [Bool.and_eq_true, List.all_eq_true] at ht
  simp only [explicitDefaults, List.all_eq_true] at hx
  simp only [canonJ]
  congr 1
  have : ∀ x ∈ vs, canonJ e x = x := fun x hx' => ih x hwf.1 (ht.1 x hx') (hx x hx')
  clear ht hx
  induction vs with
  | nil => rfl
  | cons x r ihl =>
    rw [List.map_cons, this x (List.mem_cons_self ..), ihl (fun y hy => this y (List.mem_cons_of_mem _ hy))]

/-- the fields `hasMembers` consumes are exactly what `canonJMembers` rebuilds -/
theorem canonJMembers_of_hasMembers :
    ∀ (ms : Members) (fs rest pre0 : List (String × Val)), hasMembers ms fs = some rest → ms.names.Nodup →
      (∀ n ∈ ms.names, n ∉ fieldNames rest) → (∀ n ∈ ms.names, n ∉ fieldNames pre0) →
      MembersAll ID ms → ms.wf = true → explicitMembers ms (pre0 ++ fs) = true →
      ∃ pre, fs = pre ++ rest ∧ (∀ n ∈ fieldNames pre, n ∈ ms.names) ∧ canonJMembers ms (pre0 ++ fs) = pre := by
  intro ms
  induction ms using Members.ind with
  | nil =>
    intro fs rest pre0 h _ _ _ _ _ _
    simp only [hasMembers, Option.some.injEq] at h
    subst h
    exact ⟨[], rfl, by simp [fieldNames], rfl⟩
  | cons name p t ms ih =>
    intro fs rest pre0 h hnd hrest hpre hall hwf hx
    simp only [Members.names, List.nodup_cons] at hnd
    obtain ⟨hid, hall'⟩ := hall
    simp only [Members.wf, Bool.and_eq_true] at hwf
    have hname_pre : name ∉ fieldNames pre0 := hpre name (by simp [Members.names])
    have hrest' : ∀ n ∈ ms.names, n ∉ fieldNames rest :=
      fun n hn => hrest n (by simp [Members.names, hn])
    have hpre' : ∀ n ∈ ms.names, n ∉ fieldNames pre0 :=
      fun n hn => hpre n (by simp [Members.names, hn])
    simp only [explicitMembers, Bool.and_eq_true] at hx
    -- the member is absent from the value
    have absent : hasMembers ms fs = some rest → p ≠ .mandatory →
        ∃ pre, fs = pre ++ rest ∧ (∀ n ∈ fieldNames pre, n ∈ (Members.cons name p t ms).names) ∧
          canonJMembers (.cons name p t ms) (pre0 ++ fs) = pre := by
      intro h' hp
      obtain ⟨pre, h1, h2⟩ := hasMembers_split ms fs rest h'
      have hl : lookup name (pre0 ++ fs) = none := by
        rw [lookup_append_of_not_mem _ _ _ hname_pre]
        apply lookup_none_of_not_mem
        rw [h1]
        simp only [fieldNames, List.map_append, List.mem_append, not_or]
        exact ⟨fun hm => hnd.1 (h2 name hm), hrest name (by simp [Members.names])⟩
      simp only [hl] at hx
      have hopt : p = .optional := by
        cases p with
        | mandatory => exact absurd rfl hp
        | optional => rfl
        | default d => simp at hx
      subst hopt
      obtain ⟨pre', e1, e2, e3⟩ := ih fs rest pre0 h' hnd.2 hrest' hpre' hall' hwf.2 hx.2
      refine ⟨pre', e1, fun n hn => by simp [Members.names, e2 n hn], ?_⟩
      simp only [canonJMembers, hl]
      exact e3
    cases fs with
    | nil =>
      rw [hasMembers_cons_nil] at h
      have hp : p ≠ .mandatory := by intro e; subst e; simp at h
      have h' : hasMembers ms [] = some rest := by
        cases p with
        | mandatory => exact absurd rfl hp
        | optional => exact h
        | default d => exact h
      exact absent h' hp
    | cons x fs' =>
      obtain ⟨n, v⟩ := x
      rw [hasMembers_cons_cons] at h
      by_cases hn : n = name
      · subst hn
        simp only [beq_self_eq_true, if_true] at h
        by_cases ht : hasType t v = true
        · simp only [ht, if_true] at h
          have hl : lookup n (pre0 ++ (n, v) :: fs') = some v := by
            rw [lookup_append_of_not_mem _ _ _ hname_pre, lookup_cons]; simp
          simp only [hl] at hx
          have hx2 : explicitMembers ms ((pre0 ++ [(n, v)]) ++ fs') = true := by
            simpa using hx.2
          obtain ⟨pre', e1, e2, e3⟩ := ih fs' rest (pre0 ++ [(n, v)]) h hnd.2 hrest' (by
            intro m hm
            simp only [fieldNames, List.map_append, List.map_cons, List.map_nil, List.mem_append,
              List.mem_singleton, not_or]
            exact ⟨hpre' m hm, fun e => hnd.1 (e ▸ hm)⟩) hall' hwf.2 hx2
          refine ⟨(n, v) :: pre', by simp [e1], ?_, ?_⟩
          · intro m hm
            simp only [fieldNames, List.map_cons, List.mem_cons] at hm
            rcases hm with hm | hm
            · simp [Members.names, hm]
            · simp [Members.names, e2 m hm]
          · simp only [canonJMembers, hl, hid v hwf.1 ht hx.1]
            have : pre0 ++ (n, v) :: fs' = (pre0 ++ [(n, v)]) ++ fs' := by simp
            rw [this, e3]
        · simp [ht] at h
      · have hb : (n == name) = false := by simpa using hn
        simp only [hb, Bool.false_eq_true, if_false] at h
        have hp : p ≠ .mandatory := by intro e; subst e; simp at h
        have h' : hasMembers ms ((n, v) :: fs') = some rest := by
          cases p with
          | mandatory => exact absurd rfl hp
          | optional => exact h
          | default d => exact h
        exact absent h' hp

theorem id_sequence (root : Members) (ext : Bool) (adds : Members)
    (ihr : MembersAll ID root) (iha : MembersAll ID adds) : ID (.sequence root ext adds) := by
  intro v hwf ht hx
  cases v <;> try (simp only [hasType, Bool.false_eq_true] at ht)
  rename_i fs
  simp only [Ty.wf, Bool.and_eq_true, List.nodup_append, decide_eq_true_eq] at hwf
  obtain ⟨⟨⟨⟨hwr, hwa⟩, nd1, nd2, disj⟩, _⟩, _⟩ := hwf
  simp only [explicitDefaults, Bool.and_eq_true] at hx
  cases h1 : hasMembers root fs with
  | none => simp [h1] at ht
  | some rest =>
    simp only [h1] at ht
    cases h2 : hasMembers adds rest with
    | none => simp [h2] at ht
    | some rest' =>
      simp only [h2, List.isEmpty_iff] at ht
      subst ht
      obtain ⟨pre2', e2', m2'⟩ := hasMembers_split adds rest [] h2
      obtain ⟨pre1, e1, m1, c1⟩ := canonJMembers_of_hasMembers root fs rest [] h1 nd1 (by
          intro n hn hm
          rw [e2', List.append_nil] at hm
          exact disj n hn n (m2' n hm) rfl) (by simp [fieldNames]) ihr hwr (by simpa using hx.1)
      have hx2 : explicitMembers adds (pre1 ++ rest) = true := by rw [← e1]; exact hx.2
      obtain ⟨pre2, e2, _, c2⟩ := canonJMembers_of_hasMembers adds rest [] pre1 h2 nd2 (by simp [fieldNames])
        (fun n hn hm => disj n (m1 n hm) n hn rfl) iha hwa hx2
      simp only [List.nil_append] at c1
      simp only [canonJ, c1]
      rw [e1] 
      rw [c2]
      rw [List.append_nil] at e2
      rw [← e2]

theorem canonJAlt_mem (n : String) (v : Val) : ∀ as : Alts, (canonJAlt as n v).isSome = true → n ∈ as.names := by
  intro as
  induction as using Alts.ind with
  | nil => intro h; simp [canonJAlt] at h
  | cons m t rest ih =>
    intro h
    simp only [canonJAlt] at h
    by_cases hm : m = n
    · simp [Alts.names, hm]
    · have : (m == n) = false := beq_eq_false_iff_ne.mpr hm
      simp only [this, Bool.false_eq_true, if_false] at h
      simp [Alts.names, ih h]

theorem canonJAlt_id (n : String) (v : Val) : ∀ as : Alts, AltsAll ID as → as.wf = true →
    hasAlt as n v = true → explicitAlt as n v = true → canonJAlt as n v = some v := by
  intro as
  induction as using Alts.ind with
  | nil => intro _ _ h; simp [hasAlt] at h
  | cons m t rest ih =>
    intro hall hwf h hx
    obtain ⟨hid, hall'⟩ := hall
    simp only [Alts.wf, Bool.and_eq_true] at hwf
    simp only [hasAlt] at h
    simp only [explicitAlt] at hx
    simp only [canonJAlt]
    by_cases hm : m = n
    · subst hm
      simp only [beq_self_eq_true, if_true] at h hx ⊢
      rw [hid v hwf.1 h hx]
    · have hb : (m == n) = false := beq_eq_false_iff_ne.mpr hm
      simp only [hb, Bool.false_eq_true, if_false] at h hx ⊢
      exact ih hall' hwf.2 h hx

theorem id_choice (root : Alts) (ext : Bool) (adds : Alts)
    (ihr : AltsAll ID root) (iha : AltsAll ID adds) : ID (.choice root ext adds) := by
  intro v hwf ht hx
  cases v <;> try (simp only [hasType, Bool.false_eq_true] at ht)
  rename_i n v
  simp only [Ty.wf, Bool.and_eq_true, List.nodup_append, decide_eq_true_eq] at hwf
  obtain ⟨⟨⟨⟨hwr, hwa⟩, _⟩, ⟨_, _, disj⟩⟩, _⟩ := hwf
  simp only [Bool.or_eq_true] at ht
  simp only [explicitDefaults, Bool.and_eq_true] at hx
  simp only [canonJ]
  cases h1 : canonJAlt root n v with
  | some w =>
    have hmem : n ∈ root.names := canonJAlt_mem n v root (by simp [h1])
    have hta : hasAlt adds n v = false :=
      hasAlt_false_of_not_mem n v adds (fun hm => disj n hmem n hm rfl)
    have htr : hasAlt root n v = true := by
      rcases ht with ht | ht
      · exact ht
      · rw [hta] at ht; cases ht
    have := canonJAlt_id n v root ihr hwr htr hx.1
    rw [h1] at this
    cases this
    rfl
  | none =>
    simp only
    cases h2 : canonJAlt adds n v with
    | some w =>
      have hta : hasAlt adds n v = true := by
        rcases ht with ht | ht
        · have := canonJAlt_id n v root ihr hwr ht hx.1
          rw [h1] at this; cases this
        · exact ht
      have := canonJAlt_id n v adds iha hwa hta hx.2
      rw [h2] at this
      cases this
      rfl
    | none => rfl

theorem id_all (t : Ty) : ID t :=
  Ty.rec (motive_1 := ID) (motive_2 := MembersAll ID) (motive_3 := AltsAll ID)
    (id_leaf _ (fun v => by cases v <;> rfl)) (id_leaf _ (fun v => by cases v <;> rfl))
    (fun c => id_leaf _ (fun v => by cases v <;> rfl))
    (fun r e => id_leaf _ (fun v => by cases v <;> rfl))
    (fun c => id_leaf _ (fun v => by cases v <;> rfl))
    (fun c => id_leaf _ (fun v => by cases v <;> rfl))
    (fun k c => id_leaf _ (fun v => by cases v <;> rfl))
    (fun root ext adds ihr iha => id_sequence root ext adds ihr iha)
    (fun e c ih => id_sequenceOf e c ih)
    (fun root ext adds ihr iha => id_choice root ext adds ihr iha)
    trivial (fun _ _ _ _ iht ihr => ⟨iht, ihr⟩)
    trivial (fun _ _ _ iht ihr => ⟨iht, ihr⟩) t

end Asn1.Jer
