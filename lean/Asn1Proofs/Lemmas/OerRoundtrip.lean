import Asn1Proofs.Lemmas.OerSequence
/-
  Round-trip theorem for the OER model (used by C01, C06, C16).

  `enc_total` is proved as stated.

  `roundtrip` as originally stated is FALSE (see `OerCounterexample.lean` for a machine-checked
  refutation): `encAdditions` swallows every error raised while encoding an extension addition
  (`except EncodeError: pass` in the code), and a well-typed value can still raise
  `.encodeError` -- `lenDet n` fails when `n` needs more than 127 length octets (`n ≥ 2^1016`),
  which is exactly the case `enc_total` has to allow for.  The enclosing SEQUENCE is then encoded
  *successfully* without that addition, so the decoder cannot return it.
  The theorem is proved here as `roundtrip_partial` with the single extra hypothesis
  `noSwallow t v = true` (`OerDefs.lean`): every present extension addition of every SEQUENCE value
  inside `v` encodes without error.
-/
namespace Asn1.Oer

theorem et_all (t : Ty) : ET t :=
  Ty.rec (motive_1 := ET) (motive_2 := Members.AllO ET) (motive_3 := Alts.AllO ET)
    et_boolean et_null et_integer et_enumerated et_octetString et_bitString et_charString
    (fun root ext adds ihr _ => et_sequence root ext adds ihr)
    (fun e c ih => et_sequenceOf e c ih)
    (fun root ext adds ihr iha => et_choice root ext adds ihr iha)
    trivial (fun _ _ _ _ iht ihr => ⟨iht, ihr⟩)
    trivial (fun _ _ _ iht ihr => ⟨iht, ihr⟩) t

theorem rt_all (t : Ty) : RT t :=
  Ty.rec (motive_1 := RT) (motive_2 := Members.AllO RT) (motive_3 := Alts.AllO RT)
    rt_boolean rt_null rt_integer rt_enumerated rt_octetString rt_bitString rt_charString
    (fun root ext adds ihr iha => rt_sequence root ext adds ihr iha)
    (fun e c ih => rt_sequenceOf e c ih)
    (fun root ext adds ihr iha => rt_choice root ext adds ihr iha)
    trivial (fun _ _ _ _ iht ihr => ⟨iht, ihr⟩)
    trivial (fun _ _ _ iht ihr => ⟨iht, ihr⟩) t

/-- every well-typed value of a well-formed type encodes, unless a length needs more than 127 length octets -/
theorem enc_total (t : Ty) (v : Val)
    (hwf : t.wf = true) (hd : t.defaultsOk = true) (ht : hasType t v = true) :
    (∃ bytes, enc t v = .ok bytes) ∨ enc t v = .error .encodeError :=
  have _ := hd
  et_all t v hwf ht

/-
ORIGINAL STATEMENT (false without `hns`, refuted in `OerCounterexample.lean`):

theorem roundtrip (t : Ty) (v : Val) (bytes rest : Bytes)
    (hwf : t.wf = true) (hwf' : oerWf t = true) (hd : t.defaultsOk = true)
    (ht : hasType t v = true) (hu : utf8Ok t v = true) (he : enc t v = .ok bytes) :
    dec t (bytes ++ rest) = .ok (canon t v, rest)
-/

/-- decoding an encoding followed by arbitrary further octets returns the canonical value and
exactly the further octets.  Added hypothesis w.r.t. the original statement: `hns`. -/
theorem roundtrip_partial (t : Ty) (v : Val) (bytes rest : Bytes)
    (hwf : t.wf = true) (hwf' : oerWf t = true) (hd : t.defaultsOk = true)
    (ht : hasType t v = true) (hu : utf8Ok t v = true) (hns : noSwallow t v = true)
    (he : enc t v = .ok bytes) :
    dec t (bytes ++ rest) = .ok (canon t v, rest) :=
  rt_all t v bytes rest hwf hwf' hd ht hu hns he

end Asn1.Oer

#print axioms Asn1.Oer.enc_total
#print axioms Asn1.Oer.roundtrip_partial
