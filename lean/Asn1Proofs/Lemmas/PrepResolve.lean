import Asn1Proofs.Lemmas.PrepSpec
/-
  Reference resolution only ever returns the descriptor it started from or a type assignment of the
  dictionary; consequences for the DEFAULT conversion (`Absorbs`).
-/
namespace Asn1.SpecDict

/-- every type assignment of the skeleton satisfies `Pc` -/
def SkelAll (Pc : Core → Prop) (sk : Skel) : Prop :=
  ∀ mn m, (mn, m) ∈ sk → ∀ k c, (k, c) ∈ m.types → Pc c

section
variable {Pc : Core → Prop}

theorem lookupCore_all {sk : Skel} (h : SkelAll Pc sk) {f : Nat} {name mod : String} {c : Core}
    {mod' : String} (hl : lookupCore sk f name mod = some (c, mod')) : Pc c := by
  induction f generalizing mod with
  | zero => simp [lookupCore] at hl
  | succ f ih =>
    simp only [lookupCore] at hl
    split at hl
    · cases hl
    · rename_i m hm
      split at hl
      · rename_i c' hc
        cases hl
        exact h _ _ (find?_mem hm) _ _ (find?_mem hc)
      · split at hl
        · cases hl
        · exact ih hl

theorem resolveCore_all {sk : Skel} (h : SkelAll Pc sk) (lf f : Nat) (c : Core) (mod : String)
    (hc : Pc c) : Pc (resolveCore sk lf f c mod) := by
  induction f generalizing c mod with
  | zero => exact hc
  | succ f ih =>
    simp only [resolveCore]
    split
    · exact hc
    · split
      · exact hc
      · rename_i c' mod' heq
        exact ih c' mod' (lookupCore_all h heq)

theorem resolve_all {sk : Skel} (h : SkelAll Pc sk) (c : Core) (mod : String) (hc : Pc c) :
    Pc (resolve sk c mod) :=
  resolveCore_all h _ _ c mod hc

theorem mem_typesSkel {l : List (String × Desc)} {k : String} {c : Core}
    (h : (k, c) ∈ typesSkel l) : ∃ d, (k, d) ∈ l ∧ c = d.attrs.core := by
  induction l with
  | nil => simp [typesSkel] at h
  | cons x t ih =>
    obtain ⟨k', d'⟩ := x
    simp only [typesSkel, List.mem_cons, Prod.mk.injEq] at h
    rcases h with ⟨rfl, rfl⟩ | h
    · exact ⟨d', by simp, rfl⟩
    · obtain ⟨d, hd, hc⟩ := ih h
      exact ⟨d, by simp [hd], hc⟩

theorem mem_skel {s : Spec} {mn : String} {ms : ModSkel} (h : (mn, ms) ∈ skel s) :
    ∃ m, (mn, m) ∈ s ∧ ms = m.skel := by
  induction s with
  | nil => simp [skel] at h
  | cons x t ih =>
    obtain ⟨k', m'⟩ := x
    simp only [skel, List.mem_cons, Prod.mk.injEq] at h
    rcases h with ⟨rfl, rfl⟩ | h
    · exact ⟨m', by simp, rfl⟩
    · obtain ⟨m, hm, hc⟩ := ih h
      exact ⟨m, by simp [hm], hc⟩

theorem Desc.All.head {P : Attrs → Prop} {d : Desc} (h : d.All P) : P d.attrs := by
  cases d with
  | mk a b => simp only [Desc.All] at h; exact h.1

theorem SkelAll_of_SpecAll {s : Spec} (h : SpecAll (fun a => Pc a.core) s) : SkelAll Pc (skel s) := by
  intro mn ms hms k c hc
  obtain ⟨m, hm, rfl⟩ := mem_skel hms
  obtain ⟨d, hd, rfl⟩ := mem_typesSkel hc
  exact (h mn m hm k d hd).head

end

/-- absorption of a second DEFAULT conversion, from the value level -/
theorem Absorbs_of_value (sk : Skel) (m n : Bool) (mn : String) (a : Attrs)
    (h : ∀ v, a.default = some v →
      convDefault n (resolve sk a.core mn) (convDefault m (resolve sk a.core mn) v)
        = convDefault n (resolve sk a.core mn) v) :
    Absorbs sk n mn m a := by
  obtain ⟨ty, nm, tg, op, df, vs, nb, ex⟩ := a
  cases df with
  | none => rfl
  | some v =>
    have := h v rfl
    simp only [Absorbs, convAttrs, Attrs.core] at this ⊢
    rw [this]

end Asn1.SpecDict
