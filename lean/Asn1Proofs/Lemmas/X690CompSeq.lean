import Asn1Proofs.Lemmas.X690CompDefs
/-
  C04 completeness, SEQUENCE: what the strict reference decoder accepts as the components of a
  SEQUENCE (definite or indefinite length) is decoded to the same field list by the code's
  `decode_members` loops (`retry` / `gPass` / `fill`).
-/
set_option linter.unusedSimpArgs false
set_option linter.unusedVariables false
namespace Asn1.X690
open Asn1.Der (mkTag gPass gSeq retry fill finishMembers isEnd Cur MSt matchTag readLen)

/-! ### the two length forms -/

/-- end of the contents as the reference decoder sees it: nothing left (definite form, contents cut
out) / the end-of-contents octets (indefinite form) -/
def atEndB (indef : Bool) (z : Bytes) : Bool := if indef then startsEOC z else z.isEmpty

/-- the code's cursor at the point where the reference decoder has `z` left (followed by `extra`) -/
def curAt (indef : Bool) (z extra : Bytes) (k : Nat) : Cur :=
  ⟨z ++ extra, k, if indef then none else some z.length⟩

/-- the cursor after `is_end_of_data` was evaluated there: end-of-contents octets are consumed -/
def endCur (indef : Bool) (z extra : Bytes) (k : Nat) : Cur :=
  if indef && startsEOC z then ⟨z.drop 2 ++ extra, k + 2, none⟩ else curAt indef z extra k

theorem startsEOC_iff {z : Bytes} : startsEOC z = true ↔ ∃ r, z = 0 :: 0 :: r := by
  constructor
  · intro h
    match z, h with
    | 0 :: 0 :: r, _ => exact ⟨r, rfl⟩
  · rintro ⟨r, rfl⟩; rfl

theorem cs_isEnd_curAt (indef : Bool) (z extra : Bytes) (k : Nat) (h2 : indef = true → 2 ≤ z.length) :
    isEnd (curAt indef z extra k) = .ok (atEndB indef z, endCur indef z extra k) := by
  cases indef with
  | false =>
    simp only [curAt, endCur, atEndB, isEnd, Bool.false_and, if_false, Bool.false_eq_true]
    cases z <;> simp
  | true =>
    have hl := h2 rfl
    match z, hl with
    | a :: b :: r, _ =>
      by_cases h : startsEOC (a :: b :: r) = true
      · obtain ⟨r', e⟩ := startsEOC_iff.mp h
        cases e
        simp [curAt, endCur, atEndB, isEnd, startsEOC]
      · have hf : startsEOC (a :: b :: r) = false := by simpa using h
        simp only [curAt, endCur, atEndB, hf, if_true, Bool.and_false, if_false, Bool.false_eq_true,
          List.cons_append]
        unfold isEnd
        simp only []
        match a, b, hf with
        | 0, 0, hf => simp [startsEOC] at hf
        | 0, b + 1, _ => rfl
        | a + 1, b, _ => rfl

/-! ### tags -/

theorem cs_identifier_head (c : Bool) (i : Nat) : ∃ h t, identifier .context c i = h :: t ∧ h ≠ 0 := by
  unfold identifier
  simp only []
  split
  · exact ⟨_, [], rfl, by simp [TagClass.bits]⟩
  · exact ⟨_, _, rfl, by simp [TagClass.bits]⟩

theorem cs_stripPrefix_atEnd (indef c : Bool) (i : Nat) (z : Bytes) (h : atEndB indef z = true) :
    stripPrefix (identifier .context c i) z = none := by
  obtain ⟨hd, tl, e, hne⟩ := cs_identifier_head c i
  rw [e]
  cases indef with
  | false =>
    simp only [atEndB, if_false, Bool.false_eq_true, List.isEmpty_iff] at h
    subst h; rfl
  | true =>
    simp only [atEndB, if_true] at h
    obtain ⟨r, rfl⟩ := startsEOC_iff.mp h
    simp only [stripPrefix]
    have : (hd == 0) = false := by simpa using hne
    simp [this]

theorem cs_componentPresent_atEnd (indef : Bool) (t : Ty) (i : Nat) (z : Bytes) (h : atEndB indef z = true) :
    componentPresent t i z = false := by
  unfold componentPresent
  simp [cs_stripPrefix_atEnd indef _ i z h]

/-! ### the reference decoder on components -/

theorem cs_decComponentsS_cons (name : String) (p : Presence) (t : Ty) (rest : Members) (i fuel : Nat) (bs : Bytes) :
    decComponentsS (.cons name p t rest) i fuel bs =
      if componentPresent t i bs then
        match decVS t (some i) fuel bs with
        | none => none
        | some (v, r) =>
          match decComponentsS rest (i + 1) fuel r with
          | none => none
          | some (fs, r') => some ((name, v) :: fs, r')
      else
        match p with
        | .mandatory => none
        | .optional => decComponentsS rest (i + 1) fuel bs
        | .default d =>
          match decComponentsS rest (i + 1) fuel bs with
          | none => none
          | some (fs, r') => some ((name, d) :: fs, r') := by
  cases p <;> rw [decComponentsS] <;> rfl

theorem cs_fill_cons_none (name : String) (p : Presence) (t : Ty) (rest : Members) (ss : List (Option Val)) (ign : Bool) :
    fill (.cons name p t rest) (none :: ss) ign =
      match p with
      | .optional => fill rest ss ign
      | .default d =>
        match fill rest ss ign with
        | .ok r => .ok ((name, d) :: r)
        | .error e => .error e
      | .mandatory => if ign then .ok (Der.decodedOnly rest ss) else .error .decodeError := by
  cases p <;> rfl

theorem cs_fill_cons_some (name : String) (p : Presence) (t : Ty) (rest : Members) (v : Val)
    (ss : List (Option Val)) (ign : Bool) :
    fill (.cons name p t rest) (some v :: ss) ign =
      match fill rest ss ign with
      | .ok r => .ok ((name, v) :: r)
      | .error e => .error e := by
  cases p <;> rfl

/-- at the end of the contents every component is absent -/
theorem cs_absent (indef : Bool) (fuel : Nat) (ign : Bool) (ms : Members) :
    ∀ (i : Nat) (x y : Bytes) (fs : List (String × Val)), atEndB indef x = true →
      decComponentsS ms i fuel x = some (fs, y) →
      y = x ∧ fill ms (List.replicate ms.length none) ign = .ok fs := by
  induction ms using Members.ind with
  | nil =>
    intro i x y fs _ h
    rw [decComponentsS] at h
    cases h; exact ⟨rfl, rfl⟩
  | cons name p t rest ih =>
    intro i x y fs hx h
    rw [cs_decComponentsS_cons, cs_componentPresent_atEnd indef t i x hx] at h
    simp only [Bool.false_eq_true, if_false] at h
    simp only [Members.length, List.replicate_succ]
    rw [cs_fill_cons_none]
    cases p with
    | mandatory => cases h
    | optional => exact ih (i + 1) x y fs hx h
    | default d =>
      simp only [] at h ⊢
      cases hr : decComponentsS rest (i + 1) fuel x with
      | none => simp [hr] at h
      | some z =>
        obtain ⟨fs', y'⟩ := z
        simp only [hr, Option.some.injEq, Prod.mk.injEq] at h
        obtain ⟨h1, h2⟩ := h
        subst h1; subst h2
        obtain ⟨e1, e2⟩ := ih (i + 1) x y' fs' hx hr
        exact ⟨e1, by rw [e2]⟩

/-- not at the end: the input starts with the tag of the first present component, or what follows
the components does -/
theorem cs_next_tag (indef : Bool) (fuel : Nat) (ms : Members) :
    ∀ (i lo : Nat) (x y : Bytes) (fs : List (String × Val)),
      decComponentsS ms i fuel x = some (fs, y) → i + ms.length ≤ lo →
      (atEndB indef y = true ∨ TagGe lo y) → atEndB indef x = false → TagGe i x := by
  induction ms using Members.ind with
  | nil =>
    intro i lo x y fs h hlo hy hx
    rw [decComponentsS] at h
    cases h
    rcases hy with hy | hy
    · rw [hy] at hx; cases hx
    · exact hy.mono (by simp [Members.length] at hlo; omega)
  | cons name p t rest ih =>
    intro i lo x y fs h hlo hy hx
    rw [cs_decComponentsS_cons] at h
    simp only [Members.length] at hlo
    by_cases hp : componentPresent t i x = true
    · exact tagGe_of_componentPresent hp
    · simp only [hp, if_false, Bool.false_eq_true] at h
      have key : ∀ fs', decComponentsS rest (i + 1) fuel x = some (fs', y) → TagGe i x := fun fs' h' =>
        (ih (i + 1) lo x y fs' h' (by omega) hy hx).mono (by omega)
      cases p with
      | mandatory => cases h
      | optional => exact key fs h
      | default d =>
        simp only [] at h
        cases hr : decComponentsS rest (i + 1) fuel x with
        | none => simp [hr] at h
        | some z =>
          obtain ⟨fs', y'⟩ := z
          simp only [hr, Option.some.injEq, Prod.mk.injEq] at h
          obtain ⟨h1, h2⟩ := h
          subst h2
          exact key fs' hr

/-! ### the code's pass over the components the reference decoder accepted -/

theorem cs_endCur_of_not_end {indef : Bool} {z : Bytes} (extra : Bytes) (k : Nat) (h : atEndB indef z = false) :
    endCur indef z extra k = curAt indef z extra k := by
  cases indef with
  | false => simp [endCur]
  | true =>
    simp only [atEndB, if_true] at h
    simp [endCur, h]

theorem cs_advance (indef : Bool) (x x' extra : Bytes) (k0 k : Nat) (h : x.length = k + x'.length) :
    (curAt indef x extra k0).advance k (x' ++ extra) = curAt indef x' extra (k0 + k) := by
  cases indef with
  | false =>
    simp only [curAt, Cur.advance, if_false, Bool.false_eq_true, Option.map_some]
    congr 2; omega
  | true => simp [curAt, Cur.advance]

theorem cs_gPass_ood (D : Der.Decoder) (ms : Members) :
    ∀ (i fuel : Nat) (st : MSt), st.ood = true →
      gPass D ms i fuel (List.replicate ms.length none) st = .ok (List.replicate ms.length none, st) := by
  induction ms using Members.ind with
  | nil => intro i fuel st _; rw [gPass]; rfl
  | cons name p t rest ih =>
    intro i fuel st h
    simp only [Members.length]
    rw [Der.gPass_cons_none _ _ _ _ _ _ _ _ _ (Der.replicate_headD _), Der.replicate_tail]
    simp only [h, if_true, ih (i + 1) fuel st h, List.replicate_succ]

theorem cs_gPass_idle (ms : Members) :
    ∀ (i fuel : Nat) (slots : List (Option Val)) (st : MSt),
      slots.length = ms.length → st.ood = false → 0 < fuel → TagGe (i + ms.length) st.cur.bs →
      gPass BerCodec.dec ms i fuel slots st = .ok (slots, st) := by
  induction ms using Members.ind with
  | nil =>
    intro i fuel slots st hl _ _ _
    simp only [Members.length, List.length_eq_zero_iff] at hl
    subst hl
    rw [gPass]
  | cons name p t rest ih =>
    intro i fuel slots st hl hood hf hst
    cases slots with
    | nil => simp [Members.length] at hl
    | cons s ss =>
      simp only [Members.length, List.length_cons, Nat.add_right_cancel_iff] at hl
      simp only [Members.length] at hst
      have hrec := ih (i + 1) fuel ss st hl hood hf
        (by rwa [show i + (rest.length + 1) = i + 1 + rest.length by omega] at hst)
      cases s with
      | some v =>
        rw [Der.gPass_cons_some _ _ _ _ _ _ _ _ _ v rfl]
        simp only [List.tail_cons, hrec]
      | none =>
        rw [Der.gPass_cons_none _ _ _ _ _ _ _ _ _ rfl]
        obtain ⟨j, u, c, r, hj, hbs⟩ := hst
        have hmis := BerCodec.ber_isCodec.mism t i j u c r fuel (by omega) hf
        simp only [hood, if_false, Bool.false_eq_true, List.tail_cons, hbs, hmis]
        simp only [hrec]

/-- one pass of `decode_members` that starts before the end of the contents: exactly the
components the reference decoder found present are decoded, with the same values -/
theorem cs_pass (indef ign : Bool) (fuel : Nat) (ms : Members) :
    ms.AllO COMP →
    ∀ (i lo fuelC : Nat) (x y extra : Bytes) (fs : List (String × Val)) (k0 : Nat) (succ : Bool),
      decComponentsS ms i fuel x = some (fs, y) → i + ms.length ≤ lo →
      (atEndB indef y = true ∨ TagGe lo y) → (indef = true → 2 ≤ y.length) →
      atEndB indef x = false → (x ++ extra).length < fuelC →
      y.length ≤ x.length ∧
      ∃ slots succ',
        gPass BerCodec.dec ms i fuelC (List.replicate ms.length none) ⟨curAt indef x extra k0, false, succ⟩
          = .ok (slots, ⟨endCur indef y extra (k0 + (x.length - y.length)), atEndB indef y, succ'⟩) ∧
        fill ms slots ign = .ok fs ∧ slots.length = ms.length := by
  induction ms using Members.ind with
  | nil =>
    intro _ i lo fuelC x y extra fs k0 succ h hlo hy h2 hx hf
    rw [decComponentsS] at h
    cases h
    refine ⟨Nat.le_refl _, [], succ, ?_, rfl, rfl⟩
    rw [gPass, cs_endCur_of_not_end extra _ hx, hx]
    simp
  | cons name p t rest ih =>
    intro hall i lo fuelC x y extra fs k0 succ h hlo hy h2 hx hf
    have ih' := ih hall.2
    rw [cs_decComponentsS_cons] at h
    simp only [Members.length] at hlo ⊢
    rw [Der.gPass_cons_none _ _ _ _ _ _ _ _ _ (Der.replicate_headD _), Der.replicate_tail]
    simp only [Bool.false_eq_true, if_false]
    have hbs : (curAt indef x extra k0).bs = x ++ extra := rfl
    rw [hbs]
    by_cases hp : componentPresent t i x = true
    · -- present
      simp only [hp, if_true] at h
      cases hv : decVS t (some i) fuel x with
      | none => simp [hv] at h
      | some z =>
        obtain ⟨v, x'⟩ := z
        simp only [hv] at h
        cases hr : decComponentsS rest (i + 1) fuel x' with
        | none => simp [hr] at h
        | some z' =>
          obtain ⟨fs', y'⟩ := z'
          simp only [hr, Option.some.injEq, Prod.mk.injEq] at h
          obtain ⟨h1, h2'⟩ := h
          subst h1; subst h2'
          obtain ⟨k, hk, hlen⟩ := hall.1 (some i) fuel fuelC x x' extra v hv hf
          rw [hk]
          simp only []
          rw [cs_advance indef x x' extra k0 k hlen]
          by_cases hx' : atEndB indef x' = true
          · -- the end of the contents follows: the other components are absent
            obtain ⟨e1, e2⟩ := cs_absent indef fuel ign rest (i + 1) x' y' fs' hx' hr
            subst e1
            have h2x : indef = true → 2 ≤ y'.length := h2
            rw [cs_isEnd_curAt indef y' extra (k0 + k) h2x]
            simp only [hx']
            rw [cs_gPass_ood _ rest (i + 1) fuelC _ rfl]
            refine ⟨by omega, some v :: List.replicate rest.length none, true, ?_, ?_, by simp⟩
            · have : k0 + (x.length - y'.length) = k0 + k := by omega
              rw [this]
            · rw [cs_fill_cons_some, e2]
          · have hx'f : atEndB indef x' = false := by simpa using hx'
            have hf' : (x' ++ extra).length < fuelC := by
              simp only [List.length_append] at hf ⊢; omega
            obtain ⟨hle, slots', succ', hg, hfill, hsl⟩ :=
              ih' (i + 1) lo fuelC x' y' extra fs' (k0 + k) true hr (by omega) hy h2 hx'f hf'
            have h2x : indef = true → 2 ≤ x'.length := fun hi => by have := h2 hi; omega
            rw [cs_isEnd_curAt indef x' extra (k0 + k) h2x]
            simp only [hx'f, cs_endCur_of_not_end extra _ hx'f]
            rw [hg]
            refine ⟨by omega, some v :: slots', succ', ?_, ?_, by simp [hsl]⟩
            · have : k0 + k + (x'.length - y'.length) = k0 + (x.length - y'.length) := by omega
              rw [this]
            · rw [cs_fill_cons_some, hfill]
    · -- absent: the input starts with a later tag
      simp only [hp, if_false, Bool.false_eq_true] at h
      have key : ∀ fs', decComponentsS rest (i + 1) fuel x = some (fs', y) →
          y.length ≤ x.length ∧ BerCodec.dec t (some i) fuelC (x ++ extra) = .ok none ∧ ∃ slots' succ',
            gPass BerCodec.dec rest (i + 1) fuelC (List.replicate rest.length none)
                ⟨curAt indef x extra k0, false, succ⟩
              = .ok (slots', ⟨endCur indef y extra (k0 + (x.length - y.length)), atEndB indef y, succ'⟩) ∧
            fill rest slots' ign = .ok fs' ∧ slots'.length = rest.length := by
        intro fs' hr
        obtain ⟨hle, slots', succ', hg, hfill, hsl⟩ :=
          ih' (i + 1) lo fuelC x y extra fs' k0 succ hr (by omega) hy h2 hx hf
        obtain ⟨j, u, c, r, hj, hxe⟩ := cs_next_tag indef fuel rest (i + 1) lo x y fs' hr (by omega) hy hx
        have hmis := BerCodec.ber_isCodec.mism t i j u c (r ++ extra) fuelC (by omega) (by omega)
        have e : x ++ extra = mkTag u c (some j) ++ (r ++ extra) := by rw [hxe, List.append_assoc]
        exact ⟨hle, by rw [e, hmis], slots', succ', hg, hfill, hsl⟩
      cases p with
      | mandatory => cases h
      | optional =>
        obtain ⟨hle, hmis, slots', succ', hg, hfill, hsl⟩ := key fs h
        rw [hmis]
        simp only []
        rw [hg]
        exact ⟨hle, none :: slots', succ', rfl, by rw [cs_fill_cons_none]; exact hfill, by simp [hsl]⟩
      | default d =>
        simp only [] at h
        cases hr : decComponentsS rest (i + 1) fuel x with
        | none => simp [hr] at h
        | some z =>
          obtain ⟨fs', y'⟩ := z
          simp only [hr, Option.some.injEq, Prod.mk.injEq] at h
          obtain ⟨h1, h2'⟩ := h
          subst h1; subst h2'
          obtain ⟨hle, hmis, slots', succ', hg, hfill, hsl⟩ := key fs' hr
          rw [hmis]
          simp only []
          rw [hg]
          exact ⟨hle, none :: slots', succ', rfl, by rw [cs_fill_cons_none]; simp only [hfill], by simp [hsl]⟩

/-- the `while True` loop of `decode_members` over the components the reference decoder accepted -/
theorem cs_retry (indef ign : Bool) (fuel : Nat) (ms : Members) (hall : ms.AllO COMP)
    (i lo fuelC : Nat) (x y extra : Bytes) (fs : List (String × Val)) (k0 : Nat)
    (h : decComponentsS ms i fuel x = some (fs, y)) (hlo : i + ms.length ≤ lo)
    (hy : atEndB indef y = true ∨ TagGe lo y) (h2 : indef = true → 2 ≤ y.length)
    (hf : (x ++ extra).length < fuelC) :
    y.length ≤ x.length ∧ ∃ slots,
      retry (gPass BerCodec.dec ms i fuelC) (ms.length + 1) (List.replicate ms.length none) (curAt indef x extra k0)
        = .ok (slots, endCur indef y extra (k0 + (x.length - y.length)), atEndB indef y) ∧
      fill ms slots ign = .ok fs := by
  rw [retry]
  by_cases hx : atEndB indef x = true
  · -- nothing to decode
    obtain ⟨e1, e2⟩ := cs_absent indef fuel ign ms i x y fs hx h
    subst e1
    rw [cs_isEnd_curAt indef y extra k0 h2]
    simp only [hx]
    rw [cs_gPass_ood _ ms i fuelC _ rfl]
    refine ⟨Nat.le_refl _, List.replicate ms.length none, ?_, e2⟩
    simp
  · have hxf : atEndB indef x = false := by simpa using hx
    obtain ⟨hle, slots, succ', hg, hfill, hsl⟩ :=
      cs_pass indef ign fuel ms hall i lo fuelC x y extra fs k0 false h hlo hy h2 hxf hf
    have h2x : indef = true → 2 ≤ x.length := fun hi => by have := h2 hi; omega
    rw [cs_isEnd_curAt indef x extra k0 h2x]
    simp only [hxf, cs_endCur_of_not_end extra _ hxf]
    rw [hg]
    refine ⟨hle, slots, ?_, hfill⟩
    simp only []
    by_cases hexit : (atEndB indef y || !succ') = true
    · simp [hexit]
    · simp only [Bool.or_eq_true, Bool.not_eq_true', not_or, Bool.not_eq_true, Bool.not_eq_false] at hexit
      obtain ⟨hyf, hs⟩ := hexit
      subst hs
      simp only [hyf, Bool.not_true, Bool.or_false, Bool.false_eq_true, if_false]
      -- a member was decoded, so there is one, and the loop has fuel for one more (idle) pass
      cases ms with
      | nil =>
        rw [gPass] at hg
        simp only [Except.ok.injEq, Prod.mk.injEq, MSt.mk.injEq] at hg
        exact absurd hg.2.2.2 (by simp)
      | cons name p t rest =>
        simp only [Members.length]
        rw [retry]
        have hcur : endCur indef y extra (k0 + (x.length - y.length)) = curAt indef y extra (k0 + (x.length - y.length)) :=
          cs_endCur_of_not_end extra _ hyf
        rw [hcur, cs_isEnd_curAt indef y extra _ h2]
        simp only [hyf, hcur]
        have htag : TagGe (i + (Members.cons name p t rest).length) (y ++ extra) := by
          rcases hy with hy | hy
          · rw [hy] at hyf; cases hyf
          · exact (hy.mono hlo).append extra
        have hidle := cs_gPass_idle (.cons name p t rest) i fuelC slots
          ⟨curAt indef y extra (k0 + (x.length - y.length)), false, false⟩ hsl rfl (by omega) htag
        rw [hidle]
        simp

/-! ### SEQUENCE -/

theorem cs_takeN_append_some {n : Nat} {bs c r : Bytes} (e : Bytes) (h : takeN n bs [] = some (c, r)) :
    takeN n (bs ++ e) [] = some (c, r ++ e) := by
  obtain ⟨h1, h2⟩ := takeN_some h
  subst h1; subst h2
  rw [List.append_assoc, takeN_append]

theorem cs_readLength_append {bs r : Bytes} {L : Len} (e : Bytes) (h : readLength bs = some (L, r)) :
    readLength (bs ++ e) = some (L, r ++ e) := by
  cases bs with
  | nil => simp [readLength] at h
  | cons l t =>
    simp only [readLength, List.cons_append] at h ⊢
    split at h
    · cases h; rename_i h1; simp [h1]
    · split at h
      · cases h; rename_i h1 h2; simp [h1, h2]
      · split at h
        · rename_i h1 h2 h3
          simp only [h1, h2, h3, if_false, if_true]
          cases ht : takeN (l - 128) t [] with
          | none => simp [ht] at h
          | some z =>
            obtain ⟨ds, r'⟩ := z
            simp only [ht, Option.some.injEq, Prod.mk.injEq] at h
            obtain ⟨h4, h5⟩ := h
            subst h4; subst h5
            rw [cs_takeN_append_some e ht]
        · cases h

theorem cs_readLength_indef_length {bs r : Bytes} (h : readLength bs = some (.indefinite, r)) :
    bs.length = 1 + r.length := by
  cases bs with
  | nil => simp [readLength] at h
  | cons l t =>
    simp only [readLength] at h
    split at h
    · cases h
    · split at h
      · cases h; simp; omega
      · split at h
        · cases ht : takeN (l - 128) t [] with
          | none => simp [ht] at h
          | some z => simp [ht] at h
        · cases h

theorem cs_members_nil {ms : Members} (h : ms.length = 0) : ms = .nil := Der.members_nil_of_length h

theorem comp_sequence (root : Members) (e : Bool) (adds : Members)
    (ihr : root.AllO COMP) (iha : adds.AllO COMP) : COMP (.sequence root e adds) := by
  intro tg fuel fuelC bs rest extra v h hf
  rw [decVS] at h
  cases hs : stripPrefix (header (.sequence root e adds) tg true) bs with
  | none => simp [hs] at h
  | some r =>
    simp only [hs] at h
    have hbs := stripPrefix_some hs
    rw [header_eq_mkTag] at hbs
    have htag : mkTag (Der.univNumber (.sequence root e adds)) true tg = mkTag 16 true tg := rfl
    rw [htag] at hbs
    rw [BerCodec.ber_isCodec.seq, gSeq]
    have hin : bs ++ extra = mkTag 16 true tg ++ (r ++ extra) := by rw [hbs, List.append_assoc]
    rw [hin, Der.matchTag_self]
    simp only []
    unfold constructedContentsI at h
    cases hrl : readLength r with
    | none => simp [hrl] at h
    | some z =>
      obtain ⟨L, r'⟩ := z
      simp only [hrl] at h
      cases L with
      | definite n =>
        simp only [] at h
        cases htk : takeN n r' [] with
        | none => simp [htk] at h
        | some z2 =>
          obtain ⟨c, rest'⟩ := z2
          simp only [htk] at h
          cases hd1 : decComponentsS root 0 fuel c with
          | none => simp [hd1] at h
          | some z3 =>
            obtain ⟨fs1, c1⟩ := z3
            simp only [hd1] at h
            cases hd2 : decComponentsS adds root.length fuel c1 with
            | none => simp [hd2] at h
            | some z4 =>
              obtain ⟨fs2, c2⟩ := z4
              simp only [hd2] at h
              cases c2 with
              | cons _ _ => simp at h
              | nil =>
                simp only [Option.some.injEq, Prod.mk.injEq] at h
                obtain ⟨hv, hrest⟩ := h
                subst hv; subst hrest
                obtain ⟨hr1, hcn⟩ := takeN_some htk
                obtain ⟨hdr, hlen, hlenlen⟩ := readLen_of_readLength (d := false)
                  (cs_readLength_append extra hrl) (cs_takeN_append_some extra htk)
                rw [hlen]
                simp only []
                have hcur : (⟨r' ++ extra, (mkTag 16 true tg).length + hdr, some n⟩ : Cur)
                    = curAt false c (rest' ++ extra) ((mkTag 16 true tg).length + hdr) := by
                  simp [curAt, hr1, hcn]
                rw [hcur]
                simp only [List.length_append] at hlenlen hf
                have hrlen : r'.length = c.length + rest'.length := by rw [hr1]; simp
                have hbl : bs.length = (mkTag 16 true tg).length + r.length := by rw [hbs]; simp
                -- root loop
                have hy1 : atEndB false c1 = true ∨ TagGe root.length c1 := by
                  by_cases hc1 : atEndB false c1 = true
                  · exact Or.inl hc1
                  · exact Or.inr (cs_next_tag false fuel adds root.length (root.length + adds.length) c1 [] fs2 hd2
                      (Nat.le_refl _) (Or.inl rfl) (by simpa using hc1))
                obtain ⟨hle1, slots1, hret1, hfill1⟩ := cs_retry false false fuel root ihr 0 root.length fuelC
                  c c1 (rest' ++ extra) fs1 ((mkTag 16 true tg).length + hdr) hd1 (by omega) hy1
                  (fun h => by cases h) (by simp only [List.length_append]; omega)
                rw [hret1]
                simp only [hfill1]
                by_cases hal : adds.length = 0
                · have := cs_members_nil hal
                  subst this
                  rw [decComponentsS] at hd2
                  simp only [Option.some.injEq, Prod.mk.injEq] at hd2
                  obtain ⟨e1, e2⟩ := hd2
                  subst e1; subst e2
                  simp only [Members.length, if_true]
                  refine ⟨(mkTag 16 true tg).length + hdr + c.length, ?_, by omega⟩
                  simp [finishMembers, endCur, curAt, atEndB]
                · simp only [hal, if_false]
                  by_cases hend : atEndB false c1 = true
                  · -- the root loop reached the end of the contents: the additions loop is skipped
                    obtain ⟨e1, e2⟩ := cs_absent false fuel true adds root.length c1 [] fs2 hend hd2
                    subst e1
                    simp only [hend, if_true, e2]
                    refine ⟨(mkTag 16 true tg).length + hdr + c.length, ?_, by omega⟩
                    simp [finishMembers, endCur, curAt, atEndB]
                  · have hendf : atEndB false c1 = false := by simpa using hend
                    simp only [hendf, Bool.false_eq_true, if_false]
                    obtain ⟨hle2, slots2, hret2, hfill2⟩ := cs_retry false true fuel adds iha root.length
                      (root.length + adds.length) fuelC c1 [] (rest' ++ extra) fs2
                      ((mkTag 16 true tg).length + hdr + (c.length - c1.length)) hd2 (Nat.le_refl _) (Or.inl rfl)
                      (fun h => by cases h) (by simp only [List.length_append]; omega)
                    have hcur2 : endCur false c1 (rest' ++ extra) ((mkTag 16 true tg).length + hdr + (c.length - c1.length))
                        = curAt false c1 (rest' ++ extra) ((mkTag 16 true tg).length + hdr + (c.length - c1.length)) := by
                      simp [endCur]
                    rw [hcur2, hret2]
                    simp only [hfill2]
                    refine ⟨(mkTag 16 true tg).length + hdr + c.length, ?_, by omega⟩
                    simp [finishMembers, endCur, curAt, atEndB]
                    omega
      | indefinite =>
        simp only [] at h
        cases hd1 : decComponentsS root 0 fuel r' with
        | none => simp [hd1] at h
        | some z3 =>
          obtain ⟨fs1, c1⟩ := z3
          simp only [hd1] at h
          cases hd2 : decComponentsS adds root.length fuel c1 with
          | none => simp [hd2] at h
          | some z4 =>
            obtain ⟨fs2, c2⟩ := z4
            simp only [hd2] at h
            have hc2 : ∃ rest0, c2 = 0 :: 0 :: rest0 ∧ rest0 = rest ∧ v = Val.record (fs1 ++ fs2) := by
              match c2, h with
              | 0 :: 0 :: rest0, h =>
                simp only [Option.some.injEq, Prod.mk.injEq] at h
                exact ⟨rest0, rfl, h.2, h.1.symm⟩
            obtain ⟨rest0, hc2e, hr0, hv⟩ := hc2
            subst hc2e; subst hr0; subst hv
            have hlenI := readLen_of_readLength_indef (cs_readLength_append extra hrl)
            rw [hlenI]
            simp only []
            have hrl1 := cs_readLength_indef_length hrl
            have hbl : bs.length = (mkTag 16 true tg).length + r.length := by rw [hbs]; simp
            simp only [List.length_append] at hf
            have hcur : (⟨r' ++ extra, (mkTag 16 true tg).length + 1, none⟩ : Cur)
                = curAt true r' extra ((mkTag 16 true tg).length + 1) := rfl
            rw [hcur]
            -- the additions first (only for the length bookkeeping)
            obtain ⟨hle2, _, _, _⟩ := cs_retry true true fuel adds iha root.length
              (root.length + adds.length) (c1.length + extra.length + 1) c1 (0 :: 0 :: rest0) extra fs2 0 hd2 (Nat.le_refl _)
              (Or.inl rfl) (fun _ => by simp) (by simp only [List.length_append]; omega)
            simp only [List.length_cons] at hle2
            have hy1 : atEndB true c1 = true ∨ TagGe root.length c1 := by
              by_cases hc1 : atEndB true c1 = true
              · exact Or.inl hc1
              · exact Or.inr (cs_next_tag true fuel adds root.length (root.length + adds.length) c1 (0 :: 0 :: rest0)
                  fs2 hd2 (Nat.le_refl _) (Or.inl rfl) (by simpa using hc1))
            obtain ⟨hle1, slots1, hret1, hfill1⟩ := cs_retry true false fuel root ihr 0 root.length fuelC
              r' c1 extra fs1 ((mkTag 16 true tg).length + 1) hd1 (by omega) hy1
              (fun _ => by omega) (by simp only [List.length_append]; omega)
            rw [hret1]
            simp only [hfill1]
            by_cases hal : adds.length = 0
            · have := cs_members_nil hal
              subst this
              rw [decComponentsS] at hd2
              simp only [Option.some.injEq, Prod.mk.injEq] at hd2
              obtain ⟨e1, e2⟩ := hd2
              subst e1; subst e2
              simp only [Members.length, if_true]
              refine ⟨(mkTag 16 true tg).length + 1 + (r'.length - (rest0.length + 2)) + 2, ?_, by
                simp only [List.length_cons] at hle1; omega⟩
              simp [finishMembers, endCur, curAt, atEndB, startsEOC]
            · simp only [hal, if_false]
              by_cases hend : atEndB true c1 = true
              · -- the root loop consumed the end-of-contents octets: the additions loop is skipped
                -- (`while not out_of_data:`, /repo commit 300e5ac)
                obtain ⟨e1, e2⟩ := cs_absent true fuel true adds root.length c1 (0 :: 0 :: rest0) fs2 hend hd2
                subst e1
                simp only [hend, if_true, e2]
                refine ⟨(mkTag 16 true tg).length + 1 + (r'.length - (rest0.length + 2)) + 2, ?_, by
                  simp only [List.length_cons] at hle1; omega⟩
                simp [finishMembers, endCur, curAt, atEndB, startsEOC]
              · have hendf : atEndB true c1 = false := by simpa using hend
                have hc1 : startsEOC c1 = false := by simpa [atEndB] using hendf
                simp only [hendf, Bool.false_eq_true, if_false]
                have hcur2 : endCur true c1 extra ((mkTag 16 true tg).length + 1 + (r'.length - c1.length))
                    = curAt true c1 extra ((mkTag 16 true tg).length + 1 + (r'.length - c1.length)) :=
                  cs_endCur_of_not_end extra _ hendf
                obtain ⟨_, slots2, hret2, hfill2⟩ := cs_retry true true fuel adds iha root.length
                  (root.length + adds.length) fuelC c1 (0 :: 0 :: rest0) extra fs2
                  ((mkTag 16 true tg).length + 1 + (r'.length - c1.length)) hd2 (Nat.le_refl _) (Or.inl rfl)
                  (fun _ => by simp) (by simp only [List.length_append]; omega)
                rw [hcur2, hret2]
                simp only [hfill2]
                refine ⟨(mkTag 16 true tg).length + 1 + (r'.length - c1.length) + (c1.length - (rest0.length + 2)) + 2, ?_, by
                  omega⟩
                simp [finishMembers, endCur, curAt, atEndB, startsEOC]

end Asn1.X690

#print axioms Asn1.X690.comp_sequence
