import Asn1Proofs.Lemmas.PerSized
/-
  Aligned PER: round trip and totality for the known-multiplier character strings.
-/
set_option linter.unusedSimpArgs false
namespace Asn1.Per
open Asn1.Uper (inSize sizeBits encChunked alphabetOf charDecode EncM DecM All2
  canon_charString sizeOk_eq_inSize)

/-! ### characters -/

theorem numeric_lt : ∀ c ∈ Extracted.numericAlphabet, c < 128 := by decide

theorem alphabet_lt (k : StrKind) (c : Nat) (h : c ∈ alphabetOf k) : c < 128 := by
  cases k with
  | ia5 => exact Uper.ia5_lt c h
  | visible => exact Uper.visible_lt c h
  | numeric => exact numeric_lt c h
  | printable => exact Uper.printable_lt c h
  | utf8 => simp [alphabetOf] at h

set_option maxRecDepth 10000 in
theorem bitsPerChar_ge (k : StrKind) : Uper.bitsPerChar k ≤ bitsPerChar k := by
  cases k <;> decide

theorem char_rt (k : StrKind) (hk : k ≠ .utf8) (c : Nat) (hc : (alphabetOf k).contains c = true) :
    ∃ code, charCode k c = .ok code ∧ code < 2 ^ bitsPerChar k ∧ charDecode k code = .ok c := by
  obtain ⟨code, h1, h2, h3⟩ := Uper.char_rt k hk c hc
  have hlt := alphabet_lt k c (by simpa using hc)
  refine ⟨code, ?_, Nat.lt_of_lt_of_le h2 (Nat.pow_le_pow_right (by omega) (bitsPerChar_ge k)), h3⟩
  unfold charCode
  rw [if_neg (by omega)]
  exact h1

/-- one character of a known-multiplier string -/
def oneChar (k : StrKind) (s : St) : DecM (Nat × St) := do
  let (v, r) ← readNat (bitsPerChar k) s
  let ch ← charDecode k v
  .ok (ch, r)

/-- the position independent encoder of one character -/
def encChar (k : StrKind) (cp : Nat) : EncM Bits := (charCode k cp).map (natToBits (bitsPerChar k))

theorem elemRT_char (k : StrKind) (hk : k ≠ .utf8) (L : Nat) (cp : Nat)
    (hc : (alphabetOf k).contains cp = true) :
    ElemRT (fun _ cp => encChar k cp) (oneChar k) id L cp := by
  intro pos pos' bits rest _ he _
  obtain ⟨code, h1, h2, h3⟩ := char_rt k hk cp hc
  simp only [encChar, h1, Except.map] at he
  cases he
  simp only [oneChar, bind, Except.bind]
  rw [readNat_natToBits _ rest h2]
  simp only [h3, natToBits_length, id]

theorem all2_encChar (k : StrKind) (cps codes : List Nat) (h : cps.mapM (charCode k) = .ok codes) :
    All2 (fun cp item => encChar k cp = .ok item) cps (codes.map (natToBits (bitsPerChar k))) := by
  have h2 := Uper.all2_of_mapM _ _ _ h
  induction h2 with
  | nil => exact .nil
  | @cons cp code cps codes hx hr ih =>
    have htail : cps.mapM (charCode k) = .ok codes := by
      rw [Uper.mapM_cons', hx] at h
      cases hl : cps.mapM (charCode k) with
      | error e => rw [hl] at h; cases h
      | ok bs => rw [hl] at h; cases h; rfl
    exact .cons (by simp only [encChar, hx, Except.map]) (ih htail)

/-! ### the codec of a known-multiplier string -/

def encStrRoot (k : StrKind) (c : SizeC) (pos : Nat) (cps : List Nat) (pre : Bits) : EncM Bits :=
  match cps.mapM (charCode k) with
  | .error e => .error e
  | .ok codes =>
    match sizeBits c with
    | none =>
      .ok (pre ++ alignBits (pos + pre.length) ++ encChunked (codes.map (natToBits (bitsPerChar k))))
    | some w =>
      if ¬ inSize c cps.length then .error .unmodelled
      else
        .ok (pre ++ sizePrefix c w (pos + pre.length) cps.length
              (decide (c.hi.getD 0 > 1 ∧ cps.length > 0))
              (decide (c.hi.getD 0 * bitsPerChar k > 16))
            ++ (codes.map (natToBits (bitsPerChar k))).flatten)

theorem enc_charString (k : StrKind) (hk : k ≠ .utf8) (c : SizeC) (pos : Nat) (cps : List Nat) :
    enc (.charString k c) pos (.str cps) =
      if c.ext then
        match extRange c cps.length with
        | .typeError => .error .foreign
        | .outside => .error .notImplemented
        | .inside => encStrRoot k c pos cps [false]
      else encStrRoot k c pos cps [] := by
  cases k <;> first | exact absurd rfl hk | (rw [enc]; rfl; intro h; cases h)

def decStrRoot (k : StrKind) (c : SizeC) (fuel : Nat) (s0 : St) : DecM (Val × St) :=
  match sizeBits c with
  | none => do
    let (xs, r) ← decChunks (oneChar k) fuel (align s0)
    .ok (.str xs, r)
  | some w => do
    let (len, r) ← readSize c w (fun len => decide (c.hi.getD 0 > 1 ∧ len > 0))
      (decide (c.hi.getD 0 * bitsPerChar k > 16)) s0
    let (xs, r') ← decRepeat (oneChar k) len r
    .ok (.str xs, r')

theorem dec_charString (k : StrKind) (hk : k ≠ .utf8) (c : SizeC) (fuel : Nat) (s : St) :
    dec (.charString k c) fuel s = (do
      let (ext, s0) ← (if c.ext then readBit s else .ok (false, s))
      if ext then .error .notImplemented
      else decStrRoot k c fuel s0) := by
  cases k <;> first | exact absurd rfl hk | (rw [dec]; rfl; intro h; cases h)

theorem strRoot_rt (k : StrKind) (hk : k ≠ .utf8) (c : SizeC) (pos q : Nat) (cps : List Nat)
    (pre bits rest : Bits) (fuel : Nat) (hall : ∀ cp ∈ cps, (alphabetOf k).contains cp = true)
    (hq : q % 8 = (pos + pre.length) % 8)
    (he : encStrRoot k c pos cps pre = .ok bits) (hfuel : bits.length + rest.length + 2 ≤ fuel) :
    ∃ X, bits = pre ++ X ∧
      decStrRoot k c fuel ⟨q, X ++ rest⟩ = .ok (.str cps, ⟨q + X.length, rest⟩) := by
  unfold encStrRoot at he
  unfold decStrRoot
  split at he
  · cases he
  rename_i codes hcodes
  have hall2 := all2_encChar k cps codes hcodes
  have helem : ∀ cp ∈ cps, ElemRT (fun _ cp => encChar k cp) (oneChar k) id fuel cp :=
    fun cp hcp => elemRT_char k hk fuel cp (hall cp hcp)
  generalize codes.map (natToBits (bitsPerChar k)) = items at *
  have hlen : cps.length = items.length := Uper.All2.length_eq hall2
  split at he
  · rename_i hsb
    cases he
    refine ⟨_, List.append_assoc _ _ _, ?_⟩
    simp only [List.length_append] at hfuel
    simp only [hsb, bind, Except.bind, List.append_assoc]
    rw [align_alignBits _ _ _ hq]
    simp only [Uper.encChunked_eq] at hfuel ⊢
    have hch := encChunksM_of_all2 (encChar k) (items.length / 16384 + 2) cps items hall2
      (pos + pre.length + padLen (pos + pre.length))
    rw [decChunks_encChunksM (fun _ cp => encChar k cp) (oneChar k) id fuel
      (items.length / 16384 + 2) cps helem (by rw [hlen]; omega) _ _ _ rest
      (by have := add_padLen_mod (pos + pre.length); omega) hch
      (by omega) fuel (by omega)]
    simp only [List.map_id, List.length_append, alignBits_length, Nat.add_assoc]
  · rename_i w hsb
    split at he
    · cases he
    rename_i hin
    simp only [Decidable.not_not] at hin
    cases he
    refine ⟨_, List.append_assoc _ _ _, ?_⟩
    simp only [List.length_append] at hfuel
    simp only [hsb, bind, Except.bind, List.append_assoc]
    rw [readSize_sizePrefix c w _ _ _ _ _ _ _ hq hsb hin rfl]
    simp only
    have hsq := encSeqM_of_all2 (encChar k) cps items hall2
      (pos + pre.length + (sizePrefix c w (pos + pre.length) cps.length
        (decide (c.hi.getD 0 > 1 ∧ cps.length > 0))
        (decide (c.hi.getD 0 * bitsPerChar k > 16))).length)
    rw [decRepeat_encSeqM (fun _ cp => encChar k cp) (oneChar k) id fuel cps helem _ _ _ rest
      (by omega) hsq (by omega)]
    simp only [List.map_id, List.length_append, Nat.add_assoc]

theorem rt_charString (k : StrKind) (hk : k ≠ .utf8) (c : SizeC) : RT (.charString k c) := by
  intro v pos pos' bits rest fuel hwf _ _ ht hf hp he hfuel
  cases v <;> simp only [hasType, Bool.false_eq_true] at ht
  rename_i cps
  rw [canon_charString]
  rw [Ty.wf] at hwf
  simp only [Bool.and_eq_true, List.all_eq_true, sizeOk_eq_inSize] at ht
  obtain ⟨hall, hin⟩ := ht
  rw [enc_charString k hk] at he
  rw [dec_charString k hk]
  cases hext : c.ext with
  | false =>
    simp only [hext, Bool.false_eq_true, if_false] at he ⊢
    obtain ⟨X, hX, hdec⟩ := strRoot_rt k hk c pos pos' cps [] bits rest fuel hall
      (by simpa using hp) he hfuel
    subst hX
    simp only [bind, Except.bind, List.nil_append, Bool.false_eq_true, if_false, hdec]
  | true =>
    simp only [hext, if_true, extRange_eq hwf hext, hin] at he ⊢
    obtain ⟨X, hX, hdec⟩ := strRoot_rt k hk c pos (pos' + 1) cps [false] bits rest fuel hall
      (by simp only [List.length_singleton]; omega) he hfuel
    subst hX
    simp only [bind, Except.bind, List.cons_append, List.nil_append, readBit_cons,
      Bool.false_eq_true, if_false, hdec, List.length_cons, Except.ok.injEq, Prod.mk.injEq,
      true_and]
    exact St.eq_of_pos _ (by omega)

theorem et_charString (k : StrKind) (c : SizeC) : ET (.charString k c) := by
  by_cases hk : k = .utf8
  · subst hk; exact et_utf8 c
  intro v pos hwf ht
  cases v <;> simp only [hasType, Bool.false_eq_true] at ht
  rename_i cps
  rw [Ty.wf] at hwf
  simp only [Bool.and_eq_true, List.all_eq_true, sizeOk_eq_inSize] at ht
  obtain ⟨hall, hin⟩ := ht
  obtain ⟨codes, hcodes⟩ := Uper.mapM_ok_of_forall (charCode k) cps (by
    intro cp hcp
    obtain ⟨code, h1, _, _⟩ := char_rt k hk cp (hall cp hcp)
    exact ⟨code, h1⟩)
  have hroot : ∀ pre, ∃ bits, encStrRoot k c pos cps pre = .ok bits := by
    intro pre
    unfold encStrRoot
    rw [hcodes]
    simp only
    split
    · exact ⟨_, rfl⟩
    · simp only [hin, not_true_eq_false, if_false]; exact ⟨_, rfl⟩
  rw [enc_charString k hk]
  cases hext : c.ext with
  | false => simp only [Bool.false_eq_true, if_false]; exact hroot []
  | true => simp only [if_true, extRange_eq hwf hext, hin]; exact hroot _

theorem rt_anyString (k : StrKind) (c : SizeC) : RT (.charString k c) := by
  by_cases hk : k = .utf8
  · subst hk; exact rt_utf8 c
  · exact rt_charString k hk c

end Asn1.Per
